/-
(1) The `avail_in` / `avail_out` driver loop that the gzip, bzip2, xz/lzma/lzip
and zstd write filters share in shape
(`archive_write_add_filter_gzip.c: archive_compressor_gzip_write / _close /
drive_compressor`, and the same three functions in `_bzip2.c`, `_xz.c`,
`_zstd.c`), over an *abstract* streaming compressor: the library call
(`deflate`, `BZ2_bzCompress`, `lzma_code`, `ZSTD_compressStream2`) is a
parameter.

(2) The gzip member framing that libarchive writes and parses itself
(`archive_compressor_gzip_open` / `_close`; `archive_read_support_filter_gzip.c:
peek_at_header, consume_header, consume_trailer, gzip_filter_read`), with
deflate / inflate / crc32 as parameters.  The read filter *consumes* the 8-byte
trailer but does not verify CRC32 / ISIZE (the source says
"XXX TODO: Verify the length and CRC."); the model does exactly that.
-/
import LA.Model.Util
namespace LA.Drive

/-! ### the compressor driver -/

inductive Status | ok | streamEnd | error
  deriving DecidableEq, Repr

/-- One call of the library's streaming function: state, the pending input
(`next_in`, `avail_in`), `avail_out`, finishing? ↦ new state, bytes consumed,
bytes produced, return status (`Z_OK` / `Z_STREAM_END` / anything else).
`rank` is a bound on the work left; a call that returns `ok` without lowering
it made no progress (zlib answers `Z_BUF_ERROR` in that situation, which
`drive_compressor` treats as fatal). -/
structure ZCodec where
  σ : Type
  init : σ
  call : σ → List Nat → Nat → Bool → σ × Nat × List Nat × Status
  rank : σ → List Nat → Bool → Nat

structure DState (c : ZCodec) where
  z : c.σ
  buf : List Nat                  -- `data->compressed[0 .. compressed_buffer_size - avail_out)`
  out : List (List Nat) := []     -- blocks handed to `__archive_write_filter(f->next_filter, …)`

inductive DriveR (c : ZCodec)
  | ok (d : DState c)
  | fatal

/-- `drive_compressor(f, data, finishing)`; `inp` is `next_in[0 .. avail_in)`, `cap` is
`compressed_buffer_size`. -/
def driveLoop (c : ZCodec) (cap : Nat) (fin : Bool) (d : DState c) (inp : List Nat) : DriveR c :=
  -- `if (data->stream.avail_out == 0) { __archive_write_filter(next, compressed, size); reset }`
  let d1 : DState c := if d.buf.length = cap then { d with buf := [], out := d.out ++ [d.buf] } else d
  -- "If there's nothing to do, we're done."
  if !fin ∧ inp = [] then .ok d1
  else
    let r := c.call d1.z inp (cap - d1.buf.length) fin       -- (state, consumed, produced, status)
    let d2 : DState c := { z := r.1, buf := d1.buf ++ r.2.2.1, out := d1.out }
    match r.2.2.2 with
    | .ok =>
      -- "In non-finishing case, check if compressor consumed everything"
      if !fin ∧ inp.drop r.2.1 = [] then .ok d2
      else if h : c.rank r.1 (inp.drop r.2.1) fin < c.rank d.z inp fin then
        driveLoop c cap fin d2 (inp.drop r.2.1)
      else .fatal                   -- no progress: the next call would return Z_BUF_ERROR
    | .streamEnd => .ok d2          -- "This return can only occur in finishing case."
    | .error => .fatal
termination_by c.rank d.z inp fin

/-- `archive_compressor_*_write`: `SET_NEXT_IN(data, buff); avail_in = length; drive_compressor(f, data, 0)`. -/
def write (c : ZCodec) (cap : Nat) (r : DriveR c) (w : List Nat) : DriveR c :=
  match r with
  | .ok d => driveLoop c cap false d w
  | .fatal => .fatal

/-- `archive_compressor_*_close`: finish, write what is left in the buffer, then the trailer. -/
def close (c : ZCodec) (cap : Nat) (trailer : List Nat) (r : DriveR c) : Option (List (List Nat)) :=
  match r with
  | .fatal => none
  | .ok d =>
    match driveLoop c cap true d [] with
    | .fatal => none
    | .ok d' => some (d'.out ++ [d'.buf] ++ (if trailer = [] then [] else [trailer]))

/-- open (the output buffer is primed with `hdr`), one write per chunk, close.
Result: the blocks passed downstream. -/
def run (c : ZCodec) (cap : Nat) (hdr trailer : List Nat) (chunks : List (List Nat)) : Option (List (List Nat)) :=
  close c cap trailer (chunks.foldl (write c cap) (.ok { z := c.init, buf := hdr }))

/-- What is assumed of the library (the laws of DESIGN.md section 3): it absorbs
a prefix of the input and emits at most `avail_out` bytes per call; when it
reports the end of the stream everything was absorbed and what it has emitted in
total is `comp` of everything absorbed; it reports no error; and an `ok` call
with room in the output buffer and something to do makes progress. -/
structure Lawful (c : ZCodec) (comp : List Nat → List Nat) where
  absorbed : c.σ → List Nat
  emitted : c.σ → List Nat
  init_abs : absorbed c.init = []
  init_emit : emitted c.init = []
  consumed_le : ∀ z inp cap fin, (c.call z inp cap fin).2.1 ≤ inp.length
  produced_le : ∀ z inp cap fin, (c.call z inp cap fin).2.2.1.length ≤ cap
  abs_step : ∀ z inp cap fin, absorbed (c.call z inp cap fin).1 = absorbed z ++ inp.take (c.call z inp cap fin).2.1
  emit_step : ∀ z inp cap fin, emitted (c.call z inp cap fin).1 = emitted z ++ (c.call z inp cap fin).2.2.1
  end_spec : ∀ z inp cap fin, (c.call z inp cap fin).2.2.2 = .streamEnd →
    fin = true ∧ (c.call z inp cap fin).2.1 = inp.length ∧
    emitted (c.call z inp cap fin).1 = comp (absorbed (c.call z inp cap fin).1)
  no_error : ∀ z inp cap fin, 0 < cap → (c.call z inp cap fin).2.2.2 ≠ .error
  progress : ∀ z inp cap fin, 0 < cap → (inp ≠ [] ∨ fin = true) → (c.call z inp cap fin).2.2.2 = .ok →
    c.rank (c.call z inp cap fin).1 (inp.drop (c.call z inp cap fin).2.1) fin < c.rank z inp fin

/-! ### gzip member framing -/

def le32 (n : Nat) : List Nat := [n % 256, n / 256 % 256, n / 65536 % 256, n / 16777216 % 256]

/-- The ten bytes `archive_compressor_gzip_open` primes the buffer with
(`mtime = 0` when the `timestamp` option is off). -/
def gzHeader (mtime level : Nat) : List Nat :=
  [0x1f, 0x8b, 8, 0] ++ le32 mtime ++ [if level = 9 then 2 else if level = 1 then 4 else 0, 3]

/-- CRC32 and ISIZE, both little endian (`total_in` truncated to 32 bits). -/
def gzTrailer (crc size : Nat) : List Nat := le32 crc ++ le32 size

/-- One gzip member as the write filter produces it. -/
def gzMember (deflate : List Nat → List Nat) (crc32 : List Nat → Nat) (mtime level : Nat) (x : List Nat) : List Nat :=
  gzHeader mtime level ++ deflate x ++ gzTrailer (crc32 x) x.length

/-- Position just after the first NUL at or after `len` (`none`: no NUL). -/
def skipZ : List Nat → Nat → Option Nat
  | [], _ => none
  | c :: r, len => if c = 0 then some (len + 1) else skipZ r (len + 1)

/-- `peek_at_header(filter, NULL, state)`: the length of the gzip header at the
start of `s`, or 0.  `s` is everything the upstream filter can still deliver
(a request beyond its end makes `__archive_read_filter_ahead` return NULL). -/
def peekAtHeader (s : List Nat) : Nat :=
  if s.length < 10 then 0
  else if s.take 3 ≠ [0x1f, 0x8b, 8] then 0                      -- `memcmp(p, "\x1F\x8B\x08", 3)`
  else
    let flags := s.getD 3 0
    if flags / 32 ≠ 0 then 0                                     -- `(p[3] & 0xE0) != 0`
    else
      -- "Optional extra data: 2 byte length plus variable body."
      let l1 : Option Nat :=
        if flags / 4 % 2 = 1 then
          (if s.length < 12 then none else some (10 + (s.getD 10 0 + s.getD 11 0 * 256) + 2))
        else some 10
      -- "Null-terminated optional filename."
      let l2 : Option Nat := l1.bind fun len =>
        if flags / 8 % 2 = 1 then skipZ (s.drop len) len else some len
      -- "Null-terminated optional comment."
      let l3 : Option Nat := l2.bind fun len =>
        if flags / 16 % 2 = 1 then skipZ (s.drop len) len else some len
      -- "Optional header CRC"
      let l4 : Option Nat := l3.bind fun len =>
        if flags / 2 % 2 = 1 then (if s.length < len + 2 then none else some (len + 2)) else some len
      l4.getD 0

inductive GzR
  | eof (data : List Nat)          -- clean end: no (further) gzip header
  | fatal (data : List Nat)        -- truncated / corrupt
  deriving DecidableEq, Repr

def GzR.cons (o : List Nat) : GzR → GzR
  | .eof d => .eof (o ++ d)
  | .fatal d => .fatal (o ++ d)

/-- The member loop of `gzip_filter_read`: `consume_header` (EOF when there is no
header), inflate to the end of the deflate stream, `consume_trailer` (8 bytes,
not looked at), and again.  `inflate s` = the decompressed bytes and what
follows the deflate stream in `s`. -/
def gzRead (inflate : List Nat → Option (List Nat × List Nat)) (s : List Nat) : GzR :=
  let len := peekAtHeader s
  if hl : len = 0 then .eof []                                   -- `consume_header` → ARCHIVE_EOF
  else
    match hi : inflate (s.drop len) with
    | none => .fatal []                                          -- "gzip decompression failed" / "truncated gzip input"
    | some (x, r) =>
      if hr : r.length ≤ (s.drop len).length then
        -- `consume_trailer`: `__archive_read_filter_ahead(upstream, 8, &avail)` must succeed
        if r.length < 8 then .fatal x
        else GzR.cons x (gzRead inflate (r.drop 8))
      else .fatal x
termination_by s.length
decreasing_by
  simp only [List.length_drop] at hr ⊢
  omega

end LA.Drive
