/-
Model of the decision logic of libarchive/archive_match.c (property C16):
path inclusion/exclusion with its unmatched-inclusion bookkeeping, the time
filters and the per-pathname time exclusions, the owner filters, and
`archive_match_excluded()` which combines them.

Not modelled: `*_pattern_from_file`, `include_date` (the date parser),
`include_file_time` (stat), allocation failure (`error_nomem`), the
`archive_check_magic` state checks, the Windows code paths.

Strings are lists of code units as the matcher sees them.  On this platform the
API always patMatches multibyte strings (`path_excluded(a, 1, archive_entry_pathname(entry))`);
a `_w` setter stores wide characters that libarchive converts with the locale's
`wcrtomb` (UTF-8 in the harness) before matching — `utf8` below.
-/
import LA.Gen.MatchFlags
import LA.Model.Pm
namespace LA.Match
open LA.Pm
open LA.Gen.MatchFlags

/-- `flag & bit` is non-zero. -/
def has (flag bit : Nat) : Bool := (flag &&& bit) != 0

/-- UTF-8 encoding of one code point (what `wcrtomb` produces in a UTF-8 locale);
`none` for surrogates and values beyond U+10FFFF. -/
def utf8Enc (c : Nat) : Option (List Nat) :=
  if c < 0x80 then some [c]
  else if c < 0x800 then some [0xC0 + c / 64, 0x80 + c % 64]
  else if 0xD800 ≤ c ∧ c < 0xE000 then none
  else if c < 0x10000 then some [0xE0 + c / 4096, 0x80 + c / 64 % 64, 0x80 + c % 64]
  else if c < 0x110000 then some [0xF0 + c / 262144, 0x80 + c / 4096 % 64, 0x80 + c / 64 % 64, 0x80 + c % 64]
  else none

def utf8 (s : List Nat) : Option (List Nat) :=
  (s.mapM utf8Enc).map List.flatten

/-- `struct match`: a stored pattern or owner name with its `matched` mark. -/
structure Pat where
  pat : List Nat
  matched : Bool := false
  deriving Repr, DecidableEq

/-- One of the four `{newer,older}_{mtime,ctime}` filters: `filter` is the flag word
stored (0 = not set), then the reference time. -/
structure TimeFilter where
  filter : Nat := 0
  sec : Int := 0
  nsec : Int := 0
  deriving Repr, DecidableEq

/-- `struct match_file`: a per-pathname time exclusion. -/
structure ExclFile where
  path : List Nat
  flag : Nat
  mtimeSec : Int
  mtimeNsec : Int
  ctimeSec : Int
  ctimeNsec : Int
  deriving Repr, DecidableEq

/-- What the criteria read from an `archive_entry`. An unset time reads as (0, 0). -/
structure Entry where
  path : Option (List Nat) := none
  mtimeSec : Int := 0
  mtimeNsec : Int := 0
  ctimeSet : Bool := false
  ctimeSec : Int := 0
  ctimeNsec : Int := 0
  uid : Int := 0
  gid : Int := 0
  uname : Option (List Nat) := none
  gname : Option (List Nat) := none
  deriving Repr, DecidableEq

/-- `struct archive_match` -/
structure State where
  patternSet : Bool := false          -- setflag & PATTERN_IS_SET
  timeSet : Bool := false             -- setflag & TIME_IS_SET
  idSet : Bool := false               -- setflag & ID_IS_SET
  recursiveInclude : Bool := true
  exclusions : List Pat := []
  inclusions : List Pat := []
  /-- `inclusions.unmatched_count`, kept as the separate counter it is in the C -/
  unmatchedCount : Int := 0
  /-- `inclusions.unmatched_next` as an index (`none` = NULL) and `unmatched_eof` -/
  unmatchedNext : Option Nat := none
  unmatchedEof : Bool := false
  newerMtime : TimeFilter := {}
  newerCtime : TimeFilter := {}
  olderMtime : TimeFilter := {}
  olderCtime : TimeFilter := {}
  /-- `exclusion_tree` + `exclusion_entry_list`: keyed by pathname -/
  exclFiles : List ExclFile := []
  uids : List Int := []
  gids : List Int := []
  unames : List Pat := []
  gnames : List Pat := []
  deriving Repr

/-! ### patterns -/

/-- `add_pattern_mbs` / `add_pattern_wcs`: "Both "foo/" and "foo" should match "foo/bar"." -/
def stripSlash (p : List Nat) : List Nat :=
  if p.getLast? = some C_SLASH then p.dropLast else p

/-- `archive_match_include_pattern[_w]`: `none` = ARCHIVE_FAILED (NULL or empty pattern). -/
def includePattern (st : State) (p : Option (List Nat)) : Option State :=
  match p with
  | none => none
  | some [] => none
  | some p => some { st with inclusions := st.inclusions ++ [{ pat := stripSlash p }],
                             unmatchedCount := st.unmatchedCount + 1, patternSet := true }

/-- `archive_match_exclude_pattern[_w]` -/
def excludePattern (st : State) (p : Option (List Nat)) : Option State :=
  match p with
  | none => none
  | some [] => none
  | some p => some { st with exclusions := st.exclusions ++ [{ pat := stripSlash p }], patternSet := true }

def patMatches (p : List Nat) (pn : Option (List Nat)) (fl : Flags) : Bool :=
  pathmatch narrow (some p) pn fl == .yes

/-- `match_path_inclusion`: anchored at the start; a prefix match is enough when recursing. -/
def matchPathInclusion (st : State) (m : Pat) (pn : Option (List Nat)) : Bool :=
  patMatches m.pat pn { noStart := false, noEnd := st.recursiveInclude }

/-- `match_path_exclusion`: anchored nowhere (gtar). -/
def matchPathExclusion (m : Pat) (pn : Option (List Nat)) : Bool :=
  patMatches m.pat pn { noStart := true, noEnd := true }

/-- First loop of `path_excluded`: "Mark off any unmatched inclusions".  Returns the list and how
many were newly marked (`matched != NULL` ⇔ that number is not 0). -/
def markInclusions (st : State) (pn : Option (List Nat)) : List Pat → List Pat × Nat
  | [] => ([], 0)
  | m :: ms =>
    let r := markInclusions st pn ms
    if !m.matched && matchPathInclusion st m pn then ({ m with matched := true } :: r.1, r.2 + 1)
    else (m :: r.1, r.2)

/-- The rest of `path_excluded()` once the inclusions are marked (`incl`, `k` newly marked). -/
def pathVerdict (st : State) (incl : List Pat) (k : Nat) (pn : Option (List Nat)) : Int :=
  -- Exclusions take priority
  if st.exclusions.any (matchPathExclusion · pn) then 1
  -- It's not excluded and we found an inclusion above, so it's included.
  else if k ≠ 0 then 0
  -- We didn't find an unmatched inclusion, check the remaining ones.
  else if incl.any (fun m => m.matched && matchPathInclusion st m pn) then 0
  -- If there were inclusions, default is to exclude.
  else if !incl.isEmpty then 1
  -- No explicit inclusions, default is to match.
  else 0

/-- `path_excluded()`: the state afterwards and the value returned. -/
def pathExcluded (st : State) (pn : Option (List Nat)) : State × Int :=
  let r := markInclusions st pn st.inclusions
  ({ st with inclusions := r.1, unmatchedCount := st.unmatchedCount - r.2 }, pathVerdict st r.1 r.2 pn)

/-- `archive_match_path_unmatched_inclusions` -/
def unmatchedInclusions (st : State) : Int := st.unmatchedCount

/-- `match_list_unmatched_inclusions_next`: new `unmatched_next`, new `unmatched_eof`, and the
answer (`none` = ARCHIVE_EOF, `some p` = ARCHIVE_OK with `*vp = p`). -/
def unmatchedNextCalc (st : State) : Option Nat × Bool × Option (List Nat) :=
  if st.unmatchedEof then (st.unmatchedNext, false, none)
  else
    let start : Option Nat :=
      match st.unmatchedNext with
      | some i => some i
      | none => if st.unmatchedCount = 0 then none else some 0
    match start with
    | none => (st.unmatchedNext, st.unmatchedEof, none)
    | some i =>
      match (st.inclusions.drop i).findIdx? (fun m => !m.matched) with
      | none => (none, st.unmatchedEof, none)
      | some j =>
        let k := i + j
        let nxt := if k + 1 < st.inclusions.length then some (k + 1) else none
        -- "To return EOF next time."
        (nxt, nxt.isNone, (st.inclusions[k]?).map (·.pat))

def unmatchedNextStep (st : State) : State × Option (List Nat) :=
  let r := unmatchedNextCalc st
  ({ st with unmatchedNext := r.1, unmatchedEof := r.2.1 }, r.2.2)

/-! ### times -/

/-- `validate_time_flag` -/
def validTimeFlag (flag : Nat) : Bool :=
  !has flag (timeTypeMask - (matchMtime ||| matchCtime)) &&
  has flag (matchMtime ||| matchCtime) &&
  !has flag (timeCmpMask - (matchNewer ||| matchOlder ||| matchEqual)) &&
  has flag (matchNewer ||| matchOlder ||| matchEqual)

/-- `JUST_EQUAL(t)` -/
def justEqual (flag : Nat) : Bool :=
  (flag &&& (matchEqual ||| matchNewer ||| matchOlder)) == matchEqual

/-- `set_timefilter` -/
def setTimefilter (st : State) (flag : Nat) (msec mnsec csec cnsec : Int) : State :=
  let st := if has flag matchMtime then
      let st := if has flag matchNewer || justEqual flag then
        { st with newerMtime := ⟨flag, msec, mnsec⟩, timeSet := true } else st
      if has flag matchOlder || justEqual flag then
        { st with olderMtime := ⟨flag, msec, mnsec⟩, timeSet := true } else st
    else st
  if has flag matchCtime then
    let st := if has flag matchNewer || justEqual flag then
      { st with newerCtime := ⟨flag, csec, cnsec⟩, timeSet := true } else st
    if has flag matchOlder || justEqual flag then
      { st with olderCtime := ⟨flag, csec, cnsec⟩, timeSet := true } else st
  else st

/-- `archive_match_include_time`: `none` = ARCHIVE_FAILED -/
def includeTime (st : State) (flag : Nat) (sec nsec : Int) : Option State :=
  if validTimeFlag flag then some (setTimefilter st flag sec nsec sec nsec) else none

/-- `add_entry` via `archive_match_exclude_entry`: `none` = ARCHIVE_FAILED -/
def excludeEntry (st : State) (flag : Nat) (e : Entry) : Option State :=
  if !validTimeFlag flag then none else
  match e.path with
  | none => none
  | some pn =>
    let f : ExclFile := ⟨pn, flag, e.mtimeSec, e.mtimeNsec, e.ctimeSec, e.ctimeNsec⟩
    if st.exclFiles.any (·.path == pn) then
      -- "We always overwrite comparison condition."
      some { st with exclFiles := st.exclFiles.map fun g => if g.path == pn then f else g }
    else some { st with exclFiles := st.exclFiles ++ [f], timeSet := true }

/-- One "newer" filter of `time_excluded`: excluded when the entry time is below the
reference, or equal to it without ARCHIVE_MATCH_EQUAL. -/
def newerRejects (f : TimeFilter) (sec nsec : Int) : Bool :=
  f.filter != 0 &&
    (sec < f.sec || (sec == f.sec && (nsec < f.nsec || (nsec == f.nsec && !has f.filter matchEqual))))

/-- One "older" filter. -/
def olderRejects (f : TimeFilter) (sec nsec : Int) : Bool :=
  f.filter != 0 &&
    (sec > f.sec || (sec == f.sec && (nsec > f.nsec || (nsec == f.nsec && !has f.filter matchEqual))))

/-- The tail of `time_excluded`: comparison against a per-pathname record. -/
def fileRejects (flag : Nat) (fsec fnsec sec nsec : Int) : Bool :=
  if fsec > sec then has flag matchOlder
  else if fsec < sec then has flag matchNewer
  else if fnsec > nsec then has flag matchOlder
  else if fnsec < nsec then has flag matchNewer
  else has flag matchEqual

/-- `time_excluded()` -/
def timeExcluded (st : State) (e : Entry) : Bool :=
  -- "If ctime is not set, use mtime instead."
  let csec := if e.ctimeSet then e.ctimeSec else e.mtimeSec
  let cnsec := if e.ctimeSet then e.ctimeNsec else e.mtimeNsec
  if newerRejects st.newerCtime csec cnsec then true
  else if olderRejects st.olderCtime csec cnsec then true
  else if newerRejects st.newerMtime e.mtimeSec e.mtimeNsec then true
  else if olderRejects st.olderMtime e.mtimeSec e.mtimeNsec then true
  -- "If there is no exclusion list, include the file."
  else if st.exclFiles.isEmpty then false
  else
    match e.path with
    | none => false
    | some pn =>
      match st.exclFiles.find? (·.path == pn) with
      | none => false
      | some f =>
        if has f.flag matchCtime && fileRejects f.flag f.ctimeSec f.ctimeNsec e.ctimeSec e.ctimeNsec then true
        else if has f.flag matchMtime && fileRejects f.flag f.mtimeSec f.mtimeNsec e.mtimeSec e.mtimeNsec then true
        else false

/-! ### owners -/

/-- `add_owner_id`: sorted insert without duplicates. -/
def insertId : List Int → Int → List Int
  | [], id => [id]
  | x :: xs, id => if x ≥ id then (if x = id then x :: xs else id :: x :: xs) else x :: insertId xs id

/-- `match_owner_id`: binary search over `ids[t..b)`. -/
def bsearch (ids : Array Int) (id : Int) (t b : Nat) : Bool :=
  if h : t < b then
    let m := (t + b) / 2
    if ids[m]? = some id then true
    else if (ids[m]?.getD 0) < id then bsearch ids id (m + 1) b
    else bsearch ids id t m
  else false
termination_by b - t

def matchOwnerId (ids : List Int) (id : Int) : Bool := bsearch ids.toArray id 0 ids.length

/-- `match_owner_name_mbs`: first stored name equal to `name`; NULL and "" never match. -/
def matchOwnerName (names : List Pat) (name : Option (List Nat)) : Bool :=
  match name with
  | none => false
  | some [] => false
  | some n => names.any (·.pat == n)

/-- `owner_excluded()` -/
def ownerExcluded (st : State) (e : Entry) : Bool :=
  if !st.uids.isEmpty && !matchOwnerId st.uids e.uid then true
  else if !st.gids.isEmpty && !matchOwnerId st.gids e.gid then true
  else if !st.unames.isEmpty && !matchOwnerName st.unames e.uname then true
  else if !st.gnames.isEmpty && !matchOwnerName st.gnames e.gname then true
  else false

def includeUid (st : State) (id : Int) : State := { st with uids := insertId st.uids id, idSet := true }
def includeGid (st : State) (id : Int) : State := { st with gids := insertId st.gids id, idSet := true }
def includeUname (st : State) (n : List Nat) : State := { st with unames := st.unames ++ [{ pat := n }], idSet := true }
def includeGname (st : State) (n : List Nat) : State := { st with gnames := st.gnames ++ [{ pat := n }], idSet := true }

/-! ### the API entry points -/

/-- `archive_match_path_excluded` -/
def apiPathExcluded (st : State) (e : Entry) : State × Int :=
  if !st.patternSet then (st, 0) else pathExcluded st e.path

/-- `archive_match_time_excluded` -/
def apiTimeExcluded (st : State) (e : Entry) : Int :=
  if !st.timeSet then 0 else if timeExcluded st e then 1 else 0

/-- `archive_match_owner_excluded` -/
def apiOwnerExcluded (st : State) (e : Entry) : Int :=
  if !st.idSet then 0 else if ownerExcluded st e then 1 else 0

/-- `archive_match_excluded`: "Convenience function to perform all exclusion tests." -/
def excluded (st : State) (e : Entry) : State × Int :=
  let r1 := if st.patternSet then pathExcluded st e.path else (st, 0)
  (r1.1,
    if r1.2 ≠ 0 then r1.2
    else if r1.1.timeSet && timeExcluded r1.1 e then 1
    else if r1.1.idSet && ownerExcluded r1.1 e then 1
    else 0)

end LA.Match
