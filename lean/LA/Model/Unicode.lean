/-
Model of the hand-written Unicode codecs of libarchive/archive_string.c
(property C18; shared with C14/C15).

Conventions
* A `const char *s` with its `size_t n` is a `List Nat` (the bytes from `s` on,
  exactly as many as the block holds) plus the explicit `n`.  Every read is
  `xs[i]?`; a read outside the block is the distinguished result `oob`, never a
  default value.  "The decoder does not read past `n`" is then the theorem
  `n ≤ xs.length → decode xs n ≠ oob`.
* Bytes are natural numbers; the C reads them through `unsigned char` or masks
  a (signed) `char` before use, so only values below 256 occur.  Where the
  theorems need that they say so.
* Bit operations are written with `/`, `%`, `*`, `+` on `Nat`:
  `(b & 0xc0) == 0x80` is `b / 64 = 2`, `b & 0x3f` is `b % 64`,
  `(x << 6) | y` is `x * 64 + y` for `y < 64`, `(uc >> 6) & 0x3f` is
  `uc / 64 % 64`, `0x80 | y` is `128 + y` for `y < 64`.
* Return values are those of the C: bytes consumed, the negated count when the
  code point was replaced by U+FFFD, 0 at the end of the string.
* `archive_string` is `AStr`; `archive_string_ensure` is `ensure` with the growth
  policy of the C (32, double below 8192, +25 % above, at least the request).
  Writes into the buffer are checked against `buffer_length` one by one; a write
  at an index `≥ buffer_length` is the distinguished result `oobWrite`.
  `malloc` is assumed not to fail and sizes stay below 2^64.
-/
import LA.Model.Util
import LA.Gen.Utf8Table
namespace LA.Unicode
open LA.Gen.Utf8Table

/-- Result of one call `int f(uint32_t *pwc, const char *s, size_t n)`. -/
inductive Dec where
  /-- a read at an index outside the byte block -/
  | oob
  /-- return value, and the value stored through `pwc` (`none`: nothing stored) -/
  | ret (r : Int) (uc : Option Nat)
  deriving DecidableEq, Repr

/-- `(b & 0xc0) == 0x80` -/
def isCont (b : Nat) : Bool := b / 64 == 2

/-- `IS_HIGH_SURROGATE_LA` -/
def isHigh (uc : Nat) : Bool := highSurrogateLo ≤ uc && uc ≤ highSurrogateHi
/-- `IS_LOW_SURROGATE_LA` -/
def isLow (uc : Nat) : Bool := lowSurrogateLo ≤ uc && uc ≤ lowSurrogateHi
/-- `IS_SURROGATE_PAIR_LA` -/
def isSurrogate (uc : Nat) : Bool := surrogateLo ≤ uc && uc ≤ surrogateHi

/-- `invalid_sequence:` of the decoders: `*pwc = UNICODE_R_CHAR; return (cnt * -1);` -/
def invalid (cnt : Nat) : Dec := .ret (-(cnt : Int)) (some unicodeRChar)

/-- `for (i = 1; i < cnt; i++) if ((s[i] & 0xc0) != 0x80) { cnt = i; break; }`
of `_utf8_to_unicode`, entered with `i` and `k = cnt - i`; the result is the final `cnt`. -/
def contScan (xs : List Nat) (i : Nat) : Nat → Option Nat
  | 0 => some i
  | k + 1 =>
    match xs[i]? with
    | none => none
    | some b => if isCont b then contScan xs (i + 1) k else some i

/-- tail of `_utf8_to_unicode`: `if (wc > UNICODE_MAX) goto invalid_sequence; *pwc = wc; return (cnt);` -/
def utf8Final (cnt wc : Nat) : Dec :=
  if wc > unicodeMax then invalid cnt else .ret cnt (some wc)

/-- `_utf8_to_unicode(pwc, s, n)`: one UTF-8 sequence; surrogates D800..DFFF in
3-byte form are still accepted here (CESU-8 needs them).  `n < cnt` is the comparison
`n < (size_t)cnt` of the repaired code (the original `(int)n < cnt` went wrong for
`n ≥ 2^31`, see known_findings.json / corpus/C18/uni.length-over-int-max.ops). -/
def utf8Raw (xs : List Nat) (n : Nat) : Dec :=
  if n = 0 then .ret 0 none else
  match xs[0]? with
  | none => .oob
  | some ch =>
    if ch = 0 then .ret 0 none else
    let cnt := utf8Count.getD ch 0
    if n < cnt then
      -- not enough bytes: cnt = n, shortened at the first non-continuation byte
      match contScan xs 1 (n - 1) with
      | none => .oob
      | some c => invalid c
    else if cnt = 1 then .ret 1 (some (ch % 128))
    else if cnt = 2 then
      match xs[1]? with
      | none => .oob
      | some b1 =>
        if !isCont b1 then invalid 1
        else .ret 2 (some (ch % 32 * 64 + b1 % 64))
    else if cnt = 3 then
      match xs[1]? with
      | none => .oob
      | some b1 =>
        if !isCont b1 then invalid 1 else
        match xs[2]? with
        | none => .oob
        | some b2 =>
          if !isCont b2 then invalid 2 else
          let wc := ch % 16 * 4096 + b1 % 64 * 64 + b2 % 64
          if wc < 0x800 then invalid 3 else utf8Final 3 wc
    else if cnt = 4 then
      match xs[1]? with
      | none => .oob
      | some b1 =>
        if !isCont b1 then invalid 1 else
        match xs[2]? with
        | none => .oob
        | some b2 =>
          if !isCont b2 then invalid 2 else
          match xs[3]? with
          | none => .oob
          | some b3 =>
            if !isCont b3 then invalid 3 else
            let wc := ch % 8 * 262144 + b1 % 64 * 4096 + b2 % 64 * 64 + b3 % 64
            if wc < 0x10000 then invalid 4 else utf8Final 4 wc
    else
      -- `default:` every other lead byte is invalid; how many bytes go with it
      let c := if ch = 0xc0 ∨ ch = 0xc1 then 2
        else if 0xf5 ≤ ch ∧ ch ≤ 0xf7 then 4
        else if 0xf8 ≤ ch ∧ ch ≤ 0xfb then 5
        else if ch = 0xfc ∨ ch = 0xfd then 6
        else 1
      let c := if n < c then n else c
      match contScan xs 1 (c - 1) with
      | none => .oob
      | some c' => invalid c'

/-- `utf8_to_unicode`: as `_utf8_to_unicode`, a 3-byte surrogate is answered with -3
(the surrogate value stays in `*pwc`; `strncat_from_utf8_to_utf8` relies on that). -/
def utf8ToUnicode (xs : List Nat) (n : Nat) : Dec :=
  match utf8Raw xs n with
  | .oob => .oob
  | .ret r uc =>
    if r = 3 ∧ isSurrogate (uc.getD 0) then .ret (-3) uc else .ret r uc

/-- `combine_surrogate_pair` (called only with `uc` high and `uc2` low). -/
def combineSurrogatePair (uc uc2 : Nat) : Nat :=
  (uc - 0xD800) * 0x400 + (uc2 - 0xDC00) + 0x10000

/-- `cesu8_to_unicode`: UTF-8 where a supplementary character may also come as two
3-byte surrogates (CESU-8).  Models the code after the repair "consume the
unpaired high surrogate only" (all three `goto invalid_sequence` have `cnt == 3`). -/
def cesu8ToUnicode (xs : List Nat) (n : Nat) : Dec :=
  match utf8Raw xs n with
  | .oob => .oob
  | .ret r uco =>
    let wc := uco.getD 0          -- `uint32_t wc = 0;`
    if r = 3 ∧ isHigh wc then
      if n - 3 < 3 then invalid 3 else
      match utf8Raw (xs.drop 3) (n - 3) with
      | .oob => .oob
      | .ret r2 uco2 =>
        let wc2 := uco2.getD 0
        if r2 ≠ 3 ∨ !isLow wc2 then invalid 3
        else .ret 6 (some (combineSurrogatePair wc wc2))
    else if r = 3 ∧ isLow wc then invalid 3
    else .ret r (some wc)

/-- `unicode_to_utf8(p, remaining, uc)`: the bytes stored at `p[0..]`; `[]` is the
return value 0 (not enough room).  Does not check for surrogates. -/
def unicodeToUtf8 (remaining uc : Nat) : List Nat :=
  let uc := if uc > unicodeMax then unicodeRChar else uc
  if uc ≤ 0x7f then
    if remaining = 0 then [] else [uc]
  else if uc ≤ 0x7ff then
    if remaining < 2 then [] else [0xc0 + uc / 64 % 32, 0x80 + uc % 64]
  else if uc ≤ 0xffff then
    if remaining < 3 then [] else [0xe0 + uc / 4096 % 16, 0x80 + uc / 64 % 64, 0x80 + uc % 64]
  else
    if remaining < 4 then []
    else [0xf0 + uc / 262144 % 8, 0x80 + uc / 4096 % 64, 0x80 + uc / 64 % 64, 0x80 + uc % 64]

/-- `archive_be16dec` / `archive_le16dec` of two bytes. -/
def dec16 (be : Bool) (a b : Nat) : Nat := if be then a * 256 + b else b * 256 + a

/-- `archive_be16enc` / `archive_le16enc` of a `uint16_t`. -/
def enc16 (be : Bool) (v : Nat) : List Nat :=
  if be then [v / 256 % 256, v % 256] else [v % 256, v / 256 % 256]

/-- tail of `utf16_to_unicode` after `k` bytes were taken. -/
def utf16Final (k uc : Nat) : Dec :=
  if isSurrogate uc ∨ uc > unicodeMax then invalid k else .ret k (some uc)

/-- `utf16_to_unicode(pwc, s, n, be)` (`utf16be_to_unicode`, `utf16le_to_unicode`). -/
def utf16ToUnicode (be : Bool) (xs : List Nat) (n : Nat) : Dec :=
  if n = 0 then .ret 0 none
  else if n = 1 then invalid 1
  else
    match xs[0]?, xs[1]? with
    | some a, some b =>
      let uc := dec16 be a b
      if isHigh uc then
        if n ≥ 4 then
          match xs[2]?, xs[3]? with
          | some c, some d =>
            let uc2 := dec16 be c d
            if isLow uc2 then utf16Final 4 (combineSurrogatePair uc uc2) else invalid 2
          | _, _ => .oob
        else invalid 2       -- `uc2 = 0`
      else utf16Final 2 uc
    | _, _ => .oob

/-- `unicode_to_utf16be` / `unicode_to_utf16le`: bytes stored, `[]` = return value 0. -/
def unicodeToUtf16 (be : Bool) (remaining uc : Nat) : List Nat :=
  if uc > 0xffff then
    if remaining < 4 then [] else
    let uc := uc - 0x10000
    enc16 be (uc / 1024 % 1024 + 0xD800) ++ enc16 be (uc % 1024 + 0xDC00)
  else
    if remaining < 2 then [] else enc16 be (uc % 65536)

/-! ### `strncat_from_utf8_to_utf8` -/

/-- Result of a conversion loop at value level. -/
inductive Conv where
  | oob                       -- a source read outside the block
  | lenWrap                   -- `len -= n` with `n > len` (size_t wrap-around)
  | hang                      -- the loop made no progress and would run forever
  | ok (ret : Int) (out : List Nat)
  deriving DecidableEq, Repr

/-- The `for (;;)` of `strncat_from_utf8_to_utf8`, one code point per step: well-formed
sequences are copied verbatim (the C copies a whole run `src..e` at once), a CESU-8
pair is re-encoded as one 4-byte sequence, everything else becomes U+FFFD and
turns the return value into -1.  `out` is what has been appended so far. -/
def utf8ToUtf8Loop (xs : List Nat) (len : Nat) (out : List Nat) (ret : Int) : Conv :=
  match utf8ToUnicode xs len with
  | .oob => .oob
  | .ret r uc =>
    if r = 0 then .ok ret out
    else if 0 < r then
      let k := r.toNat
      if _h : k ≤ len ∧ 0 < k then
        utf8ToUtf8Loop (xs.drop k) (len - k) (out ++ xs.take k) ret
      else .lenWrap
    else
      -- the next code point needs conversion
      match (if r = -3 ∧ isSurrogate (uc.getD 0) then cesu8ToUnicode xs len else Dec.ret r uc) with
      | .oob => .oob
      | .ret n uc =>
        let ret := if n < 0 then -1 else ret
        let k := n.natAbs
        if k = 0 then .hang
        else if _h : k ≤ len then
          utf8ToUtf8Loop (xs.drop k) (len - k) (out ++ unicodeToUtf8 4 (uc.getD 0)) ret
        else .lenWrap
termination_by len
decreasing_by all_goals omega

/-- `strncat_from_utf8_to_utf8(as, src, len, sc)` at value level: return value and
the bytes appended to `as` (each append goes through `archive_string_append`,
which sizes the buffer itself). -/
def utf8ToUtf8 (xs : List Nat) (len : Nat) : Conv := utf8ToUtf8Loop xs len [] 0

/-! ### `archive_string`, `archive_string_ensure` -/

/-- `struct archive_string`: `s != NULL`, `buffer_length`, and the bytes `s[0..length)`. -/
structure AStr where
  alloc : Bool := false
  cap : Nat := 0
  data : List Nat := []
  deriving DecidableEq, Repr

/-- `archive_string_ensure(as, s)` (allocation assumed to succeed). -/
def ensure (as : AStr) (s : Nat) : AStr :=
  if as.alloc ∧ s ≤ as.cap then as else
  let nl := if as.cap < 32 then 32
    else if as.cap < 8192 then as.cap + as.cap
    else as.cap + as.cap / 4
  { as with alloc := true, cap := if nl < s then s else nl }

/-! ### `archive_string_append_unicode` -/

inductive Enc | utf8 | utf16be | utf16le
  deriving DecidableEq, Repr

/-- the `unparse` function pointer -/
def unparse : Enc → Nat → Nat → List Nat
  | .utf8 => unicodeToUtf8
  | .utf16be => unicodeToUtf16 true
  | .utf16le => unicodeToUtf16 false

/-- the `parse` function pointer -/
def parse : Enc → List Nat → Nat → Dec
  | .utf8 => cesu8ToUnicode
  | .utf16be => utf16ToUnicode true
  | .utf16le => utf16ToUnicode false

/-- `ts`: size of one text unit of the output (and of its terminator). -/
def Enc.ts : Enc → Nat
  | .utf8 => 1
  | _ => 2

/-- Which `unparse` the flag word of the conversion object selects (first `if` chain). -/
def toEnc (flag : Nat) : Enc :=
  if flag.testBit bitToUtf16be then .utf16be
  else if flag.testBit bitToUtf16le then .utf16le
  else if flag.testBit bitToUtf8 then .utf8
  else if flag.testBit bitFromUtf16be then .utf16be   -- "going to be converted through iconv"
  else if flag.testBit bitFromUtf16le then .utf16le
  else .utf8

/-- Which `parse` it selects (second `if` chain). -/
def fromEnc (flag : Nat) : Enc :=
  if flag.testBit bitFromUtf16be then .utf16be
  else if flag.testBit bitFromUtf16le then .utf16le
  else .utf8

/-- `tm` -/
def tmOf (flag : Nat) : Nat :=
  match fromEnc flag with
  | .utf8 => (toEnc flag).ts
  | _ => 1

inductive AppRes where
  | oobRead
  | oobWrite (idx cap : Nat)   -- a store at `as->s[idx]` with `idx ≥ buffer_length`
  | lenWrap
  | ok (ret : Int) (as : AStr)
  deriving DecidableEq, Repr

/-- `endp - p` as the `size_t` the C passes to `unparse`:
`endp = as->s + as->buffer_length - ts`, `p = as->s + length`. -/
def roomFor (as : AStr) (ts : Nat) : Nat :=
  if as.data.length + ts ≤ as.cap then as.cap - ts - as.data.length
  else 18446744073709551616 - (as.data.length + ts - as.cap)

theorem unparse_nil_lt (e : Enc) (r uc : Nat) (h : unparse e r uc = []) : r < 4 := by
  cases e <;> simp only [unparse, unicodeToUtf8, unicodeToUtf16, enc16] at h <;>
    (repeat' split at h) <;> first | omega | simp at h

theorem ensure_cap_ge (as : AStr) (s : Nat) : s ≤ (ensure as s).cap := by
  unfold ensure; split
  · omega
  · simp only []; (repeat' split) <;> omega

theorem ensure_data (as : AStr) (s : Nat) : (ensure as s).data = as.data := by
  unfold ensure; split <;> rfl

theorem Enc.ts_pos (e : Enc) : 0 < e.ts := by cases e <;> simp [Enc.ts]

/-- `while ((w = unparse(p, endp - p, uc)) == 0) { as->length = p - as->s;
archive_string_ensure(as, as->buffer_length + len * tm + ts); … } p += w;`
with `lenTm = len * tm`.  Every byte store is checked against `buffer_length`. -/
def unparseGrow (e : Enc) (lenTm : Nat) (uc : Nat) (as : AStr) : AppRes :=
  let bs := unparse e (roomFor as e.ts) uc
  if hb : bs = [] then
    if hw : as.data.length + e.ts ≤ as.cap then
      unparseGrow e lenTm uc (ensure as (as.cap + lenTm + e.ts))
    else .oobWrite as.data.length as.cap     -- not reachable: a wrapped `endp - p` is never too small
  else if as.data.length + bs.length ≤ as.cap then .ok 0 { as with data := as.data ++ bs }
  else .oobWrite as.cap as.cap
termination_by as.data.length + e.ts + 4 - as.cap
decreasing_by
  have h1 := unparse_nil_lt e _ uc hb
  simp only [roomFor, hw, if_true] at h1
  have h2 := ensure_cap_ge as (as.cap + lenTm + e.ts)
  have h3 := e.ts_pos
  rw [ensure_data]
  omega

/-- The `while ((n = parse(&uc, s, len)) != 0)` loop of `archive_string_append_unicode`.
`as.data` is the buffer content up to `p`. -/
def appendLoop (fe te : Enc) (tm : Nat) (xs : List Nat) (len : Nat) (as : AStr) (ret : Int) : AppRes :=
  match parse fe xs len with
  | .oob => .oobRead
  | .ret n uc =>
    if n = 0 then
      -- `as->length = p - as->s; as->s[as->length] = '\0'; if (ts == 2) as->s[as->length+1] = '\0';`
      if as.cap ≤ as.data.length then .oobWrite as.data.length as.cap
      else if te.ts = 2 ∧ as.cap ≤ as.data.length + 1 then .oobWrite (as.data.length + 1) as.cap
      else .ok ret as
    else
      let ret := if n < 0 then -1 else ret
      let k := n.natAbs
      if _h : k ≤ len ∧ 0 < k then
        match unparseGrow te ((len - k) * tm) (uc.getD 0) as with
        | .ok _ as' => appendLoop fe te tm (xs.drop k) (len - k) as' ret
        | r => r
      else .lenWrap
termination_by len
decreasing_by omega

/-- `archive_string_append_unicode(as, p, len, sc)` with `flag = sc->flag`. -/
def appendUnicode (flag : Nat) (as : AStr) (xs : List Nat) (len : Nat) : AppRes :=
  let te := toEnc flag
  let fe := fromEnc flag
  let tm := tmOf flag
  let as := ensure as (as.data.length + len * tm + te.ts)
  appendLoop fe te tm xs len as 0

/-! ### List-level meaning of the conversion loop (no buffer) -/

/-- What `archive_string_append_unicode` appends and returns, without the buffer:
decode with `parse fe`, replace what does not decode by U+FFFD (return value -1),
encode with `unparse te` (room for 4 bytes is always enough). -/
def transcode (fe te : Enc) (xs : List Nat) (len : Nat) (out : List Nat) (ret : Int) : Conv :=
  match parse fe xs len with
  | .oob => .oob
  | .ret n uc =>
    if n = 0 then .ok ret out
    else
      let ret := if n < 0 then -1 else ret
      let k := n.natAbs
      if _h : k ≤ len ∧ 0 < k then
        transcode fe te (xs.drop k) (len - k) (out ++ unparse te 4 (uc.getD 0)) ret
      else .lenWrap
termination_by len
decreasing_by omega

/-! ### `best_effort_strncat_to_utf16`, `best_effort_strncat_from_utf16` -/

/-- `best_effort_strncat_to_utf16(as16, p, length, sc, bigendian)`:
`archive_string_ensure(as16, as16->length + (length + 1) * 2)`, then every byte becomes
one UTF-16 unit (bytes above 127 become U+FFFD and the result -1), then two NULs. -/
def bestEffortToUtf16 (be : Bool) (as : AStr) (xs : List Nat) (length : Nat) : AppRes :=
  let as := ensure as (as.data.length + (length + 1) * 2)
  let rec go (xs : List Nat) (remaining : Nat) (as : AStr) (ret : Int) : AppRes :=
    match remaining with
    | 0 =>
      if as.cap ≤ as.data.length + 1 then .oobWrite (as.data.length + 1) as.cap else .ok ret as
    | r + 1 =>
      match xs[0]? with
      | none => .oobRead
      | some b =>
        -- `unsigned c = *s++;` sign-extends a `char`: every byte above 127 is > 127
        let (c, ret) := if b > 127 then (unicodeRChar, (-1 : Int)) else (b, ret)
        if as.cap < as.data.length + 2 then .oobWrite (as.data.length + 1) as.cap
        else go (xs.drop 1) r { as with data := as.data ++ enc16 be (c % 65536) } ret
  go xs length as 0

/-- `best_effort_strncat_from_utf16(as, p, bytes, sc, be)`:
`archive_string_ensure(as, as->length + bytes + 1)`; every decoded code point
becomes one byte, `?` (and the result -1) when it is above 127. -/
def bestEffortFromUtf16Loop (be : Bool) (xs : List Nat) (bytes : Nat) (as : AStr) (ret : Int) : AppRes :=
  match utf16ToUnicode be xs bytes with
  | .oob => .oobRead
  | .ret n uc =>
    if n = 0 then
      if as.cap ≤ as.data.length then .oobWrite as.data.length as.cap else .ok ret as
    else
      let ret := if n < 0 then -1 else ret
      let k := n.natAbs
      if _h : k ≤ bytes ∧ 0 < k then
        let (c, ret) := if uc.getD 0 > 127 then (63, (-1 : Int)) else (uc.getD 0, ret)
        if as.cap ≤ as.data.length then .oobWrite as.data.length as.cap
        else bestEffortFromUtf16Loop be (xs.drop k) (bytes - k) { as with data := as.data ++ [c] } ret
      else .lenWrap
termination_by bytes
decreasing_by omega

def bestEffortFromUtf16 (be : Bool) (as : AStr) (xs : List Nat) (bytes : Nat) : AppRes :=
  bestEffortFromUtf16Loop be xs bytes (ensure as (as.data.length + bytes + 1)) 0

/-! ### `archive_strncat_l` front end: where the source string ends -/

/-- `mbsnbytes(p, n)`: bytes before the first NUL, at most `n`. -/
def mbsnbytes : List Nat → Nat → Nat
  | _, 0 => 0
  | [], _ => 0
  | b :: xs, n + 1 => if b = 0 then 0 else mbsnbytes xs n + 1

/-- `utf16nbytes(p, n)`: bytes before the first 16-bit zero unit, at most `n & ~1`. -/
def utf16nbytes (xs : List Nat) (n : Nat) : Nat :=
  let rec go : List Nat → Nat → Nat
    | a :: b :: r, k + 1 => if a = 0 ∧ b = 0 then 0 else go r k + 2
    | _, _ => 0
  go xs (n / 2)

end LA.Unicode
