/-
Model of the entry-body interface of libarchive/archive_read.c:

  archive_read_data            (`readData`, loop body `step`, loop `readLoop`)
  __archive_reset_read_data    (`resetRD`)
  archive_read_data_block /
  _archive_read_data_block     (`dataBlock`: state check + the format's `read_data` hook)
  archive_read_data_skip       (`dataSkip`: format skip hook, or drain by blocks)
  _archive_read_next_header2   (`nextHeader`)
  __archive_check_magic        (only its state test: a call in a wrong state returns
                                ARCHIVE_FATAL and puts the handle in state FATAL)

The format reader is a *script*: for the entry being read, the list `evs` of the
results its `read_data` hook will still give (status + what it stores through
`buff/size/offset`), then `term` for ever; `entries` are the entries its
`read_header` hook will still deliver.  A well-formed entry is a list of OK
blocks followed by `eof`; everything else (blocks out of order, error statuses
in any position, hooks that store nothing) is representable too, because
`archive_read_data` has to cope with it.

Integers: offsets are `int64_t` in the C and mathematical integers here.  Inside
one call of `archive_read_data` the sum `read_data_output_offset + s` is
constant and bounds every intermediate value, so the model is exact whenever
`read_data_output_offset + s < 2^63` at entry (always, for buffers that exist).
Bytes are `Nat` (< 256 by construction of the scripts).
-/
import LA.Model.Util
import LA.Gen.Status
namespace LA.RD

/-- The negative status codes. -/
inductive Err | retry | warn | failed | fatal
  deriving DecidableEq, Repr

/-- What a format hook may return. -/
inductive St | ok | eof | err (e : Err)
  deriving DecidableEq, Repr

/-- Numeric values (extracted from archive.h): the read core compares them. -/
def Err.code : Err → Int
  | .retry => LA.Gen.Status.archiveRetry | .warn => LA.Gen.Status.archiveWarn
  | .failed => LA.Gen.Status.archiveFailed | .fatal => LA.Gen.Status.archiveFatal

def St.code : St → Int
  | .ok => LA.Gen.Status.archiveOk | .eof => LA.Gen.Status.archiveEof | .err e => e.code

/-- `a->archive.state`. -/
inductive AState | new | header | data | eof | closed | fatal
  deriving DecidableEq, Repr

/-- One scripted result of `format->read_data(a, &buff, &size, &offset)`: the
status and what is stored through the three pointers (`none`: nothing). -/
structure Ev where
  st : St
  out : Option (Int × List Nat) := none
  deriving DecidableEq, Repr

/-- Status of the terminal answer: anything but OK. -/
inductive TSt | eof | err (e : Err)
  deriving DecidableEq, Repr

def TSt.toSt : TSt → St
  | .eof => .eof | .err e => .err e

/-- What `read_data` answers once the events are used up, as often as it is asked:
a non-OK status, optionally storing `*size = 0, *offset = off` (the tar, cpio, ar,
7zip, rar ... readers store the entry's end offset together with ARCHIVE_EOF). -/
structure Term where
  st : TSt := .eof
  off : Option Int := none
  deriving DecidableEq, Repr

/-- One scripted entry: what `read_header` returns for it, the size it puts in
the entry object, its body script and the `read_data_skip` hook in force while
it is current (`none`: the hook pointer is NULL). -/
structure Entry where
  hst : St := .ok
  size : Nat := 0
  evs : List Ev := []
  term : Term := {}
  hook : Option St := none
  deriving DecidableEq, Repr

/-- The `read_data_*` members of `struct archive`.  `blk` is the
`read_data_remaining` bytes at `read_data_block`. -/
structure RDState where
  outOff : Int := 0          -- read_data_output_offset
  off : Int := 0             -- read_data_offset
  blk : List Nat := []       -- read_data_block[0 .. read_data_remaining)
  posix : Bool := false      -- read_data_is_posix_read
  requested : Nat := 0       -- read_data_requested
  deriving DecidableEq, Repr

structure H where
  state : AState := .new
  rd : RDState := {}
  evs : List Ev := []                 -- body script of the current entry, still to come
  term : Term := {}
  hook : Option St := none            -- a->format->read_data_skip
  evpos : Nat := 0                    -- how many `read_data` results of this entry are used up
  entries : List Entry := []          -- what read_header will still deliver
  nread : Nat := 0                    -- entries delivered by read_header so far
  fileCount : Nat := 0                -- a->archive.file_count
  entryObj : Option (Nat × Nat) := none   -- client's entry object: (index, size) or cleared
  deriving DecidableEq, Repr

/-- `__archive_reset_read_data`. -/
def resetRD : RDState := { outOff := 0, off := 0, blk := [], posix := false, requested := 0 }

/-- `archive_read_data_block(a, &buff, &size, &offset)`: `_archive_read_data_block`
checks the state (DATA) and calls the format's `read_data`.  Returns the status,
what was stored through the pointers, and the new handle. -/
def dataBlock (h : H) : St × Option (Int × List Nat) × H :=
  if h.state ≠ .data then (.err .fatal, none, { h with state := .fatal })
  else
    match h.evs with
    | e :: rest => (e.st, e.out, { h with evs := rest, evpos := h.evpos + 1 })
    | [] => (h.term.st.toSt, h.term.off.map fun o => (o, []), h)

/-- `read_data_block`, `read_data_remaining`, `read_data_offset` after the call. -/
def store (rd : RDState) : Option (Int × List Nat) → RDState
  | none => rd
  | some (o, bs) => { rd with off := o, blk := bs }

/-- "Compute the amount of zero padding needed." -/
def padLen (rd : RDState) (s : Nat) : Nat :=
  if rd.outOff + (s : Int) < rd.off then s
  else if rd.outOff < rd.off then (rd.off - rd.outOff).toNat
  else 0

inductive Ret
  | ok (bs : List Nat)                 -- returned `bs.length`, `bs` is in the buffer
  | err (e : Err) (lost : List Nat)    -- returned the status; `lost` was already written to the
                                       -- buffer by this call and its length is not reported
  deriving DecidableEq, Repr

/-- Result of one pass through the body of `while (s > 0)`. -/
inductive Step
  | done (r : Ret) (h : H)
  | more (h : H) (s : Nat) (acc : List Nat)
  deriving Repr

/-- Second half of the loop body: the out-of-order test, "Add zeroes", "Copy data
if there is any space left". -/
def padCopy (h : H) (s : Nat) (acc : List Nat) : Step :=
  if h.rd.off < h.rd.outOff then .done (.err .retry acc) h
  else
    let len := padLen h.rd s
    let s1 := s - len
    let rd1 := { h.rd with outOff := h.rd.outOff + (len : Int) }
    let acc1 := acc ++ List.replicate len 0
    if s1 > 0 then
      let len2 := Nat.min rd1.blk.length s1
      let rd2 := { rd1 with blk := rd1.blk.drop len2, outOff := rd1.outOff + (len2 : Int),
                            off := rd1.off + (len2 : Int) }
      .more { h with rd := rd2 } (s1 - len2) (acc1 ++ rd1.blk.take len2)
    else .more { h with rd := rd1 } s1 acc1

/-- The `if (a->read_data_offset == a->read_data_output_offset &&
a->read_data_remaining == 0) { ... archive_read_data_block(...) ... }` part: the
status and the handle with the three `read_data_*` members updated. -/
def fetch (h : H) (s : Nat) : St × H :=
  let r := dataBlock { h with rd := { h.rd with posix := true, requested := s } }
  (r.1, { r.2.2 with rd := store r.2.2.rd r.2.1 })

/-- One pass through the body of `while (s > 0)` in `archive_read_data`
(`s > 0`; `acc` is what the call has put in the buffer so far). -/
def step (h : H) (s : Nat) (acc : List Nat) : Step :=
  if h.rd.off = h.rd.outOff ∧ h.rd.blk = [] then
    match fetch h s with
    | (.eof, h2) =>
      -- the end offset reported with ARCHIVE_EOF lies beyond what was delivered: a trailing
      -- hole, filled below like any other
      if h2.rd.off ≤ h2.rd.outOff then .done (.ok acc) h2 else padCopy h2 s acc
    | (.err e, h2) => .done (.err e acc) h2
    | (.ok, h2) => padCopy h2 s acc
  else padCopy h s acc

theorem padCopy_more {h : H} {s : Nat} {acc : List Nat} {h' : H} {s' : Nat} {acc' : List Nat}
    (e : padCopy h s acc = .more h' s' acc') :
    h'.evs = h.evs ∧ s' ≤ s ∧ (¬ (h.rd.off = h.rd.outOff ∧ h.rd.blk = []) → 0 < s → s' < s) := by
  unfold padCopy at e
  split at e
  · cases e
  · simp only [] at e
    split at e
    · injection e with e1 e2 e3
      subst e1 e2
      refine ⟨rfl, by omega, ?_⟩
      intro hc hs
      by_cases hb : h.rd.blk = []
      · have : h.rd.off ≠ h.rd.outOff := fun x => hc ⟨x, hb⟩
        have : 0 < padLen h.rd s := by
          unfold padLen; split
          · exact hs
          · split <;> omega
        omega
      · have hl : 0 < h.rd.blk.length := List.length_pos_iff.mpr hb
        have : 0 < Nat.min h.rd.blk.length (s - padLen h.rd s) := by
          apply Nat.lt_min.mpr; constructor <;> omega
        omega
    · injection e with e1 e2 e3
      subst e1 e2
      refine ⟨rfl, by omega, fun _ hs => by omega⟩

theorem dataBlock_ok {h : H} {out : Option (Int × List Nat)} {h1 : H}
    (e : dataBlock h = (.ok, out, h1)) : h1.evs.length < h.evs.length := by
  unfold dataBlock at e
  split at e
  · cases e
  · split at e
    · injection e with _ e; injection e with _ e; subst e; simp_all
    · injection e with e _
      cases ht : h.term.st <;> simp [ht, TSt.toSt] at e

theorem fetch_ok {h : H} {s : Nat} {h2 : H} (e : fetch h s = (.ok, h2)) :
    h2.evs.length < h.evs.length := by
  unfold fetch at e
  simp only [] at e
  injection e with e1 e2
  have := dataBlock_ok (h := { h with rd := { h.rd with posix := true, requested := s } })
    (out := (dataBlock { h with rd := { h.rd with posix := true, requested := s } }).2.1)
    (h1 := (dataBlock { h with rd := { h.rd with posix := true, requested := s } }).2.2)
    (by rw [← e1])
  subst e2
  simpa using this

theorem dataBlock_evs_le (h : H) : (dataBlock h).2.2.evs.length ≤ h.evs.length := by
  unfold dataBlock
  split
  · simp
  · split <;> simp_all

theorem fetch_evs_le {h : H} {s : Nat} {st : St} {h2 : H} (e : fetch h s = (st, h2)) :
    h2.evs.length ≤ h.evs.length := by
  unfold fetch at e
  simp only [] at e
  injection e with e1 e2
  subst e2
  exact dataBlock_evs_le { h with rd := { h.rd with posix := true, requested := s } }

theorem step_more {h : H} {s : Nat} {acc : List Nat} {h' : H} {s' : Nat} {acc' : List Nat}
    (hs : 0 < s) (e : step h s acc = .more h' s' acc') :
    h'.evs.length < h.evs.length ∨ (h'.evs.length = h.evs.length ∧ s' < s) := by
  unfold step at e
  split at e
  · split at e
    · rename_i h2 hf
      split at e
      · cases e
      · rename_i hlt
        have := padCopy_more e
        have h3 := fetch_evs_le hf
        have h4 : s' < s := this.2.2 (fun x => hlt (by omega)) hs
        rw [this.1]
        omega
    · cases e
    · rename_i h2 hf
      left
      have := padCopy_more e
      have h3 := fetch_ok hf
      rw [this.1]; exact h3
  · rename_i hc
    have := padCopy_more e
    right; exact ⟨by rw [this.1], this.2.2 hc hs⟩

/-- The `while (s > 0)` loop of `archive_read_data` and the two statements after
it.  Terminates because every pass either uses up a scripted block or lowers `s`. -/
def readLoop (h : H) (s : Nat) (acc : List Nat) : Ret × H :=
  if hs : s = 0 then
    (.ok acc, { h with rd := { h.rd with posix := false, requested := 0 } })
  else
    match hst : step h s acc with
    | .done r h' => (r, h')
    | .more h' s' acc' => readLoop h' s' acc'
termination_by (h.evs.length, s)
decreasing_by
  have := step_more (Nat.pos_of_ne_zero hs) hst
  rcases this with h1 | ⟨h1, h2⟩
  · exact Prod.Lex.left _ _ h1
  · rw [h1]; exact Prod.Lex.right _ h2

/-- "A block left over from an earlier call belongs to the entry that was being read.  Once
the handle has left the DATA state (skip, close, failure) the memory behind it may be gone":
`if (a->state != ARCHIVE_STATE_DATA) __archive_reset_read_data(a);` -/
def enterReadData (h : H) : H := if h.state ≠ .data then { h with rd := resetRD } else h

/-- `archive_read_data(a, buff, s)`. -/
def readData (h : H) (s : Nat) : Ret × H := readLoop (enterReadData h) s []

/-- The drain loop of `archive_read_data_skip`:
`while ((r = archive_read_data_block(...)) == ARCHIVE_OK) ;` in state DATA. -/
def drain : List Ev → Nat → Term → St × List Ev × Nat
  | [], n, t => (t.st.toSt, [], n)
  | e :: rest, n, t => if e.st = .ok then drain rest (n + 1) t else (e.st, rest, n + 1)

/-- `archive_read_data_skip`. -/
def dataSkip (h : H) : St × H :=
  if h.state ≠ .data then (.err .fatal, { h with state := .fatal })
  else
    let (r, h1) : St × H :=
      match h.hook with
      | some st => (st, { h with evs := [], evpos := h.evpos + h.evs.length })   -- the scripted format's own skip
      | none => let d := drain h.evs h.evpos h.term; (d.1, { h with evs := d.2.1, evpos := d.2.2 })
    let r := if r = .eof then .ok else r
    (r, { h1 with state := .header })

/-- The scripted format's `read_header`. -/
def readHeader (h : H) : St × H :=
  match h.entries with
  | [] => (.eof, h)
  | e :: rest =>
    (e.hst, { h with entries := rest, nread := h.nread + 1, evs := e.evs, term := e.term, hook := e.hook,
                     evpos := 0, entryObj := some (h.nread, e.size) })

/-- `_archive_read_next_header2` from `++_a->file_count` on: `r1` is the status of the
skip of the previous body (ARCHIVE_OK when there was nothing to skip). -/
def headerRest (r1 : St) (h1 : H) : St × H :=
  let r := readHeader { h1 with fileCount := h1.fileCount + 1 }
  let h4 : H :=
    match r.1 with
    | .eof => { r.2 with state := .eof, fileCount := r.2.fileCount - 1 }   -- "Revert a file counter."
    | .ok => { r.2 with state := .data }
    | .err .warn => { r.2 with state := .data }
    | .err .retry => r.2
    | .err .fatal => { r.2 with state := .fatal }
    | .err .failed => r.2                                                  -- not in the `switch`
  -- "EOF always wins; otherwise return the worst error."
  ((if r.1.code < r1.code ∨ r.1 = .eof then r.1 else r1), { h4 with rd := resetRD })

/-- `_archive_read_next_header2`. -/
def nextHeader (h : H) : St × H :=
  if h.state ≠ .header ∧ h.state ≠ .data then (.err .fatal, { h with state := .fatal })
  else
    let h0 := { h with entryObj := none }                 -- archive_entry_clear
    if h.state = .data then
      -- "If client didn't consume entire data, skip any remainder"
      let d := dataSkip h0
      if d.1 = .eof ∨ d.1 = .err .fatal then (.err .fatal, { d.2 with state := .fatal })
      else headerRest d.1 d.2
    else headerRest .ok h0

/-- `archive_read_open*` with the scripted format as only bidder. -/
def openH (entries : List Entry) : H := { state := .header, entries := entries }

end LA.RD
