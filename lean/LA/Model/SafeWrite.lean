/-
Model of the ARCHIVE_EXTRACT_SAFE_WRITES path of the POSIX disk writer
(libarchive/archive_write_disk_posix.c) for ONE regular-file entry extracted
over an existing regular file, as used by C19.

What is modelled (function by function, names quoted in the doc comments):
`_archive_write_disk_header` → `restore_entry` → `create_filesystem_object`
(open O_CREAT|O_EXCL fails with EEXIST) → `lstat` → `la_mktemp` (mkstemp,
fchmod); `_archive_write_disk_data` / `_archive_write_disk_data_block` →
`write_data_block` (truncation at the declared size, the ARCHIVE_EXTRACT_SPARSE
loop that skips zero bytes and cuts writes at st_blksize boundaries, lseek +
write); `_archive_write_disk_finish_entry` (ftruncate to the declared size,
`lazy_stat`, the lseek+write fallback, `set_ownership`, `set_mode`,
`set_times_from_entry`, close, rename / unlink); `close_file_descriptor`;
`_archive_write_disk_close`; `_archive_write_disk_free`.

The model is a function from (old content, flags, declared size, data calls,
FAULT SET = the set of call indices that fail) to the log of file-system calls
it issues, each with its result and the file-system state after it, and to the
statuses of the API calls.  The kernel is the tiny file system `FS` below:
exactly the operations the disk writer issues, on a directory that holds the
target name and at most one temporary name.

The model follows the code AS REPAIRED by the four `fix:` commits of C19
(la_mktemp unlinks on fchmod failure and resets tmpname; close_file_descriptor
unlinks the temporary file; a failed write marks the temporary file incomplete
and finish_entry then unlinks instead of renaming; lazy_stat falls back to the
temporary name).  `Legacy` switches re-enable each unrepaired behaviour so that
the negation witnesses of C19 can be stated and replayed.

Not modelled: entries without a size, ACL/xattr/fflags/mac-metadata restore,
SECURE_* path checks, ARCHIVE_EXTRACT_UNLINK, short writes, setuid/setgid mode
bits, HFS+ compression, more than one entry per handle.
-/
import LA.Model.Util
namespace LA.SafeWrite

abbrev Bytes := List Nat

def zeros (n : Nat) : Bytes := List.replicate n 0

/-- `c` extended with zero bytes up to length `n` (unchanged when already longer). -/
def padTo (n : Nat) (c : Bytes) : Bytes := c ++ zeros (n - c.length)

/-- pwrite(2): `d` stored at offset `off`; a gap past the end reads as zeros. -/
def writeAt (c : Bytes) (off : Nat) (d : Bytes) : Bytes :=
  (padTo off c).take off ++ d ++ c.drop (off + d.length)

/-- ftruncate(2): cut, or extend with zeros. -/
def truncTo (n : Nat) (c : Bytes) : Bytes := (padTo n c).take n

/-! ## The file system -/

inductive Name
  | target   -- the entry's pathname
  | tmp      -- the `name.XXXXXX` that mkstemp picked
  deriving DecidableEq, Repr

/-- A directory with two possible names over an inode table (contents only), and
the single descriptor the disk writer holds (this code path never has two). -/
structure FS where
  target : Option Nat := none
  tmp : Option Nat := none
  inodes : List Bytes := []
  fd : Option Nat := none
  fdOn : Name := .tmp       -- the name the descriptor was opened through (reporting only)
  deriving DecidableEq, Repr

def FS.lookup (fs : FS) : Name → Option Nat
  | .target => fs.target
  | .tmp => fs.tmp

def FS.bind (fs : FS) (n : Name) (i : Option Nat) : FS :=
  match n with
  | .target => { fs with target := i }
  | .tmp => { fs with tmp := i }

/-- What a pathname resolves to: the content of its inode. -/
def FS.view (fs : FS) (n : Name) : Option Bytes :=
  match fs.lookup n with
  | some i => fs.inodes[i]?
  | none => none

def FS.setIno (fs : FS) (i : Nat) (c : Bytes) : FS := { fs with inodes := fs.inodes.set i c }

inductive Op
  | openExcl (n : Name)               -- open(n, O_WRONLY|O_CREAT|O_EXCL)
  | lstat (n : Name)
  | mkstemp                           -- mkstemp("name.XXXXXX")
  | unlink (n : Name)
  | rename (src dst : Name)
  | fstat | fchmod | fchown | futimens | close
  | lseek (off : Nat)
  | write (off : Nat) (d : Bytes)     -- write(fd, d) with the descriptor positioned at `off`
  | ftruncate (n : Nat)
  | lchown (n : Name) | chmod (n : Name) | utimensat (n : Name)
  deriving DecidableEq, Repr

/-- Kernel semantics of one call: new state and `some value` on success
(`value` = st_size for the stat calls), `none` on failure (no effect). -/
def FS.step (fs : FS) : Op → FS × Option Nat
  | .openExcl n =>
    match fs.lookup n with
    | some _ => (fs, none)                                   -- EEXIST
    | none =>
      let i := fs.inodes.length
      ({ (fs.bind n (some i)) with inodes := fs.inodes ++ [[]], fd := some i, fdOn := n }, some 0)
  | .lstat n => (fs, (fs.view n).map List.length)
  | .mkstemp =>
    match fs.tmp with
    | some _ => (fs, none)                                   -- (not reached: one entry, one temporary file)
    | none =>
      let i := fs.inodes.length
      ({ fs with tmp := some i, inodes := fs.inodes ++ [[]], fd := some i, fdOn := .tmp }, some 0)
  | .unlink n =>
    match fs.lookup n with
    | some _ => (fs.bind n none, some 0)
    | none => (fs, none)
  | .rename a b =>
    match fs.lookup a with
    | some i => ((fs.bind a none).bind b (some i), some 0)
    | none => (fs, none)
  | .fstat => (fs, fs.fd.bind fun i => fs.inodes[i]?.map List.length)
  | .write off d =>
    match fs.fd with
    | some i => (fs.setIno i (writeAt (fs.inodes[i]?.getD []) off d), some d.length)
    | none => (fs, none)
  | .ftruncate n =>
    match fs.fd with
    | some i => (fs.setIno i (truncTo n (fs.inodes[i]?.getD [])), some 0)
    | none => (fs, none)
  | .close =>
    match fs.fd with
    | some _ => ({ fs with fd := none }, some 0)
    | none => (fs, none)
  | .lseek _ | .fchmod | .fchown | .futimens => (fs, fs.fd.map fun _ => 0)
  | .lchown n | .chmod n | .utimensat n => (fs, (fs.lookup n).map fun _ => 0)

/-! ## The world: file system + log of calls; fault injection -/

inductive Res
  | ok (v : Nat)
  | err          -- failed on its own (EEXIST, EBADF, ENOENT)
  | inj          -- failure injected by the fault set (ENOSPC / EACCES / EIO)
  deriving DecidableEq, Repr

def Res.isOk : Res → Bool
  | .ok _ => true
  | _ => false

def Res.val : Res → Nat
  | .ok v => v
  | _ => 0

def Res.ofOpt : Option Nat → Res
  | some v => .ok v
  | none => .err

structure Ev where
  op : Op
  res : Res
  post : FS          -- the file system after the call = the state a crash right here leaves
  deriving DecidableEq, Repr

structure World where
  fs : FS
  log : List Ev := []
  deriving Repr

/-- Issue one system call.  The call with index `log.length` fails when the
fault set `F` contains that index; a failed call has no effect, except
close(2), which releases the descriptor even when it reports an error. -/
def sys (F : Nat → Bool) (w : World) (op : Op) : World × Res :=
  if F w.log.length then
    let fs' := if op = .close then (w.fs.step .close).1 else w.fs
    ({ fs := fs', log := w.log ++ [⟨op, .inj, fs'⟩] }, .inj)
  else
    let r := w.fs.step op
    let res := Res.ofOpt r.2
    ({ fs := r.1, log := w.log ++ [⟨op, res, r.1⟩] }, res)

/-! ## The disk writer -/

inductive Status
  | ok | warn | failed | fatal      -- ARCHIVE_OK 0 > ARCHIVE_WARN -20 > ARCHIVE_FAILED -25 > ARCHIVE_FATAL -30
  deriving DecidableEq, Repr

def Status.rank : Status → Nat
  | .ok => 0 | .warn => 1 | .failed => 2 | .fatal => 3

/-- `if (r2 < ret) ret = r2;` -/
def Status.worse (ret r2 : Status) : Status := if ret.rank < r2.rank then r2 else ret

/-- Unrepaired behaviours, for the negation witnesses (all `false` = the repaired tree). -/
structure Legacy where
  mktempLeak : Bool := false      -- la_mktemp: no unlink when fchmod fails
  finishLeak : Bool := false      -- close_file_descriptor: no unlink of the temporary file
  renameAfterFailedWrite : Bool := false
  statTarget : Bool := false      -- lazy_stat falls back to lstat(a->name)
  deriving DecidableEq, Repr

structure Cfg where
  safe : Bool := true             -- ARCHIVE_EXTRACT_SAFE_WRITES
  owner : Bool := false           -- ARCHIVE_EXTRACT_OWNER
  time : Bool := false            -- ARCHIVE_EXTRACT_TIME (the entry has an mtime)
  sparse : Bool := false          -- ARCHIVE_EXTRACT_SPARSE
  blk : Nat := 4096               -- st_blksize reported by the file system
  size : Nat := 0                 -- declared size of the entry (a->filesize)
  legacy : Legacy := {}
  deriving DecidableEq, Repr

inductive AState
  | header | data | fatal
  deriving DecidableEq, Repr

/-- The fields of `struct archive_write_disk` that this path reads and writes. -/
structure WD where
  state : AState := .header
  fd : Bool := false              -- a->fd >= 0
  tmpname : Bool := false         -- a->tmpname != NULL
  offset : Nat := 0               -- a->offset
  fdOffset : Nat := 0             -- a->fd_offset
  pst : Bool := false             -- a->pst != NULL
  todoOwner : Bool := false       -- TODO_OWNER still pending
  todoMode : Bool := true         -- TODO_MODE still pending (cleared when open(2) created the file with its final mode)
  incomplete : Bool := false      -- a->tmp_incomplete
  deriving DecidableEq, Repr

structure S where
  wd : WD
  w : World
  deriving Repr

/-- `la_mktemp`: mkstemp + fchmod. -/
def laMktemp (F : Nat → Bool) (cfg : Cfg) (s : S) : S × Bool :=
  let r := sys F s.w .mkstemp
  if !r.2.isOk then (⟨{ s.wd with tmpname := cfg.legacy.mktempLeak }, r.1⟩, false)
  else
    let r2 := sys F r.1 .fchmod
    if !r2.2.isOk then
      let r3 := sys F r2.1 .close
      if cfg.legacy.mktempLeak then (⟨{ s.wd with tmpname := true }, r3.1⟩, false)
      else
        let r4 := sys F r3.1 (.unlink .tmp)
        (⟨{ s.wd with tmpname := false }, r4.1⟩, false)
    else (⟨{ s.wd with tmpname := true, fd := true }, r2.1⟩, true)

/-- `restore_entry` for a regular file: `create_filesystem_object` (one open),
the EEXIST branch with `lstat`, then the SAFE_WRITES temporary file or
unlink + create. -/
def restoreEntry (F : Nat → Bool) (cfg : Cfg) (s : S) : S × Status :=
  let r := sys F s.w (.openExcl .target)
  match r.2 with
  | .ok _ => (⟨{ s.wd with fd := true, tmpname := false, todoMode := false }, r.1⟩, .ok)   -- nothing was in the way
  | .inj => (⟨s.wd, r.1⟩, .failed)                                          -- errno ≠ EEXIST: "Can't create"
  | .err =>
    let r1 := sys F r.1 (.lstat .target)
    if !r1.2.isOk then (⟨s.wd, r1.1⟩, .failed)
    else if cfg.safe then
      let m := laMktemp F cfg ⟨s.wd, r1.1⟩
      (m.1, if m.2 then .ok else .failed)
    else
      let r2 := sys F r1.1 (.unlink .target)
      if !r2.2.isOk then (⟨s.wd, r2.1⟩, .failed)
      else
        let r3 := sys F r2.1 (.openExcl .target)
        if r3.2.isOk then (⟨{ s.wd with fd := true, tmpname := false, todoMode := false }, r3.1⟩, .ok)
        else (⟨s.wd, r3.1⟩, .failed)

/-- `_archive_write_disk_header` on a fresh handle. -/
def header (F : Nat → Bool) (cfg : Cfg) (w : World) : S × Status :=
  let r := restoreEntry F cfg ⟨{ todoOwner := cfg.owner }, w⟩
  (if r.2 = .ok then ⟨{ r.1.wd with state := .data, pst := false }, r.1.w⟩ else r.1, r.2)

/-- `lazy_stat` (the cache test is at the call sites): fstat on the descriptor,
else lstat on the temporary name (repaired) / the target name (legacy).
Returns st_size. -/
def lazyStat (F : Nat → Bool) (cfg : Cfg) (s : S) : S × Option Nat :=
  let viaName (s : S) : S × Option Nat :=
    let n := if s.wd.tmpname && !cfg.legacy.statTarget then Name.tmp else Name.target
    let r := sys F s.w (.lstat n)
    (⟨s.wd, r.1⟩, if r.2.isOk then some r.2.val else none)
  if s.wd.fd then
    let r := sys F s.w .fstat
    if r.2.isOk then (⟨s.wd, r.1⟩, some r.2.val) else viaName ⟨s.wd, r.1⟩
  else viaName s

/-- The `while (size > 0)` loop of `write_data_block`.  `blk = 0`: not sparsifying.
Result `none`: the loop ran to completion; `some st`: early return. -/
def writeLoop (F : Nat → Bool) (blk : Nat) (buf : Bytes) (s : S) : S × Option Status :=
  if buf = [] then (s, none) else
  -- "Skip leading zero bytes."
  let k := if blk = 0 then 0 else (buf.takeWhile (· == 0)).length
  let buf1 := buf.drop k
  let off := s.wd.offset + k
  if h1 : buf1 = [] then (⟨{ s.wd with offset := off }, s.w⟩, none) else
  -- "If the adjusted write would cross block boundary, truncate it to the block boundary."
  let n := if blk = 0 then buf1.length else min buf1.length (blk * (off / blk + 1) - off)
  -- "Seek if necessary to the specified offset."
  let sk : World × Bool :=
    if off ≠ s.wd.fdOffset then
      let r := sys F s.w (.lseek off)
      (r.1, r.2.isOk)
    else (s.w, true)
  if !sk.2 then (⟨{ s.wd with offset := off, incomplete := true }, sk.1⟩, some .fatal) else
  let r := sys F sk.1 (.write off (buf1.take n))
  if !r.2.isOk then (⟨{ s.wd with offset := off, fdOffset := off, incomplete := true }, r.1⟩, some .warn) else
  writeLoop F blk (buf1.drop n) ⟨{ s.wd with offset := off + n, fdOffset := off + n }, r.1⟩
termination_by buf.length
decreasing_by
  have hpos : 0 < buf1.length := List.length_pos_iff.mpr h1
  have hle : buf1.length ≤ buf.length := by simp [buf1]
  have hn : 0 < n := by
    by_cases hb : blk = 0
    · simp only [n, hb]; exact hpos
    · have h2 : 0 < blk * (off / blk + 1) - off :=
        Nat.sub_pos_of_lt (Nat.lt_mul_div_succ off (Nat.pos_of_ne_zero hb))
      simp only [n, hb]; exact Nat.lt_min.mpr ⟨hpos, h2⟩
  show (buf1.drop n).length < buf.length
  rw [List.length_drop]; omega

inductive DR
  | n (k : Nat)          -- bytes accepted
  | st (s : Status)
  | oob                  -- offset beyond the declared size: the C computes a negative length (out of scope)
  deriving DecidableEq, Repr

/-- `write_data_block`. -/
def writeDataBlock (F : Nat → Bool) (cfg : Cfg) (buf : Bytes) (s : S) : S × DR :=
  if buf.length = 0 then (s, .n 0) else
  if cfg.size = 0 ∨ !s.wd.fd then (s, .st .warn) else       -- "Attempt to write to an empty file"
  let b : S × Option Nat :=
    if cfg.sparse then
      if s.wd.pst then (s, some cfg.blk)
      else
        let l := lazyStat F cfg s
        match l.2 with
        | some _ => (⟨{ l.1.wd with pst := true }, l.1.w⟩, some cfg.blk)
        | none => (l.1, none)
    else (s, some 0)
  match b.2 with
  | none => (⟨{ b.1.wd with incomplete := true }, b.1.w⟩, .st .warn)
  | some blk =>
    if b.1.wd.offset > cfg.size then (b.1, .oob) else
    -- "If this write would run beyond the file size, truncate it."
    let size := if b.1.wd.offset + buf.length > cfg.size then cfg.size - b.1.wd.offset else buf.length
    let l := writeLoop F blk (buf.take size) b.1
    match l.2 with
    | some st => (l.1, .st st)
    | none => (l.1, .n size)

/-- `_archive_write_disk_data` (archive_write_data). -/
def dataCall (F : Nat → Bool) (cfg : Cfg) (buf : Bytes) (s : S) : S × DR :=
  if s.wd.state ≠ .data then (⟨{ s.wd with state := .fatal }, s.w⟩, .st .fatal)
  else writeDataBlock F cfg buf s

/-- `_archive_write_disk_data_block` (archive_write_data_block). -/
def blockCall (F : Nat → Bool) (cfg : Cfg) (off : Nat) (buf : Bytes) (s : S) : S × DR :=
  if s.wd.state ≠ .data then (⟨{ s.wd with state := .fatal }, s.w⟩, .st .fatal)
  else
    let r := writeDataBlock F cfg buf ⟨{ s.wd with offset := off }, s.w⟩
    match r.2 with
    | .n k => (r.1, if k < buf.length then .st .warn else .st .ok)     -- "Too much data: Truncating file"
    | x => (r.1, x)

/-- `close_file_descriptor` (used on the error paths of finish_entry). -/
def closeFd (F : Nat → Bool) (cfg : Cfg) (s : S) : S :=
  let s1 : S := if s.wd.fd then ⟨{ s.wd with fd := false }, (sys F s.w .close).1⟩ else s
  if s1.wd.tmpname && !cfg.legacy.finishLeak then
    ⟨{ s1.wd with tmpname := false }, (sys F s1.w (.unlink .tmp)).1⟩
  else s1

/-- Second half of "Pad or truncate file to the right size.": "Not all platforms
implement the XSI option to extend files via ftruncate.  Stat() the file again to
see what happened", then lseek + write of one NUL byte when it is still too short.
`some st`: finish_entry returns `st` here. -/
def padFallback (F : Nat → Bool) (cfg : Cfg) (s : S) : S × Option Status :=
  let l := lazyStat F cfg ⟨{ s.wd with pst := false }, s.w⟩
  match l.2 with
  | none => (closeFd F cfg l.1, some .warn)
  | some sz =>
    let s2 : S := ⟨{ l.1.wd with pst := true }, l.1.w⟩
    if sz < cfg.size then
      let r1 := sys F s2.w (.lseek (cfg.size - 1))
      if !r1.2.isOk then (closeFd F cfg ⟨s2.wd, r1.1⟩, some .fatal) else
      let r2 := sys F r1.1 (.write (cfg.size - 1) [0])
      if !r2.2.isOk then (closeFd F cfg ⟨s2.wd, r2.1⟩, some .fatal)
      else (⟨{ s2.wd with pst := false }, r2.1⟩, none)
    else (s2, none)

/-- "Pad or truncate file to the right size." of `_archive_write_disk_finish_entry`.
`some st`: finish_entry returns `st` here. -/
def extendFile (F : Nat → Bool) (cfg : Cfg) (s : S) : S × Option Status :=
  if !s.wd.fd then (s, none)
  else if s.wd.fdOffset = cfg.size then (s, none)
  else
    let r := sys F s.w (.ftruncate cfg.size)
    if !r.2.isOk ∧ cfg.size = 0 then (closeFd F cfg ⟨s.wd, r.1⟩, some .failed)
    else padFallback F cfg ⟨s.wd, r.1⟩

/-- `set_ownership`: fchown, falling back to lchown on the NAME. -/
def setOwnership (F : Nat → Bool) (s : S) : S × Status :=
  let a : World × Bool :=
    if s.wd.fd then
      let r := sys F s.w .fchown
      (r.1, r.2.isOk)
    else (s.w, false)
  if a.2 then (⟨{ s.wd with todoOwner := false }, a.1⟩, .ok)
  else
    let r := sys F a.1 (.lchown .target)
    if r.2.isOk then (⟨{ s.wd with todoOwner := false }, r.1⟩, .ok) else (⟨s.wd, r.1⟩, .warn)

/-- `set_mode` for a regular file without setuid/setgid bits. -/
def setMode (F : Nat → Bool) (s : S) : S × Status :=
  let r := sys F s.w (if s.wd.fd then .fchmod else .chmod .target)
  (⟨s.wd, r.1⟩, if r.2.isOk then .ok else .warn)

/-- `set_times_from_entry` → `set_time`: futimens on the descriptor or utimensat on the name. -/
def setTimes (F : Nat → Bool) (s : S) : S × Status :=
  let r := sys F s.w (if s.wd.fd then .futimens else .utimensat .target)
  (⟨s.wd, r.1⟩, if r.2.isOk then .ok else .warn)

/-- "Restore metadata." of finish_entry: ownership, mode, times, in this order. -/
def fixups (F : Nat → Bool) (cfg : Cfg) (s : S) : S × Status :=
  let a : S × Status := if s.wd.todoOwner then setOwnership F s else (s, .ok)
  let b : S × Status := if a.1.wd.todoMode then setMode F a.1 else (a.1, .ok)
  let c : S × Status := if cfg.time then setTimes F b.1 else (b.1, .ok)
  (c.1, (Status.worse (Status.worse a.2 b.2) c.2))

/-- `finish_metadata:` close the descriptor, then rename the temporary file over the
target, or unlink it when it is known to be incomplete or when rename fails. -/
def finishMetadata (F : Nat → Bool) (cfg : Cfg) (ret : Status) (s : S) : S × Status :=
  if s.wd.fd then
    let c := sys F s.w .close
    if s.wd.tmpname then
      if s.wd.incomplete && !cfg.legacy.renameAfterFailedWrite then
        let u := sys F c.1 (.unlink .tmp)
        (⟨{ s.wd with fd := false, tmpname := false, state := .header }, u.1⟩, .failed)
      else
        let r := sys F c.1 (.rename .tmp .target)
        if r.2.isOk then (⟨{ s.wd with fd := false, tmpname := false, state := .header }, r.1⟩, ret)
        else
          let u := sys F r.1 (.unlink .tmp)
          (⟨{ s.wd with fd := false, tmpname := false, state := .header }, u.1⟩, .failed)
    else (⟨{ s.wd with fd := false, state := .header }, c.1⟩, ret)
  else (⟨{ s.wd with state := .header }, s.w⟩, ret)

/-- `_archive_write_disk_finish_entry`. -/
def finishEntry (F : Nat → Bool) (cfg : Cfg) (s : S) : S × Status :=
  match s.wd.state with
  | .fatal => (s, .fatal)
  | .header => (s, .ok)
  | .data =>
    let e := extendFile F cfg s
    match e.2 with
    | some st => (e.1, st)
    | none =>
      let f := fixups F cfg e.1
      finishMetadata F cfg f.2 f.1

/-- `_archive_write_disk_close` (no deferred fixups for a regular file) and, for the
observable part, `_archive_write_disk_free`. -/
def closeCall (F : Nat → Bool) (cfg : Cfg) (s : S) : S × Status := finishEntry F cfg s

/-! ## A whole extraction -/

inductive Call
  | data (b : Bytes)                  -- archive_write_data
  | block (off : Nat) (b : Bytes)     -- archive_write_data_block
  deriving DecidableEq, Repr

def Call.body : Call → Bytes
  | .data b => b
  | .block _ b => b

def runCall (F : Nat → Bool) (cfg : Cfg) (s : S) : Call → S × DR
  | .data b => dataCall F cfg b s
  | .block o b => blockCall F cfg o b s

def runCalls (F : Nat → Bool) (cfg : Cfg) : S → List Call → S × List DR
  | s, [] => (s, [])
  | s, c :: cs =>
    let r := runCall F cfg s c
    let rest := runCalls F cfg r.1 cs
    (rest.1, r.2 :: rest.2)

def initFS (old : Bytes) : FS := { target := some 0, inodes := [old] }

structure Run where
  s : S               -- after archive_write_free
  sc : S              -- after archive_write_close
  hdr : Status
  datas : List DR
  fin : Option Status
  cls : Status
  fre : Status
  deriving Repr

/-- header; the data calls (skipped by the client when the header failed);
optionally finish_entry; close; free. -/
def session (F : Nat → Bool) (cfg : Cfg) (old : Bytes) (calls : List Call) (explicitFinish : Bool) : Run :=
  let h := header F cfg { fs := initFS old }
  let d : S × List DR := if h.2 = .ok then runCalls F cfg h.1 calls else (h.1, [])
  let f : S × Option Status :=
    if explicitFinish then
      let r := finishEntry F cfg d.1
      (r.1, some r.2)
    else (d.1, none)
  let c := closeCall F cfg f.1
  let e := closeCall F cfg c.1
  { s := e.1, sc := c.1, hdr := h.2, datas := d.2, fin := f.2, cls := c.2, fre := e.2 }

/-- The file-system states a crash can leave: the state after every call issued. -/
def Run.crashStates (r : Run) : List FS := r.s.w.log.map (·.post)

/-! ## The property's vocabulary -/

/-- The image laid out by the data calls so far and the offset where a sequential
call continues: the bytes of each call at its offset, cut at the declared size,
gaps zero-filled. -/
def place (size : Nat) (img : Bytes × Nat) : Call → Bytes × Nat
  | .data b =>
    let d := b.take (size - img.2)
    (padTo img.2 img.1 ++ d, img.2 + d.length)
  | .block o b =>
    let d := b.take (size - o)
    (padTo o img.1 ++ d, o + d.length)

/-- "The complete new file": what the caller supplied, at the offsets it supplied it,
truncated at the declared size and zero-extended to the declared size.  (The disk
writer's documented contract: "Pad or truncate file to the right size".) -/
def expected (size : Nat) (calls : List Call) : Bytes :=
  padTo size (calls.foldl (place size) ([], 0)).1

/-- Offsets are non-decreasing and within the declared size (what
archive_read_data_block delivers for a well-formed entry). -/
def wellFormed (size : Nat) : Nat → List Call → Prop
  | _, [] => True
  | pos, .data b :: cs => wellFormed size (pos + (b.take (size - pos)).length) cs
  | pos, .block o b :: cs => pos ≤ o ∧ o ≤ size ∧ wellFormed size (o + (b.take (size - o)).length) cs

/-- Atomicity predicate on a list of views of the target pathname. -/
def atomicOk {α : Type} [DecidableEq α] (old new : α) (views : List (Option α)) : Bool :=
  views.all fun v => v == some old || v == some new

end LA.SafeWrite
