/-
`archive_write_add_filter_b64encode.c`: `la_b64_encode` and the instance of the
shared write skeleton (`LA.LineFilter`).  `LBYTES`, the alphabet `base64[]`, the
initial `bs`, the "begin-base64 " prefix and the trailer are extracted from the
C (`LA.Gen.UuTables`).
-/
import LA.Model.LineFilter
import LA.Gen.UuTables
namespace LA.B64
open LA.Gen.UuTables

/-- `base64[c]`; `c` is a six-bit value by construction (`unsigned char >> 2`, …). -/
def ch (c : Nat) : Nat :=
  if c < 26 then c + 65 else if c < 52 then c + 71 else if c < 62 then c - 4 else if c = 62 then 43 else 47

/-- The closed form above is the extracted table `base64[]` of the write filter. -/
theorem ch_table : b64Alphabet = (List.range 64).map ch := by decide

/-- The body of `la_b64_encode` (same bit slicing as `uu_encode`, `'='` padding). -/
def triples : List Nat → List Nat
  | a :: b :: c :: rest =>
    ch (a / 4) :: ch (a % 4 * 16 + b / 16) :: ch (b % 16 * 4 + c / 64) :: ch (c % 64) :: triples rest
  | [a, b] => [ch (a / 4), ch (a % 4 * 16 + b / 16), ch (b % 16 * 4), 61]
  | [a] => [ch (a / 4), ch (a % 4 * 16), 61, 61]
  | [] => []

/-- `la_b64_encode(as, p, len)`: groups, `'\n'` (no length character). -/
def encLine (p : List Nat) : List Nat := triples p ++ [10]

def codec : LA.LineFilter.Codec :=
  { lbytes := b64LBytes, lpos := by decide, encLine := encLine, begin_ := b64Begin,
    trailer := b64Trailer, bs0 := b64WriteBs }

def encode (bpb mode : Nat) (name : List Nat) (chunks : List (List Nat)) : List Nat :=
  LA.LineFilter.output (LA.LineFilter.run codec bpb mode name chunks)

end LA.B64
