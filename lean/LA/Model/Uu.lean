/-
`archive_write_add_filter_uuencode.c`: `uu_encode` and the instance of the
shared write skeleton (`LA.LineFilter`).  `LBYTES`, the initial `bs`, the
"begin " prefix and the trailer are extracted from the C (`LA.Gen.UuTables`).
-/
import LA.Model.LineFilter
import LA.Gen.UuTables
namespace LA.Uu
open LA.Gen.UuTables

/-- `c ? c + 0x20 : '`'` -/
def ch (c : Nat) : Nat := if c = 0 then 96 else c + 32

/-- The body of `uu_encode`: the `for (; len >= 3; p += 3, len -= 3)` loop and the
`if (len > 0)` tail.  `p[i]` is an `unsigned char`; for values below 256
`p[0] >> 2` is `a / 4`, `((p[0] & 0x03) << 4) | ((p[1] & 0xf0) >> 4)` is
`a % 4 * 16 + b / 16` (the two bit fields do not overlap), and so on. -/
def triples : List Nat → List Nat
  | a :: b :: c :: rest =>
    ch (a / 4) :: ch (a % 4 * 16 + b / 16) :: ch (b % 16 * 4 + c / 64) :: ch (c % 64) :: triples rest
  | [a, b] => [ch (a / 4), ch (a % 4 * 16 + b / 16), ch (b % 16 * 4), 96]
  | [a] => [ch (a / 4), ch (a % 4 * 16), 96, 96]
  | [] => []

/-- `uu_encode(as, p, len)`: length character, groups, `'\n'`. -/
def encLine (p : List Nat) : List Nat := ch p.length :: triples p ++ [10]

def codec : LA.LineFilter.Codec :=
  { lbytes := uuLBytes, lpos := by decide, encLine := encLine, begin_ := uuBegin,
    trailer := uuTrailer, bs0 := uuWriteBs }

/-- What the real filter writes for the given `bytes_per_block`, `mode`/`name`
options and sequence of `archive_write_data` chunks. -/
def encode (bpb mode : Nat) (name : List Nat) (chunks : List (List Nat)) : List Nat :=
  LA.LineFilter.output (LA.LineFilter.run codec bpb mode name chunks)

end LA.Uu
