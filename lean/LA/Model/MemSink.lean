/-
Model of libarchive/archive_write_open_memory.c: the write callback
`memory_write` that copies the archive into a caller-supplied block.

The caller's block is `buf` (cells start as `none`: the harness hands over a
fresh exact-size `malloc` block); `size` is the `buffSize` argument the caller
passed; `used` is `mine->used`, `clientUsed` is `*mine->client_size`.  A `memcpy`
that would leave the caller's block sets `oob` (the model never drops a store
silently); `memory_sink_bounded` proves it stays `false` when `size` does not
exceed the real block.
-/
import LA.Model.ClientWrite
namespace LA.MemSink
open LA.CW

structure Mem where
  size : Nat := 0
  used : Nat := 0
  clientUsed : Nat := 0
  buf : List Cell := []
  oob : Bool := false
  deriving DecidableEq, Repr

/-- `archive_write_open_memory` + `memory_write_open`: `mine->used = 0; *client_size = 0`. -/
def memOpen (block : Nat) (size : Nat) : Mem :=
  { size := size, used := 0, clientUsed := 0, buf := List.replicate block none }

/-- `memory_write(a, client_data, buff, length)`:
```
if (mine->used + length > mine->size) { archive_set_error(a, ENOMEM, "Buffer exhausted"); return (ARCHIVE_FATAL); }
memcpy(mine->buff + mine->used, buff, length);
mine->used += length;  *mine->client_size = mine->used;  return (length);
``` -/
def memoryWrite (m : Mem) (d : List Cell) : Int × Mem :=
  if m.used + d.length > m.size then (-30, m)
  else
    match poke m.buf m.used d with
    | none => (d.length, { m with oob := true, used := m.used + d.length, clientUsed := m.used + d.length })
    | some b => (d.length, { m with buf := b, used := m.used + d.length, clientUsed := m.used + d.length })

/-- The memory sink as a client write callback. -/
def memWriter : Writer Mem := { call := memoryWrite }

end LA.MemSink
