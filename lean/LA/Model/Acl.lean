/-
Model of libarchive/archive_acl.c (property C15): the ACL entry list, the two
text generators `archive_acl_to_text_l` / `archive_acl_to_text_w` and the two
text parsers `archive_acl_from_text_nl` / `archive_acl_from_text_w`.

Conventions

* A character (`char` or `wchar_t`) is a `Nat` (`Ch`).  The narrow and the wide
  code are two textual copies of the same algorithm; the places where the copies
  differ are kept and selected by `wide : Bool`:
    - `next_field` (length-guarded, a field ends at the first white space) vs
      `next_field_w` (NUL-guarded, trailing white space trimmed);
    - the id printed for an entry without EXTRA_ID (`archive_acl_to_text_l`
      keeps the id of an unnamed entry, `_w` does not);
    - the tables (`Gen.AclMaps.permMap` / `permMapW`, ... — extracted separately).
* A pointer into the text is the *suffix* of the text that starts there, so
  `*p` is `r[0]?` and `p[i]` is `r[i]?`.  The narrow text is exactly the
  `length` bytes handed to `archive_acl_from_text_nl` (no terminator: reading
  `[]` is reading one past the buffer); the wide text carries its terminating
  NUL explicitly (`fromTextW xs = parse (xs ++ [0])`), so reading `[]` is
  reading beyond the terminator.  Such a read is `Except.error .oob`;
  dereferencing a NULL field pointer is `.error .null`.
* `struct { start; end; } field[i]` is `Field` = the suffix at `start` and the
  length `end - start`; a blank (NULL, NULL) field is `none`.
* The tables and constants come from `LA.Gen.AclMaps` (extracted from the C).
* `mstring` names: a case is entirely narrow or entirely wide, so a name is the
  list of its characters in that representation and no conversion happens;
  `[]` is "no name" (`archive_mstring_clean`).
* `type`, `tag`, `permset`, `flags`, `want_type` are the non-negative values of a
  C `int` (`Nat`); `id` is an `Int` with the C range stated where it matters.

The model follows archive_acl.c *with* the repairs made while it was written
(libarchive commits "fix: …" bcbe7ef end-of-buffer reads in the narrow parser,
fb8928a NULL tag field in the wide parser, e1bc06b id field in `text_len`,
871276b `ismode` partial permset, 493cdb1 single entry types in `acl_new_entry`);
each old behaviour is kept as a regression case in corpus/C15.
-/
import LA.Model.Util
import LA.Gen.AclMaps
set_option linter.unusedVariables false
namespace LA.Acl
open LA.Gen.AclMaps

/-- One `char` or `wchar_t`. -/
scoped notation "Ch" => Nat

/-- `struct archive_acl_entry` (without `next`). -/
structure Entry where
  type : Nat
  tag : Nat
  permset : Nat
  id : Int
  name : List Ch
  deriving DecidableEq, Repr

/-- `struct archive_acl`: `mode`, the entry list in list order, `acl_types`. -/
structure Acl where
  mode : Nat := 0
  entries : List Entry := []
  types : Nat := 0
  deriving DecidableEq, Repr

inductive Status | ok | warn | failed | fatal
  deriving DecidableEq, Repr

inductive Fault | oob | null
  deriving DecidableEq, Repr

/-! ### Adding entries -/

/-- `x & ~mask == 0` for non-negative `x`. -/
def within (x mask : Nat) : Bool := x &&& mask = x

/-- `acl_special`: an ACCESS entry for user_obj / group_obj / other whose permset
fits in `rwx` (`(permset & ~007) == 0`) is folded into `mode`; `some` = handled
(the C returns 0).  `mode &= ~m` is written `mode - (mode &&& m)`. -/
def aclSpecial (acl : Acl) (type permset tag : Nat) : Option Acl :=
  if type = typeAccess ∧ within permset 7 then
    if tag = tagUserObj then
      some { acl with mode := acl.mode - (acl.mode &&& 0o700) ||| ((permset &&& 7) <<< 6) }
    else if tag = tagGroupObj then
      some { acl with mode := acl.mode - (acl.mode &&& 0o070) ||| ((permset &&& 7) <<< 3) }
    else if tag = tagOther then
      some { acl with mode := acl.mode - (acl.mode &&& 0o007) ||| (permset &&& 7) }
    else none
  else none

/-- The validity checks at the head of `acl_new_entry` (`false` = returns NULL). -/
def newEntryValid (acl : Acl) (type permset tag : Nat) : Bool :=
  -- `switch (type)`: exactly one of the six entry types
  (type = typeAccess ∨ type = typeDefault ∨ type = typeAllow ∨ type = typeDeny ∨ type = typeAudit ∨
    type = typeAlarm) ∧
  (if type &&& typeNfs4 ≠ 0 then
     within acl.types typeNfs4 ∧ within permset (permsNfs4 ||| inheritanceNfs4)
   else if type &&& typePosix1e ≠ 0 then
     within acl.types typePosix1e ∧ within permset permsPosix1e
   else False) ∧
  (if tag = tagUser ∨ tag = tagUserObj ∨ tag = tagGroup ∨ tag = tagGroupObj then True
   else if tag = tagMask ∨ tag = tagOther then within type typePosix1e
   else if tag = tagEveryone then within type typeNfs4
   else False)

/-- The overwrite loop of `acl_new_entry`: a POSIX.1e entry with the same type,
tag and id replaces the permset (and, through the caller, the name) of the first
such entry, unless it is a user/group entry without id.  `none` = no match. -/
def overwrite (type permset tag : Nat) (id : Int) (name : List Ch) : List Entry → Option (List Entry)
  | [] => none
  | e :: rest =>
    if type &&& typeNfs4 = 0 ∧ e.type = type ∧ e.tag = tag ∧ e.id = id ∧
        (id ≠ -1 ∨ (tag ≠ tagUser ∧ tag ≠ tagGroup)) then
      some ({ e with permset := permset, name := name } :: rest)
    else (overwrite type permset tag id name rest).map (e :: ·)

/-- `archive_acl_add_entry` / `_w_len` / `_len_l` (conversion object NULL).
`name = []` stands for a NULL or empty name. -/
def addEntry (acl : Acl) (type permset tag : Nat) (id : Int) (name : List Ch) : Acl × Status :=
  match aclSpecial acl type permset tag with
  | some acl' => (acl', .ok)
  | none =>
    if newEntryValid acl type permset tag then
      match overwrite type permset tag id name acl.entries with
      | some es => ({ acl with entries := es }, .ok)
      | none =>
        ({ acl with entries := acl.entries ++ [⟨type, tag, permset, id, name⟩],
                    types := acl.types ||| type }, .ok)
    else (acl, .failed)

/-! ### Text generation -/

def hasFlag (flags bit : Nat) : Bool := flags &&& bit ≠ 0

/-- `archive_acl_text_want_type`. -/
def textWantType (acl : Acl) (flags : Nat) : Nat :=
  if acl.types &&& typeNfs4 ≠ 0 then
    if acl.types &&& typePosix1e ≠ 0 then 0 else typeNfs4
  else
    let w := (if hasFlag flags typeAccess then typeAccess else 0) |||
             (if hasFlag flags typeDefault then typeDefault else 0)
    if w = 0 then typePosix1e else w

/-- An entry the generators skip: not of a wanted type, or one of the three
mode-mapped ACCESS entries. -/
def skipped (e : Entry) (wantType : Nat) : Bool :=
  e.type &&& wantType = 0 ∨
  (e.type = typeAccess ∧ (e.tag = tagUserObj ∨ e.tag = tagGroupObj ∨ e.tag = tagOther))

/-- The recursion of `append_id` on a non-negative value. -/
def digits (n : Nat) : List Ch :=
  if h : n > 9 then digits (n / 10) ++ [48 + n % 10] else [48 + n]
decreasing_by omega

/-- `append_id`: negative ids print as 0. -/
def appendId (id : Int) : List Ch := digits id.toNat

/-- `idlen = 1; while (tmp > 9) { tmp /= 10; idlen++; }` on a non-negative value. -/
def idLenLoop (tmp : Nat) : Nat :=
  if h : tmp > 9 then idLenLoop (tmp / 10) + 1 else 1
decreasing_by omega

/-- The id digit count of `archive_acl_text_len` (a negative id never enters the loop). -/
def idLen (id : Int) : Nat := idLenLoop id.toNat

/-- `sizeof(uid_t) * 3 + 1`. -/
def uidTextLen : Nat := 13

/-- Contribution of one listed entry to `archive_acl_text_len`.  The C computes
`length = length - 1` for the Solaris case on an unsigned total that is at least
`tag + 1 + 1` at that point; it is folded in here as one fewer colon. -/
def entryTextLen (e : Entry) (wantType flags : Nat) : Nat :=
  (if wantType &&& typeDefault ≠ 0 ∧ e.type &&& typeDefault ≠ 0 then 8 else 0) +
  (if e.tag = tagUserObj then (if wantType = typeNfs4 then 6 else 4)
   else if e.tag = tagUser ∨ e.tag = tagMask then 4
   else if e.tag = tagGroupObj then (if wantType = typeNfs4 then 6 else 5)
   else if e.tag = tagGroup ∨ e.tag = tagOther then 5
   else if e.tag = tagEveryone then 9 else 0) +
  1 +
  (if e.tag = tagUser ∨ e.tag = tagGroup then
     (if e.name ≠ [] then e.name.length else uidTextLen) + 1
   else if wantType ≠ typeNfs4 then 1 else 0) -
  (if hasFlag flags styleSolaris ∧ wantType &&& typePosix1e ≠ 0 ∧
      (e.tag = tagOther ∨ e.tag = tagMask) then 1 else 0) +
  (if wantType = typeNfs4 then 27 + (if e.type &&& typeDeny = 0 then 1 else 0) else 3) +
  (if e.tag = tagUser ∨ e.tag = tagGroup then 1 + idLen e.id else 0) +
  1

/-- The entries the generators print from the list (in list order). -/
def listed (acl : Acl) (wantType : Nat) : List Entry :=
  acl.entries.filter (fun e => !skipped e wantType)

/-- `archive_acl_text_len` (0 = nothing to print). -/
def textLen (acl : Acl) (wantType flags : Nat) : Nat :=
  let body := ((listed acl wantType).map (entryTextLen · wantType flags)).sum
  if wantType &&& typeAccess ≠ 0 then
    body + (if hasFlag flags styleSolaris then 31 else 32)
  else if (listed acl wantType).length = 0 then 0 else body

def str (s : String) : List Ch := s.toList.map Char.toNat

/-- One permission / flag map of `append_entry`: the character of every set bit,
`-` for an unset one unless the style is compact. -/
def mapChars (m : List (Nat × Nat)) (perm : Nat) (compact : Bool) : List Ch :=
  m.flatMap fun (mask, c) =>
    if perm &&& mask ≠ 0 then [c] else if compact then [] else [45]

/-- The word the tag `switch` of `append_entry` copies (nothing for a tag without `case`). -/
def tagWord (nfs4 : Bool) (tag : Nat) : List Ch :=
  if tag = tagUserObj then (if nfs4 then str "owner@" else str "user")
  else if tag = tagUser then str "user"
  else if tag = tagGroupObj then (if nfs4 then str "group@" else str "group")
  else if tag = tagGroup then str "group"
  else if tag = tagMask then str "mask"
  else if tag = tagOther then str "other"
  else if tag = tagEveryone then str "everyone@"
  else []

/-- The tags whose `case` does `name = NULL; id = -1`. -/
def dropsQual (tag : Nat) : Bool :=
  tag = tagUserObj ∨ tag = tagGroupObj ∨ tag = tagMask ∨ tag = tagOther ∨ tag = tagEveryone

/-- What `append_entry` writes between the colon after the tag and the
permissions (qualifier and second colon), and the id left for the trailing field. -/
def qualPart (type tag flags : Nat) (name : List Ch) (id : Int) : List Ch × Int :=
  let name := if dropsQual tag then [] else name
  let id := if dropsQual tag then -1 else id
  let ug := tag = tagUser ∨ tag = tagGroup
  if type &&& typePosix1e ≠ 0 ∨ ug then
    let colon : List Ch :=
      if ¬ hasFlag flags styleSolaris ∨ (tag ≠ tagOther ∧ tag ≠ tagMask) then [58] else []
    if name ≠ [] then (name ++ colon, id)
    else if ug then (appendId id ++ colon, if type &&& typeNfs4 = 0 then -1 else id)
    else (colon, id)
  else ([], id)

/-- The permission part: `rwx` for POSIX.1e, `perms:flags:type` for NFSv4. -/
def permPart (wide : Bool) (type flags perm : Nat) : List Ch :=
  if type &&& typePosix1e ≠ 0 then
    [if perm &&& 0o444 ≠ 0 then 114 else 45, if perm &&& 0o222 ≠ 0 then 119 else 45,
     if perm &&& 0o111 ≠ 0 then 120 else 45]
  else
    mapChars (if wide then permMapW else permMap) perm (hasFlag flags styleCompact) ++ [58] ++
    mapChars (if wide then flagMapW else flagMap) perm (hasFlag flags styleCompact) ++ [58] ++
    (if type = typeAllow then str "allow" else if type = typeDeny then str "deny"
     else if type = typeAudit then str "audit" else if type = typeAlarm then str "alarm" else [])

/-- `append_entry` / `append_entry_w`.  `name = []` is a NULL name. -/
def appendEntry (wide : Bool) (pfx : Bool) (type tag flags : Nat) (name : List Ch)
    (perm : Nat) (id : Int) : List Ch :=
  let q := qualPart type tag flags name id
  (if pfx then str "default:" else []) ++ tagWord (type &&& typeNfs4 ≠ 0) tag ++ [58] ++ q.1 ++
    permPart wide type flags perm ++ (if q.2 ≠ -1 then 58 :: appendId q.2 else [])

inductive TextResult
  | null                    -- the function returns NULL
  | text (t : List Ch)      -- the string (without its terminator)
  | overrun (t : List Ch)   -- more than `length` characters were written
  deriving DecidableEq, Repr

/-- The text of one listed entry: prefix, and the id handed to `append_entry`
(`archive_acl_to_text_l`: `name == NULL || EXTRA_ID`; `_w`: `EXTRA_ID` only). -/
def entryText (wide : Bool) (flags : Nat) (e : Entry) : List Ch :=
  let pfx := e.type = typeDefault ∧ hasFlag flags styleMarkDefault
  let id : Int :=
    if wide then (if hasFlag flags styleExtraId then e.id else -1)
    else (if e.name = [] ∨ hasFlag flags styleExtraId then e.id else -1)
  appendEntry wide pfx e.type e.tag flags e.name e.permset id

/-- The three entries made up from `mode`. -/
def headTexts (wide : Bool) (mode flags : Nat) : List (List Ch) :=
  [appendEntry wide false typeAccess tagUserObj flags [] (mode &&& 0o700) (-1),
   appendEntry wide false typeAccess tagGroupObj flags [] (mode &&& 0o070) (-1),
   appendEntry wide false typeAccess tagOther flags [] (mode &&& 0o007) (-1)]

/-- `separator` -/
def sepChar (flags : Nat) : Ch := if hasFlag flags styleSeparatorComma then 44 else 10

/-- The characters `archive_acl_to_text_l` / `_w` write before the terminator,
given the already adjusted `flags`: a separator goes before every entry but the
first (`count > 0`). -/
def textBody (wide : Bool) (acl : Acl) (wantType flags : Nat) : List Ch :=
  [sepChar flags].intercalate
    ((if wantType &&& typeAccess ≠ 0 then headTexts wide acl.mode flags else []) ++
     (listed acl wantType).map (entryText wide flags))

/-- Flags as adjusted at the head of `archive_acl_to_text_*`. -/
def textFlags (wantType flags : Nat) : Nat :=
  if wantType = typePosix1e then flags ||| styleMarkDefault else flags

/-- `archive_acl_to_text_l(acl, &len, flags, NULL)` / `archive_acl_to_text_w`. -/
def toText (wide : Bool) (acl : Acl) (flags : Nat) : TextResult :=
  let wantType := textWantType acl flags
  if wantType = 0 then .null else
  let flags := textFlags wantType flags
  let length := textLen acl wantType flags
  if length = 0 then .null else
  let t := textBody wide acl wantType flags
  if t.length > length - 1 then .overrun t else .text t


/-! ### Text parsing -/

/-- `struct { start; end; }`: the text from `start` on, and `end - start`. -/
structure Field where
  s : List Ch
  len : Nat
  deriving DecidableEq, Repr

/-- The characters `start[0 .. len)`; they must lie inside the text. -/
def Field.body (f : Field) : Except Fault (List Ch) :=
  if f.len ≤ f.s.length then .ok (f.s.take f.len) else .error .oob

/-- `field[i].end - field[i].start`; a blank (NULL, NULL) field is empty. -/
def flen : Option Field → Nat
  | none => 0
  | some f => f.len

/-- The characters of a field that is only read while `start < end`. -/
def fbody : Option Field → Except Fault (List Ch)
  | none => .ok []
  | some f => f.body

/-- `s[i]` for a pointer `s` into the text. -/
def rd (s : List Ch) (i : Nat) : Except Fault Ch :=
  match s[i]? with
  | some c => .ok c
  | none => .error .oob

/-- `memcmp(s + off, lit, strlen(lit)) == 0`. -/
def matchAt (f : Field) (off : Nat) (lit : String) : Except Fault Bool :=
  if off + lit.length ≤ f.s.length then .ok ((f.s.drop off).take lit.length = str lit)
  else .error .oob

def isWs (c : Ch) : Bool := c = 32 ∨ c = 9 ∨ c = 10

structure NextField where
  field : Field
  sep : Ch
  rest : List Ch
  deriving Repr

/-- First loop of `next_field`: skip leading white space. -/
def skipWsN : List Ch → List Ch
  | [] => []
  | c :: t => if isWs c then skipWsN t else c :: t

/-- Second loop of `next_field`: the field runs up to white space or `, : #`.
Returns the number of characters taken and what follows. -/
def scanFieldN : List Ch → Nat × List Ch
  | [] => (0, [])
  | c :: t =>
    if isWs c ∨ c = 44 ∨ c = 58 ∨ c = 35 then (0, c :: t)
    else ((scanFieldN t).1 + 1, (scanFieldN t).2)

/-- Third loop of `next_field`: scan for the separator `, : \n #`. -/
def scanSepN : List Ch → List Ch
  | [] => []
  | c :: t => if c = 44 ∨ c = 58 ∨ c = 10 ∨ c = 35 then c :: t else scanSepN t

/-- The in-field comment loop: up to `,` or `\n`. -/
def skipCommentN : List Ch → List Ch
  | [] => []
  | c :: t => if c = 44 ∨ c = 10 then c :: t else skipCommentN t

/-- `*sep = (*l > 0) ? **p : '\0'` -/
def sepAt : List Ch → Ch
  | [] => 0
  | c :: _ => c

/-- `next_field(&p, &l, &start, &end, &sep)`; every read is guarded by `*l > 0`,
which is the `[]` case of each loop. -/
def nextFieldN (r : List Ch) : NextField :=
  let r1 := skipWsN r
  let r3 := scanSepN (scanFieldN r1).2
  let r4 := if sepAt r3 = 35 then skipCommentN r3 else r3
  { field := ⟨r1, (scanFieldN r1).1⟩, sep := sepAt r4, rest := r4.drop 1 }

/-- First loop of `next_field_w` (no length: relies on the terminator). -/
def skipWsW : List Ch → Except Fault (List Ch)
  | [] => .error .oob
  | c :: t => if isWs c then skipWsW t else .ok (c :: t)

/-- Second loop of `next_field_w`: up to NUL or `, : \n #`.  Returns the
characters passed over and the suffix at the stop. -/
def scanW : List Ch → Except Fault (List Ch × List Ch)
  | [] => .error .oob
  | c :: t =>
    if c = 0 ∨ c = 44 ∨ c = 58 ∨ c = 10 ∨ c = 35 then .ok ([], c :: t)
    else match scanW t with
      | .ok (b, r) => .ok (c :: b, r)
      | .error e => .error e

/-- `*end = *wp - 1; while (**end is white) (*end)--; (*end)++` on the
non-empty run `b` that was passed over: its length without trailing white
space.  Running below `start` would leave the field (`oob`). -/
def trimEndW (b : List Ch) : Except Fault Nat :=
  match b.reverse.dropWhile isWs with
  | [] => .error .oob
  | l => .ok l.length

/-- The in-field comment loop of `next_field_w`: up to NUL, `,` or `\n`. -/
def skipCommentW : List Ch → Except Fault (List Ch)
  | [] => .error .oob
  | c :: t => if c = 0 ∨ c = 44 ∨ c = 10 then .ok (c :: t) else skipCommentW t

/-- `next_field_w(&wp, &start, &end, &sep)`. -/
def nextFieldW (r : List Ch) : Except Fault NextField :=
  match skipWsW r with
  | .error e => .error e
  | .ok r1 =>
    match scanW r1 with
    | .error e => .error e
    | .ok (b, r2) =>
      match rd r2 0 with
      | .error e => .error e
      | .ok sep0 =>
        match (if b = [] then .ok 0 else trimEndW b) with
        | .error e => .error e
        | .ok n =>
          match (if sep0 = 35 then skipCommentW r2 else .ok r2) with
          | .error e => .error e
          | .ok r3 =>
            match rd r3 0 with
            | .error e => .error e
            | .ok sep => .ok { field := ⟨r1, n⟩, sep := sep, rest := if sep ≠ 0 then r3.drop 1 else r3 }

def nextField (wide : Bool) (r : List Ch) : Except Fault NextField :=
  if wide then nextFieldW r else .ok (nextFieldN r)

/-- `isint`: `none` = returns 0 and leaves `*result` alone; saturates at INT_MAX. -/
def isint (b : List Ch) : Option Int :=
  if b = [] ∨ b.any (fun c => c < 48 ∨ c > 57) then none
  else some (b.foldl (fun (n : Nat) c =>
    if n > 2147483647 / 10 ∨ (n = 2147483647 / 10 ∧ c - 48 > 2147483647 % 10) then 2147483647
    else n * 10 + (c - 48)) 0 : Nat)

def lookup (tbl : List (Nat × Nat)) (c : Ch) : Option Nat :=
  match tbl.find? (fun p => p.1 = c) with
  | some p => some p.2
  | none => none

/-- The common loop of `ismode`, `is_nfs4_perms`, `is_nfs4_flags`: OR the bit of
every character into `acc`; stops at the first character without a `case`.
Returns the accumulated bits and whether the whole field was accepted. -/
def orChars (tbl : List (Nat × Nat)) : List Ch → Nat → Nat × Bool
  | [], acc => (acc, true)
  | c :: t, acc =>
    match lookup tbl c with
    | some bit => orChars tbl t (acc ||| bit)
    | none => (acc, false)

/-- `ismode(start, end, &permset)`: the returned permset is what `*permset`
holds afterwards (it is only written when the whole field is accepted). -/
def ismode (wide : Bool) (b : List Ch) (permset : Nat) : Nat × Bool :=
  if b = [] then (permset, false) else
  match orChars (if wide then modeParseW else modeParse) b 0 with
  | (p, true) => (p, true)
  | (_, false) => (permset, false)

def isNfs4Perms (wide : Bool) (b : List Ch) (permset : Nat) : Nat × Bool :=
  orChars (if wide then permParseW else permParse) b permset

def isNfs4Flags (wide : Bool) (b : List Ch) (permset : Nat) : Nat × Bool :=
  orChars (if wide then flagParseW else flagParse) b permset

/-- What one text entry turns into. -/
inductive Parsed
  | comment
  | skip                    -- malformed: `ret = ARCHIVE_WARN; continue`
  | entry (type permset tag : Nat) (id : Int) (name : Option Field)
  deriving Repr

/-- `field[i]` after the do-while loop: the `numfields` first fields, the
others blank. -/
def fieldAt (fs : List Field) (numfields i : Nat) : Option Field :=
  if i < numfields then fs[i]? else none

def isintOr (b : List Ch) (id : Int) : Int :=
  match isint b with
  | some v => v
  | none => id

/-- `switch (*s)` on the tag field of a POSIX.1e entry (`len > 0`). -/
def posixTag (fn : Field) : Except Fault Nat := do
  let c ← rd fn.s 0
  let len := fn.len
  if c = 117 then
    if len = 1 then pure tagUserObj
    else if len = 4 then (do if (← matchAt fn 1 "ser") then pure tagUserObj else pure 0)
    else pure 0
  else if c = 103 then
    if len = 1 then pure tagGroupObj
    else if len = 5 then (do if (← matchAt fn 1 "roup") then pure tagGroupObj else pure 0)
    else pure 0
  else if c = 111 then
    if len = 1 then pure tagOther
    else if len = 5 then (do if (← matchAt fn 1 "ther") then pure tagOther else pure 0)
    else pure 0
  else if c = 109 then
    if len = 1 then pure tagMask
    else if len = 4 then (do if (← matchAt fn 1 "ask") then pure tagMask else pure 0)
    else pure 0
  else pure 0

/-- The "default" test on `field[0]`: `len > 0 &&` (narrow only) `*s == 'd' &&
(len == 1 || (len >= 7 && memcmp(s + 1, "efault", 6) == 0))`. -/
def isDefault (wide : Bool) (f0 : Field) : Except Fault Bool := do
  if ¬ wide ∧ f0.len = 0 then pure false else
  let c ← rd f0.s 0
  if c ≠ 100 then pure false
  else if f0.len = 1 then pure true
  else if f0.len ≥ 7 then matchAt f0 1 "efault"
  else pure false

/-- "Check for a numeric ID in field n+1 or n+3": `isint(field[n + 1], &id)`, then
`if (id == -1 && fields > (n + 3)) isint(field[n + 3], &id)`. -/
def posixId (fields : Nat) (fld : Nat → Option Field) (n : Nat) : Except Fault Int := do
  let id := isintOr (← fbody (fld (n + 1))) (-1)
  if id = -1 ∧ fields > n + 3 then (do pure (isintOr (← fbody (fld (n + 3))) id)) else pure id

/-- `case ARCHIVE_ENTRY_ACL_OTHER: case ARCHIVE_ENTRY_ACL_MASK:` and the mode check after it. -/
def posixOtherMask (wide : Bool) (fields : Nat) (fld : Nat → Option Field) (n type tag : Nat)
    (id : Int) : Except Fault Parsed := do
  let f1 := fld (n + 1)
  -- `fields == n + 2 && start < end && ismode(field[n + 1], &permset)`
  let called := fields = n + 2 ∧ flen f1 > 0
  let r1 ← if called then (do pure (ismode wide (← fbody f1) 0)) else pure (0, false)
  let sol := called ∧ r1.2
  if ¬ sol ∧ fields = n + 3 ∧ flen f1 > 0 then pure .skip else
  -- `permset == 0 && !ismode(field[n + 2 - sol], &permset)`
  let r2 ← if r1.1 = 0 then (do pure (ismode wide (← fbody (fld (if sol then n + 1 else n + 2))) r1.1))
           else pure (r1.1, true)
  if r2.2 then pure (.entry type r2.1 tag id none) else pure .skip

/-- `case ARCHIVE_ENTRY_ACL_USER_OBJ: case ARCHIVE_ENTRY_ACL_GROUP_OBJ:` and the mode check after it. -/
def posixUserGroup (wide : Bool) (fld : Nat → Option Field) (n type tag : Nat) (id : Int) :
    Except Fault Parsed := do
  let f1 := fld (n + 1)
  let named := id ≠ -1 ∨ flen f1 > 0
  let tag := if named then (if tag = tagUserObj then tagUser else tagGroup) else tag
  let name := if named then f1 else none
  let r2 := ismode wide (← fbody (fld (n + 2))) 0
  if r2.2 then pure (.entry type r2.1 tag id name) else pure .skip

/-- The POSIX.1e branch of the parser loop body after the "default" test:
`fld` is `field[]` (with `field[0].start += 7` applied for "defaultuser"),
`n` the index of the tag field, `type` the entry type. -/
def parsePosixRest (wide : Bool) (fields : Nat) (fld : Nat → Option Field) (n type : Nat) :
    Except Fault Parsed := do
  let id ← posixId fields fld n
  if flen (fld n) = 0 then pure .skip else
  -- the tag field is not empty here, so its `start` is not NULL
  let fn ← match fld n with | some f => pure f | none => throw Fault.null
  let tag ← posixTag fn
  if tag = tagOther ∨ tag = tagMask then posixOtherMask wide fields fld n type tag id
  else if tag = tagUserObj ∨ tag = tagGroupObj then posixUserGroup wide fld n type tag id
  else pure .skip

/-- The POSIX.1e branch of the parser loop body: the "default" keyword, then the rest. -/
def parsePosix (wide : Bool) (fs : List Field) (wantType : Nat) : Except Fault Parsed := do
  let fld0 := fieldAt fs 5
  -- field[0] always exists (the do-while runs at least once)
  let f0 ← match fld0 0 with | some f => pure f | none => throw Fault.null
  if (← isDefault wide f0) then
    if f0.len > 7 then
      -- "defaultuser": `field[0].start += 7`
      parsePosixRest wide fs.length (fun i => if i = 0 then some ⟨f0.s.drop 7, f0.len - 7⟩ else fld0 i) 0 typeDefault
    else parsePosixRest wide fs.length fld0 1 typeDefault
  else parsePosixRest wide fs.length fld0 0 wantType

/-- The tag word of an NFSv4 entry (`switch (len)` with `memcmp`). -/
def nfs4Tag (f0 : Field) : Except Fault Nat := do
  let len := f0.len
  if len = 4 then (do if (← matchAt f0 0 "user") then pure tagUser else pure 0)
  else if len = 5 then (do if (← matchAt f0 0 "group") then pure tagGroup else pure 0)
  else if len = 6 then
    (do if (← matchAt f0 0 "owner@") then pure tagUserObj
        else if (← matchAt f0 0 "group@") then pure tagGroupObj else pure 0)
  else if len = 9 then (do if (← matchAt f0 0 "everyone@") then pure tagEveryone else pure 0)
  else pure 0

/-- The entry type word of an NFSv4 entry. -/
def nfs4Type (ft : Option Field) : Except Fault Nat :=
  match ft with
  | none => pure 0
  | some f =>
    if f.len = 4 then (do if (← matchAt f 0 "deny") then pure typeDeny else pure 0)
    else if f.len = 5 then
      (do if (← matchAt f 0 "allow") then pure typeAllow
          else if (← matchAt f 0 "audit") then pure typeAudit
          else if (← matchAt f 0 "alarm") then pure typeAlarm else pure 0)
    else pure 0

/-- The NFSv4 branch of the parser loop body. -/
def parseNfs4 (wide : Bool) (fs : List Field) : Except Fault Parsed := do
  let fld := fieldAt fs 6
  let f0 ← match fld 0 with | some f => pure f | none => throw Fault.null
  let tag ← nfs4Tag f0
  if tag = 0 then pure .skip else
  let ug := tag = tagUser ∨ tag = tagGroup
  let n := if ug then 1 else 0
  let name := if ug then fld 1 else none
  let id : Int ← if ug then (do pure (isintOr (← fbody name) (-1))) else pure (-1)
  let (p, ok) := isNfs4Perms wide (← fbody (fld (1 + n))) 0
  if ¬ ok then pure .skip else
  let (p, ok) := isNfs4Flags wide (← fbody (fld (2 + n))) p
  if ¬ ok then pure .skip else
  let type ← nfs4Type (fld (3 + n))
  if type = 0 then pure .skip else
  let id := isintOr (← fbody (fld (4 + n))) id
  pure (.entry type p tag id name)

/-- The body of the parser's `while` loop once the fields are split. -/
def parseFields (wide : Bool) (fs : List Field) (wantType : Nat) : Except Fault Parsed := do
  let f0 ← match fs[0]? with | some f => pure f | none => throw Fault.null
  -- narrow: `field[0].start < text_end && *(field[0].start) == '#'`
  -- wide:   `*(field[0].start) == L'#'` (the terminator is readable)
  let c ← if wide then rd f0.s 0 else pure (sepAt f0.s)
  if c = 35 then pure .comment
  else if wantType ≠ typeNfs4 then parsePosix wide fs wantType
  else parseNfs4 wide fs

/-- The name handed to `archive_acl_add_entry_len_l` (`name != NULL && len > 0 &&
*name != 0`) / `_w_len` (`name != NULL && *name != 0 && len > 0`: the wide copy
looks at `*name` first); the string layer stops at a NUL. -/
def nameOf (wide : Bool) : Option Field → Except Fault (List Ch)
  | none => .ok []
  | some f => do
    let _first ← if wide then rd f.s 0 else pure 0
    pure ((← f.body).takeWhile (· ≠ 0))

/-! Progress of `next_field`, needed for the termination of the two parser loops. -/

theorem skipWsN_le (r : List Ch) : (skipWsN r).length ≤ r.length := by
  induction r with
  | nil => simp [skipWsN]
  | cons c t ih => simp only [skipWsN]; split <;> simp <;> omega

theorem scanFieldN_le (r : List Ch) : (scanFieldN r).2.length ≤ r.length := by
  induction r with
  | nil => simp [scanFieldN]
  | cons c t ih => simp only [scanFieldN]; split <;> simp <;> omega

theorem scanSepN_le (r : List Ch) : (scanSepN r).length ≤ r.length := by
  induction r with
  | nil => simp [scanSepN]
  | cons c t ih => simp only [scanSepN]; split <;> simp <;> omega

theorem skipCommentN_le (r : List Ch) : (skipCommentN r).length ≤ r.length := by
  induction r with
  | nil => simp [skipCommentN]
  | cons c t ih => simp only [skipCommentN]; split <;> simp <;> omega

/-- `next_field` never moves backwards, and when there is text left it consumes
at least one character. -/
theorem nextFieldN_rest (r : List Ch) :
    (nextFieldN r).rest.length ≤ r.length ∧
    (r ≠ [] → (nextFieldN r).rest.length < r.length) := by
  have tail : ∀ r2 : List Ch,
      ((if sepAt (scanSepN r2) = 35 then skipCommentN (scanSepN r2) else scanSepN r2).drop 1).length
        ≤ r2.length := by
    intro r2
    have h3 := scanSepN_le r2
    have h4 := skipCommentN_le (scanSepN r2)
    split <;> simp <;> omega
  constructor
  · have h1 := skipWsN_le r
    have h2 := scanFieldN_le (skipWsN r)
    have := tail (scanFieldN (skipWsN r)).2
    simp only [nextFieldN]; omega
  · intro hne
    match r, hne with
    | c :: t, _ =>
      simp only [nextFieldN]
      by_cases hw : isWs c = true
      · have h1 := skipWsN_le t
        have h2 := scanFieldN_le (skipWsN t)
        have := tail (scanFieldN (skipWsN t)).2
        simp only [skipWsN, hw, if_true, List.length_cons]; omega
      · simp only [skipWsN, hw]
        by_cases hs : (c = 44 ∨ c = 58 ∨ c = 35)
        · have hsf : scanFieldN (c :: t) = (0, c :: t) := by
            simp only [scanFieldN]; rw [if_pos]; exact Or.inr hs
          have hss : scanSepN (c :: t) = c :: t := by
            simp only [scanSepN]; rw [if_pos]; rcases hs with h | h | h <;> simp [h]
          simp only [hsf, hss, sepAt, Bool.false_eq_true, if_false]
          by_cases h35 : c = 35
          · have := skipCommentN_le t
            simp [h35, skipCommentN]; omega
          · simp [h35]
        · have hsf : scanFieldN (c :: t) = ((scanFieldN t).1 + 1, (scanFieldN t).2) := by
            simp only [scanFieldN]; rw [if_neg]
            intro h; rcases h with h | h
            · exact hw h
            · exact hs h
          have h2 := scanFieldN_le t
          have := tail (scanFieldN t).2
          simp only [hsf, Bool.false_eq_true, if_false, List.length_cons]; omega

theorem skipWsW_spec (r r1 : List Ch) (h : skipWsW r = .ok r1) :
    r1.length ≤ r.length ∧
    (∀ c t, r = c :: t → (isWs c = true → r1.length ≤ t.length) ∧ (isWs c = false → r1 = r)) := by
  induction r with
  | nil => simp [skipWsW] at h
  | cons c t ih =>
    simp only [skipWsW] at h
    by_cases hw : isWs c = true
    · simp only [hw, if_true] at h
      have := (ih h).1
      refine ⟨by simp; omega, ?_⟩
      intro c' t' e; cases e
      exact ⟨fun _ => this, fun h' => by simp [hw] at h'⟩
    · simp only [hw] at h
      cases h
      refine ⟨by simp, ?_⟩
      intro c' t' e; cases e
      exact ⟨fun h' => absurd h' hw, fun _ => rfl⟩

theorem scanW_len (r b r2 : List Ch) (h : scanW r = .ok (b, r2)) :
    b.length + r2.length = r.length := by
  induction r generalizing b r2 with
  | nil => simp [scanW] at h
  | cons c t ih =>
    simp only [scanW] at h
    split at h
    · cases h; simp
    · split at h
      · rename_i b' r' heq
        cases h
        have := ih _ _ heq
        simp; omega
      · cases h

theorem skipCommentW_le (r r3 : List Ch) (h : skipCommentW r = .ok r3) :
    r3.length ≤ r.length ∧ (∀ c t, r = c :: t → c = 35 → r3.length ≤ t.length) := by
  induction r with
  | nil => simp [skipCommentW] at h
  | cons c t ih =>
    simp only [skipCommentW] at h
    split at h
    · rename_i hc
      cases h
      refine ⟨by simp, ?_⟩
      intro c' t' e h35; cases e
      rcases hc with h | h | h <;> simp_all
    · have := (ih h).1
      refine ⟨by simp; omega, ?_⟩
      intro c' t' e _; cases e; exact this

theorem nextFieldW_rest (r : List Ch) (nf : NextField) (h : nextFieldW r = .ok nf) :
    nf.rest.length ≤ r.length ∧
    (∀ c t, r = c :: t → c ≠ 0 → nf.rest.length < r.length) := by
  unfold nextFieldW at h
  split at h; · cases h
  rename_i r1 h1
  split at h; · cases h
  rename_i b r2 h2
  split at h; · cases h
  rename_i sep0 hsep0
  split at h; · cases h
  rename_i n hn
  split at h; · cases h
  rename_i r3 h3
  split at h; · cases h
  rename_i sep hsep
  cases h
  have s1 := skipWsW_spec r r1 h1
  have s2 := scanW_len r1 b r2 h2
  have s3 : r3.length ≤ r2.length ∧ (∀ c t, r2 = c :: t → c = 35 → sep0 = 35 → r3.length ≤ t.length) := by
    split at h3
    · have := skipCommentW_le r2 r3 h3
      exact ⟨this.1, fun c t e hc _ => this.2 c t e hc⟩
    · rename_i hne; cases h3
      exact ⟨Nat.le_refl _, fun c t e hc h35 => absurd h35 hne⟩
  constructor
  · show (if sep ≠ 0 then r3.drop 1 else r3).length ≤ r.length
    split
    · simp; omega
    · omega
  · intro c t e hc
    show (if sep ≠ 0 then r3.drop 1 else r3).length < r.length
    have hle : (if sep ≠ 0 then r3.drop 1 else r3).length ≤ r3.length := by
      split
      · simp
      · exact Nat.le_refl _
    subst e
    by_cases hw : isWs c = true
    · have := (s1.2 c t rfl).1 hw
      simp only [List.length_cons]; omega
    · have hr1 : r1 = c :: t := (s1.2 c t rfl).2 (by simpa using hw)
      subst hr1
      simp only [scanW] at h2
      split at h2
      · rename_i hstop
        cases h2
        have hc10 : c ≠ 10 := by intro h; apply hw; simp [isWs, h]
        simp only [rd, List.getElem?_cons_zero, Except.ok.injEq] at hsep0
        subst hsep0
        by_cases h35 : c = 35
        · have := s3.2 c t rfl h35 h35
          simp only [List.length_cons]; omega
        · simp only [h35, if_false] at h3
          cases h3
          simp only [rd, List.getElem?_cons_zero, Except.ok.injEq] at hsep
          subst hsep
          simp [hc]
      · split at h2
        · rename_i b' r' heq
          cases h2
          have := scanW_len _ _ _ heq
          simp only [List.length_cons] at *; omega
        · cases h2


theorem nextField_rest (wide : Bool) (r : List Ch) (nf : NextField) (h : nextField wide r = .ok nf) :
    nf.rest.length ≤ r.length ∧ (∀ c t, r = c :: t → c ≠ 0 → nf.rest.length < r.length) := by
  cases wide with
  | true => exact nextFieldW_rest r nf (by simpa [nextField] using h)
  | false =>
    simp only [nextField, Bool.false_eq_true, if_false, Except.ok.injEq] at h
    subst h
    exact ⟨(nextFieldN_rest r).1, fun c t e _ => (nextFieldN_rest r).2 (by simp [e])⟩

/-- A reported separator other than the end of the text has been consumed. -/
theorem nextField_sep (wide : Bool) (r : List Ch) (nf : NextField) (h : nextField wide r = .ok nf)
    (hs : nf.sep ≠ 0) : nf.rest.length < r.length := by
  cases wide with
  | false =>
    simp only [nextField, Bool.false_eq_true, if_false, Except.ok.injEq] at h
    subst h
    have h1 := skipWsN_le r
    have h2 := scanFieldN_le (skipWsN r)
    have h3 := scanSepN_le (scanFieldN (skipWsN r)).2
    have h4 := skipCommentN_le (scanSepN (scanFieldN (skipWsN r)).2)
    simp only [nextFieldN] at hs ⊢
    split at hs
    · rename_i h35
      have : skipCommentN (scanSepN (scanFieldN (skipWsN r)).2) ≠ [] := by
        intro h; simp [h, sepAt] at hs
      have := List.length_pos_iff.mpr this
      simp only [h35, if_true, List.length_drop]; omega
    · rename_i h35
      have : scanSepN (scanFieldN (skipWsN r)).2 ≠ [] := by
        intro h; simp [h, sepAt] at hs
      have := List.length_pos_iff.mpr this
      simp only [h35, if_false, List.length_drop]; omega
  | true =>
    simp only [nextField, if_true] at h
    have hle := (nextFieldW_rest r nf h).1
    unfold nextFieldW at h
    split at h; · cases h
    rename_i r1 h1
    split at h; · cases h
    rename_i b r2 h2
    split at h; · cases h
    split at h; · cases h
    split at h; · cases h
    rename_i r3 h3
    split at h; · cases h
    rename_i sep hsep
    cases h
    have s1 := (skipWsW_spec r r1 h1).1
    have s2 := scanW_len r1 b r2 h2
    have s3 : r3.length ≤ r2.length := by
      split at h3
      · exact (skipCommentW_le r2 r3 h3).1
      · cases h3; exact Nat.le_refl _
    have hne : r3 ≠ [] := by intro h; simp [h, rd] at hsep
    have := List.length_pos_iff.mpr hne
    simp only at hs
    simp only [hs, ne_eq, not_false_eq_true, if_true, List.length_drop]; omega

/-- The do-while loop of the parser: split one entry into its `:`-separated
fields.  Returns every field (the C stores the first `numfields` and counts all
of them) and the text after the entry. -/
def splitEntry (wide : Bool) (r : List Ch) : Except Fault (List Field × List Ch) :=
  match h : nextField wide r with
  | .error e => .error e
  | .ok nf =>
    if hs : nf.sep = 58 then
      match splitEntry wide nf.rest with
      | .error e => .error e
      | .ok (fs, rest) => .ok (nf.field :: fs, rest)
    else .ok ([nf.field], nf.rest)
termination_by r.length
decreasing_by exact nextField_sep wide r nf h (by simp [hs])

theorem splitEntry_rest (wide : Bool) (r : List Ch) (fs : List Field) (rest : List Ch)
    (h : splitEntry wide r = .ok (fs, rest)) :
    rest.length ≤ r.length ∧ (∀ c t, r = c :: t → c ≠ 0 → rest.length < r.length) := by
  induction r using (measure List.length).wf.induction generalizing fs rest with
  | _ r ih =>
    rw [splitEntry] at h
    split at h; · cases h
    rename_i nf hnf
    have hr := nextField_rest wide r nf hnf
    split at h
    · rename_i hs
      have hlt := nextField_sep wide r nf hnf (by simp [hs])
      split at h; · cases h
      rename_i fs' rest' hrec
      cases h
      have := (ih nf.rest hlt fs' rest hrec).1
      exact ⟨by omega, fun c t e hc => by omega⟩
    · cases h
      exact hr

/-- What the parser did, besides the ACL it built. -/
structure ParseOut where
  acl : Acl
  status : Status
  /-- entries skipped with `ret = ARCHIVE_WARN; continue` -/
  skipped : Nat := 0
  /-- entries handed to `archive_acl_add_entry_*` -/
  added : Nat := 0
  deriving Repr

/-- The `while` loop of `archive_acl_from_text_nl` (`length > 0 && *text != 0`)
and of `archive_acl_from_text_w` (`*text != 0`). -/
def parseLoop (wide : Bool) (wantType : Nat) (r : List Ch) (o : ParseOut) : Except Fault ParseOut :=
  match r with
  | [] => if wide then .error .oob else .ok o
  | c :: t =>
    if c = 0 then .ok o else
    match h : splitEntry wide (c :: t) with
    | .error e => .error e
    | .ok (fs, rest) =>
      match parseFields wide fs wantType with
      | .error e => .error e
      | .ok .comment => parseLoop wide wantType rest o
      | .ok .skip => parseLoop wide wantType rest { o with status := .warn, skipped := o.skipped + 1 }
      | .ok (.entry type p tag id name) =>
        match nameOf wide name with
        | .error e => .error e
        | .ok nm =>
          match addEntry o.acl type p tag id nm with
          | (acl', st) =>
            -- `if (r < ARCHIVE_WARN) return (r);`
            if st = .failed ∨ st = .fatal then .ok { o with acl := acl', status := st, added := o.added + 1 }
            else parseLoop wide wantType rest
              { o with acl := acl', status := if st ≠ .ok then .warn else o.status, added := o.added + 1 }
termination_by r.length
decreasing_by
  all_goals
    have := (splitEntry_rest wide (c :: t) fs rest h).2 c t rfl (by assumption)
    simpa using this

/-- `archive_acl_from_text_nl(acl, text, length, want_type, NULL)` on exactly the
`length` characters of `text` (`wide = false`), `archive_acl_from_text_w` on
the characters before the terminating NUL (`wide = true`). -/
def fromText (wide : Bool) (acl : Acl) (text : List Ch) (wantType : Nat) : Except Fault ParseOut :=
  let wt := if wantType = typePosix1e then typeAccess else wantType
  if wt = typeAccess ∨ wt = typeDefault ∨ wt = typeNfs4 then
    parseLoop wide wt (if wide then text ++ [0] else text) { acl := acl, status := .ok }
  else .ok { acl := acl, status := .fatal }

end LA.Acl
