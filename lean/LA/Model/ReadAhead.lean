/-
Model of the peek/consume window of libarchive/archive_read.c
(`__archive_read_filter_ahead`, `__archive_read_filter_consume`,
`advance_file_pointer`, `client_skip_proxy`, `client_switch_proxy`,
`client_seek_proxy`, `__archive_read_filter_seek`) over one or several data nodes.
Used by C01 (bounds, termination), C05 (partition / source independence) and
C08 (truncation / callback faults).

Representation choices (all observable through the interface, none hides a C
behaviour):
* the copy buffer is `bufSize` (allocation size), `next` (offset of
  `filter->next` in it) and `cb`, the `avail` valid bytes starting at `next`;
  stale bytes before `next` and after `next+avail` are never read by the C and
  are not represented.  "Inside the allocation" is `next + cb.length ≤ bufSize`.
* the client block is the list `cblk` (`client_total = cblk.length`),
  `cnext` the offset of `client_next` in it and `cavail`.
* the byte source is the script of read-callback results still to come:
  non-empty blocks `src` of the current data node, then end of that node.  A
  zero-length block is end-of-file by the callback contract.  `later` holds the
  scripts of the following data nodes of a multi-volume set (each ends with its
  own end-of-file, after which `client_switch_proxy` moves to the next one);
  after the last node comes `term` forever (end of file or error).
* the skip callback is a script `skips` of answers; each answer is consumed by
  one invocation; an exhausted script answers 0 ("cannot skip").
* a seekable client (second half of this file) additionally has the full
  contents of every data node (`nodes`), so that it can be positioned anywhere;
  `src`/`later` are then always "what the client will deliver from where it
  stands": the rest of the current node and the nodes behind it, cut into
  blocks by `blk epoch node offset` (any function: the client may cut the same
  bytes differently after every seek).  `client.cursor` is not stored: it is
  `nodes.length - 1 - later.length`.  `begins`/`sizes` are
  `client.dataset[i].begin_position/total_size` (-1 = not known yet).
-/
import LA.Model.Util
namespace LA.RA

inductive Term | eof | err
  deriving DecidableEq, Repr

structure State where
  bufSize : Nat := 0
  next : Nat := 0
  cb : List Nat := []
  cblk : List Nat := []
  cnext : Nat := 0
  cavail : Nat := 0
  position : Nat := 0
  eof : Bool := false
  fatal : Bool := false
  canSkip : Bool := true
  src : List (List Nat) := []
  later : List (List (List Nat)) := []
  term : Term := .eof
  skips : List Int := []
  -- seekable client
  canSeek : Bool := false          -- `filter->can_seek`
  hasSeeker : Bool := false        -- `client.seeker != NULL`
  noSkipper : Bool := false        -- `client.skipper == NULL` (then `skips` is not consulted)
  nodes : List (List Nat) := []    -- contents of every data node
  begins : List Int := []          -- `client.dataset[i].begin_position`
  sizes : List Int := []           -- `client.dataset[i].total_size`
  seeks : List Int := []           -- script of the seek callback's behaviour, one entry per invocation
  epoch : Nat := 0                 -- number of successful seek callback invocations so far
  blk : Nat → Nat → Nat → Nat := fun _ _ _ => 0   -- block size chosen by the client: epoch, node, offset
  over : Nat := 0                  -- how far beyond the end of node `overNode` the client was positioned
  overNode : Nat := 0

inductive AheadR
  | window (w : List Nat) (fromCopy : Bool)   -- pointer returned, `*avail = w.length`
  | short (avail : Nat)                        -- NULL returned, `*avail = avail ≥ 0`
  | fatal                                      -- NULL returned, `*avail = ARCHIVE_FATAL`
  | stuck                                      -- the C loop would make no progress (unreachable, see `ahead_not_stuck`)
  deriving DecidableEq, Repr

def sizeMax : Nat := 18446744073709551616

/-- The doubling loop "Double the buffer; watch for overflow." (`size_t` arithmetic). -/
def growLoop : Nat → Nat → Nat → Nat → Option Nat
  | 0, _, _, _ => none
  | fuel + 1, s, t, min =>
    if s < min then
      let t' := (t * 2) % sizeMax
      if t' ≤ s then none else growLoop fuel t' t' min
    else some s

def grow (bufSize min : Nat) : Option Nat :=
  if bufSize = 0 then some min else growLoop 65 bufSize bufSize min

/-- "Move data forward in copy buffer if necessary." -/
def moveFwd (s : State) (min : Nat) : State :=
  if s.next > 0 ∧ s.next + min > s.bufSize then { s with next := 0 } else s

@[simp] theorem moveFwd_src (s : State) (m : Nat) : (moveFwd s m).src = s.src := by
  unfold moveFwd; split <;> rfl
@[simp] theorem moveFwd_cavail (s : State) (m : Nat) : (moveFwd s m).cavail = s.cavail := by
  unfold moveFwd; split <;> rfl
@[simp] theorem moveFwd_later (s : State) (m : Nat) : (moveFwd s m).later = s.later := by
  unfold moveFwd; split <;> rfl

/-- Install the enlarged copy buffer (contents are moved to its start). -/
def enlarge (s : State) (min bs : Nat) : State :=
  if min > s.bufSize then { s with bufSize := bs, next := 0 } else s

@[simp] theorem enlarge_src (s : State) (m b : Nat) : (enlarge s m b).src = s.src := by
  unfold enlarge; split <;> rfl
@[simp] theorem enlarge_cavail (s : State) (m b : Nat) : (enlarge s m b).cavail = s.cavail := by
  unfold enlarge; split <;> rfl
@[simp] theorem enlarge_later (s : State) (m b : Nat) : (enlarge s m b).later = s.later := by
  unfold enlarge; split <;> rfl

/-- How many client bytes the loop copies into the copy buffer this round. -/
def tocopy (s : State) (min : Nat) : Nat :=
  let t0 := s.bufSize - (s.next + s.cb.length)
  let t1 := if t0 + s.cb.length > min then min - s.cb.length else t0
  if t1 > s.cavail then s.cavail else t1

theorem tocopy_le (s : State) (min : Nat) : tocopy s min ≤ s.cavail := by
  unfold tocopy; simp only []; split <;> split <;> omega

/-- Body of the `for (;;)` loop of `__archive_read_filter_ahead`. -/
def aheadLoop (s : State) (min : Nat) : AheadR × State :=
  if s.cb.length ≥ min ∧ s.cb.length > 0 then
    (.window s.cb true, s)
  else if s.cblk.length ≥ s.cavail + s.cb.length ∧ s.cavail + s.cb.length ≥ min then
    -- "Roll back" to client buffer.
    let s' := { s with cavail := s.cavail + s.cb.length, cnext := s.cnext - s.cb.length,
                       cb := [], next := 0 }
    -- `client_next` is NULL before the first block and after end-of-file was latched:
    -- the caller then sees a NULL return with `*avail = 0`.
    if s'.cblk = [] then (.short 0, s')
    else (.window ((s'.cblk.drop s'.cnext).take s'.cavail) false, s')
  else
    if s.cavail = 0 then
      let s1 := moveFwd s min
      if s1.eof then (.short s1.cb.length, s1)
      else
        match hs : s.src with
        | [] =>
          match hl : s.later with
          | nxt :: more =>
            -- end of this data node, another one follows: client_switch_proxy(cursor + 1), read again
            aheadLoop { s1 with src := nxt, later := more } min
          | [] =>
          match s1.term with
          | .err => (.fatal, { s1 with cblk := [], cnext := 0, cavail := 0, fatal := true })
          | .eof => (.short s1.cb.length, { s1 with cblk := [], cnext := 0, cavail := 0, eof := true })
        | [] :: rest =>
          (.short s1.cb.length, { s1 with cblk := [], cnext := 0, cavail := 0, eof := true, src := rest })
        | (b :: bs) :: rest =>
          aheadLoop { s1 with cblk := b :: bs, cnext := 0, cavail := (b :: bs).length, src := rest } min
    else
      let s1 := moveFwd s min
      -- Ensure the buffer is big enough.
      match (if min > s1.bufSize then grow s1.bufSize min else some s1.bufSize) with
      | none => (.fatal, { s1 with fatal := true })
      | some bs =>
        let s2 := enlarge s1 min bs
        let tc := tocopy s2 min
        if tc = 0 then (.stuck, s2)
        else
          aheadLoop { s2 with cb := s2.cb ++ (s2.cblk.drop s2.cnext).take tc,
                              cnext := s2.cnext + tc, cavail := s2.cavail - tc } min
termination_by (s.later.length, s.src.length, s.cavail)
decreasing_by
  · simp_wf
    apply Prod.Lex.left
    simp [hl]
  · simp_wf
    apply Prod.Lex.right'
    · simp
    · apply Prod.Lex.left
      simp [hs]
  · simp_wf
    apply Prod.Lex.right'
    · simp
    · apply Prod.Lex.right'
      · simp
      · have h1 : tc ≤ s2.cavail := tocopy_le s2 min
        have h2 : s2.cavail = s.cavail := by simp [s2, s1]
        have h3 : tc = tocopy (enlarge (moveFwd s min) min bs) min := rfl
        omega

/-- `__archive_read_filter_ahead(filter, min, &avail)`. -/
def ahead (s : State) (min : Nat) : AheadR × State :=
  if s.fatal then (.fatal, s) else aheadLoop s min

/-- Remove `k` bytes from the front of a block list. -/
def dropBytes : List (List Nat) → Nat → List (List Nat)
  | [], _ => []
  | b :: rest, k =>
    if k = 0 then b :: rest
    else if k < b.length then b.drop k :: rest
    else dropBytes rest (k - b.length)

/-- Number of bytes the source still holds. -/
def srcLen (src : List (List Nat)) : Nat := src.flatten.length

/-- `client_skip_proxy` with a skip callback: loop over the skipper's answers.
A script entry `g ≥ 0` is a well-behaved skipper willing to skip up to `g` bytes:
it answers `min g request` (and never more than the source holds); `-999` is a
misbehaving skipper that answers more than it was asked; any other negative
entry is an error code.  An exhausted script answers 0.  Returns the total
(negative = error) and the state with the skipped bytes removed from the source. -/
def skipLoop (s : State) (request : Nat) (total : Nat) : List Int → Int × State
  | [] => (total, { s with skips := [] })
  | get :: rest =>
    if get = -999 then (-30, { s with skips := rest })       -- `if (get > request) return ARCHIVE_FATAL;`
    else if get < 0 then (get, { s with skips := rest })     -- `if (get < 0) return (get);`
    else
      let g := Nat.min (Nat.min get.toNat request) (srcLen s.src)
      let s' := { s with src := dropBytes s.src g }
      if g = 0 ∨ g = request then (total + g, { s' with skips := rest })
      else skipLoop s' (request - g) (total + g) rest

/-- The "Use ordinary reads as necessary" loop of `advance_file_pointer`.
Returns total skipped so far or a negative error. -/
def readSkipLoop (s : State) (request : Nat) (total : Nat) : Int × State :=
  match hs : s.src with
  | [] =>
    match hl : s.later with
    | nxt :: more => readSkipLoop { s with src := nxt, later := more } request total   -- next data node
    | [] =>
    match s.term with
    | .err => (-30, { s with fatal := true })
    | .eof => (total, { s with eof := true })
  | [] :: rest => (total, { s with eof := true, src := rest })
  | (b :: bs) :: rest =>
    let n := (b :: bs).length
    if n ≥ request then
      (total + request, { s with cblk := b :: bs, cnext := request, cavail := n - request,
                                 position := s.position + request, src := rest })
    else
      readSkipLoop { s with position := s.position + n, src := rest } (request - n) (total + n)
termination_by (s.later.length, s.src.length)
decreasing_by
  · simp_wf; apply Prod.Lex.left; simp [hl]
  · simp_wf; apply Prod.Lex.right'; · simp
    simp [hs]

/-! ### The seekable client -/

inductive Whence | set | cur | end_ | other
  deriving DecidableEq, Repr

/-- Cut `bytes`, which start at offset `off` of a data node, into the blocks the read
callback delivers: the block that starts at offset `o` has `max 1 (f o)` bytes, the last
one what is left.  (`fuel` is `bytes.length`: every block takes at least one byte.) -/
def chopFuel (f : Nat → Nat) : Nat → Nat → List Nat → List (List Nat)
  | 0, _, _ => []
  | fuel + 1, off, bytes =>
    if bytes = [] then []
    else
      let k := Nat.max 1 (f off)
      bytes.take k :: chopFuel f fuel (off + k) (bytes.drop k)

def chop (f : Nat → Nat) (off : Nat) (bytes : List Nat) : List (List Nat) :=
  chopFuel f bytes.length off bytes

/-- The block scripts of the nodes `i, i+1, …`, each read from its start. -/
def chopNodes (blk : Nat → Nat → Nat) : Nat → List (List Nat) → List (List (List Nat))
  | _, [] => []
  | i, n :: ns => chop (blk i) 0 n :: chopNodes blk (i + 1) ns

def nodeAt (s : State) (c : Nat) : List Nat := (s.nodes[c]?).getD []

/-- `client.cursor`. -/
def cursor (s : State) : Nat := s.nodes.length - 1 - s.later.length

/-- The client standing at offset `off` of node `c`, cutting blocks as in epoch `e`. -/
def place (s : State) (e c off : Nat) : State :=
  { s with epoch := e,
           src := chop (s.blk e c) off ((nodeAt s c).drop off),
           later := chopNodes (s.blk e) (c + 1) (s.nodes.drop (c + 1)),
           over := off - (nodeAt s c).length, overNode := c }

/-- `client_switch_proxy(filter, c)`: nothing if already there; else close the current
node and open node `c`, which starts at its first byte (as `file_switch` of
archive_read_open_filenames does).  The callbacks are taken to succeed. -/
def switchTo (s : State) (c : Nat) : State :=
  if cursor s = c then s else place s s.epoch c 0

/-- Offset of the client in its current node. -/
def filePos (s : State) : Nat :=
  (nodeAt s (cursor s)).length - srcLen s.src +
    (if s.overNode = cursor s ∧ s.src = [] then s.over else 0)

/-- Where `lseek(offset, whence)` would put the client in its current node. -/
def seekTarget (s : State) (w : Whence) (offset : Int) : Int :=
  match w with
  | .set => offset
  | .cur => (filePos s : Int) + offset
  | .end_ => ((nodeAt s (cursor s)).length : Int) + offset
  | .other => -1

/-- `client_seek_proxy(filter, offset, whence)` with a file-like seek callback (`lseek`):
a negative resulting offset is refused (ARCHIVE_FATAL), an offset beyond the end is
accepted.  Script entry of this invocation: `0` (or none left) = behave; `a < 0` = fail
with code `a` and do not move; `a > 0` = on SEEK_SET land on the multiple of `a` below the
requested offset and say so (a block-aligned seeker). -/
def clientSeek (s : State) (w : Whence) (offset : Int) : Int × State :=
  if !s.hasSeeker then (-25, s)     -- "Current client reader does not support seeking a device"
  else
    let ans := (s.seeks.head?).getD 0
    let s1 := { s with seeks := s.seeks.tail }
    if ans < 0 then (ans, s1)
    else
      let np := seekTarget s w offset
      if np < 0 then (-30, s1)
      else
        let t := if ans > 0 ∧ w = .set then np.toNat - np.toNat % ans.toNat else np.toNat
        ((t : Int), place s1 (s.epoch + 1) (cursor s) t)

/-- The seeker branch of `client_skip_proxy` ("If the client provided a seeker but not a
skipper, we can use the seeker to skip forward", only for requests over 64k). -/
def seekSkip (s : State) (request : Nat) : Int × State :=
  if s.hasSeeker ∧ request > 64 * 1024 then
    let r := clientSeek s .cur request
    if r.1 ≠ (s.position : Int) + request then (-30, r.2) else (request, r.2)   -- `after != before + request`
  else (0, s)

/-- "Use up the copy buffer first. Then use up the client buffer."  Returns the
new state and the number of bytes taken from the two buffers. -/
def useBuffers (s : State) (request : Nat) : State × Nat :=
  let m1 := Nat.min request s.cb.length
  let s1 := { s with next := s.next + m1, cb := s.cb.drop m1, position := s.position + m1 }
  let m2 := Nat.min (request - m1) s1.cavail
  ({ s1 with cnext := s1.cnext + m2, cavail := s1.cavail - m2, position := s1.position + m2 }, m1 + m2)

/-- `advance_file_pointer(filter, request)` for `request > 0`. -/
def advance (s : State) (request : Nat) : Int × State :=
  if s.fatal then (-1, s) else
  let (s2, total) := useBuffers s request
  let request := request - total
  if request = 0 then (total, s2) else
  -- If there's an optimized skip function, use it.
  let (r, s3) : Int × State :=
    if s2.canSkip then (if s2.noSkipper then seekSkip s2 request else skipLoop s2 request 0 s2.skips) else (0, s2)
  if r < 0 then (r, { s3 with fatal := true }) else
  let k := r.toNat
  let s4 := { s3 with position := s3.position + k }
  let total := total + k
  let request := request - k
  if request = 0 then (total, s4) else
  readSkipLoop s4 request total

/-- `__archive_read_filter_consume(filter, request)`: the amount consumed, or
`ARCHIVE_FATAL` (-30). -/
def consume (s : State) (request : Int) : Int × State :=
  if request < 0 then (-30, s)
  else if request = 0 then (0, s)
  else
    let (skipped, s') := advance s request.toNat
    if skipped = request then (skipped, s') else (-30, s')

/-! ### `__archive_read_filter_seek` -/

/-- Outcome of one of the node walks: the request failed, or the walk stands at node `c`. -/
inductive Walk
  | fail (r : Int) (s : State)
  | at_ (c : Nat) (s : State)

/-- Distinguished result for an index outside `client.dataset[]` (unreachable, see
`seek_in_bounds`). -/
def oob : Int := -99

/-- `client->dataset[c].begin_position = b`. -/
def setBegin (s : State) (c : Nat) (b : Int) : State := { s with begins := s.begins.set c b }

/-- `client->dataset[c].total_size = z`. -/
def setSize (s : State) (c : Nat) (z : Int) : State := { s with sizes := s.sizes.set c z }

/-- The extra exit of the SEEK_SET walks: this node ends behind `offset`
(`begin_position + total_size > offset`). -/
def holds (stopAt : Option Int) (nodeEnd : Int) : Bool :=
  match stopAt with
  | some off => decide (nodeEnd > off)
  | none => false

/-- First `while (1)` of SEEK_SET and SEEK_END: pass over the nodes whose position and size
are known already (`stopAt = some offset`: and that end at or before `offset`), noting where
the next one begins.  `left` is `client.nodes - 1 - cursor`, so `left = 0` is the test
`cursor + 1 >= client->nodes`. -/
def walkKnown (stopAt : Option Int) : Nat → Nat → State → Walk
  | 0, c, s => .at_ c s
  | left + 1, c, s =>
    match s.begins[c]?, s.sizes[c]? with
    | some b, some sz =>
      if b < 0 ∨ sz < 0 ∨ holds stopAt (b + sz) = true then .at_ c s
      else if c + 1 < s.begins.length then
        walkKnown stopAt left (c + 1) (setBegin s (c + 1) (b + sz))
      else .fail oob s
    | _, _ => .fail oob s

/-- Second `while (1)`: switch to the node, ask the seek callback for its size
(`client_seek_proxy(filter, 0, SEEK_END)`), record it, go on to the next node unless this
one holds the offset or is the last. -/
def walkProbe (stopAt : Option Int) : Nat → Nat → State → Walk
  | left, c, s =>
    let s1 := switchTo s c
    let r := clientSeek s1 .end_ 0
    if r.1 < 0 then .fail r.1 r.2
    else
      match r.2.begins[c]? with
      | none => .fail oob r.2
      | some b =>
        if c < r.2.sizes.length then
          let s3 := setSize r.2 c r.1
          if holds stopAt (b + r.1) then .at_ c s3
          else
            match left with
            | 0 => .at_ c s3
            | left' + 1 =>
              if c + 1 < s3.begins.length then
                walkProbe stopAt left' (c + 1) (setBegin s3 (c + 1) (b + r.1))
              else .fail oob s3
        else .fail oob r.2
termination_by structural left => left

/-- Third `while (1)` of SEEK_END: from the last node back to the one that holds
`r + offset`.  Result: cursor, `r`, `offset`. -/
def walkBack (s : State) : Nat → Int → Int → Option (Nat × Int × Int)
  | 0, r, offset => some (0, r, offset)
  | c + 1, r, offset =>
    match s.begins[c + 1]?, s.sizes[c + 1]?, s.begins[c]?, s.sizes[c]? with
    | some b, some sz, some b', some sz' =>
      if r + offset ≥ b then some (c + 1, r, offset)
      else walkBack s c (b' + sz') (offset + sz)
    | _, _, _, _ => none

/-- The common tail: "Clearing the buffer like this hurts".  `client_total` and
`client_next` are left as they are by the C; with `client_avail = 0` the position of
`client_next` inside the old block can no longer be observed, the model moves it to the
end of the block (keeping `cnext + cavail = client_total`). -/
def finishSeek (s : State) (r : Int) : Int × State :=
  if r ≥ 0 then
    (r, { s with cb := [], next := 0, cavail := 0, cnext := s.cblk.length, position := r.toNat, eof := false })
  else (r, s)

/-- The last step of both branches: range check against the chosen node, then
`client_seek_proxy(filter, offset, SEEK_SET)` and `r += begin_position`. -/
def seekIn (s : State) (c : Nat) (off : Int) : Int × State :=
  match s.begins[c]?, s.sizes[c]? with
  | some b, some sz =>
    if off < 0 ∨ off > sz then (-30, s)
    else
      let r := clientSeek (switchTo s c) .set off
      if r.1 < 0 then r else finishSeek r.2 (r.1 + b)
  | _, _ => (oob, s)

def seekSet (s : State) (offset : Int) : Int × State :=
  match walkKnown (some offset) (s.nodes.length - 1) 0 s with
  | .fail r s1 => (r, s1)
  | .at_ c s1 =>
    match walkProbe (some offset) (s.nodes.length - 1 - c) c s1 with
    | .fail r s2 => (r, s2)
    | .at_ c s2 =>
      match s2.begins[c]? with
      | some b => seekIn s2 c (offset - b)
      | none => (oob, s2)

def seekEnd (s : State) (offset : Int) : Int × State :=
  match walkKnown none (s.nodes.length - 1) 0 s with
  | .fail r s1 => (r, s1)
  | .at_ c s1 =>
    match walkProbe none (s.nodes.length - 1 - c) c s1 with
    | .fail r s2 => (r, s2)
    | .at_ c s2 =>
      match s2.begins[c]?, s2.sizes[c]? with
      | some b, some sz =>
        match walkBack s2 c (b + sz) offset with
        | some (c', r, off) =>
          match s2.begins[c']? with
          | some b' => seekIn s2 c' ((r + off) - b')
          | none => (oob, s2)
        | none => (oob, s2)
      | _, _ => (oob, s2)

/-- `__archive_read_filter_seek(filter, offset, whence)`: the new position, or a negative
status (ARCHIVE_FAILED = -25 when seeking is not possible, ARCHIVE_FATAL = -30). -/
def seek (s : State) (offset : Int) (whence : Whence) : Int × State :=
  if s.fatal then (-30, s)                 -- `filter->closed || filter->fatal`
  else if !s.canSeek then (-25, s)
  else match whence with
    | .cur => seekSet s (offset + s.position)      -- "Adjust the offset and use SEEK_SET instead"
    | .set => seekSet s offset
    | .end_ => seekEnd s offset
    | .other => (-30, s)

/-- Bytes of the stream not yet consumed. -/
def remaining (s : State) : List Nat :=
  s.cb ++ (s.cblk.drop s.cnext).take s.cavail ++ (s.src.flatten ++ s.later.flatten.flatten)

end LA.RA
