/-
Model of the peek/consume window of libarchive/archive_read.c
(`__archive_read_filter_ahead`, `__archive_read_filter_consume`,
`advance_file_pointer`, `client_skip_proxy`) for a single data node.
Used by C01 (bounds, termination), C05 (partition independence) and
C08 (truncation / callback faults).

Representation choices (all observable through the interface, none hides a C
behaviour):
* the copy buffer is `bufSize` (allocation size), `next` (offset of
  `filter->next` in it) and `cb`, the `avail` valid bytes starting at `next`;
  stale bytes before `next` and after `next+avail` are never read by the C and
  are not represented.  "Inside the allocation" is `next + cb.length ≤ bufSize`.
* the client block is the list `cblk` (`client_total = cblk.length`),
  `cnext` the offset of `client_next` in it and `cavail`.
* the byte source is the script of read-callback results still to come:
  non-empty blocks `src` of the current data node, then end of that node.  A
  zero-length block is end-of-file by the callback contract.  `later` holds the
  scripts of the following data nodes of a multi-volume set (each ends with its
  own end-of-file, after which `client_switch_proxy` moves to the next one);
  after the last node comes `term` forever (end of file or error).
* the skip callback is a script `skips` of answers; each answer is consumed by
  one invocation; an exhausted script answers 0 ("cannot skip").
-/
import LA.Model.Util
namespace LA.RA

inductive Term | eof | err
  deriving DecidableEq, Repr

structure State where
  bufSize : Nat := 0
  next : Nat := 0
  cb : List Nat := []
  cblk : List Nat := []
  cnext : Nat := 0
  cavail : Nat := 0
  position : Nat := 0
  eof : Bool := false
  fatal : Bool := false
  canSkip : Bool := true
  src : List (List Nat) := []
  later : List (List (List Nat)) := []
  term : Term := .eof
  skips : List Int := []
  deriving Repr

inductive AheadR
  | window (w : List Nat) (fromCopy : Bool)   -- pointer returned, `*avail = w.length`
  | short (avail : Nat)                        -- NULL returned, `*avail = avail ≥ 0`
  | fatal                                      -- NULL returned, `*avail = ARCHIVE_FATAL`
  | stuck                                      -- the C loop would make no progress (unreachable, see `ahead_not_stuck`)
  deriving DecidableEq, Repr

def sizeMax : Nat := 18446744073709551616

/-- The doubling loop "Double the buffer; watch for overflow." (`size_t` arithmetic). -/
def growLoop : Nat → Nat → Nat → Nat → Option Nat
  | 0, _, _, _ => none
  | fuel + 1, s, t, min =>
    if s < min then
      let t' := (t * 2) % sizeMax
      if t' ≤ s then none else growLoop fuel t' t' min
    else some s

def grow (bufSize min : Nat) : Option Nat :=
  if bufSize = 0 then some min else growLoop 65 bufSize bufSize min

/-- "Move data forward in copy buffer if necessary." -/
def moveFwd (s : State) (min : Nat) : State :=
  if s.next > 0 ∧ s.next + min > s.bufSize then { s with next := 0 } else s

@[simp] theorem moveFwd_src (s : State) (m : Nat) : (moveFwd s m).src = s.src := by
  unfold moveFwd; split <;> rfl
@[simp] theorem moveFwd_cavail (s : State) (m : Nat) : (moveFwd s m).cavail = s.cavail := by
  unfold moveFwd; split <;> rfl
@[simp] theorem moveFwd_later (s : State) (m : Nat) : (moveFwd s m).later = s.later := by
  unfold moveFwd; split <;> rfl

/-- Install the enlarged copy buffer (contents are moved to its start). -/
def enlarge (s : State) (min bs : Nat) : State :=
  if min > s.bufSize then { s with bufSize := bs, next := 0 } else s

@[simp] theorem enlarge_src (s : State) (m b : Nat) : (enlarge s m b).src = s.src := by
  unfold enlarge; split <;> rfl
@[simp] theorem enlarge_cavail (s : State) (m b : Nat) : (enlarge s m b).cavail = s.cavail := by
  unfold enlarge; split <;> rfl
@[simp] theorem enlarge_later (s : State) (m b : Nat) : (enlarge s m b).later = s.later := by
  unfold enlarge; split <;> rfl

/-- How many client bytes the loop copies into the copy buffer this round. -/
def tocopy (s : State) (min : Nat) : Nat :=
  let t0 := s.bufSize - (s.next + s.cb.length)
  let t1 := if t0 + s.cb.length > min then min - s.cb.length else t0
  if t1 > s.cavail then s.cavail else t1

theorem tocopy_le (s : State) (min : Nat) : tocopy s min ≤ s.cavail := by
  unfold tocopy; simp only []; split <;> split <;> omega

/-- Body of the `for (;;)` loop of `__archive_read_filter_ahead`. -/
def aheadLoop (s : State) (min : Nat) : AheadR × State :=
  if s.cb.length ≥ min ∧ s.cb.length > 0 then
    (.window s.cb true, s)
  else if s.cblk.length ≥ s.cavail + s.cb.length ∧ s.cavail + s.cb.length ≥ min then
    -- "Roll back" to client buffer.
    let s' := { s with cavail := s.cavail + s.cb.length, cnext := s.cnext - s.cb.length,
                       cb := [], next := 0 }
    -- `client_next` is NULL before the first block and after end-of-file was latched:
    -- the caller then sees a NULL return with `*avail = 0`.
    if s'.cblk = [] then (.short 0, s')
    else (.window ((s'.cblk.drop s'.cnext).take s'.cavail) false, s')
  else
    if s.cavail = 0 then
      let s1 := moveFwd s min
      if s1.eof then (.short s1.cb.length, s1)
      else
        match hs : s.src with
        | [] =>
          match hl : s.later with
          | nxt :: more =>
            -- end of this data node, another one follows: client_switch_proxy(cursor + 1), read again
            aheadLoop { s1 with src := nxt, later := more } min
          | [] =>
          match s1.term with
          | .err => (.fatal, { s1 with cblk := [], cnext := 0, cavail := 0, fatal := true })
          | .eof => (.short s1.cb.length, { s1 with cblk := [], cnext := 0, cavail := 0, eof := true })
        | [] :: rest =>
          (.short s1.cb.length, { s1 with cblk := [], cnext := 0, cavail := 0, eof := true, src := rest })
        | (b :: bs) :: rest =>
          aheadLoop { s1 with cblk := b :: bs, cnext := 0, cavail := (b :: bs).length, src := rest } min
    else
      let s1 := moveFwd s min
      -- Ensure the buffer is big enough.
      match (if min > s1.bufSize then grow s1.bufSize min else some s1.bufSize) with
      | none => (.fatal, { s1 with fatal := true })
      | some bs =>
        let s2 := enlarge s1 min bs
        let tc := tocopy s2 min
        if tc = 0 then (.stuck, s2)
        else
          aheadLoop { s2 with cb := s2.cb ++ (s2.cblk.drop s2.cnext).take tc,
                              cnext := s2.cnext + tc, cavail := s2.cavail - tc } min
termination_by (s.later.length, s.src.length, s.cavail)
decreasing_by
  · simp_wf
    apply Prod.Lex.left
    simp [hl]
  · simp_wf
    apply Prod.Lex.right'
    · simp
    · apply Prod.Lex.left
      simp [hs]
  · simp_wf
    apply Prod.Lex.right'
    · simp
    · apply Prod.Lex.right'
      · simp
      · have h1 : tc ≤ s2.cavail := tocopy_le s2 min
        have h2 : s2.cavail = s.cavail := by simp [s2, s1]
        have h3 : tc = tocopy (enlarge (moveFwd s min) min bs) min := rfl
        omega

/-- `__archive_read_filter_ahead(filter, min, &avail)`. -/
def ahead (s : State) (min : Nat) : AheadR × State :=
  if s.fatal then (.fatal, s) else aheadLoop s min

/-- Remove `k` bytes from the front of a block list. -/
def dropBytes : List (List Nat) → Nat → List (List Nat)
  | [], _ => []
  | b :: rest, k =>
    if k = 0 then b :: rest
    else if k < b.length then b.drop k :: rest
    else dropBytes rest (k - b.length)

/-- Number of bytes the source still holds. -/
def srcLen (src : List (List Nat)) : Nat := src.flatten.length

/-- `client_skip_proxy` with a skip callback: loop over the skipper's answers.
A script entry `g ≥ 0` is a well-behaved skipper willing to skip up to `g` bytes:
it answers `min g request` (and never more than the source holds); `-999` is a
misbehaving skipper that answers more than it was asked; any other negative
entry is an error code.  An exhausted script answers 0.  Returns the total
(negative = error) and the state with the skipped bytes removed from the source. -/
def skipLoop (s : State) (request : Nat) (total : Nat) : List Int → Int × State
  | [] => (total, { s with skips := [] })
  | get :: rest =>
    if get = -999 then (-30, { s with skips := rest })       -- `if (get > request) return ARCHIVE_FATAL;`
    else if get < 0 then (get, { s with skips := rest })     -- `if (get < 0) return (get);`
    else
      let g := Nat.min (Nat.min get.toNat request) (srcLen s.src)
      let s' := { s with src := dropBytes s.src g }
      if g = 0 ∨ g = request then (total + g, { s' with skips := rest })
      else skipLoop s' (request - g) (total + g) rest

/-- The "Use ordinary reads as necessary" loop of `advance_file_pointer`.
Returns total skipped so far or a negative error. -/
def readSkipLoop (s : State) (request : Nat) (total : Nat) : Int × State :=
  match hs : s.src with
  | [] =>
    match hl : s.later with
    | nxt :: more => readSkipLoop { s with src := nxt, later := more } request total   -- next data node
    | [] =>
    match s.term with
    | .err => (-30, { s with fatal := true })
    | .eof => (total, { s with eof := true })
  | [] :: rest => (total, { s with eof := true, src := rest })
  | (b :: bs) :: rest =>
    let n := (b :: bs).length
    if n ≥ request then
      (total + request, { s with cblk := b :: bs, cnext := request, cavail := n - request,
                                 position := s.position + request, src := rest })
    else
      readSkipLoop { s with position := s.position + n, src := rest } (request - n) (total + n)
termination_by (s.later.length, s.src.length)
decreasing_by
  · simp_wf; apply Prod.Lex.left; simp [hl]
  · simp_wf; apply Prod.Lex.right'; · simp
    simp [hs]

/-- "Use up the copy buffer first. Then use up the client buffer."  Returns the
new state and the number of bytes taken from the two buffers. -/
def useBuffers (s : State) (request : Nat) : State × Nat :=
  let m1 := Nat.min request s.cb.length
  let s1 := { s with next := s.next + m1, cb := s.cb.drop m1, position := s.position + m1 }
  let m2 := Nat.min (request - m1) s1.cavail
  ({ s1 with cnext := s1.cnext + m2, cavail := s1.cavail - m2, position := s1.position + m2 }, m1 + m2)

/-- `advance_file_pointer(filter, request)` for `request > 0`. -/
def advance (s : State) (request : Nat) : Int × State :=
  if s.fatal then (-1, s) else
  let (s2, total) := useBuffers s request
  let request := request - total
  if request = 0 then (total, s2) else
  -- If there's an optimized skip function, use it.
  let (r, s3) : Int × State :=
    if s2.canSkip then skipLoop s2 request 0 s2.skips else (0, s2)
  if r < 0 then (r, { s3 with fatal := true }) else
  let k := r.toNat
  let s4 := { s3 with position := s3.position + k }
  let total := total + k
  let request := request - k
  if request = 0 then (total, s4) else
  readSkipLoop s4 request total

/-- `__archive_read_filter_consume(filter, request)`: the amount consumed, or
`ARCHIVE_FATAL` (-30). -/
def consume (s : State) (request : Int) : Int × State :=
  if request < 0 then (-30, s)
  else if request = 0 then (0, s)
  else
    let (skipped, s') := advance s request.toNat
    if skipped = request then (skipped, s') else (-30, s')

/-- Bytes of the stream not yet consumed. -/
def remaining (s : State) : List Nat :=
  s.cb ++ (s.cblk.drop s.cnext).take s.cavail ++ (s.src.flatten ++ s.later.flatten.flatten)

end LA.RA
