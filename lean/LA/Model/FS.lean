/-
`Model/FS` — a small abstract POSIX file tree with one process on top of it
(DESIGN.md 4.6; used by C04).  This is an *assumption about the kernel*, listed
in the trusted base; the `xtr` engine validates it continuously by comparing
the model tree with a snapshot of the real scratch tree.

Representation
* Directories form a tree by construction (`Tree.dir` holds its entries); a
  directory has exactly one name, so `..` is "drop the last name of the
  position".  A *position* is the list of names from the root.
* Everything that is not a directory is a reference `Tree.file ino` into the
  inode table `files`; two references to one `ino` are hard links.
* `mtime = 0` stands for "now" (anything the kernel stamps itself); times the
  archive asks for are positive.  atime/ctime are not represented.
* The process (`Proc`) has a working directory, a umask, and three descriptor
  slots, which is all `archive_write_disk` ever holds at once: `fd` (the file
  being restored), `dfd` (the directory descriptor `check_symlinks_fsobj`
  walks with), `xfd` (the descriptor opened for a fix-up at close).
* The process is privileged (the harness runs as root): permission bits never
  make a call fail.  `NAME_MAX` and `PATH_MAX` are modelled; `rfd` is the descriptor
  `edit_deep_directories` keeps on the starting directory (`a->restore_pwd`).
Kernel path resolution (`walk`): symlinks are followed in every non-final
component, at most `maxLinks` of them; `..` is physical; a trailing '/' makes
the final component be followed and required to be a directory.
-/
import LA.Model.PathClean
namespace LA.FS
open LA.PathClean (SLASH DOT splitSlash)

abbrev Name := List Nat

inductive Tree
  | dir (mode : Nat) (mtime : Int) (ents : List (Name × Tree))
  | file (ino : Nat)

inductive FNode
  | reg (data : List Nat) (mode : Nat) (mtime : Int)
  | lnk (target : List Nat)
  | fifo (mode : Nat) (mtime : Int)

inductive Kind | dir | reg | lnk | fifo
  deriving DecidableEq, Repr

inductive Err
  | ENOENT | ENOTDIR | ELOOP | EEXIST | EISDIR | ENOTEMPTY | EPERM | EINVAL
  | ENAMETOOLONG | EBUSY | ENOTSUP | EBADF | EIO
  deriving DecidableEq, Repr

structure FS where
  root : Tree
  files : Nat → Option FNode
  next : Nat                       -- next unused inode number

def FNode.kind : FNode → Kind
  | .reg .. => .reg | .lnk .. => .lnk | .fifo .. => .fifo

/-! ### association lists and one level of the tree -/

def alGet {α} : List (Name × α) → Name → Option α
  | [], _ => none
  | (k, v) :: r, c => if k = c then some v else alGet r c

def alSet {α} : List (Name × α) → Name → α → List (Name × α)
  | [], c, x => [(c, x)]
  | (k, v) :: r, c, x => if k = c then (k, x) :: r else (k, v) :: alSet r c x

def alDel {α} : List (Name × α) → Name → List (Name × α)
  | [], _ => []
  | (k, v) :: r, c => if k = c then alDel r c else (k, v) :: alDel r c

def Tree.child : Tree → Name → Option Tree
  | .dir _ _ es, c => alGet es c
  | .file _, _ => none

/-- Replace (or add) one entry; nothing else changes. -/
def Tree.put : Tree → Name → Tree → Tree
  | .dir m t es, c, x => .dir m t (alSet es c x)
  | .file i, _, _ => .file i

def Tree.del : Tree → Name → Tree
  | .dir m t es, c => .dir m t (alDel es c)
  | .file i, _ => .file i

/-- The kernel stamps a directory whose entries change. -/
def Tree.touch : Tree → Tree
  | .dir m _ es => .dir m 0 es
  | .file i => .file i

def Tree.isDir : Tree → Bool
  | .dir .. => true
  | .file _ => false

def Tree.isEmptyDir : Tree → Bool
  | .dir _ _ [] => true
  | _ => false

/-- Subtree at a position. -/
def get : Tree → List Name → Option Tree
  | t, [] => some t
  | t, c :: r => match t.child c with
    | some t' => get t' r
    | none => none

/-- Apply `f` to the subtree at a position (no effect when the position does not exist). -/
def modify (f : Tree → Tree) : Tree → List Name → Tree
  | t, [] => f t
  | t, c :: r => match t.child c with
    | some t' => t.put c (modify f t' r)
    | none => t

/-! ### what is at a position -/

/-- An object as `lstat` sees it. -/
structure Stat where
  kind : Kind
  mode : Nat
  deriving DecidableEq, Repr

def statOfTree (fs : FS) : Tree → Option Stat
  | .dir m _ _ => some ⟨.dir, m⟩
  | .file i => match fs.files i with
    | some (.reg _ m _) => some ⟨.reg, m⟩
    | some (.lnk _) => some ⟨.lnk, 511⟩
    | some (.fifo m _) => some ⟨.fifo, m⟩
    | none => none

def isLnk (fs : FS) : Tree → Bool
  | .file i => match fs.files i with
    | some (.lnk _) => true
    | _ => false
  | .dir .. => false

/-! ### path strings -/

def isAbs (p : List Nat) : Bool := p.head? == some SLASH
def trailingSlash (p : List Nat) : Bool := p.getLast? == some SLASH
/-- Components between slashes, empty ones dropped (the kernel ignores repeated slashes). -/
def compsOf (p : List Nat) : List Name := (splitSlash p).filter (fun c => !(c == []))

def DOTN : Name := [DOT]
def DOTDOTN : Name := [DOT, DOT]
def nameMax : Nat := 255
/-- PATH_MAX: a pathname argument of this many bytes or more is refused with ENAMETOOLONG. -/
def pathMax : Nat := 4096
def maxLinks : Nat := 40

/-! ### kernel path walk -/

/-- Resolve every component of `comps` starting at directory position `pos`,
following every symlink met (also in the last component).  The result is the
position of the object reached (a directory or a non-symlink file). -/
def walk (fs : FS) (budget : Nat) (pos : List Name) (comps : List Name) : Except Err (List Name) :=
  match comps with
  | [] => .ok pos
  | c :: rest =>
    match get fs.root pos with
    | none => .error .ENOENT
    | some (.file _) => .error .ENOTDIR
    | some (.dir m t es) =>
      if c = DOTN then walk fs budget pos rest
      else if c = DOTDOTN then walk fs budget pos.dropLast rest
      else if c.length > nameMax then .error .ENAMETOOLONG
      else match (Tree.dir m t es).child c with
        | none => .error .ENOENT
        | some (.dir ..) => walk fs budget (pos ++ [c]) rest
        | some (.file i) =>
          match fs.files i with
          | some (.lnk target) =>
            match budget with
            | 0 => .error .ELOOP
            | b + 1 =>
              if target = [] then .error .ENOENT
              else walk fs b (if isAbs target then [] else pos) (compsOf target ++ rest)
          | some _ => if rest = [] then .ok (pos ++ [c]) else .error .ENOTDIR
          | none => .error .EIO
termination_by (budget, comps.length)

/-- Where a path-name operation that does **not** follow the final component
lands: the directory holding the final name, or the object itself when the
path ends in ".", ".." or '/' (the kernel then resolves it fully). -/
inductive Loc
  | entry (dir : List Name) (name : Name)   -- final name `name` inside existing directory `dir`
  | obj (pos : List Name)                   -- the path named an existing object by ".", ".." or a trailing '/'
  deriving DecidableEq, Repr

def locate0 (fs : FS) (cwd : List Name) (p : List Nat) : Except Err Loc :=
  if p = [] then .error .ENOENT else
  let start := if isAbs p then [] else cwd
  let comps := compsOf p
  match comps.getLast? with
  | none => .ok (.obj start)                         -- "/" , "//"
  | some last =>
    if last = DOTN ∨ last = DOTDOTN ∨ trailingSlash p then
      match walk fs maxLinks start comps with
      | .error e => .error e
      | .ok pos =>
        match get fs.root pos with
        | some (.dir ..) => .ok (.obj pos)
        | some (.file _) => .error .ENOTDIR
        | none => .error .ENOENT
    else
      match walk fs maxLinks start comps.dropLast with
      | .error e => .error e
      | .ok d =>
        match get fs.root d with
        | some (.dir ..) => if last.length > nameMax then .error .ENAMETOOLONG else .ok (.entry d last)
        | some (.file _) => .error .ENOTDIR
        | none => .error .ENOENT

/-- `locate0` behind the PATH_MAX test every pathname argument goes through first. -/
def locate (fs : FS) (cwd : List Name) (p : List Nat) : Except Err Loc :=
  if p.length ≥ pathMax then .error .ENAMETOOLONG else locate0 fs cwd p

/-- The object a path names, without following a final symlink (`lstat`). -/
def lookupNoFollow (fs : FS) (cwd : List Name) (p : List Nat) : Except Err (List Name × Tree) :=
  match locate fs cwd p with
  | .error e => .error e
  | .ok (.obj pos) => match get fs.root pos with
    | some t => .ok (pos, t)
    | none => .error .ENOENT
  | .ok (.entry d n) => match (get fs.root d).bind (·.child n) with
    | some t => .ok (d ++ [n], t)
    | none => .error .ENOENT

/-- The object a path names, following a final symlink (`stat`). -/
def lookupFollow0 (fs : FS) (cwd : List Name) (p : List Nat) : Except Err (List Name × Tree) :=
  if p = [] then .error .ENOENT else
  match walk fs maxLinks (if isAbs p then [] else cwd) (compsOf p) with
  | .error e => .error e
  | .ok pos => match get fs.root pos with
    | some t => if trailingSlash p && !t.isDir then .error .ENOTDIR else .ok (pos, t)
    | none => .error .ENOENT

def lookupFollow (fs : FS) (cwd : List Name) (p : List Nat) : Except Err (List Name × Tree) :=
  if p.length ≥ pathMax then .error .ENAMETOOLONG else lookupFollow0 fs cwd p

/-! ### primitive mutations -/

/-- Set entry `n` of the directory at `d` to `x`. -/
def putAt (fs : FS) (d : List Name) (n : Name) (x : Tree) : FS :=
  { fs with root := modify (fun t => (t.put n x).touch) fs.root d }

/-- Remove entry `n` of the directory at `d`. -/
def delAt (fs : FS) (d : List Name) (n : Name) : FS :=
  { fs with root := modify (fun t => (t.del n).touch) fs.root d }

/-- Allocate a new inode. -/
def alloc (fs : FS) (node : FNode) : FS × Nat :=
  ({ fs with files := fun i => if i = fs.next then some node else fs.files i, next := fs.next + 1 }, fs.next)

def setFile (fs : FS) (i : Nat) (node : FNode) : FS :=
  { fs with files := fun j => if j = i then some node else fs.files j }

def setDirMeta (fs : FS) (pos : List Name) (f : Nat → Int → Nat × Int) : FS :=
  { fs with root := modify (fun t => match t with
      | .dir m mt es => .dir (f m mt).1 (f m mt).2 es
      | .file i => .file i) fs.root pos }

/-- An open descriptor: a directory is referred to by its position (directories
are never renamed here), anything else by its inode. -/
inductive Handle
  | dir (pos : List Name)
  | file (ino : Nat)
  deriving DecidableEq, Repr

def handleOf (pos : List Name) : Tree → Handle
  | .dir .. => .dir pos
  | .file i => .file i

/-- chmod on an object given by handle (symlinks have no mode to set). -/
def chmodH (fs : FS) (h : Handle) (mode : Nat) : Except Err FS :=
  match h with
  | .dir pos => .ok (setDirMeta fs pos fun _ mt => (mode, mt))
  | .file i => match fs.files i with
    | some (.reg d _ mt) => .ok (setFile fs i (.reg d mode mt))
    | some (.fifo _ mt) => .ok (setFile fs i (.fifo mode mt))
    | some (.lnk _) => .error .ENOTSUP
    | none => .error .EBADF

def utimensH (fs : FS) (h : Handle) (t : Int) : Except Err FS :=
  match h with
  | .dir pos => .ok (setDirMeta fs pos fun m _ => (m, t))
  | .file i => match fs.files i with
    | some (.reg d m _) => .ok (setFile fs i (.reg d m t))
    | some (.fifo m _) => .ok (setFile fs i (.fifo m t))
    | some (.lnk tg) => .ok (setFile fs i (.lnk tg))     -- a symlink's time is not observed
    | none => .error .EBADF

/-! ### the process and its system calls -/

structure Proc where
  fs : FS
  cwd : List Name
  umask : Nat
  fd : Option Nat := none          -- `a->fd`: an open regular file (by inode)
  dfd : Option (List Name) := none -- `chdir_fd` of check_symlinks_fsobj
  xfd : Option Handle := none      -- descriptor opened for a fix-up at close
  rfd : Option (List Name) := none -- `a->restore_pwd` of edit_deep_directories

/-- System calls issued by the disk writer.  Path arguments are C strings
relative to the working directory unless absolute. -/
inductive Sys
  | lstat (p : List Nat)
  | stat (p : List Nat)
  | mkdir (p : List Nat) (mode : Nat)
  | openCreat (p : List Nat) (mode : Nat)        -- open(O_WRONLY|O_CREAT|O_EXCL), sets fd
  | openTrunc (p : List Nat)                     -- open(O_WRONLY|O_TRUNC|O_NOFOLLOW), sets fd
  | mkstemp (p : List Nat) (mode : Nat)          -- la_mktemp: "<p>.XXXXXX" + fchmod, sets fd
  | unlink (p : List Nat)
  | rmdir (p : List Nat)
  | symlink (target p : List Nat)
  | mkfifo (p : List Nat) (mode : Nat)
  | link (old new : List Nat)                    -- linkat(AT_FDCWD, old, AT_FDCWD, new, 0)
  | renameTmp (p : List Nat)                     -- rename("<p>.XXXXXX", p)
  | unlinkTmp (p : List Nat)                     -- unlink("<p>.XXXXXX")
  | chmod (p : List Nat) (mode : Nat)            -- follows a final symlink
  | lchmod (p : List Nat) (mode : Nat)
  | utimens (p : List Nat) (t : Int)             -- utimensat(AT_SYMLINK_NOFOLLOW)
  | fwrite (data : List Nat)                     -- on fd
  | ftruncate (n : Nat)
  | fchmod (mode : Nat)
  | futimens (t : Int)
  | fclose
  | dOpenCwd                                     -- dfd = open(".")
  | dLstat (p : List Nat)                        -- fstatat(dfd, p, AT_SYMLINK_NOFOLLOW)
  | dStat (p : List Nat)                         -- fstatat(dfd, p, 0)
  | dUnlink (p : List Nat)                       -- unlinkat(dfd, p, 0)
  | dOpenDir (p : List Nat)                      -- dfd = openat(dfd, p, O_DIRECTORY|O_PATH)
  | dClose
  | xOpen (p : List Nat) (dirOnly : Bool)        -- open(O_RDONLY|O_NOFOLLOW[|O_DIRECTORY]), sets xfd
  | xFstat
  | xChmod (mode : Nat)
  | xUtimens (t : Int)
  | xClose
  | getUmask
  | chdir (p : List Nat)
  | rOpenCwd                                     -- restore_pwd = open(".")
  | rFchdir                                      -- fchdir(restore_pwd)
  | rClose
  deriving DecidableEq, Repr

/-- What a call returns to the program. -/
inductive R
  | ok
  | err (e : Err)
  | st (s : Stat)
  | num (n : Nat)
  deriving DecidableEq, Repr

def tmpName (p : List Nat) : List Nat := p ++ [46, 88, 88, 88, 88, 88, 88]   -- ".XXXXXX"

def fail (pr : Proc) (e : Err) : R × Proc := (.err e, pr)

/-- Create a new non-directory object at path `p` (mknod-like calls and
`open(O_CREAT|O_EXCL)`): fails with EEXIST when the name exists, also for a
dangling symlink and for "." / "..". -/
def createFile (pr : Proc) (base : List Name) (p : List Nat) (node : FNode) : Except Err (FS × Nat) :=
  match locate pr.fs base p with
  | .error e => .error e
  | .ok (.obj _) => .error .EEXIST
  | .ok (.entry d n) =>
    match (get pr.fs.root d).bind (·.child n) with
    | some _ => .error .EEXIST
    | none =>
      let (fs1, i) := alloc pr.fs node
      .ok (putAt fs1 d n (.file i), i)

def doUnlink (pr : Proc) (base : List Name) (p : List Nat) : R × Proc :=
  match locate pr.fs base p with
  | .error e => fail pr e
  | .ok (.obj _) => fail pr .EISDIR
  | .ok (.entry d n) =>
    match (get pr.fs.root d).bind (·.child n) with
    | none => fail pr .ENOENT
    | some (.dir ..) => fail pr .EISDIR
    | some (.file _) => (.ok, { pr with fs := delAt pr.fs d n })

def statR (fs : FS) (r : Except Err (List Name × Tree)) : R :=
  match r with
  | .error e => .err e
  | .ok (_, t) => match statOfTree fs t with
    | some s => .st s
    | none => .err .EIO

def exec (s : Sys) (pr : Proc) : R × Proc :=
  let fs := pr.fs
  match s with
  | .lstat p => (statR fs (lookupNoFollow fs pr.cwd p), pr)
  | .stat p => (statR fs (lookupFollow fs pr.cwd p), pr)
  | .mkdir p mode =>
    match locate fs pr.cwd p with
    | .error e => fail pr e
    | .ok (.obj _) => fail pr .EEXIST
    | .ok (.entry d n) =>
      match (get fs.root d).bind (·.child n) with
      | some _ => fail pr .EEXIST
      | none => (.ok, { pr with fs := putAt fs d n (.dir mode 0 []) })
  | .openCreat p mode =>
    match createFile pr pr.cwd p (.reg [] mode 0) with
    | .error e => fail pr e
    | .ok (fs', i) => (.ok, { pr with fs := fs', fd := some i })
  | .openTrunc p =>
    match lookupNoFollow fs pr.cwd p with
    | .error e => fail pr e
    | .ok (_, .dir ..) => fail pr .EISDIR
    | .ok (_, .file i) =>
      match fs.files i with
      | some (.reg _ m _) => (.ok, { pr with fs := setFile fs i (.reg [] m 0), fd := some i })
      | some (.lnk _) => fail pr .ELOOP
      | some (.fifo ..) => fail pr .EINVAL     -- would block; never issued (lstat said regular)
      | none => fail pr .EIO
  | .mkstemp p mode =>
    match createFile pr pr.cwd (tmpName p) (.reg [] mode 0) with
    | .error e => fail pr e
    | .ok (fs', i) => (.ok, { pr with fs := fs', fd := some i })
  | .unlink p => doUnlink pr pr.cwd p
  | .unlinkTmp p => doUnlink pr pr.cwd (tmpName p)
  | .rmdir p =>
    match locate fs pr.cwd p with
    | .error e => fail pr e
    | .ok (.obj pos) =>
      -- "." → EINVAL, ".." → ENOTEMPTY, "/" → EBUSY, "d/" → as "d"
      if (compsOf p).getLast? = some DOTN then fail pr .EINVAL
      else if (compsOf p).getLast? = some DOTDOTN then fail pr .ENOTEMPTY
      else match pos.getLast? with
        | none => fail pr .EBUSY
        | some n =>
          match get fs.root pos with
          | some t => if t.isEmptyDir then (.ok, { pr with fs := delAt fs pos.dropLast n }) else fail pr .ENOTEMPTY
          | none => fail pr .ENOENT
    | .ok (.entry d n) =>
      match (get fs.root d).bind (·.child n) with
      | none => fail pr .ENOENT
      | some (.file _) => fail pr .ENOTDIR
      | some t => if t.isEmptyDir then (.ok, { pr with fs := delAt fs d n }) else fail pr .ENOTEMPTY
  | .symlink target p =>
    if target = [] then fail pr .ENOENT else
    match createFile pr pr.cwd p (.lnk target) with
    | .error e => fail pr e
    | .ok (fs', _) => (.ok, { pr with fs := fs' })
  | .mkfifo p mode =>
    match createFile pr pr.cwd p (.fifo mode 0) with
    | .error e => fail pr e
    | .ok (fs', _) => (.ok, { pr with fs := fs' })
  | .link old new =>
    match lookupNoFollow fs pr.cwd old with
    | .error e => fail pr e
    | .ok (_, src) =>
      match locate fs pr.cwd new with
      | .error e => fail pr e
      | .ok (.obj _) => fail pr .EEXIST
      | .ok (.entry d n) =>
        match (get fs.root d).bind (·.child n) with
        | some _ => fail pr .EEXIST
        | none =>
          match src with
          | .dir .. => fail pr .EPERM
          | .file i => (.ok, { pr with fs := putAt fs d n (.file i) })
  | .renameTmp p =>
    match locate fs pr.cwd (tmpName p), locate fs pr.cwd p with
    | .ok (.entry d1 n1), .ok (.entry d2 n2) =>
      match (get fs.root d1).bind (·.child n1), (get fs.root d2).bind (·.child n2) with
      | some (.file i), some (.file _) => (.ok, { pr with fs := putAt (delAt fs d1 n1) d2 n2 (.file i) })
      | some (.file i), none => (.ok, { pr with fs := putAt (delAt fs d1 n1) d2 n2 (.file i) })
      | some (.file _), some (.dir ..) => fail pr .EISDIR
      | _, _ => fail pr .ENOENT
    | .error e, _ => fail pr e
    | _, .error e => fail pr e
    | _, _ => fail pr .EINVAL
  | .chmod p mode =>
    match lookupFollow fs pr.cwd p with
    | .error e => fail pr e
    | .ok (pos, t) => match chmodH fs (handleOf pos t) mode with
      | .ok fs' => (.ok, { pr with fs := fs' })
      | .error e => fail pr e
  | .lchmod p mode =>
    match lookupNoFollow fs pr.cwd p with
    | .error e => fail pr e
    | .ok (pos, t) => match chmodH fs (handleOf pos t) mode with
      | .ok fs' => (.ok, { pr with fs := fs' })
      | .error e => fail pr e
  | .utimens p t =>
    match lookupNoFollow fs pr.cwd p with
    | .error e => fail pr e
    | .ok (pos, tr) => match utimensH fs (handleOf pos tr) t with
      | .ok fs' => (.ok, { pr with fs := fs' })
      | .error e => fail pr e
  | .fwrite data =>
    match pr.fd with
    | none => fail pr .EBADF
    | some i => match fs.files i with
      | some (.reg d m _) => (.ok, { pr with fs := setFile fs i (.reg (d ++ data) m 0) })
      | _ => fail pr .EBADF
  | .ftruncate n =>
    match pr.fd with
    | none => fail pr .EBADF
    | some i => match fs.files i with
      | some (.reg d m _) => (.ok, { pr with fs := setFile fs i (.reg (d.take n ++ List.replicate (n - d.length) 0) m 0) })
      | _ => fail pr .EBADF
  | .fchmod mode =>
    match pr.fd with
    | none => fail pr .EBADF
    | some i => match chmodH fs (.file i) mode with
      | .ok fs' => (.ok, { pr with fs := fs' })
      | .error e => fail pr e
  | .futimens t =>
    match pr.fd with
    | none => fail pr .EBADF
    | some i => match utimensH fs (.file i) t with
      | .ok fs' => (.ok, { pr with fs := fs' })
      | .error e => fail pr e
  | .fclose => (.ok, { pr with fd := none })
  | .dOpenCwd => (.ok, { pr with dfd := some pr.cwd })
  | .dLstat p =>
    match pr.dfd with
    | none => fail pr .EBADF
    | some d => (statR fs (lookupNoFollow fs d p), pr)
  | .dStat p =>
    match pr.dfd with
    | none => fail pr .EBADF
    | some d => (statR fs (lookupFollow fs d p), pr)
  | .dUnlink p =>
    match pr.dfd with
    | none => fail pr .EBADF
    | some d => doUnlink pr d p
  | .dOpenDir p =>
    match pr.dfd with
    | none => fail pr .EBADF
    | some d =>
      match lookupFollow fs d p with
      | .error e => fail pr e
      | .ok (pos, .dir ..) => (.ok, { pr with dfd := some pos })
      | .ok (_, .file _) => fail pr .ENOTDIR
  | .dClose => (.ok, { pr with dfd := none })
  | .xOpen p dirOnly =>
    match lookupNoFollow fs pr.cwd p with
    | .error e => fail pr e
    | .ok (pos, t) =>
      if isLnk fs t then fail pr .ELOOP
      else if dirOnly && !t.isDir then fail pr .ENOTDIR
      else (.ok, { pr with xfd := some (handleOf pos t) })
  | .xFstat =>
    match pr.xfd with
    | none => fail pr .EBADF
    | some (.dir pos) => (statR fs (match get fs.root pos with | some t => .ok (pos, t) | none => .error .EBADF), pr)
    | some (.file i) => (statR fs (.ok ([], .file i)), pr)
  | .xChmod mode =>
    match pr.xfd with
    | none => fail pr .EBADF
    | some h => match chmodH fs h mode with
      | .ok fs' => (.ok, { pr with fs := fs' })
      | .error e => fail pr e
  | .xUtimens t =>
    match pr.xfd with
    | none => fail pr .EBADF
    | some h => match utimensH fs h t with
      | .ok fs' => (.ok, { pr with fs := fs' })
      | .error e => fail pr e
  | .xClose => (.ok, { pr with xfd := none })
  | .getUmask => (.num pr.umask, pr)
  | .chdir p =>
    match lookupFollow fs pr.cwd p with
    | .error e => fail pr e
    | .ok (pos, .dir ..) => (.ok, { pr with cwd := pos })
    | .ok (_, .file _) => fail pr .ENOTDIR
  | .rOpenCwd => (.ok, { pr with rfd := some pr.cwd })
  | .rFchdir =>
    match pr.rfd with
    | none => fail pr .EBADF
    | some d => (.ok, { pr with cwd := d })
  | .rClose => (.ok, { pr with rfd := none })

end LA.FS
