/-
Model of `choose_filters` (archive_read.c): the bidding loop that builds the
read-filter pipeline.  `bid i` says whether, with `i` filters already stacked,
some registered bidder claims the stream (a hostile self-similar stream can make
this true for ever).  `init i` says whether that bidder's init succeeds.
-/
import LA.Gen.Limits
namespace LA.Filters

inductive Result
  | ok (nfilters : Nat)      -- pipeline built with this many decoding filters
  | fatal (nfilters : Nat)   -- refused ("too many filters", or init/verify failed)
  deriving DecidableEq, Repr

/-- `for (number_filters = 0; number_filters < MAX_NUMBER_FILTERS; ++number_filters)`;
`left` is the number of iterations still allowed. -/
def chooseLoop (bid init : Nat → Bool) (verify : Nat → Bool) : Nat → Nat → Result
  | 0, n => .fatal n                            -- "Input requires too many filters for decoding"
  | left + 1, n =>
    if bid n then
      if init n then chooseLoop bid init verify left (n + 1)
      else .fatal n                              -- __archive_read_free_filters; ARCHIVE_FATAL
    else if verify n then .ok n else .fatal n    -- "Verify the filter by asking it for some data."

def chooseFilters (bid init : Nat → Bool) (verify : Nat → Bool) : Result :=
  chooseLoop bid init verify LA.Gen.Limits.maxNumberFilters 0

def Result.count : Result → Nat
  | .ok n => n
  | .fatal n => n

end LA.Filters
