/-
Numeric field formatters of the tar / cpio / ar writers and the matching
parsers of the readers (C10, C02).

Values are `Int` (C `int64_t`; the 64-bit range is an explicit hypothesis of the
theorems, see `isI64`), bytes are `Nat` (< 256), a field is the list of the bytes
the C function stores, in order.  Every formatter returns `(overflow, bytes)`:
`overflow = true` is the C function's `-1`.

Core Lean only (this file is linked into the native driver).
-/
namespace LA.NumFmt

def I64_MIN : Int := -9223372036854775808
def I64_MAX : Int := 9223372036854775807
/-- The value is a C `int64_t`. -/
def isI64 (v : Int) : Prop := I64_MIN ≤ v ∧ v ≤ I64_MAX
instance (v : Int) : Decidable (isI64 v) := by unfold isI64; infer_instance

def c0 : Nat := 48   -- '0'
def c7 : Nat := 55   -- '7'
def c9 : Nat := 57   -- '9'
def sp : Nat := 32   -- ' '

/-! ## Writers -/

/-- The digit loop shared by every octal formatter:
`p += s; while (s-- > 0) { *--p = '0' + (v & 7); v >>= 3; }`.
Returns the `s` digits (most significant first) and what is left of `v`. -/
def octLoop : Nat → Nat → List Nat × Nat
  | v, 0 => ([], v)
  | v, s + 1 => let r := octLoop (v / 8) s; (r.1 ++ [c0 + v % 8], r.2)

/-- `format_octal` of archive_write_set_format_ustar.c and (identical text)
archive_write_set_format_v7tar.c: negative → all '0' and -1; does not fit in `s`
octal digits → all '7' and -1. -/
def ustarFormatOctal (v : Int) (s : Nat) : Bool × List Nat :=
  if v < 0 then (true, List.replicate s c0)
  else
    let r := octLoop v.toNat s
    if r.2 = 0 then (false, r.1) else (true, List.replicate s c7)

/-- `format_octal` of archive_write_set_format_gnutar.c: a negative value is
silently replaced by 0 (returns 0!); overflow → all '7' and -1. -/
def gnutarFormatOctal (v : Int) (s : Nat) : Bool × List Nat :=
  let v := if v < 0 then 0 else v
  let r := octLoop v.toNat s
  if r.2 = 0 then (false, r.1) else (true, List.replicate s c7)

/-- Big-endian two's-complement bytes: `while (s-- > 0) { *--p = v & 0xff; v >>= 8; }`
(`>>` on a negative `int64_t` is an arithmetic shift = floor division). -/
def be256 : Int → Nat → List Nat
  | _, 0 => []
  | v, s + 1 => be256 (v / 256) s ++ [(v % 256).toNat]

/-- `format_256` (ustar, v7tar, gnutar: identical): `s` base-256 bytes with the
marker bit 0x80 or-ed into the first.  (`s = 0` never occurs: the C would write
`p[0]` outside the field.) -/
def format256 (v : Int) (s : Nat) : List Nat :=
  match be256 v s with
  | [] => []
  | b :: r => (b % 128 + 128) :: r   -- `*p |= 0x80` on a byte

/-- The `while (s <= maxsize)` loop of ustar/v7tar `format_number`, `n = maxsize + 1 - s`
iterations left; `none` = fell out of the loop. -/
def numLoop (v : Int) : Nat → Nat → Option (Bool × List Nat)
  | _, 0 => none
  | s, n + 1 => if v < 8 ^ s then some (ustarFormatOctal v s) else numLoop v (s + 1) n

/-- `format_number(v, p, s, maxsize, strict)` of ustar / v7tar.  The result may be
longer than `s` (up to `maxsize`) in non-strict mode: the C overwrites the field
terminators. -/
def ustarFormatNumber (v : Int) (s maxsize : Nat) (strict : Bool) : Bool × List Nat :=
  if strict then ustarFormatOctal v s
  else
    match (if v ≥ 0 then numLoop v s (maxsize + 1 - s) else none) with
    | some r => r
    | none => (false, format256 v maxsize)

/-- `format_number(v, p, s, maxsize)` of gnutar: `v < 8^s` (including every negative
value!) goes to `format_octal`, the rest to base-256 in `maxsize` bytes. -/
def gnutarFormatNumber (v : Int) (s maxsize : Nat) : Bool × List Nat :=
  if v < 8 ^ s then gnutarFormatOctal v s else (false, format256 v maxsize)

/-- `format_octal_recursive` of archive_write_set_format_cpio_odc.c: `digits` octal
digits of `v` (low `3*digits` bits). -/
def octDigits (v : Nat) (s : Nat) : List Nat := (octLoop v s).1

/-- `format_octal(v, p, digits)` of archive_write_set_format_cpio_odc.c:
outside `0 … 8^digits-1` the field is saturated to the maximum and -1 returned. -/
def odcFormatOctal (v : Int) (digits : Nat) : Bool × List Nat :=
  let max : Int := 8 ^ digits - 1
  if 0 ≤ v ∧ v ≤ max then (false, octDigits v.toNat digits)
  else (true, octDigits max.toNat digits)

def hexChar (d : Nat) : Nat := if d < 10 then c0 + d else 97 + (d - 10)

/-- `format_hex_recursive` of archive_write_set_format_cpio_newc.c. -/
def hexDigits : Nat → Nat → List Nat
  | _, 0 => []
  | v, s + 1 => hexDigits (v / 16) s ++ [hexChar (v % 16)]

/-- `format_hex(v, p, digits)` of archive_write_set_format_cpio_newc.c. -/
def newcFormatHex (v : Int) (digits : Nat) : Bool × List Nat :=
  let max : Int := 16 ^ digits - 1
  if 0 ≤ v ∧ v ≤ max then (false, hexDigits v.toNat digits)
  else (true, hexDigits max.toNat digits)

/-- The `do { *--p = '0' + v % base; v /= base; } while (--s > 0 && v > 0)` loop of
archive_write_set_format_ar.c (`format_octal`, `format_decimal`), `s ≥ 1`.
Returns (digits written, most significant first; what is left of `v`; what is left of `s`). -/
def arLoop (base : Nat) : Nat → Nat → List Nat × Nat × Nat
  | v, 0 => ([], v, 0)          -- not reached for s ≥ 1
  | v, s + 1 =>
    let d := c0 + v % base
    let v' := v / base
    if s > 0 ∧ v' > 0 then
      let r := arLoop base v' s
      (r.1 ++ [d], r.2.1, r.2.2)
    else ([d], v', s)

/-- `format_octal` / `format_decimal` of archive_write_set_format_ar.c (base 8 / 10):
left-justified, space padded; negative → all '0' and -1; overflow → all max digit and -1. -/
def arFormat (base : Nat) (v : Int) (s : Nat) : Bool × List Nat :=
  if v < 0 then (true, List.replicate s c0)
  else
    let r := arLoop base v.toNat s
    if r.2.1 = 0 then (false, r.1 ++ List.replicate r.2.2 sp)
    else (true, List.replicate s (c0 + (base - 1)))

/-- Binary cpio: `la_swap16((uint16_t)v)` stores the low 16 bits, little-endian on the
wire as written by this (little-endian) host: archive_write_set_format_cpio_binary.c.
No overflow indication exists. -/
def bin16 (v : Int) : List Nat :=
  let w := (v % 65536).toNat
  [w % 256, w / 256]

/-- Binary cpio 32-bit store `la_swap32((uint32_t)v)`: PDP-endian (high half first,
each half little-endian). -/
def bin32 (v : Int) : List Nat :=
  let w := (v % 4294967296).toNat
  let hi := w / 65536
  let lo := w % 65536
  [hi % 256, hi / 256, lo % 256, lo / 256]

/-! ## Readers -/

def clampI64 (v : Int) : Int := if v < I64_MIN then I64_MIN else if v > I64_MAX then I64_MAX else v

/-- The digit loop of `tar_atol_base_n` (archive_read_support_format_tar.c) on the
remaining `char_cnt` bytes.  `l` is the accumulated magnitude.  The C reads `*++p`
after the last counted byte (one byte past `char_cnt`, still inside the 512-byte
header for every caller); that byte only decides a loop condition that `char_cnt != 0`
already makes false, so it is not modelled.  Returns `none` on the overflow cut-off
(`return maxval`). -/
def atolLoop (base : Nat) (limit lastDigitLimit : Nat) : List Nat → Nat → Option Nat
  | [], l => some l
  | c :: rest, l =>
    if c0 ≤ c ∧ c < c0 + base then
      let digit := c - c0
      if l > limit ∨ (l = limit ∧ digit ≥ lastDigitLimit) then none
      else atolLoop base limit lastDigitLimit rest (l * base + digit)
    else some l

def dropBlanks : List Nat → List Nat
  | c :: rest => if c = sp ∨ c = 9 then dropBlanks rest else c :: rest
  | [] => []

/-- `tar_atol_base_n(p, char_cnt, base)`: skip blanks/tabs, optional '-', digits until a
non-digit or the end of the field; clamps to INT64_MAX / INT64_MIN on overflow. -/
def tarAtolBaseN (field : List Nat) (base : Nat) : Int :=
  let f := dropBlanks field
  match f with
  | 45 :: rest =>   -- '-'
    -- limit = -(INT64_MIN / base), last_digit_limit = -(INT64_MIN % base)   (C truncating division)
    let lim := 9223372036854775808 / base
    let ldl := 9223372036854775808 % base
    match atolLoop base lim ldl rest 0 with
    | some l => -(l : Int)
    | none => I64_MIN
  | _ =>
    let lim := 9223372036854775807 / base
    let ldl := 9223372036854775807 % base
    match atolLoop base lim ldl f 0 with
    | some l => (l : Int)
    | none => I64_MAX

def tarAtol8 (field : List Nat) : Int := tarAtolBaseN field 8
def tarAtol10 (field : List Nat) : Int := tarAtolBaseN field 10

/-- Unsigned big-endian accumulation `l = (l << 8) | c` in a `uint64_t`. -/
def accum256 (l : Nat) : List Nat → Nat
  | [] => l
  | c :: rest => accum256 ((l * 256 + c) % 18446744073709551616) rest

def toI64 (u : Nat) : Int :=
  let u := u % 18446744073709551616
  if u < 9223372036854775808 then (u : Int) else (u : Int) - 18446744073709551616

/-- Drop the high-order bytes beyond 8, as the `while (char_cnt > sizeof(int64_t))` loop of
`tar_atol256` does: every dropped byte must equal the sign filler `neg`. `c` is the
current (already sign-adjusted) byte; returns the first byte that fits and the rest. -/
def skipHigh (neg : Nat) : Nat → List Nat → Nat → Option (Nat × List Nat)
  | c, rest, 0 => some (c, rest)
  | c, rest, n + 1 =>
    if c ≠ neg then none
    else match rest with
      | c' :: rest' => skipHigh neg c' rest' n
      | [] => none   -- not reached: n + 1 ≤ rest.length

/-- `tar_atol256(p, char_cnt)`: base-256 two's complement, marker bit ignored,
bit 0x40 of the first byte is the sign; clamps when the value does not fit 64 bits. -/
def tarAtol256 (field : List Nat) : Int :=
  match field with
  | [] => 0   -- char_cnt = 0 never occurs
  | b0 :: rest =>
    -- bytes are < 256, bit tests are written arithmetically: `c & 0x40`, `c |= 0x80`, `c &= 0x7f`
    let negative : Bool := (b0 / 64) % 2 = 1
    let neg : Nat := if negative then 255 else 0
    let c : Nat := if negative then b0 % 128 + 128 else b0 % 128
    let l0 : Nat := if negative then 18446744073709551615 else 0
    match skipHigh neg c rest (field.length - 8) with
    | none => if negative then I64_MIN else I64_MAX
    | some (c, rest) =>
      -- `(c ^ neg) & 0x80`: the sign bit of the first byte that fits differs from the sign
      if (decide (c ≥ 128)) ≠ negative then (if negative then I64_MIN else I64_MAX)
      else toI64 (accum256 l0 (c :: rest))

/-- `tar_atol(p, char_cnt)`: base-256 when the first byte has bit 0x80, else octal. -/
def tarAtol (field : List Nat) : Int :=
  match field with
  | c :: _ => if c ≥ 128 then tarAtol256 field else tarAtol8 field   -- `*p & 0x80` on a byte
  | [] => 0

/-- `atol8(p, char_cnt)` of archive_read_support_format_cpio.c: octal digits until a
non-digit, accumulated in a `uint64_t` (no overflow check; ≤ 21 digits never wrap for
the ≤ 11-digit fields it is used on). -/
def cpioAtol8 : List Nat → Nat → Nat
  | [], l => l
  | c :: rest, l =>
    if c0 ≤ c ∧ c ≤ c7 then cpioAtol8 rest ((l * 8 + (c - c0)) % 18446744073709551616) else l

def hexVal (c : Nat) : Option Nat :=
  if 97 ≤ c ∧ c ≤ 102 then some (c - 97 + 10)
  else if 65 ≤ c ∧ c ≤ 70 then some (c - 65 + 10)
  else if c0 ≤ c ∧ c ≤ c9 then some (c - c0)
  else none

/-- `atol16(p, char_cnt)` of archive_read_support_format_cpio.c. -/
def cpioAtol16 : List Nat → Nat → Nat
  | [], l => l
  | c :: rest, l =>
    match hexVal c with
    | some d => cpioAtol16 rest ((l * 16 + d) % 18446744073709551616)
    | none => l

end LA.NumFmt
