/-
pax extended-header records (`archive_write_set_format_pax.c`): `add_pax_attr_binary` and
`format_int`.  A record is `<len> <space> <key> <=> <value> <nl>` where the decimal `<len>`
counts the whole record including its own digits.  Core Lean only.
-/
namespace LA.Pax

/-- `format_int` on a non-negative value: `do { *--t = "0123456789"[ui % 10]; } while (ui /= 10);` -/
def decDigits (n : Nat) : List Nat :=
  if h : n < 10 then [48 + n] else decDigits (n / 10) ++ [48 + n % 10]
termination_by n
decreasing_by omega

/-- The digit-count loop of `add_pax_attr_binary`:
`while (i > 0) { i = i / 10; digits++; next_ten = next_ten * 10; }` -/
def digitLoop (i digits nextTen : Nat) : Nat × Nat :=
  if h : i > 0 then digitLoop (i / 10) (digits + 1) (nextTen * 10) else (digits, nextTen)
termination_by i
decreasing_by omega

/-- The value of the length prefix `add_pax_attr_binary` writes for this key and value. -/
def recordLen (key value : List Nat) : Nat :=
  let len := 1 + key.length + 1 + value.length + 1
  let r := digitLoop len 0 1
  -- "if string without the length field is 99 chars, adding the 2 digit length forces an extra digit"
  let digits := if len + r.1 ≥ r.2 then r.1 + 1 else r.1
  len + digits

/-- `add_pax_attr_binary(as, key, value, value_len)`: the bytes appended to the header. -/
def record (key value : List Nat) : List Nat :=
  decDigits (recordLen key value) ++ [32] ++ key ++ [61] ++ value ++ [10]

/-! ### reader side: `header_pax_extension` of archive_read_support_format_tar.c

The body of an 'x' / 'g' header is a sequence of records.  For each the C reads the decimal length
up to the blank (at most 99999999), the key up to the first '=' inside the record, hands `length - consumed - 1` value bytes to `pax_attribute`
and requires a newline after them.  `none`: one of the "Ignoring malformed pax attributes" exits. -/

/-- The size field: digits up to the first blank. Returns (value, what follows the blank). -/
def parseLen : List Nat → Nat → Option (Nat × List Nat)
  | [], _ => none                                   -- ran out of the window
  | c :: r, l =>
    if c = 32 then some (l, r)
    else if 48 ≤ c ∧ c ≤ 57 then
      (if l * 10 + (c - 48) > 99999999 then none else parseLen r (l * 10 + (c - 48)))
    else none

/-- Index of the first '=' among the first `lim` bytes. -/
def findEq : List Nat → Nat → Option Nat
  | _, 0 => none
  | [], _ => none
  | c :: r, lim + 1 => if c = 61 then some 0 else (findEq r lim).map (· + 1)

/-- One record off the front of `bs` (the rest of the extension body): (key, value, rest).  The size
field is looked for in the first 512 bytes (`max_size_name`; it has at most 8 digits anyway); the '='
that ends the key anywhere inside the record (the reader asks for more look-ahead as needed, bounded
by the record length and the extension size — since the repair of the block-size dependence). -/
def parseRecord (bs : List Nat) : Option (List Nat × List Nat × List Nat) :=
  let w := bs.take 512
  match parseLen w 0 with
  | none => none
  | some (len, afterW) =>
    let used := w.length - afterW.length          -- digits and the blank
    if len > bs.length then none else
    if used ≥ len then none else                  -- "empty name found"
    match findEq (bs.drop used) (len - used) with
    | none => none                                -- "overlarge attribute name"
    | some 0 => none                              -- "empty name found"
    | some k =>
      let key := (bs.drop used).take k
      let vstart := used + k + 1
      if len < vstart + 1 then none else          -- no room for the newline
      let value := (bs.drop vstart).take (len - vstart - 1)
      if (bs.drop (len - 1)).head? ≠ some 10 then none else
      some (key, value, bs.drop len)

/-- All records of an extended header body. -/
def parseRecords (fuel : Nat) (bs : List Nat) : Option (List (List Nat × List Nat)) :=
  match fuel with
  | 0 => if bs = [] then some [] else none
  | fuel + 1 =>
    if bs = [] then some [] else
    match parseRecord bs with
    | none => none
    | some (k, v, rest) => (parseRecords fuel rest).map ((k, v) :: ·)

end LA.Pax
