/-
pax extended-header records (`archive_write_set_format_pax.c`): `add_pax_attr_binary` and
`format_int`.  A record is `<len> <space> <key> <=> <value> <nl>` where the decimal `<len>`
counts the whole record including its own digits.  Core Lean only.
-/
namespace LA.Pax

/-- `format_int` on a non-negative value: `do { *--t = "0123456789"[ui % 10]; } while (ui /= 10);` -/
def decDigits (n : Nat) : List Nat :=
  if h : n < 10 then [48 + n] else decDigits (n / 10) ++ [48 + n % 10]
termination_by n
decreasing_by omega

/-- The digit-count loop of `add_pax_attr_binary`:
`while (i > 0) { i = i / 10; digits++; next_ten = next_ten * 10; }` -/
def digitLoop (i digits nextTen : Nat) : Nat × Nat :=
  if h : i > 0 then digitLoop (i / 10) (digits + 1) (nextTen * 10) else (digits, nextTen)
termination_by i
decreasing_by omega

/-- The value of the length prefix `add_pax_attr_binary` writes for this key and value. -/
def recordLen (key value : List Nat) : Nat :=
  let len := 1 + key.length + 1 + value.length + 1
  let r := digitLoop len 0 1
  -- "if string without the length field is 99 chars, adding the 2 digit length forces an extra digit"
  let digits := if len + r.1 ≥ r.2 then r.1 + 1 else r.1
  len + digits

/-- `add_pax_attr_binary(as, key, value, value_len)`: the bytes appended to the header. -/
def record (key value : List Nat) : List Nat :=
  decDigits (recordLen key value) ++ [32] ++ key ++ [61] ++ value ++ [10]

end LA.Pax
