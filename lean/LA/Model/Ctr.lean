/-
Model of the AES-CTR layer of libarchive/archive_cryptor.c (property C20):
`aes_ctr_init`, `aes_ctr_increase_counter`, `aes_ctr_encrypt_counter`,
`aes_ctr_update` (the code after `#else` of ARCHIVE_CRYPTOR_STUB, which is what is
compiled with HAVE_LIBCRYPTO; the same three functions serve as encrypt and as
decrypt entries of `__archive_cryptor`).

The AES block function (EVP AES-ECB under a fixed key) is a parameter
`E : Block → Block`; nothing is assumed about it.

Kept from the C: the 16-byte `nonce` whose first 8 bytes are a little-endian
counter incremented byte by byte with carry (`if (++nonce[j]) break;`) *before*
each use; `encr_buf`; `encr_pos` carried from one call to the next; the shape of
the loop (a fast path of whole blocks entered only when `pos == AES_BLOCK_SIZE`,
which leaves the *next* counter block already encrypted and `pos = 0`, and a
byte path); the output capacity (`max = min(in_len, *out_len)`).
Left out: the cast of `max` to `unsigned` (all callers pass at most 256 KiB).
A read `ebuf[pos]` with `pos > 16` is the distinguished result `oob`.
-/
import LA.Model.Util
import LA.Gen.Crypt
namespace LA.Ctr

/-- `AES_BLOCK_SIZE`.  The model is written for 16; the extracted constant is
checked here so that a change of the C constant stops the build. -/
abbrev BS : Nat := 16
example : LA.Gen.Crypt.aesBlockSize = BS := rfl

abbrev Block := Vector UInt8 BS

/-- `archive_crypto_ctx` as far as CTR mode is concerned (the key lives in `E`). -/
structure Ctx where
  nonce : Block
  ebuf : Block          -- `encr_buf`
  pos : Nat             -- `encr_pos`

def zeroBlock : Block := Vector.replicate BS 0

/-- `aes_ctr_init`: nonce zeroed, `encr_pos = AES_BLOCK_SIZE` (buffer empty).
`encr_buf` is not initialised by the C; it is never read before it is filled
(`ctr_never_oob` covers `pos`, the invariant of `Lemmas/Ctr` covers the buffer). -/
def init : Ctx := { nonce := zeroBlock, ebuf := zeroBlock, pos := BS }

/-- The carry loop of `aes_ctr_increase_counter` over the bytes it may touch. -/
def incBytes : List UInt8 → List UInt8
  | [] => []
  | b :: r => if b + 1 != 0 then (b + 1) :: r else (b + 1) :: incBytes r

theorem incBytes_length (l : List UInt8) : (incBytes l).length = l.length := by
  induction l with
  | nil => rfl
  | cons b r ih => simp only [incBytes]; split <;> simp [ih]

/-- `aes_ctr_increase_counter`: `for (j = 0; j < 8; j++) if (++nonce[j]) break;` -/
def incCounter (n : Block) : Block :=
  ⟨(incBytes (n.toList.take 8) ++ n.toList.drop 8).toArray, by
    simp [incBytes_length, BS]⟩

/-- 16 bytes of `out[i+pos] = in[i+pos] ^ ebuf[pos]`. -/
def xorBlock (ebuf : Block) (inp : List UInt8) : List UInt8 :=
  List.zipWith (· ^^^ ·) inp ebuf.toList

/-- The inner `while (max - i >= AES_BLOCK_SIZE)` loop: whole blocks are XORed with
the current `ebuf`, then the counter is increased and encrypted again.
Returns the nonce, the buffer, the unprocessed rest and the output. -/
def blocks (E : Block → Block) (nonce ebuf : Block) (rest : List UInt8) :
    Block × Block × List UInt8 × List UInt8 :=
  if rest.length ≥ BS then
    let o := xorBlock ebuf (rest.take BS)
    let nonce' := incCounter nonce
    let (n2, e2, r2, o2) := blocks E nonce' (E nonce') (rest.drop BS)
    (n2, e2, r2, o ++ o2)
  else (nonce, ebuf, rest, [])
termination_by rest.length
decreasing_by simp [BS] at *; omega

theorem blocks_rest_le (E : Block → Block) (nonce ebuf : Block) (rest : List UInt8) :
    (blocks E nonce ebuf rest).2.2.1.length ≤ rest.length := by
  fun_induction blocks E nonce ebuf rest with
  | case1 nonce ebuf rest h o nonce' n2 e2 r2 o2 heq ih =>
    simp only [heq] at ih
    simp at ih ⊢; omega
  | case2 => simp

inductive Res where
  | ok (c : Ctx) (out : List UInt8)
  | oob
  deriving Inhabited

def Res.cons (b : UInt8) : Res → Res
  | .ok c out => .ok c (b :: out)
  | .oob => .oob

def Res.prepend (bs : List UInt8) : Res → Res
  | .ok c out => .ok c (bs ++ out)
  | .oob => .oob

/-- The outer `for (i = 0; i < max; )` loop of `aes_ctr_update` over the bytes still
to be processed. -/
def loop (E : Block → Block) (nonce ebuf : Block) (pos : Nat) (rest : List UInt8) : Res :=
  match rest with
  | [] => .ok { nonce, ebuf, pos } []
  | b :: tl =>
    if pos = BS then
      let nonce1 := incCounter nonce
      match h : blocks E nonce1 (E nonce1) (b :: tl) with
      | (n2, e2, [], o2) => .ok { nonce := n2, ebuf := e2, pos := 0 } o2   -- `if (i >= max) break;`
      | (n2, e2, b2 :: tl2, o2) =>
        (Res.cons (b2 ^^^ e2[0]) (loop E n2 e2 1 tl2)).prepend o2
    else if hp : pos < BS then
      Res.cons (b ^^^ ebuf[pos]) (loop E nonce ebuf (pos + 1) tl)
    else .oob
termination_by rest.length
decreasing_by
  · have := blocks_rest_le E (incCounter nonce) (E (incCounter nonce)) (b :: tl)
    rw [h] at this
    simp at this ⊢; omega
  · simp

/-- `aes_ctr_update(ctx, in, in_len, out, &out_len)` with `*out_len = cap` on entry:
processes `min(in_len, cap)` bytes; the new `*out_len` is the length of the output. -/
def update (E : Block → Block) (c : Ctx) (inp : List UInt8) (cap : Nat) : Res :=
  loop E c.nonce c.ebuf c.pos (inp.take (min inp.length cap))

/-- Feed a list of chunks through successive `update` calls (capacity never the
limit), collecting the outputs. -/
def run (E : Block → Block) (c : Ctx) : List (List UInt8) → Option (Ctx × List (List UInt8))
  | [] => some (c, [])
  | ch :: r =>
    match update E c ch ch.length with
    | .oob => none
    | .ok c' o =>
      match run E c' r with
      | none => none
      | some (c'', os) => some (c'', o :: os)

/-- Little-endian bytes of a number (`m` bytes). -/
def leBytes : Nat → Nat → List UInt8
  | 0, _ => []
  | m + 1, k => (k % 256).toUInt8 :: leBytes m (k / 256)

theorem leBytes_length (m k : Nat) : (leBytes m k).length = m := by
  induction m generalizing k with
  | zero => rfl
  | succ m ih => simp [leBytes, ih]

/-- The counter block for counter value `k`: 8 little-endian bytes of `k mod 2^64`,
then 8 zero bytes (the part `aes_ctr_init` zeroes and nothing ever touches). -/
def counterBlock (k : Nat) : Block :=
  ⟨(leBytes 8 k ++ List.replicate 8 0).toArray, by simp [leBytes_length]⟩

/-- Context as after `aes_ctr_init` but with the counter preset to `k`
(the harness pokes the nonce to reach the carry borders). -/
def initAt (k : Nat) : Ctx := { nonce := counterBlock k, ebuf := zeroBlock, pos := BS }

/-- Byte `i` of the key stream that starts after counter value `k0`:
`E(k0+1) ‖ E(k0+2) ‖ …`. -/
def ksByte (E : Block → Block) (k0 i : Nat) : UInt8 :=
  (E (counterBlock (k0 + i / BS + 1)))[i % BS]'(Nat.mod_lt _ (by decide))

/-- XOR of a byte list with a stream, starting at stream position `n`. -/
def xorStream (ks : Nat → UInt8) : Nat → List UInt8 → List UInt8
  | _, [] => []
  | n, b :: r => (b ^^^ ks n) :: xorStream ks (n + 1) r

end LA.Ctr
