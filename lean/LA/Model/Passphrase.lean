/-
Model of libarchive/archive_read_add_passphrase.c (property C20): the reader's
passphrase list (`add_passphrase_to_tail`, `remove_passphrases_from_head`,
`insert_passphrase_to_head`), `archive_read_add_passphrase`,
`archive_read_set_passphrase_callback`, `__archive_read_reset_passphrase`,
`__archive_read_next_passphrase`, and of the two retry loops of the zip reader
that consume it (`init_traditional_PKWARE_decryption`, `init_WinZip_AES_decryption`
in archive_read_support_format_zip.c) as a function of an abstract predicate
"the value derived from this passphrase matches".

The C keeps a singly linked list with a `last` pointer to the `next` field of the
final node.  The model keeps a plain `List`; the two places where the C would
follow a pointer the list abstraction cannot justify are explicit: rotating
(`remove_passphrases_from_head` + `add_passphrase_to_tail`) a list of fewer than
two nodes leaves `last` pointing into the removed node and `first == NULL`
(the node is lost), and `a->passphrases.first->next` with an empty list is a NULL
dereference.  Both are the distinguished result `broken`; `Lemmas/Passphrase`
proves they are unreachable (invariant `candidate ≤ length`).

The client callback is a function of the invocation index (any deterministic
callback, stateful or not, is such a function); `none` is a NULL answer.
malloc failure is not modelled.
-/
import LA.Model.Util
import LA.Gen.Crypt
namespace LA.Passphrase

/-- A passphrase: the bytes of the C string. -/
abbrev P := List UInt8

abbrev Callback := Nat → Option P

/-- `a->passphrases` of `struct archive_read` (calloc'ed: candidate 0, no callback). -/
structure St where
  list : List P := []
  candidate : Int := 0
  cb : Option Callback := none
  calls : Nat := 0            -- number of callback invocations so far

inductive Status | ok | failed
  deriving DecidableEq, Repr

/-- `archive_read_add_passphrase`: NULL or "" is refused with ARCHIVE_FAILED,
anything else is appended (`add_passphrase_to_tail`). -/
def add (s : St) (p : Option P) : St × Status :=
  match p with
  | none => (s, .failed)
  | some [] => (s, .failed)
  | some pw => ({ s with list := s.list ++ [pw] }, .ok)

/-- `archive_read_set_passphrase_callback` -/
def setCallback (s : St) (cb : Option Callback) : St := { s with cb := cb }

/-- `__archive_read_reset_passphrase` -/
def reset (s : St) : St := { s with candidate := -1 }

inductive Next where
  | ret (s : St) (p : Option P)
  | broken

/-- `remove_passphrases_from_head` followed by `add_passphrase_to_tail` on the value
level. -/
def rot1 : List P → List P
  | [] => []
  | h :: t => t ++ [h]

/-- The same on the linked list: sound only when a node remains in the list after
the removal (otherwise `last` points into the removed node and `first` stays NULL). -/
def rotate (l : List P) : Option (List P) :=
  if 2 ≤ l.length then some (rot1 l) else none

/-- Second half of `__archive_read_next_passphrase`: no candidate left in the list,
ask the client.  An answer is copied, put at the head of the list
(`insert_passphrase_to_head`) and `candidate` becomes 1. -/
def askCallback (s1 : St) : St × Option P :=
  match s1.cb with
  | none => (s1, none)
  | some f =>
    let s2 := { s1 with calls := s1.calls + 1 }
    match f s1.calls with
    | none => (s2, none)
    | some pw => ({ s2 with list := pw :: s2.list, candidate := 1 }, some pw)

/-- `__archive_read_next_passphrase` -/
def next (s : St) : Next :=
  -- first half: pick from the list
  let picked : Option (St × Option P) :=
    if s.candidate < 0 then
      -- count the list; the first candidate is the head
      some ({ s with candidate := s.list.length }, s.list.head?)
    else if s.candidate > 1 then
      match rotate s.list with
      | some l => some ({ s with candidate := s.candidate - 1, list := l }, l.head?)
      | none => none
    else if s.candidate = 1 then
      -- all candidates failed; finish the round trip of the rotation
      match s.list with
      | [] => none                                      -- `first->next` with `first == NULL`
      | [_] => some ({ s with candidate := 0 }, none)   -- `first->next == NULL`: no rotation
      | h :: h2 :: t => some ({ s with candidate := 0, list := rot1 (h :: h2 :: t) }, none)
    else some (s, none)
  match picked with
  | none => .broken
  | some (s1, some p) => .ret s1 (some p)
  | some (s1, none) => let (s2, p) := askCallback s1; .ret s2 p

/-- `n` successive `next` calls: final state and what each call returned. -/
def nexts : St → Nat → Option (St × List (Option P))
  | s, 0 => some (s, [])
  | s, n + 1 =>
    match next s with
    | .broken => none
    | .ret s' p =>
      match nexts s' n with
      | none => none
      | some (s'', ps) => some (s'', p :: ps)

/-! ### the retry loops of the zip reader -/

inductive Why | required | incorrect | tooMany
  deriving DecidableEq, Repr

inductive Outcome where
  | found (s : St) (p : P) (tries : Nat)     -- `break; /* The passphrase is OK. */`
  | failed (s : St) (tries : Nat) (why : Why) -- ARCHIVE_FAILED, no decryption context
  | broken

/-- `for (retry = 0;; retry++) { p = __archive_read_next_passphrase(a);
if (p == NULL) FAILED; if (matches(p)) break; if (retry > cap) FAILED; }`
— the common shape of both loops.  `tries` counts the `next` calls made. -/
def retryLoop (cap : Nat) (m : P → Bool) (s : St) (retry : Nat) : Outcome :=
  match next s with
  | .broken => .broken
  | .ret s' none => .failed s' (retry + 1) (if retry > 0 then .incorrect else .required)
  | .ret s' (some p) =>
    if m p then .found s' p (retry + 1)
    else if retry > cap then .failed s' (retry + 1) .tooMany
    else retryLoop cap m s' (retry + 1)
termination_by cap + 1 - retry
decreasing_by omega

def Outcome.tries : Outcome → Nat
  | .found _ _ t => t
  | .failed _ t _ => t
  | .broken => 0

end LA.Passphrase
