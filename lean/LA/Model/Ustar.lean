/-
Model of the ustar header writer of libarchive/archive_write_set_format_ustar.c:
`__archive_write_format_header_ustar` (called with `tartype = -1`, `strict = 1`
by `archive_write_ustar_header`), `format_number` (strict branch), `format_octal`.

The 512-byte header `h` is a list of `Option` cells that starts as the caller's
uninitialised stack array (`char buff[512]`, all `none`).  Every store is a
bounds-checked `poke`; a store outside the array makes the result `none`.
`LA.C11.header_fully_defined` proves that all 512 cells are stored to before the
header is handed to `__archive_write_output`.

Strings are byte lists without the terminating NUL (the generator keeps them
NUL-free; with the default `sconv == NULL` on POSIX the bytes are copied as is).
-/
import LA.Gen.WriteLayout
import LA.Model.ClientWrite
namespace LA.Ustar
open LA.CW LA.Gen.WriteLayout

inductive FileType | reg | lnk | chr | blk | dir | fifo | sock | other
  deriving DecidableEq, Repr

structure Entry where
  pathname : List Nat := []
  hardlink : List Nat := []       -- [] = not set
  symlink : List Nat := []        -- [] = not set
  uname : List Nat := []
  gname : List Nat := []
  mode : Nat := 0                 -- archive_entry_mode(entry) & 07777 is taken by the writer
  uid : Int := 0
  gid : Int := 0
  size : Int := 0
  mtime : Int := 0
  rdevmajor : Int := 0
  rdevminor : Int := 0
  filetype : FileType := .reg
  deriving Repr

def statusOk : Int := 0
def statusWarn : Int := -20
def statusFailed : Int := -25
def statusFatal : Int := -30

/-- The `s` octal digits of `v`, most significant first (`*--p = '0' + (v & 7); v >>= 3`). -/
def octalDigits : Nat → Nat → List Nat
  | 0, _ => []
  | s + 1, v => octalDigits s (v / 8) ++ [48 + v % 8]

/-- `format_octal(v, p, s)`: the bytes stored and the return value (0 or -1). -/
def formatOctal (v : Int) (s : Nat) : List Nat × Int :=
  if v < 0 then (List.replicate s 48, -1)               -- "Octal values can't be negative, so use 0."
  else if v.toNat / 8 ^ s = 0 then (octalDigits s v.toNat, 0)
  else (List.replicate s 55, -1)                        -- "If it overflowed, fill field with max value."

/-- Store defined bytes. -/
def store (h : List Cell) (off : Nat) (bs : List Nat) : Option (List Cell) :=
  poke h off (bs.map some)

/-- Index of the first `/` (47) at or after position `i`. -/
def findSlash (p : List Nat) (i : Nat) : Option Nat :=
  match (p.drop i).findIdx? (· == 47) with
  | some k => some (i + k)
  | none => none

/-- A store `memcpy(h + off, bytes, bytes.length)`. -/
abbrev Store := Nat × List Nat

/-- Pathname: whole, or "Store in two pieces, splitting at a '/'." -/
def pathStores (pp : List Nat) : Int × List Store :=
  if pp.length ≤ name_size then (0, [(name_offset, pp)])
  else
    let p0 := findSlash pp (pp.length - name_size - 1)
    -- "Look for the next '/' if we chose the first character as the separator."
    let p := if p0 = some 0 then findSlash pp 1 else p0
    match p with
    | none => (statusFailed, [])                                   -- "Pathname too long"
    | some i =>
      if i + 1 = pp.length then (statusFailed, [])                 -- `p[1] == '\0'`
      else if i > prefix_size then (statusFailed, [])              -- "Prefix is too long."
      else (0, [(prefix_offset, pp.take i), (name_offset, pp.drop (i + 1))])

/-- A string field that is cut to the field width with `ARCHIVE_FAILED` when too long. -/
def cutStores (off width : Nat) (s : List Nat) : Int × List Store :=
  if s.length > 0 then
    if s.length > width then (statusFailed, [(off, s.take width)]) else (0, [(off, s)])
  else (0, [])

/-- A strict octal field: `format_number(v, h + off, size, max, strict = 1)`. -/
def numStores (off size : Nat) (v : Int) : Int × List Store :=
  let r := formatOctal v size
  (if r.2 ≠ 0 then statusFailed else 0, [(off, r.1)])

/-- The typeflag byte. -/
def typeStores (e : Entry) : Int × List Store :=
  if e.hardlink.length > 0 then (0, [(typeflag_offset, [49])])     -- mytartype = '1'
  else match e.filetype with
    | .reg => (0, [(typeflag_offset, [48])])
    | .lnk => (0, [(typeflag_offset, [50])])
    | .chr => (0, [(typeflag_offset, [51])])
    | .blk => (0, [(typeflag_offset, [52])])
    | .dir => (0, [(typeflag_offset, [53])])
    | .fifo => (0, [(typeflag_offset, [54])])
    | _ => (statusFailed, [])                                      -- AE_IFSOCK and unknown

/-- All field stores of `__archive_write_format_header_ustar` after the template copy,
in program order, and the status (`ret` is only ever assigned `ARCHIVE_FAILED`
on these paths, so it is `ARCHIVE_FAILED` iff some field failed). -/
def fieldStores (e : Entry) : Int × List Store :=
  let link := if e.hardlink.length > 0 then e.hardlink else e.symlink
  let parts : List (Int × List Store) := [
    pathStores e.pathname,
    cutStores linkname_offset linkname_size link,
    cutStores uname_offset uname_size e.uname,
    cutStores gname_offset gname_size e.gname,
    numStores mode_offset mode_size (e.mode % 4096),
    numStores uid_offset uid_size e.uid,
    numStores gid_offset gid_size e.gid,
    numStores size_offset size_size e.size,
    numStores mtime_offset mtime_size e.mtime] ++
    (if e.filetype = .blk ∨ e.filetype = .chr then
      [numStores rdevmajor_offset rdevmajor_size e.rdevmajor,
       numStores rdevminor_offset rdevminor_size e.rdevminor] else []) ++
    [typeStores e]
  (if parts.any (·.1 ≠ 0) then statusFailed else 0, (parts.map (·.2)).flatten)

def applyStores : List Cell → List Store → Option (List Cell)
  | h, [] => some h
  | h, (off, bs) :: r =>
    match store h off bs with
    | none => none
    | some h' => applyStores h' r

/-- Read cells as bytes; reading a cell never stored to has no value. -/
def readAll : List Cell → Option (List Nat)
  | [] => some []
  | none :: _ => none
  | some b :: r => (readAll r).map (b :: ·)

/-- `__archive_write_format_header_ustar(a, h, entry, -1, 1, sconv)` on an
uninitialised `h`.  Returns the status and the header; `none` if a store left the
array or the checksum loop read a cell never stored to. -/
def formatHeader (e : Entry) : Option (Int × List Cell) :=
  let fs := fieldStores e
  -- memcpy(h, &template_header, 512); then the fields
  match applyStores (List.replicate 512 none) ((0, templateHeader.take templateCopyLen) :: fs.2) with
  | none => none
  | some h1 =>
    -- `for (i = 0; i < 512; i++) checksum += 255 & (unsigned int)h[i];`
    match readAll (h1.take 512) with
    | none => none
    | some bytes =>
      let checksum : Nat := bytes.foldl (· + ·) 0
      match applyStores h1 [(checksum_offset + 6, [0]), (checksum_offset, (formatOctal (checksum : Int) 6).1)] with
      | none => none
      | some h2 => some (fs.1, h2)

/-- `archive_write_ustar_header`, the part before the header is formatted: only
regular files (not hard links) keep their size; a directory name gets a trailing `/`. -/
def prepareEntry (e : Entry) : Entry :=
  let e := if e.hardlink.length > 0 ∨ e.symlink.length > 0 ∨ e.filetype ≠ .reg then { e with size := 0 } else e
  if e.filetype = .dir then
    match e.pathname.getLast? with
    | some c => if c ≠ 47 then { e with pathname := e.pathname ++ [47] } else e
    | none => e
  else e

end LA.Ustar
