/-
Observation records of the whole-reader engine (`harness/eng_read.c`) and the
predictions / predicates the interface theorems license:

* C05 (`partition_independent`): a run under another block partition or byte
  source must print the reference record unchanged;
* C06: a run with another per-entry consumption vector must print the record
  `predictCons` derives from the all-read reference;
* C08 (`truncation_prefix`, `no_invented_data`): a run on a truncated archive or
  with a failing callback must satisfy `truncOk` against the reference;
* C01: any run at all must satisfy `wellFormed`.
-/
import LA.Model.Util
namespace LA.ReadObs

structure Ent where
  hst : String
  md : String := "-"
  len : String := "-"
  hash : String := "-"
  h10 : String := "-"
  h1000 : String := "-"
  bst : String := "-"
  flags : String := "-"
  bare : Bool := false       -- "E retry" / "E failed": header refused, no fields
  deriving Repr, DecidableEq

structure Rec where
  openSt : String
  ents : List Ent
  final : String               -- status word after "F"
  tail : List String           -- remaining words of the F part (flags, close=, free=, fds=)
  deriving Repr, DecidableEq

def parseEnt (s : String) : Option Ent :=
  match LA.words s with
  | ["E", h] => some { hst := h, bare := true }
  | ["E", h, m, l, x, a, b, st, f] =>
    some { hst := h, md := m, len := l, hash := x, h10 := a, h1000 := b, bst := st, flags := f }
  | _ => none

def parse (line : String) : Option Rec :=
  match line.splitOn "|" with
  | [] => none
  | o :: rest =>
    match LA.words o, rest.getLast? with
    | ["O", ost], some f =>
      match LA.words f with
      | "F" :: fin :: tl =>
        match (rest.dropLast).mapM parseEnt with
        | some es => some { openSt := ost, ents := es, final := fin, tail := tl }
        | none => none
      | _ => none
    | _, _ => none

def Ent.render (e : Ent) : String :=
  if e.bare then s!"E {e.hst}"
  else s!"E {e.hst} {e.md} {e.len} {e.hash} {e.h10} {e.h1000} {e.bst} {e.flags}"

def Rec.render (r : Rec) : String :=
  String.intercalate "|" ([s!"O {r.openSt}"] ++ r.ents.map Ent.render ++
    [String.intercalate " " (["F", r.final] ++ r.tail)])

/-- An archive is in the domain of C05/C06/C08 ("well-formed") when the all-read
reference run opens, every header is OK, every body ends cleanly and the archive
ends with EOF, with nothing flagged. -/
def Rec.clean (r : Rec) : Bool :=
  r.openSt == "ok" && r.final == "eof" && r.tail == ["close=ok", "free=ok", "fds=0"] &&
  r.ents.all fun e => !e.bare && e.hst == "ok" && e.flags == "-" &&
    -- body read to its clean end, or skipped / left alone / read as a prefix on purpose
    (e.bst == "eof" || (e.len == "-" && (e.bst == "ok" || e.bst == "none")) || e.bst == "part")

/-- Per-entry consumption choices of the engine. -/
def predictEnt (e : Ent) (c : String) : Ent :=
  if e.bare then e else
  if c == "A" || c == "a" || c == "B" || c.startsWith "R" then e
  else if c == "S" then { e with len := "-", hash := "-", h10 := "-", h1000 := "-", bst := "ok", flags := "-" }
  else if c == "N" then { e with len := "-", hash := "-", h10 := "-", h1000 := "-", bst := "none", flags := "-" }
  else if c.startsWith "P" then
    let k := ((c.drop 1).toString.toNat?).getD 0
    let n := (e.len.toNat?).getD 0
    let h := if k == 10 then e.h10 else e.h1000
    { e with len := toString (Nat.min k n), hash := if n ≤ k then e.hash else h, h10 := "-", h1000 := "-",
             bst := if n < k then "eof" else "part", flags := "-" }
  else e

def cycle (cs : List String) (i : Nat) : String :=
  if cs.isEmpty then "A" else cs.getD (i % cs.length) "A"

def zipIdx {α : Type} (l : List α) : List (α × Nat) := l.zip (List.range l.length)

/-- C06: headers and the bodies that are read do not depend on what is done with
the other entries. -/
def predictCons (ref : Rec) (cons : List String) : Rec :=
  { ref with ents := (zipIdx ref.ents).map fun (e, i) => predictEnt e (cycle cons i) }

def statusDocumented (s : String) : Bool :=
  s == "ok" || s == "warn" || s == "eof" || s == "retry" || s == "failed" || s == "fatal"

/-- C01: what any run must look like, whatever the input. -/
def wellFormed (r : Rec) : Bool :=
  statusDocumented r.openSt && statusDocumented r.final &&
  !(r.tail.contains "ENTRY-AFTER-END") && r.tail.contains "free=ok" && r.tail.contains "fds=0" &&
  r.ents.all fun e =>
    (e.hst == "ok" || e.hst == "warn" || e.hst == "retry" || e.hst == "failed") &&
    (e.bare || ((statusDocumented e.bst || e.bst == "part" || e.bst == "none" || e.bst == "disorder" || e.bst == "cap") &&
      !((e.flags.splitOn "OVER").length > 1)))

def natOf (s : String) : Nat := (s.toNat?).getD 0

/-- C08: a truncated / faulted run against the intact reference. -/
def truncOk (ref t : Rec) : Bool :=
  wellFormed t &&
  t.ents.length ≤ ref.ents.length &&
  ((t.ents.zip ref.ents).all fun (a, b) =>
    -- a refused or failed header may only be the last thing delivered
    if a.bare then true else
    a.hst == b.hst && a.md == b.md &&
    (if a.len == "-" then true
     else if a.len == b.len then
       -- complete body: identical bytes; a clean end only if the reference ended cleanly
       a.hash == b.hash && a.h10 == b.h10 && a.h1000 == b.h1000
     else
       -- shorter body: must be reported, and what was delivered must agree on the common prefix digests
       natOf a.len < natOf b.len && a.bst != "eof" && a.bst != "ok" &&
       (natOf a.len < 10 || a.h10 == b.h10) && (natOf a.len < 1000 || a.h1000 == b.h1000))) &&
  -- all but the last delivered entry are complete
  ((t.ents.dropLast.zip ref.ents).all fun (a, b) => !a.bare && a.len == b.len && a.bst == b.bst) &&
  -- fewer entries or a short last body with a clean EOF is acceptable only at an entry boundary
  (if t.final == "eof" then
     match t.ents.getLast?, ref.ents[t.ents.length - 1]? with
     | some a, some b => !a.bare && (a.len == b.len || (a.bst != "eof" && a.bst != "ok"))
     | none, _ => true
     | _, none => false
   else true)

end LA.ReadObs
