/-
Model of the pathname editing done before anything is restored to disk
(property C04):

* `cleanup_pathname_fsobj(char *path, int *a_eno, struct archive_string *a_estr,
  int flags)` of libarchive/archive_write_disk_posix.c — an **in-place**
  rewrite of a NUL-terminated string.  The model keeps the whole memory block
  (`strlen(path) + 1` cells, the last one holding the terminator) as a list,
  reads it with `buf[i]?` and writes it with `List.set`; a read or write outside
  the block is the distinguished result `oob`.  `src` and `dest` are indices.
* `strip_absolute_path(struct bsdtar *, const char *p)` of tar/util.c — a pure
  cursor advance; the result is the index at which the returned pointer points.

A C string is the list of its non-NUL bytes (`List Nat`, each `< 256`).
Not modelled: the error text placed in `a_estr` (only the reason class is
kept), the `__CYGWIN__` branch `cleanup_pathname_win`, the once-only warning
side effects of `warn_strip_leading_char` / `warn_strip_drive_letter`.
-/
import LA.Model.Util
namespace LA.PathClean

abbrev SLASH : Nat := 47
abbrev DOT : Nat := 46
abbrev BSLASH : Nat := 92

/-- The two `ARCHIVE_EXTRACT_SECURE_*` bits `cleanup_pathname_fsobj` looks at. -/
structure Flags where
  nodotdot : Bool      -- ARCHIVE_EXTRACT_SECURE_NODOTDOT
  noabs : Bool         -- ARCHIVE_EXTRACT_SECURE_NOABSOLUTEPATHS
  deriving DecidableEq, Repr

/-- Why `cleanup_pathname_fsobj` returned `ARCHIVE_FAILED`. -/
inductive Fail
  | empty      -- "Invalid empty pathname"
  | absolute   -- "Path is absolute"
  | dotdot     -- "Path contains '..'"
  deriving DecidableEq, Repr

inductive Res
  | ok (path : List Nat)     -- ARCHIVE_OK, the string now in the block
  | failed (why : Fail)      -- ARCHIVE_FAILED
  | oob                      -- a read or write outside the block (never: `cleanup_no_oob`)
  deriving DecidableEq, Repr

/-- `while (*src != '\0' && *src != '/') *dest++ = *src++;` -/
def copyElem (buf : List Nat) (src dest : Nat) : Option (List Nat × Nat × Nat) :=
  match _h : buf[src]? with
  | none => none
  | some c =>
    if c = 0 ∨ c = SLASH then some (buf, src, dest)
    else if dest < buf.length then copyElem (buf.set dest c) (src + 1) (dest + 1)
    else none
termination_by buf.length - src
decreasing_by
  have := (List.getElem?_eq_some_iff.mp _h).1
  simp only [List.length_set]; omega

theorem copyElem_props : ∀ (n : Nat) (buf : List Nat) (src dest : Nat), buf.length - src = n →
    ∀ b s d, copyElem buf src dest = some (b, s, d) →
      b.length = buf.length ∧ src ≤ s ∧ s < b.length := by
  intro n
  induction n using Nat.strongRecOn with
  | _ n ih =>
    intro buf src dest hn b s d h
    unfold copyElem at h
    split at h
    · simp at h
    · rename_i c hc
      have hlt := (List.getElem?_eq_some_iff.mp hc).1
      split at h
      · simp at h; obtain ⟨rfl, rfl, rfl⟩ := h; exact ⟨rfl, Nat.le_refl _, hlt⟩
      · split at h
        · have := ih (buf.length - (src + 1)) (by omega) (buf.set dest c) (src + 1) (dest + 1)
            (by simp) b s d h
          simp only [List.length_set] at this
          exact ⟨this.1, by omega, this.2.2⟩
        · simp at h

/-- Result of the element loop of `cleanup_pathname_fsobj`. -/
inductive Scan
  | done (buf : List Nat) (dest : Nat) (sep : Bool)   -- left the `for (;;)` by `break`
  | failed                                             -- "Path contains '..'"
  | oob
  deriving DecidableEq, Repr

/-- What the `.`-look-ahead at the head of the loop body decides. -/
inductive Look | stop | skip2 | fail | copy | oob
  deriving DecidableEq, Repr

/-- `else if (src[0] == '.') { if (src[1] == '\0') … else if (src[1] == '/') … else if
(src[1] == '.') { if (src[2] == '/' || src[2] == '\0') { if (flags & NODOTDOT) … } } }`
(`src[0]` is already known to be neither NUL nor '/'). -/
def look (nodotdot : Bool) (buf : List Nat) (src : Nat) (c0 : Nat) : Look :=
  if c0 = DOT then
    match buf[src + 1]? with
    | none => .oob
    | some c1 =>
      if c1 = 0 then .stop
      else if c1 = SLASH then .skip2
      else if c1 = DOT then
        match buf[src + 2]? with
        | none => .oob
        | some c2 => if (c2 = SLASH ∨ c2 = 0) ∧ nodotdot then .fail else .copy
      else .copy
  else .copy

/-- The `for (;;)` loop "Scan the pathname one element at a time."
`sep` is `separator != '\0'`. -/
def scan (nodotdot : Bool) (buf : List Nat) (src dest : Nat) (sep : Bool) : Scan :=
  match _h : buf[src]? with
  | none => .oob
  | some c0 =>
    if c0 = 0 then .done buf dest sep
    else if c0 = SLASH then scan nodotdot buf (src + 1) dest sep
    else
      match look nodotdot buf src c0 with
      | .oob => .oob
      | .stop => .done buf dest sep
      | .fail => .failed
      | .skip2 => scan nodotdot buf (src + 2) dest sep
      | .copy =>
        -- "Copy current element, including leading '/'."
        if dest < buf.length then
          let buf1 := if sep then buf.set dest SLASH else buf
          let dest1 := if sep then dest + 1 else dest
          match _hc : copyElem buf1 src dest1 with
          | none => .oob
          | some (buf2, src2, dest2) =>
            match buf2[src2]? with
            | none => .oob
            | some c => if c = 0 then .done buf2 dest2 sep
                        else scan nodotdot buf2 (src2 + 1) dest2 true   -- "Skip '/' separator."
        else .oob
termination_by buf.length - src
decreasing_by
  · have := (List.getElem?_eq_some_iff.mp _h).1; omega
  · have := (List.getElem?_eq_some_iff.mp _h).1; omega
  · have hlt := (List.getElem?_eq_some_iff.mp _h).1
    have hp := copyElem_props _ _ _ _ rfl _ _ _ _hc
    have hl : buf1.length = buf.length := by
      simp only [buf1]; split <;> simp
    omega

/-- `cleanup_pathname_fsobj`.  `p` is the string on entry; the block has
`p.length + 1` cells. -/
def cleanup (f : Flags) (p : List Nat) : Res :=
  let buf := p ++ [0]
  match buf[0]? with
  | none => .oob
  | some c =>
    if c = 0 then .failed .empty
    else if c = SLASH ∧ f.noabs then .failed .absolute
    else
      let abs := c = SLASH
      match scan f.nodotdot buf (if abs then 1 else 0) 0 abs with
      | .oob => .oob
      | .failed => .failed .dotdot
      | .done buf1 dest sep =>
        -- "if (dest == path) { if (separator) *dest++ = '/'; else *dest++ = '.'; }  *dest = '\0';"
        if dest = 0 then
          if 1 < buf1.length then .ok [if sep then SLASH else DOT] else .oob
        else if dest < buf1.length then .ok (buf1.take dest) else .oob

/-- The in-place model compiled exactly as written.  (`LA/Lemmas/PathCleanFast.lean` gives later modules a
proved linear-time replacement for `cleanup`; the `pathclean` engine keeps running this literal one.) -/
def cleanupLiteral (f : Flags) (p : List Nat) : Res := cleanup f p

/-! ### Reference semantics on components (what the theorems compare the C loop with) -/

/-- Split at every '/': `"a//b/"` is `["a", "", "b", ""]`. -/
def splitSlash : List Nat → List (List Nat)
  | [] => [[]]
  | c :: r =>
    if c = SLASH then [] :: splitSlash r
    else match splitSlash r with
      | [] => [[c]]            -- unreachable: `splitSlash` is never empty
      | h :: t => (c :: h) :: t

/-- Join with '/': inverse of `splitSlash`. -/
def joinSlash : List (List Nat) → List Nat
  | [] => []
  | [c] => c
  | c :: d :: r => c ++ SLASH :: joinSlash (d :: r)

def isDotDot (c : List Nat) : Bool := c == [DOT, DOT]

/-- Components that survive: not empty, not ".". -/
def keep (cs : List (List Nat)) : List (List Nat) :=
  cs.filter fun c => !(c == []) && !(c == [DOT])

/-- What `cleanup_pathname_fsobj` computes, stated on components. -/
def cleanSpec (f : Flags) (p : List Nat) : Res :=
  if p = [] then .failed .empty
  else if p.head? = some SLASH ∧ f.noabs then .failed .absolute
  else if f.nodotdot ∧ (splitSlash p).any isDotDot then .failed .dotdot
  else
    let body := joinSlash (keep (splitSlash p))
    if p.head? = some SLASH then .ok (SLASH :: body)
    else if body = [] then .ok [DOT] else .ok body

/-! ### bsdtar: `strip_absolute_path` -/

/-- `p[i]` of a NUL-terminated string: the byte below the length, `0` at the
length, `none` beyond the terminator. -/
def rd (s : List Nat) (i : Nat) : Option Nat :=
  if i < s.length then s[i]? else if i = s.length then some 0 else none

def isSep (c : Nat) : Bool := c == SLASH || c == BSLASH
def isAlpha (c : Nat) : Bool := (97 ≤ c && c ≤ 122) || (65 ≤ c && c ≤ 90)

/-- C `a && b` on reads: `b` is evaluated only when `a` held. -/
@[inline] def andRd (a : Option Bool) (b : Unit → Option Bool) : Option Bool :=
  match a with
  | none => none
  | some false => some false
  | some true => b ()

def tst (s : List Nat) (i : Nat) (f : Nat → Bool) : Option Bool := (rd s i).map f

/-- The "//./", "//?/", "//?/UNC/" prefix test; result = bytes to skip. -/
def winPrefix (s : List Nat) : Option Nat :=
  match andRd (tst s 0 isSep) fun _ => andRd (tst s 1 isSep) fun _ =>
        andRd (tst s 2 fun c => c == DOT || c == 63) fun _ => tst s 3 isSep with
  | none => none
  | some false => some 0
  | some true =>
    match andRd (tst s 2 (· == 63)) fun _ => andRd (tst s 4 fun c => c == 85 || c == 117) fun _ =>
          andRd (tst s 5 fun c => c == 78 || c == 110) fun _ =>
          andRd (tst s 6 fun c => c == 67 || c == 99) fun _ => tst s 7 isSep with
    | none => none
    | some true => some 8
    | some false => some 4

/-- `while (p[0] == '/' || p[0] == '\\') { … p += 3 | 2 | 1 }` -/
def stripSlashes (s : List Nat) (i : Nat) : Option Nat :=
  match _h : tst s i isSep with
  | none => none
  | some false => some i
  | some true =>
    match andRd (tst s (i + 1) (· == DOT)) fun _ => andRd (tst s (i + 2) (· == DOT)) fun _ =>
          tst s (i + 3) isSep with
    | none => none
    | some true => stripSlashes s (i + 3)
    | some false =>
      match andRd (tst s (i + 1) (· == DOT)) fun _ => tst s (i + 2) isSep with
      | none => none
      | some true => stripSlashes s (i + 2)
      | some false => stripSlashes s (i + 1)
termination_by s.length + 1 - i
decreasing_by
  all_goals
    simp only [tst, rd] at _h
    split at _h
    · omega
    · split at _h
      · simp [isSep] at _h
      · simp at _h

theorem stripSlashes_ge (s : List Nat) : ∀ (n i : Nat), s.length + 1 - i = n → ∀ j,
    stripSlashes s i = some j → i ≤ j := by
  intro n
  induction n using Nat.strongRecOn with
  | _ n ih =>
    intro i hn j h
    unfold stripSlashes at h
    split at h
    · simp at h
    · simp at h; omega
    · rename_i ht
      have hi : i < s.length := by
        simp only [tst, rd] at ht
        split at ht
        · assumption
        · split at ht
          · simp [isSep] at ht
          · simp at ht
      split at h
      · simp at h
      · have := ih _ (by omega) (i + 3) rfl j h; omega
      · split at h
        · simp at h
        · have := ih _ (by omega) (i + 2) rfl j h; omega
        · have := ih _ (by omega) (i + 1) rfl j h; omega

theorem tst_some_le {s : List Nat} {i : Nat} {f : Nat → Bool} {b : Bool} (h : tst s i f = some b) :
    i ≤ s.length := by
  simp only [tst, rd] at h
  split at h
  · omega
  · split at h
    · omega
    · simp at h

theorem stripSlashes_le (s : List Nat) : ∀ (n i : Nat), s.length + 1 - i = n → ∀ j,
    stripSlashes s i = some j → j ≤ s.length := by
  intro n
  induction n using Nat.strongRecOn with
  | _ n ih =>
    intro i hn j h
    unfold stripSlashes at h
    split at h
    · simp at h
    · rename_i ht; simp at h; have := tst_some_le ht; omega
    · rename_i ht
      have hi : i < s.length := by
        simp only [tst, rd] at ht
        split at ht
        · assumption
        · split at ht
          · simp [isSep] at ht
          · simp at ht
      split at h
      · simp at h
      · exact ih _ (by omega) (i + 3) rfl j h
      · split at h
        · simp at h
        · exact ih _ (by omega) (i + 2) rfl j h
        · exact ih _ (by omega) (i + 1) rfl j h

/-- One pass of the `do { rp = p; … } while (rp != p)` loop: drive letter, then slashes. -/
def stripPass (s : List Nat) (i : Nat) : Option Nat :=
  match andRd (tst s i isAlpha) fun _ => tst s (i + 1) (· == 58) with
  | none => none
  | some d => stripSlashes s (if d then i + 2 else i)

theorem stripPass_ge (s : List Nat) (i j : Nat) (h : stripPass s i = some j) : i ≤ j := by
  unfold stripPass at h
  split at h
  · simp at h
  · rename_i d _
    have := stripSlashes_ge s _ _ rfl j h
    split at this <;> omega

theorem stripPass_le (s : List Nat) (i j : Nat) (h : stripPass s i = some j) : j ≤ s.length := by
  unfold stripPass at h
  split at h
  · simp at h
  · exact stripSlashes_le s _ _ rfl j h

/-- "Remove multiple leading slashes and Windows drive letters." -/
def stripLoop (s : List Nat) (i : Nat) : Option Nat :=
  match _h : stripPass s i with
  | none => none
  | some j => if j = i then some i else stripLoop s j
termination_by s.length + 1 - i
decreasing_by
  have := stripPass_ge s i j _h
  have := stripPass_le s i j _h
  omega

/-- `strip_absolute_path`: index of the returned pointer in `p`; `none` = a read
beyond the terminator (never: `strip_absolute_sound`). -/
def stripAbsolute (s : List Nat) : Option Nat :=
  match winPrefix s with
  | none => none
  | some k => stripLoop s k

end LA.PathClean
