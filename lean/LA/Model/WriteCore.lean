/-
Model of the write core of libarchive/archive_write.c above the client filter:
`__archive_write_filter`, `__archive_write_output`, `__archive_write_nulls`,
`__archive_write_filters_open/_close`, `archive_write_open2`,
`_archive_write_header/_data/_finish_entry/_close/_free`, with
* the formats `raw` (archive_write_set_format_raw.c) and `ustar`
  (archive_write_set_format_ustar.c: header/data/finish_entry/close), and
* at most one encoding filter in front of the client filter: `b64encode`
  (archive_write_add_filter_b64encode.c) or `uuencode` (…_uuencode.c), with
  their line encoders, hold buffer and `bs`-sized output blocks.

Status codes are the C integers (`ARCHIVE_OK = 0`, `ARCHIVE_WARN = -20`,
`ARCHIVE_FAILED = -25`, `ARCHIVE_FATAL = -30`); `-99` stands for "the model hit an
out-of-bounds store" and matches nothing the implementation prints.
Every function returns the callback invocations it caused (`List Event`).
-/
import LA.Model.Ustar
import LA.Model.MemSink
namespace LA.WC
open LA.CW LA.Ustar LA.Gen.WriteLayout

inductive AState | new | header | data | closed | fatal
  deriving DecidableEq, Repr
inductive FState | new | open | closed | fatal
  deriving DecidableEq, Repr
inductive Fmt | none | raw | ustar
  deriving DecidableEq, Repr
inductive Enc | b64 | uu
  deriving DecidableEq, Repr

def ok : Int := 0
def warn : Int := -20
def failed : Int := -25
def fatal : Int := -30
def oobCode : Int := -99

def stCode : St → Int
  | .ok => ok
  | .fatal => fatal
  | .oob => oobCode

/-! ### line encoders -/

def b64Char (c : Nat) : Nat := base64Table.getD c 0

/-- `la_b64_encode` without the final newline. -/
def b64Groups : List Nat → List Nat
  | a :: b :: c :: r =>
    b64Char (a / 4) :: b64Char (a % 4 * 16 + b / 16) :: b64Char (b % 16 * 4 + c / 64) :: b64Char (c % 64) ::
      b64Groups r
  | [a] => [b64Char (a / 4), b64Char (a % 4 * 16), 61, 61]
  | [a, b] => [b64Char (a / 4), b64Char (a % 4 * 16 + b / 16), b64Char (b % 16 * 4), 61]
  | [] => []

def uuChar (c : Nat) : Nat := if c = 0 then 96 else c + 32

/-- `uu_encode` without the length character and the final newline. -/
def uuGroups : List Nat → List Nat
  | a :: b :: c :: r =>
    uuChar (a / 4) :: uuChar (a % 4 * 16 + b / 16) :: uuChar (b % 16 * 4 + c / 64) :: uuChar (c % 64) :: uuGroups r
  | [a] => [uuChar (a / 4), uuChar (a % 4 * 16), 96, 96]
  | [a, b] => [uuChar (a / 4), uuChar (a % 4 * 16 + b / 16), uuChar (b % 16 * 4), 96]
  | [] => []

def Enc.lbytes : Enc → Nat
  | .b64 => b64LBYTES
  | .uu => uuLBYTES

/-- One encoded line (`la_b64_encode` / `uu_encode`) for `p.length ≤ LBYTES` bytes. -/
def Enc.line (k : Enc) (p : List Nat) : List Nat :=
  match k with
  | .b64 => b64Groups p ++ [10]
  | .uu => uuChar p.length :: uuGroups p ++ [10]

/-- "begin-base64 644 -\n" / "begin 644 -\n" (default mode 0644, name "-"). -/
def Enc.begin (k : Enc) : List Nat :=
  match k with
  | .b64 => [98, 101, 103, 105, 110, 45, 98, 97, 115, 101, 54, 52, 32, 54, 52, 52, 32, 45, 10]
  | .uu => [98, 101, 103, 105, 110, 32, 54, 52, 52, 32, 45, 10]

/-- "====\n" / "`\nend\n". -/
def Enc.trailer (k : Enc) : List Nat :=
  match k with
  | .b64 => [61, 61, 61, 61, 10]
  | .uu => [96, 10, 101, 110, 100, 10]

/-- Encode all complete `LBYTES` lines of `p`; returns the encoded text and the remainder. -/
def encodeLines (k : Enc) (p : List Nat) : List Nat × List Nat :=
  if h : k.lbytes ≤ p.length ∧ 0 < k.lbytes then
    let r := encodeLines k (p.drop k.lbytes)
    (k.line (p.take k.lbytes) ++ r.1, r.2)
  else ([], p)
termination_by p.length
decreasing_by simp only [List.length_drop]; omega

/-- `struct private_b64encode` / `private_uuencode` and the filter's state. -/
structure EncState where
  kind : Enc
  fstate : FState := .new
  bs : Nat := 0
  hold : List Nat := []
  enc : List Nat := []
  deriving Repr

structure Handle where
  state : AState := .new                 -- a->archive.state
  fmt : Fmt := .none
  bpb : Nat := defaultBytesPerBlock      -- a->bytes_per_block
  bil : Int := -1                        -- a->bytes_in_last_block
  enc : Option EncState := none          -- the encoding filter, if one was added
  hasClient : Bool := false              -- the client filter has been allocated
  cfState : FState := .new               -- client filter f->state
  cs : Option CState := none             -- f->data of the client filter (freed = none)
  memSink : Bool := false                -- opened with archive_write_open_memory
  fileSink : Bool := false               -- opened with archive_write_open_fd / _filename
  sinkPads : Bool := false               -- … on a character/block device or FIFO (fstat in file_open)
  openerRet : Int := 0                   -- what the client's open callback returns
  remaining : Nat := 0                   -- ustar->entry_bytes_remaining
  padding : Nat := 0                     -- ustar->entry_padding
  entriesWritten : Nat := 0              -- raw->entries_written
  deriving Repr

/-- `archive_check_magic(a, ARCHIVE_WRITE_MAGIC, states, fn)`: a state outside the mask
makes the handle fatal. -/
def checkMagic (h : Handle) (allowed : List AState) : Bool := allowed.contains h.state

section
variable {σ : Type} (W : Writer σ)

/-- `__archive_write_filter(client_filter, buff, length)`. -/
def clientFilterWrite (w : σ) (h : Handle) (d : List Cell) : Int × Handle × List Event × σ :=
  if h.cfState ≠ .open then (fatal, h, [], w)       -- "Never write to non-open filters"
  else if d.length = 0 then (ok, h, [], w)
  else
    match h.cs with
    | none => (oobCode, h, [], w)                     -- use after free (unreachable: state is not open then)
    | some cs =>
      let r := clientWrite W w cs d
      (stCode r.1, { h with cs := some r.2.1 }, r.2.2.1, r.2.2.2)

/-- The output loop of `archive_filter_b64encode_write` / `_uuencode_write` (as repaired:
stop at the first failure and return it):
```
while (archive_strlen(&state->encoded_buff) >= state->bs) {
    ret = __archive_write_filter(f->next_filter, state->encoded_buff.s, state->bs);
    if (ret != ARCHIVE_OK) return (ret);
    memmove(...); state->encoded_buff.length -= state->bs; }
``` -/
def encOutLoop (w : σ) (h : Handle) (bs : Nat) (enc : List Nat) : Int × Handle × List Nat × List Event × σ :=
  if hc : bs ≤ enc.length ∧ 0 < bs then
    let r := clientFilterWrite W w h ((enc.take bs).map some)
    if r.1 ≠ ok then (r.1, r.2.1, enc, r.2.2.1, r.2.2.2)
    else
      let t := encOutLoop r.2.2.2 r.2.1 bs (enc.drop bs)
      (t.1, t.2.1, t.2.2.1, r.2.2.1 ++ t.2.2.2.1, t.2.2.2.2)
  else (ok, h, enc, [], w)
termination_by enc.length
decreasing_by simp only [List.length_drop]; omega

/-- `archive_filter_b64encode_write` / `archive_filter_uuencode_write` for `length > 0`. -/
def encWrite (w : σ) (h : Handle) (e : EncState) (p : List Nat) : Int × Handle × List Event × σ :=
  let lb := e.kind.lbytes
  -- fill the hold buffer first
  let takeN := if e.hold.length ≠ 0 then min (lb - e.hold.length) p.length else 0
  let hold1 := e.hold ++ p.take takeN
  let p1 := p.drop takeN
  if e.hold.length ≠ 0 ∧ hold1.length < lb then
    (ok, { h with enc := some { e with hold := hold1 } }, [], w)
  else
    let enc1 := if e.hold.length ≠ 0 then e.enc ++ e.kind.line hold1 else e.enc
    let el := encodeLines e.kind p1
    let enc2 := enc1 ++ el.1
    -- "Save remaining bytes."
    let r := encOutLoop W w h e.bs enc2
    (r.1, { r.2.1 with enc := some { e with hold := el.2, enc := r.2.2.1 } }, r.2.2.2.1, r.2.2.2.2)

/-- `__archive_write_output(a, buff, length)` = `__archive_write_filter(a->filter_first, …)`.
`d` are the bytes handed down; the encoders read them as values, so an undefined
cell reaching an encoder is reported as `oobCode`. -/
def output (w : σ) (h : Handle) (d : List Cell) : Int × Handle × List Event × σ :=
  match h.enc with
  | none => clientFilterWrite W w h d
  | some e =>
    if e.fstate ≠ .open then (fatal, h, [], w)
    else if d.length = 0 then (ok, h, [], w)
    else
      match readAll d with
      | none => (oobCode, h, [], w)
      | some p => encWrite W w h e p

/-- `__archive_write_nulls(a, length)`. -/
def writeNulls (w : σ) (h : Handle) (length : Nat) : Int × Handle × List Event × σ :=
  if hl : length = 0 then (ok, h, [], w)
  else
    let toWrite := if length < nullLength then length else nullLength
    let r := output W w h (List.replicate toWrite (some 0))
    if r.1 < ok then r
    else if hz : toWrite = 0 then r     -- unreachable (null_length > 0); keeps the recursion well-founded
    else
      let t := writeNulls r.2.2.2 r.2.1 (length - toWrite)
      (t.1, t.2.1, r.2.2.1 ++ t.2.2.1, t.2.2.2)
termination_by length
decreasing_by omega

/-! ### formats -/

/-- `archive_write_raw_header` / `archive_write_ustar_header`. -/
def formatHeaderOp (w : σ) (h : Handle) (e : Entry) : Int × Handle × List Event × σ :=
  match h.fmt with
  | .none => (fatal, h, [], w)
  | .raw =>
    if e.filetype ≠ .reg then (fatal, h, [], w)
    else if h.entriesWritten > 0 then (fatal, h, [], w)
    else (ok, { h with entriesWritten := h.entriesWritten + 1 }, [], w)
  | .ustar =>
    let e := prepareEntry e
    match formatHeader e with
    | none => (oobCode, h, [], w)
    | some (ret, hdr) =>
      if ret < warn then (ret, h, [], w)
      else
        let r := output W w h hdr
        if r.1 < warn then r
        else
          let rem := e.size.toNat
          (if r.1 < ret then r.1 else ret,
           { r.2.1 with remaining := rem, padding := (512 - rem % 512) % 512 }, r.2.2.1, r.2.2.2)

/-- `archive_write_raw_data` / `archive_write_ustar_data`: bytes consumed or a negative status. -/
def formatDataOp (w : σ) (h : Handle) (d : List Cell) : Int × Handle × List Event × σ :=
  match h.fmt with
  | .none => (fatal, h, [], w)
  | .raw =>
    let r := output W w h d
    (if r.1 ≥ 0 then (d.length : Int) else r.1, r.2.1, r.2.2.1, r.2.2.2)
  | .ustar =>
    let s := if d.length > h.remaining then h.remaining else d.length
    let r := output W w h (d.take s)
    let h' := { r.2.1 with remaining := h.remaining - s }
    (if r.1 ≠ ok then r.1 else (s : Int), h', r.2.2.1, r.2.2.2)

/-- `archive_write_ustar_finish_entry` (raw has none). -/
def formatFinishEntry (w : σ) (h : Handle) : Int × Handle × List Event × σ :=
  match h.fmt with
  | .ustar =>
    let r := writeNulls W w h (h.remaining + h.padding)
    (r.1, { r.2.1 with remaining := 0, padding := 0 }, r.2.2.1, r.2.2.2)
  | _ => (ok, h, [], w)

def hasFinishEntry (h : Handle) : Bool := h.fmt = .ustar

/-- `archive_write_ustar_close` (raw has none). -/
def formatClose (w : σ) (h : Handle) : Int × Handle × List Event × σ :=
  match h.fmt with
  | .ustar => writeNulls W w h (512 * 2)
  | _ => (ok, h, [], w)

/-! ### filter chain open / close -/

/-- `bs` of the encoding filters: a multiple of `bytes_per_block` near 64 KiB. -/
def encBlockSize (bpb : Nat) : Nat :=
  if bpb > 65536 then bpb else if bpb ≠ 0 then 65536 - 65536 % bpb else 65536

/-- `archive_write_set_bytes_in_last_block`: `archive_check_magic(…, ARCHIVE_STATE_ANY, …)`. -/
def setBil (h : Handle) (v : Int) : Int × Handle :=
  if h.state = .fatal then (fatal, h) else (ok, { h with bil := v })

/-- `archive_write_client_open` (with `memory_write_open` when the memory sink is used:
"Disable padding if it hasn't been set explicitly"). -/
def clientOpenStep (h : Handle) : Int × Handle :=
  if h.cfState ≠ .new then (fatal, h) else
  let h1 := if h.memSink ∧ h.openerRet = ok ∧ h.bil = -1 then { h with bil := 1 }
    -- file_open of archive_write_open_fd.c / _filename.c: "If client hasn't explicitly set the last
    -- block handling": a regular file is left unpadded
    -- a device or FIFO gets full last blocks, anything else is left unpadded — only when the client has
    -- not set bytes_in_last_block itself
    else if h.fileSink ∧ h.openerRet = ok ∧ h.bil < 0 then { h with bil := if h.sinkPads then 0 else 1 } else h
  if h.openerRet = ok then (ok, { h1 with cfState := .open, cs := some (clientOpen h1.bpb) })
  else (h.openerRet, { h1 with cfState := .fatal, cs := none })

/-- `__archive_write_filters_open`: the client filter first, then the encoder. -/
def filtersOpen (h : Handle) : Int × Handle :=
  let r := clientOpenStep h
  if r.1 ≠ ok then r else
  match r.2.enc with
  | none => (ok, r.2)
  | some e =>
    if e.fstate ≠ .new then (fatal, r.2)
    else (ok, { r.2 with enc := some { e with fstate := .open, bs := encBlockSize r.2.bpb, enc := e.kind.begin } })

/-- `archive_filter_b64encode_close` / `_uuencode_close`. -/
def encClose (w : σ) (h : Handle) (e : EncState) : Int × Handle × List Event × σ :=
  let enc1 := if e.hold.length ≠ 0 then e.enc ++ e.kind.line e.hold else e.enc
  let enc2 := enc1 ++ e.kind.trailer
  let h1 := (setBil h 1).2
  let r := clientFilterWrite W w h1 (enc2.map some)
  (r.1, { r.2.1 with enc := some { e with enc := enc2 } }, r.2.2.1, r.2.2.2)

/-- `if (r1 < r) r = r1;` -/
def imin (a b : Int) : Int := if a < b then a else b

/-- `__archive_write_filters_close`, first filter: the encoder, if there is one and it is open. -/
def encCloseStep (w : σ) (h : Handle) : Int × Handle × List Event × σ :=
  match h.enc with
  | some e =>
    if e.fstate = .open then
      let r := encClose W w h e
      let st := if r.1 = ok then FState.closed else FState.fatal
      (r.1, { r.2.1 with enc := r.2.1.enc.map (fun e' => { e' with fstate := st }) }, r.2.2.1, r.2.2.2)
    else (ok, h, [], w)
  | none => (ok, h, [], w)

/-- `__archive_write_filters_close`, last filter: the client filter, if open
(`ret` is the status accumulated so far). -/
def clientCloseStep (w : σ) (h1 : Handle) (ret : Int) : Int × Handle × List Event × σ :=
  if h1.hasClient ∧ h1.cfState = .open then
    match h1.cs with
    | none => (imin oobCode ret, h1, [], w)
    | some cs =>
      let c := clientClose W w cs h1.bpb h1.bil
      let rc := stCode c.1
      -- archive_write_client_close sets CLOSED itself; filters_close then sets CLOSED/FATAL from the result
      let h2 := { h1 with cs := none, cfState := if rc = ok then .closed else .fatal }
      (imin rc ret, h2, c.2.1, c.2.2)
  else (ret, h1, [], w)

/-- `__archive_write_filters_close`. -/
def filtersClose (w : σ) (h : Handle) : Int × Handle × List Event × σ :=
  let r1 := encCloseStep W w h
  let r2 := clientCloseStep W r1.2.2.2 r1.2.1 (imin r1.1 ok)
  (r2.1, r2.2.1, r1.2.2.1 ++ r2.2.2.1, r2.2.2.2)

/-! ### API -/

/-- `archive_write_open2` (and `archive_write_open_memory`). -/
def apiOpen (w : σ) (h : Handle) : Int × Handle × List Event × σ :=
  if ¬ checkMagic h [.new] then (fatal, { h with state := .fatal }, [], w) else
  let o := filtersOpen { h with hasClient := true, cfState := .new }
  if o.1 < warn then
    let r := filtersClose W w o.2
    -- __archive_write_filters_free: every filter is released
    (imin r.1 o.1,
     { r.2.1 with hasClient := false, enc := none, cs := none }, r.2.2.1, r.2.2.2)
  else (o.1, { o.2 with state := .header }, [], w)

/-- `_archive_write_finish_entry`. -/
def apiFinishEntry (w : σ) (h : Handle) : Int × Handle × List Event × σ :=
  if ¬ checkMagic h [.header, .data] then (fatal, { h with state := .fatal }, [], w) else
  if h.state = .data ∧ hasFinishEntry h then
    let r := formatFinishEntry W w h
    (r.1, { r.2.1 with state := .header }, r.2.2.1, r.2.2.2)
  else (ok, { h with state := .header }, [], w)

/-- `_archive_write_header`. -/
def apiHeader (w : σ) (h : Handle) (e : Entry) : Int × Handle × List Event × σ :=
  if ¬ checkMagic h [.header, .data] then (fatal, { h with state := .fatal }, [], w) else
  if h.fmt = .none then (fatal, { h with state := .fatal }, [], w) else
  let r := apiFinishEntry W w h
  if r.1 = fatal then (fatal, { r.2.1 with state := .fatal }, r.2.2.1, r.2.2.2) else
  if r.1 < ok ∧ r.1 ≠ warn then r else
  let r2 := formatHeaderOp W r.2.2.2 r.2.1 e
  let evs := r.2.2.1 ++ r2.2.2.1
  if r2.1 = failed then (failed, r2.2.1, evs, r2.2.2.2) else
  if r2.1 = fatal then (fatal, { r2.2.1 with state := .fatal }, evs, r2.2.2.2) else
  (imin r2.1 r.1, { r2.2.1 with state := .data }, evs, r2.2.2.2)

/-- `_archive_write_data`. -/
def apiData (w : σ) (h : Handle) (d : List Cell) : Int × Handle × List Event × σ :=
  if ¬ checkMagic h [.data] then (fatal, { h with state := .fatal }, [], w) else
  formatDataOp W w h d

/-- `_archive_write_close`. -/
def apiClose (w : σ) (h : Handle) : Int × Handle × List Event × σ :=
  if h.state = .new ∨ h.state = .closed then (ok, h, [], w) else
  let r : Int × Handle × List Event × σ :=
    if h.state = .data ∧ hasFinishEntry h then formatFinishEntry W w h else (ok, h, [], w)
  let r1 := formatClose W r.2.2.2 r.2.1
  let r2 := filtersClose W r1.2.2.2 r1.2.1
  let h2 := r2.2.1
  (imin r2.1 (imin r1.1 r.1), if h2.state ≠ .fatal then { h2 with state := .closed } else h2,
   r.2.2.1 ++ r1.2.2.1 ++ r2.2.2.1, r2.2.2.2)

/-- `_archive_write_free`: the status it returns (the handle is gone afterwards). -/
def apiFree (w : σ) (h : Handle) : Int × Handle × List Event × σ :=
  if h.state ≠ .fatal then apiClose W w h
  else
    -- "(void)__archive_write_filters_close(a);": a failed archive is not finished off, but the
    -- filters that are still open are closed (which flushes what they hold and releases their
    -- buffers and the client's output stream); the status of that close is not reported
    let r := filtersClose W w h
    (ok, r.2.1, r.2.2.1, r.2.2.2)

end

/-! ### the two callbacks the harness uses -/

/-- Answers of the scripted system call under the library's own sinks. -/
inductive SysAns
  | accept (k : Nat)   -- write(2)/fwrite accepts min k n bytes
  | zero               -- returns 0 (errno 0)
  | error              -- fails with EIO
  | eintr              -- fails with EINTR
  deriving DecidableEq, Repr

/-- State of the fd / filename / FILE sink: the script and a digest of the system calls made. -/
structure FdSink where
  sc : List SysAns := []
  n : Nat := 0
  short : Nat := 0
  eintr : Nat := 0
  h : Nat := 14695981039346656037
  deriving Repr

def fnvStep' (h b : Nat) : Nat := ((h ^^^ (b % 256)) * 1099511628211) % 18446744073709551616
def mix' (h x : Nat) : Nat := ((h ^^^ (x % 18446744073709551616)) * 1099511628211) % 18446744073709551616
def offerHash' (o : List Cell) : Nat :=
  o.foldl (fun h c => fnvStep' h (match c with | some b => b | none => 0)) 14695981039346656037

def FdSink.log (s : FdSink) (o : List Cell) (code : Int) (rest : List SysAns) : FdSink :=
  { s with sc := rest, n := s.n + 1,
           short := if 0 < code ∧ code < o.length then s.short + 1 else s.short,
           eintr := if code = -2 then s.eintr + 1 else s.eintr,
           h := mix' (mix' (mix' s.h (offerHash' o)) o.length) (code + 1000).toNat }

/-- `file_write` of archive_write_open_fd.c / _filename.c / _file.c:
```
for (;;) { bytesWritten = write(mine->fd, buff, length);
           if (bytesWritten <= 0) { if (errno == EINTR) continue; … return (-1); }
           return (bytesWritten); }
```
one callback invocation = the system calls up to the first that is not interrupted. -/
def fileWrite (s : FdSink) (o : List Cell) : Int × FdSink :=
  match hsc : s.sc with
  | [] => (o.length, s.log o o.length [])
  | .accept k :: rest =>
    let r := Nat.min k o.length
    if r = 0 then (-1, s.log o 0 rest) else (r, s.log o r rest)
  | .zero :: rest => (-1, s.log o 0 rest)
  | .error :: rest => (-1, s.log o (-1) rest)
  | .eintr :: rest => fileWrite (s.log o (-2) rest) o
termination_by s.sc.length
decreasing_by simp [FdSink.log, hsc]

inductive DW
  | script (sc : List Ans)
  | mem (m : LA.MemSink.Mem)
  | fd (s : FdSink)
  deriving Repr

def driverWriter : Writer DW where
  call w o :=
    match w with
    | .script sc => let r := scriptWriter.call sc o; (r.1, .script r.2)
    | .mem m => let r := LA.MemSink.memoryWrite m o; (r.1, .mem r.2)
    | .fd s => let r := fileWrite s o; (r.1, .fd r.2)

end LA.WC
