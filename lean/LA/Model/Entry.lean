/-
Model of `struct archive_entry` as far as its public getters can observe it
(property C14): libarchive/archive_entry.c, archive_entry_sparse.c,
archive_entry_xattr.c, archive_entry_stat.c, archive_entry_copy_stat.c,
archive_entry_strmode.c, and the value-level behaviour of `archive_mstring`
(archive_string.c) for strings that are valid in the `C.UTF-8` locale.

Conventions
* `ae_set` and `acl.mode` are bit-vectors manipulated with the same `|=`, `&= ~`,
  `&` as the C; the flag values come from `LA.Gen.EntryBits` (regenerated from
  archive_entry_private.h / archive_entry.h on every run).
* `int64_t` fields are `Int`, unsigned fields `Nat`; the range a C type imposes
  on an *argument* is a precondition stated on the setter (`inI64`, `< 2^64` …);
  the driver only ever passes values inside those ranges.
* Signed overflow is undefined behaviour in C.  The only place an entry setter
  can reach it is the `FIX_NS` macro; `fixNs` returns `none` there and every
  operation that goes through it is `Option`-valued (`none` = "the C executed
  undefined behaviour", a distinguished result, never a wrapped value).
* A multi-form string (`struct archive_mstring`) is modelled by its bytes:
  in `C.UTF-8` a valid UTF-8 string has the same multibyte and UTF-8 form and
  its wide form is the sequence of its code points, so the three views of a
  valid string are determined by (and re-encode to) the same bytes.  `none`
  is "no form set" (every getter returns NULL).  Invalid UTF-8 input is outside
  this model (see tools/props/C14.py).
* Lists owned by the entry are Lean lists; the two iteration cursors
  (`sparse_p`, `xattr_p`) are positions in them.
-/
import LA.Model.Util
import LA.Gen.EntryBits
import LA.Gen.EntryFflags
namespace LA.Entry
open LA.Gen.EntryBits

abbrev Bytes := List Nat
abbrev Flags := BitVec 32

/-! ### constants (all values from the generated table) -/
abbrev fHARDLINK : Flags := BitVec.ofNat 32 AE_SET_HARDLINK
abbrev fSYMLINK : Flags := BitVec.ofNat 32 AE_SET_SYMLINK
abbrev fATIME : Flags := BitVec.ofNat 32 AE_SET_ATIME
abbrev fCTIME : Flags := BitVec.ofNat 32 AE_SET_CTIME
abbrev fMTIME : Flags := BitVec.ofNat 32 AE_SET_MTIME
abbrev fBIRTHTIME : Flags := BitVec.ofNat 32 AE_SET_BIRTHTIME
abbrev fSIZE : Flags := BitVec.ofNat 32 AE_SET_SIZE
abbrev fINO : Flags := BitVec.ofNat 32 AE_SET_INO
abbrev fDEV : Flags := BitVec.ofNat 32 AE_SET_DEV
abbrev fPERM : Flags := BitVec.ofNat 32 AE_SET_PERM
abbrev fFILETYPE : Flags := BitVec.ofNat 32 AE_SET_FILETYPE
abbrev fUID : Flags := BitVec.ofNat 32 AE_SET_UID
abbrev fGID : Flags := BitVec.ofNat 32 AE_SET_GID
abbrev fRDEV : Flags := BitVec.ofNat 32 AE_SET_RDEV
/-- `AE_IFMT` as a `mode_t` (32 bit). -/
abbrev mIFMT : BitVec 32 := BitVec.ofNat 32 AE_IFMT
abbrev encDATA : BitVec 8 := BitVec.ofNat 8 AE_ENCRYPTION_DATA
abbrev encMETADATA : BitVec 8 := BitVec.ofNat 8 AE_ENCRYPTION_METADATA

def INT64_MIN : Int := -9223372036854775808
def INT64_MAX : Int := 9223372036854775807
def inI64 (x : Int) : Bool := decide (INT64_MIN ≤ x) && decide (x ≤ INT64_MAX)
def two32 : Nat := 4294967296
def two64 : Nat := 18446744073709551616
/-- Conversion `uint64_t -> int64_t` (as gcc does it: modulo 2^64). -/
def u64ToI64 (n : Nat) : Int := if n % two64 < 9223372036854775808 then (n % two64 : Nat) else ((n % two64 : Nat) : Int) - two64

inductive TimeField | atime | birthtime | ctime | mtime
  deriving DecidableEq, Repr
inductive StrField | pathname | uname | gname | sourcepath
  deriving DecidableEq, Repr

/-- The fields of `struct stat` that archive_entry_stat()/copy_stat() touch on
Linux/glibc x86_64 (`st_atim.tv_nsec` etc. present, no `st_birthtime`). -/
structure StatRec where
  atime : Int := 0
  atime_nsec : Int := 0
  ctime : Int := 0
  ctime_nsec : Int := 0
  mtime : Int := 0
  mtime_nsec : Int := 0
  dev : Nat := 0
  gid : Nat := 0
  uid : Nat := 0
  ino : Nat := 0
  nlink : Nat := 0
  rdev : Nat := 0
  size : Int := 0
  mode : Nat := 0
  deriving DecidableEq, Repr

def zeroDigests : List Bytes := digestSizes.map fun p => List.replicate p.2 0

/-- `struct archive_entry` (archive_entry_private.h), field for field where a
getter can see the field.  Left out: `archive` (only selects a conversion
cache), the ACL list (C15), `strmode[]` (scratch buffer of the getter). -/
structure Entry where
  ae_set : Flags := 0
  stat_valid : Bool := false
  /-- contents of `*entry->stat` (all zero after calloc) -/
  stat_cache : StatRec := {}
  aest_atime : Int := 0
  aest_atime_nsec : Nat := 0
  aest_ctime : Int := 0
  aest_ctime_nsec : Nat := 0
  aest_mtime : Int := 0
  aest_mtime_nsec : Nat := 0
  aest_birthtime : Int := 0
  aest_birthtime_nsec : Nat := 0
  aest_gid : Int := 0
  aest_ino : Int := 0
  aest_nlink : Nat := 0
  aest_size : Nat := 0
  aest_uid : Int := 0
  aest_dev_is_broken_down : Bool := false
  aest_dev : Nat := 0
  aest_devmajor : Nat := 0
  aest_devminor : Nat := 0
  aest_rdev_is_broken_down : Bool := false
  aest_rdev : Nat := 0
  aest_rdevmajor : Nat := 0
  aest_rdevminor : Nat := 0
  /-- `acl.mode`: file type and permission bits share this word -/
  mode : BitVec 32 := 0
  /-- `ae_fflags_text` (text fflags per fflagstostr(3)), `none` = no form set -/
  ae_fflags_text : Option Bytes := none
  ae_fflags_set : Nat := 0
  ae_fflags_clear : Nat := 0
  ae_gname : Option Bytes := none
  /-- one string serves both the hard-link and the symlink target -/
  ae_linkname : Option Bytes := none
  ae_pathname : Option Bytes := none
  ae_uname : Option Bytes := none
  ae_sourcepath : Option Bytes := none
  encryption : BitVec 8 := 0
  /-- `mac_metadata`/`mac_metadata_size`; never `some []` -/
  mac_metadata : Option Bytes := none
  digests : List Bytes := zeroDigests
  /-- `xattr_head` list, head first (the most recently added attribute first) -/
  xattrs : List (Bytes × Bytes) := []
  /-- `xattr_p` as the number of nodes from the cursor to the end of the list
  (0 = NULL).  Nodes are only ever added in front, so this names a node stably. -/
  xattr_p : Nat := 0
  /-- `sparse_head` list in order -/
  sparse : List (Int × Int) := []
  /-- `sparse_p` as an index into `sparse` (`none` = NULL).  Nodes are only ever
  appended, so an index names a node stably. -/
  sparse_p : Option Nat := none
  ae_symlink_type : Int := 0
  deriving DecidableEq, Repr

/-- `archive_entry_new()`: calloc, `ae_symlink_type = AE_SYMLINK_TYPE_UNDEFINED`. -/
def new : Entry := { ae_symlink_type := AE_SYMLINK_TYPE_UNDEFINED }

/-- `(ae_set & FLAG) != 0` -/
def hasF (s f : Flags) : Bool := (s &&& f) != 0
def Entry.has (e : Entry) (f : Flags) : Bool := hasF e.ae_set f

/-! ### times -/

/-- The `FIX_NS(t, ns)` macro, statement by statement, on `time_t`/`long`
(both 64 bit).  `none` = signed overflow of `t` (undefined behaviour). -/
def fixNs (t ns : Int) : Option (Int × Int) :=
  let t1 := t + ns.tdiv nsPerSec            -- t += ns / 1000000000;
  if !inI64 t1 then none else
  let ns1 := ns.tmod nsPerSec               -- ns %= 1000000000;
  if ns1 < 0 then                           -- if (ns < 0) { --t; ns += 1000000000; }
    if !inI64 (t1 - 1) then none else some (t1 - 1, ns1 + nsPerSec)
  else some (t1, ns1)

def TimeField.flag : TimeField → Flags
  | .atime => fATIME | .birthtime => fBIRTHTIME | .ctime => fCTIME | .mtime => fMTIME

def Entry.withTime (e : Entry) (f : TimeField) (t : Int) (ns : Nat) : Entry :=
  match f with
  | .atime => { e with aest_atime := t, aest_atime_nsec := ns }
  | .birthtime => { e with aest_birthtime := t, aest_birthtime_nsec := ns }
  | .ctime => { e with aest_ctime := t, aest_ctime_nsec := ns }
  | .mtime => { e with aest_mtime := t, aest_mtime_nsec := ns }

/-- `archive_entry_atime` / `_birthtime` / `_ctime` / `_mtime` -/
def timeSec (f : TimeField) (e : Entry) : Int :=
  match f with
  | .atime => e.aest_atime | .birthtime => e.aest_birthtime
  | .ctime => e.aest_ctime | .mtime => e.aest_mtime
/-- `archive_entry_atime_nsec` … (`uint32_t` field returned as `long`) -/
def timeNsec (f : TimeField) (e : Entry) : Nat :=
  match f with
  | .atime => e.aest_atime_nsec | .birthtime => e.aest_birthtime_nsec
  | .ctime => e.aest_ctime_nsec | .mtime => e.aest_mtime_nsec
/-- `archive_entry_atime_is_set` … (`ae_set & AE_SET_ATIME`, observed as != 0) -/
def timeIsSet (f : TimeField) (e : Entry) : Bool := e.has f.flag

/-- The assignments of `archive_entry_set_atime` … after `FIX_NS`. -/
def setTimeCore (f : TimeField) (e : Entry) (t : Int) (ns : Nat) : Entry :=
  ({ e with stat_valid := false, ae_set := e.ae_set ||| f.flag }).withTime f t ns

/-- `archive_entry_set_atime` / `_birthtime` / `_ctime` / `_mtime`
(precondition of the C types: `inI64 t`, `inI64 ns`). -/
def setTime (f : TimeField) (e : Entry) (t ns : Int) : Option Entry :=
  (fixNs t ns).map fun p => setTimeCore f e p.1 p.2.toNat

/-- The assignments of `archive_entry_unset_atime` …: those of `set_X(entry, 0, 0)`
(`FIX_NS(0, 0)` is `(0, 0)`), then `ae_set &= ~AE_SET_X`. -/
def unsetTimeCore (f : TimeField) (e : Entry) : Entry :=
  let e' := setTimeCore f e 0 0
  { e' with ae_set := e'.ae_set &&& ~~~f.flag }

/-- `archive_entry_unset_atime` …: `set_X(entry, 0, 0); ae_set &= ~AE_SET_X`. -/
def unsetTime (f : TimeField) (e : Entry) : Option Entry :=
  (setTime f e 0 0).map fun e' => { e' with ae_set := e'.ae_set &&& ~~~f.flag }

/-! ### size, ids, link count -/

/-- `archive_entry_set_size` (negative becomes 0; stored in a `uint64_t`) -/
def setSize (e : Entry) (s : Int) : Entry :=
  let s := if s < 0 then 0 else s
  { e with stat_valid := false, aest_size := s.toNat, ae_set := e.ae_set ||| fSIZE }
/-- `archive_entry_unset_size` -/
def unsetSize (e : Entry) : Entry :=
  let e' := setSize e 0
  { e' with ae_set := e'.ae_set &&& ~~~fSIZE }
/-- `archive_entry_size` (`uint64_t` field returned as `la_int64_t`) -/
def size (e : Entry) : Int := u64ToI64 e.aest_size
/-- `archive_entry_size_is_set` -/
def sizeIsSet (e : Entry) : Bool := e.has fSIZE

/-- `archive_entry_set_gid` -/
def setGid (e : Entry) (g : Int) : Entry :=
  let g := if g < 0 then 0 else g
  { e with stat_valid := false, aest_gid := g, ae_set := e.ae_set ||| fGID }
/-- `archive_entry_set_uid` -/
def setUid (e : Entry) (u : Int) : Entry :=
  let u := if u < 0 then 0 else u
  { e with stat_valid := false, aest_uid := u, ae_set := e.ae_set ||| fUID }
/-- `archive_entry_set_ino` and `archive_entry_set_ino64` (same body) -/
def setIno (e : Entry) (i : Int) : Entry :=
  let i := if i < 0 then 0 else i
  { e with stat_valid := false, ae_set := e.ae_set ||| fINO, aest_ino := i }
/-- `archive_entry_set_nlink` (`unsigned int`; no is-set flag exists) -/
def setNlink (e : Entry) (n : Nat) : Entry :=
  { e with stat_valid := false, aest_nlink := n % two32 }

def gid (e : Entry) : Int := e.aest_gid
def gidIsSet (e : Entry) : Bool := e.has fGID
def uid (e : Entry) : Int := e.aest_uid
def uidIsSet (e : Entry) : Bool := e.has fUID
/-- `archive_entry_ino` and `archive_entry_ino64` -/
def ino (e : Entry) : Int := e.aest_ino
def inoIsSet (e : Entry) : Bool := e.has fINO
def nlink (e : Entry) : Nat := e.aest_nlink

/-! ### device numbers (glibc `gnu_dev_major/minor/makedev`, `dev_t` = 64 bit) -/

def gnuMajor (d : Nat) : Nat :=
  ((d &&& 0xfff00) >>> 8) ||| ((d &&& 0xfffff00000000000) >>> 32)
def gnuMinor (d : Nat) : Nat :=
  (d &&& 0xff) ||| ((d &&& 0xffffff00000) >>> 12)
def gnuMakedev (ma mi : Nat) : Nat :=
  ((ma &&& 0xfff) <<< 8) ||| ((ma &&& 0xfffff000) <<< 32) ||| (mi &&& 0xff) ||| ((mi &&& 0xffffff00) <<< 12)

/-- `archive_entry_set_dev` (argument `< 2^64`) -/
def setDev (e : Entry) (d : Nat) : Entry :=
  { e with stat_valid := false, ae_set := e.ae_set ||| fDEV, aest_dev_is_broken_down := false, aest_dev := d % two64 }
def setDevmajor (e : Entry) (m : Nat) : Entry :=
  { e with stat_valid := false, ae_set := e.ae_set ||| fDEV, aest_dev_is_broken_down := true, aest_devmajor := m % two64 }
def setDevminor (e : Entry) (m : Nat) : Entry :=
  { e with stat_valid := false, ae_set := e.ae_set ||| fDEV, aest_dev_is_broken_down := true, aest_devminor := m % two64 }
def dev (e : Entry) : Nat :=
  if e.aest_dev_is_broken_down then gnuMakedev e.aest_devmajor e.aest_devminor else e.aest_dev
def devIsSet (e : Entry) : Bool := e.has fDEV
def devmajor (e : Entry) : Nat :=
  if e.aest_dev_is_broken_down then e.aest_devmajor else gnuMajor e.aest_dev
def devminor (e : Entry) : Nat :=
  if e.aest_dev_is_broken_down then e.aest_devminor else gnuMinor e.aest_dev

/-- `archive_entry_set_rdev` (also zeroes the split fields) -/
def setRdev (e : Entry) (d : Nat) : Entry :=
  { e with stat_valid := false, aest_rdev := d % two64, aest_rdev_is_broken_down := false,
           aest_rdevmajor := 0, aest_rdevminor := 0, ae_set := e.ae_set ||| fRDEV }
def setRdevmajor (e : Entry) (m : Nat) : Entry :=
  { e with stat_valid := false, aest_rdev_is_broken_down := true, aest_rdev := 0,
           aest_rdevmajor := m % two64, ae_set := e.ae_set ||| fRDEV }
def setRdevminor (e : Entry) (m : Nat) : Entry :=
  { e with stat_valid := false, aest_rdev_is_broken_down := true, aest_rdev := 0,
           aest_rdevminor := m % two64, ae_set := e.ae_set ||| fRDEV }
def rdevIsSet (e : Entry) : Bool := e.has fRDEV
/-- `archive_entry_rdev`: 0 unless AE_SET_RDEV -/
def rdev (e : Entry) : Nat :=
  if rdevIsSet e then
    if e.aest_rdev_is_broken_down then gnuMakedev e.aest_rdevmajor e.aest_rdevminor else e.aest_rdev
  else 0
def rdevmajor (e : Entry) : Nat :=
  if rdevIsSet e then
    if e.aest_rdev_is_broken_down then e.aest_rdevmajor else gnuMajor e.aest_rdev
  else 0
def rdevminor (e : Entry) : Nat :=
  if rdevIsSet e then
    if e.aest_rdev_is_broken_down then e.aest_rdevminor else gnuMinor e.aest_rdev
  else 0

/-! ### mode: file type and permission bits in one word -/

/-- `archive_entry_set_mode` -/
def setMode (e : Entry) (m : BitVec 32) : Entry :=
  { e with stat_valid := false, mode := m, ae_set := e.ae_set ||| (fPERM ||| fFILETYPE) }
/-- `archive_entry_set_perm`: `mode &= AE_IFMT; mode |= ~AE_IFMT & p` -/
def setPerm (e : Entry) (p : BitVec 32) : Entry :=
  { e with stat_valid := false, mode := (e.mode &&& mIFMT) ||| (~~~mIFMT &&& p), ae_set := e.ae_set ||| fPERM }
/-- `archive_entry_set_filetype`: `mode &= ~AE_IFMT; mode |= AE_IFMT & type` -/
def setFiletype (e : Entry) (t : BitVec 32) : Entry :=
  { e with stat_valid := false, mode := (e.mode &&& ~~~mIFMT) ||| (mIFMT &&& t), ae_set := e.ae_set ||| fFILETYPE }
def mode (e : Entry) : BitVec 32 := e.mode
def filetype (e : Entry) : BitVec 32 := mIFMT &&& e.mode
def filetypeIsSet (e : Entry) : Bool := e.has fFILETYPE
def perm (e : Entry) : BitVec 32 := ~~~mIFMT &&& e.mode
def permIsSet (e : Entry) : Bool := e.has fPERM

/-! ### plain strings -/

def Entry.str (e : Entry) : StrField → Option Bytes
  | .pathname => e.ae_pathname | .uname => e.ae_uname
  | .gname => e.ae_gname | .sourcepath => e.ae_sourcepath
/-- `archive_entry_pathname`, `_pathname_utf8`, `_pathname_w` (and uname, gname,
sourcepath): the three views of a valid string are its bytes. -/
def getStr (f : StrField) (e : Entry) : Option Bytes := e.str f
/-- `archive_entry_set_X`, `copy_X`, `copy_X_w`, `set_X_utf8`, `update_X_utf8`
(`archive_mstring_copy_*`: NULL clears every form, otherwise exactly the given
form is set and the others are derived lazily). -/
def setStr (f : StrField) (e : Entry) (v : Option Bytes) : Entry :=
  match f with
  | .pathname => { e with ae_pathname := v } | .uname => { e with ae_uname := v }
  | .gname => { e with ae_gname := v } | .sourcepath => { e with ae_sourcepath := v }

/-! ### hard-link / symlink target: one string, two flags -/

/-- `archive_entry_set_hardlink` -/
def setHardlink (e : Entry) (v : Option Bytes) : Entry :=
  match v with
  | none =>
    let e1 := { e with ae_set := e.ae_set &&& ~~~fHARDLINK }
    bif e1.has fSYMLINK then e1
    else { e1 with ae_set := e1.ae_set &&& ~~~fSYMLINK, ae_linkname := none }
  | some s =>
    let e1 := { e with ae_set := e.ae_set ||| fHARDLINK }
    { e1 with ae_set := e1.ae_set &&& ~~~fSYMLINK, ae_linkname := some s }

/-- `archive_entry_copy_hardlink`, `_copy_hardlink_w`, `_set_hardlink_utf8`,
`_update_hardlink_utf8` (after the fix: they clear AE_SET_SYMLINK). -/
def copyHardlink (e : Entry) (v : Option Bytes) : Entry :=
  bif v.isNone && e.has fSYMLINK then e else
  let e1 := { e with ae_set := e.ae_set &&& ~~~fSYMLINK, ae_linkname := v }
  bif v.isSome then { e1 with ae_set := e1.ae_set ||| fHARDLINK }
  else { e1 with ae_set := e1.ae_set &&& ~~~fHARDLINK }

/-- `archive_entry_set_symlink`, `_set_symlink_utf8`, `_copy_symlink`,
`_copy_symlink_w`, `_update_symlink_utf8` -/
def setSymlink (e : Entry) (v : Option Bytes) : Entry :=
  bif v.isNone && e.has fHARDLINK then e else
  let e1 := { e with ae_linkname := v, ae_set := e.ae_set &&& ~~~fHARDLINK }
  bif v.isNone then { e1 with ae_set := e1.ae_set &&& ~~~fSYMLINK }
  else { e1 with ae_set := e1.ae_set ||| fSYMLINK }

/-- `archive_entry_set_link`, `_set_link_utf8`, `_copy_link`, `_copy_link_w`,
`_update_link_utf8`: "set symlink if symlink is already set, else set hardlink". -/
def setLink (e : Entry) (v : Option Bytes) : Entry :=
  let e1 := { e with ae_linkname := v }
  bif !e1.has fSYMLINK then { e1 with ae_set := e1.ae_set ||| fHARDLINK } else e1

/-- `archive_entry_set_link_to_hardlink`:
`if (ae_set & AE_SET_SYMLINK) ae_set &= ~AE_SET_SYMLINK; ae_set |= AE_SET_HARDLINK;` -/
def setLinkToHardlink (e : Entry) : Entry :=
  { e with ae_set := (bif e.has fSYMLINK then e.ae_set &&& ~~~fSYMLINK else e.ae_set) ||| fHARDLINK }
/-- `archive_entry_set_link_to_symlink` -/
def setLinkToSymlink (e : Entry) : Entry :=
  { e with ae_set := (bif e.has fHARDLINK then e.ae_set &&& ~~~fHARDLINK else e.ae_set) ||| fSYMLINK }

/-- `archive_entry_hardlink`, `_hardlink_utf8`, `_hardlink_w` -/
def hardlink (e : Entry) : Option Bytes := if e.has fHARDLINK then e.ae_linkname else none
/-- `archive_entry_hardlink_is_set` -/
def hardlinkIsSet (e : Entry) : Bool := e.has fHARDLINK
/-- `archive_entry_symlink`, `_symlink_utf8`, `_symlink_w` -/
def symlink (e : Entry) : Option Bytes := if e.has fSYMLINK then e.ae_linkname else none

/-! ### file flags (bitmaps and text; the name table is `LA.Gen.EntryFflags.fileflags`), symlink type, encryption -/

/-- token separators of `ae_strtofflags` / `ae_wcstofflags`: tab, blank, comma -/
def isSep (b : Nat) : Bool := b == 9 || b == 32 || b == 44

/-- The tokens of a flag string with the offset each starts at. -/
def fflagTokens (s : Bytes) : List (Nat × Bytes) := go s 0 none
where
  go : Bytes → Nat → Option (Nat × Bytes) → List (Nat × Bytes)
  | [], _, none => []
  | [], _, some (st, acc) => [(st, acc.reverse)]
  | b :: r, i, cur =>
    if isSep b then
      match cur with
      | none => go r (i + 1) none
      | some (st, acc) => (st, acc.reverse) :: go r (i + 1) none
    else
      match cur with
      | none => go r (i + 1) (some (i, [b]))
      | some (st, acc) => go r (i + 1) (some (st, b :: acc))

/-- One token against `fileflags[]`, first matching row wins: `(set, clear)` contribution.
"noXXXX" reverses the sense, "XXXX" does not. -/
def matchFlag (tok : Bytes) : List (Bytes × Nat × Nat) → Option (Nat × Nat)
  | [] => none
  | (name, fset, fclear) :: rest =>
    if tok == name then some (fclear, fset)
    else if tok == name.drop 2 then some (fset, fclear)
    else matchFlag tok rest

/-- `ae_strtofflags` (and `ae_wcstofflags`, whose table holds the same ASCII names):
every token is tried, unknown ones are skipped; result `(set, clear, offset of the first
unknown token)`. -/
def strtofflags (s : Bytes) : Nat × Nat × Option Nat :=
  (fflagTokens s).foldl (fun (acc : Nat × Nat × Option Nat) t =>
    match matchFlag t.2 LA.Gen.EntryFflags.fileflags with
    | some (a, b) => (acc.1 ||| a, acc.2.1 ||| b, acc.2.2)
    | none => (acc.1, acc.2.1, match acc.2.2 with | none => some t.1 | some f => some f)) (0, 0, none)

/-- `x & ~m` on `unsigned long` -/
def andNot64 (x m : Nat) : Nat := x &&& (m ^^^ (two64 - 1))

/-- `ae_fflagstostr`: comma separated names of the flags present in either bitmap, in
table order, each flag once (the first of its aliases); `none` when no known flag is present. -/
def fflagstostr (bitset bitclear : Nat) : Option Bytes :=
  let names := go bitset bitclear LA.Gen.EntryFflags.fileflags
  if names.isEmpty then none else some (List.intercalate [44] names)
where
  go (bitset bitclear : Nat) : List (Bytes × Nat × Nat) → List Bytes
  | [] => []
  | (name, fset, fclear) :: rest =>
    if (bitset &&& fset) != 0 || (bitclear &&& fclear) != 0 then
      name.drop 2 :: go (andNot64 bitset (fset ||| fclear)) (andNot64 bitclear (fset ||| fclear)) rest
    else if (bitset &&& fclear) != 0 || (bitclear &&& fset) != 0 then
      name :: go (andNot64 bitset (fset ||| fclear)) (andNot64 bitclear (fset ||| fclear)) rest
    else go bitset bitclear rest

/-- `archive_entry_set_fflags` (`unsigned long`, 64 bit): the text form is dropped -/
def setFflags (e : Entry) (s c : Nat) : Entry :=
  { e with ae_fflags_text := none, ae_fflags_set := s % two64, ae_fflags_clear := c % two64 }
/-- `archive_entry_fflags` -/
def fflags (e : Entry) : Nat × Nat := (e.ae_fflags_set, e.ae_fflags_clear)

/-- `archive_entry_copy_fflags_text`, `_copy_fflags_text_len`, `_copy_fflags_text_w`:
the text is kept as given, both bitmaps are replaced by what the known tokens say. -/
def copyFflagsText (e : Entry) (s : Bytes) : Entry :=
  { e with ae_fflags_text := some s, ae_fflags_set := (strtofflags s).1, ae_fflags_clear := (strtofflags s).2.1 }

/-- what `archive_entry_fflags_text` returns: the stored text if there is one, else the
text generated from the bitmaps (NULL when both are 0 or hold no known flag) -/
def fflagsTextV (e : Entry) : Option Bytes :=
  match e.ae_fflags_text with
  | some t => some t
  | none => if e.ae_fflags_set == 0 && e.ae_fflags_clear == 0 then none
            else fflagstostr e.ae_fflags_set e.ae_fflags_clear
/-- `archive_entry_fflags_text`: a generated text is stored in the entry -/
def fflagsText (e : Entry) : Entry × Option Bytes :=
  ({ e with ae_fflags_text := fflagsTextV e }, fflagsTextV e)

/-- `archive_entry_set_symlink_type` (`int`) -/
def setSymlinkType (e : Entry) (t : Int) : Entry := { e with ae_symlink_type := t }
def symlinkType (e : Entry) : Int := e.ae_symlink_type

/-- `archive_entry_set_is_data_encrypted` -/
def setIsDataEncrypted (e : Entry) (b : Bool) : Entry :=
  bif b then { e with encryption := e.encryption ||| encDATA }
  else { e with encryption := e.encryption &&& ~~~encDATA }
/-- `archive_entry_set_is_metadata_encrypted` -/
def setIsMetadataEncrypted (e : Entry) (b : Bool) : Entry :=
  bif b then { e with encryption := e.encryption ||| encMETADATA }
  else { e with encryption := e.encryption &&& ~~~encMETADATA }
def isDataEncrypted (e : Entry) : Bool := (e.encryption &&& encDATA) == encDATA
def isMetadataEncrypted (e : Entry) : Bool := (e.encryption &&& encMETADATA) == encMETADATA
/-- `archive_entry_is_encrypted` returns `encryption & (DATA|METADATA)` itself -/
def isEncrypted (e : Entry) : Nat := (e.encryption &&& (encDATA ||| encMETADATA)).toNat

/-! ### Mac metadata blob, digests -/

def normMac : Option Bytes → Option Bytes
  | none => none
  | some [] => none
  | some b => some b
/-- `archive_entry_copy_mac_metadata`: NULL or size 0 stores (NULL, 0) -/
def copyMacMetadata (e : Entry) (v : Option Bytes) : Entry := { e with mac_metadata := normMac v }
/-- `archive_entry_mac_metadata` -/
def macMetadata (e : Entry) : Option Bytes := e.mac_metadata

def digestIndex (t : Int) : Option (Nat × Nat) :=
  match digestSizes.findIdx? (fun p => (p.1 : Int) == t) with
  | none => none
  | some i => some (i, (digestSizes.getD i (0, 0)).2)

/-- `archive_entry_set_digest`: copies `sizeof(field)` bytes from the caller's
buffer (precondition: the buffer is at least that long); unknown type → WARN. -/
def setDigestL (ds : List Bytes) (t : Int) (d : Bytes) : List Bytes :=
  match digestIndex t with
  | none => ds
  | some (i, n) => ds.set i (d.take n)
def setDigest (e : Entry) (t : Int) (d : Bytes) : Entry × Bool :=
  ({ e with digests := setDigestL e.digests t d }, (digestIndex t).isSome)
/-- `archive_entry_digest` (NULL for an unknown type) -/
def digest (e : Entry) (t : Int) : Option Bytes :=
  match digestIndex t with
  | none => none
  | some (i, _) => e.digests[i]?

/-! ### sparse map -/

/-- `archive_entry_sparse_clear` (after the fix: also resets the cursor) -/
def sparseClear (e : Entry) : Entry := { e with sparse := [], sparse_p := none }

/-- `archive_entry_sparse_add_entry` on the list (`sz` = `archive_entry_size`) -/
def sparseAddL (sz : Int) (sp : List (Int × Int)) (offset length : Int) : List (Int × Int) :=
  if offset < 0 || length < 0 then sp else
  if offset > INT64_MAX - length || offset + length > sz then sp else
  match sp.getLast? with
  | some (so, sl) =>
    if so + sl > offset then sp
    else if so + sl == offset then
      if so + sl + length < 0 then sp
      else sp.dropLast ++ [(so, sl + length)]
    else sp ++ [(offset, length)]
  | none => sp ++ [(offset, length)]

/-- `archive_entry_sparse_add_entry` -/
def sparseAdd (e : Entry) (offset length : Int) : Entry :=
  { e with sparse := sparseAddL (size e) e.sparse offset length }

/-- the test in `archive_entry_sparse_count`: exactly one block, at offset 0, at least as long as the file -/
def sparseWhole (sz : Int) : List (Int × Int) → Bool
  | [(o, l)] => o == 0 && decide (l ≥ sz)
  | _ => false

/-- `archive_entry_sparse_count`: a single block that covers the whole file is
dropped (this getter changes the entry). -/
def sparseCount (e : Entry) : Entry × Nat :=
  bif sparseWhole (size e) e.sparse then (sparseClear e, 0) else (e, e.sparse.length)

/-- `archive_entry_sparse_reset` -/
def sparseReset (e : Entry) : Entry × Nat :=
  sparseCount { e with sparse_p := bif e.sparse.isEmpty then none else some 0 }

/-- the cursor after `archive_entry_sparse_next` -/
def sparseNextP (sp : List (Int × Int)) : Option Nat → Option Nat
  | none => none
  | some k => if k + 1 < sp.length then some (k + 1) else none
/-- the block `archive_entry_sparse_next` hands out -/
def sparseNextV (sp : List (Int × Int)) : Option Nat → Option (Int × Int)
  | none => none
  | some k => sp[k]?
/-- `archive_entry_sparse_next`: the block under the cursor (`none` = ARCHIVE_WARN, offset
and length zeroed), cursor moved to `->next` -/
def sparseNext (e : Entry) : Entry × Option (Int × Int) :=
  ({ e with sparse_p := sparseNextP e.sparse e.sparse_p }, sparseNextV e.sparse e.sparse_p)

/-! ### extended attributes -/

/-- `archive_entry_xattr_clear` (after the fix: also resets the cursor) -/
def xattrClear (e : Entry) : Entry := { e with xattrs := [], xattr_p := 0 }
/-- `archive_entry_xattr_add_entry`: inserted at the head -/
def xattrAdd (e : Entry) (name value : Bytes) : Entry := { e with xattrs := (name, value) :: e.xattrs }
def xattrCount (e : Entry) : Nat := e.xattrs.length
/-- `archive_entry_xattr_reset` -/
def xattrReset (e : Entry) : Entry × Nat := ({ e with xattr_p := e.xattrs.length }, e.xattrs.length)
/-- `archive_entry_xattr_next` -/
def xattrNext (e : Entry) : Entry × Option (Bytes × Bytes) :=
  ({ e with xattr_p := e.xattr_p - 1 },
   bif e.xattr_p == 0 then none else e.xattrs[e.xattrs.length - e.xattr_p]?)

/-! ### struct stat in and out -/

/-- What `archive_entry_stat` writes into the cached `struct stat`: every field
through the public getter, with the casts of the C (`gid_t`/`uid_t` 32 bit). -/
def statOf (e : Entry) : StatRec :=
  { atime := timeSec .atime e, atime_nsec := timeNsec .atime e,
    ctime := timeSec .ctime e, ctime_nsec := timeNsec .ctime e,
    mtime := timeSec .mtime e, mtime_nsec := timeNsec .mtime e,
    dev := dev e, gid := (gid e).toNat % two32, uid := (uid e).toNat % two32,
    ino := (ino e).toNat % two64, nlink := nlink e, rdev := rdev e,
    size := size e, mode := (mode e).toNat }

/-- `archive_entry_stat`: regenerate unless `stat_valid` (then `stat_valid = 1`). -/
def stat (e : Entry) : Entry × StatRec :=
  let s := bif e.stat_valid then e.stat_cache else statOf e
  ({ e with stat_cache := s, stat_valid := true }, s)

/-- The setter calls of `archive_entry_copy_stat` after the three `FIX_NS`
(`a`, `c`, `m` are the normalised access, change and modification times). -/
def copyStatCore (e : Entry) (st : StatRec) (a c m : Int × Int) : Entry :=
  let e := setTimeCore .atime e a.1 a.2.toNat
  let e := setTimeCore .ctime e c.1 c.2.toNat
  let e := setTimeCore .mtime e m.1 m.2.toNat
  let e := unsetTimeCore .birthtime e
  let e := setDev e st.dev
  let e := setGid e (st.gid % two32 : Nat)
  let e := setUid e (st.uid % two32 : Nat)
  let e := setIno e (u64ToI64 st.ino)
  let e := setNlink e st.nlink
  let e := setRdev e st.rdev
  let e := setSize e st.size
  setMode e (BitVec.ofNat 32 st.mode)

/-- `archive_entry_copy_stat` on Linux/glibc (the `st_atim.tv_nsec` branch, no
`st_birthtime`): set_atime, set_ctime, set_mtime, unset_birthtime, set_dev,
set_gid, set_uid, set_ino, set_nlink, set_rdev, set_size, set_mode.  Undefined
as soon as one of the three `FIX_NS` is. -/
def copyStat (e : Entry) (st : StatRec) : Option Entry :=
  match fixNs st.atime st.atime_nsec, fixNs st.ctime st.ctime_nsec, fixNs st.mtime st.mtime_nsec with
  | some a, some c, some m => some (copyStatCore e st a c m)
  | _, _, _ => none

/-! ### strmode -/

def S_ISUID : BitVec 32 := 0o4000#32
def S_ISGID : BitVec 32 := 0o2000#32
def S_ISVTX : BitVec 32 := 0o1000#32

/-- `archive_entry_strmode` (no ACL entries: the last character stays a blank) -/
def strmode (e : Entry) : List Char :=
  let m := mode e
  let ft := (filetype e).toNat
  let c0 :=
    if ft == AE_IFREG then '-' else if ft == AE_IFBLK then 'b' else if ft == AE_IFCHR then 'c'
    else if ft == AE_IFDIR then 'd' else if ft == AE_IFLNK then 'l' else if ft == AE_IFSOCK then 's'
    else if ft == AE_IFIFO then 'p' else if (hardlink e).isSome then 'h' else '?'
  let bit (k : BitVec 32) : Bool := (m &&& k) != 0
  let p (k : BitVec 32) (c : Char) : Char := if bit k then c else '-'
  let sx (special x : BitVec 32) (lo up : Char) (c : Char) : Char :=
    if bit special then (if bit x then lo else up) else c
  [c0,
   p 0o400#32 'r', p 0o200#32 'w', sx S_ISUID 0o100#32 's' 'S' (p 0o100#32 'x'),
   p 0o040#32 'r', p 0o020#32 'w', sx S_ISGID 0o010#32 's' 'S' (p 0o010#32 'x'),
   p 0o004#32 'r', p 0o002#32 'w', sx S_ISVTX 0o001#32 't' 'T' (p 0o001#32 'x'),
   ' ']

/-! ### clear, clone -/

/-- `archive_entry_clear`: everything released, `memset(entry, 0, …)`. -/
def clear (_ : Entry) : Entry := {}

/-- `archive_entry_clone` (after the fixes: sparse list copied verbatim, xattr
order kept).  The cached `struct stat` and the two cursors are not copied. -/
def clone (e : Entry) : Entry :=
  { e with stat_valid := false, stat_cache := {}, xattr_p := 0, sparse_p := none }

/-! ### operations as data -/

inductive Op
  | setTime (f : TimeField) (t ns : Int)
  | unsetTime (f : TimeField)
  | setSize (s : Int) | unsetSize
  | setDev (d : Nat) | setDevmajor (m : Nat) | setDevminor (m : Nat)
  | setRdev (d : Nat) | setRdevmajor (m : Nat) | setRdevminor (m : Nat)
  | setIno (i : Int) | setNlink (n : Nat) | setUid (u : Int) | setGid (g : Int)
  | setMode (m : BitVec 32) | setPerm (p : BitVec 32) | setFiletype (t : BitVec 32)
  | setStr (f : StrField) (v : Option Bytes)
  | setHardlink (v : Option Bytes) | copyHardlink (v : Option Bytes)
  | setSymlink (v : Option Bytes) | setLink (v : Option Bytes)
  | setLinkToHardlink | setLinkToSymlink
  | setFflags (s c : Nat) | copyFflagsText (s : Bytes) | fflagsText | setSymlinkType (t : Int)
  | setIsDataEncrypted (b : Bool) | setIsMetadataEncrypted (b : Bool)
  | sparseAdd (o l : Int) | sparseClear | sparseCount | sparseReset | sparseNext
  | xattrAdd (n v : Bytes) | xattrClear | xattrReset | xattrNext
  | copyMacMetadata (v : Option Bytes) | setDigest (t : Int) (d : Bytes)
  | copyStat (st : StatRec) | stat | clear
  deriving Repr

/-- The entry after one call (`none` = undefined behaviour in `FIX_NS`). -/
def step (e : Entry) : Op → Option Entry
  | .setTime f t ns => setTime f e t ns
  | .unsetTime f => unsetTime f e
  | .setSize s => some (setSize e s) | .unsetSize => some (unsetSize e)
  | .setDev d => some (setDev e d) | .setDevmajor m => some (setDevmajor e m)
  | .setDevminor m => some (setDevminor e m)
  | .setRdev d => some (setRdev e d) | .setRdevmajor m => some (setRdevmajor e m)
  | .setRdevminor m => some (setRdevminor e m)
  | .setIno i => some (setIno e i) | .setNlink n => some (setNlink e n)
  | .setUid u => some (setUid e u) | .setGid g => some (setGid e g)
  | .setMode m => some (setMode e m) | .setPerm p => some (setPerm e p)
  | .setFiletype t => some (setFiletype e t)
  | .setStr f v => some (setStr f e v)
  | .setHardlink v => some (setHardlink e v) | .copyHardlink v => some (copyHardlink e v)
  | .setSymlink v => some (setSymlink e v) | .setLink v => some (setLink e v)
  | .setLinkToHardlink => some (setLinkToHardlink e) | .setLinkToSymlink => some (setLinkToSymlink e)
  | .setFflags s c => some (setFflags e s c) | .copyFflagsText s => some (copyFflagsText e s)
  | .fflagsText => some (fflagsText e).1 | .setSymlinkType t => some (setSymlinkType e t)
  | .setIsDataEncrypted b => some (setIsDataEncrypted e b)
  | .setIsMetadataEncrypted b => some (setIsMetadataEncrypted e b)
  | .sparseAdd o l => some (sparseAdd e o l) | .sparseClear => some (sparseClear e)
  | .sparseCount => some (sparseCount e).1 | .sparseReset => some (sparseReset e).1
  | .sparseNext => some (sparseNext e).1
  | .xattrAdd n v => some (xattrAdd e n v) | .xattrClear => some (xattrClear e)
  | .xattrReset => some (xattrReset e).1 | .xattrNext => some (xattrNext e).1
  | .copyMacMetadata v => some (copyMacMetadata e v)
  | .setDigest t d => some (setDigest e t d).1
  | .copyStat st => copyStat e st
  | .stat => some (stat e).1
  | .clear => some (clear e)

/-- A whole history; `none` as soon as one call is undefined. -/
def run (e : Entry) : List Op → Option Entry
  | [] => some e
  | op :: ops => match step e op with
    | none => none
    | some e' => run e' ops

/-! ### coverage of the public API (one constructor of `Api` per function in archive_entry.h) -/

inductive Coverage
  /-- modelled here; the definition that models it quotes the C name in its doc comment -/
  | modelled
  /-- deliberately outside this model -/
  | leftOut (why : String)
  deriving Repr

/-- Exhaustive on purpose (no wildcard): a function added to or removed from
archive_entry.h changes the generated `Api` type and this definition stops compiling. -/
def Api.coverage : Api → Coverage
  | .archive_entry_clear => .modelled
  | .archive_entry_clone => .modelled
  | .archive_entry_new => .modelled
  | .archive_entry_new2 => .modelled
  | .archive_entry_free => .modelled
  | .archive_entry_atime => .modelled
  | .archive_entry_atime_nsec => .modelled
  | .archive_entry_atime_is_set => .modelled
  | .archive_entry_birthtime => .modelled
  | .archive_entry_birthtime_nsec => .modelled
  | .archive_entry_birthtime_is_set => .modelled
  | .archive_entry_ctime => .modelled
  | .archive_entry_ctime_nsec => .modelled
  | .archive_entry_ctime_is_set => .modelled
  | .archive_entry_mtime => .modelled
  | .archive_entry_mtime_nsec => .modelled
  | .archive_entry_mtime_is_set => .modelled
  | .archive_entry_set_atime => .modelled
  | .archive_entry_set_birthtime => .modelled
  | .archive_entry_set_ctime => .modelled
  | .archive_entry_set_mtime => .modelled
  | .archive_entry_unset_atime => .modelled
  | .archive_entry_unset_birthtime => .modelled
  | .archive_entry_unset_ctime => .modelled
  | .archive_entry_unset_mtime => .modelled
  | .archive_entry_dev => .modelled
  | .archive_entry_dev_is_set => .modelled
  | .archive_entry_devmajor => .modelled
  | .archive_entry_devminor => .modelled
  | .archive_entry_set_dev => .modelled
  | .archive_entry_set_devmajor => .modelled
  | .archive_entry_set_devminor => .modelled
  | .archive_entry_rdev => .modelled
  | .archive_entry_rdev_is_set => .modelled
  | .archive_entry_rdevmajor => .modelled
  | .archive_entry_rdevminor => .modelled
  | .archive_entry_set_rdev => .modelled
  | .archive_entry_set_rdevmajor => .modelled
  | .archive_entry_set_rdevminor => .modelled
  | .archive_entry_filetype => .modelled
  | .archive_entry_filetype_is_set => .modelled
  | .archive_entry_set_filetype => .modelled
  | .archive_entry_mode => .modelled
  | .archive_entry_set_mode => .modelled
  | .archive_entry_perm => .modelled
  | .archive_entry_perm_is_set => .modelled
  | .archive_entry_set_perm => .modelled
  | .archive_entry_strmode => .modelled
  | .archive_entry_fflags => .modelled
  | .archive_entry_set_fflags => .modelled
  | .archive_entry_gid => .modelled
  | .archive_entry_gid_is_set => .modelled
  | .archive_entry_set_gid => .modelled
  | .archive_entry_uid => .modelled
  | .archive_entry_uid_is_set => .modelled
  | .archive_entry_set_uid => .modelled
  | .archive_entry_ino => .modelled
  | .archive_entry_ino64 => .modelled
  | .archive_entry_ino_is_set => .modelled
  | .archive_entry_set_ino => .modelled
  | .archive_entry_set_ino64 => .modelled
  | .archive_entry_nlink => .modelled
  | .archive_entry_set_nlink => .modelled
  | .archive_entry_size => .modelled
  | .archive_entry_size_is_set => .modelled
  | .archive_entry_set_size => .modelled
  | .archive_entry_unset_size => .modelled
  | .archive_entry_gname => .modelled
  | .archive_entry_gname_utf8 => .modelled
  | .archive_entry_gname_w => .modelled
  | .archive_entry_set_gname => .modelled
  | .archive_entry_set_gname_utf8 => .modelled
  | .archive_entry_copy_gname => .modelled
  | .archive_entry_copy_gname_w => .modelled
  | .archive_entry_update_gname_utf8 => .modelled
  | .archive_entry_uname => .modelled
  | .archive_entry_uname_utf8 => .modelled
  | .archive_entry_uname_w => .modelled
  | .archive_entry_set_uname => .modelled
  | .archive_entry_set_uname_utf8 => .modelled
  | .archive_entry_copy_uname => .modelled
  | .archive_entry_copy_uname_w => .modelled
  | .archive_entry_update_uname_utf8 => .modelled
  | .archive_entry_pathname => .modelled
  | .archive_entry_pathname_utf8 => .modelled
  | .archive_entry_pathname_w => .modelled
  | .archive_entry_set_pathname => .modelled
  | .archive_entry_set_pathname_utf8 => .modelled
  | .archive_entry_copy_pathname => .modelled
  | .archive_entry_copy_pathname_w => .modelled
  | .archive_entry_update_pathname_utf8 => .modelled
  | .archive_entry_sourcepath => .modelled
  | .archive_entry_sourcepath_w => .modelled
  | .archive_entry_copy_sourcepath => .modelled
  | .archive_entry_copy_sourcepath_w => .modelled
  | .archive_entry_hardlink => .modelled
  | .archive_entry_hardlink_utf8 => .modelled
  | .archive_entry_hardlink_w => .modelled
  | .archive_entry_hardlink_is_set => .modelled
  | .archive_entry_set_hardlink => .modelled
  | .archive_entry_set_hardlink_utf8 => .modelled
  | .archive_entry_copy_hardlink => .modelled
  | .archive_entry_copy_hardlink_w => .modelled
  | .archive_entry_update_hardlink_utf8 => .modelled
  | .archive_entry_symlink => .modelled
  | .archive_entry_symlink_utf8 => .modelled
  | .archive_entry_symlink_w => .modelled
  | .archive_entry_set_symlink => .modelled
  | .archive_entry_set_symlink_utf8 => .modelled
  | .archive_entry_copy_symlink => .modelled
  | .archive_entry_copy_symlink_w => .modelled
  | .archive_entry_update_symlink_utf8 => .modelled
  | .archive_entry_set_link => .modelled
  | .archive_entry_set_link_utf8 => .modelled
  | .archive_entry_copy_link => .modelled
  | .archive_entry_copy_link_w => .modelled
  | .archive_entry_update_link_utf8 => .modelled
  | .archive_entry_set_link_to_hardlink => .modelled
  | .archive_entry_set_link_to_symlink => .modelled
  | .archive_entry_symlink_type => .modelled
  | .archive_entry_set_symlink_type => .modelled
  | .archive_entry_is_data_encrypted => .modelled
  | .archive_entry_is_metadata_encrypted => .modelled
  | .archive_entry_is_encrypted => .modelled
  | .archive_entry_set_is_data_encrypted => .modelled
  | .archive_entry_set_is_metadata_encrypted => .modelled
  | .archive_entry_mac_metadata => .modelled
  | .archive_entry_copy_mac_metadata => .modelled
  | .archive_entry_digest => .modelled
  | .archive_entry_set_digest => .modelled
  | .archive_entry_sparse_add_entry => .modelled
  | .archive_entry_sparse_clear => .modelled
  | .archive_entry_sparse_count => .modelled
  | .archive_entry_sparse_next => .modelled
  | .archive_entry_sparse_reset => .modelled
  | .archive_entry_xattr_add_entry => .modelled
  | .archive_entry_xattr_clear => .modelled
  | .archive_entry_xattr_count => .modelled
  | .archive_entry_xattr_next => .modelled
  | .archive_entry_xattr_reset => .modelled
  | .archive_entry_stat => .modelled
  | .archive_entry_copy_stat => .modelled
  | .archive_entry_acl => .leftOut "ACL list: property C15"
  | .archive_entry_acl_add_entry => .leftOut "ACL list: property C15"
  | .archive_entry_acl_add_entry_w => .leftOut "ACL list: property C15"
  | .archive_entry_acl_clear => .leftOut "ACL list: property C15"
  | .archive_entry_acl_count => .leftOut "ACL list: property C15"
  | .archive_entry_acl_from_text => .leftOut "ACL list: property C15"
  | .archive_entry_acl_from_text_w => .leftOut "ACL list: property C15"
  | .archive_entry_acl_next => .leftOut "ACL list: property C15"
  | .archive_entry_acl_reset => .leftOut "ACL list: property C15"
  | .archive_entry_acl_text => .leftOut "ACL list: property C15"
  | .archive_entry_acl_text_w => .leftOut "ACL list: property C15"
  | .archive_entry_acl_to_text => .leftOut "ACL list: property C15"
  | .archive_entry_acl_to_text_w => .leftOut "ACL list: property C15"
  | .archive_entry_acl_types => .leftOut "ACL list: property C15"
  | .archive_entry_copy_bhfi => .leftOut "Windows only"
  | .archive_entry_copy_fflags_text => .modelled
  | .archive_entry_copy_fflags_text_len => .modelled
  | .archive_entry_copy_fflags_text_w => .modelled
  | .archive_entry_fflags_text => .modelled
  | .archive_entry_linkify => .leftOut "link resolver: property C17"
  | .archive_entry_linkresolver_free => .leftOut "link resolver: property C17"
  | .archive_entry_linkresolver_new => .leftOut "link resolver: property C17"
  | .archive_entry_linkresolver_set_strategy => .leftOut "link resolver: property C17"
  | .archive_entry_partial_links => .leftOut "link resolver: property C17"

end LA.Entry
