/-
Model for property C12: disk -> archive -> disk reproduces the tree.

* `Node`/`Forest`: a finite directory tree (children in `readdir` order).
* `capture`: the walk of libarchive/archive_read_disk_posix.c as a client that
  calls `archive_read_disk_descend` on every directory sees it (`tree_next`,
  `tree_dir_next_posix`, `tree_push`, `tree_descent`, `tree_ascend`).
* `linkify`: the C17 model of archive_entry_link_resolver.c, driven the way
  tar/write.c `write_hierarchy` / cpio/cpio.c `file_to_archive` drive it.
* `FS`: an abstract POSIX tree (the kernel; an assumption, see DESIGN 4.6) with the
  two behaviours that make deferred directory fix-ups necessary: creating an
  object touches the parent's mtime, and a non-root user needs search permission
  on every directory on the way and write permission on the parent.
* `restore`: libarchive/archive_write_disk_posix.c `_archive_write_disk_header`
  (`restore_entry`, `create_filesystem_object`), `_archive_write_disk_finish_entry`
  and `_archive_write_disk_close` (`sort_dir_list`, fix-up loop).

Core Lean only (the driver links this file).
-/
import LA.Model.Lnk
import LA.Gen.DiskModes
namespace LA.Tree

/-- One path component: its bytes (never 0 or '/'). -/
abbrev Name := List Nat
/-- Components below the root of the captured / restored tree; `[]` is the root ("."). -/
abbrev Path := List Name

structure Time where
  sec : Int
  nsec : Nat
  deriving DecidableEq, Repr

/-- A regular file's bytes: logical size, the data extents (offset, length) and a
seed that identifies the bytes inside the extents; everything else reads as zeros. -/
structure Content where
  size : Nat
  seed : Nat
  segs : List (Nat × Nat)
  deriving DecidableEq, Repr

inductive Payload
  | none
  | data (c : Content)
  | target (t : List Nat)
  deriving DecidableEq, Repr

structure Meta where
  mode : Nat          -- permission bits, 07777
  mtime : Time
  deriving DecidableEq, Repr

/-- A non-directory object.  Two leaves of a tree with the same `ino` are the same
inode (a hard-link group, possibly spanning directories). -/
structure Inode where
  ino : Nat
  nlink : Nat
  ftype : Lnk.FType
  md : Meta
  payload : Payload
  deriving DecidableEq, Repr

mutual
inductive Node
  | dir (m : Meta) (cs : Forest)
  | leaf (i : Inode)
inductive Forest
  | nil
  | cons (name : Name) (x : Node) (rest : Forest)
end

/-- What `archive_read_next_header2` hands to the client, what the resolver may
change (`hardlink`, `sizeSet`), and what `archive_write_header` receives. -/
structure Entry where
  path : Path
  ftype : Lnk.FType
  mode : Nat
  mtime : Time
  ino : Nat
  nlink : Nat
  payload : Payload := .none
  size : Nat := 0
  sizeSet : Bool := true
  hardlink : Option Path := none
  deriving DecidableEq, Repr

def Payload.size : Payload → Nat
  | .data c => c.size
  | _ => 0

/-- `next_entry` → `archive_entry_copy_stat` + `archive_read_disk_entry_from_file`
for the object `x` found at `p`.  (tar/write.c sets the size of non-regular files
to 0 before archiving.) -/
def Node.entry (p : Path) : Node → Entry
  | .dir m _ => { path := p, ftype := .dir, mode := m.mode, mtime := m.mtime, ino := 0, nlink := 2 }
  | .leaf i => { path := p, ftype := i.ftype, mode := i.md.mode, mtime := i.md.mtime, ino := i.ino,
                 nlink := i.nlink, payload := i.payload, size := i.payload.size }

/-
The walker keeps a stack of directories still to be visited.  While a directory
is open (`t->d`), `tree_next` returns its children one after the other
(`tree_dir_next_posix`, TREE_REGULAR); `archive_read_disk_descend` only *pushes*
a child directory (`tree_push`, flags needsDescent|needsOpen|needsAscent).  When
`readdir` is exhausted the top of the stack — the directory pushed last — is
entered (`tree_descent`), read, and left again (`tree_ascend`, `tree_pop`).  Hence:
all children of a directory first, in readdir order, then the sub-directories'
contents, last pushed first.
-/
mutual
/-- The `readdir` loop over one directory whose path is `p`. -/
def Forest.level (p : Path) : Forest → List Entry
  | .nil => []
  | .cons n x rest => x.entry (p ++ [n]) :: rest.level p
/-- The contents of the directories pushed while reading this level, in stack order. -/
def Forest.sub (p : Path) : Forest → List Entry
  | .nil => []
  | .cons n x rest => rest.sub p ++ x.inside (p ++ [n])
/-- Everything under (not including) the object `x` at `p`. -/
def Node.inside (p : Path) : Node → List Entry
  | .dir _ cs => cs.level p ++ cs.sub p
  | .leaf _ => []
end

/-- `archive_read_disk_open(".")` followed by `next_header2` + `descend` until EOF. -/
def capture (t : Node) : List Entry := t.entry [] :: t.inside []

/- The objects of a tree in plain depth-first pre-order (the reference enumeration
"each object of the tree" for `capture_visits_once`). -/
mutual
def Forest.objects (p : Path) : Forest → List Entry
  | .nil => []
  | .cons n x rest => x.objects (p ++ [n]) ++ rest.objects p
def Node.objects (p : Path) : Node → List Entry
  | .dir m cs => (Node.dir m cs).entry p :: cs.objects p
  | .leaf i => [(Node.leaf i).entry p]
end

def Forest.names : Forest → List Name
  | .nil => []
  | .cons n _ rest => n :: rest.names

def validName (n : Name) : Bool :=
  n != [] && n != [46] && n != [46, 46] && !n.contains 47 && !n.contains 0

/- Sibling names are valid and distinct, at every level. -/
mutual
def Forest.namesOk : Forest → Bool
  | .nil => true
  | .cons n x rest => validName n && !rest.names.contains n && x.namesOk && rest.namesOk
def Node.namesOk : Node → Bool
  | .dir _ cs => cs.namesOk
  | .leaf _ => true
end

/-! ### Link resolver (C17 model) -/

def Entry.toEnt (i : Nat) (e : Entry) : Lnk.Ent :=
  { tag := i, dev := 0, ino := e.ino, nlink := e.nlink, ftype := e.ftype, sizeSet := e.sizeSet,
    hardlink := none }

/-- Read back an entry the resolver returned: it is input number `x.tag`, with the
`hardlink` / size-is-set fields the resolver gave it. -/
def fromEnt (es : List Entry) (x : Lnk.Ent) : Option Entry :=
  match es[x.tag]? with
  | none => none
  | some e =>
    some { e with sizeSet := x.sizeSet,
                  hardlink := match x.hardlink with
                    | none => none
                    | some t => (es[t]?).map (·.path) }

def pushOps (es : List Entry) : List Lnk.Op :=
  (List.zipIdx es).map fun (e, i) => Lnk.Op.push (e.toEnt i)

/-- tar/write.c `write_hierarchy` (every entry through `archive_entry_linkify`,
whatever comes back is written) followed by the draining loop at the end of
`write_archive`. -/
def linkify (st : Lnk.Strategy) (es : List Entry) : List Entry :=
  let r := Lnk.run { strategy := st } (pushOps es)
  let d := Lnk.drainLoop r.1 (List.replicate es.length 0)
  (r.2 ++ d.2).filterMap (fromEnt es)

/-- Path as the C string `archive_entry_pathname` ("." for the root, components joined by '/'). -/
def joined (p : Path) : List Nat := 46 :: p.flatMap fun c => 47 :: c

/-! ### cpio archives: link handling of writer and reader (spec level)

The cpio writers store no link name and a body only for an entry whose size is set
and positive; `record_hardlink` in archive_read_support_format_cpio.c turns every
entry after the first with the same inode number and `nlink > 1` into a hard link
to the first one's name (the body, if any, stays with the entry). -/

def emptyContent : Content := { size := 0, seed := 0, segs := [] }

/-- What the cpio writer keeps of an entry the resolver handed over. -/
def Entry.cpioWritten (e : Entry) : Entry :=
  let sz := if e.sizeSet && e.ftype == .reg then e.size else 0
  { e with hardlink := none, sizeSet := true, size := sz,
           payload := match e.payload with
             | .data c => if sz == 0 then .data emptyContent else .data c
             -- an entry is a hard link or a symlink, never both: archive_entry_copy_hardlink (called by
             -- archive_entry_linkify) drops the symlink target, archive_entry_symlink() is then NULL and
             -- the writer stores a symlink with an empty body
             | .target t => match e.hardlink with
               | some _ => .target []
               | none => .target t
             | x => x }

/-- `record_hardlink` over the archive, `tbl` = (ino, first name, links left). -/
def cpioReadLinks : List (Nat × Path × Nat) → List Entry → List Entry
  | _, [] => []
  | tbl, e :: rest =>
    -- (a directory is recorded as well, but its inode number is never seen again; the model gives
    -- directories no inode numbers, so they are skipped here)
    if e.nlink ≤ 1 || e.ftype == .dir then e :: cpioReadLinks tbl rest else
    match tbl.find? (fun r => r.1 == e.ino) with
    | some (_, name, left) =>
      let tbl' := if left ≤ 1 then tbl.filter (fun r => r.1 != e.ino)
                  else tbl.map fun r => if r.1 == e.ino then (r.1, r.2.1, left - 1) else r
      { e with hardlink := some name } :: cpioReadLinks tbl' rest
    | none => e :: cpioReadLinks ((e.ino, e.path, e.nlink - 1) :: tbl) rest

/-- Disk reader -> resolver (cpio strategy) -> cpio writer -> cpio reader. -/
def cpioArchive (st : Lnk.Strategy) (es : List Entry) : List Entry :=
  cpioReadLinks [] ((linkify st es).map Entry.cpioWritten)

/-- xar writer (archive_write_set_format_xar.c), link handling: only a regular file can be
written as `<type link="...">`.  A later name of a fifo keeps its own type (a separate fifo).
A later name of a symlink has lost its target (`archive_entry_copy_hardlink` in
`archive_entry_linkify` clears it): it is written as a symlink without `<link>`, read back as
a symlink entry without target, and `create_filesystem_object` then falls through to the
regular-file case: an empty regular file. -/
def Entry.xarWritten (e : Entry) : Entry :=
  match e.hardlink with
  | none => e
  | some _ =>
    if e.ftype == .reg then e else
    match e.payload with
    | .target _ => { e with hardlink := none, sizeSet := true, ftype := .reg, payload := .data emptyContent, size := 0 }
    | _ => { e with hardlink := none, sizeSet := true }

def xarArchive (es : List Entry) : List Entry := (linkify .tar es).map Entry.xarWritten

/-- tar/read.c `read_archive` in list mode prints `archive_entry_pathname` of every header. -/
def listing (es : List Entry) : List Path := es.map (·.path)

/-! ### The file system (kernel model) -/

inductive Kind
  | dir
  | reg (c : Content)
  | lnk (t : List Nat)
  | fifo
  | other
  deriving DecidableEq, Repr

/-- `mtime = none`: set by the kernel clock (some time during extraction), i.e.
not a value that came from the archive. -/
structure FNode where
  ino : Nat
  kind : Kind
  mode : Nat
  mtime : Option Time
  deriving DecidableEq, Repr

abbrev FS := List (Path × FNode)

def FS.lookup (fs : FS) (p : Path) : Option FNode :=
  match fs.find? (fun x => x.1 == p) with
  | some x => some x.2
  | none => none

def FNode.searchableDir (root : Bool) (n : FNode) : Bool :=
  n.kind == .dir && (root || n.mode &&& 0o100 != 0)

/-- Path resolution up to (not including) the last component: every proper prefix
of `p` is a directory the caller may search. -/
def FS.reach (root : Bool) (fs : FS) (p : Path) : Bool :=
  (List.range p.length).all fun k =>
    match fs.lookup (p.take k) with
    | some n => n.searchableDir root
    | none => false

/-- May the caller create the name `p`?  (`mkdir`, `open(O_CREAT|O_EXCL)`, `symlink`,
`mkfifo`, `linkat`: the name is free, the parent is reachable and writable.) -/
def FS.canCreate (root : Bool) (fs : FS) (p : Path) : Bool :=
  p != [] && (fs.lookup p).isNone && fs.reach root p &&
  match fs.lookup p.dropLast with
  | some d => d.kind == .dir && (root || d.mode &&& 0o200 != 0)
  | none => false

/-- Adding or removing a name updates the directory's mtime. -/
def FS.touch (fs : FS) (d : Path) : FS :=
  fs.map fun x => if x.1 == d then (x.1, { x.2 with mtime := none }) else x

def FS.add (fs : FS) (p : Path) (n : FNode) : FS := fs.touch p.dropLast ++ [(p, n)]

/-- `fchmod` / `futimens` / `write` act on the inode: every name of it sees the change. -/
def FS.update (fs : FS) (ino : Nat) (f : FNode → FNode) : FS :=
  fs.map fun x => if x.2.ino == ino then (x.1, f x.2) else x

/-! ### archive_write_disk -/

structure Opts where
  root : Bool := true        -- a->user_uid == 0
  perm : Bool := true        -- ARCHIVE_EXTRACT_PERM
  time : Bool := true        -- ARCHIVE_EXTRACT_TIME
  umask : Nat := 0o022
  sameOwner : Bool := true   -- restoring user / group == the entry's uid / gid (SUID / SGID checks)
  deriving Repr

/-- `struct fixup_entry`. -/
structure Fixup where
  path : Path
  mode : Nat
  mtime : Time
  doMode : Bool              -- TODO_MODE_BASE
  doTimes : Bool             -- TODO_TIMES
  deriving DecidableEq, Repr

structure WD where
  fs : FS
  fixups : List Fixup := []  -- a->fixup_list (new_fixup prepends)
  next : Nat := 1            -- next unused inode number
  deriving Repr

inductive St | ok | failed
  deriving DecidableEq, Repr

def andNot (a b : Nat) : Nat := a ^^^ (a &&& b)

/-- `MINIMUM_DIR_MODE`, `MAXIMUM_DIR_MODE` (extracted from archive_write_disk_posix.c). -/
def minimumDirMode : Nat := LA.Gen.DiskModes.minimumDirMode
def maximumDirMode : Nat := LA.Gen.DiskModes.maximumDirMode

/-- `a->mode` after `_archive_write_disk_header`'s option handling (permission bits). -/
def Opts.entryMode (o : Opts) (mode : Nat) : Nat :=
  if o.perm then mode else andNot (mode &&& 0o777) o.umask

/-- `set_mode` for a non-directory: SUID / SGID survive only if the owner / group check passes. -/
def Opts.finalFileMode (o : Opts) (amode : Nat) : Nat :=
  if o.sameOwner then amode else andNot amode 0o6000

def kindOf (e : Entry) : Kind :=
  match e.ftype, e.payload with
  | .dir, _ => .dir
  | .reg, .data c => .reg c
  | .reg, _ => .reg { size := 0, seed := 0, segs := [] }
  | .lnk, .target t => .lnk t
  | .lnk, _ => .lnk []
  | .fifo, _ => .fifo
  | _, _ => .other

/-- One entry: `_archive_write_disk_header` → `restore_entry` → `create_filesystem_object`,
data, `_archive_write_disk_finish_entry`.  Branches that overwrite an existing
non-directory (unlink / rmdir and retry) are not modelled: they are reported as
`failed` (they cannot occur when restoring a captured tree into an empty directory). -/
def restoreEntry (o : Opts) (w : WD) (e : Entry) : WD × St :=
  let amode := o.entryMode e.mode
  match e.hardlink with
  | some q =>
    -- create_filesystem_object: linkat(linkname, a->name)
    match w.fs.lookup q with
    | none => (w, .failed)              -- "Hard-link target does not exist"
    | some n =>
      if n.kind == .dir || !w.fs.canCreate o.root e.path || !w.fs.reach o.root q then (w, .failed) else
      let fs1 := w.fs.add e.path n
      if !(e.sizeSet && e.size > 0) then
        -- a->filesize <= 0: a->todo = 0, the link is not authoritative for metadata
        ({ w with fs := fs1 }, .ok)
      else
        -- new cpio / pax: the link entry carries the body; open(O_TRUNC), write, then metadata
        match n.kind, e.payload with
        | .reg _, .data c =>
          -- open(a->name, O_WRONLY | O_TRUNC): a non-root caller needs the owner write bit
          if !o.root && n.mode &&& 0o200 == 0 then ({ w with fs := fs1 }, .failed) else
          let fs2 := fs1.update n.ino fun x =>
            { x with kind := .reg c, mode := o.finalFileMode amode,
                     mtime := if o.time then some e.mtime else none }
          ({ w with fs := fs2 }, .ok)
        | _, _ => ({ w with fs := fs1 }, .ok)
  | none =>
    match e.ftype with
    | .dir =>
      match w.fs.lookup e.path with
      | some n =>
        if n.kind != .dir || !w.fs.reach o.root e.path then (w, .failed) else
        -- EEXIST, "a dir in the way of a dir": nothing is created; the mode is
        -- deferred when it differs and PERM was asked for, the times are deferred
        -- as for a new directory (set_mode does nothing for directories)
        let doMode := amode != n.mode && o.perm
        let fx := if doMode || o.time then
            [{ path := e.path, mode := amode, mtime := e.mtime, doMode := doMode, doTimes := o.time : Fixup }]
          else []
        ({ w with fixups := fx ++ w.fixups }, .ok)
      | none =>
        if !w.fs.canCreate o.root e.path then (w, .failed) else
        let m := andNot (amode &&& 0o777) o.umask
        let m' := (m ||| minimumDirMode) &&& maximumDirMode
        let fs1 := w.fs.add e.path { ino := w.next, kind := .dir, mode := m', mtime := none }
        let doMode := m' != amode || o.perm
        let fx := if doMode || o.time then
            [{ path := e.path, mode := amode, mtime := e.mtime, doMode := doMode, doTimes := o.time : Fixup }]
          else []
        ({ fs := fs1, fixups := fx ++ w.fixups, next := w.next + 1 }, .ok)
    | _ =>
      if (w.fs.lookup e.path).isSome || !w.fs.canCreate o.root e.path then (w, .failed) else
      let k := kindOf e
      -- symlink(2) refuses an empty target (ENOENT)
      if k == .lnk [] then (w, .failed) else
      -- symlink(2) makes 0777 and Linux has no lchmod; everything else ends with set_mode(a->mode)
      let mode := match k with
        | .lnk _ => 0o777
        | _ => o.finalFileMode amode
      let fs1 := w.fs.add e.path
        { ino := w.next, kind := k, mode := mode, mtime := if o.time then some e.mtime else none }
      ({ w with fs := fs1, next := w.next + 1 }, .ok)

/-- `strcmp(a->name, b->name) > 0` on the C strings. -/
def nameGt (a b : Fixup) : Bool := joined b.path < joined a.path

/-- Step 3 of `sort_dir_list`: "always put the later element on the list first". -/
def mergeFix : List Fixup → List Fixup → List Fixup
  | [], b => b
  | a, [] => a
  | x :: a, y :: b =>
    if nameGt x y then x :: mergeFix a (y :: b) else y :: mergeFix (x :: a) b

/-- `sort_dir_list`: split at the mid-point (`t` advances once while `a` advances
twice, so the first half gets ⌈n/2⌉ items), sort both halves, merge. -/
def sortDir (l : List Fixup) : List Fixup :=
  if h : l.length < 2 then l else
    let k := (l.length + 1) / 2
    mergeFix (sortDir (l.take k)) (sortDir (l.drop k))
termination_by l.length
decreasing_by
  all_goals simp only [List.length_take, List.length_drop]
  all_goals omega

/-- One turn of the fix-up loop of `_archive_write_disk_close`: `open(O_NOFOLLOW|O_DIRECTORY)`
(or `lstat`) must find a directory, then `set_times`, then `fchmod`. -/
def applyFixup (o : Opts) (fs : FS) (f : Fixup) : FS :=
  match fs.lookup f.path with
  | some n =>
    if n.kind == .dir && fs.reach o.root f.path then
      let fs1 := if f.doTimes then fs.update n.ino fun x => { x with mtime := some f.mtime } else fs
      if f.doMode then fs1.update n.ino fun x => { x with mode := f.mode &&& 0o7777 } else fs1
    else fs
  | none => fs

def closeDisk (o : Opts) (w : WD) : FS := (sortDir w.fixups).foldl (applyFixup o) w.fs

def restoreAll (o : Opts) : WD → List Entry → WD × List St
  | w, [] => (w, [])
  | w, e :: es =>
    let (w1, s) := restoreEntry o w e
    let (w2, ss) := restoreAll o w1 es
    (w2, s :: ss)

/-- The directory extraction starts in: it exists, is empty and belongs to the caller. -/
def emptyDst (mode : Nat) : WD := { fs := [([], { ino := 0, kind := .dir, mode := mode, mtime := none })] }

/-- `archive_write_disk_new`, header/data/finish_entry for every entry, `archive_write_close`. -/
def restore (o : Opts) (dstMode : Nat) (es : List Entry) : FS × List St :=
  let r := restoreAll o (emptyDst dstMode) es
  (closeDisk o r.1, r.2)

/-- What `lstat` / `readlink` / `read` report for the objects of the tree itself. -/
def Entry.fnode (e : Entry) : FNode :=
  { ino := e.ino, kind := kindOf e, mode := e.mode, mtime := some e.mtime }

def toFS (t : Node) : FS := (capture t).map fun e => (e.path, e.fnode)

end LA.Tree
