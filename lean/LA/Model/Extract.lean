/-
Model of the POSIX disk writer (libarchive/archive_write_disk_posix.c) as far
as property C04 needs it: `check_symlinks_fsobj`, `create_dir`,
`create_parent_dir`, `create_filesystem_object`, `restore_entry`,
`_archive_write_disk_header`, `archive_write_data`,
`_archive_write_disk_finish_entry`, `sort_dir_list` and the fix-up loop of
`_archive_write_disk_close`.

Every function is a *program* (`Prog`): a tree of system calls (`LA.FS.Sys`)
whose continuation receives what the call returned.  `Prog.run` executes it on
a process over the abstract file tree.  Control flow, errno tests and flag tests
mirror the C.

Abstractions (recorded in tools/props/C04.py as well):
* `edit_deep_directories` is modelled (`editLoop`); the confinement theorems carry the
  hypothesis that entry pathnames are shorter than PATH_MAX, the working-directory
  theorem does not.
* Ownership, ACLs, xattrs, file flags, mac metadata, sparse writes, HFS
  compression, set-id/sticky bits and NO_OVERWRITE_NEWER / NO_AUTODIR /
  CLEAR_NOCHANGE_FFLAGS are outside the option sets of the property.
* `archive_write_data` is called once per entry with exactly `size` bytes, so
  the pad/truncate step of finish_entry does nothing.
* `umask(a->user_umask = umask(0))` is one atomic `getUmask`.
* la_mktemp's random suffix is the literal ".XXXXXX".
* The error text and errno stored in the archive object are not kept.
-/
import LA.Model.FS
import LA.Gen.DiskWriter
import LA.Lemmas.PathCleanFast   -- proved `@[csimp]` speed-up of `cleanup` for the compiled driver (no Mathlib)
namespace LA.Xtr
open LA.FS LA.PathClean
open LA.Gen.DiskWriter

/-! ### programs over system calls -/

inductive Prog (α : Type) : Type
  | ret : α → Prog α
  | call : Sys → (R → Prog α) → Prog α

def Prog.bind {α β} : Prog α → (α → Prog β) → Prog β
  | .ret a, f => f a
  | .call s k, f => .call s (fun r => (k r).bind f)

instance : Monad Prog where
  pure := .ret
  bind := Prog.bind

def sys (s : Sys) : Prog R := .call s .ret

def Prog.run {α} : Prog α → Proc → α × Proc
  | .ret a, pr => (a, pr)
  | .call s k, pr => let (r, pr') := exec s pr; (k r).run pr'

/-! ### statuses, flags, entries -/

/-- ARCHIVE_OK > ARCHIVE_WARN > ARCHIVE_FAILED > ARCHIVE_FATAL. -/
inductive St | ok | warn | failed | fatal
  deriving DecidableEq, Repr

def St.rank : St → Nat | .ok => 3 | .warn => 2 | .failed => 1 | .fatal => 0
/-- `if (r2 < ret) ret = r2;` -/
def St.worst (a b : St) : St := if b.rank < a.rank then b else a
def St.str : St → String | .ok => "ok" | .warn => "warn" | .failed => "failed" | .fatal => "fatal"

structure XFlags where
  unlink : Bool := false
  noOverwrite : Bool := false
  safeWrites : Bool := false
  perm : Bool := false
  time : Bool := false
  secureSymlinks : Bool := true
  nodotdot : Bool := true
  noabs : Bool := true
  deriving DecidableEq, Repr

def XFlags.bits (f : XFlags) : Nat :=
  (if f.unlink then xUnlink else 0) + (if f.noOverwrite then xNoOverwrite else 0) +
  (if f.safeWrites then xSafeWrites else 0) + (if f.perm then xPerm else 0) + (if f.time then xTime else 0) +
  (if f.secureSymlinks then xSecureSymlinks else 0) + (if f.nodotdot then xSecureNodotdot else 0) +
  (if f.noabs then xSecureNoabsolutepaths else 0)

def XFlags.clean (f : XFlags) : Flags := { nodotdot := f.nodotdot, noabs := f.noabs }

inductive EKind | file | dir | symlink | hardlink | fifo
  deriving DecidableEq, Repr

/-- What the writer reads from an `archive_entry`.  For `symlink` / `hardlink`
`link` is the target; `mode` are the permission bits (no set-id / sticky). -/
structure Entry where
  kind : EKind
  path : List Nat
  link : List Nat := []
  mode : Nat := 420
  mtime : Int := 1
  data : List Nat := []
  deriving DecidableEq, Repr

/-- `struct fixup_entry` (the fields used here). -/
structure Fixup where
  name : List Nat
  filetype : Option Kind      -- `fe->filetype`; `none` is 0 (fix-ups queued by create_dir)
  doMode : Bool := false      -- TODO_MODE_BASE
  doTimes : Bool := false     -- TODO_TIMES
  mode : Nat := 0
  mtime : Int := 0
  deriving DecidableEq, Repr

def errOf : R → Option Err
  | .err e => some e
  | _ => none

def lnot12 (m : Nat) : Nat := 4095 ^^^ (m &&& 4095)

/-! ### check_symlinks_fsobj -/

/-- `while (*tail == '/') ++tail;` -/
def skipSlashes (p : List Nat) (i : Nat) : Nat :=
  if _h : rd p i = some SLASH then skipSlashes p (i + 1) else i
termination_by p.length + 1 - i
decreasing_by
  simp only [rd] at _h
  split at _h
  · omega
  · split at _h <;> simp at _h

/-- `while (*tail != '\0' && *tail != '/') ++tail;` -/
def skipElem (p : List Nat) (i : Nat) : Nat :=
  match _h : rd p i with
  | none => i
  | some c => if c = 0 ∨ c = SLASH then i else skipElem p (i + 1)
termination_by p.length + 1 - i
decreasing_by
  rename_i hc
  simp only [rd] at _h
  split at _h
  · omega
  · split at _h
    · simp at _h; omega
    · simp at _h

theorem skipSlashes_ge (p : List Nat) : ∀ n i, p.length + 1 - i = n → i ≤ skipSlashes p i := by
  intro n
  induction n using Nat.strongRecOn with
  | _ n ih =>
    intro i hn
    unfold skipSlashes
    split
    · rename_i h
      have : i < p.length := by
        simp only [rd] at h
        split at h
        · assumption
        · split at h <;> simp at h
      have := ih _ (by omega) (i + 1) rfl
      omega
    · omega

theorem skipElem_ge (p : List Nat) : ∀ n i, p.length + 1 - i = n → i ≤ skipElem p i := by
  intro n
  induction n using Nat.strongRecOn with
  | _ n ih =>
    intro i hn
    unfold skipElem
    split
    · omega
    · rename_i c h
      split
      · omega
      · have : i < p.length := by
          simp only [rd] at h
          split at h
          · assumption
          · split at h
            · simp at h; omega
            · simp at h
        have := ih _ (by omega) (i + 1) rfl
        omega

/-- The `while (!last)` loop of `check_symlinks_fsobj`.  `head` and `tail` are
offsets into `path`; the C temporarily writes a NUL at `tail`, so the string it
passes to the kernel is `path[head, tail)`. -/
def checkLoopIdx (fl : XFlags) (linkname : Bool) (path : List Nat) (head tail : Nat) : Prog St :=
  let t2 := skipElem path (skipSlashes path tail)
  let c := rd path t2
  let last := c == some 0 || c == none || (c == some SLASH && rd path (t2 + 1) == some 0)
  let seg := (path.take t2).drop head
  /- what happens at the bottom of the loop body: "tail[0] = c; if (tail[0] != '\0') tail++;" -/
  let next (head' : Nat) : Prog St :=
    if last then pure .ok
    else if _h : t2 < path.length then checkLoopIdx fl linkname path head' (t2 + 1) else pure .ok
  do
    let r ← sys (.dLstat seg)
    match r with
    | .err .ENOENT => pure .ok                    -- "We've hit a dir that doesn't exist; stop now."
    | .err _ => pure .failed                      -- "Could not stat"
    | .st ⟨.dir, _⟩ =>
      if !last then do
        let r2 ← sys (.dOpenDir seg)
        match r2 with
        | .err _ => pure .fatal                   -- "Could not chdir"
        | _ => next (t2 + 1)
      else next head
    | .st ⟨.lnk, _⟩ =>
      if last && linkname then pure .ok           -- HAVE_LINKAT: hardlinks to symlinks are safe
      else if last then do
        let r2 ← sys (.dUnlink seg)
        match r2 with
        | .err _ => pure .failed
        | _ => pure .ok
      else if fl.unlink then do
        let r2 ← sys (.dUnlink seg)
        match r2 with
        | .err _ => pure .failed
        | _ => next head
      else if !fl.secureSymlinks then do
        let r2 ← sys (.dStat seg)
        match r2 with
        | .err .ENOENT => pure .ok
        | .err _ => pure .failed
        | .st ⟨.dir, _⟩ => do
          let r3 ← sys (.dOpenDir seg)
          match r3 with
          | .err _ => pure .fatal
          | _ => next (t2 + 1)
        | _ => pure .failed                       -- "Cannot extract through symlink"
      else pure .failed                           -- "Cannot extract through symlink"
    | _ => next head
termination_by path.length - tail
decreasing_by
  all_goals
    have h1 := skipSlashes_ge path _ tail rfl
    have h2 := skipElem_ge path _ (skipSlashes path tail) rfl
    omega

/-- `check_symlinks_fsobj(path, …, flags, checking_linkname)`, string-index form
(kept as a second, literal transcription; `checkSymlinks` below is the form the
theorems and the other programs use; the `pathclean` engine runs both). -/
def checkSymlinksIdx (fl : XFlags) (linkname : Bool) (path : List Nat) : Prog St :=
  if path = [] then pure .ok else do
    let _ ← sys .dOpenCwd
    -- "Skip the root directory if the path is absolute."
    let tail := if rd path 0 = some SLASH then 1 else 0
    let r ← checkLoopIdx fl linkname path 0 tail
    let _ ← sys .dClose
    pure r

/-- The `while (!last)` loop of `check_symlinks_fsobj` on the components of a
*cleaned* path (no empty component, no trailing '/': the only strings the
library passes).  `hd` are the components between `head` and the current one:
`head` is advanced only when the walk steps into a directory, so after a
non-directory (or after an intervening symlink removed under UNLINK) the next
`fstatat` is given `hd/…/c` relative to the same directory descriptor. -/
def checkLoop (fl : XFlags) (linkname : Bool) : List Name → List Name → Prog St
  | _, [] => pure .ok
  | hd, c :: rest =>
    let last := rest.isEmpty
    let seg := joinSlash (hd ++ [c])
    do
      let r ← sys (.dLstat seg)
      match r with
      | .err .ENOENT => pure .ok                    -- "We've hit a dir that doesn't exist; stop now."
      | .err _ => pure .failed                      -- "Could not stat"
      | .st ⟨.dir, _⟩ =>
        if !last then do
          let r2 ← sys (.dOpenDir seg)
          match r2 with
          | .err _ => pure .fatal                   -- "Could not chdir"
          | _ => checkLoop fl linkname [] rest      -- "Our view is now from inside this dir"
        else pure .ok
      | .st ⟨.lnk, _⟩ =>
        if last && linkname then pure .ok           -- HAVE_LINKAT: hardlinks to symlinks are safe
        else if last then do
          let r2 ← sys (.dUnlink seg)               -- "Last element is symlink; remove it"
          match r2 with
          | .err _ => pure .failed
          | _ => pure .ok
        else if fl.unlink then do
          let r2 ← sys (.dUnlink seg)               -- "User asked us to remove problems."
          match r2 with
          | .err _ => pure .failed
          | _ => checkLoop fl linkname (hd ++ [c]) rest
        else if !fl.secureSymlinks then do
          let r2 ← sys (.dStat seg)
          match r2 with
          | .err .ENOENT => pure .ok
          | .err _ => pure .failed
          | .st ⟨.dir, _⟩ => do
            let r3 ← sys (.dOpenDir seg)
            match r3 with
            | .err _ => pure .fatal
            | _ => checkLoop fl linkname [] rest
          | _ => pure .failed                       -- "Cannot extract through symlink"
        else pure .failed                           -- "Cannot extract through symlink"
      | _ => if last then pure .ok else checkLoop fl linkname (hd ++ [c]) rest

/-- `check_symlinks_fsobj` on a cleaned path.  For an absolute path `head` starts
at the leading '/', so the first `fstatat` gets "/c1": `hd = [""]`. -/
def checkSymlinks (fl : XFlags) (linkname : Bool) (path : List Nat) : Prog St :=
  if path = [] then pure .ok else do
    let _ ← sys .dOpenCwd
    let r ← checkLoop fl linkname (if isAbs path then [[]] else []) (compsOf path)
    let _ ← sys .dClose
    pure r

/-! ### create_dir / create_parent_dir -/

/-- `strrchr(path, '/')`: the part before the last '/' (when there is one) and the part after it. -/
def dirBase : List Nat → Option (List Nat) × List Nat
  | [] => (none, [])
  | c :: r => match dirBase r with
    | (some d, b) => (some (c :: d), b)
    | (none, b) => if c = SLASH then (some [], b) else (none, c :: b)

theorem dirBase_eq : ∀ (p : List Nat), match dirBase p with
    | (some d, b) => p = d ++ SLASH :: b ∧ (∀ x ∈ b, x ≠ SLASH)
    | (none, b) => p = b ∧ (∀ x ∈ b, x ≠ SLASH) := by
  intro p
  induction p with
  | nil => simp [dirBase]
  | cons c r ih =>
    unfold dirBase
    cases h : dirBase r with
    | mk o b =>
      rw [h] at ih
      cases o with
      | some d => simp only at ih ⊢; exact ⟨by rw [ih.1]; rfl, ih.2⟩
      | none =>
        simp only at ih ⊢
        by_cases hc : c = SLASH
        · simp only [hc, if_true]; exact ⟨by rw [ih.1]; rfl, ih.2⟩
        · simp only [hc, if_false]
          refine ⟨by rw [ih.1], ?_⟩
          intro x hx
          simp at hx
          rcases hx with rfl | hx
          · exact hc
          · exact ih.2 x hx

theorem dirBase_lt (p d b : List Nat) (h : dirBase p = (some d, b)) : d.length < p.length := by
  have := dirBase_eq p
  rw [h] at this
  rw [this.1]; simp

/-- `create_dir(a, path)`.  Returns the status and the fix-ups it queued. -/
def createDir (fl : XFlags) (umask : Nat) (path : List Nat) : Prog (St × List Fixup) :=
  match _h : dirBase path with
  | (slash, base) =>
  if base = [] ∨ base = [DOT] ∨ base = [DOT, DOT] then
    match _h2 : slash with
    | some d => createDir fl umask d
    | none => pure (.ok, [])
  else do
    let r ← sys (.stat path)           -- "Yes, this should be stat() and not lstat()."
    let pre : Prog (St × List Fixup) :=
      match r with
      | .st ⟨.dir, _⟩ => pure (.warn, [])     -- marker: exists already (returned as OK below)
      | .st _ =>
        if fl.noOverwrite then pure (.failed, [])
        else do
          let r2 ← sys (.unlink path)
          match r2 with
          | .err _ => pure (.failed, [])
          | _ => pure (.ok, [])
      | .err e =>
        if e ≠ .ENOENT ∧ e ≠ .ENOTDIR then pure (.failed, [])
        else match _h2 : slash with
          | some d => createDir fl umask d
          | none => pure (.ok, [])
      | _ => pure (.failed, [])
    let (s, fx) ← pre
    match s with
    | .warn => pure (.ok, fx)
    | .ok => do
      let modeFinal := defaultDirMode &&& lnot12 umask
      let mode := (modeFinal ||| minimumDirMode) &&& maximumDirMode
      let r3 ← sys (.mkdir path mode)
      match r3 with
      | .err _ => do
        let r4 ← sys (.stat path)
        match r4 with
        | .st ⟨.dir, _⟩ => pure (.ok, fx)
        | _ => pure (.failed, fx)
      | _ =>
        if mode ≠ modeFinal then
          pure (.ok, { name := path, filetype := none, doMode := true, mode := modeFinal } :: fx)
        else pure (.ok, fx)
    | s => pure (s, fx)
termination_by path.length
decreasing_by
  all_goals
    subst _h2
    exact dirBase_lt path _ _ _h

/-- `create_parent_dir(a, path)` -/
def createParentDir (fl : XFlags) (umask : Nat) (path : List Nat) : Prog (St × List Fixup) :=
  match (dirBase path).1 with
  | none => pure (.ok, [])
  | some d => createDir fl umask d

/-! ### edit_deep_directories -/

/-- Greatest offset `i` with `0 < i ≤ k` and `p[i] = '/'`:
"tail += PATH_MAX - 8; while (tail > a->name && *tail != '/') tail--;" -/
def slashAtMost (p : List Nat) : Nat → Option Nat
  | 0 => none
  | k + 1 => if p[k + 1]? = some SLASH then some (k + 1) else slashAtMost p k

theorem slashAtMost_pos (p : List Nat) : ∀ k i, slashAtMost p k = some i → 0 < i := by
  intro k
  induction k with
  | zero => intro i h; simp [slashAtMost] at h
  | succ k ih =>
    intro i h
    unfold slashAtMost at h
    split at h
    · simp at h; omega
    · exact ih i h

/-- The `while (strlen(tail) >= PATH_MAX)` loop of `edit_deep_directories`: `name` is what
`a->name` points at; the result is the shortened name and the fix-ups `create_dir` queued.
Every successful `chdir` moves the process. -/
def editLoop (fl : XFlags) (umask : Nat) (name : List Nat) : Prog (List Nat × List Fixup) :=
  if name.length < pathMax then pure (name, [])
  else
    match _h : slashAtMost name (pathMax - 8) with
    | none => pure (name, [])                 -- "Exit if we find a too-long path component."
    | some i => do
      let (st, fx) ← createDir fl umask (name.take i)
      let entered ← (if st = .ok then do
          let r ← sys (.chdir (name.take i))
          pure (errOf r).isNone
        else pure false : Prog Bool)
      if !entered then pure (name, fx)
      else do
        let (n2, fx2) ← editLoop fl umask (name.drop (i + 1))
        pure (n2, fx2 ++ fx)
termination_by name.length
decreasing_by
  have := slashAtMost_pos name _ i _h
  have hp : pathMax = 4096 := rfl
  simp only [List.length_drop]
  omega

/-! ### per-entry state of the writer -/

structure ES where
  mode : Nat               -- `a->mode & 07777`
  todoMode : Bool := true  -- `a->todo & TODO_MODE`
  todoTimes : Bool := false
  modeForce : Bool := false
  defMode : Bool := false  -- `a->deferred & TODO_MODE`
  defTimes : Bool := false
  hasFd : Bool := false
  tmp : Bool := false      -- `a->tmpname != NULL`
  fix : List Fixup := []   -- fix-ups queued by create_dir during this entry
  deriving Repr

def Entry.isDir (e : Entry) : Bool := e.kind == .dir
def Entry.filesize (e : Entry) : Nat := match e.kind with
  | .file | .hardlink => e.data.length
  | _ => 0

/-- `create_filesystem_object(a)`: "0 if creation succeeds, or else the errno
value from the failed system call". -/
def createObject (fl : XFlags) (umask : Nat) (e : Entry) (name : List Nat) (es : ES) : Prog (Option Err × ES) :=
  match e.kind with
  | .hardlink =>
    match cleanup fl.clean e.link with
    | .ok lc => do
      let r ← checkSymlinks fl true lc
      if r ≠ .ok then pure (some .EPERM, es) else do
        if fl.safeWrites then let _ ← sys (.unlink name)
        let r ← sys (.link e.link name)       -- the *uncleaned* link name
        match errOf r with
        | some en => pure (some en, es)
        | none =>
          if e.filesize = 0 then pure (none, { es with todoMode := false, todoTimes := false, defMode := false, defTimes := false })
          else do
            let r2 ← sys (.lstat name)
            match r2 with
            | .st ⟨.reg, _⟩ => do
              let r3 ← sys (.openTrunc name)
              match errOf r3 with
              | some en => pure (some en, es)
              | none => pure (none, { es with hasFd := true })
            | .st _ => pure (none, { es with todoMode := false, todoTimes := false, defMode := false, defTimes := false })
            | .err en => pure (some en, es)
            | _ => pure (some .EIO, es)
    | _ => pure (some .EPERM, es)
  | .symlink => do
    if fl.safeWrites then let _ ← sys (.unlink name)
    let r ← sys (.symlink e.link name)
    pure (errOf r, es)
  | k =>
    let finalMode := es.mode &&& 4095
    let mode := finalMode &&& 511 &&& lnot12 umask
    match k with
    | .dir => do
      let mode := (mode ||| minimumDirMode) &&& maximumDirMode
      let r ← sys (.mkdir name mode)
      match errOf r with
      | some en => pure (some en, es)
      | none =>
        let es := { es with defTimes := es.defTimes || es.todoTimes, todoTimes := false }
        let es := if mode ≠ finalMode ∨ fl.perm then { es with defMode := es.defMode || es.todoMode } else es
        pure (none, { es with todoMode := false })
    | .fifo => do
      let r ← sys (.mkfifo name mode)
      match errOf r with
      | some en => pure (some en, es)
      | none => pure (none, if mode = finalMode then { es with todoMode := false } else es)
    | _ => do
      let r ← sys (.openCreat name mode)
      match errOf r with
      | some en => pure (some en, { es with tmp := false })
      | none => pure (none, if mode = finalMode then { es with todoMode := false, tmp := false, hasFd := true }
                            else { es with tmp := false, hasFd := true })

/-- `restore_entry(a)` -/
def restoreEntry (fl : XFlags) (umask : Nat) (e : Entry) (name : List Nat) (es : ES) : Prog (St × ES) := do
  let pre : Prog Bool :=
    if fl.unlink && !e.isDir then do
      let r ← sys (.unlink name)
      match r with
      | .err .ENOENT => pure true
      | .err _ => do
        let r2 ← sys (.rmdir name)
        match r2 with
        | .err _ => pure false               -- "Could not unlink"
        | _ => pure true
      | _ => pure true
    else pure true
  if !(← pre) then pure (.failed, es) else
  let (en, es) ← createObject fl umask e name es
  let (en, es) ← (if en = some .ENOTDIR ∨ en = some .ENOENT then do
      let (_, fx) ← createParentDir fl umask name
      createObject fl umask e name { es with fix := fx ++ es.fix }
    else pure (en, es) : Prog (Option Err × ES))
  if en = some .ENOENT ∧ e.kind = .hardlink then pure (.failed, es) else
  if (en = some .EISDIR ∨ en = some .EEXIST) ∧ fl.noOverwrite then
    pure (.ok, if e.isDir then { es with todoMode := false, todoTimes := false } else es)
  else
  let step : Prog (Option St × Option Err × ES) :=
    if en = some .EISDIR then do
      let r ← sys (.rmdir name)
      match r with
      | .err _ => pure (some .failed, en, es)
      | _ => do let (en, es) ← createObject fl umask e name es; pure (none, en, es)
    else if en = some .EEXIST then do
      let r1 ← (if e.isDir then sys (.stat name) else pure (.err .EINVAL) : Prog R)
      let r ← (match r1 with
        | .st s => pure (.st s)
        | _ => sys (.lstat name) : Prog R)
      match r with
      | .st s =>
        if s.kind ≠ .dir then
          if fl.safeWrites ∧ s.kind = .reg then do
            let r2 ← sys (.mkstemp name (es.mode &&& 511 &&& lnot12 umask))
            match r2 with
            | .err _ => pure (some .failed, en, es)
            | _ => pure (none, none, { es with hasFd := true, tmp := true })
          else do
            let r2 ← sys (.unlink name)
            match r2 with
            | .err _ => pure (some .failed, en, es)
            | _ => do let (en, es) ← createObject fl umask e name es; pure (none, en, es)
        else if !e.isDir then do
          let r2 ← sys (.rmdir name)
          match r2 with
          | .err _ => pure (some .failed, en, es)
          | _ => do let (en, es) ← createObject fl umask e name es; pure (none, en, es)
        else
          -- "There's a dir in the way of a dir."  Its mode is fixed up at close when PERM asks for it;
          -- its times are deferred like those of a newly made directory ("Restoring the children will
          -- touch this dir just as it touches a newly created one").
          let es1 := if es.mode ≠ s.mode ∧ es.modeForce then { es with defMode := es.defMode || es.todoMode } else es
          pure (none, none, { es1 with defTimes := es1.defTimes || es1.todoTimes, todoTimes := false })
      | _ => pure (some .failed, en, es)     -- "Can't stat existing object"
    else pure (none, en, es)
  let (early, en, es) ← step
  match early with
  | some s => pure (s, es)
  | none => if en.isSome then pure (.failed, es) else pure (.ok, es)

/-- State of the `archive_write_disk` object between calls. -/
structure Writer where
  flags : XFlags
  fixups : List Fixup := []         -- `a->fixup_list`, newest first
  cur : Option (Entry × List Nat × ES) := none   -- entry being written (state DATA): entry, `a->name`, per-entry state
  deriving Repr

/-- `_archive_write_disk_header` (the harness always finishes the previous entry first). -/
def header (w : Writer) (e : Entry) : Prog (St × Writer) :=
  let fl := w.flags
  let w := { w with cur := none }
  match cleanup fl.clean e.path with
  | .ok name =>
    if e.kind = .hardlink ∧ name = e.link then pure (.warn, w)   -- "Skipping hardlink pointing to itself"
    else do
      let u ← sys .getUmask
      let umask := match u with | .num n => n | _ => 0
      let es : ES := { mode := if fl.perm then e.mode else e.mode &&& 511 &&& lnot12 umask,
                       modeForce := fl.perm, todoTimes := fl.time }
      let chk ← (if fl.secureSymlinks then checkSymlinks fl false name else pure .ok : Prog St)
      if chk ≠ .ok then pure (chk, w) else do
      -- edit_deep_directories: "If path exceeds PATH_MAX, shorten the path."
      let deep : Bool := decide (name.length ≥ pathMax)
      let (name, fxd) ← (if deep then do
          let _ ← sys .rOpenCwd
          editLoop fl umask name
        else pure (name, []) : Prog (List Nat × List Fixup))
      let (ret, es) ← restoreEntry fl umask e name es
      -- "If we changed directory above, restore it here."
      let ret ← (if deep then do
          let r ← sys .rFchdir
          let _ ← sys .rClose
          pure (match r with | .err _ => St.fatal | _ => ret)
        else pure ret : Prog St)
      let ft : Option Kind := some (match e.kind with
        | .file | .hardlink => .reg | .dir => .dir | .symlink => .lnk | .fifo => .fifo)
      -- "Fixup uses the unedited pathname from archive_entry_pathname()"
      let fe : Option Fixup :=
        if es.defMode ∨ es.defTimes then
          some { name := e.path, filetype := ft, doMode := es.defMode, doTimes := es.defTimes,
                 mode := es.mode, mtime := e.mtime }
        else none
      let fixups := (match fe with | some f => [f] | none => []) ++ es.fix ++ fxd ++ w.fixups
      let w := { w with fixups := fixups }
      pure (ret, if ret = .ok ∨ ret = .warn then { w with cur := some (e, name, es) } else w)
  | _ => pure (.failed, w)

/-- `archive_write_data` with the whole body. -/
def writeData (w : Writer) (data : List Nat) : Prog St :=
  match w.cur with
  | some (_, _, es) =>
    if es.hasFd then do
      let r ← sys (.fwrite data)
      match r with
      | .err _ => pure .fatal
      | _ => pure .ok
    else pure .warn            -- "Attempt to write to an empty file"
  | none => pure .fatal        -- archive_check_magic: wrong state

/-- `_archive_write_disk_finish_entry` -/
def finishEntry (w : Writer) : Prog (St × Writer) :=
  match w.cur with
  | none => pure (.ok, w)      -- state HEADER
  | some (e, name, es) => do
    -- set_mode
    let r1 ← (if es.todoMode then
        if e.kind = .symlink then do
          let r ← sys (.lchmod name es.mode)
          match r with
          | .err .ENOTSUP => pure .ok
          | .err _ => pure .warn
          | _ => pure .ok
        else if !e.isDir then do
          let r ← (if es.hasFd then sys (.fchmod es.mode) else sys (.chmod name es.mode))
          match r with
          | .err _ => pure .warn
          | _ => pure .ok
        else pure .ok
      else pure .ok : Prog St)
    -- set_times_from_entry
    let r2 ← (if es.todoTimes then do
        let r ← (if es.hasFd then sys (.futimens e.mtime) else sys (.utimens name e.mtime))
        match r with
        | .err _ => pure .warn
        | _ => pure .ok
      else pure .ok : Prog St)
    let ret := (St.ok.worst r1).worst r2
    let ret ← (if es.hasFd then do
        let _ ← sys .fclose
        if es.tmp then do
          let r ← sys (.renameTmp name)
          match r with
          | .err _ => do let _ ← sys (.unlinkTmp name); pure St.failed
          | _ => pure ret
        else pure ret
      else pure ret : Prog St)
    pure (ret, { w with cur := none })

/-! ### close: sort_dir_list and the fix-up loop -/

/-- `strcmp(a, b) > 0` on unsigned bytes. -/
def strGt : List Nat → List Nat → Bool
  | [], _ => false
  | _ :: _, [] => true
  | x :: a, y :: b => if x = y then strGt a b else x > y

/-- Step 3 of `sort_dir_list`: "Always put the later element on the list first." -/
def mergeFix : List Fixup → List Fixup → List Fixup
  | [], b => b
  | a, [] => a
  | x :: a, y :: b =>
    if strGt x.name y.name then x :: mergeFix a (y :: b) else y :: mergeFix (x :: a) b
termination_by a b => a.length + b.length

/-- `sort_dir_list`: the first half has ⌈n/2⌉ elements. -/
def sortFix (l : List Fixup) : List Fixup :=
  if _h : l.length < 2 then l
  else
    let k := (l.length + 1) / 2
    mergeFix (sortFix (l.take k)) (sortFix (l.drop k))
termination_by l.length
decreasing_by
  · simp only [List.length_take]; omega
  · simp only [List.length_drop]; omega

def stripTrailingSlashes (p : List Nat) : List Nat :=
  (p.reverse.dropWhile (· == SLASH)).reverse

def kindMatches (ft : Option Kind) (s : Stat) : Bool :=
  match ft with
  | some k => k == s.kind        -- la_verify_filetype
  | none => false                -- filetype 0: `default: break;` → 0

/-- One iteration of the `while (p != NULL)` loop of `_archive_write_disk_close`. -/
def applyFixup (fl : XFlags) (p : Fixup) : Prog Unit :=
  let name0 := stripTrailingSlashes p.name
  if !(p.doMode || p.doTimes) then pure () else
  -- the re-check added by the fix: cleanup_pathname_fsobj + check_symlinks_fsobj(…, flags & ~UNLINK, 1)
  let checked : Prog (Option (List Nat)) :=
    if fl.secureSymlinks then
      match cleanup fl.clean name0 with
      | .ok q => do
        let r ← checkSymlinks { fl with unlink := false } true q
        if r = .ok then pure (some q) else pure none
      | _ => pure none
    else pure (some name0)
  do
    match (← checked) with
    | none => pure ()
    | some name => do
      let isDirFix := p.filetype == some .dir
      let ro ← sys (.xOpen name isDirFix)
      let opened := (errOf ro).isNone
      -- the file type verification
      let verified : Prog Bool :=
        if opened ∧ isDirFix then pure true
        else if opened then do
          let s ← sys .xFstat
          match s with
          | .st st => pure (kindMatches p.filetype st)
          | _ => pure false
        else do
          let s ← sys (.lstat name)
          match s with
          | .st st => pure (kindMatches p.filetype st)
          | _ => pure false
      if !(← verified) then do
        if opened then let _ ← sys .xClose
        pure ()
      else do
        if p.doTimes then
          let _ ← (if opened then sys (.xUtimens p.mtime) else sys (.utimens name p.mtime))
        if p.doMode then
          let _ ← (if opened then sys (.xChmod (p.mode &&& 4095)) else sys (.lchmod name (p.mode &&& 4095)))
        if opened then let _ ← sys .xClose
        pure ()

def applyFixups (fl : XFlags) : List Fixup → Prog Unit
  | [] => pure ()
  | p :: r => do applyFixup fl p; applyFixups fl r

/-- `_archive_write_disk_close` -/
def close (w : Writer) : Prog (St × Writer) := do
  let (ret, w) ← finishEntry w
  applyFixups w.flags (sortFix w.fixups)
  pure (ret, { w with fixups := [] })

/-- One entry the way `archive_read_extract2` drives the writer. -/
def extractEntry (w : Writer) (e : Entry) : Prog (St × Writer) := do
  let (h, w) ← header w e
  let hasFd : Bool := match w.cur with | some (_, _, es) => es.hasFd | none => false
  let d ← (if h = .ok ∧ e.data ≠ [] ∧ hasFd = true then writeData w e.data else pure .ok : Prog St)
  let (f, w) ← finishEntry w
  pure ((h.worst d).worst f, w)

def extractAll (w : Writer) : List Entry → Prog (List St × Writer)
  | [] => pure ([], w)
  | e :: es => do
    let (s, w) ← extractEntry w e
    let (ss, w) ← extractAll w es
    pure (s :: ss, w)

/-- A whole extraction: every entry, then `archive_write_close`. -/
def extractArchive (fl : XFlags) (es : List Entry) : Prog (List St × St) := do
  let (ss, w) ← extractAll { flags := fl } es
  let (s, _) ← close w
  pure (ss, s)

end LA.Xtr
