/-
Model of the handle life cycle of libarchive (property C07; also used by C01):
`__archive_check_magic` (archive_check_magic.c) and the state-changing entry
points of the five handle kinds — reader (archive_read.c), writer
(archive_write.c), disk writer (archive_write_disk_posix.c), disk reader
(archive_read_disk_posix.c), matcher (archive_match.c) — plus the generic
dispatchers of archive_virtual.c.

What is generated and what is written by hand.  The allowed-state mask of every
entry point is *not* written here: `siteOf` looks it up in
`LA.Gen.ApiStates.sites`, which tools/lib/extract.py regenerates from every
`archive_check_magic(a, MAGIC, STATES, "fn")` call on each run.  The bodies
below (what happens once the check has passed) mirror the C by hand.

Lower layers are inputs.  What a format's read_header / write_header returned,
whether a client callback failed, how many filters the bidding chose, whether
restore_entry opened a descriptor or queued a fix-up: all of that is the
`Outcome` argument of `step`; theorems quantify over every `Outcome`.

Resources.  The fields of `Handle` that count resources (`regs`, `filters`,
`client`, `ent`, `fd`, `fixups`, `tree`, `alive`) stand for the heap objects and
descriptors the C handle owns through its pointer fields.  A release mirrors the
C statement that frees it, including its guard (`if (!f->closed)`,
`if (a->fd >= 0)`); a release of something that is not held increments `bad`
(a double free / double close).  `ledger h` is what is still held.
-/
import LA.Gen.ApiStates
import LA.Model.Util
namespace LA.Handle
open LA.Gen.ApiStates

/-- `a->state` (archive_private.h `ARCHIVE_STATE_*`). -/
inductive St | new | header | data | eof | closed | fatal
  deriving DecidableEq, Repr

/-- The bit of a state, from the extracted constants. -/
def St.bit : St → Nat
  | .new => stateNew | .header => stateHeader | .data => stateData
  | .eof => stateEof | .closed => stateClosed | .fatal => stateFatal

def St.name : St → String
  | .new => "new" | .header => "header" | .data => "data"
  | .eof => "eof" | .closed => "closed" | .fatal => "fatal"

/-- Return classes (harness `vh_st`).  `pos` is a positive value that is not a
status (archive_write_fail returns `a->state`); `nosite` and `dead` are the
model's distinguished answers "the table has no archive_check_magic site for
this call" and "the handle was freed". -/
inductive Rc | eof | ok | retry | warn | failed | fatal | pos | nosite | dead
  deriving DecidableEq, Repr

/-- The C integer behind a return class (ARCHIVE_EOF = 1 … ARCHIVE_FATAL = -30). -/
def Rc.val : Rc → Int
  | .eof => 1 | .ok => 0 | .retry => -10 | .warn => -20 | .failed => -25 | .fatal => -30
  | .pos => 2 | .nosite => 3 | .dead => 4

def Rc.name : Rc → String
  | .eof => "eof" | .ok => "ok" | .retry => "retry" | .warn => "warn" | .failed => "failed"
  | .fatal => "fatal" | .pos => "pos" | .nosite => "nosite" | .dead => "dead"

/-- `if (r1 < r) r = r1;` -/
def Rc.worst (r r1 : Rc) : Rc := if r1.val < r.val then r1 else r

/-- State of one write filter (`ARCHIVE_WRITE_FILTER_STATE_*`); the reader's
pipeline uses `opened` / `closed` only (`f->closed`). -/
inductive FSt | new | opened | closed | fatal
  deriving DecidableEq, Repr

structure Handle where
  kind : Kind
  st : St
  /-- the struct itself: false once `free` ran to the end -/
  alive : Bool := true
  /-- private blocks registered with the handle and released only by free:
  format / bidder data, the writer's format data, match lists, lookup caches -/
  regs : Nat := 0
  /-- reader: `a->client.reader != NULL` -/
  hasReader : Bool := false
  /-- reader: `a->filter` chain, downstream first, client proxy last;
  writer: `a->filter_first` chain, client filter last -/
  filters : List FSt := []
  /-- reader: the client's stream is with the library and its close callback has
  not run; writer: client data is registered and its free callback has not run -/
  client : Bool := false
  /-- disk writer: `a->entry` clone; writer: the format's per-entry compressor -/
  ent : Bool := false
  /-- disk writer: `a->fd >= 0` -/
  fd : Bool := false
  /-- disk writer: length of `a->fixup_list` -/
  fixups : Nat := 0
  /-- disk reader: `a->tree != NULL` -/
  tree : Bool := false
  /-- disk reader: the tree holds open directory handles / descriptors -/
  topen : Bool := false
  /-- releases of something not held (double free / double close) -/
  bad : Nat := 0
  /-- resources dropped without a release: a pointer overwritten while it owned
  something, an object freed while it still held something open -/
  lost : Nat := 0
  /-- ghost counters: client open / close / free callback invocations -/
  nOpen : Nat := 0
  nClose : Nat := 0
  nFree : Nat := 0
  deriving DecidableEq, Repr

/-- What the handle still owns. -/
structure Ledger where
  handle : Nat
  regs : Nat
  filterObjs : Nat
  filtersOpen : Nat
  client : Nat
  ent : Nat
  fd : Nat
  fixups : Nat
  tree : Nat
  treeOpen : Nat
  deriving DecidableEq, Repr

def b2n (b : Bool) : Nat := if b then 1 else 0

/-- closing a filter that is open (others are left alone) -/
def closeF (f : FSt) : FSt := if f == .opened then .closed else f

def openCount : List FSt → Nat
  | [] => 0
  | .opened :: fs => openCount fs + 1
  | _ :: fs => openCount fs

def ledger (h : Handle) : Ledger :=
  { handle := b2n h.alive, regs := h.regs, filterObjs := h.filters.length,
    filtersOpen := openCount h.filters, client := b2n h.client, ent := b2n h.ent,
    fd := b2n h.fd, fixups := h.fixups, tree := b2n h.tree, treeOpen := b2n h.topen }

def Ledger.empty : Ledger := ⟨0, 0, 0, 0, 0, 0, 0, 0, 0, 0⟩

/-- Lower-layer results and choices, universally quantified in the theorems. -/
structure Outcome where
  rc : Rc := .ok      -- the main lower-layer result (read_header, write_header, a callback, …)
  rc2 : Rc := .ok     -- a second one where the function consults two (data_skip / finish_entry first)
  rc3 : Rc := .ok     -- a third one (the writer's filter flush)
  n : Nat := 0        -- a count: filters chosen, blocks registered, fix-ups queued
  flag : Bool := false -- a yes/no fact: descriptor opened, per-entry compressor allocated, served from buffer
  alt : Nat := 0      -- which early-exit path was taken (0 = the main path)
  deriving DecidableEq, Repr

/-- API calls.  `func` arguments are C function names as they appear in the
extracted table (the enclosing function of the `archive_check_magic` call). -/
inductive Op
  /-- a checked call that leaves the life-cycle state alone: setters, getters,
  support_*, set_format_*, set_options, matcher calls; registers `o.n` blocks -/
  | plain (func : String)
  /-- a call that has no `archive_check_magic` at all: archive_errno,
  archive_error_string, archive_write_add_filter_none,
  archive_write_disk_set_options, an archive_read_data of zero bytes -/
  | unchecked
  /-- archive_write_fail -/
  | fail
  /-- writer: archive_write_set_format_* (replaces the previous format data) -/
  | wSetFormat (func : String)
  /-- writer: archive_write_add_filter_* (appends a filter in state NEW) -/
  | wAddFilter (func : String)
  /-- the standard-lookup setters of the disk kinds: `pre` is the setter's own
  check, `setter` the *_set_*_lookup function it calls twice -/
  | lookup (pre setter : String)
  /-- reader: `wrapper` = the convenience function's own check (if any), `reg` =
  it registers a read callback first (through the callback setters) -/
  | rOpen (wrapper : Option String) (reg : Bool)
  /-- reader: archive_read_set_read_callback on its own -/
  | rSetReader
  | rNextHeader | rReadData | rReadDataBlock | rDataSkip | rSeekData
  | wOpen (wrapper : Option String)
  | wHeader | wData | wFinishEntry
  | dHeader | dData | dDataBlock | dFinishEntry
  | kOpen | kNextHeader | kReadDataBlock
  | close | free
  deriving DecidableEq, Repr

/-- First call site of `func` for handles of kind `k`. -/
def siteOf (k : Kind) (func : String) : Option Site :=
  sites.find? fun s => s.kind == k && s.func == func

/-- `(a->state & allowed_states) != 0` -/
def allowed (st : St) (mask : Nat) : Bool := (st.bit &&& mask) != 0

/-- `archive_check_magic(a, MAGIC, STATES, "fn")` followed by `body`
(archive_check_magic.c `__archive_check_magic`, the macro in archive_private.h):
a state outside the mask sets `a->state = ARCHIVE_STATE_FATAL` (also when it was
FATAL already) and the macro returns ARCHIVE_FATAL.  A `func` that has no site
for this kind yields the distinguished `nosite`. -/
def checked (h : Handle) (func : String) (body : Handle → Handle × Rc) : Handle × Rc :=
  match siteOf h.kind func with
  | none => (h, .nosite)
  | some s => if allowed h.st s.mask then body h else ({ h with st := .fatal }, .fatal)

/-! ### releases (each mirrors a guarded or unguarded C free) -/

def relFd (h : Handle) : Handle := if h.fd then { h with fd := false } else h            -- `if (a->fd >= 0) close`
def relEnt (h : Handle) : Handle := if h.ent then { h with ent := false } else h         -- `archive_entry_free(a->entry)` (NULL ok)
def relRegs (h : Handle) : Handle := { h with regs := 0 }                                 -- cleanup loops
def relFixups (h : Handle) : Handle := { h with fixups := 0 }                             -- the while loop of close
/-- the client's close callback (reader): not guarded by the library -/
def callCloser (h : Handle) : Handle :=
  if h.client then { h with client := false, nClose := h.nClose + 1 }
  else { h with bad := h.bad + 1, nClose := h.nClose + 1 }
/-- `free(a)` -/
def relHandle (h : Handle) : Handle :=
  if h.alive then { h with alive := false } else { h with bad := h.bad + 1 }

/-! ### reader (archive_read.c) -/

/-- `close_filters`: `if (!f->closed && f->vtable != NULL) { close; f->closed = 1; }`
for each filter; the last one is the client proxy whose close runs the client's
close callback. -/
def rCloseFilters (h : Handle) : Handle :=
  let lastOpen := h.filters.getLast? == some .opened
  let h1 := { h with filters := h.filters.map closeF }
  if lastOpen then callCloser h1 else h1

/-- `__archive_read_free_filters`: close_filters, then free every filter object -/
def rFreeFilters (h : Handle) : Handle :=
  let h1 := rCloseFilters h
  { h1 with filters := [], lost := h1.lost + openCount h1.filters }

/-- `a->filter = filter` with the pipeline just built (anything the pointer
still owned is lost) -/
def rSetFilters (h : Handle) (n : Nat) : Handle :=
  { h with filters := List.replicate (n + 1) .opened, lost := h.lost + h.filters.length }

/-- `archive_read_data_skip` -/
def rDataSkip (h : Handle) (r : Rc) : Handle × Rc :=
  checked h "archive_read_data_skip" fun h =>
    ({ h with st := .header }, if r == .eof then .ok else r)

/-- `archive_read_open1` after the check -/
def rOpen1Body (o : Outcome) (h : Handle) : Handle × Rc :=
  if !h.hasReader then ({ h with st := .fatal }, .fatal)
  else
    -- the client's stream is now the library's to close
    let h := { h with client := true, nOpen := h.nOpen + 1, lost := h.lost + b2n h.client }
    match o.alt with
    | 1 => -- the open callback failed: `read_client_close_proxy(a);`, the callbacks and their
      -- data are forgotten, `return (e);` — the handle is still new
      (callCloser { h with hasReader := false }, o.rc)
    | 2 => -- choose_filters failed: `__archive_read_free_filters(a)`, FATAL
      ({ rFreeFilters (rSetFilters h o.n) with st := .fatal }, .fatal)
    | 3 => -- choose_format failed: `close_filters(a)`, FATAL
      ({ rCloseFilters (rSetFilters h o.n) with st := .fatal }, .fatal)
    | _ =>
      ({ rSetFilters h o.n with st := .header }, .ok)

/-- `_archive_read_next_header2` after the check -/
def rNextHeaderBody (o : Outcome) (h : Handle) : Handle × Rc :=
  let p := if h.st == .data then rDataSkip h o.rc2 else (h, .ok)
  let h1 := p.1
  let r1 := p.2
  if h.st == .data && (r1 == .eof || r1 == .fatal) then ({ h1 with st := .fatal }, .fatal)
  else
    let r2 := o.rc
    let st' := match r2 with
      | .eof => .eof | .ok => .data | .warn => .data | .fatal => .fatal | _ => h1.st
    ({ h1 with st := st' }, if r2.val < r1.val || r2 == .eof then r2 else r1)

/-- `_archive_read_close` (reader) -/
def rClose (o : Outcome) (h : Handle) : Handle × Rc :=
  checked h "_archive_read_close" fun h =>
    if h.st == .closed then (h, .ok)
    else (rCloseFilters { h with st := .closed }, Rc.worst .ok o.rc2)

/-- `_archive_read_free` (reader) -/
def rFree (o : Outcome) (h : Handle) : Handle × Rc :=
  checked h "_archive_read_free" fun h =>
    let h1 := if h.st != .closed && h.st != .fatal then (rClose o h).1 else h
    (relHandle (rFreeFilters (relRegs h1)), o.rc)

/-! ### writer (archive_write.c) -/

/-- `__archive_write_open_filter(a->filter_first)`: recursion opens the last
filter first and stops at the first failure; `good` = how many open cleanly. -/
def wOpenFilters (fs : List FSt) (good : Nat) : List FSt :=
  let rev := fs.reverse
  let rec go : List FSt → Nat → List FSt
    | [], _ => []
    | f :: rest, g =>
      if f != .new then f :: rest              -- `if (f->state != NEW) return FATAL`
      else match g with
        | 0 => .fatal :: rest                  -- its open failed
        | g + 1 => .opened :: go rest g
  (go rev good).reverse

/-- `__archive_write_filters_close`: only filters that are OPEN are closed. -/
def wCloseFilters (h : Handle) : Handle :=
  let lastOpen := h.filters.getLast? == some .opened
  let h1 := { h with filters := h.filters.map closeF }
  -- archive_write_client_close runs the client's close callback
  if lastOpen then { h1 with nClose := h1.nClose + 1 } else h1

/-- `__archive_write_filters_free`: every filter's free, the client filter's
free runs the client's free callback. -/
def wFreeFilters (h : Handle) : Handle :=
  let h1 := { h with filters := [], lost := h.lost + openCount h.filters }
  if h.client && !h.filters.isEmpty then { h1 with client := false, nFree := h1.nFree + 1 } else h1

/-- `_archive_write_finish_entry` -/
def wFinishEntry (h : Handle) (r : Rc) : Handle × Rc :=
  checked h "_archive_write_finish_entry" fun h =>
    if h.st == .data then ({ relEnt h with st := .header }, r)
    else ({ h with st := .header }, .ok)

/-- What `__archive_write_filters_open` returns: OK when all `len` filters opened,
else the result of the open that failed (which is not ARCHIVE_OK). -/
def wOpenRet (o : Outcome) (len : Nat) : Rc :=
  if o.n ≥ len then .ok else if o.rc == .ok then .fatal else o.rc

/-- `archive_write_open2` after the check -/
def wOpenBody (o : Outcome) (h : Handle) : Handle × Rc :=
  let h := { h with client := true, filters := h.filters ++ [FSt.new], lost := h.lost + b2n h.client }
  let ret := wOpenRet o h.filters.length
  -- the client filter is opened first, so the client's open callback always runs
  let h := { h with filters := wOpenFilters h.filters o.n, nOpen := h.nOpen + 1 }
  if ret.val < Rc.warn.val then
    -- `r1 = __archive_write_filters_close(a); __archive_write_filters_free(_a);`
    (wFreeFilters (wCloseFilters h), Rc.worst ret o.rc3)
  else
    ({ h with st := .header }, if h.regs > 0 then Rc.worst ret o.rc2 else ret)

/-- `_archive_write_header` after the check -/
def wHeaderBody (o : Outcome) (h : Handle) : Handle × Rc :=
  if h.regs == 0 then ({ h with st := .fatal }, .fatal)   -- "Format must be set"
  else
    let p := wFinishEntry h o.rc2
    let h1 := p.1
    let ret := p.2
    if ret == .fatal then ({ h1 with st := .fatal }, .fatal)
    else if ret.val < Rc.ok.val && ret != .warn then (h1, ret)
    else if o.alt == 1 then (h1, .failed)                   -- "Can't add archive to itself"
    else if o.rc3 == .failed then (h1, .failed)             -- filter flush
    else if o.rc3 == .fatal then ({ h1 with st := .fatal }, .fatal)
    else
      let ret := Rc.worst ret o.rc3
      if o.rc == .failed then (h1, .failed)                 -- format_write_header
      else if o.rc == .fatal then ({ h1 with st := .fatal }, .fatal)
      else ({ h1 with st := .data, ent := o.flag, lost := h1.lost + b2n h1.ent }, Rc.worst ret o.rc)

/-- `_archive_write_close` -/
def wClose (o : Outcome) (h : Handle) : Handle × Rc :=
  checked h "_archive_write_close" fun h =>
    if h.st == .new || h.st == .closed then (h, .ok)
    else
      -- format_finish_entry only in DATA; format_close; filters close
      let h1 := if h.st == .data then relEnt h else h
      let h2 := wCloseFilters h1
      (if h2.st != .fatal then { h2 with st := .closed } else h2, o.rc2)

/-- `_archive_write_free` -/
def wFree (o : Outcome) (h : Handle) : Handle × Rc :=
  checked h "_archive_write_free" fun h =>
    let h1 := if h.st != .fatal then (wClose o h).1 else wCloseFilters h
    -- format_free releases the format data; it does not know about a per-entry
    -- compressor that finish_entry never released (zip, 7zip, xar)
    (relHandle (wFreeFilters (relRegs h1)), o.rc)

/-! ### disk writer (archive_write_disk_posix.c) -/

/-- `_archive_write_disk_finish_entry` -/
def dFinishEntry (o : Outcome) (h : Handle) : Handle × Rc :=
  checked h "_archive_write_disk_finish_entry" fun h =>
    if h.st == .header then (h, .ok)
    else if o.alt == 2 then
      -- an error exit: `close_file_descriptor(a); return (ret);`, state and a->entry stay
      (relFd h, o.rc2)
    else
      ({ relEnt (relFd h) with st := .header }, o.rc2)

/-- `_archive_write_disk_header` after the check -/
def dHeaderBody (o : Outcome) (h : Handle) : Handle × Rc :=
  let p := if h.st == .data then dFinishEntry o h else (h, .ok)
  let h1 := p.1
  if h.st == .data && p.2 == .fatal then (h1, .fatal)
  else
    -- `archive_entry_free(a->entry); a->entry = archive_entry_clone(entry); a->fd = -1;`
    -- (a descriptor still open here is lost)
    let h2 := { relEnt h1 with ent := true, fd := false, lost := h1.lost + b2n h1.fd }
    if o.alt == 1 then (h2, o.rc)            -- cleanup_pathname / hardlink-to-itself / check_symlinks
    else
      -- restore_entry: leaves a descriptor open only when it did not fail
      let h3 := { h2 with fd := o.flag && decide (o.rc.val ≥ Rc.warn.val), fixups := h2.fixups + o.n }
      (if o.rc.val ≥ Rc.warn.val then { h3 with st := .data } else h3, o.rc)

/-- `_archive_write_disk_close` -/
def dClose (o : Outcome) (h : Handle) : Handle × Rc :=
  checked h "_archive_write_disk_close" fun h =>
    let p := if h.st == .fatal then (relEnt (relFd h), Rc.fatal) else dFinishEntry o h
    (relFixups p.1, p.2)

/-- `_archive_write_disk_free` -/
def dFree (o : Outcome) (h : Handle) : Handle × Rc :=
  checked h "_archive_write_disk_free" fun h =>
    let p := dClose o h
    (relHandle (relEnt (relRegs p.1)), p.2)

/-! ### disk reader (archive_read_disk_posix.c) -/

/-- `tree_close` -/
def kCloseTree (h : Handle) : Handle :=
  if h.tree && h.topen then { h with topen := false } else h   -- `if (t == NULL) return;`

/-- `_archive_read_close` (disk reader) -/
def kClose (h : Handle) : Handle × Rc :=
  checked h "_archive_read_close" fun h =>
    (kCloseTree (if h.st != .fatal then { h with st := .closed } else h), .ok)

/-- `_archive_read_free` (disk reader); `tree_free` frees the tree but closes nothing -/
def kFree (h : Handle) : Handle × Rc :=
  checked h "_archive_read_free" fun h =>
    let p := if h.st != .closed then kClose h else (h, .ok)
    let h1 := p.1
    (relHandle (relRegs { h1 with tree := false, topen := false, lost := h1.lost + b2n h1.topen }), p.2)

/-! ### one API call -/

/-- The calls of each handle kind (the property quantifies over these). -/
def Op.belongs : Op → Kind → Bool
  | .plain _, _ | .unchecked, _ | .free, _ => true
  | .fail, _ => true
  | .close, k => k != .match
  | .wSetFormat _, k | .wAddFilter _, k | .wOpen _, k | .wHeader, k | .wData, k | .wFinishEntry, k => k == .write
  | .lookup _ _, k => k == .writeDisk || k == .readDisk
  | .rOpen _ _, k | .rSetReader, k | .rNextHeader, k | .rReadData, k | .rReadDataBlock, k | .rDataSkip, k | .rSeekData, k => k == .read
  | .dHeader, k | .dData, k | .dDataBlock, k | .dFinishEntry, k => k == .writeDisk
  | .kOpen, k | .kNextHeader, k | .kReadDataBlock, k => k == .readDisk

/-- One call on a live handle of the right kind. -/
def stepCore (h : Handle) (op : Op) (o : Outcome) : Handle × Rc :=
  match op with
  | .plain f => checked h f fun h =>
      if o.alt == 9 then ({ h with st := .fatal }, .fatal)     -- an allocation-failure exit that fails the handle
      else ({ h with regs := h.regs + o.n }, o.rc)
  | .unchecked => (h, o.rc)
  | .fail => ({ h with st := .fatal }, .pos)                    -- archive_virtual.c: `a->state = FATAL; return a->state;`
  | .wSetFormat f => checked h f fun h => ({ h with regs := 1 }, o.rc)
  | .wAddFilter f => checked h f fun h => ({ h with filters := h.filters ++ [FSt.new] }, o.rc)
  | .lookup pre setter => checked h pre fun h =>
      -- two setter calls (gid/uid), each with its own check; a setter runs the old cache's cleanup first
      let h1 := (checked h setter fun h => ({ h with regs := max h.regs 1 }, .ok)).1
      let h2 := (checked h1 setter fun h => ({ h with regs := max h.regs 2 }, .ok)).1
      (h2, .ok)
  | .rOpen wrapper reg =>
      let go (h : Handle) : Handle × Rc :=
        let h1 := if reg then
            (checked h "archive_read_set_read_callback" fun h => ({ h with hasReader := true }, .ok)).1
          else h
        checked h1 "archive_read_open1" (rOpen1Body o)
      match wrapper with
      | some w => checked h w go
      | none => go h
  | .rSetReader => checked h "archive_read_set_read_callback" fun h => ({ h with hasReader := true }, .ok)
  | .rNextHeader => checked h "_archive_read_next_header2" (rNextHeaderBody o)
  | .rReadData =>
      -- archive_read_data has no check of its own: in the DATA state it may be served from the
      -- block it buffered; in every other state the buffered block is dropped first and the call
      -- goes through archive_read_data_block
      if o.flag && h.st == .data then (h, .ok) else checked h "_archive_read_data_block" fun h => (h, o.rc)
  | .rReadDataBlock => checked h "_archive_read_data_block" fun h => (h, o.rc)
  | .rDataSkip => rDataSkip h o.rc
  | .rSeekData => checked h "archive_seek_data" fun h => (h, o.rc)
  | .wOpen wrapper =>
      match wrapper with
      | some w => checked h w fun h => checked h "archive_write_open2" (wOpenBody o)
      | none => checked h "archive_write_open2" (wOpenBody o)
  | .wHeader => checked h "_archive_write_header" (wHeaderBody o)
  | .wData => checked h "_archive_write_data" fun h => (h, o.rc)
  | .wFinishEntry => wFinishEntry h o.rc2
  | .dHeader => checked h "_archive_write_disk_header" (dHeaderBody o)
  | .dData => checked h "_archive_write_disk_data" fun h => (h, o.rc)
  | .dDataBlock => checked h "_archive_write_disk_data_block" fun h => (h, o.rc)
  | .dFinishEntry => dFinishEntry o h
  | .kOpen => checked h "archive_read_disk_open" fun h =>
      if o.alt == 9 then ({ h with st := .fatal }, .fatal)     -- tree_open returned NULL
      else ({ h with tree := true, topen := true, st := .header }, .ok)   -- tree_open / tree_reopen
  | .kNextHeader => checked h "_archive_read_next_header2" fun h =>
      if o.alt == 9 then ({ h with st := .fatal }, .fatal)     -- setup_sparse failed
      else
        let st' := match o.rc with
          | .eof => .eof | .ok => .data | .warn => .data | .fatal => .fatal | _ => h.st
        ({ h with st := st' }, o.rc)
  | .kReadDataBlock => checked h "_archive_read_data_block" fun h =>
      (if o.rc == .fatal then { h with st := .fatal } else h, o.rc)
  | .close =>
      match h.kind with
      | .read => rClose o h
      | .write => wClose o h
      | .writeDisk => dClose o h
      | .readDisk => kClose h
      | .match => (h, .nosite)
  | .free =>
      match h.kind with
      | .read => rFree o h
      | .write => wFree o h
      | .writeDisk => dFree o h
      | .readDisk => kFree h
      | .match => checked h "archive_match_free" fun h => (relHandle (relRegs h), .ok)

/-- One call: a freed handle answers `dead` (the pointer must not be used again),
a call that is not of the handle's kind `nosite`. -/
def step (h : Handle) (op : Op) (o : Outcome) : Handle × Rc :=
  if !h.alive then (h, .dead) else
  if !op.belongs h.kind then (h, .nosite) else stepCore h op o

/-- `archive_*_new()` -/
def new (k : Kind) : Handle :=
  { kind := k, st := if k == .writeDisk then .header else .new }

/-- Run a history; the results in order. -/
def run (h : Handle) : List (Op × Outcome) → Handle × List Rc
  | [] => (h, [])
  | (op, o) :: rest =>
    let (h1, r) := step h op o
    let (h2, rs) := run h1 rest
    (h2, r :: rs)

/-- The C functions whose sites the engine's ops go through, per kind (the
protocol glue maps op names onto these; `LA.C07.sites_present` shows by
evaluation that the table has a site for each). -/
def usedFuncs : Kind → List String
  | .read => ["_archive_read_close", "_archive_read_free", "_archive_read_next_header2",
      "_archive_read_data_block", "archive_read_data_skip", "archive_seek_data", "archive_read_open1",
      "archive_read_set_read_callback", "archive_read_open_memory2", "archive_read_open_filenames",
      "archive_read_open_fd", "archive_read_support_format_all", "archive_read_support_filter_all",
      "archive_read_support_format_raw", "_archive_set_options", "archive_read_header_position"]
  | .write => ["_archive_write_close", "_archive_write_free", "_archive_write_header",
      "_archive_write_data", "_archive_write_finish_entry", "archive_write_open2",
      "archive_write_open_memory", "open_filename", "archive_write_open_fd",
      "archive_write_set_format_ustar", "archive_write_set_format_pax", "archive_write_set_format_cpio_newc",
      "archive_write_set_format_zip", "archive_write_set_format_raw", "archive_write_set_format_mtree_default",
      "archive_write_add_filter_gzip", "archive_write_add_filter_b64encode",
      "_archive_set_options", "archive_write_set_bytes_per_block", "archive_write_get_bytes_per_block"]
  | .writeDisk => ["_archive_write_disk_close", "_archive_write_disk_free", "_archive_write_disk_header",
      "_archive_write_disk_data", "_archive_write_disk_data_block", "_archive_write_disk_finish_entry",
      "archive_write_disk_set_skip_file", "archive_write_disk_set_standard_lookup",
      "archive_write_disk_set_group_lookup", "archive_write_disk_set_user_lookup"]
  | .readDisk => ["_archive_read_close", "_archive_read_free", "_archive_read_next_header2",
      "_archive_read_data_block", "archive_read_disk_open", "archive_read_disk_descend",
      "archive_read_disk_can_descend", "archive_read_disk_set_behavior",
      "archive_read_disk_set_symlink_logical", "archive_read_disk_set_standard_lookup",
      "archive_read_disk_set_gname_lookup", "archive_read_disk_set_uname_lookup",
      "archive_read_disk_current_filesystem"]
  | .match => ["archive_match_free", "archive_match_exclude_pattern", "archive_match_include_pattern",
      "archive_match_path_excluded", "archive_match_excluded", "archive_match_include_uid",
      "archive_match_include_uname", "validate_time_flag", "archive_match_owner_excluded",
      "archive_match_time_excluded", "archive_match_path_unmatched_inclusions",
      "archive_match_path_unmatched_inclusions_next", "archive_match_set_inclusion_recursion"]

end LA.Handle
