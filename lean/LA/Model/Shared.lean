/-
State shared between handles (property C13): the classification of every
mutable static-storage object of libarchive and the executable checks that the
inventory regenerated from the freshly compiled objects (`LA.Gen.Statics`) is
covered by it.

The inventory (`elf`, `alt`, `src`, `processWide`, `mutexFns`) comes from
`readelf` over the objects of the current tree; the classification
(`classified`, `processWideClassified`) is `tools/statics_classified.json`,
hand-reviewed, one line of justification per entry.  Everything in this file is
a `Bool`-valued function of those generated lists, so the theorems of
`LA.Props.C13` about them are re-checked by `decide` on every run.
-/
import LA.Gen.Statics
namespace LA.Shared
open LA.Gen.Statics

/-- What the review found for one static object. -/
inductive Cls
  /-- written by the loader only (or never): const-like data that is not declared `const` -/
  | immutableAfterLoad
  /-- every access happens with a mutex held -/
  | mutexProtected
  /-- lazily initialised, every racing writer stores the same values and the `done` flag is stored last
      (or: a one-way latch whose two states are observationally equal).  Unsynchronised, harmless under
      word-atomic sequentially consistent stores (`LA.LazyInit`) -/
  | idempotentInit
  /-- unsynchronised access whose outcome depends on the interleaving -/
  | racy
  /-- process-wide state the documentation names as an exception (umask, working directory) -/
  | documentedException
  /-- declared in the sources, compiled out on this platform -/
  | notInBuild
  deriving DecidableEq, Repr

def Cls.ofString : String → Option Cls
  | "immutable-after-load" => some .immutableAfterLoad
  | "mutex-protected" => some .mutexProtected
  | "idempotent-init" => some .idempotentInit
  | "racy" => some .racy
  | "documented-exception" => some .documentedException
  | "not-in-build" => some .notInBuild
  | _ => none

abbrev Key := String × String

def classIn (tbl : List (String × String × String)) (k : Key) : Option Cls :=
  match tbl.find? (fun e => e.1 == k.1 && e.2.1 == k.2) with
  | some e => Cls.ofString e.2.2
  | none => none

/-- Class of a static object `(file, symbol)` in the reviewed table. -/
def classOf (k : Key) : Option Cls := classIn classified k

/-- Objects that exist in compiled code: this build's objects and the force-compiled alternates. -/
def builtKeys : List Key := (elf ++ alt).map (fun e => (e.1, e.2.1))

/-- `static` variables of the sources whose object is not `const`. -/
def srcKeys : List Key := (src.filter (fun e => !e.2.2)).map (fun e => (e.1, e.2.1))

/-- A compiled object needs a class that says how it is accessed. -/
def builtCovered (k : Key) : Bool :=
  match classOf k with
  | some .notInBuild => false
  | some _ => true
  | none => false

/-- **The inventory is closed under the review**: every writable object of the compiled code has an access
class, every non-const `static` of the sources is in the table, every table entry still names something
that exists (nothing stale), every class string is one of the six. -/
def inventoryClosed : Bool :=
  builtKeys.all builtCovered
  && srcKeys.all (fun k => (classOf k).isSome)
  && classified.all (fun e => (Cls.ofString e.2.2).isSome
        && (builtKeys.contains (e.1, e.2.1) || srcKeys.contains (e.1, e.2.1)))

/-- Compiled objects of a given class. -/
def builtOfClass (c : Cls) : List Key := (builtKeys.filter (fun k => classOf k == some c)).eraseDups

/-- Compiled objects the review found racy. -/
def racyKeys : List Key := builtOfClass .racy

/-- Compiled objects that are accessed without synchronisation but idempotently. -/
def benignKeys : List Key := builtOfClass .idempotentInit

/-- The reviewed `done` flags of the lazily initialised tables are stored after the tables they guard
(statement order in the C source): the premise `FlagLast` of `LA.LazyInit.lazy_init_safe`. -/
def flagsStoredLast : Bool :=
  flagStoredLast.all (fun e => e.2.2 && classOf (e.1, e.2.1) == some .idempotentInit)

/-- Process-wide libc state: each importing (file, function) pair must be reviewed as a documented exception
or as serialised by a lock; nothing stale. -/
def processWideClosed : Bool :=
  processWide.all (fun k => match classIn processWideClassified k with
    | some .documentedException => true
    | some .mutexProtected => true
    | _ => false)
  && processWideClassified.all (fun e => processWide.contains (e.1, e.2.1))

/-- Where the documented exceptions (umask, chdir, fchdir) may be called from. -/
def exceptionFiles : List String := ["archive_write_disk_posix.c", "archive_read_disk_posix.c"]

def exceptionsConfined : Bool :=
  processWide.all (fun k => classIn processWideClassified k != some .documentedException
    || exceptionFiles.contains k.1)

/-! ### arc4random: lock discipline (facts extracted from the function bodies) -/

/-- One round: functions that take the lock around everything, or are only called from covered functions. -/
def coveredStep (cov : List String) : List String :=
  mutexFns.filterMap (fun e =>
    if e.2.2.1 || (!e.2.2.2.isEmpty && e.2.2.2.all (cov.contains ·)) then some e.1 else none)

def coveredIter : Nat → List String → List String
  | 0, c => c
  | n + 1, c => coveredIter n (coveredStep c)

/-- Functions of archive_random.c that only ever run with `arc4random_mtx` held. -/
def covered : List String := coveredIter mutexFns.length []

/-- **The mutex is real and held around every touch of the generator state.** -/
def mutexDiscipline : Bool :=
  havePthreadH
  && mutexFns.any (fun e => e.2.2.1)
  && mutexFns.all (fun e => !e.2.1 || covered.contains e.1)

/-- Every object classified `mutex-protected` lives in archive_random.c (the only mutex libarchive owns). -/
def mutexEntriesConfined : Bool :=
  (builtOfClass .mutexProtected).all (fun k => k.1 == "archive_random.c")

end LA.Shared
