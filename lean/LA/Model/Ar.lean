/-
Byte-exact model of the ar writers (`archive_write_set_format_ar.c`, BSD and SVR4/GNU variants) and
of the ar reader (`archive_read_support_format_ar.c`) for ordinary members (C02, C10).

Outside the model (status `unmodelled`, the driver then only monitors): the pseudo members `/`,
`/SYM64/`, `__.SYMDEF`, the GNU filename table `//` and names that refer to it.  Without a filename
table the SVR4 writer refuses names longer than 15 bytes, which is modelled.

Core Lean only.
-/
import LA.Model.Codec
import LA.Model.FmtSpec
import LA.Gen.ArLayout
namespace LA.Codec
open LA.NumFmt LA.Gen.ArLayout LA.Gen.CodecConsts

inductive ArVariant | bsd | svr4
  deriving DecidableEq, Repr

structure ArState where
  wroteGlobal : Bool := false
  remaining : Nat := 0
  padding : Nat := 0
  deriving Repr

/-- "!<arch>\n" -/
def arMagic : List Nat := [33, 60, 97, 114, 99, 104, 62, 10]

/-- `ar_basename`: the part after the last '/', `none` for a name that ends in '/'. -/
def arBasename (p : List Nat) : Option (List Nat) :=
  if p.getLast? = some slash then none
  else some (basename p)

def arSpecial (p : List Nat) : Bool :=
  p = [47] || p = [47, 83, 89, 77, 54, 52, 47] || p = [95, 95, 46, 83, 89, 77, 68, 69, 70] || p = [47, 47]

/-- The fixed fields after the name: date, uid, gid (decimal), mode (octal), size (decimal).
`none` when one of them does not fit (the C returns ARCHIVE_WARN at the first). -/
def arStatFields (e : Entry) (size : Int) : Option (List (Nat × List Nat)) :=
  let d := arFormat 10 e.mtime ar_date_size
  let u := arFormat 10 e.uid ar_uid_size
  let g := arFormat 10 e.gid ar_gid_size
  let m := arFormat 8 (e.mode : Nat) ar_mode_size
  let s := arFormat 10 size ar_size_size
  if d.1 ∨ u.1 ∨ g.1 ∨ m.1 then none
  else if e.ftype ≠ .reg then none          -- "Regular file required for non-pseudo member"
  else if s.1 then none
  else some [(ar_date_offset, d.2), (ar_uid_offset, u.2), (ar_gid_offset, g.2), (ar_mode_offset, m.2),
             (ar_size_offset, s.2)]

/-- The name field and, for a BSD long name, the bytes that follow the header. -/
def arNameField (v : ArVariant) (name : List Nat) : Option (List Nat × List Nat) :=
  match v with
  | .svr4 => if name.length ≤ 15 then some (name ++ [slash], []) else none   -- no filename table: "Can't find string table"
  | .bsd =>
    if name.length ≤ 16 ∧ ¬ name.contains sp then some (name ++ [sp], [])
    else
      let l := arFormat 10 (name.length : Nat) (ar_name_size - 3)
      if l.1 then none else some ([35, 49, 47] ++ l.2, name)

/-- `archive_write_ar_header`: status, bytes sent to the output, new state. -/
def arWriteHeader (v : ArVariant) (st : ArState) (e : Entry) : Status × List Nat × ArState :=
  let st := { st with remaining := 0, padding := 0 }
  match e.path with
  | none => (.warn, [], st)
  | some [] => (.warn, [], st)
  | some p =>
    let g := if st.wroteGlobal then [] else arMagic
    let st := { st with wroteGlobal := true }
    if arSpecial p then (.unmodelled, g, st) else
    match arBasename p with
    | none => (.warn, g, st)
    | some name =>
      match arNameField v name with
      | none => (.warn, g, st)
      | some (nf, after) =>
        let size : Int := e.sizeV + (after.length : Nat)
        match arStatFields e size with
        | none => (.warn, g, st)
        | some fs =>
          let buff := applyWrites (List.replicate 60 sp) ([(ar_fmag_offset, [96, 10]), (ar_name_offset, nf)] ++ fs)
          (.ok, g ++ buff ++ after,
           { st with remaining := size.toNat - after.length, padding := size.toNat % 2 })

def arWriteData (st : ArState) (chunk : List Nat) : List Nat × ArState :=
  let b := chunk.take st.remaining
  (b, { st with remaining := st.remaining - b.length })

/-- `archive_write_ar_finish_entry`: a body shorter than declared is only reported (WARN, no
padding); otherwise one "\n" after an odd-sized member. -/
def arFinishEntry (st : ArState) : Status × List Nat :=
  if st.remaining ≠ 0 then (.warn, [])
  else if st.padding = 0 then (.ok, [])
  else (.ok, [10])

def arCloseBytes (st : ArState) : List Nat := if st.wroteGlobal then [] else arMagic

def arDataStep (acc : Nat × List Nat × ArState) (c : List Nat) : Nat × List Nat × ArState :=
  let w := arWriteData acc.2.2 c
  (acc.1 + w.1.length, acc.2.1 ++ w.1, w.2)

/-- One member: header, body chunks, finish. (status, bytes accepted, finish status, output, state) -/
def arWriteEntry (v : ArVariant) (st : ArState) (e : Entry) (chunks : List (List Nat)) :
    Status × Nat × Status × List Nat × ArState :=
  let h := arWriteHeader v st e
  let r := chunks.foldl arDataStep (0, [], h.2.2)
  let fin := arFinishEntry r.2.2
  (h.1, r.1, fin.1, h.2.1 ++ r.2.1 ++ fin.2, r.2.2)

def arWriteEntries (v : ArVariant) : ArState → List (Entry × List (List Nat)) → List Nat × ArState
  | st, [] => ([], st)
  | st, ec :: r =>
    let w := arWriteEntry v st ec.1 ec.2
    let rest := arWriteEntries v w.2.2.2.2 r
    (w.2.2.2.1 ++ rest.1, rest.2)

def arWriteArchive (v : ArVariant) (es : List (Entry × List (List Nat))) : List Nat :=
  let w := arWriteEntries v {} es
  w.1 ++ arCloseBytes w.2

/-! ## reader -/

/-- `ar_atol8` / `ar_atol10`: leading blanks, digits until a non-digit or the end of the field,
saturating at UINT64_MAX. -/
def arAtolLoop (base : Nat) : List Nat → Nat → Nat
  | [], l => l
  | c :: r, l =>
    if c0 ≤ c ∧ c - c0 < base then
      if l > 18446744073709551615 / base ∨ (l = 18446744073709551615 / base ∧ c - c0 > 18446744073709551615 % base)
      then 18446744073709551615
      else arAtolLoop base r (l * base + (c - c0))
    else l

def arAtol (base : Nat) (f : List Nat) : Nat := arAtolLoop base (dropBlanks f) 0

/-- Trailing spaces removed. -/
def trimSpaces (s : List Nat) : List Nat := (s.reverse.dropWhile (· = sp)).reverse

/-- `ar_parse_common_header`. -/
def arCommon (h : List Nat) (path : List Nat) : RB × Nat :=
  let n := arAtol 10 (slice h ar_size_offset ar_size_size)
  let rb : RB := { ({} : RB) with
    path := path
    mtime := some (toI64 (arAtol 10 (slice h ar_date_offset ar_date_size)))
    uid := ((arAtol 10 (slice h ar_uid_offset ar_uid_size) % 4294967296 : Nat) : Int)
    gid := ((arAtol 10 (slice h ar_gid_offset ar_gid_size) % 4294967296 : Nat) : Int)
    size := some (let s := toI64 n; if s < 0 then 0 else s) }
  let rb := rbSetMode rb (arAtol 8 (slice h ar_mode_offset ar_mode_size))
  ({ rb with ftype := AE_IFREG }, n)

/-- The ar reader after the global header. `fmt` is the variant guessed so far. -/
def arRead (partialRead : Bool) (bs : List Nat) (fmt : Nat) (acc : List RB) : ReadResult :=
  if bs.length < 60 then ⟨fmt, acc.reverse, .eof, 0⟩ else
  let h := bs.take 60
  let rest := bs.drop 60
  if slice h ar_fmag_offset 2 ≠ [96, 10] then ⟨fmt, acc.reverse, .fatal, 0⟩ else
  let filename := cstr (slice h ar_name_offset ar_name_size)
  let fmt := if fmt ≠ ARCHIVE_FORMAT_AR then fmt
             else if filename.take 3 = [35, 49, 47] then ARCHIVE_FORMAT_AR_BSD
             else if filename.contains slash then ARCHIVE_FORMAT_AR_GNU
             else if filename.take 9 = [95, 95, 46, 83, 89, 77, 68, 69, 70] then ARCHIVE_FORMAT_AR_BSD
             else fmt
  let t := trimSpaces filename
  let t := if t.head? ≠ some slash ∧ t.length > 1 ∧ t.getLast? = some slash then t.dropLast else t
  if t = [] then ⟨fmt, acc.reverse, .fatal, 0⟩ else
  if t = [47, 47] ∨ t = [47] ∨ t = [47, 83, 89, 77, 54, 52, 47] ∨ t = [95, 95, 46, 83, 89, 77, 68, 69, 70] then
    ⟨fmt, acc.reverse, .unmodelled, 0⟩ else
  if t.head? = some slash ∧ c0 ≤ t.getD 1 0 ∧ t.getD 1 0 ≤ c9 then
    ⟨fmt, acc.reverse, .unmodelled, 0⟩ else
  if t.take 3 = [35, 49, 47] then
    -- BSD long name: the name precedes the body and is counted in the size field
    let c := arCommon h t
    let number := arAtol 10 (slice h (ar_name_offset + 3) (ar_name_size - 3))
    if number > 1048576 ∨ number > c.2 then ⟨fmt, acc.reverse, .fatal, 0⟩ else
    if rest.length < number then ⟨fmt, acc.reverse, .fatal, 0⟩ else
    let rb := { c.1 with path := cstr (rest.take number), size := some ((c.2 - number : Nat) : Int) }
    let rest := rest.drop number
    let remaining := c.2 - number
    let pad := c.2 % 2
    if partialRead ∧ remaining > 1048576 then ⟨fmt, (rb :: acc).reverse, .ok, 0⟩ else
    if rest.length < remaining + pad then
      ⟨fmt, ({ rb with body := rest.take remaining, bodySt := .fatal } :: acc).reverse, .fatal, 0⟩
    else arRead partialRead (rest.drop (remaining + pad)) fmt ({ rb with body := rest.take remaining } :: acc)
  else
    let c := arCommon h t
    let remaining := c.2
    let pad := c.2 % 2
    if partialRead ∧ remaining > 1048576 then ⟨fmt, (c.1 :: acc).reverse, .ok, 0⟩ else
    if rest.length < remaining + pad then
      ⟨fmt, ({ c.1 with body := rest.take remaining, bodySt := .fatal } :: acc).reverse, .fatal, 0⟩
    else arRead partialRead (rest.drop (remaining + pad)) fmt ({ c.1 with body := rest.take remaining } :: acc)
termination_by bs.length
decreasing_by
  all_goals simp only [List.length_drop]
  all_goals omega

/-- An ar archive: the global header, then members. -/
def arReadArchive (partialRead : Bool) (bs : List Nat) : ReadResult :=
  arRead partialRead (bs.drop 8) ARCHIVE_FORMAT_AR []

end LA.Codec
