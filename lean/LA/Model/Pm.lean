/-
Model of libarchive/archive_pathmatch.c (property C16).

A C string is the list of its non-NUL characters (code units as `Nat`) and is
addressed by index: `rd s i` is `s[i]` below the length, `0` at the length (the
terminator) and `none` beyond it.  Every pointer of the C is a base list plus an
index; every `*ptr` is an `rd`; a `none` propagates to the distinguished result
`Res.oob`.  "Never reads outside the pattern and path strings" is therefore a
theorem about the model (`LA.C16.pm_no_oob`), not something the types rule out.

The two C copies (`pm`/`pm_w`, `pm_list`/`pm_list_w`, …) differ only in the
character type.  The model is parameterised by `Cfg.key`, the value the C
comparison `a <= b` sees after integer promotion (`char` is signed 8-bit,
`wchar_t` signed 32-bit on this platform); equality tests are on code units.

Core Lean only (the driver links this file).
-/
import LA.Gen.MatchFlags
set_option linter.unusedVariables false
namespace LA.Pm

/-! ### characters -/
notation "C_BANG" => (33 : Nat)     -- '!'
notation "C_DOLLAR" => (36 : Nat)   -- '$'
notation "C_STAR" => (42 : Nat)     -- '*'
notation "C_MINUS" => (45 : Nat)    -- '-'
notation "C_DOT" => (46 : Nat)      -- '.'
notation "C_SLASH" => (47 : Nat)    -- '/'
notation "C_QUEST" => (63 : Nat)    -- '?'
notation "C_LBRACK" => (91 : Nat)   -- '['
notation "C_BSL" => (92 : Nat)      -- '\\'
notation "C_RBRACK" => (93 : Nat)   -- ']'
notation "C_CARET" => (94 : Nat)    -- '^'

/-- `*(s + i)` for the NUL-terminated string whose non-NUL characters are `s`. -/
def rd (s : List Nat) (i : Nat) : Option Nat :=
  if h : i < s.length then some s[i] else if i = s.length then some 0 else none

theorem rd_le {s : List Nat} {i c : Nat} (h : rd s i = some c) : i ≤ s.length := by
  unfold rd at h; split at h
  · omega
  · split at h
    · omega
    · cases h

theorem rd_lt {s : List Nat} {i c : Nat} (h : rd s i = some c) (hc : c ≠ 0) : i < s.length := by
  unfold rd at h; split at h
  · assumption
  · split at h
    · cases h; exact absurd rfl hc
    · cases h

/-- Two's-complement value of the low `bits` bits of `v`. -/
def sext (bits : Nat) (v : Nat) : Int :=
  if v % 2 ^ bits < 2 ^ (bits - 1) then ((v % 2 ^ bits : Nat) : Int)
  else ((v % 2 ^ bits : Nat) : Int) - ((2 ^ bits : Nat) : Int)

structure Cfg where
  /-- value of a character as `<=` sees it after integer promotion -/
  key : Nat → Int
  /-- `true`: the `[` case of `pm()` refuses the end of the subject before it
  calls `pm_list()` (the repaired code); `false`: the code before the repair. -/
  guardClass : Bool := true

/-- `pm()`: `char`, signed 8-bit on this platform. -/
def narrow : Cfg := { key := sext 8 }
/-- `pm_w()`: `wchar_t`, signed 32-bit on this platform. -/
def wide : Cfg := { key := sext 32 }
/-- `pm()` as it was before the `fix:` commit (kept for the recorded witness). -/
def narrowUnrepaired : Cfg := { key := sext 8, guardClass := false }

structure Flags where
  /-- `PATHMATCH_NO_ANCHOR_START` (1) -/
  noStart : Bool
  /-- `PATHMATCH_NO_ANCHOR_END` (2) -/
  noEnd : Bool
  deriving DecidableEq, Repr

/-- The `int flags` argument: bit values regenerated from archive_pathmatch.h. -/
def Flags.ofNat (n : Nat) : Flags :=
  { noStart := (n &&& LA.Gen.MatchFlags.noAnchorStart) != 0, noEnd := (n &&& LA.Gen.MatchFlags.noAnchorEnd) != 0 }

inductive Res | no | yes | oob
  deriving DecidableEq, Repr

def Res.ofBool (b : Bool) : Res := if b then .yes else .no

/-! ### `pm_list` -/

/-- The `while (p < end)` loop of `pm_list()`/`pm_list_w()`: `i` is `p`, `e` is
`end`, `rs` is `rangeStart`.  `some true` = the loop executed `return (match)`,
`some false` = it fell out (`return (nomatch)`), `none` = a read outside `p`. -/
def pmListLoop (cfg : Cfg) (p : List Nat) (e c : Nat) (i rs : Nat) : Option Bool :=
  if i < e then
    match rd p i with
    | none => none
    | some x =>
      if x = C_MINUS then
        -- Trailing or initial '-' is not special.
        if rs = 0 ∨ i + 1 = e then
          if x = c then some true else pmListLoop cfg p e c (i + 1) 0
        else
          match rd p (i + 1) with                     -- rangeEnd = *++p
          | none => none
          | some re =>
            if re = C_BSL then
              match rd p (i + 2) with                 -- rangeEnd = *++p
              | none => none
              | some re2 =>
                if cfg.key rs ≤ cfg.key c ∧ cfg.key c ≤ cfg.key re2 then some true
                else pmListLoop cfg p e c (i + 3) 0
            else if cfg.key rs ≤ cfg.key c ∧ cfg.key c ≤ cfg.key re then some true
            else pmListLoop cfg p e c (i + 2) 0
      else if x = C_BSL then
        match rd p (i + 1) with                       -- ++p, fall through to default
        | none => none
        | some y => if y = c then some true else pmListLoop cfg p e c (i + 2) y
      else if x = c then some true
      else pmListLoop cfg p e c (i + 1) x
  else some false
termination_by e - i

/-- `pm_list(start, end, c, flags)` / `pm_list_w`: `some b` ⇔ returns `b ≠ 0`. -/
def pmList (cfg : Cfg) (p : List Nat) (st e c : Nat) : Option Bool :=
  match rd p st with
  | none => none
  | some x =>
    -- `(*p == '!' || *p == '^') && p < end`: `*p` is read first
    if (x = C_BANG ∨ x = C_CARET) ∧ st < e then (pmListLoop cfg p e c (st + 1) 0).map (!·)
    else pmListLoop cfg p e c st 0

/-! ### small loops -/

/-- `pm_slashskip(s + i)` / `pm_slashskip_w`: index it returns. -/
def slashskip (s : List Nat) (i : Nat) : Option Nat :=
  match h : rd s i with
  | none => none
  | some c =>
    if hc : c = C_SLASH then slashskip s (i + 1)
    else if hd : c = C_DOT then
      match rd s (i + 1) with
      | none => none
      | some d => if d = C_SLASH ∨ d = 0 then slashskip s (i + 1) else some i
    else some i
termination_by s.length - i
decreasing_by
  all_goals (have := rd_lt h (by omega); omega)

/-- `while (*p == '*') ++p;` -/
def skipStars (p : List Nat) (i : Nat) : Option Nat :=
  match h : rd p i with
  | none => none
  | some c => if hc : c = C_STAR then skipStars p (i + 1) else some i
termination_by p.length - i
decreasing_by have := rd_lt h (by omega); omega

/-- `while (*s == '/') ++s;` -/
def skipSlashes (s : List Nat) (i : Nat) : Option Nat :=
  match h : rd s i with
  | none => none
  | some c => if hc : c = C_SLASH then skipSlashes s (i + 1) else some i
termination_by s.length - i
decreasing_by have := rd_lt h (by omega); omega

/-- The scan for the end of a `[...]` class in `pm()`:
`while (*end != '\0' && *end != ']') { if (*end == '\\' && end[1] != '\0') ++end; ++end; }` -/
def classEnd (p : List Nat) (i : Nat) : Option Nat :=
  match h : rd p i with
  | none => none
  | some c =>
    if hz : c = 0 then some i
    else if c = C_RBRACK then some i
    else if c = C_BSL then
      match rd p (i + 1) with
      | none => none
      | some d => if d ≠ 0 then classEnd p (i + 2) else classEnd p (i + 1)
    else classEnd p (i + 1)
termination_by p.length - i
decreasing_by
  all_goals (have := rd_lt h hz; omega)

/-- `strchr(s + i, '/')` / `wcschr`: `some none` = NULL, `some (some j)` = `s + j`. -/
def strchrSlash (s : List Nat) (i : Nat) : Option (Option Nat) :=
  match h : rd s i with
  | none => none
  | some c =>
    if c = C_SLASH then some (some i)
    else if hz : c = 0 then some none
    else strchrSlash s (i + 1)
termination_by s.length - i
decreasing_by have := rd_lt h hz; omega

theorem slashskip_ge {s : List Nat} {i j : Nat} (h : slashskip s i = some j) : i ≤ j := by
  fun_induction slashskip s i <;> simp_all <;> omega

theorem skipStars_ge {s : List Nat} {i j : Nat} (h : skipStars s i = some j) : i ≤ j := by
  fun_induction skipStars s i <;> simp_all <;> omega

theorem skipSlashes_ge {s : List Nat} {i j : Nat} (h : skipSlashes s i = some j) : i ≤ j := by
  fun_induction skipSlashes s i <;> simp_all <;> omega

theorem classEnd_ge {s : List Nat} {i j : Nat} (h : classEnd s i = some j) : i ≤ j := by
  fun_induction classEnd s i <;> simp_all <;> omega

theorem strchrSlash_ge {s : List Nat} {i j : Nat} (h : strchrSlash s i = some (some j)) : i ≤ j := by
  fun_induction strchrSlash s i <;> simp_all <;> omega

theorem skipStars_gt {s : List Nat} {i j : Nat} (h0 : rd s i = some C_STAR)
    (h : skipStars s i = some j) : i < j := by
  unfold skipStars at h
  split at h
  · cases h
  · rename_i c hc
    rw [h0] at hc; cases hc
    simp only [dite_true] at h
    have := skipStars_ge h; omega

theorem slashskip_gt {s : List Nat} {i j : Nat} (h0 : rd s i = some C_SLASH)
    (h : slashskip s i = some j) : i < j := by
  unfold slashskip at h
  split at h
  · cases h
  · rename_i c hc
    rw [h0] at hc; cases hc
    simp only [dite_true] at h
    have := slashskip_ge h; omega

theorem strchrSlash_at {s : List Nat} {i j : Nat} (h : strchrSlash s i = some (some j)) :
    rd s j = some C_SLASH := by
  fun_induction strchrSlash s i <;> simp_all

/-- `if (s[0] == '.' && s[1] == '/') s = pm_slashskip(s + 1);` at the top of `pm()`. -/
def dotSlash (s : List Nat) (i : Nat) : Option Nat :=
  match rd s i with
  | none => none
  | some c =>
    if c = C_DOT then
      match rd s (i + 1) with
      | none => none
      | some d => if d = C_SLASH then slashskip s (i + 1) else some i
    else some i

theorem dotSlash_ge {s : List Nat} {i j : Nat} (h : dotSlash s i = some j) : i ≤ j := by
  unfold dotSlash at h
  split at h
  · cases h
  · split at h
    · split at h
      · cases h
      · split at h
        · have := slashskip_ge h; omega
        · cases h; omega
    · cases h; omega

/-! ### `pm`, `__archive_pathmatch` -/

/-- Lexicographic descent on triples, in the arithmetic form `omega` understands. -/
theorem lex3 {a b c a' b' c' : Nat}
    (h : a < a' ∨ (a = a' ∧ (b < b' ∨ (b = b' ∧ c < c')))) :
    Prod.Lex (· < ·) (Prod.Lex (· < ·) (· < ·)) (a, b, c) (a', b', c') := by
  rcases h with h | ⟨rfl, h | ⟨rfl, h⟩⟩
  · exact .left _ _ h
  · exact .right _ (.left _ _ h)
  · exact .right _ (.right _ h)

mutual

/-- `__archive_pathmatch(p + pi, s + si, flags)` / `__archive_pathmatch_w` with both
pointers non-NULL.  (`pm()` re-enters here from its `*` case through the
`archive_pathmatch` macro, with the *current* flags.) -/
def matchAt (cfg : Cfg) (p s : List Nat) (fl : Flags) (pi si : Nat) : Res :=
  match hp : rd p pi with
  | none => .oob
  | some c0 =>
    -- Empty pattern only matches the empty string.
    if c0 = 0 then
      match rd s si with
      | none => .oob
      | some d => .ofBool (d = 0)
    -- Leading '^' anchors the start of the pattern: `++p; flags &= ~PATHMATCH_NO_ANCHOR_START;`
    else if c0 = C_CARET then matchBody cfg p s { fl with noStart := false } (pi + 1) si
    else matchBody cfg p s fl pi si
termination_by (p.length + 1 - pi, 3, 1)
decreasing_by
  · apply lex3; omega
  · apply lex3; omega

/-- `__archive_pathmatch` after the `^` test. -/
def matchBody (cfg : Cfg) (p s : List Nat) (fl : Flags) (pi si : Nat) : Res :=
  match hp1 : rd p pi with
  | none => .oob
  | some c =>
    match rd s si with
    | none => .oob
    | some d =>
      if c = C_SLASH ∧ d ≠ C_SLASH then .no
      -- Certain patterns anchor implicitly.
      else if c = C_STAR ∨ c = C_SLASH then
        match hp2 : skipSlashes p pi, skipSlashes s si with
        | some pi2, some si2 => pm cfg p s fl pi2 si2
        | _, _ => .oob
      -- If start is unanchored, try to match start of each path element.
      else if fl.noStart then unanch cfg p s fl pi si
      -- Default: Match from beginning.
      else pm cfg p s fl pi si
termination_by (p.length + 1 - pi, 3, 0)
decreasing_by
  · have h2 := skipSlashes_ge hp2
    apply lex3; omega
  · apply lex3; omega
  · apply lex3; omega

/-- `for ( ; s != NULL; s = strchr(s, '/')) { if (*s == '/') s++; if (pm(p, s, flags)) return (1); } return (0);` -/
def unanch (cfg : Cfg) (p s : List Nat) (fl : Flags) (pi si : Nat) : Res :=
  match hs : rd s si with
  | none => .oob
  | some d =>
    -- `if (*s == '/') s++;` (written out twice instead of a `let`, which keeps the proofs simple)
    match pm cfg p s fl pi (if d = C_SLASH then si + 1 else si) with
    | .yes => .yes
    | .oob => .oob
    | .no =>
      match hc : strchrSlash s (if d = C_SLASH then si + 1 else si) with
      | none => .oob
      | some none => .no
      | some (some sj) => unanch cfg p s fl pi sj
termination_by (p.length + 1 - pi, 2, s.length + 1 - si)
decreasing_by
  · apply lex3; omega
  · have h1 := rd_le hs
    have h2 := strchrSlash_ge hc
    have h3 := strchrSlash_at hc
    have : si < sj := by
      by_cases hd : d = C_SLASH
      · simp only [hd, dite_true] at h2; omega
      · simp only [hd, dite_false] at h2
        rcases Nat.lt_or_eq_of_le h2 with h | h
        · omega
        · subst h; rw [hs] at h3; cases h3; exact absurd rfl hd
    have := rd_le h3
    apply lex3; omega

/-- `pm(p + pi, s + si, flags)` / `pm_w`: the part before the `for (;;)`. -/
def pm (cfg : Cfg) (p s : List Nat) (fl : Flags) (pi si : Nat) : Res :=
  -- Ignore leading './', './/', '././', etc.
  match dotSlash s si with
  | none => .oob
  | some si1 =>
    match hp : dotSlash p pi with
    | none => .oob
    | some pi1 => pmLoop cfg p s fl pi1 si1
termination_by (p.length + 1 - pi, 1, 0)
decreasing_by
  have := dotSlash_ge hp
  apply lex3; omega

/-- One iteration of the `for (;;)` of `pm()` / `pm_w()` with `p = p + pi`, `s = s + si`. -/
def pmLoop (cfg : Cfg) (p s : List Nat) (fl : Flags) (pi si : Nat) : Res :=
  match hp : rd p pi with
  | none => .oob
  | some c =>
    if hc0 : c = 0 then
      match rd s si with
      | none => .oob
      | some d =>
        if d = C_SLASH then
          if fl.noEnd then .yes
          else
            -- "dir" == "dir/" == "dir/."
            match slashskip s si with
            | none => .oob
            | some sj =>
              match rd s sj with
              | none => .oob
              | some d' => .ofBool (d' = 0)
        else .ofBool (d = 0)
    else if c = C_QUEST then
      -- ? always succeeds, unless we hit end of 's'
      match rd s si with
      | none => .oob
      | some d => if d = 0 then .no else pmLoop cfg p s fl (pi + 1) (si + 1)
    else if hstar : c = C_STAR then
      -- "*" == "**" == "***" ...
      match hsk : skipStars p pi with
      | none => .oob
      | some pj =>
        match rd p pj with
        | none => .oob
        | some c' =>
          -- Trailing '*' always succeeds.
          if c' = 0 then .yes else star cfg p s fl pj si
    else if c = C_LBRACK then
      -- Find the end of the [...] character class, ignoring \] within it.
      match he : classEnd p (pi + 1) with
      | none => .oob
      | some e =>
        match rd p e with
        | none => .oob
        | some ce =>
          match rd s si with
          | none => .oob
          | some d =>
            if ce = C_RBRACK then
              -- We found [...], try to match it.
              if cfg.guardClass ∧ d = 0 then .no
              else
                match pmList cfg p (pi + 1) e d with
                | none => .oob
                | some false => .no
                | some true => pmLoop cfg p s fl (e + 1) (si + 1)   -- p = end; ++p; ++s
            else
              -- No final ']', so just match '['.
              if c ≠ d then .no else pmLoop cfg p s fl (pi + 1) (si + 1)
    else if c = C_BSL then
      match rd p (pi + 1) with
      | none => .oob
      | some c1 =>
        match rd s si with
        | none => .oob
        | some d =>
          -- Trailing '\\' matches itself.
          if c1 = 0 then
            if d ≠ C_BSL then .no else pmLoop cfg p s fl (pi + 1) (si + 1)
          else
            if c1 ≠ d then .no else pmLoop cfg p s fl (pi + 2) (si + 1)
    else if hsl : c = C_SLASH then
      match rd s si with
      | none => .oob
      | some d =>
        if d ≠ C_SLASH ∧ d ≠ 0 then .no
        else
          match hpj : slashskip p pi, slashskip s si with
          | some pj, some sj =>
            match rd p pj with
            | none => .oob
            | some c' =>
              if c' = 0 ∧ fl.noEnd then .yes
              -- `--p; --s;` then `++p; ++s;`: no read in between, so the net
              -- effect is modelled (s - 1 may be formed but is never dereferenced)
              else pmLoop cfg p s fl pj sj
          | _, _ => .oob
    else
      -- '$' is special only at end of pattern and only if NO_ANCHOR_END is given.
      match rd p (pi + 1) with
      | none => .oob
      | some c1 =>
        if c = C_DOLLAR ∧ c1 = 0 ∧ fl.noEnd then
          match slashskip s si with
          | none => .oob
          | some sj =>
            match rd s sj with
            | none => .oob
            | some d' => .ofBool (d' = 0)
        else
          match rd s si with
          | none => .oob
          | some d => if c ≠ d then .no else pmLoop cfg p s fl (pi + 1) (si + 1)
termination_by (p.length + 1 - pi, 0, 0)
decreasing_by
  all_goals have hlt := rd_lt hp hc0
  all_goals apply lex3
  · omega
  · have := skipStars_gt (hstar ▸ hp) hsk; omega
  · have := classEnd_ge he; omega
  · omega
  · omega
  · omega
  · have := slashskip_gt (hsl ▸ hp) hpj; omega
  · omega

/-- `while (*s) { if (archive_pathmatch(p, s, flags)) return (1); ++s; } return (0);` -/
def star (cfg : Cfg) (p s : List Nat) (fl : Flags) (pi si : Nat) : Res :=
  match hs : rd s si with
  | none => .oob
  | some d =>
    if hd : d = 0 then .no
    else
      match matchAt cfg p s fl pi si with
      | .yes => .yes
      | .oob => .oob
      | .no => star cfg p s fl pi (si + 1)
termination_by (p.length + 1 - pi, 4, s.length + 1 - si)
decreasing_by
  · apply lex3; omega
  · have := rd_lt hs hd
    apply lex3; omega

end

/-- `__archive_pathmatch(p, s, flags)` / `__archive_pathmatch_w`; `none` is a NULL pointer. -/
def pathmatch (cfg : Cfg) (p s : Option (List Nat)) (fl : Flags) : Res :=
  match p, s with
  | none, none => .yes
  | none, some s => .ofBool (s.isEmpty)   -- `*s == '\0'`: s + 0 is always readable
  | some p, none => .ofBool (p.isEmpty)   -- `*p == '\0'` then `s == NULL`; else `s == NULL` → 0
  | some p, some s => matchAt cfg p s fl 0 0

end LA.Pm
