/-
Model of libarchive/archive_entry_link_resolver.c (property C17).

The C keeps `struct links_entry` records in a chained hash table keyed by
`dev ^ ino`.  Which chain a record lives in is not observable through the API
except through the order in which draining calls return records; the property
does not constrain that order.  The model therefore keeps the live records in a
plain list (insertion order) and takes the index of the record to drain as an
explicit argument (`drainAt k`, `partialAt k`): every choice the hash order can
make is some `k`, so theorems quantified over all `k` cover every bucket
layout, including any number of `grow_hash` calls.

C integer detail that is kept: `links` is `unsigned int`, set to `nlink - 1` and
pre-decremented in `find_entry`; both wrap modulo 2^32 here as in C.
-/
import LA.Model.Util
namespace LA.Lnk

inductive Strategy | tar | mtree | oldCpio | newCpio
  deriving DecidableEq, Repr

/-- File types that matter to the resolver. -/
inductive FType | reg | dir | blk | chr | lnk | fifo
  deriving DecidableEq, Repr

/-- What the resolver can see or change of an `archive_entry`.  `tag` stands for
the entry's identity (the harness stores it in the pathname). -/
structure Ent where
  tag : Nat
  dev : Int
  ino : Int
  nlink : Nat
  ftype : FType
  sizeSet : Bool := true
  hardlink : Option Nat := none   -- tag of the entry whose pathname it links to
  deriving DecidableEq, Repr

/-- `struct links_entry` without the chain pointers. -/
structure LE where
  dev : Int
  ino : Int
  canon : Nat            -- tag (pathname) of the clone made at insertion
  held : Option Ent      -- `le->entry`
  links : Nat            -- `unsigned int`, kept in [0, 2^32)
  deriving DecidableEq, Repr

structure State where
  strategy : Strategy
  tbl : List LE := []
  deriving Repr

def u32dec (n : Nat) : Nat := (n + 4294967295) % 4294967296

def LE.hasKey (le : LE) (d i : Int) : Bool := le.dev == d && le.ino == i

/-- `find_entry`: locate the record with this key, decrement its count, drop it
from the table when the count reaches zero.  Returns the record *after* the
decrement (with the entry it held) together with the new table.  `h` is what the
caller stores into `le->entry` through the returned pointer when the record
stays in the table (tar and mtree leave it alone, new cpio swaps entries). -/
def findEntry (tbl : List LE) (d i : Int) (h : Option Ent → Option Ent) :
    Option LE × List LE :=
  match tbl with
  | [] => (none, [])
  | le :: rest =>
    if le.hasKey d i then
      let le' := { le with links := u32dec le.links }
      if le'.links > 0 then (some le', { le' with held := h le'.held } :: rest)
      else (some le', rest)
    else
      let (r, rest') := findEntry rest d i h
      (r, le :: rest')

/-- The record `insert_entry` creates: `canonical` is a clone of the entry,
`links = nlink - 1` in `unsigned int` arithmetic. -/
def LE.ofEnt (e : Ent) (held : Option Ent) : LE :=
  { dev := e.dev, ino := e.ino, canon := e.tag, held := held, links := u32dec (e.nlink % 4294967296) }

def insertEntry (tbl : List LE) (e : Ent) (held : Option Ent) : List LE :=
  tbl ++ [LE.ofEnt e held]

def Ent.mkLink (e : Ent) (canon : Nat) (unsetSize : Bool) : Ent :=
  { e with hardlink := some canon, sizeSet := if unsetSize then false else e.sizeSet }

def passthrough (e : Ent) : Bool :=
  e.nlink == 1 || e.ftype == .dir || e.ftype == .blk || e.ftype == .chr

/-- `archive_entry_linkify(res, &e, &f)` with a non-NULL `e`.
Result: new state, `*e` after the call, `*f` after the call. -/
def push (s : State) (e : Ent) : State × Option Ent × Option Ent :=
  if passthrough e then (s, some e, none) else
  match s.strategy with
  | .oldCpio => (s, some e, none)
  | .tar =>
    match findEntry s.tbl e.dev e.ino id with
    | (some le, tbl') => ({ s with tbl := tbl' }, some (e.mkLink le.canon true), none)
    | (none, _) => ({ s with tbl := insertEntry s.tbl e none }, some e, none)
  | .mtree =>
    match findEntry s.tbl e.dev e.ino id with
    | (some le, tbl') => ({ s with tbl := tbl' }, some (e.mkLink le.canon false), none)
    | (none, _) => ({ s with tbl := insertEntry s.tbl e none }, some e, none)
  | .newCpio =>
    match findEntry s.tbl e.dev e.ino (fun _ => some e) with
    | (some le, tbl') =>
      let out := le.held.map fun o => o.mkLink le.canon true
      if le.links == 0 then ({ s with tbl := tbl' }, out, some e)
      else ({ s with tbl := tbl' }, out, none)
    | (none, _) => ({ s with tbl := insertEntry s.tbl e (some e) }, none, none)

/-- Remove the `k`-th element satisfying `p` (counting modulo the number of such
elements); `none` iff there is none. -/
def takeNth (p : LE → Bool) : List LE → Nat → Option (LE × List LE)
  | [], _ => none
  | le :: rest, k =>
    if p le then
      match k with
      | 0 => some (le, rest)
      | k + 1 =>
        match takeNth p rest k with
        | some (x, rest') => some (x, le :: rest')
        | none => some (le, rest)      -- wrap: fewer than k+1 candidates
    else
      match takeNth p rest k with
      | some (x, rest') => some (x, le :: rest')
      | none => none

/-- `archive_entry_linkify(res, &e, &f)` with `*e == NULL`:
`next_entry(NEXT_ENTRY_DEFERRED)`. -/
def drainAt (s : State) (k : Nat) : State × Option Ent :=
  match takeNth (fun le => le.held.isSome) s.tbl k with
  | some (le, tbl') => ({ s with tbl := tbl' }, le.held)
  | none => (s, none)

/-- `archive_entry_partial_links`: `next_entry(NEXT_ENTRY_PARTIAL)`; returns the
canonical clone's tag and the remaining link count. -/
def partialAt (s : State) (k : Nat) : State × Option (Nat × Nat) :=
  match takeNth (fun le => le.held.isNone) s.tbl k with
  | some (le, tbl') => ({ s with tbl := tbl' }, some (le.canon, le.links))
  | none => (s, none)

inductive Op
  | push (e : Ent)
  | drain (k : Nat)
  | partialLinks (k : Nat)
  deriving Repr

/-- Entries handed back to the caller by one operation. -/
def step (s : State) : Op → State × List Ent
  | .push e =>
    let (s', a, b) := push s e
    (s', a.toList ++ b.toList)
  | .drain k =>
    let (s', a) := drainAt s k
    (s', a.toList)
  | .partialLinks k => ((partialAt s k).1, [])

def run (s : State) : List Op → State × List Ent
  | [] => (s, [])
  | op :: ops =>
    let (s1, o1) := step s op
    let (s2, o2) := run s1 ops
    (s2, o1 ++ o2)

/-- Entries still held inside the resolver. -/
def heldOf (tbl : List LE) : List Ent := tbl.filterMap (·.held)

/-- Call `linkify(NULL)` until it answers NULL, with the choices `ks` (one per
call; the list is long enough when it is at least as long as the table). -/
def drainLoop (s : State) : List Nat → State × List Ent
  | [] => (s, [])
  | k :: ks =>
    match drainAt s k with
    | (s', some e) => let (s'', es) := drainLoop s' ks; (s'', e :: es)
    | (s', none) => (s', [])

end LA.Lnk
