/-
C10 — Metadata a format cannot hold is reported, never silently altered.

Part 1: the numeric formatters (`LA.Model.NumFmt`, exact models of the C functions, tied to
the C by the `codec` engine's `fmt` / `atol` ops).  For every formatter:
  * the overflow indication is returned exactly when the value does not fit the field,
  * the output has exactly the field width (nothing is written outside the field) and on
    overflow the field is saturated,
  * what was written without an overflow indication parses back to the value with the
    reader's own parser.
Where the unchanged code violates this (gnutar `format_octal` on negative values, the binary
cpio 16/32-bit stores) the full statement is kept as a `def … : Prop`, its negation is proved
with a concrete witness and a `_partial` theorem names what is excluded.
-/
import LA.Lemmas.NumFmt
import LA.Lemmas.NumFmt256
import LA.Lemmas.UstarSpec
import LA.Lemmas.Stream
import LA.Lemmas.Cpio
namespace LA.C10
open LA.NumFmt LA.Codec

/-- The value fits a field of `s` digits in base `b`. -/
def fits (b : Nat) (s : Nat) (v : Int) : Prop := 0 ≤ v ∧ v < ((b ^ s : Nat) : Int)
instance (b s : Nat) (v : Int) : Decidable (fits b s v) := by unfold fits; infer_instance

/-! ### ustar / v7tar `format_octal` -/

theorem ustar_octal_overflow_iff (v : Int) (s : Nat) :
    (ustarFormatOctal v s).1 = true ↔ ¬ fits 8 s v := by
  rw [ustarFormatOctal_eq]
  unfold fits
  by_cases hneg : v < 0
  · simp only [if_pos hneg]; constructor
    · intro _ h; omega
    · intro _; trivial
  · rw [if_neg hneg]
    by_cases hfit : v.toNat < 8 ^ s
    · rw [if_pos hfit]; constructor
      · intro h; cases h
      · intro h; exact absurd ⟨by omega, by omega⟩ h
    · rw [if_neg hfit]; constructor
      · intro _ h; omega
      · intro _; rfl

example : (ustarFormatOctal 262144 6).1 = true ∧ (ustarFormatOctal 262143 6).1 = false := by decide

theorem ustar_octal_field_width_exact (v : Int) (s : Nat) : (ustarFormatOctal v s).2.length = s := by
  rw [ustarFormatOctal_eq]
  split
  · simp
  · split <;> simp [octHead_length]

/-- On overflow the field is saturated: all '0' for a negative value, all '7' otherwise. -/
theorem ustar_octal_saturates (v : Int) (s : Nat) (h : (ustarFormatOctal v s).1 = true) :
    (ustarFormatOctal v s).2 = List.replicate s (if v < 0 then c0 else c7) := by
  rw [ustarFormatOctal_eq] at *
  by_cases hneg : v < 0
  · simp only [if_pos hneg]
  · simp only [if_neg hneg] at *
    split at h
    · cases h
    · rename_i hne; rw [if_neg hne]

/-- What `format_octal` wrote without complaint is read back exactly by `tar_atol`, whatever
non-digit (terminator) or field end follows.  `s ≤ 20`: an `int64_t` octal field. -/
theorem tar_atol_ustar_octal_roundtrip (v : Int) (s : Nat) (tail : List Nat)
    (hs : 0 < s) (hs20 : s ≤ 20) (hok : (ustarFormatOctal v s).1 = false)
    (ht : tail = [] ∨ ∃ c r, tail = c :: r ∧ nonOctal c) :
    tarAtol ((ustarFormatOctal v s).2 ++ tail) = v := by
  have hfit : fits 8 s v := Decidable.byContradiction fun hc => by
    rw [← ustar_octal_overflow_iff] at hc; rw [hok] at hc; cases hc
  obtain ⟨h0, hlt⟩ := hfit
  have hnn : ¬ v < 0 := by omega
  have hvn : v.toNat < 8 ^ s := by omega
  have hbytes : (ustarFormatOctal v s).2 = octHead v.toNat s := by
    rw [ustarFormatOctal_eq, if_neg hnn, if_pos hvn]
  have hbound : v.toNat ≤ 1152921504606846975 := by
    have h1 : 8 ^ s ≤ 8 ^ 20 := Nat.pow_le_pow_right (by decide) hs20
    have h2 : (8 : Nat) ^ 20 = 1152921504606846976 := by decide
    omega
  rw [hbytes, tarAtol_octHead _ _ _ hs hvn hbound ht]
  omega

example : tarAtol ((ustarFormatOctal 1000 6).2 ++ [32, 0]) = 1000 := by decide

/-! ### ustar / v7tar `format_number` -/

/-- Strict mode (what the ustar and v7tar writers use) is plain `format_octal`. -/
theorem ustar_number_strict (v : Int) (s m : Nat) : ustarFormatNumber v s m true = ustarFormatOctal v s := by
  unfold ustarFormatNumber; rfl

/-- Non-strict mode (pax) never reports an overflow: it extends into the terminators and
finally switches to base-256.  (Whether base-256 then holds the value is
`tar_atol256_format256_roundtrip` below — in an 8-byte field it does not for |v| ≥ 2^62.) -/
theorem ustar_number_nonstrict_never_overflows (v : Int) (s m : Nat) (hs : s ≤ m) :
    (ustarFormatNumber v s m false).1 = false := by
  unfold ustarFormatNumber
  simp only [Bool.false_eq_true, if_false]
  by_cases hv : v ≥ 0
  · simp only [if_pos hv]
    -- the loop only ever returns a `format_octal` of a value that fits
    have key : ∀ n s', (numLoop v s' n).elim True (fun r => r.1 = false) := by
      intro n
      induction n with
      | zero => intro s'; simp [numLoop]
      | succ n ih =>
        intro s'
        simp only [numLoop]
        by_cases hlt : v < 8 ^ s'
        · simp only [if_pos hlt, Option.elim]
          have hf : fits 8 s' v := ⟨hv, by rw [int_pow8] at hlt; exact hlt⟩
          cases hb : (ustarFormatOctal v s').1
          · rfl
          · exact absurd hf ((ustar_octal_overflow_iff v s').1 hb)
        · simp only [if_neg hlt]; exact ih (s' + 1)
    have := key (m + 1 - s) s
    cases hn : numLoop v s (m + 1 - s) with
    | none => rfl
    | some r => rw [hn] at this; exact this
  · simp only [if_neg hv]

example : (ustarFormatNumber 2097152 6 8 false).1 = false ∧ (ustarFormatNumber (-5) 6 8 false).1 = false := by decide

/-! ### base-256 fields (`format_256`, used by gnutar and by pax for what octal cannot hold) -/

/-- Full-strength statement: whatever `format_number` stores base-256 in an 8-byte field
(uid, gid, mode, rdev of gnutar / pax) is read back by `tar_atol`. -/
def tar_atol_format256_8_full : Prop := ∀ v : Int, isI64 v → tarAtol (format256 v 8) = v

/-- Witness: 2^62 comes back as -2^62 (the reader takes the sign from bit 62 of an 8-byte field,
the writer never reports an overflow: `ustar_number_nonstrict_never_overflows`). This is the
root of the recorded findings C10-gnutar-silent / C10-pax-silent for ids ≥ 2^62. -/
theorem tar_atol_format256_8_false : ¬ tar_atol_format256_8_full := by
  intro h
  have := h 4611686018427387904 (by unfold isI64 I64_MIN I64_MAX; omega)
  rw [format256_8_not_exact] at this
  omega

/-- Inside ±2^62 the 8-byte base-256 field is exact, negatives included. -/
theorem tar_atol_format256_8_partial (v : Int) (h1 : -4611686018427387904 ≤ v) (h2 : v < 4611686018427387904) :
    tarAtol (format256 v 8) = v := tarAtol_format256_8 v h1 h2

example : tarAtol (format256 (-5) 8) = -5 := by decide

/-- The 12-byte field (size) holds every `int64_t`, negatives included. -/
theorem tar_atol_format256_12_roundtrip (v : Int) (hv : isI64 v) : tarAtol (format256 v 12) = v :=
  tarAtol_format256_12 v hv

example : isI64 (-9223372036854775808) ∧ tarAtol (format256 (-9223372036854775808) 12) = -9223372036854775808 := by decide

/-- The pax writer's mtime field: `USTAR_mtime_max_size` is 11 but the reader parses 12 bytes, so a
base-256 mtime (any negative time) is read with the terminating blank as its low byte:
-1 → -224 (recorded finding C10-pax-silent). -/
theorem pax_mtime_11_of_12_bytes_witness : tarAtol (format256 (-1) 11 ++ [32]) = -224 :=
  format256_11_in_12_not_exact

/-! ### gnutar `format_octal` — the full statement is false of the unchanged code -/

/-- Full-strength statement for gnutar's `format_octal`. -/
def gnutar_octal_overflow_iff_full : Prop :=
  ∀ (v : Int) (s : Nat), (gnutarFormatOctal v s).1 = true ↔ ¬ fits 8 s v

/-- Witness: mtime = -1 into the 11-digit field: stored as 00000000000, returns 0. -/
theorem gnutar_octal_overflow_iff_false : ¬ gnutar_octal_overflow_iff_full := by
  intro h
  have := (h (-1) 11).2 (by unfold fits; omega)
  revert this; decide

/-- A negative value is silently stored as zero. -/
theorem gnutar_octal_negative_stored_as_zero (v : Int) (s : Nat) (h : v < 0) :
    gnutarFormatOctal v s = (false, List.replicate s c0) := by
  rw [gnutarFormatOctal_eq]
  simp only [if_pos h]
  have : (0 : Int).toNat < 8 ^ s := pow_pos8 s
  rw [if_pos this]
  show (false, octHead 0 s) = _
  rw [octHead_zero]

/-- Excluding negative values the indication is exact. -/
theorem gnutar_octal_overflow_iff_partial (v : Int) (s : Nat) (hv : 0 ≤ v) :
    (gnutarFormatOctal v s).1 = true ↔ ¬ fits 8 s v := by
  rw [gnutarFormatOctal_eq]
  have hnn : ¬ v < 0 := by omega
  simp only [if_neg hnn]
  unfold fits
  by_cases hfit : v.toNat < 8 ^ s
  · rw [if_pos hfit]; constructor
    · intro h; cases h
    · intro h; exact absurd ⟨hv, by omega⟩ h
  · rw [if_neg hfit]; constructor
    · intro _ h; omega
    · intro _; rfl

example : (gnutarFormatOctal 8589934592 11).1 = true ∧ (0 : Int) ≤ 8589934592 := by decide

theorem gnutar_octal_field_width_exact (v : Int) (s : Nat) : (gnutarFormatOctal v s).2.length = s := by
  rw [gnutarFormatOctal_eq]
  by_cases h : (if v < 0 then 0 else v).toNat < 8 ^ s
  · rw [if_pos h]; exact octHead_length _ _
  · rw [if_neg h]; simp

/-! ### cpio odc `format_octal`, newc `format_hex` -/

theorem odc_octal_overflow_iff (v : Int) (d : Nat) : (odcFormatOctal v d).1 = true ↔ ¬ fits 8 d v := by
  rw [odcFormatOctal_eq]; unfold fits
  by_cases h : 0 ≤ v ∧ v.toNat < 8 ^ d
  · rw [if_pos h]; constructor
    · intro h'; cases h'
    · intro h'; exact absurd ⟨h.1, by omega⟩ h'
  · rw [if_neg h]; constructor
    · intro _ h'; exact h ⟨h'.1, by omega⟩
    · intro _; rfl

example : (odcFormatOctal 262144 6).1 = true ∧ (odcFormatOctal 262143 6).1 = false := by decide

theorem odc_octal_field_width_exact (v : Int) (d : Nat) : (odcFormatOctal v d).2.length = d := by
  rw [odcFormatOctal_eq]; split <;> simp [octHead_length]

/-- On overflow (including negative values) the field holds the maximum. -/
theorem odc_octal_saturates (v : Int) (d : Nat) (h : (odcFormatOctal v d).1 = true) :
    (odcFormatOctal v d).2 = List.replicate d c7 := by
  rw [odcFormatOctal_eq] at *
  split at h
  · cases h
  · rename_i hne; rw [if_neg hne]

/-- The cpio reader's `atol8` returns what `format_octal` stored without complaint
(field of at most 21 digits: no `uint64_t` wrap). -/
theorem cpio_atol8_odc_roundtrip (v : Int) (d : Nat) (tail : List Nat) (hd : d ≤ 21)
    (hok : (odcFormatOctal v d).1 = false)
    (ht : tail = [] ∨ ∃ c r, tail = c :: r ∧ ¬(c0 ≤ c ∧ c ≤ c7)) :
    ((cpioAtol8 ((odcFormatOctal v d).2 ++ tail) 0 : Nat) : Int) = v := by
  have hfit : fits 8 d v := Decidable.byContradiction fun hc => by
    rw [← odc_octal_overflow_iff] at hc; rw [hok] at hc; cases hc
  obtain ⟨h0, hlt⟩ := hfit
  have hvn : v.toNat < 8 ^ d := by omega
  rw [odcFormatOctal_eq, if_pos ⟨h0, hvn⟩]
  have h1 : 8 ^ d ≤ 8 ^ 21 := Nat.pow_le_pow_right (by decide) hd
  have h2 : (8 : Nat) ^ 21 = 9223372036854775808 := by decide
  rw [cpioAtol8_octHead _ _ _ _ (by rw [Nat.mod_eq_of_lt hvn]; omega), cpioAtol8_stop _ _ ht]
  rw [Nat.mod_eq_of_lt hvn]; omega

example : cpioAtol8 ((odcFormatOctal 4242 6).2 ++ [48]) 0 ≠ 4242 := by decide   -- a digit must not follow
example : cpioAtol8 ((odcFormatOctal 4242 6).2) 0 = 4242 := by decide

theorem newc_hex_overflow_iff (v : Int) (d : Nat) : (newcFormatHex v d).1 = true ↔ ¬ fits 16 d v := by
  rw [newcFormatHex_eq]; unfold fits
  by_cases h : 0 ≤ v ∧ v.toNat < 16 ^ d
  · rw [if_pos h]; constructor
    · intro h'; cases h'
    · intro h'; exact absurd ⟨h.1, by omega⟩ h'
  · rw [if_neg h]; constructor
    · intro _ h'; exact h ⟨h'.1, by omega⟩
    · intro _; rfl

example : (newcFormatHex 4294967296 8).1 = true ∧ (newcFormatHex 4294967295 8).1 = false := by decide

theorem newc_hex_field_width_exact (v : Int) (d : Nat) : (newcFormatHex v d).2.length = d := by
  rw [newcFormatHex_eq]; split <;> simp [hexHead_length]

theorem newc_hex_saturates (v : Int) (d : Nat) (h : (newcFormatHex v d).1 = true) :
    (newcFormatHex v d).2 = List.replicate d 102 := by
  rw [newcFormatHex_eq] at *
  split at h
  · cases h
  · rename_i hne; rw [if_neg hne]

/-- The cpio reader's `atol16` returns what `format_hex` stored without complaint. -/
theorem cpio_atol16_newc_roundtrip (v : Int) (d : Nat) (hd : d ≤ 15)
    (hok : (newcFormatHex v d).1 = false) :
    ((cpioAtol16 (newcFormatHex v d).2 0 : Nat) : Int) = v := by
  have hfit : fits 16 d v := Decidable.byContradiction fun hc => by
    rw [← newc_hex_overflow_iff] at hc; rw [hok] at hc; cases hc
  obtain ⟨h0, hlt⟩ := hfit
  have hvn : v.toNat < 16 ^ d := by omega
  rw [newcFormatHex_eq, if_pos ⟨h0, hvn⟩]
  have h1 : 16 ^ d ≤ 16 ^ 15 := Nat.pow_le_pow_right (by decide) hd
  have h2 : (16 : Nat) ^ 15 = 1152921504606846976 := by decide
  have := cpioAtol16_hexHead v.toNat d 0 [] (by rw [Nat.mod_eq_of_lt hvn]; omega)
  rw [List.append_nil] at this
  rw [this, Nat.mod_eq_of_lt hvn]
  show ((cpioAtol16 [] (0 * 16 ^ d + v.toNat) : Nat) : Int) = v
  simp only [cpioAtol16]; omega

example : cpioAtol16 (newcFormatHex 3735928559 8).2 0 = 3735928559 := by decide

/-! ### ar `format_octal` / `format_decimal` -/

theorem ar_format_overflow_iff (b : Nat) (hb : 2 ≤ b) (v : Int) (s : Nat) (hs : 0 < s) :
    (arFormat b v s).1 = true ↔ ¬ fits b s v := by
  obtain ⟨s', rfl⟩ : ∃ s', s = s' + 1 := ⟨s - 1, by omega⟩
  unfold arFormat fits
  by_cases hneg : v < 0
  · simp only [if_pos hneg]; constructor
    · intro _ h; omega
    · intro _; trivial
  · simp only [if_neg hneg]
    have hspec := (arLoop_spec b hb s' v.toNat).2
    by_cases h0 : (arLoop b v.toNat (s' + 1)).2.1 = 0
    · rw [if_pos h0]; constructor
      · intro h; cases h
      · intro h; exact absurd ⟨by omega, by have := hspec.1 h0; omega⟩ h
    · rw [if_neg h0]; constructor
      · intro _ h; exact h0 (hspec.2 (by omega))
      · intro _; rfl

example : (arFormat 10 1000000 6).1 = true ∧ (arFormat 10 999999 6).1 = false := by decide

theorem ar_format_field_width_exact (b : Nat) (hb : 2 ≤ b) (v : Int) (s : Nat) (hs : 0 < s) :
    (arFormat b v s).2.length = s := by
  obtain ⟨s', rfl⟩ : ∃ s', s = s' + 1 := ⟨s - 1, by omega⟩
  unfold arFormat
  split
  · simp
  · simp only []
    split
    · simp only [List.length_append, List.length_replicate]; exact (arLoop_spec b hb s' v.toNat).1
    · simp

/-! ### binary cpio: 16 / 32-bit stores carry no overflow indication -/

/-- The reader's `header[o] + header[o+1] * 256`. -/
def le16 : List Nat → Nat
  | [a, b] => a + b * 256
  | _ => 0

/-- Full-strength statement: the store is exact (no two values share a representation). -/
def bin16_exact_full : Prop := ∀ v : Int, isI64 v → ((le16 (bin16 v) : Nat) : Int) = v

theorem bin16_exact_false : ¬ bin16_exact_full := by
  intro h
  have := h 65536 (by unfold isI64 I64_MIN I64_MAX; omega)
  revert this; decide

/-- Inside 0 … 65535 the store is exact. -/
theorem bin16_exact_partial (v : Int) (h0 : 0 ≤ v) (h1 : v < 65536) : ((le16 (bin16 v) : Nat) : Int) = v := by
  unfold bin16 le16
  simp only []
  have : (v % 65536).toNat = v.toNat := by omega
  rw [this]; omega

example : le16 (bin16 65535) = 65535 ∧ le16 (bin16 65536) = 0 := by decide

/-! ## Part 2: the ustar header writer (`archive_write_ustar_header` →
`__archive_write_format_header_ustar`) against the tar reader (`header_common`, `header_ustar`)

`ustarWriteHeader` is the byte-exact model of the writer (equal to the C on every generated
entry, engine `codec`); `ustarDecode` / `tarChecksumOk` model the reader.  "Exact" is
`(norm .ustar e).mismatch rb 0 = none`: every field ustar carries reads back as given
(pathname up to the directory '/'), the very predicate the engine evaluates on the real code. -/

/-- Full-strength C10 for ustar: plain success ⇒ the header decodes to the entry. -/
def ok_implies_exact_ustar_full : Prop :=
  ∀ (st : WState) (e : Entry) (b : List Nat) (st' : WState), wfEntry e →
    ustarWriteHeader st e = (.ok, b, st') →
    ∃ rb rem, ustarDecode b false = some (rb, rem) ∧ (norm .ustar e).mismatch rb 0 = none

/-- The witness `known_findings.json` C10-tar-regslash replays on the real code: a regular
file named "a/" is written with ARCHIVE_OK and reads back as a directory. -/
def regSlashWitness : Entry := { path := some [97, 47], ftype := .reg, size := some 0 }

theorem ok_implies_exact_ustar_false : ¬ ok_implies_exact_ustar_full := by
  intro h
  have hwf : wfEntry regSlashWitness := by
    refine ⟨?_, ?_, ?_, ?_, ?_⟩
    · intro p hp; cases hp; intro c hc
      simp only [List.mem_cons, List.mem_nil_iff, or_false] at hc
      rcases hc with rfl | rfl <;> decide
    all_goals intro c hc; cases hc
  have hnf : ustarFailed regSlashWitness [97, 47] 0 none true = false := by decide
  have hok : ustarWriteHeader {} regSlashWitness
      = (.ok, ustarHdr regSlashWitness [97, 47] 0, { remaining := 0, padding := 0 }) := by
    unfold ustarWriteHeader
    simp only [regSlashWitness, dirSlash, Entry.sizeV]
    simp [ustarFormatHeader, ustarHdr, hnf, pad512]
    exact hnf
  obtain ⟨rb, rem, hdec, hmis⟩ := h {} regSlashWitness _ _ hwf hok
  have hspec := ustarDecode_ustarHdr regSlashWitness [97, 47] 0 48
    (by intro c hc; simp only [List.mem_cons, List.mem_nil_iff, or_false] at hc; rcases hc with rfl | rfl <;> decide)
    (by intro c hc; cases hc) (by intro c hc; cases hc) (by intro c hc; cases hc) hnf (by decide)
    (by intro p hp; have hw : ustarSplit [97, 47] = .whole := by decide
        rw [hw] at hp; cases hp)
  rw [hspec] at hdec
  have hrb : ustarSpecRB regSlashWitness [97, 47] 0 48
      = some ({ path := [97, 47], ftype := 16384, perm := 420, size := some 0, mtime := some 0 }, 0) := by decide
  rw [hrb] at hdec
  cases hdec
  revert hmis
  decide

/-- **C10 for ustar** (`ok_implies_exact_ustar`, with what the unchanged code forces us to
exclude named): if `archive_write_ustar_header` returns ARCHIVE_OK then the 512 bytes it
produced pass the reader's checksum test and decode to an entry that agrees with the one
handed in on every field ustar carries.  Excluded: a regular file whose name ends in '/'
(finding C10-tar-regslash) and a name split whose prefix ends in '/' (finding
C10-ustar-dblslash); `hlinks`: an entry names at most one kind of link. -/
theorem ok_implies_exact_ustar_partial (st : WState) (e : Entry) (b : List Nat) (st' : WState)
    (hwf : wfEntry e) (hok : ustarWriteHeader st e = (.ok, b, st'))
    (hlinks : e.hard ≠ [] → e.sym = [])
    (hnotrail : ∀ p0, e.path = some p0 → e.ftype = .reg → e.hard = [] → p0.getLast? ≠ some slash)
    (hnodbl : ∀ p0 k, e.path = some p0 → ustarSplit (dirSlash e.ftype p0) = .split k →
      ((dirSlash e.ftype p0).take k).getLast? ≠ some slash) :
    tarChecksumOk b = true ∧
    ∃ rb rem, ustarDecode b false = some (rb, rem) ∧ (norm .ustar e).mismatch rb 0 = none := by
  obtain ⟨p0, hp, hnf, hb, _⟩ := ustarWriteHeader_ok st e b st' hok
  rw [hb]
  have hpath := wfStr_dirSlash e.ftype p0 (hwf.1 p0 hp)
  have hlink := wfStr_tarLink e hwf
  refine ⟨tarChecksumOk_ustarHdr e _ _ hpath hlink hwf.2.1 hwf.2.2.1, ?_⟩
  obtain ⟨_, _, _, _, _, htype⟩ := ustarFailed_false e _ _ hnf
  obtain ⟨t, ht⟩ := Option.isSome_iff_exists.1 htype
  have hdec := ustarDecode_ustarHdr e _ _ t hpath hlink hwf.2.1 hwf.2.2.1 hnf ht (fun k hk => hnodbl p0 k hp hk)
  obtain ⟨⟨rb, rem⟩, hs⟩ := ustarSpecRB_isSome e (dirSlash e.ftype p0) t ht
  rw [hs] at hdec
  exact ⟨rb, rem, hdec, ustar_agrees e p0 hp (hnotrail p0 hp) hlinks t ht rb rem hs⟩

set_option maxRecDepth 16384 in
/-- The hypotheses are satisfiable by a non-trivial entry: a 120-byte name that is split at a '/'. -/
example : ∃ e : Entry, (ustarWriteHeader {} e).1 = .ok ∧ e.uid = 262143 ∧
    (∃ k, ustarSplit (e.path.getD []) = .split k) :=
  ⟨{ path := some (List.replicate 40 100 ++ [47] ++ List.replicate 79 110), uid := 262143, mtime := 1000000000,
     uname := [117], size := some 5 }, by decide, rfl, ⟨40, by decide⟩⟩

/-- The contrapositive, which is C10's own wording: an entry that does *not* read back exactly
cannot have been answered with plain success.  E.g. uid 2^18, a 33-byte uname, a socket. -/
theorem ustar_out_of_range_is_reported (st : WState) (e : Entry) (hfail :
    ∀ p0, e.path = some p0 →
      ustarFailed e (dirSlash e.ftype p0) (ustarSize e) none true = true) :
    (ustarWriteHeader st e).1 ≠ .ok := by
  unfold ustarWriteHeader
  cases hp : e.path with
  | none => simp
  | some p0 =>
    simp only []
    have := hfail p0 hp
    unfold ustarSize at this
    simp [ustarFormatHeader, this]

example : (ustarWriteHeader {} { path := some [97], uid := 262144 }).1 = .failed := by decide
example : (ustarWriteHeader {} { path := some [97], uname := List.replicate 33 117 }).1 = .failed := by decide
example : (ustarWriteHeader {} { path := some [97], ftype := .sock }).1 = .failed := by decide
example : (ustarWriteHeader {} { path := none }).1 = .failed := by decide

/-- A refused header contributes no bytes: `archive_write_ustar_header` returns before
`__archive_write_output` (this is why a refused entry leaves the archive readable — the stream
theorem of C02 then applies to the accepted entries alone). -/
theorem ustar_refused_writes_nothing (st : WState) (e : Entry) (h : (ustarWriteHeader st e).1 ≠ .ok) :
    ustarWriteHeader st e = (.failed, [], st) := ustarWriteHeader_refused st e h

/-- **A refused entry leaves an archive that still reads back as the accepted entries** (ustar):
whatever entries are offered, refused ones in any position, the archive reads back as exactly
the accepted ones, in order, each exact, and ends cleanly. -/
theorem refused_keeps_archive_readable_ustar (es : List (Entry × List (List Nat)))
    (hes : ∀ ec ∈ es, UstarEntryOK ec.1) (bpb : Nat) (bilb : Int) :
    ∃ rbs fmt, tarRead false (writeArchive .ustar es bpb bilb) 0 LA.Gen.CodecConsts.ARCHIVE_FORMAT_TAR []
        = ⟨fmt, rbs, .eof, rbs.length + 1⟩ ∧
      AllPairs ReadsBackAs (es.filter fun ec => ustarAccepted ec.1) rbs := by
  unfold writeArchive
  simp only [closeBytes]
  rw [List.append_assoc, List.replicate_append_replicate]
  obtain ⟨rbs, fmt, h, hall⟩ := tarRead_entries es hes {}
    (1024 + clientPad ((writeEntries .ustar {} es).1 ++ List.replicate 1024 0).length bpb bilb)
    0 LA.Gen.CodecConsts.ARCHIVE_FORMAT_TAR [] (by omega)
  refine ⟨rbs, fmt, ?_, hall⟩
  rw [h]; simp

/-- e.g. accepted, refused (uid 2^18), accepted. -/
example : ([({ path := some [97] }, []), ({ path := some [98], uid := 262144 }, []), ({ path := some [99] }, [])]
    : List (Entry × List (List Nat))).filter (fun ec => ustarAccepted ec.1)
    = [({ path := some [97] }, []), ({ path := some [99] }, [])] := by decide

/-! ## Part 3: the cpio odc header writer (`write_header` of archive_write_set_format_cpio_odc.c,
as repaired: saturated fields are reported with ARCHIVE_WARN) against the cpio reader's `atol8` -/

open LA.Gen.CpioLayout in
/-- **C10 for cpio odc**: if `write_header` returns plain ARCHIVE_OK, every numeric field of the
76-byte header — dev, the synthesised ino, mode, uid, gid, nlink, rdev, mtime, namesize, filesize —
parses back with the reader's `atol8` to exactly the value that was formatted, and the header is
followed by the pathname, its NUL and (for a symlink) the target.  Contrapositive: a uid, gid,
dev, nlink, rdev or mtime outside the field cannot be answered with ARCHIVE_OK. -/
theorem ok_implies_exact_odc (st : WState) (e : Entry) (path : List Nat)
    (hok : (odcWriteHeaderCore st e path).st = .ok) :
    ∃ hdr ino, (odcWriteHeaderCore st e path).bytes = hdr ++ path ++ [0] ++ e.sym ∧ hdr.length = odcr_header_size ∧
      ∀ f ∈ odcFields e ino ((path.length : Int) + 1) (cpioFilesize e),
        ((cpioAtol8 (slice hdr f.off f.size) 0 : Nat) : Int) = f.v := by
  unfold odcWriteHeaderCore at hok ⊢
  simp only [] at hok ⊢
  generalize hino : (synthIno st e).1 = ino at hok ⊢
  by_cases h1 : ino > 262143
  · rw [if_pos h1] at hok; cases hok
  · rw [if_neg h1] at hok ⊢
    by_cases h2 : (odcFormatOctal ((path.length : Int) + 1) odcw_namesize_size).1 = true
    · rw [if_pos h2] at hok; cases hok
    · rw [if_neg h2] at hok ⊢
      by_cases h3 : (odcFormatOctal (cpioFilesize e) odcw_filesize_size).1 = true
      · rw [if_pos h3] at hok; cases hok
      · rw [if_neg h3] at hok ⊢
        simp only [] at hok ⊢
        have hov : cpioOverflow odcFormatOctal (odcFields e ino ((path.length : Int) + 1) (cpioFilesize e)) = false := by
          cases hc : cpioOverflow odcFormatOctal (odcFields e ino ((path.length : Int) + 1) (cpioFilesize e)) with
          | false => rfl
          | true => rw [hc] at hok; cases hok
        refine ⟨_, ino, rfl, cpioHeaderBytes_length _ _ _ odcFormatOctal_length (odcFields_in e ino _ _), ?_⟩
        intro f hf
        apply odc_field_roundtrip e ino _ _ f hf
        · -- no field overflowed
          unfold cpioOverflow at hov
          rw [List.any_eq_false] at hov
          have hcounted := hov f hf
          simp only [odcFields, List.mem_cons, List.mem_nil_iff, or_false] at hf
          rcases hf with rfl | rfl | rfl | rfl | rfl | rfl | rfl | rfl | rfl | rfl | rfl
          · decide
          all_goals try (simpa using hcounted)
          · -- the synthesised ino, masked to 18 bits
            rw [odcFormatOctal_eq]
            have hm : 0 ≤ ino % 262144 ∧ (ino % 262144).toNat < 8 ^ odcw_ino_size := by
              have : (8 : Nat) ^ odcw_ino_size = 262144 := by decide
              rw [this]; omega
            rw [if_pos hm]
          · simpa using h2
          · simpa using h3
        · simp only [odcFields, List.mem_cons, List.mem_nil_iff, or_false] at hf
          rcases hf with rfl | rfl | rfl | rfl | rfl | rfl | rfl | rfl | rfl | rfl | rfl <;> (simp only []; decide)

/-- uid 262143 is accepted; one more gives ARCHIVE_WARN (before the repair: ARCHIVE_OK with
262143 stored). -/
example : (odcWriteHeaderCore {} { path := some [97], uid := 262143 } [97]).st = .ok
    ∧ (odcWriteHeaderCore {} { path := some [97], uid := 262144 } [97]).st = .warn
    ∧ (odcWriteHeaderCore {} { path := some [97], mtime := -1 } [97]).st = .warn := by decide

open LA.Gen.CpioLayout in
/-- **C10 for cpio newc** (as repaired): plain ARCHIVE_OK ⇒ every field of the 110-byte header
parses back with the reader's `atol16` to the value that was formatted. -/
theorem ok_implies_exact_newc (st : WState) (e : Entry) (path : List Nat) (dM dm : Int)
    (hpl : path.length < 2147483647)      -- the C keeps the name length in an `int`
    (hok : (newcWriteHeaderCore st e path dM dm).st = .ok) :
    ∃ hdr, (newcWriteHeaderCore st e path dM dm).bytes.take newcr_header_size = hdr ∧ hdr.length = newcr_header_size ∧
      ∀ f ∈ newcFields e dM dm ((path.length : Int) + 1) (cpioFilesize e),
        ((cpioAtol16 (slice hdr f.off f.size) 0 : Nat) : Int) = f.v := by
  unfold newcWriteHeaderCore at hok ⊢
  simp only [] at hok ⊢
  by_cases h3 : (newcFormatHex (cpioFilesize e) newcw_filesize_size).1 = true
  · rw [if_pos h3] at hok; cases hok
  · rw [if_neg h3] at hok ⊢
    simp only [] at hok ⊢
    have hlen := cpioHeaderBytes_length newcFormatHex newcr_header_size
      (newcFields e dM dm ((path.length : Int) + 1) (cpioFilesize e)) newcFormatHex_length (newcFields_in e dM dm _ _)
    have hov : cpioOverflow newcFormatHex (newcFields e dM dm ((path.length : Int) + 1) (cpioFilesize e)) = false
        ∧ ¬ e.ino > 4294967295 := by
      cases hc : cpioOverflow newcFormatHex (newcFields e dM dm ((path.length : Int) + 1) (cpioFilesize e)) with
      | true => rw [hc] at hok; cases hok
      | false =>
        rw [hc] at hok
        refine ⟨rfl, ?_⟩
        intro hi
        simp only [Bool.false_or, decide_eq_true_eq, if_pos hi] at hok
        cases hok
    refine ⟨_, ?_, hlen, ?_⟩
    · rw [List.append_assoc, List.append_assoc, List.append_assoc, List.take_append_of_le_length (by omega),
        List.take_of_length_le (by omega)]
    · intro f hf
      apply newc_field_roundtrip e dM dm _ _ f hf
      · have hov1 := hov.1
        unfold cpioOverflow at hov1
        rw [List.any_eq_false] at hov1
        have hcounted := hov1 f hf
        simp only [newcFields, List.mem_cons, List.mem_nil_iff, or_false] at hf
        rcases hf with rfl | rfl | rfl | rfl | rfl | rfl | rfl | rfl | rfl | rfl | rfl | rfl | rfl | rfl
        · decide
        all_goals try (simpa using hcounted)
        · -- ino masked to 32 bits
          rw [newcFormatHex_eq]
          have hm : 0 ≤ e.ino % 4294967296 ∧ (e.ino % 4294967296).toNat < 16 ^ newcw_ino_size := by
            have : (16 : Nat) ^ newcw_ino_size = 4294967296 := by decide
            rw [this]; omega
          rw [if_pos hm]
        · -- namesize: an `int` + 1 always fits eight hex digits
          rw [newcFormatHex_eq]
          have hm : 0 ≤ (path.length : Int) + 1 ∧ ((path.length : Int) + 1).toNat < 16 ^ newcw_namesize_size := by
            have : (16 : Nat) ^ newcw_namesize_size = 4294967296 := by decide
            rw [this]; omega
          rw [if_pos hm]
        · decide
        · simpa using h3
      · simp only [newcFields, List.mem_cons, List.mem_nil_iff, or_false] at hf
        rcases hf with rfl | rfl | rfl | rfl | rfl | rfl | rfl | rfl | rfl | rfl | rfl | rfl | rfl | rfl <;> (simp only []; decide)

example : (newcWriteHeaderCore {} { path := some [97], uid := 4294967295 } [97] 0 5).st = .ok
    ∧ (newcWriteHeaderCore {} { path := some [97], uid := 4294967296 } [97] 0 5).st = .warn := by decide

end LA.C10
