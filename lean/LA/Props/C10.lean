import LA.Model.NumFmt
namespace LA.C10
end LA.C10
