/-
C01 — Reader is memory-safe and terminates on arbitrary input (the part that is
logic, at the layer every parser goes through).

* `interface_total`: for every byte source script (any blocks, ending in EOF or
  error), every skip script (incl. failing ones) and every sequence of
  peek/consume calls, the representation invariant of the filter is kept; in
  particular the window handed out lies inside the copy buffer allocation or
  inside the current client block (`window_in_bounds`), and the C loop of
  `__archive_read_filter_ahead` always makes progress (`ahead_never_stuck`; its
  termination is the well-founded recursion accepted for `aheadLoop`).
* `filters_capped`: `choose_filters` never stacks more than MAX_NUMBER_FILTERS
  (extracted from the source) decoders, for any bidder behaviour.
Status codes, EOF/FATAL latching at the API level and release-exactly-once are
the state-machine theorems of C07; the copying read's bound is in C06.
-/
import LA.Props.C08
import LA.Model.Filters
namespace LA.C01
open LA.RA LA.C08

/-- **Every reachable state satisfies the representation invariant** — for all
sources, all skip scripts (well-behaved or not) and all call sequences (`runOps`, `OpsOk`:
LA/Props/C08.lean; seek requests on a source without seek callback are refused and change
nothing). -/
theorem interface_total (src : List (List Nat)) (t : Term) (sk : List Int) (cs : Bool) (hs : SrcOk src)
    (ops : List Op) (hops : OpsOk ops) : Inv (runOps (C05.open_ src t sk cs) ops) := by
  have h0 : Inv (C05.open_ src t sk cs) := inv_init src t sk cs hs
  have hn0 : NoSeekSkip (C05.open_ src t sk cs) := Or.inl rfl
  have hc0 : (C05.open_ src t sk cs).canSeek = false := rfl
  generalize C05.open_ src t sk cs = s at h0 hn0 hc0
  induction ops generalizing s with
  | nil => exact h0
  | cons op ops ih =>
    have hops' : OpsOk ops := fun o ho => hops o (List.mem_cons_of_mem _ ho)
    cases op with
    | ahead m =>
      have hm : m ≤ 2 ^ 62 := hops (.ahead m) (by simp)
      have hst := ahead_static s m
      exact ih hops' _ (ahead_refines s m h0 hm).1 (noSeekSkip_of_static hst hn0) (by rw [hst.canSeek]; exact hc0)
    | consume n =>
      have hst := (consume_static s n).1
      exact ih hops' _ (consume_suffix s n h0 hn0).1 (noSeekSkip_of_static hst hn0) (by rw [hst.canSeek]; exact hc0)
    | seek off w =>
      obtain ⟨_, c2⟩ := seek_refused_untouched s off w (Or.inr (Or.inl hc0))
      simp only [runOps, c2]
      exact ih hops' s h0 hn0 hc0

/-- **The same for seekable multi-node sources**, for every skip script and every seek
callback script (errors and block-aligned landings at any invocation) and every sequence of
peeks, consumes and seeks in which the client does not read between a failed seek and the next
successful one: the `dataset[]` bookkeeping stays sound, no index leaves `dataset[]`
(`seek_in_bounds`), and whenever the filter is in step with its source the representation
invariant holds — in particular after every successful seek. -/
theorem interface_total_seek (nodes : List (List Nat)) (blk : Nat → Nat → Nat → Nat) (t : Term) (sk : List Int)
    (cs : Bool) (seeks : List Int) (hne : nodes ≠ []) (ops : List Op) (hops : OpsOk ops)
    (hsafe : opsSafe { openSeekable nodes blk t sk cs with seeks := seeks } true ops = true) :
    CacheOk (runOps { openSeekable nodes blk t sk cs with seeks := seeks } ops) ∧
    (syncAfter { openSeekable nodes blk t sk cs with seeks := seeks } true ops = true →
      Inv (runOps { openSeekable nodes blk t sk cs with seeks := seeks } ops)) := by
  have hi := inv_open nodes blk t sk cs
  have hc := cacheOk_open nodes blk t sk cs hne
  have hr := remaining_open nodes blk t sk cs hne
  have hj : SeekableInv nodes.flatten { openSeekable nodes blk t sk cs with seeks := seeks } true :=
    { bufLt := hi.bufLt, cache := cacheOk_congr (s := openSeekable nodes blk t sk cs) rfl rfl rfl hc,
      seeker := rfl, bytes := rfl, noSeekSkip := Or.inl rfl,
      sync := fun _ => ⟨{ cbIn := hi.cbIn, bufLt := hi.bufLt, clientEq := hi.clientEq, prov := hi.prov,
                          eofSrc := hi.eofSrc, srcOk := hi.srcOk, laterOk := hi.laterOk },
                        0, by show remaining (openSeekable nodes blk t sk cs) = _; rw [hr]; simp⟩ }
  have := (ops_invariant nodes.flatten _ true ops hj hsafe hops).2
  exact ⟨this.cache, fun h => (this.sync h).1⟩

/-- **`__archive_read_filter_seek` never indexes outside `client.dataset[]`**: the model returns
the distinguished status `oob` for an out-of-range index; with sound bookkeeping (one entry per
node) and a behaving seek callback no request of any kind ever produces it. -/
theorem seek_in_bounds (s : State) (off : Int) (w : Whence) (hc : CacheOk s) (hs : s.hasSeeker = true)
    (hcs : s.canSeek = true) (hf : s.fatal = false) (hbl : s.bufSize < 2 ^ 63) (hq : SeeksOk s.seeks) :
    (RA.seek s off w).1 ≠ oob := by
  have h := seek_spec s off w hc hs hcs hf hbl
  cases ht : targetOf s off w with
  | none => rw [ht] at h; simp only [] at h; rw [h]; show (-30 : Int) ≠ -99; decide
  | some t =>
    rw [ht] at h
    simp only [] at h
    rcases h with ⟨_, p2, p3⟩ | ⟨_, p⟩
    · obtain ⟨_, p4⟩ := p3 hq
      unfold oob
      split at p4 <;> omega
    · exact absurd hq p

/-- Where a returned window lives. -/
theorem aheadLoop_shape (s : State) (min : Nat) (w : List Nat) (fc : Bool)
    (h : (aheadLoop s min).1 = .window w fc) :
    (fc = true ∧ w = (aheadLoop s min).2.cb) ∨
    (fc = false ∧ (aheadLoop s min).2.cb = [] ∧
      w = ((aheadLoop s min).2.cblk.drop (aheadLoop s min).2.cnext).take (aheadLoop s min).2.cavail) := by
  fun_induction aheadLoop s min <;> simp_all +zetaDelta

/-- **The window lies inside live memory**: it is either the valid part of the
copy buffer, which ends before the end of the allocation, or the unread tail of
the current client block, which ends exactly at the end of the block. -/
theorem window_in_bounds (s : State) (min : Nat) (hi : Inv s) (hmin : min ≤ 2 ^ 62)
    (w : List Nat) (fc : Bool) (h : (RA.ahead s min).1 = .window w fc) :
    let s' := (RA.ahead s min).2
    (fc = true ∧ w = s'.cb ∧ s'.next + w.length ≤ s'.bufSize) ∨
    (fc = false ∧ w = s'.cblk.drop s'.cnext ∧ s'.cnext + w.length = s'.cblk.length) := by
  intro s'
  have hi' : Inv s' := (ahead_refines s min hi hmin).1
  have hs' : s' = (RA.ahead s min).2 := rfl
  unfold RA.ahead at h hs'
  by_cases hf : s.fatal = true
  · simp [hf] at h
  · have hf' : s.fatal = false := by simpa using hf
    simp only [hf', Bool.false_eq_true, if_false] at h hs'
    rcases aheadLoop_shape s min w fc h with ⟨a1, a2⟩ | ⟨a1, a2, a3⟩
    · left
      rw [← hs'] at a2
      exact ⟨a1, a2, by rw [a2]; exact hi'.cbIn⟩
    · right
      rw [← hs'] at a2 a3
      have hc := hi'.clientEq
      rw [client_take s' hc] at a3
      refine ⟨a1, a3, ?_⟩
      rw [a3]; simp; omega

/-- The `for (;;)` loop of `__archive_read_filter_ahead` never spins without
progress (the `stuck` outcome of the model is unreachable). -/
theorem ahead_never_stuck (s : State) (min : Nat) (hi : Inv s) (hmin : min ≤ 2 ^ 62) :
    (RA.ahead s min).1 ≠ .stuck := (ahead_refines s min hi hmin).2.2.2.2

/-- Non-vacuity of `interface_total` / `window_in_bounds`: a two-block source and
a peek that straddles the block border. -/
example : SrcOk [[1, 2], [3, 4, 5]] ∧ OpsOk [.ahead 3, .consume 2, .seek 0 .set, .ahead 3] := by
  constructor
  · simp [SrcOk]
  · intro op h; simp at h; rcases h with rfl | rfl | rfl | rfl <;> simp

/-- Non-vacuity of `interface_total_seek`: three nodes, a seek callback that fails at its third
invocation, a history with a refused seek followed by a good one and reads. -/
example : opsSafe { openSeekable [[1, 2, 3], [], [4, 5, 6, 7]] (fun _ _ _ => 2) .eof [] true with seeks := [0, 0, -1] }
    true [.seek 9 .set, .seek 5 .set, .seek 1 .other] = true := by decide

open LA.Filters in
theorem chooseLoop_count (bid init verify : Nat → Bool) (left n : Nat) :
    (chooseLoop bid init verify left n).count ≤ n + left := by
  induction left generalizing n with
  | zero => simp [chooseLoop, Result.count]
  | succ l ih =>
    unfold chooseLoop
    split
    · split
      · have := ih (n + 1); omega
      · simp [Result.count]
    · split <;> simp [Result.count]

open LA.Filters in
/-- **The filter pipeline is capped** whatever the bidders answer: a hostile
stream that every bidder keeps claiming cannot build an unbounded chain. -/
theorem filters_capped (bid init verify : Nat → Bool) :
    (chooseFilters bid init verify).count ≤ LA.Gen.Limits.maxNumberFilters := by
  have := chooseLoop_count bid init verify LA.Gen.Limits.maxNumberFilters 0
  simpa [chooseFilters] using this

open LA.Filters in
theorem chooseLoop_all_bid (init verify : Nat → Bool) (left n : Nat) (hi : ∀ i, init i = true) :
    chooseLoop (fun _ => true) init verify left n = .fatal (n + left) := by
  induction left generalizing n with
  | zero => simp [chooseLoop]
  | succ l ih =>
    unfold chooseLoop
    simp only [if_true, hi]
    rw [ih (n + 1)]
    congr 1; omega

open LA.Filters in
/-- A stream that is claimed at every depth is refused, not accepted. -/
theorem endless_nesting_refused (init verify : Nat → Bool) (hi : ∀ i, init i = true) :
    chooseFilters (fun _ => true) init verify = .fatal LA.Gen.Limits.maxNumberFilters := by
  have := chooseLoop_all_bid init verify LA.Gen.Limits.maxNumberFilters 0 hi
  simpa [chooseFilters] using this

end LA.C01
