/-
C09, above the blocking layer: write faults reach the API return value.

Theorems over the model of the write core (`LA.WC`: `__archive_write_output`,
`__archive_write_nulls`, `__archive_write_filters_close`, `_archive_write_header/
_data/_finish_entry/_close/_free`, the raw and ustar writers, and the
b64encode / uuencode write filters as repaired by the `fix:` commit): for every
handle state, every callback and every argument, if any client write callback
invocation made during an API call returns a non-positive value, the call
returns a status `≤ ARCHIVE_FATAL` (an error; the only value below
`ARCHIVE_FATAL` is the model's own out-of-bounds marker, which
`LA.C09.fault_reported` excludes for the client layer).

Before the repair `b64_fault_reported` / `uu_fault_reported` were false:
the output loop kept only the status of its last `__archive_write_filter` call
(`unrepaired_loop_loses_failure` below is that shape in miniature; the real
witness is corpus/C09/cw.b64-fail-once.ops).
-/
import LA.Lemmas.WriteCore
import LA.Gen.WriteCalls
namespace LA.C09
open LA.CW LA.WC LA.Ustar

/-- The API calls that can reach the write callback. -/
inductive ApiCall
  | header (e : Entry)
  | data (d : List Cell)
  | finishEntry
  | close
  | free

def runApi {σ : Type} (W : Writer σ) (w : σ) (h : Handle) : ApiCall → Int × Handle × List Event × σ
  | .header e => apiHeader W w h e
  | .data d => apiData W w h d
  | .finishEntry => apiFinishEntry W w h
  | .close => apiClose W w h
  | .free => apiFree W w h

/-- **C09, faults reach the API.**  Any handle state (any format among raw/ustar,
with or without an encoding filter, any life-cycle state, any buffered data),
any callback, any API call: a non-positive callback answer at any invocation
during the call makes the call return an error. -/
theorem api_fault_reported {σ : Type} (W : Writer σ) (w : σ) (h : Handle) (c : ApiCall)
    (hfree : c = .free → h.state ≠ .fatal)
    (hbad : ∃ e ∈ (runApi W w h c).2.2.1, e.ret ≤ 0) : (runApi W w h c).1 ≤ -30 := by
  cases c with
  | header e => exact apiHeader_bad W w h e hbad
  | data d => exact apiData_bad W w h d hbad
  | finishEntry => exact apiFinishEntry_bad W w h hbad
  | close => exact apiClose_bad W w h hbad
  | free => exact apiFree_bad W w h (hfree rfl) hbad

/-- The ustar writer (header block, body, entry padding, end-of-archive blocks). -/
theorem ustar_fault_reported {σ : Type} (W : Writer σ) (w : σ) (h : Handle) (c : ApiCall)
    (_hfmt : h.fmt = .ustar) (hfree : c = .free → h.state ≠ .fatal)
    (hbad : ∃ e ∈ (runApi W w h c).2.2.1, e.ret ≤ 0) :
    (runApi W w h c).1 ≤ -30 := api_fault_reported W w h c hfree hbad

/-- The b64encode write filter (as repaired). -/
theorem b64_fault_reported {σ : Type} (W : Writer σ) (w : σ) (h : Handle) (c : ApiCall) (e : EncState)
    (_henc : h.enc = some e) (_hk : e.kind = .b64) (hfree : c = .free → h.state ≠ .fatal)
    (hbad : ∃ e ∈ (runApi W w h c).2.2.1, e.ret ≤ 0) :
    (runApi W w h c).1 ≤ -30 := api_fault_reported W w h c hfree hbad

/-- The uuencode write filter (as repaired). -/
theorem uu_fault_reported {σ : Type} (W : Writer σ) (w : σ) (h : Handle) (c : ApiCall) (e : EncState)
    (_henc : h.enc = some e) (_hk : e.kind = .uu) (hfree : c = .free → h.state ≠ .fatal)
    (hbad : ∃ e ∈ (runApi W w h c).2.2.1, e.ret ≤ 0) :
    (runApi W w h c).1 ≤ -30 := api_fault_reported W w h c hfree hbad

/-- Freeing a handle that has already failed closes whatever filters are still open (their
buffers, compressor state and the client's output stream are released) and returns OK: the
failure was reported by the call that made the handle fail. -/
theorem free_after_failure {σ : Type} (W : Writer σ) (w : σ) (h : Handle) (hf : h.state = .fatal) :
    (apiFree W w h).1 = 0 ∧ (apiFree W w h).2.2.1 = (filtersClose W w h).2.2.1 := by
  unfold apiFree
  simp [hf]
  rfl

/-- An open raw-format handle with a b64encode filter in pass-through mode (nothing pending but the trailer). -/
def exHandle : Handle :=
  { state := .header, fmt := .raw, bpb := 0, hasClient := true, cfState := .open, cs := some (clientOpen 0),
    enc := some { kind := .b64, fstate := .open, bs := 65536, hold := [], enc := [] } }

/-- Non-vacuity: closing it with a callback that fails at once is a failing invocation, reported as fatal. -/
example : (∃ e ∈ (runApi scriptWriter [.error] exHandle .close).2.2.1, e.ret ≤ 0) ∧
    (runApi scriptWriter [.error] exHandle .close).1 = -30 := by
  simp [runApi, apiClose, exHandle, hasFinishEntry, formatClose, filtersClose, clientCloseStep, clientClose, imin,
    LA.WC.ok, encCloseStep, encClose, setBil, Enc.trailer, clientFilterWrite, clientWrite, clientOpen, flushLoop,
    Writer.ask, scriptWriter, Ans.ret, stCode, CState.bufSize, LA.WC.fatal]

/-- The shape of the unrepaired output loop: the status of the last
`__archive_write_filter` call is returned, whatever the earlier ones were. -/
def lastStatus : List Int → Int
  | [] => 0
  | [r] => r
  | _ :: rest => lastStatus rest

/-- Why the repair was needed: a failure followed by a success reads as success. -/
theorem unrepaired_loop_loses_failure : lastStatus [-30, 0] = 0 := rfl

/-! ### call-site inventory -/

/-- Recorded baseline: the call sites of `__archive_write_output`, `__archive_write_nulls`,
`__archive_write_filter` in `archive_write_set_format_*.c` and `archive_write_add_filter_*.c`
whose return value is discarded.  Empty since the `fix:` commits for the ar global
header and the two warc record headers (the unrepaired tree had exactly those three). -/
def baselineDiscarded : List (String × String × String × Nat) := []

/-- **C09, no format writer or write filter drops the status of an output call.**
`LA.Gen.WriteCalls.discarded` is regenerated from the source on every check, so a
new statement-expression call `__archive_write_output(...);` breaks this theorem. -/
theorem no_unchecked_output_calls : LA.Gen.WriteCalls.discarded = baselineDiscarded := by decide

/-- Recorded baseline of discarded calls of local helpers that pass an output status on
(`output_byte`, `wb_write_out`, …).  The two remaining sites are in the iso9660 writer's
`zisofs_finish_entry`, which repositions the write buffer of its *temporary file*
(`wb_set_offset` in `WB_TO_TEMP` mode): a temp-file error there does not involve the client
write callback.  The unrepaired tree also had `output_code -> output_byte` twice in the
compress filter (repaired: it swallowed a write error and then overran its buffer). -/
def baselineDiscardedHelpers : List (String × String × String × Nat) :=
  [("archive_write_set_format_iso9660.c", "zisofs_finish_entry", "wb_set_offset", 1),
   ("archive_write_set_format_iso9660.c", "zisofs_finish_entry", "wb_set_offset", 2)]

/-- **C09, no local helper drops an output status either** (beyond the recorded temp-file sites). -/
theorem no_unchecked_helper_calls : LA.Gen.WriteCalls.discardedHelpers = baselineDiscardedHelpers := by decide

/-- The inventory is not empty-handed: it looked at more than a hundred call sites. -/
example : LA.Gen.WriteCalls.callSites ≥ 100 := by decide

end LA.C09
