/-
C08 — Truncated or failing input is reported and never invents data.

Interface-level theorems over the model of the peek/consume window
(`LA.RA`, archive_read.c) and its abstract stream (`Spec`):
* `truncation_prefix`: whatever a client obtains from a truncated stream before
  the first failure is what it obtains from the intact stream;
* `consume_short_is_fatal`: asking to consume more than the stream holds is
  reported (ARCHIVE_FATAL), never a clean short count;
* `callback_fault_is_fatal`, `fatal_is_sticky`: a read error, a failing or
  misbehaving skip callback at any invocation surfaces as a fatal status and
  the filter stays failed;
* `no_invented_data`: under any fault script every window handed to a parser is
  a contiguous piece of the original stream.
With `__archive_read_filter_seek`:
* `seek_never_silent`: whatever the seek callback does (errors at any invocation,
  block-aligned landings), a seek either reports failure or leaves the filter
  consistent exactly at the position it returns; `seek_out_of_range_reported`,
  `seek_callback_fault_reported`; `fatal_is_sticky` covers seek;
* `no_invented_data_seek`: the same for op sequences with seeks on seekable
  multi-node sources, as long as the client does not read between a failed seek
  and the next successful one (`opsSafe`); without that proviso the statement is
  false of the code as it is (`failed_seek_leaves_stream_false`: open finding
  "seek-failure-desync");
* `truncation_prefix` holds for clients that seek with SEEK_SET / SEEK_CUR; with
  SEEK_END a truncated seekable stream is indistinguishable from a shorter one
  (`truncation_prefix_seek_end_false`).
-/
import LA.Props.C05
namespace LA.C08
open LA.RA LA.C05

inductive Ev
  | ahead (o : Obs)
  | consumed (r : Int)
  | seeked (r : Int)
  deriving DecidableEq, Repr

def Ev.failed : Ev → Bool
  | .ahead (.ok _) => false
  | .ahead _ => true
  | .consumed r => r < 0
  | .seeked r => r < 0

/-- Run a client on the abstract stream up to (and including) the first failure
it is told about. -/
def runUntilFail {α : Type} : Prog α → SSpec → List Ev × Option α
  | .ret a, _ => ([], some a)
  | .ahead min _ k, sp =>
    match sspecAhead sp min with
    | (.ok b, sp') => let r := runUntilFail (k (.ok b)) sp'; (.ahead (.ok b) :: r.1, r.2)
    | (o, _) => ([.ahead o], none)
  | .consume n k, sp =>
    let c := sspecConsume sp n
    if c.1 < 0 then ([.consumed c.1], none)
    else let r := runUntilFail (k c.1) c.2; (.consumed c.1 :: r.1, r.2)
  | .seek off w k, sp =>
    let c := specSeek sp off w
    if c.1 < 0 then ([.seeked c.1], none)
    else let r := runUntilFail (k c.1) c.2; (.seeked c.1 :: r.1, r.2)

/-- The client never seeks relative to the end of the stream. -/
def NoSeekEnd {α : Type} : Prog α → Prop
  | .ret _ => True
  | .ahead _ _ k => ∀ o, NoSeekEnd (k o)
  | .consume _ k => ∀ r, NoSeekEnd (k r)
  | .seek _ w k => w ≠ .end_ ∧ ∀ r, NoSeekEnd (k r)

theorem take_prefix (a b : List Nat) (n : Nat) (h : a <+: b) (hn : n ≤ a.length) : a.take n = b.take n := by
  obtain ⟨t, rfl⟩ := h
  rw [List.take_append_of_le_length hn]

theorem drop_prefix (a b : List Nat) (n : Nat) (h : a <+: b) : a.drop n <+: b.drop n := by
  obtain ⟨t, rfl⟩ := h
  by_cases hn : n ≤ a.length
  · rw [List.drop_append_of_le_length hn]; exact List.prefix_append _ _
  · have : a.drop n = [] := List.drop_of_length_le (by omega)
    rw [this]; exact List.nil_prefix

/-- **C08, truncation.**  If the stream a client reads is a prefix of the intact
one (cut at any byte offset, ending in end-of-file or in a callback error),
then either the client cannot tell the difference, or its run on the cut stream
ends in a reported failure and everything it was given before that is exactly
what the intact stream gives it.  The client may seek (SEEK_SET, SEEK_CUR), also
beyond the cut — that seek is then refused. -/
theorem truncation_prefix {α : Type} (p : Prog α) (allT allF : List Nat) (pos : Nat) (tT tF : Term) (cs : Bool)
    (h : allT <+: allF) (hp : NoSeekEnd p) :
    let T := runUntilFail p ⟨allT, pos, tT, false, cs, false⟩
    let F := runUntilFail p ⟨allF, pos, tF, false, cs, false⟩
    T = F ∨ (T.2 = none ∧ ∃ pre last, T.1 = pre ++ [last] ∧ last.failed = true ∧ pre <+: F.1) := by
  induction p generalizing pos with
  | ret a => left; rfl
  | ahead min hm k ih =>
    have hd := drop_prefix _ _ pos h
    by_cases hle : min ≤ (allT.drop pos).length
    · have hle' : min ≤ (allF.drop pos).length := Nat.le_trans hle hd.length_le
      have e : (allT.drop pos).take min = (allF.drop pos).take min := take_prefix _ _ _ hd hle
      have := ih (.ok ((allF.drop pos).take min)) pos (hp _)
      simp only [runUntilFail, sspecAhead_live, hle, hle', e, if_true]
      rcases this with h1 | ⟨h1, pre, last, h2, h3, h4⟩
      · left; rw [h1]
      · right
        refine ⟨h1, Ev.ahead (.ok ((allF.drop pos).take min)) :: pre, last, by simp [h2], h3, ?_⟩
        exact List.cons_prefix_cons.mpr ⟨rfl, h4⟩
    · right
      simp only [runUntilFail, sspecAhead_live, hle, if_false]
      cases tT <;> exact ⟨rfl, [], _, rfl, rfl, List.nil_prefix⟩
  | consume n k ih =>
    have hd := drop_prefix _ _ pos h
    by_cases h1 : n < 0
    · left; simp [runUntilFail, sspecConsume_live, h1]
    · by_cases h2 : n = 0
      · have := ih 0 pos (hp _)
        simp only [runUntilFail, sspecConsume_live, h1, h2, if_false, if_true, Int.lt_irrefl]
        rcases this with e | ⟨e1, pre, last, e2, e3, e4⟩
        · left; rw [e]
        · right
          exact ⟨e1, Ev.consumed 0 :: pre, last, by simp [e2], e3, List.cons_prefix_cons.mpr ⟨rfl, e4⟩⟩
      · by_cases hle : n.toNat ≤ (allT.drop pos).length
        · have hle' : n.toNat ≤ (allF.drop pos).length := Nat.le_trans hle hd.length_le
          have := ih n (pos + n.toNat) (hp _)
          simp only [runUntilFail, sspecConsume_live, h1, h2, hle, hle', if_false, if_true]
          rcases this with e | ⟨e1, pre, last, e2, e3, e4⟩
          · left; rw [e]
          · right
            exact ⟨e1, Ev.consumed n :: pre, last, by simp [e2], e3, List.cons_prefix_cons.mpr ⟨rfl, e4⟩⟩
        · right
          simp only [runUntilFail, sspecConsume_live, h1, h2, hle, if_false]
          cases tT <;> exact ⟨by simp, [], Ev.consumed (-30), by simp, by simp [Ev.failed], List.nil_prefix⟩
  | seek off w k ih =>
    obtain ⟨hw, hk⟩ := hp
    by_cases hcs : cs = true
    · subst hcs
      -- the target does not depend on the length of the stream
      have htg : ∀ all : List Nat, specTarget ⟨all, pos, tT, false, true, false⟩ off w =
          specTarget ⟨allT, pos, tT, false, true, false⟩ off w := by
        intro all; cases w <;> first | rfl | exact absurd rfl hw
      cases ht : specTarget ⟨allT, pos, tT, false, true, false⟩ off w with
      | none =>
        left
        have e1 : specTarget ⟨allT, pos, tT, false, true, false⟩ off w = none := ht
        have e2 : specTarget ⟨allF, pos, tF, false, true, false⟩ off w = none := by
          cases w <;> first | rfl | cases ht | exact absurd rfl hw
        simp [runUntilFail, specSeek, e1, e2]
      | some t =>
        have e1 : specTarget ⟨allT, pos, tT, false, true, false⟩ off w = some t := ht
        have e2 : specTarget ⟨allF, pos, tF, false, true, false⟩ off w = some t := by
          cases w <;> first | exact ht | exact absurd rfl hw
        by_cases hin : 0 ≤ t ∧ t ≤ (allT.length : Int)
        · have hin' : 0 ≤ t ∧ t ≤ (allF.length : Int) := ⟨hin.1, by have := h.length_le; omega⟩
          have := ih t t.toNat (hk _)
          have ht0 : ¬ t < 0 := by omega
          simp only [runUntilFail, specSeek, Bool.false_eq_true, if_false, Bool.not_true, e1, e2, hin, hin',
            and_self, if_true, ht0]
          rcases this with e | ⟨a1, pre, last, a2, a3, a4⟩
          · left; rw [e]
          · right
            exact ⟨a1, Ev.seeked t :: pre, last, by simp [a2], a3, List.cons_prefix_cons.mpr ⟨rfl, a4⟩⟩
        · right
          simp only [runUntilFail, specSeek, Bool.false_eq_true, if_false, Bool.not_true, e1, hin]
          exact ⟨by simp, [], Ev.seeked (-30), by simp, by simp [Ev.failed], List.nil_prefix⟩
    · have hcs' : cs = false := by simpa using hcs
      subst hcs'
      left
      simp [runUntilFail, specSeek]

/-- Non-vacuity: a 3-byte cut of a 5-byte stream, read by a client that peeks 2,
consumes 2, then needs 2 more. -/
example : ([1, 2, 3] : List Nat) <+: [1, 2, 3, 4, 5] := by decide

/-- Non-vacuity with seeks: a client that seeks back and forth without SEEK_END. -/
example : NoSeekEnd (.seek 2 .set fun _ => .ahead 2 (by decide) fun _ => .seek (-1) .cur fun r => .ret r : Prog Int) := by
  refine ⟨by decide, fun _ _ => ⟨by decide, fun _ => trivial⟩⟩

/-- The statement of `truncation_prefix` without the SEEK_END proviso. -/
def TruncationPrefixFull : Prop :=
  ∀ (p : Prog (List Int)) (allT allF : List Nat) (pos : Nat) (tT tF : Term) (cs : Bool), allT <+: allF →
    let T := runUntilFail p ⟨allT, pos, tT, false, cs, false⟩
    let F := runUntilFail p ⟨allF, pos, tF, false, cs, false⟩
    T = F ∨ (T.2 = none ∧ ∃ pre last, T.1 = pre ++ [last] ∧ last.failed = true ∧ pre <+: F.1)

/-- It is false, and not because of the code: "seek to the end" succeeds on a truncated
seekable stream and reports a different position — at this layer a cut seekable stream IS a
shorter stream.  (Readers that locate a trailer from the end — zip, 7zip — detect the cut only
by not finding it.) -/
theorem truncation_prefix_seek_end_false : ¬ TruncationPrefixFull := by
  intro h
  have := h (.seek 0 .end_ fun r => .ret [r]) [1, 2, 3] [1, 2, 3, 4, 5] 0 .eof .eof true (by decide)
  rcases this with e | ⟨e, _⟩
  · exact absurd e (by decide)
  · exact absurd e (by decide)

/-- A body cut short is reported: consuming more than the stream holds returns
ARCHIVE_FATAL (-30), whatever the source's blocks and a well-behaved skipper do. -/
theorem consume_short_is_fatal (s : State) (n : Nat) (hi : Inv s) (hf : s.fatal = false)
    (hsk : SkipsOk s.skips) (hns : NoSeekSkip s) (hlt : (remaining s).length < n) :
    (consume s n).1 = -30 := by
  have hc := (consume_refines s n hi hsk hns).2.1
  rw [hc]
  have h1 : ¬ ((n : Int) < 0) := by omega
  have h2 : ¬ ((n : Int) = 0) := by omega
  have h3 : ¬ n ≤ (remaining s).length := by omega
  simp only [specConsume, h1, h2, if_false, absN, hf, Bool.false_eq_true, Int.toNat_natCast, h3]
  cases s.term <;> rfl

/-- A read-callback error, or a skip callback that fails or claims more than it
was asked for, at any invocation: the call in progress reports failure and the
filter is marked failed. -/
theorem callback_fault_is_fatal (s : State) (n : Nat) (hi : Inv s) (hf : s.fatal = false) (hn : 0 < n)
    (hns : NoSeekSkip s)
    (hneg : (advance s n).1 < 0) : (advance s n).2.fatal = true := by
  obtain ⟨_, _, _, g4⟩ := advance_spec s n hi hf hn hns
  rcases g4 with ⟨a1, _⟩ | ⟨a1, _⟩ | ⟨_, a2, _⟩
  · omega
  · omega
  · exact a2

/-- A failed filter stays failed: every later peek, consume and seek reports failure and
changes nothing. -/
theorem fatal_is_sticky (s : State) (hf : s.fatal = true) (min : Nat) (n : Int) (hn : n ≠ 0) (off : Int) (w : Whence) :
    (ahead s min).1 = .fatal ∧ (ahead s min).2 = s ∧ (consume s n).1 = -30 ∧ (consume s n).2.fatal = true ∧
    RA.seek s off w = (-30, s) := by
  refine ⟨by simp [ahead, hf], by simp [ahead, hf], ?_, ?_, by simp [RA.seek, hf]⟩
  · unfold consume
    by_cases h1 : n < 0
    · simp [h1]
    · simp only [h1, hn, if_false, advance, hf, if_true]
      have : ¬ ((-1 : Int) = n) := by omega
      simp [this]
  · unfold consume
    by_cases h1 : n < 0
    · simp [h1, hf]
    · simp only [h1, hn, if_false, advance, hf, if_true]
      split <;> exact hf

/-! ### Seeks: reported or exact -/

/-- **A seek is never silent.**  For every seek callback script (errors at any invocation,
block-aligned landings), on every state with sound bookkeeping — also one left behind by an
earlier refused seek — `__archive_read_filter_seek` either reports failure (negative status)
or the filter is consistent again, stands exactly at the position it returns, that position is
the target or (aligned seeker) lies before it, and the target was inside the stream. -/
theorem seek_never_silent (s : State) (off : Int) (w : Whence) (t : Int) (hc : CacheOk s) (hs : s.hasSeeker = true)
    (hcs : s.canSeek = true) (hf : s.fatal = false) (hbl : s.bufSize < 2 ^ 63) (ht : targetOf s off w = some t) :
    (RA.seek s off w).1 < 0 ∨
    (Inv (RA.seek s off w).2 ∧ (RA.seek s off w).2.position = (RA.seek s off w).1.toNat ∧
     remaining (RA.seek s off w).2 = (allBytes s).drop (RA.seek s off w).1.toNat ∧
     (RA.seek s off w).1 ≤ t ∧ 0 ≤ t ∧ t ≤ ((allBytes s).length : Int)) := by
  have h := seek_spec s off w hc hs hcs hf hbl
  rw [ht] at h
  simp only [] at h
  rcases h with ⟨p1, p2, _⟩ | ⟨p, _⟩
  · rcases p1 with ok | bad
    · right
      obtain ⟨o1, o2, _, o4, o5, _, _⟩ := ok
      obtain ⟨q1, q2, q3⟩ := p2 o1
      exact ⟨o2, o4, o5, q3, q1, q2⟩
    · left; exact bad.1
  · left; exact p.1

/-- **An out-of-range target is reported**, whatever the seek callback does. -/
theorem seek_out_of_range_reported (s : State) (off : Int) (w : Whence) (t : Int) (hc : CacheOk s)
    (hs : s.hasSeeker = true) (hcs : s.canSeek = true) (hf : s.fatal = false) (hbl : s.bufSize < 2 ^ 63)
    (ht : targetOf s off w = some t) (hout : t < 0 ∨ ((allBytes s).length : Int) < t) :
    (RA.seek s off w).1 < 0 ∧ (RA.seek s off w).2.position = s.position := by
  have h := seek_spec s off w hc hs hcs hf hbl
  rw [ht] at h
  simp only [] at h
  rcases h with ⟨p1, p2, _⟩ | ⟨p, _⟩
  · rcases p1 with ok | bad
    · exfalso
      obtain ⟨q1, q2, _⟩ := p2 ok.1
      omega
    · exact ⟨bad.1, bad.2.1.position⟩
  · exact ⟨p.1, p.2.1.position⟩

/-- Every status a seek can return without a seek callback, on a failed filter, or for an
unknown `whence` is negative and nothing is touched. -/
theorem seek_refused_untouched (s : State) (off : Int) (w : Whence)
    (h : s.fatal = true ∨ s.canSeek = false ∨ w = .other) :
    (RA.seek s off w).1 < 0 ∧ (RA.seek s off w).2 = s := by
  unfold RA.seek
  by_cases hf : s.fatal = true
  · simp [hf]
  · have hf' : s.fatal = false := by simpa using hf
    by_cases hcs : s.canSeek = true
    · rcases h with h | h | h
      · exact absurd h hf
      · rw [h] at hcs; cases hcs
      · subst h; simp [hf', hcs]
    · have : s.canSeek = false := by simpa using hcs
      simp [hf', this]

/-- **A failing seek callback is reported**: if the callback fails at its next invocation with
code `a < 0`, the seek request returns `a` (whatever the target), and `position` stays. -/
theorem seek_callback_fault_reported (s : State) (off : Int) (w : Whence) (a : Int) (hc : CacheOk s)
    (hs : s.hasSeeker = true) (hcs : s.canSeek = true) (hf : s.fatal = false) (hw : w ≠ .other)
    (hh : s.seeks.head? = some a) (ha : a < 0) :
    (RA.seek s off w).1 = a := by
  have hne := hc.ne
  have key : ∀ (stopAt : Option Int), ∃ c1 s1, walkKnown stopAt (s.nodes.length - 1) 0 s = .at_ c1 s1 ∧
      ∃ s2, walkProbe stopAt (s.nodes.length - 1 - c1) c1 s1 = .fail a s2 := by
    intro stopAt
    obtain ⟨c1, s1, e1, _, _, _, _, _, e7, e8⟩ :=
      walkKnown_spec stopAt (s.nodes.length - 1) 0 s hc (known_zero s hc) (passed_zero _ _) (by omega)
    exact ⟨c1, s1, e1, walkProbe_head_fail stopAt _ c1 s1 a (by rw [e7.hasSeeker]; exact hs)
      (by rw [e8.2.2.1]; exact hh) ha⟩
  unfold RA.seek
  simp only [hf, hcs, Bool.false_eq_true, if_false, Bool.not_true]
  cases w with
  | set =>
    obtain ⟨c1, s1, e1, s2, e2⟩ := key (some off)
    simp [seekSet, e1, e2]
  | cur =>
    obtain ⟨c1, s1, e1, s2, e2⟩ := key (some (off + s.position))
    simp [seekSet, e1, e2]
  | end_ =>
    obtain ⟨c1, s1, e1, s2, e2⟩ := key none
    simp [seekEnd, e1, e2]
  | other => exact absurd rfl hw

/-- "A refused seek leaves the stream where it was" — what a caller that probes and falls back
relies on. -/
def FailedSeekLeavesStream : Prop :=
  ∀ (nodes : List (List Nat)) (blk : Nat → Nat → Nat → Nat) (off : Int) (w : Whence), nodes ≠ [] →
    (RA.seek (openSeekable nodes blk .eof [] true) off w).1 < 0 →
    remaining (RA.seek (openSeekable nodes blk .eof [] true) off w).2 = remaining (openSeekable nodes blk .eof [] true)

/-- **Finding (open): it does not.**  Volumes of 5 and 3 bytes, nothing read yet, a seek to offset 9
(one behind the end): it is refused (ARCHIVE_FATAL), `position` is still 0 and `fatal` is not
set — but the client has been switched to the last volume and moved to its end to learn the
sizes, so the 8 bytes that were ahead are gone: the next read-ahead reports end of file.  With
data buffered the buffered bytes are followed by bytes from the other place (replayed on the
real code by the harness, known finding "seek-failure-desync"). -/
theorem failed_seek_leaves_stream_false : ¬ FailedSeekLeavesStream := by
  intro h
  have := h [[1, 2, 3, 4, 5], [6, 7, 8]] (fun _ _ _ => 2) 9 .set (by simp) (by decide +kernel)
  revert this
  decide +kernel

/-- The same refused seek in detail: reported, position and `fatal` unchanged, stream lost. -/
example : (RA.seek (openSeekable [[1, 2, 3, 4, 5], [6, 7, 8]] (fun _ _ _ => 2) .eof [] true) 9 .set).1 = -30 ∧
    (RA.seek (openSeekable [[1, 2, 3, 4, 5], [6, 7, 8]] (fun _ _ _ => 2) .eof [] true) 9 .set).2.position = 0 ∧
    (RA.seek (openSeekable [[1, 2, 3, 4, 5], [6, 7, 8]] (fun _ _ _ => 2) .eof [] true) 9 .set).2.fatal = false ∧
    remaining (RA.seek (openSeekable [[1, 2, 3, 4, 5], [6, 7, 8]] (fun _ _ _ => 2) .eof [] true) 9 .set).2 = [] ∧
    remaining (openSeekable [[1, 2, 3, 4, 5], [6, 7, 8]] (fun _ _ _ => 2) .eof [] true) = [1, 2, 3, 4, 5, 6, 7, 8] := by
  refine ⟨by decide +kernel, by decide +kernel, by decide +kernel, by decide +kernel, by decide +kernel⟩

/-- The same finding on the state the harness reaches by `open` (which peeks one byte: the
first 2-byte block is buffered): after the refused seek to offset 9 the buffered bytes 1, 2 are
followed by nothing — the remaining six bytes are lost, and nothing marks the filter.  This is
the known-finding witness replayed on the real code on every run (`seek 9 set` answers
ARCHIVE_FATAL, the next `ahead 3` a short read of 2 bytes with `end=no`). -/
def afterOpen : State :=
  { openSeekable [[1, 2, 3, 4, 5], [6, 7, 8]] (fun _ _ _ => 2) .eof [] true with
    cblk := [1, 2]
    cavail := 2
    src := [[3, 4], [5]] }

theorem failed_seek_after_open :
    Inv afterOpen ∧ remaining afterOpen = (allBytes afterOpen).drop afterOpen.position ∧
    (RA.seek afterOpen 9 .set).1 = -30 ∧ (RA.seek afterOpen 9 .set).2.position = 0 ∧
    (RA.seek afterOpen 9 .set).2.fatal = false ∧ remaining (RA.seek afterOpen 9 .set).2 = [1, 2] ∧
    remaining afterOpen = [1, 2, 3, 4, 5, 6, 7, 8] := by
  refine ⟨?_, by decide +kernel, by decide +kernel, by decide +kernel, by decide +kernel, by decide +kernel,
    by decide +kernel⟩
  exact { cbIn := by decide +kernel, bufLt := by decide +kernel, clientEq := by decide +kernel,
          prov := ⟨[], [], by decide +kernel, by decide +kernel, by decide +kernel, by decide +kernel⟩,
          eofSrc := (by decide +kernel),
          srcOk := (by intro b hb; simp [afterOpen] at hb; rcases hb with rfl | rfl <;> simp),
          laterOk := (by
            intro n hn
            have : n = [[6, 7], [8]] := by
              have h2 : afterOpen.later = [[[6, 7], [8]]] := by decide +kernel
              rw [h2] at hn; simpa using hn
            subst this
            intro b hb; simp at hb; rcases hb with rfl | rfl <;> simp) }

/-- Non-vacuity of `seek_never_silent` / `seek_callback_fault_reported`: a three-node source
whose seek callback fails with code -7 at its first invocation. -/
example : ({ openSeekable [[1, 2, 3], [], [4, 5, 6, 7]] (fun _ _ _ => 2) .eof [] true with seeks := [-7] } : State).seeks.head? = some (-7) ∧
    (RA.seek { openSeekable [[1, 2, 3], [], [4, 5, 6, 7]] (fun _ _ _ => 2) .eof [] true with seeks := [-7] } 2 .set).1 = -7 :=
  ⟨rfl, by decide +kernel⟩

inductive Op | ahead (min : Nat) | consume (n : Int) | seek (off : Int) (w : Whence)

/-- Windows handed out over a sequence of operations. -/
def windows : State → List Op → List (List Nat)
  | _, [] => []
  | s, .ahead min :: ops =>
    match (RA.ahead s min).1 with
    | .window w _ => w :: windows (RA.ahead s min).2 ops
    | _ => windows (RA.ahead s min).2 ops
  | s, .consume n :: ops => windows (RA.consume s n).2 ops
  | s, .seek off w :: ops => windows (RA.seek s off w).2 ops

/-- State after a sequence of interface operations. -/
def runOps : State → List Op → State
  | s, [] => s
  | s, .ahead m :: ops => runOps (RA.ahead s m).2 ops
  | s, .consume n :: ops => runOps (RA.consume s n).2 ops
  | s, .seek off w :: ops => runOps (RA.seek s off w).2 ops

def OpsOk (ops : List Op) : Prop :=
  ∀ op ∈ ops, match op with | .ahead m => m ≤ 2 ^ 62 | _ => True

theorem consume_suffix (s : State) (n : Int) (hi : Inv s) (hns : NoSeekSkip s) :
    Inv (consume s n).2 ∧ ∃ k, remaining (consume s n).2 = (remaining s).drop k := by
  unfold consume
  by_cases h1 : n < 0
  · simp only [h1, if_true]; exact ⟨hi, 0, by simp⟩
  · by_cases h2 : n = 0
    · simp only [h1, h2, if_false, if_true]; exact ⟨hi, 0, by simp⟩
    · simp only [h1, h2, if_false]
      by_cases hf : s.fatal = true
      · simp only [advance, hf, if_true]
        split <;> exact ⟨hi, 0, by simp⟩
      · have hf' : s.fatal = false := by simpa using hf
        obtain ⟨g1, _, g3, _⟩ := advance_spec s n.toNat hi hf' (by omega) hns
        generalize advance s n.toNat = r at *
        obtain ⟨a, b⟩ := r
        simp only [] at g1 g3 ⊢
        split <;> exact ⟨g1, g3⟩

theorem ahead_suffix (s : State) (m : Nat) (hi : Inv s) (hm : m ≤ 2 ^ 62) :
    Inv (RA.ahead s m).2 ∧ remaining (RA.ahead s m).2 = remaining s ∧
    ∀ w fc, (RA.ahead s m).1 = .window w fc → w <+: remaining s := by
  refine ⟨(ahead_refines s m hi hm).1, ?_, fun w fc h => (window_is_stream_prefix s m hi hm w fc h).1⟩
  unfold RA.ahead
  by_cases hf : s.fatal = true
  · simp [hf]
  · have hf' : s.fatal = false := by simpa using hf
    simp only [hf', Bool.false_eq_true, if_false]
    obtain ⟨_, _, _, g4⟩ := aheadLoop_spec s m hi hf' hm
    generalize aheadLoop s m = r at *
    obtain ⟨r1, s'⟩ := r
    cases r1 with
    | window w fc => exact g4.1
    | short k => exact g4.1
    | fatal => exact g4.1
    | stuck => exact absurd g4 id

/-- The client reads only while the filter is known to be in step with its source: `sy` starts
true, becomes false when a seek fails after it may have moved the client, true again when a
seek succeeds. -/
def opsSafe : State → Bool → List Op → Bool
  | _, _, [] => true
  | s, sy, .ahead m :: ops => sy && opsSafe (RA.ahead s m).2 sy ops
  | s, sy, .consume n :: ops => sy && opsSafe (RA.consume s n).2 sy ops
  | s, sy, .seek off w :: ops =>
    opsSafe (RA.seek s off w).2
      (decide (0 ≤ (RA.seek s off w).1) || (sy && (s.fatal || !s.canSeek || decide (w = .other)))) ops

/-- Whether the filter is in step with its source after the operations. -/
def syncAfter : State → Bool → List Op → Bool
  | _, sy, [] => sy
  | s, sy, .ahead m :: ops => syncAfter (RA.ahead s m).2 sy ops
  | s, sy, .consume n :: ops => syncAfter (RA.consume s n).2 sy ops
  | s, sy, .seek off w :: ops =>
    syncAfter (RA.seek s off w).2
      (decide (0 ≤ (RA.seek s off w).1) || (sy && (s.fatal || !s.canSeek || decide (w = .other)))) ops

/-- What holds of a seekable source at every point of any history. -/
structure SeekableInv (all : List Nat) (s : State) (sy : Bool) : Prop where
  bufLt : s.bufSize < 2 ^ 63
  cache : CacheOk s
  seeker : s.hasSeeker = true
  bytes : allBytes s = all
  noSeekSkip : NoSeekSkip s
  sync : sy = true → Inv s ∧ ∃ k, remaining s = all.drop k

/-- One induction for the two theorems below. -/
theorem ops_invariant (all : List Nat) (s : State) (sy : Bool) (ops : List Op) (hj : SeekableInv all s sy)
    (hsafe : opsSafe s sy ops = true) (hmin : OpsOk ops) :
    (∀ w ∈ windows s ops, ∃ k, w <+: all.drop k) ∧ SeekableInv all (runOps s ops) (syncAfter s sy ops) := by
  induction ops generalizing s sy with
  | nil => exact ⟨fun w hw => by simp [windows] at hw, hj⟩
  | cons op ops ih =>
    have hmin' : OpsOk ops := fun o ho => hmin o (List.mem_cons_of_mem _ ho)
    cases op with
    | ahead m =>
      have hm : m ≤ 2 ^ 62 := hmin (.ahead m) (by simp)
      simp only [opsSafe, Bool.and_eq_true] at hsafe
      obtain ⟨hsy, hsafe'⟩ := hsafe
      obtain ⟨hi, k0, hk0⟩ := hj.sync hsy
      obtain ⟨i1, i2, i3⟩ := ahead_suffix s m hi hm
      have hst := ahead_static s m
      have hj' : SeekableInv all (RA.ahead s m).2 sy :=
        { bufLt := i1.bufLt, cache := cacheOk_of_static hst hj.cache, seeker := by rw [hst.hasSeeker]; exact hj.seeker,
          bytes := by unfold allBytes; rw [hst.nodes]; exact hj.bytes,
          noSeekSkip := noSeekSkip_of_static hst hj.noSeekSkip,
          sync := fun _ => ⟨i1, k0, by rw [i2]; exact hk0⟩ }
      obtain ⟨r1, r2⟩ := ih _ _ hj' hsafe' hmin'
      refine ⟨?_, r2⟩
      intro w hw
      simp only [windows] at hw
      split at hw
      · rename_i w0 fc hwin
        rcases List.mem_cons.mp hw with rfl | hw'
        · exact ⟨k0, by rw [← hk0]; exact i3 w fc hwin⟩
        · exact r1 w hw'
      · exact r1 w hw
    | consume n =>
      simp only [opsSafe, Bool.and_eq_true] at hsafe
      obtain ⟨hsy, hsafe'⟩ := hsafe
      obtain ⟨hi, k0, hk0⟩ := hj.sync hsy
      obtain ⟨i1, k, hk⟩ := consume_suffix s n hi hj.noSeekSkip
      have hst := (consume_static s n).1
      have hj' : SeekableInv all (RA.consume s n).2 sy :=
        { bufLt := i1.bufLt, cache := cacheOk_of_static hst hj.cache, seeker := by rw [hst.hasSeeker]; exact hj.seeker,
          bytes := by unfold allBytes; rw [hst.nodes]; exact hj.bytes,
          noSeekSkip := noSeekSkip_of_static hst hj.noSeekSkip,
          sync := fun _ => ⟨i1, k0 + k, by rw [hk, hk0, List.drop_drop]⟩ }
      obtain ⟨r1, r2⟩ := ih _ _ hj' hsafe' hmin'
      exact ⟨fun w hw => r1 w (by simpa [windows] using hw), r2⟩
    | seek off w =>
      simp only [opsSafe] at hsafe
      have hstep : SeekableInv all (RA.seek s off w).2
          (decide (0 ≤ (RA.seek s off w).1) || (sy && (s.fatal || !s.canSeek || decide (w = .other)))) := by
        by_cases hcl : s.fatal = true ∨ s.canSeek = false ∨ w = .other
        · obtain ⟨c1, c2⟩ := seek_refused_untouched s off w hcl
          have hneg : decide (0 ≤ (RA.seek s off w).1) = false := by simp; omega
          rw [c2, hneg]
          simp only [Bool.false_or]
          exact { hj with sync := fun h => hj.sync (by simp at h; exact h.1) }
        · have hf : s.fatal = false := by
            cases hq : s.fatal
            · rfl
            · exact absurd (Or.inl hq) hcl
          have hcs : s.canSeek = true := by
            cases hq : s.canSeek
            · exact absurd (Or.inr (Or.inl hq)) hcl
            · rfl
          have hw : w ≠ .other := fun hq => hcl (Or.inr (Or.inr hq))
          have hdirty : (sy && (s.fatal || !s.canSeek || decide (w = .other))) = false := by simp [hf, hcs, hw]
          rw [hdirty, Bool.or_false]
          have hsp := seek_spec s off w hj.cache hj.seeker hcs hf hj.bufLt
          have hfr : ∀ s', Filt s s' → CacheOk s' → SeekableInv all s' false := fun s' hfi hc' =>
            { bufLt := by rw [hfi.bufSize]; exact hj.bufLt, cache := hc', seeker := by rw [hfi.hasSeeker]; exact hj.seeker,
              bytes := by unfold allBytes; rw [hfi.nodes]; exact hj.bytes,
              noSeekSkip := by
                have := hj.noSeekSkip
                unfold NoSeekSkip at *; rw [hfi.noSkipper, hfi.hasSeeker]; exact this,
              sync := fun h => by cases h }
          cases ht : targetOf s off w with
          | none => cases w <;> simp [targetOf] at ht; exact absurd rfl hw
          | some t =>
            rw [ht] at hsp
            simp only [] at hsp
            have hfail : SeekFail s (RA.seek s off w) → SeekableInv all (RA.seek s off w).2 (decide (0 ≤ (RA.seek s off w).1)) := by
              intro bad
              have hneg : decide (0 ≤ (RA.seek s off w).1) = false := by simp; exact bad.1
              rw [hneg]; exact hfr _ bad.2.1 bad.2.2
            rcases hsp with ⟨p1, _, _⟩ | ⟨p, _⟩
            · rcases p1 with ok | bad
              · obtain ⟨o1, o2, o3, o4, o5, o6, o7⟩ := ok
                have hpos : decide (0 ≤ (RA.seek s off w).1) = true := by simp; exact o1
                rw [hpos]
                exact { bufLt := o2.bufLt, cache := o3, seeker := by rw [o7.hasSeeker]; exact hj.seeker,
                        bytes := by unfold allBytes; rw [o7.nodes]; exact hj.bytes,
                        noSeekSkip := by
                          have := hj.noSeekSkip
                          unfold NoSeekSkip at *; rw [o7.noSkipper, o7.hasSeeker]; exact this,
                        sync := fun _ => ⟨o2, (RA.seek s off w).1.toNat, by rw [o5, hj.bytes]⟩ }
              · exact hfail bad
            · exact hfail p
      obtain ⟨r1, r2⟩ := ih _ _ hstep hsafe hmin'
      exact ⟨fun w' hw' => r1 w' (by simpa [windows] using hw'), r2⟩

/-- **C08, no invented data (sequential sources).**  For every source script, every skip
script (including failing and misbehaving ones) and every sequence of interface operations
(seek requests are refused by a source that cannot seek and change nothing), each window a
parser is given is a contiguous piece of the original stream. -/
theorem no_invented_data (s : State) (ops : List Op) (hi : Inv s) (hns : NoSeekSkip s) (hcs : s.canSeek = false)
    (hmin : OpsOk ops) :
    ∀ w ∈ windows s ops, ∃ k, w <+: (remaining s).drop k := by
  induction ops generalizing s with
  | nil => intro w hw; simp [windows] at hw
  | cons op ops ih =>
    have hmin' : OpsOk ops := fun o ho => hmin o (List.mem_cons_of_mem _ ho)
    cases op with
    | consume n =>
      obtain ⟨i1, k, hk⟩ := consume_suffix s n hi hns
      have hst := (consume_static s n).1
      intro w hw
      simp only [windows] at hw
      obtain ⟨k', hk'⟩ := ih _ i1 (noSeekSkip_of_static hst hns) (by rw [hst.canSeek]; exact hcs) hmin' w hw
      exact ⟨k + k', by rw [hk, List.drop_drop] at hk'; exact hk'⟩
    | ahead m =>
      have hm : m ≤ 2 ^ 62 := hmin (.ahead m) (by simp)
      obtain ⟨i1, i2, i3⟩ := ahead_suffix s m hi hm
      have hst := ahead_static s m
      intro w hw
      simp only [windows] at hw
      have hrec := ih _ i1 (noSeekSkip_of_static hst hns) (by rw [hst.canSeek]; exact hcs) hmin'
      rw [i2] at hrec
      split at hw
      · rename_i w0 fc hwin
        rcases List.mem_cons.mp hw with rfl | hw'
        · exact ⟨0, by simpa using i3 w fc hwin⟩
        · exact hrec w hw'
      · exact hrec w hw
    | seek off w =>
      obtain ⟨_, c2⟩ := seek_refused_untouched s off w (Or.inr (Or.inl hcs))
      intro w' hw'
      simp only [windows, c2] at hw'
      exact ih s hi hns hcs hmin' w' hw'

/-- **C08, no invented data (seekable sources).**  For a seekable source of any number of
data nodes, every skip script and every seek script (errors and block-aligned landings at any
invocation), and every sequence of peeks, consumes and seeks in which the client does not read
between a failed seek and the next successful one: each window a parser is given is a
contiguous piece of the stream. -/
theorem no_invented_data_seek (s : State) (ops : List Op) (hi : Inv s) (hc : CacheOk s) (hs : s.hasSeeker = true)
    (hns : NoSeekSkip s) (hsync : ∃ k, remaining s = (allBytes s).drop k)
    (hsafe : opsSafe s true ops = true) (hmin : OpsOk ops) :
    ∀ w ∈ windows s ops, ∃ k, w <+: (allBytes s).drop k :=
  (ops_invariant (allBytes s) s true ops
    { bufLt := hi.bufLt, cache := hc, seeker := hs, bytes := rfl, noSeekSkip := hns, sync := fun _ => ⟨hi, hsync⟩ }
    hsafe hmin).1

/-- Non-vacuity of `no_invented_data_seek`: three nodes, a failing seek callback (third
invocation), a history that seeks out of range, recovers with a good seek and reads on. -/
example : opsSafe (openSeekable [[1, 2, 3], [], [4, 5, 6, 7]] (fun _ _ _ => 2) .eof [] true) true
    [.seek 9 .set, .seek 5 .set, .seek 99 .other] = true ∧
    OpsOk [.seek 9 .set, .seek 5 .set, .ahead 2, .consume 1] := by
  refine ⟨by decide, ?_⟩
  intro op h; simp at h; rcases h with rfl | rfl | rfl | rfl <;> simp

end LA.C08
