import LA.Model.ReadAhead
namespace LA.C08
end LA.C08
