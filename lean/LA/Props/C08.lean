/-
C08 — Truncated or failing input is reported and never invents data.

Interface-level theorems over the model of the peek/consume window
(`LA.RA`, archive_read.c) and its abstract stream (`Spec`):
* `truncation_prefix`: whatever a client obtains from a truncated stream before
  the first failure is what it obtains from the intact stream;
* `consume_short_is_fatal`: asking to consume more than the stream holds is
  reported (ARCHIVE_FATAL), never a clean short count;
* `callback_fault_is_fatal`, `fatal_is_sticky`: a read error, a failing or
  misbehaving skip callback at any invocation surfaces as a fatal status and
  the filter stays failed;
* `no_invented_data`: under any fault script every window handed to a parser is
  a contiguous piece of the original stream.
-/
import LA.Props.C05
namespace LA.C08
open LA.RA LA.C05

inductive Ev
  | ahead (o : Obs)
  | consumed (r : Int)
  deriving DecidableEq, Repr

def Ev.failed : Ev → Bool
  | .ahead (.ok _) => false
  | .ahead _ => true
  | .consumed r => r < 0

/-- Run a client on the abstract stream up to (and including) the first failure
it is told about. -/
def runUntilFail {α : Type} : Prog α → Spec → List Ev × Option α
  | .ret a, _ => ([], some a)
  | .ahead min _ k, sp =>
    match specAhead sp min with
    | (.ok b, sp') => let r := runUntilFail (k (.ok b)) sp'; (.ahead (.ok b) :: r.1, r.2)
    | (o, _) => ([.ahead o], none)
  | .consume n k, sp =>
    let c := specConsume sp n
    if c.1 < 0 then ([.consumed c.1], none)
    else let r := runUntilFail (k c.1) c.2; (.consumed c.1 :: r.1, r.2)

theorem take_prefix (a b : List Nat) (n : Nat) (h : a <+: b) (hn : n ≤ a.length) : a.take n = b.take n := by
  obtain ⟨t, rfl⟩ := h
  rw [List.take_append_of_le_length hn]

theorem drop_prefix (a b : List Nat) (n : Nat) (h : a <+: b) : a.drop n <+: b.drop n := by
  obtain ⟨t, rfl⟩ := h
  by_cases hn : n ≤ a.length
  · rw [List.drop_append_of_le_length hn]; exact List.prefix_append _ _
  · have : a.drop n = [] := List.drop_of_length_le (by omega)
    rw [this]; exact List.nil_prefix

/-- **C08, truncation.**  If the stream a client reads is a prefix of the intact
one (cut at any byte offset, ending in end-of-file or in a callback error),
then either the client cannot tell the difference, or its run on the cut stream
ends in a reported failure and everything it was given before that is exactly
what the intact stream gives it. -/
theorem truncation_prefix {α : Type} (p : Prog α) (remT remF : List Nat) (tT tF : Term)
    (h : remT <+: remF) :
    let T := runUntilFail p ⟨remT, tT, false⟩
    let F := runUntilFail p ⟨remF, tF, false⟩
    T = F ∨ (T.2 = none ∧ ∃ pre last, T.1 = pre ++ [last] ∧ last.failed = true ∧ pre <+: F.1) := by
  induction p generalizing remT remF with
  | ret a => left; rfl
  | ahead min hm k ih =>
    by_cases hle : min ≤ remT.length
    · have hle' : min ≤ remF.length := Nat.le_trans hle h.length_le
      have e : remT.take min = remF.take min := take_prefix _ _ _ h hle
      have := ih (.ok (remF.take min)) remT remF h
      simp only [runUntilFail, specAhead, hle, hle', e, if_true, Bool.false_eq_true, if_false]
      rcases this with h1 | ⟨h1, pre, last, h2, h3, h4⟩
      · left; rw [h1]
      · right
        refine ⟨h1, Ev.ahead (.ok (remF.take min)) :: pre, last, by simp [h2], h3, ?_⟩
        exact List.cons_prefix_cons.mpr ⟨rfl, h4⟩
    · right
      simp only [runUntilFail, specAhead, hle, if_false, Bool.false_eq_true]
      cases tT <;> exact ⟨rfl, [], _, rfl, rfl, List.nil_prefix⟩
  | consume n k ih =>
    by_cases h1 : n < 0
    · left; simp [runUntilFail, specConsume, h1]
    · by_cases h2 : n = 0
      · have := ih 0 remT remF h
        simp only [runUntilFail, specConsume, h1, h2, if_false, if_true, Int.lt_irrefl]
        rcases this with e | ⟨e1, pre, last, e2, e3, e4⟩
        · left; rw [e]
        · right
          exact ⟨e1, Ev.consumed 0 :: pre, last, by simp [e2], e3, List.cons_prefix_cons.mpr ⟨rfl, e4⟩⟩
      · by_cases hle : n.toNat ≤ remT.length
        · have hle' : n.toNat ≤ remF.length := Nat.le_trans hle h.length_le
          have := ih n (remT.drop n.toNat) (remF.drop n.toNat) (drop_prefix _ _ _ h)
          simp only [runUntilFail, specConsume, h1, h2, hle, hle', if_false, if_true, Bool.false_eq_true]
          rcases this with e | ⟨e1, pre, last, e2, e3, e4⟩
          · left; rw [e]
          · right
            exact ⟨e1, Ev.consumed n :: pre, last, by simp [e2], e3, List.cons_prefix_cons.mpr ⟨rfl, e4⟩⟩
        · right
          simp only [runUntilFail, specConsume, h1, h2, hle, if_false, Bool.false_eq_true]
          cases tT <;> exact ⟨by simp, [], Ev.consumed (-30), by simp, by simp [Ev.failed], List.nil_prefix⟩

/-- Non-vacuity: a 3-byte cut of a 5-byte stream, read by a client that peeks 2,
consumes 2, then needs 2 more. -/
example : ([1, 2, 3] : List Nat) <+: [1, 2, 3, 4, 5] := by decide

/-- A body cut short is reported: consuming more than the stream holds returns
ARCHIVE_FATAL (-30), whatever the source's blocks and a well-behaved skipper do. -/
theorem consume_short_is_fatal (s : State) (n : Nat) (hi : Inv s) (hf : s.fatal = false)
    (hsk : SkipsOk s.skips) (hns : NoSeekSkip s) (hlt : (remaining s).length < n) :
    (consume s n).1 = -30 := by
  have hc := (consume_refines s n hi hsk hns).2.1
  rw [hc]
  have h1 : ¬ ((n : Int) < 0) := by omega
  have h2 : ¬ ((n : Int) = 0) := by omega
  have h3 : ¬ n ≤ (remaining s).length := by omega
  simp only [specConsume, h1, h2, if_false, absN, hf, Bool.false_eq_true, Int.toNat_natCast, h3]
  cases s.term <;> rfl

/-- A read-callback error, or a skip callback that fails or claims more than it
was asked for, at any invocation: the call in progress reports failure and the
filter is marked failed. -/
theorem callback_fault_is_fatal (s : State) (n : Nat) (hi : Inv s) (hf : s.fatal = false) (hn : 0 < n)
    (hns : NoSeekSkip s)
    (hneg : (advance s n).1 < 0) : (advance s n).2.fatal = true := by
  obtain ⟨_, _, _, g4⟩ := advance_spec s n hi hf hn hns
  rcases g4 with ⟨a1, _⟩ | ⟨a1, _⟩ | ⟨_, a2, _⟩
  · omega
  · omega
  · exact a2

/-- A failed filter stays failed: every later peek and consume reports failure. -/
theorem fatal_is_sticky (s : State) (hf : s.fatal = true) (min : Nat) (n : Int) (hn : n ≠ 0) :
    (ahead s min).1 = .fatal ∧ (ahead s min).2 = s ∧ (consume s n).1 = -30 ∧ (consume s n).2.fatal = true := by
  refine ⟨by simp [ahead, hf], by simp [ahead, hf], ?_, ?_⟩
  · unfold consume
    by_cases h1 : n < 0
    · simp [h1]
    · simp only [h1, hn, if_false, advance, hf, if_true]
      have : ¬ ((-1 : Int) = n) := by omega
      simp [this]
  · unfold consume
    by_cases h1 : n < 0
    · simp [h1, hf]
    · simp only [h1, hn, if_false, advance, hf, if_true]
      split <;> exact hf

inductive Op | ahead (min : Nat) | consume (n : Int)

/-- Windows handed out over a sequence of operations. -/
def windows : State → List Op → List (List Nat)
  | _, [] => []
  | s, .ahead min :: ops =>
    match (RA.ahead s min).1 with
    | .window w _ => w :: windows (RA.ahead s min).2 ops
    | _ => windows (RA.ahead s min).2 ops
  | s, .consume n :: ops => windows (RA.consume s n).2 ops

theorem consume_suffix (s : State) (n : Int) (hi : Inv s) (hns : NoSeekSkip s) :
    Inv (consume s n).2 ∧ ∃ k, remaining (consume s n).2 = (remaining s).drop k := by
  unfold consume
  by_cases h1 : n < 0
  · simp only [h1, if_true]; exact ⟨hi, 0, by simp⟩
  · by_cases h2 : n = 0
    · simp only [h1, h2, if_false, if_true]; exact ⟨hi, 0, by simp⟩
    · simp only [h1, h2, if_false]
      by_cases hf : s.fatal = true
      · simp only [advance, hf, if_true]
        split <;> exact ⟨hi, 0, by simp⟩
      · have hf' : s.fatal = false := by simpa using hf
        obtain ⟨g1, _, g3, _⟩ := advance_spec s n.toNat hi hf' (by omega) hns
        generalize advance s n.toNat = r at *
        obtain ⟨a, b⟩ := r
        simp only [] at g1 g3 ⊢
        split <;> exact ⟨g1, g3⟩

/-- **C08, no invented data.**  For every source script, every skip script
(including failing and misbehaving ones) and every sequence of interface
operations, each window a parser is given is a contiguous piece of the original
stream. -/
theorem no_invented_data (s : State) (ops : List Op) (hi : Inv s) (hns : NoSeekSkip s)
    (hmin : ∀ op ∈ ops, match op with | .ahead m => m ≤ 2 ^ 62 | .consume _ => True) :
    ∀ w ∈ windows s ops, ∃ k, w <+: (remaining s).drop k := by
  induction ops generalizing s with
  | nil => intro w hw; simp [windows] at hw
  | cons op ops ih =>
    have hmin' : ∀ op ∈ ops, match op with | .ahead m => m ≤ 2 ^ 62 | .consume _ => True :=
      fun o ho => hmin o (List.mem_cons_of_mem _ ho)
    cases op with
    | consume n =>
      obtain ⟨i1, k, hk⟩ := consume_suffix s n hi hns
      have hns' := noSeekSkip_of_static (consume_static s n).1 hns
      intro w hw
      simp only [windows] at hw
      obtain ⟨k', hk'⟩ := ih _ i1 hns' hmin' w hw
      exact ⟨k + k', by rw [hk, List.drop_drop] at hk'; exact hk'⟩
    | ahead m =>
      have hm : m ≤ 2 ^ 62 := hmin (.ahead m) (by simp)
      obtain ⟨i1, _, _, _, _⟩ := ahead_refines s m hi hm
      have hns' := noSeekSkip_of_static (ahead_static s m) hns
      have hrem : (RA.ahead s m).2.fatal = false → remaining (RA.ahead s m).2 = remaining s := by
        intro hnf
        unfold RA.ahead at hnf ⊢
        by_cases hf : s.fatal = true
        · simp [hf]
        · have hf' : s.fatal = false := by simpa using hf
          simp only [hf', Bool.false_eq_true, if_false] at hnf ⊢
          obtain ⟨_, _, _, g4⟩ := aheadLoop_spec s m hi hf' hm
          generalize aheadLoop s m = r at *
          obtain ⟨r1, s'⟩ := r
          cases r1 with
          | window w fc => exact g4.1
          | short k => exact g4.1
          | fatal => exact g4.1
          | stuck => exact absurd g4 id
      intro w hw
      simp only [windows] at hw
      -- windows after a failed `ahead`: the state is fatal, later peeks return nothing
      by_cases hnf : (RA.ahead s m).2.fatal = false
      · have hr := hrem hnf
        split at hw
        · rename_i w0 fc hwin
          rcases List.mem_cons.mp hw with rfl | hw'
          · exact ⟨0, by simpa using (window_is_stream_prefix s m hi hm w fc hwin).1⟩
          · obtain ⟨k, hk⟩ := ih _ i1 hns' hmin' w hw'
            exact ⟨k, by rw [hr] at hk; exact hk⟩
        · obtain ⟨k, hk⟩ := ih _ i1 hns' hmin' w hw
          exact ⟨k, by rw [hr] at hk; exact hk⟩
      · -- failed: use the generic suffix fact (`remaining` only shrinks)
        have hsuf : ∃ k, remaining (RA.ahead s m).2 = (remaining s).drop k := by
          unfold RA.ahead
          by_cases hf : s.fatal = true
          · simp only [hf, if_true]; exact ⟨0, by simp⟩
          · have hf' : s.fatal = false := by simpa using hf
            simp only [hf', Bool.false_eq_true, if_false]
            obtain ⟨_, _, _, g4⟩ := aheadLoop_spec s m hi hf' hm
            generalize aheadLoop s m = r at *
            obtain ⟨r1, s'⟩ := r
            cases r1 with
            | window w fc => exact ⟨0, by simpa using g4.1⟩
            | short k => exact ⟨0, by simpa using g4.1⟩
            | fatal => exact ⟨0, by simpa using g4.1⟩
            | stuck => exact absurd g4 id
        obtain ⟨k0, hk0⟩ := hsuf
        split at hw
        · rename_i w0 fc hwin
          rcases List.mem_cons.mp hw with rfl | hw'
          · exact ⟨0, by simpa using (window_is_stream_prefix s m hi hm w fc hwin).1⟩
          · obtain ⟨k, hk⟩ := ih _ i1 hns' hmin' w hw'
            exact ⟨k0 + k, by rw [hk0, List.drop_drop] at hk; exact hk⟩
        · obtain ⟨k, hk⟩ := ih _ i1 hns' hmin' w hw
          exact ⟨k0 + k, by rw [hk0, List.drop_drop] at hk; exact hk⟩

end LA.C08
