/-
C16 — Pattern and criteria matching follows its documented semantics safely.

Part 1: the wildcard matcher, `LA.Pm` (model of archive_pathmatch.c, both the
`char` and the `wchar_t` copy).  Part 2: inclusion/exclusion, time and owner
criteria, `LA.Match` (model of the decision logic of archive_match.c).

Termination of the matcher is definitional: `matchAt`, `matchBody`, `unanch`,
`pm`, `pmLoop`, `star` are accepted by Lean's well-founded recursion on the
measure (pattern left, call kind, subject left); there is no fuel anywhere.

Strings are lists of code units; "pattern/subject characters are non-NUL" is the
C-string invariant `NoNul`.  The memory-safety theorems do not even need it (a
NUL inside the list reads as a terminator and stops the scan early); the
declarative ones do, and say so.
-/
import LA.Lemmas.PmGlob
import LA.Lemmas.Match
set_option linter.unusedSimpArgs false
namespace LA.C16
open LA.Pm

/-- "a[!b]", "a" -/
def witnessPattern : List Nat := [97, 91, 33, 98, 93]
def witnessSubject : List Nat := [97]

/-! ## Evaluation never reads outside the pattern and path strings -/

/-- `pm()` / `pm_w()` started anywhere inside the two strings never reads an index
beyond either terminator: for all patterns, subjects, flags, start offsets. -/
theorem pm_no_oob (cfg : Cfg) (hg : cfg.guardClass = true) (p s : List Nat) (fl : Flags)
    (pi si : Nat) (hpi : pi ≤ p.length) (hsi : si ≤ s.length) :
    pm cfg p s fl pi si ≠ .oob :=
  (safe_all cfg hg p s).2.2.2.1 fl pi si hpi hsi

example : pm narrow witnessPattern witnessSubject ⟨false, false⟩ 0 0 = .no := by
  simp [witnessPattern, witnessSubject, pm_eq, pmLoop_eq, rd, dotSlash, classEnd]

/-- `__archive_pathmatch()` / `__archive_pathmatch_w()` on two non-NULL strings. -/
theorem matchAt_no_oob (cfg : Cfg) (hg : cfg.guardClass = true) (p s : List Nat) (fl : Flags)
    (pi si : Nat) (hpi : pi ≤ p.length) (hsi : si ≤ s.length) :
    matchAt cfg p s fl pi si ≠ .oob :=
  (safe_all cfg hg p s).1 fl pi si hpi hsi

/-- The entry points, NULL pointers included. -/
theorem pathmatch_no_oob (cfg : Cfg) (hg : cfg.guardClass = true) (p s : Option (List Nat)) (fl : Flags) :
    pathmatch cfg p s fl ≠ .oob := by
  cases p <;> cases s <;> simp [pathmatch]
  exact matchAt_no_oob cfg hg _ _ fl 0 0 (Nat.zero_le _) (Nat.zero_le _)

example : pathmatch wide (some [97]) (some [97, 47, 98]) ⟨false, true⟩ = .yes := by
  simp [pathmatch, matchAt_eq, matchBody_eq, pm_eq, pmLoop_eq, rd, dotSlash]

/-- The verdict is therefore always a plain yes/no. -/
theorem pathmatch_total (cfg : Cfg) (hg : cfg.guardClass = true) (p s : Option (List Nat)) (fl : Flags) :
    pathmatch cfg p s fl = .yes ∨ pathmatch cfg p s fl = .no := by
  have := pathmatch_no_oob cfg hg p s fl
  cases h : pathmatch cfg p s fl <;> simp_all

/-- The statement above is **false of the code before the `fix:` commit** (model with
`guardClass := false`): pattern `a[!b]` against `a` lets the class accept the
terminator and the next iteration reads one past it.  Replayed on the real code by
`corpus/C16/pm.class-at-nul.ops`. -/
theorem unrepaired_reads_past_end :
    pathmatch narrowUnrepaired (some witnessPattern) (some witnessSubject) ⟨false, false⟩ = .oob := by
  simp [witnessPattern, witnessSubject, pathmatch, matchAt_eq, matchBody_eq, pm_eq, pmLoop_eq, rd, dotSlash,
    classEnd, pmList, pmListLoop, narrowUnrepaired]

/-! ## The narrow and wide entry points agree -/

/-- On strings of 7-bit code units (the property's alphabet) `__archive_pathmatch` and
`__archive_pathmatch_w` return the same verdict.  Beyond 7 bits they cannot: the
narrow matcher sees bytes, signed, the wide one code points. -/
theorem narrow_wide_agree (p s : Option (List Nat)) (fl : Flags)
    (hp : ∀ x, p = some x → Ascii x) (hs : ∀ x, s = some x → Ascii x) :
    pathmatch narrow p s fl = pathmatch wide p s fl := by
  cases p <;> cases s <;> simp [pathmatch]
  rename_i p s
  exact ((nw_all p s (hp p rfl) (hs s rfl)).1 fl 0 0).symm

example : Ascii witnessPattern := by simp [Ascii, witnessPattern]

/-- The restriction is needed: byte 0x80 is below 'a' for `char`, above it for `wchar_t`. -/
theorem narrow_wide_differ_beyond_ascii :
    pathmatch narrow (some [91, 97, 45, 128, 93]) (some [98]) ⟨false, false⟩ = .no ∧
    pathmatch wide (some [91, 97, 45, 128, 93]) (some [98]) ⟨false, false⟩ = .yes := by
  constructor <;>
  simp [pathmatch, matchAt_eq, matchBody_eq, pm_eq, pmLoop_eq, rd, dotSlash, classEnd, pmList, pmListLoop,
    narrow, wide, sext, Res.ofBool]

/-! ## Documented semantics, declaratively -/

/-- `?` consumes exactly one character of the subject, whatever it is (also `/`). -/
theorem pm_question (cfg : Cfg) (p s : List Nat) (fl : Flags) (pi si : Nat) (hs : NoNul s)
    (hq : rd p pi = some C_QUEST) (hsi : si < s.length) :
    pmLoop cfg p s fl pi si = pmLoop cfg p s fl (pi + 1) (si + 1) := by
  obtain ⟨c, hc, hc0, _⟩ := rd_inside hs hsi
  rw [pmLoop_eq]; simp [hq, hc, hc0]

/-- `?` never matches the end of the subject. -/
theorem pm_question_at_end (cfg : Cfg) (p s : List Nat) (fl : Flags) (pi : Nat)
    (hq : rd p pi = some C_QUEST) :
    pmLoop cfg p s fl pi s.length = .no := by
  rw [pmLoop_eq]; simp [hq, rd_len]

example : rd [97, 63, 98] 1 = some C_QUEST := by simp [rd]

/-- A run of `*` matches iff nothing follows it, or the rest of the pattern matches (through
the entry point, as the C does) at some position of the subject that is not its end. -/
theorem pm_star (cfg : Cfg) (hg : cfg.guardClass = true) (p s : List Nat) (hs : NoNul s) (fl : Flags)
    (pi si pj : Nat) (hstar : rd p pi = some C_STAR) (hpj : skipStars p pi = some pj)
    (hsi : si ≤ s.length) :
    pmLoop cfg p s fl pi si = .yes ↔
      rd p pj = some 0 ∨ ∃ sj, si ≤ sj ∧ sj < s.length ∧ matchAt cfg p s fl pj sj = .yes := by
  have hle := skipStars_le hpj
  obtain ⟨c', hc'⟩ := rd_isSome hle
  rw [pmLoop_eq]; simp only [hstar, hpj, hc']
  by_cases h0 : c' = 0
  · subst h0; simp
  · have : (42 : Nat) ≠ 0 := by decide
    simp only [h0, if_false, Option.some.injEq, false_or, this, (by decide : (42 : Nat) ≠ 63), if_true]
    exact star_yes_iff cfg hg p s hs fl pj hle si hsi

example : skipStars [42, 42, 97] 0 = some 2 := by
  simp [skipStars_eq, rd]

/-- A trailing `*` matches everything. -/
theorem pm_star_trailing (cfg : Cfg) (p s : List Nat) (fl : Flags) (pi si : Nat)
    (hstar : rd p pi = some C_STAR) (hpj : skipStars p pi = some p.length) :
    pmLoop cfg p s fl pi si = .yes := by
  rw [pmLoop_eq]; simp [hstar, hpj, rd_len]

/-- A pattern of ordinary characters matches a slash-free subject iff they are equal. -/
theorem pm_literal (cfg : Cfg) (p s : List Nat) (fl : Flags) (hp : ∀ c ∈ p, Lit c) (hs : NoNul s)
    (hns : ∀ c ∈ s, c ≠ C_SLASH) :
    pm cfg p s fl 0 0 = .ofBool (p = s) := by
  have hps : ∀ c ∈ p, c ≠ C_SLASH := fun c hc => (hp c hc).2.2.2.2.2.1
  rw [pm_eq, dotSlash_noSlash hns 0 (Nat.zero_le _), dotSlash_noSlash hps 0 (Nat.zero_le _)]
  simpa using pmLoop_literal cfg p s fl hp hs hns 0 0 (Nat.zero_le _) (Nat.zero_le _)

example : ∀ c ∈ [97, 46, 98], Lit c := by simp [Lit]

/-- With `PATHMATCH_NO_ANCHOR_START` (and no leading `^`, `*`, `/`) the entry point succeeds iff
`pm()` succeeds at the start of some path element: the beginning, or just after any `/`. -/
theorem unanchored_start (cfg : Cfg) (hg : cfg.guardClass = true) (p s : List Nat) (hs : NoNul s)
    (fl : Flags) (hf : fl.noStart = true) (c : Nat) (hc : rd p 0 = some c) (hc0 : c ≠ 0)
    (hcc : c ≠ C_CARET) (hcs : c ≠ C_STAR) (hcl : c ≠ C_SLASH) :
    matchAt cfg p s fl 0 0 = .yes ↔ ∃ k, ElemStart s 0 k ∧ pm cfg p s fl 0 k = .yes := by
  obtain ⟨d, hd⟩ := rd_isSome (Nat.zero_le s.length)
  rw [matchAt_eq]; simp only [hc, hc0, hcc, if_false]
  rw [matchBody_eq]; simp only [hc, hd, hcs, hcl, false_and, false_or, if_false, hf, if_true]
  exact unanch_yes_iff cfg hg p s hs fl 0 (Nat.zero_le _) 0 (Nat.zero_le _)

example : ElemStart [97, 47, 98] 0 2 := .inr ⟨1, by simp [firstStart, rd], by simp, by simp, rfl⟩

/-- A leading `^` switches `PATHMATCH_NO_ANCHOR_START` off and is otherwise dropped. -/
theorem caret_anchors_start (cfg : Cfg) (p s : List Nat) (fl : Flags) (h : rd p 0 = some C_CARET) :
    matchAt cfg p s fl 0 0 = matchBody cfg p s { fl with noStart := false } 1 0 := by
  rw [matchAt_eq]; simp [h]

/-- Without `PATHMATCH_NO_ANCHOR_START` the match starts at the beginning only. -/
theorem anchored_start (cfg : Cfg) (p s : List Nat) (fl : Flags) (hf : fl.noStart = false)
    (c d : Nat) (hc : rd p 0 = some c) (hd : rd s 0 = some d) (hc0 : c ≠ 0)
    (hcc : c ≠ C_CARET) (hcs : c ≠ C_STAR) (hcl : c ≠ C_SLASH) :
    matchAt cfg p s fl 0 0 = pm cfg p s fl 0 0 := by
  rw [matchAt_eq]; simp only [hc, hc0, hcc, if_false]
  rw [matchBody_eq]; simp [hc, hd, hcs, hcl, hf]

/-- End of pattern, `PATHMATCH_NO_ANCHOR_END`: accepted at a `/` boundary of the subject
(a pattern naming a directory also matches what is below it). -/
theorem end_unanchored_at_slash (cfg : Cfg) (p s : List Nat) (fl : Flags) (pi si : Nat)
    (hp : rd p pi = some 0) (hs : rd s si = some C_SLASH) (hf : fl.noEnd = true) :
    pmLoop cfg p s fl pi si = .yes := by
  rw [pmLoop_eq]; simp [hp, hs, hf]

/-- End of pattern, anchored end: only `/`, `./` and a final `.` may remain ("dir" == "dir/" == "dir/."). -/
theorem end_anchored (cfg : Cfg) (p s : List Nat) (fl : Flags) (pi si sj : Nat)
    (hp : rd p pi = some 0) (hs : rd s si = some C_SLASH) (hf : fl.noEnd = false)
    (hk : slashskip s si = some sj) :
    pmLoop cfg p s fl pi si = .ofBool (rd s sj = some 0) := by
  obtain ⟨d, hd⟩ := rd_isSome (slashskip_le hk)
  rw [pmLoop_eq]; simp [hp, hs, hf, hk, hd]

/-- End of pattern away from a `/`: the subject must end too, whatever the flags. -/
theorem end_not_at_slash (cfg : Cfg) (p s : List Nat) (fl : Flags) (pi si d : Nat)
    (hp : rd p pi = some 0) (hs : rd s si = some d) (hd : d ≠ C_SLASH) :
    pmLoop cfg p s fl pi si = .ofBool (d = 0) := by
  rw [pmLoop_eq]; simp [hp, hs, hd]

/-- A final `$` under `PATHMATCH_NO_ANCHOR_END` anchors the end (modulo trailing `/`, `/.`). -/
theorem dollar_anchors_end (cfg : Cfg) (p s : List Nat) (fl : Flags) (pi si sj : Nat)
    (hp : rd p pi = some C_DOLLAR) (hp1 : rd p (pi + 1) = some 0) (hf : fl.noEnd = true)
    (hk : slashskip s si = some sj) :
    pmLoop cfg p s fl pi si = .ofBool (rd s sj = some 0) := by
  obtain ⟨d, hd⟩ := rd_isSome (slashskip_le hk)
  rw [pmLoop_eq]; simp [hp, hp1, hf, hk, hd]

/-- Leading `./` (and what `pm_slashskip` swallows after it) of the subject is ignored. -/
theorem leading_dot_slash_subject (cfg : Cfg) (p s : List Nat) (fl : Flags) (pi si sj pj : Nat)
    (h0 : rd s si = some C_DOT) (h1 : rd s (si + 1) = some C_SLASH) (hk : slashskip s (si + 1) = some sj)
    (hpd : dotSlash p pi = some pj) :
    pm cfg p s fl pi si = pmLoop cfg p s fl pj sj := by
  have hsd : dotSlash s si = some sj := by simp [dotSlash, h0, h1, hk]
  rw [pm_eq]; simp [hsd, hpd]

/-- … and of the pattern. -/
theorem leading_dot_slash_pattern (cfg : Cfg) (p s : List Nat) (fl : Flags) (pi si sj pj : Nat)
    (h0 : rd p pi = some C_DOT) (h1 : rd p (pi + 1) = some C_SLASH) (hk : slashskip p (pi + 1) = some pj)
    (hsd : dotSlash s si = some sj) :
    pm cfg p s fl pi si = pmLoop cfg p s fl pj sj := by
  have hpd : dotSlash p pi = some pj := by simp [dotSlash, h0, h1, hk]
  rw [pm_eq]; simp [hsd, hpd]

example : slashskip [46, 47, 47, 46, 47, 97] 1 = some 5 := by
  simp [slashskip_eq, rd]

/-- A `/` in the pattern matches one or more `/` (with `./` segments) of the subject, or its end. -/
theorem slash_run (cfg : Cfg) (p s : List Nat) (fl : Flags) (pi si pj sj d c' : Nat)
    (hp : rd p pi = some C_SLASH) (hs : rd s si = some d) (hd : d = C_SLASH ∨ d = 0)
    (hpk : slashskip p pi = some pj) (hsk : slashskip s si = some sj) (hc' : rd p pj = some c')
    (hne : ¬ (c' = 0 ∧ fl.noEnd = true)) :
    pmLoop cfg p s fl pi si = pmLoop cfg p s fl pj sj := by
  rw [pmLoop_eq]
  have : ¬ (d ≠ C_SLASH ∧ d ≠ 0) := by rcases hd with h | h <;> simp [h]
  simp only [hp, hs, hpk, hsk, hc']
  simp [this, hne]

/-! ## Against an independent declarative specification (wildcard fragment) -/

/-- `pm()` on patterns made of ordinary characters, `?` and `*`, against slash-free pathnames, is
textbook glob matching (`LA.Pm.Glob`, an inductive relation that knows nothing of the C), for
every flag set. -/
theorem pm_spec_fragment (cfg : Cfg) (hg : cfg.guardClass = true) (p s : List Nat) (fl : Flags)
    (hp : Frag p) (hs : NoNul s) (hns : ∀ c ∈ s, c ≠ C_SLASH) :
    pm cfg p s fl 0 0 = .yes ↔ Glob p s := by
  rw [pm_eq, dotSlash_noSlash hns 0 (Nat.zero_le _), dotSlash_frag hp 0 (Nat.zero_le _)]
  simpa using pmLoop_glob cfg hg p s fl hp hs hns 0 (Nat.zero_le _) 0 (Nat.zero_le _)

/-- The same at the entry points `__archive_pathmatch` / `__archive_pathmatch_w`. -/
theorem pathmatch_spec_fragment (cfg : Cfg) (hg : cfg.guardClass = true) (p s : List Nat) (fl : Flags)
    (hp : Frag p) (hs : NoNul s) (hns : ∀ c ∈ s, c ≠ C_SLASH) :
    pathmatch cfg (some p) (some s) fl = .yes ↔ Glob p s := by
  have hpm := pm_spec_fragment cfg hg p s fl hp hs hns
  obtain ⟨d, hd⟩ := rd_isSome (Nat.zero_le s.length)
  have hdne : d ≠ C_SLASH := by
    intro h; subst h
    have hl := rd_lt hd (by decide)
    exact hns _ (List.getElem_mem hl) (rd_getElem hd hl)
  simp only [pathmatch]
  cases p with
  | nil =>
    rw [matchAt_eq]; simp only [rd, List.length_nil, Nat.lt_irrefl, dite_false, if_true] 
    have : rd s 0 = some d := hd
    simp only [rd] at this
    rw [glob_nil_iff]
    cases s with
    | nil => simp [Res.ofBool]
    | cons a as =>
      have ha : a ≠ 0 := hs a (by simp)
      simp [Res.ofBool, ha]
  | cons c q =>
    have hc : rd (c :: q) 0 = some c := by simp [rd]
    have hsk : ∀ x : List Nat, (∀ y ∈ x, y ≠ C_SLASH) → skipSlashes x 0 = some 0 := by
      intro x hx
      obtain ⟨e, he⟩ := rd_isSome (Nat.zero_le x.length)
      have : e ≠ C_SLASH := by
        intro h; subst h
        have hl := rd_lt he (by decide)
        exact hx _ (List.getElem_mem hl) (rd_getElem he hl)
      rw [skipSlashes_eq]; simp [he, this]
    have hpns : ∀ y ∈ c :: q, y ≠ C_SLASH := fun y hy => by
      rcases hp y hy with h | h | h
      · exact h.2.2.2.2.2.1
      · omega
      · omega
    rcases hp c (by simp) with hpl | hq | hst
    · obtain ⟨h0, h1, h2, h3, h4, h5, h6, h7⟩ := hpl
      rw [matchAt_eq]; simp only [hc, h0, h7, if_false]
      rw [matchBody_eq]; simp only [hc, hd, h1, h5, false_and, false_or, if_false]
      split
      · rw [unanch_noSlash cfg _ s fl hs hns 0 0 (Nat.zero_le _)]; exact hpm
      · exact hpm
    · subst hq
      rw [matchAt_eq]; simp only [hc, if_false, (by decide : (63 : Nat) ≠ 0), (by decide : (63 : Nat) ≠ 94)]
      rw [matchBody_eq]
      simp only [hc, hd, false_and, false_or, if_false, (by decide : (63 : Nat) ≠ 42), (by decide : (63 : Nat) ≠ 47)]
      split
      · rw [unanch_noSlash cfg _ s fl hs hns 0 0 (Nat.zero_le _)]; exact hpm
      · exact hpm
    · subst hst
      rw [matchAt_eq]; simp only [hc, if_false, (by decide : (42 : Nat) ≠ 0), (by decide : (42 : Nat) ≠ 94)]
      rw [matchBody_eq]
      simp only [hc, hd, false_and, true_or, if_true, if_false, (by decide : (42 : Nat) ≠ 47), hsk _ hpns, hsk _ hns]
      exact hpm

example : Glob [97, 42, 63] [97, 98, 99, 100] :=
  .lit (by decide) (by decide) (.star 2 (.any .nil))

/-! # Part 2 — inclusion / exclusion, time and owner criteria (archive_match.c) -/

open LA.Match
open LA.Gen.MatchFlags

/-! ## Paths -/

/-- Exclusions win over inclusions: whatever the inclusion patterns and their marks, a
pathname matched by an exclusion pattern is excluded. -/
theorem exclusion_wins (st : State) (pn : Option (List Nat)) (m : Pat) (hm : m ∈ st.exclusions)
    (h : matchPathExclusion m pn = true) :
    (pathExcluded st pn).2 = 1 := by
  have : st.exclusions.any (matchPathExclusion · pn) = true := List.any_eq_true.mpr ⟨m, hm, h⟩
  simp [pathExcluded, pathVerdict, this]

example : matchPathExclusion { pat := [97] } (some [120, 47, 97, 47, 121]) = true := by
  simp [matchPathExclusion, patMatches, pathmatch, matchAt_eq, matchBody_eq, unanch_eq, pm_eq, pmLoop_eq, rd,
    dotSlash, strchrSlash_eq]

/-- With no exclusion matching: included iff there are no inclusions or one of them matches. -/
theorem inclusion_decides (st : State) (pn : Option (List Nat))
    (hx : ∀ m ∈ st.exclusions, matchPathExclusion m pn = false) :
    (pathExcluded st pn).2 = 0 ↔
      st.inclusions = [] ∨ ∃ m ∈ st.inclusions, matchPathInclusion st m pn = true := by
  have hx' : st.exclusions.any (matchPathExclusion · pn) = false := by
    rw [List.any_eq_false]; intro m hm; simp [hx m hm]
  have key : ∀ l : List Pat,
      ((markInclusions st pn l).2 ≠ 0 ∨
        (markInclusions st pn l).1.any (fun m => m.matched && matchPathInclusion st m pn) = true) ↔
      ∃ m ∈ l, matchPathInclusion st m pn = true := by
    intro l
    induction l with
    | nil => simp [markInclusions]
    | cons a as ih =>
      simp only [markInclusions]
      by_cases ha : matchPathInclusion st a pn = true
      · cases hm : a.matched <;> simp [ha, hm]
      · have ha' : matchPathInclusion st a pn = false := by simpa using ha
        simp only [ha', Bool.and_false, Bool.false_eq_true, if_false, List.any_cons, Bool.false_or,
          List.mem_cons, exists_eq_or_imp, false_or]
        exact ih
  have hlen := markInclusions_length st pn st.inclusions
  simp only [pathExcluded, pathVerdict, hx', Bool.false_eq_true, if_false]
  by_cases hk : (markInclusions st pn st.inclusions).2 ≠ 0
  · rw [if_pos hk]; simp only [true_iff]
    exact .inr ((key _).mp (.inl hk))
  · rw [if_neg hk]
    by_cases ha : (markInclusions st pn st.inclusions).1.any (fun m => m.matched && matchPathInclusion st m pn) = true
    · rw [if_pos ha]; simp only [true_iff]
      exact .inr ((key _).mp (.inr ha))
    · rw [if_neg ha]
      have hnone : ¬ ∃ m ∈ st.inclusions, matchPathInclusion st m pn = true :=
        fun h => by rcases (key _).mpr h with h | h <;> contradiction
      by_cases he : st.inclusions = []
      · simp [he, markInclusions]
      · have : (markInclusions st pn st.inclusions).1 ≠ [] := by
          intro h; rw [h] at hlen; exact he (List.eq_nil_of_length_eq_zero hlen.symm)
        simp [this, he, hnone]

/-- A pattern naming a directory also matches what is below it (recursive inclusion is the
default): literal pattern `p`, pathname `p/…`. -/
theorem directory_pattern_covers_children (st : State) (hr : st.recursiveInclude = true)
    (p rest : List Nat) (hp : ∀ c ∈ p, Lit c) (c0 : Nat) (hc0 : p.head? = some c0)
    (hdot : c0 ≠ C_DOT) (hcar : c0 ≠ C_CARET) :
    matchPathInclusion st { pat := p } (some (p ++ C_SLASH :: rest)) = true := by
  have hne : p ≠ [] := by intro h; simp [h] at hc0
  have hlen : 0 < p.length := List.length_pos_iff.mpr hne
  have hp0 : p[0] = c0 := by
    cases p with
    | nil => simp at hc0
    | cons a as => simpa using hc0
  obtain ⟨h0, h1, h2, h3, h4, h5, h6⟩ := hp _ (List.getElem_mem hlen)
  rw [hp0] at h0 h1 h5
  have hrp : rd p 0 = some c0 := by rw [rd_of_lt hlen, hp0]
  have hrs : rd (p ++ C_SLASH :: rest) 0 = some c0 := by
    rw [rd_of_lt (by simp; omega)]; simp [List.getElem_append_left hlen, hp0]
  have hdp : dotSlash p 0 = some 0 := by simp [dotSlash, hrp, hdot]
  have hds : dotSlash (p ++ C_SLASH :: rest) 0 = some 0 := by simp [dotSlash, hrs, hdot]
  have := pmLoop_literal_dir narrow p rest { noStart := false, noEnd := st.recursiveInclude } hr hp 0 (Nat.zero_le _)
  simp only [matchPathInclusion, patMatches, pathmatch]
  rw [matchAt_eq]; simp only [hrp, h0, hcar, if_false]
  rw [matchBody_eq]; simp only [hrp, hrs, h1, h5, false_and, false_or, if_false, Bool.false_eq_true]
  rw [pm_eq, hdp, hds]; simp [this]

example : ∀ c ∈ [100, 105, 114], Lit c := by simp [Lit]

/-! ## Unmatched-inclusion bookkeeping, over every history of calls -/

/-- The calls that can change an `archive_match` object. -/
inductive Op
  | includePattern (p : Option (List Nat))
  | excludePattern (p : Option (List Nat))
  | setRecursion (b : Bool)
  | pathExcluded (e : Entry)
  | excluded (e : Entry)
  | unmatchedNext
  | includeTime (flag : Nat) (sec nsec : Int)
  | excludeEntry (flag : Nat) (e : Entry)
  | includeUid (id : Int)
  | includeGid (id : Int)
  | includeUname (n : List Nat)
  | includeGname (n : List Nat)

def step (st : State) : Op → State
  | .includePattern p => (includePattern st p).getD st
  | .excludePattern p => (excludePattern st p).getD st
  | .setRecursion b => { st with recursiveInclude := b }
  | .pathExcluded e => (apiPathExcluded st e).1
  | .excluded e => (excluded st e).1
  | .unmatchedNext => (unmatchedNextStep st).1
  | .includeTime f s n => (includeTime st f s n).getD st
  | .excludeEntry f e => (excludeEntry st f e).getD st
  | .includeUid i => includeUid st i
  | .includeGid i => includeGid st i
  | .includeUname n => includeUname st n
  | .includeGname n => includeGname st n

/-- State after a history of calls on a fresh object. -/
def run (ops : List Op) : State := ops.foldl step {}

theorem setTimefilter_keeps (st : State) (f : Nat) (a b c d : Int) :
    (setTimefilter st f a b c d).inclusions = st.inclusions ∧
    (setTimefilter st f a b c d).unmatchedCount = st.unmatchedCount ∧
    (setTimefilter st f a b c d).uids = st.uids ∧ (setTimefilter st f a b c d).gids = st.gids := by
  unfold setTimefilter
  repeat' split
  all_goals simp

theorem unmatchedNextStep_keeps (st : State) :
    (unmatchedNextStep st).1.inclusions = st.inclusions ∧
    (unmatchedNextStep st).1.unmatchedCount = st.unmatchedCount ∧
    (unmatchedNextStep st).1.uids = st.uids ∧ (unmatchedNextStep st).1.gids = st.gids := by
  simp [unmatchedNextStep]

theorem excludeEntry_keeps (st st' : State) (f : Nat) (e : Entry) (h : excludeEntry st f e = some st') :
    st'.inclusions = st.inclusions ∧ st'.unmatchedCount = st.unmatchedCount ∧
    st'.uids = st.uids ∧ st'.gids = st.gids := by
  unfold excludeEntry at h
  split at h
  · cases h
  · split at h
    · cases h
    · split at h <;> (cases h; simp)

theorem excludePattern_keeps (st st' : State) (p : Option (List Nat)) (h : excludePattern st p = some st') :
    st'.inclusions = st.inclusions ∧ st'.unmatchedCount = st.unmatchedCount ∧
    st'.uids = st.uids ∧ st'.gids = st.gids := by
  unfold excludePattern at h
  split at h
  · cases h
  · cases h
  · cases h; simp

theorem includePattern_keeps (st st' : State) (p : Option (List Nat)) (h : includePattern st p = some st') :
    st'.uids = st.uids ∧ st'.gids = st.gids := by
  unfold includePattern at h
  split at h
  · cases h
  · cases h
  · cases h; simp

theorem excluded_state (st : State) (e : Entry) :
    (excluded st e).1 = if st.patternSet then (pathExcluded st e.path).1 else st := by
  unfold excluded
  split <;> rfl

theorem step_inv (st : State) (op : Op) (h : CountInv st) : CountInv (step st op) := by
  cases op with
  | includePattern p =>
    simp only [step]
    cases hs : includePattern st p with
    | none => simpa using h
    | some st' => exact includePattern_inv st st' p h hs
  | excludePattern p =>
    simp only [step]
    cases hs : excludePattern st p with
    | none => simpa using h
    | some st' =>
      have := excludePattern_keeps st st' p hs
      unfold CountInv at *; simp only [Option.getD_some]; rw [this.1, this.2.1]; exact h
  | setRecursion b => unfold CountInv at *; simpa [step] using h
  | pathExcluded e =>
    simp only [step, apiPathExcluded]
    split
    · exact h
    · exact pathExcluded_inv st e.path h
  | excluded e =>
    simp only [step, excluded_state]
    split
    · exact pathExcluded_inv st e.path h
    · exact h
  | unmatchedNext =>
    have := unmatchedNextStep_keeps st
    unfold CountInv at *; simp only [step]; rw [this.1, this.2.1]; exact h
  | includeTime f s n =>
    simp only [step, includeTime]
    split
    · have := setTimefilter_keeps st f s n s n
      unfold CountInv at *; simp only [Option.getD_some]; rw [this.1, this.2.1]; exact h
    · exact h
  | excludeEntry f e =>
    simp only [step]
    cases hs : excludeEntry st f e with
    | none => simpa using h
    | some st' =>
      have := excludeEntry_keeps st st' f e hs
      unfold CountInv at *; simp only [Option.getD_some]; rw [this.1, this.2.1]; exact h
  | includeUid i => unfold CountInv at *; simpa [step, includeUid] using h
  | includeGid i => unfold CountInv at *; simpa [step, includeGid] using h
  | includeUname n => unfold CountInv at *; simpa [step, includeUname] using h
  | includeGname n => unfold CountInv at *; simpa [step, includeGname] using h

/-- For every history of calls, `archive_match_path_unmatched_inclusions()` is the number of
inclusion patterns whose `matched` mark is still clear. -/
theorem unmatched_count_invariant (ops : List Op) :
    unmatchedInclusions (run ops) = ((run ops).inclusions.filter (fun m => !m.matched)).length := by
  have : ∀ (st : State), CountInv st → CountInv (ops.foldl step st) := by
    induction ops with
    | nil => intro st h; exact h
    | cons op ops ih => intro st h; exact ih _ (step_inv st op h)
  exact this {} (by simp [CountInv, unmatchedOf])

example : unmatchedInclusions (run [.includePattern (some [97]), .includePattern (some [98]),
    .pathExcluded { path := some [97] }]) = 1 := by
  rw [unmatched_count_invariant]
  simp [run, step, includePattern, stripSlash, apiPathExcluded, pathExcluded, markInclusions,
    matchPathInclusion, patMatches, pathmatch, matchAt_eq, matchBody_eq, pm_eq, pmLoop_eq, rd, dotSlash,
    Res.ofBool]

/-- … and a mark is set by a query exactly when the pattern was already marked or matches it. -/
theorem marks_after_query (st : State) (pn : Option (List Nat)) (i : Nat) (hi : i < st.inclusions.length) :
    ∃ h : i < (pathExcluded st pn).1.inclusions.length,
      ((pathExcluded st pn).1.inclusions[i]).matched =
        (st.inclusions[i].matched || matchPathInclusion st st.inclusions[i] pn) ∧
      ((pathExcluded st pn).1.inclusions[i]).pat = st.inclusions[i].pat := by
  have key : ∀ (l : List Pat) (i : Nat) (hi : i < l.length),
      ∃ h : i < (markInclusions st pn l).1.length,
        ((markInclusions st pn l).1[i]).matched = (l[i].matched || matchPathInclusion st l[i] pn) ∧
        ((markInclusions st pn l).1[i]).pat = l[i].pat := by
    intro l
    induction l with
    | nil => intro i hi; simp at hi
    | cons a as ih =>
      intro i hi
      have hlen := markInclusions_length st pn (a :: as)
      refine ⟨by omega, ?_⟩
      cases i with
      | zero =>
        cases hm : a.matched <;> cases hq : matchPathInclusion st a pn <;> simp [markInclusions, hm, hq]
      | succ j =>
        obtain ⟨_, h1, h2⟩ := ih j (by simpa using hi)
        simp only [markInclusions]
        split <;> simp [h1, h2]
  exact key st.inclusions i hi

/-! ## Times -/

/-- "newer than" filter `f` rejects time `t`: `t` is lexicographically below the reference, or
equal to it when ARCHIVE_MATCH_EQUAL is not part of the filter. -/
def TooOld (f : TimeFilter) (t : Int × Int) : Prop :=
  f.filter ≠ 0 ∧ (tlt t (f.sec, f.nsec) ∨ (t = (f.sec, f.nsec) ∧ has f.filter matchEqual = false))

/-- "older than" filter `f` rejects time `t`. -/
def TooNew (f : TimeFilter) (t : Int × Int) : Prop :=
  f.filter ≠ 0 ∧ (tlt (f.sec, f.nsec) t ∨ (t = (f.sec, f.nsec) ∧ has f.filter matchEqual = false))

/-- The four time filters are the lexicographic order on (sec, nsec) with the EQUAL bit; the
ctime filters fall back to mtime when the entry has no ctime.  (No per-pathname records.) -/
theorem time_excluded_lex (st : State) (e : Entry) (hx : st.exclFiles = []) :
    timeExcluded st e = true ↔
      (let c := if e.ctimeSet then (e.ctimeSec, e.ctimeNsec) else (e.mtimeSec, e.mtimeNsec)
       let m := (e.mtimeSec, e.mtimeNsec)
       TooOld st.newerCtime c ∨ TooNew st.olderCtime c ∨ TooOld st.newerMtime m ∨ TooNew st.olderMtime m) := by
  have hc : (if e.ctimeSet then (e.ctimeSec, e.ctimeNsec) else (e.mtimeSec, e.mtimeNsec)) =
      ((if e.ctimeSet then e.ctimeSec else e.mtimeSec), (if e.ctimeSet then e.ctimeNsec else e.mtimeNsec)) := by
    split <;> rfl
  simp only [hc, TooOld, TooNew, ← newerRejects_iff, ← olderRejects_iff]
  unfold timeExcluded
  simp only [hx, List.isEmpty_nil, if_true]
  repeat' split
  all_goals simp_all

example : timeExcluded { newerMtime := ⟨matchMtime ||| matchNewer, 100, 5⟩ } { mtimeSec := 100, mtimeNsec := 5 } = true := by
  decide

/-- A per-pathname record `(flag, fsec, fnsec)` rejects the entry time `t` iff the record is
later and OLDER is asked, earlier and NEWER is asked, or equal and EQUAL is asked. -/
theorem file_rejects_lex (flag : Nat) (fsec fnsec sec nsec : Int) :
    fileRejects flag fsec fnsec sec nsec = true ↔
      (tlt (sec, nsec) (fsec, fnsec) ∧ has flag matchOlder = true) ∨
      (tlt (fsec, fnsec) (sec, nsec) ∧ has flag matchNewer = true) ∨
      ((sec, nsec) = (fsec, fnsec) ∧ has flag matchEqual = true) := by
  unfold fileRejects tlt
  simp only [Prod.mk.injEq, gt_iff_lt]
  repeat' split
  all_goals (constructor <;> intro h <;> (try rcases h with ⟨h | ⟨_, h⟩, _⟩ | ⟨h | ⟨_, h⟩, _⟩ | ⟨⟨_, _⟩, _⟩) <;> (try omega))
  all_goals simp_all
  all_goals omega

/-! ## Owners -/

theorem step_sorted (st : State) (op : Op) (h : Sorted st.uids ∧ Sorted st.gids) :
    Sorted (step st op).uids ∧ Sorted (step st op).gids := by
  cases op with
  | includePattern p =>
    simp only [step]
    cases hs : includePattern st p with
    | none => simpa using h
    | some st' => have := includePattern_keeps st st' p hs; simp only [Option.getD_some]; rw [this.1, this.2]; exact h
  | excludePattern p =>
    simp only [step]
    cases hs : excludePattern st p with
    | none => simpa using h
    | some st' =>
      have := excludePattern_keeps st st' p hs; simp only [Option.getD_some]; rw [this.2.2.1, this.2.2.2]; exact h
  | setRecursion b => simpa [step] using h
  | pathExcluded e => simp only [step, apiPathExcluded]; split <;> simpa [pathExcluded] using h
  | excluded e => simp only [step, excluded_state]; split <;> simpa [pathExcluded] using h
  | unmatchedNext => have := unmatchedNextStep_keeps st; simp only [step]; rw [this.2.2.1, this.2.2.2]; exact h
  | includeTime f s n =>
    simp only [step, includeTime]
    split
    · have := setTimefilter_keeps st f s n s n; simp only [Option.getD_some]; rw [this.2.2.1, this.2.2.2]; exact h
    · exact h
  | excludeEntry f e =>
    simp only [step]
    cases hs : excludeEntry st f e with
    | none => simpa using h
    | some st' =>
      have := excludeEntry_keeps st st' f e hs; simp only [Option.getD_some]; rw [this.2.2.1, this.2.2.2]; exact h
  | includeUid i => exact ⟨insertId_sorted _ _ h.1, h.2⟩
  | includeGid i => exact ⟨h.1, insertId_sorted _ _ h.2⟩
  | includeUname n => simpa [step, includeUname] using h
  | includeGname n => simpa [step, includeGname] using h

/-- The id arrays stay strictly sorted through every history (what the binary search needs). -/
theorem ids_sorted (ops : List Op) : Sorted (run ops).uids ∧ Sorted (run ops).gids := by
  have : ∀ (st : State), (Sorted st.uids ∧ Sorted st.gids) →
      (Sorted (ops.foldl step st).uids ∧ Sorted (ops.foldl step st).gids) := by
    induction ops with
    | nil => intro st h; exact h
    | cons op ops ih => intro st h; exact ih _ (step_sorted st op h)
  exact this {} (by simp [Sorted])

/-- An owner name criterion is met by a non-empty name equal to one of the stored names. -/
def NameIn (names : List Pat) (name : Option (List Nat)) : Prop :=
  ∃ n, name = some n ∧ n ≠ [] ∧ n ∈ names.map (·.pat)

/-- After any history of calls: an entry is excluded by owner iff some non-empty criterion
(uids, gids, user names, group names) does not contain its value.  (The uid/gid tests are a
binary search in the C; this says it is plain membership.) -/
theorem owner_excluded_spec (ops : List Op) (e : Entry) :
    ownerExcluded (run ops) e = true ↔
      ((run ops).uids ≠ [] ∧ e.uid ∉ (run ops).uids) ∨
      ((run ops).gids ≠ [] ∧ e.gid ∉ (run ops).gids) ∨
      ((run ops).unames ≠ [] ∧ ¬ NameIn (run ops).unames e.uname) ∨
      ((run ops).gnames ≠ [] ∧ ¬ NameIn (run ops).gnames e.gname) := by
  obtain ⟨hu, hg⟩ := ids_sorted ops
  generalize run ops = st at *
  have h1 := matchOwnerId_iff st.uids hu e.uid
  have h2 := matchOwnerId_iff st.gids hg e.gid
  have h3 := matchOwnerName_iff st.unames e.uname
  have h4 := matchOwnerName_iff st.gnames e.gname
  unfold ownerExcluded NameIn
  simp only [← h1, ← h2, ← h3, ← h4, List.isEmpty_iff]
  repeat' split
  all_goals simp_all

example : ownerExcluded (run [.includeUid 5, .includeUid 3, .includeUid 9]) { uid := 4 } = true := by
  rw [owner_excluded_spec]; simp [run, step, includeUid, insertId]

/-! ## The combined verdict -/

/-- `archive_match_excluded` is the disjunction of the three tests, each consulted only when a
criterion of its kind was ever set, in the order path, time, owner. -/
theorem excluded_is_disjunction (st : State) (e : Entry) :
    (excluded st e).2 ≠ 0 ↔
      (st.patternSet = true ∧ (pathExcluded st e.path).2 ≠ 0) ∨
      (st.timeSet = true ∧ timeExcluded (excluded st e).1 e = true) ∨
      (st.idSet = true ∧ ownerExcluded (excluded st e).1 e = true) := by
  rw [excluded_state]
  unfold excluded
  by_cases hp : st.patternSet = true
  · have ht : (pathExcluded st e.path).1.timeSet = st.timeSet := rfl
    have hi : (pathExcluded st e.path).1.idSet = st.idSet := rfl
    simp only [hp, if_true, ht, hi]
    repeat' split
    all_goals simp_all
  · simp only [hp, if_false]
    repeat' split
    all_goals simp_all

/-! ### Per-pathname exclusion records: the last registration wins (all four time fields)

`add_entry` overwrites an existing record for the same pathname ("We always overwrite comparison condition").
After a successful `archive_match_exclude_entry`, *every* record for that pathname carries exactly the flag
and the four time fields of the entry just registered, whatever was registered for it before, and records of
other pathnames are untouched. -/
theorem excludeEntry_last_wins (st st' : State) (flag : Nat) (e : Entry) (pn : List Nat)
    (hp : e.path = some pn) (h : excludeEntry st flag e = some st') :
    (∃ g ∈ st'.exclFiles, g.path = pn) ∧
    (∀ g ∈ st'.exclFiles, g.path = pn →
      g = ⟨pn, flag, e.mtimeSec, e.mtimeNsec, e.ctimeSec, e.ctimeNsec⟩) := by
  unfold excludeEntry at h
  split at h
  · cases h
  · simp only [hp] at h
    split at h
    · rename_i hany
      cases h
      simp only [List.any_eq_true, beq_iff_eq] at hany
      obtain ⟨g0, hg0, hg0p⟩ := hany
      refine ⟨⟨_, List.mem_map.mpr ⟨g0, hg0, rfl⟩, by simp [hg0p]⟩, ?_⟩
      intro g hg hgp
      obtain ⟨g1, _, rfl⟩ := List.mem_map.mp hg
      by_cases h1 : g1.path = pn
      · simp [h1]
      · simp [h1] at hgp
    · rename_i hany
      cases h
      refine ⟨⟨_, List.mem_append_right _ (List.mem_singleton.mpr rfl), rfl⟩, ?_⟩
      intro g hg hgp
      rcases List.mem_append.mp hg with hg | hg
      · exfalso; apply hany
        simp only [List.any_eq_true, beq_iff_eq]
        exact ⟨g, hg, hgp⟩
      · exact List.mem_singleton.mp hg

theorem excludeEntry_others_kept (st st' : State) (flag : Nat) (e : Entry) (pn : List Nat)
    (hp : e.path = some pn) (h : excludeEntry st flag e = some st') (g : ExclFile) (hg : g.path ≠ pn) :
    g ∈ st'.exclFiles ↔ g ∈ st.exclFiles := by
  unfold excludeEntry at h
  split at h
  · cases h
  · simp only [hp] at h
    split at h
    · cases h
      simp only [List.mem_map]
      constructor
      · rintro ⟨g1, hg1, rfl⟩
        by_cases h1 : g1.path = pn
        · simp [h1] at hg
        · simpa [h1] using hg1
      · intro hm; exact ⟨g, hm, by simp [hg]⟩
    · cases h
      simp only [List.mem_append, List.mem_singleton]
      constructor
      · rintro (h | rfl)
        · exact h
        · exact absurd rfl hg
      · exact Or.inl

/-- Non-vacuity: a second registration with different mtime/ctime nanoseconds replaces all four fields. -/
example : (excludeEntry { exclFiles := [⟨[102], matchCtime ||| matchOlder, 100, 700, 100, 300⟩] }
    (matchCtime ||| matchOlder) { path := some [102], mtimeSec := 100, mtimeNsec := 500, ctimeSet := true, ctimeSec := 100, ctimeNsec := 900 }).map (·.exclFiles)
    = some [⟨[102], matchCtime ||| matchOlder, 100, 500, 100, 900⟩] := by decide

end LA.C16
