/-
C16 — Pattern and criteria matching follows its documented semantics safely.
-/
import LA.Model.Pm
namespace LA.C16
open LA.Pm

theorem placeholder : True := trivial

end LA.C16
