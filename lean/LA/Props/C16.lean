/-
C16 — Pattern and criteria matching follows its documented semantics safely.

Part 1: the wildcard matcher, `LA.Pm` (model of archive_pathmatch.c, both the
`char` and the `wchar_t` copy).  Part 2: inclusion/exclusion, time and owner
criteria, `LA.Match` (model of the decision logic of archive_match.c).

Termination of the matcher is definitional: `matchAt`, `matchBody`, `unanch`,
`pm`, `pmLoop`, `star` are accepted by Lean's well-founded recursion on the
measure (pattern left, call kind, subject left); there is no fuel anywhere.

Strings are lists of code units; "pattern/subject characters are non-NUL" is the
C-string invariant `NoNul`.  The memory-safety theorems do not even need it (a
NUL inside the list reads as a terminator and stops the scan early); the
declarative ones do, and say so.
-/
import LA.Lemmas.PmSpec
set_option linter.unusedSimpArgs false
namespace LA.C16
open LA.Pm

/-- "a[!b]", "a" -/
def witnessPattern : List Nat := [97, 91, 33, 98, 93]
def witnessSubject : List Nat := [97]

/-! ## Evaluation never reads outside the pattern and path strings -/

/-- `pm()` / `pm_w()` started anywhere inside the two strings never reads an index
beyond either terminator: for all patterns, subjects, flags, start offsets. -/
theorem pm_no_oob (cfg : Cfg) (hg : cfg.guardClass = true) (p s : List Nat) (fl : Flags)
    (pi si : Nat) (hpi : pi ≤ p.length) (hsi : si ≤ s.length) :
    pm cfg p s fl pi si ≠ .oob :=
  (safe_all cfg hg p s).2.2.2.1 fl pi si hpi hsi

example : pm narrow witnessPattern witnessSubject ⟨false, false⟩ 0 0 = .no := by
  simp [witnessPattern, witnessSubject, pm_eq, pmLoop_eq, rd, dotSlash, classEnd]

/-- `__archive_pathmatch()` / `__archive_pathmatch_w()` on two non-NULL strings. -/
theorem matchAt_no_oob (cfg : Cfg) (hg : cfg.guardClass = true) (p s : List Nat) (fl : Flags)
    (pi si : Nat) (hpi : pi ≤ p.length) (hsi : si ≤ s.length) :
    matchAt cfg p s fl pi si ≠ .oob :=
  (safe_all cfg hg p s).1 fl pi si hpi hsi

/-- The entry points, NULL pointers included. -/
theorem pathmatch_no_oob (cfg : Cfg) (hg : cfg.guardClass = true) (p s : Option (List Nat)) (fl : Flags) :
    pathmatch cfg p s fl ≠ .oob := by
  cases p <;> cases s <;> simp [pathmatch]
  exact matchAt_no_oob cfg hg _ _ fl 0 0 (Nat.zero_le _) (Nat.zero_le _)

example : pathmatch wide (some [97]) (some [97, 47, 98]) ⟨false, true⟩ = .yes := by
  simp [pathmatch, matchAt_eq, matchBody_eq, pm_eq, pmLoop_eq, rd, dotSlash]

/-- The verdict is therefore always a plain yes/no. -/
theorem pathmatch_total (cfg : Cfg) (hg : cfg.guardClass = true) (p s : Option (List Nat)) (fl : Flags) :
    pathmatch cfg p s fl = .yes ∨ pathmatch cfg p s fl = .no := by
  have := pathmatch_no_oob cfg hg p s fl
  cases h : pathmatch cfg p s fl <;> simp_all

/-- The statement above is **false of the code before the `fix:` commit** (model with
`guardClass := false`): pattern `a[!b]` against `a` lets the class accept the
terminator and the next iteration reads one past it.  Replayed on the real code by
`corpus/C16/pm.class-at-nul.ops`. -/
theorem unrepaired_reads_past_end :
    pathmatch narrowUnrepaired (some witnessPattern) (some witnessSubject) ⟨false, false⟩ = .oob := by
  simp [witnessPattern, witnessSubject, pathmatch, matchAt_eq, matchBody_eq, pm_eq, pmLoop_eq, rd, dotSlash,
    classEnd, pmList, pmListLoop, narrowUnrepaired]

/-! ## The narrow and wide entry points agree -/

/-- On strings of 7-bit code units (the property's alphabet) `__archive_pathmatch` and
`__archive_pathmatch_w` return the same verdict.  Beyond 7 bits they cannot: the
narrow matcher sees bytes, signed, the wide one code points. -/
theorem narrow_wide_agree (p s : Option (List Nat)) (fl : Flags)
    (hp : ∀ x, p = some x → Ascii x) (hs : ∀ x, s = some x → Ascii x) :
    pathmatch narrow p s fl = pathmatch wide p s fl := by
  cases p <;> cases s <;> simp [pathmatch]
  rename_i p s
  exact ((nw_all p s (hp p rfl) (hs s rfl)).1 fl 0 0).symm

example : Ascii witnessPattern := by simp [Ascii, witnessPattern]

/-- The restriction is needed: byte 0x80 is below 'a' for `char`, above it for `wchar_t`. -/
theorem narrow_wide_differ_beyond_ascii :
    pathmatch narrow (some [91, 97, 45, 128, 93]) (some [98]) ⟨false, false⟩ = .no ∧
    pathmatch wide (some [91, 97, 45, 128, 93]) (some [98]) ⟨false, false⟩ = .yes := by
  constructor <;>
  simp [pathmatch, matchAt_eq, matchBody_eq, pm_eq, pmLoop_eq, rd, dotSlash, classEnd, pmList, pmListLoop,
    narrow, wide, sext, Res.ofBool]

/-! ## Documented semantics, declaratively -/

/-- `?` consumes exactly one character of the subject, whatever it is (also `/`). -/
theorem pm_question (cfg : Cfg) (p s : List Nat) (fl : Flags) (pi si : Nat) (hs : NoNul s)
    (hq : rd p pi = some C_QUEST) (hsi : si < s.length) :
    pmLoop cfg p s fl pi si = pmLoop cfg p s fl (pi + 1) (si + 1) := by
  obtain ⟨c, hc, hc0, _⟩ := rd_inside hs hsi
  rw [pmLoop_eq]; simp [hq, hc, hc0]

/-- `?` never matches the end of the subject. -/
theorem pm_question_at_end (cfg : Cfg) (p s : List Nat) (fl : Flags) (pi : Nat)
    (hq : rd p pi = some C_QUEST) :
    pmLoop cfg p s fl pi s.length = .no := by
  rw [pmLoop_eq]; simp [hq, rd_len]

example : rd [97, 63, 98] 1 = some C_QUEST := by simp [rd]

/-- A run of `*` matches iff nothing follows it, or the rest of the pattern matches (through
the entry point, as the C does) at some position of the subject that is not its end. -/
theorem pm_star (cfg : Cfg) (hg : cfg.guardClass = true) (p s : List Nat) (hs : NoNul s) (fl : Flags)
    (pi si pj : Nat) (hstar : rd p pi = some C_STAR) (hpj : skipStars p pi = some pj)
    (hsi : si ≤ s.length) :
    pmLoop cfg p s fl pi si = .yes ↔
      rd p pj = some 0 ∨ ∃ sj, si ≤ sj ∧ sj < s.length ∧ matchAt cfg p s fl pj sj = .yes := by
  have hle := skipStars_le hpj
  obtain ⟨c', hc'⟩ := rd_isSome hle
  rw [pmLoop_eq]; simp only [hstar, hpj, hc']
  by_cases h0 : c' = 0
  · subst h0; simp
  · have : (42 : Nat) ≠ 0 := by decide
    simp only [h0, if_false, Option.some.injEq, false_or, this, (by decide : (42 : Nat) ≠ 63), if_true]
    exact star_yes_iff cfg hg p s hs fl pj hle si hsi

example : skipStars [42, 42, 97] 0 = some 2 := by
  simp [skipStars_eq, rd]

/-- A trailing `*` matches everything. -/
theorem pm_star_trailing (cfg : Cfg) (p s : List Nat) (fl : Flags) (pi si : Nat)
    (hstar : rd p pi = some C_STAR) (hpj : skipStars p pi = some p.length) :
    pmLoop cfg p s fl pi si = .yes := by
  rw [pmLoop_eq]; simp [hstar, hpj, rd_len]

/-- A pattern of ordinary characters matches a slash-free subject iff they are equal. -/
theorem pm_literal (cfg : Cfg) (p s : List Nat) (fl : Flags) (hp : ∀ c ∈ p, Lit c) (hs : NoNul s)
    (hns : ∀ c ∈ s, c ≠ C_SLASH) :
    pm cfg p s fl 0 0 = .ofBool (p = s) := by
  have hps : ∀ c ∈ p, c ≠ C_SLASH := fun c hc => (hp c hc).2.2.2.2.2.1
  rw [pm_eq, dotSlash_noSlash hns 0 (Nat.zero_le _), dotSlash_noSlash hps 0 (Nat.zero_le _)]
  simpa using pmLoop_literal cfg p s fl hp hs hns 0 0 (Nat.zero_le _) (Nat.zero_le _)

example : ∀ c ∈ [97, 46, 98], Lit c := by simp [Lit]

/-- With `PATHMATCH_NO_ANCHOR_START` (and no leading `^`, `*`, `/`) the entry point succeeds iff
`pm()` succeeds at the start of some path element: the beginning, or just after any `/`. -/
theorem unanchored_start (cfg : Cfg) (hg : cfg.guardClass = true) (p s : List Nat) (hs : NoNul s)
    (fl : Flags) (hf : fl.noStart = true) (c : Nat) (hc : rd p 0 = some c) (hc0 : c ≠ 0)
    (hcc : c ≠ C_CARET) (hcs : c ≠ C_STAR) (hcl : c ≠ C_SLASH) :
    matchAt cfg p s fl 0 0 = .yes ↔ ∃ k, ElemStart s 0 k ∧ pm cfg p s fl 0 k = .yes := by
  obtain ⟨d, hd⟩ := rd_isSome (Nat.zero_le s.length)
  rw [matchAt_eq]; simp only [hc, hc0, hcc, if_false]
  rw [matchBody_eq]; simp only [hc, hd, hcs, hcl, false_and, false_or, if_false, hf, if_true]
  exact unanch_yes_iff cfg hg p s hs fl 0 (Nat.zero_le _) 0 (Nat.zero_le _)

example : ElemStart [97, 47, 98] 0 2 := .inr ⟨1, by simp [firstStart, rd], by simp, by simp, rfl⟩

/-- A leading `^` switches `PATHMATCH_NO_ANCHOR_START` off and is otherwise dropped. -/
theorem caret_anchors_start (cfg : Cfg) (p s : List Nat) (fl : Flags) (h : rd p 0 = some C_CARET) :
    matchAt cfg p s fl 0 0 = matchBody cfg p s { fl with noStart := false } 1 0 := by
  rw [matchAt_eq]; simp [h]

/-- Without `PATHMATCH_NO_ANCHOR_START` the match starts at the beginning only. -/
theorem anchored_start (cfg : Cfg) (p s : List Nat) (fl : Flags) (hf : fl.noStart = false)
    (c d : Nat) (hc : rd p 0 = some c) (hd : rd s 0 = some d) (hc0 : c ≠ 0)
    (hcc : c ≠ C_CARET) (hcs : c ≠ C_STAR) (hcl : c ≠ C_SLASH) :
    matchAt cfg p s fl 0 0 = pm cfg p s fl 0 0 := by
  rw [matchAt_eq]; simp only [hc, hc0, hcc, if_false]
  rw [matchBody_eq]; simp [hc, hd, hcs, hcl, hf]

/-- End of pattern, `PATHMATCH_NO_ANCHOR_END`: accepted at a `/` boundary of the subject
(a pattern naming a directory also matches what is below it). -/
theorem end_unanchored_at_slash (cfg : Cfg) (p s : List Nat) (fl : Flags) (pi si : Nat)
    (hp : rd p pi = some 0) (hs : rd s si = some C_SLASH) (hf : fl.noEnd = true) :
    pmLoop cfg p s fl pi si = .yes := by
  rw [pmLoop_eq]; simp [hp, hs, hf]

/-- End of pattern, anchored end: only `/`, `./` and a final `.` may remain ("dir" == "dir/" == "dir/."). -/
theorem end_anchored (cfg : Cfg) (p s : List Nat) (fl : Flags) (pi si sj : Nat)
    (hp : rd p pi = some 0) (hs : rd s si = some C_SLASH) (hf : fl.noEnd = false)
    (hk : slashskip s si = some sj) :
    pmLoop cfg p s fl pi si = .ofBool (rd s sj = some 0) := by
  obtain ⟨d, hd⟩ := rd_isSome (slashskip_le hk)
  rw [pmLoop_eq]; simp [hp, hs, hf, hk, hd]

/-- End of pattern away from a `/`: the subject must end too, whatever the flags. -/
theorem end_not_at_slash (cfg : Cfg) (p s : List Nat) (fl : Flags) (pi si d : Nat)
    (hp : rd p pi = some 0) (hs : rd s si = some d) (hd : d ≠ C_SLASH) :
    pmLoop cfg p s fl pi si = .ofBool (d = 0) := by
  rw [pmLoop_eq]; simp [hp, hs, hd]

/-- A final `$` under `PATHMATCH_NO_ANCHOR_END` anchors the end (modulo trailing `/`, `/.`). -/
theorem dollar_anchors_end (cfg : Cfg) (p s : List Nat) (fl : Flags) (pi si sj : Nat)
    (hp : rd p pi = some C_DOLLAR) (hp1 : rd p (pi + 1) = some 0) (hf : fl.noEnd = true)
    (hk : slashskip s si = some sj) :
    pmLoop cfg p s fl pi si = .ofBool (rd s sj = some 0) := by
  obtain ⟨d, hd⟩ := rd_isSome (slashskip_le hk)
  rw [pmLoop_eq]; simp [hp, hp1, hf, hk, hd]

/-- Leading `./` (and what `pm_slashskip` swallows after it) of the subject is ignored. -/
theorem leading_dot_slash_subject (cfg : Cfg) (p s : List Nat) (fl : Flags) (pi si sj pj : Nat)
    (h0 : rd s si = some C_DOT) (h1 : rd s (si + 1) = some C_SLASH) (hk : slashskip s (si + 1) = some sj)
    (hpd : dotSlash p pi = some pj) :
    pm cfg p s fl pi si = pmLoop cfg p s fl pj sj := by
  have hsd : dotSlash s si = some sj := by simp [dotSlash, h0, h1, hk]
  rw [pm_eq]; simp [hsd, hpd]

/-- … and of the pattern. -/
theorem leading_dot_slash_pattern (cfg : Cfg) (p s : List Nat) (fl : Flags) (pi si sj pj : Nat)
    (h0 : rd p pi = some C_DOT) (h1 : rd p (pi + 1) = some C_SLASH) (hk : slashskip p (pi + 1) = some pj)
    (hsd : dotSlash s si = some sj) :
    pm cfg p s fl pi si = pmLoop cfg p s fl pj sj := by
  have hpd : dotSlash p pi = some pj := by simp [dotSlash, h0, h1, hk]
  rw [pm_eq]; simp [hsd, hpd]

example : slashskip [46, 47, 47, 46, 47, 97] 1 = some 5 := by
  simp [slashskip_eq, rd]

/-- A `/` in the pattern matches one or more `/` (with `./` segments) of the subject, or its end. -/
theorem slash_run (cfg : Cfg) (p s : List Nat) (fl : Flags) (pi si pj sj d c' : Nat)
    (hp : rd p pi = some C_SLASH) (hs : rd s si = some d) (hd : d = C_SLASH ∨ d = 0)
    (hpk : slashskip p pi = some pj) (hsk : slashskip s si = some sj) (hc' : rd p pj = some c')
    (hne : ¬ (c' = 0 ∧ fl.noEnd = true)) :
    pmLoop cfg p s fl pi si = pmLoop cfg p s fl pj sj := by
  rw [pmLoop_eq]
  have : ¬ (d ≠ C_SLASH ∧ d ≠ 0) := by rcases hd with h | h <;> simp [h]
  simp only [hp, hs, hpk, hsk, hc']
  simp [this, hne]

end LA.C16
