/-
C09 — Output is correctly blocked and write faults are always reported.

Theorems over the model of the client write layer of archive_write.c
(`LA.CW`: `archive_write_client_open/_write/_close`, the last filter of every
write pipeline) and of the memory sink (`LA.MemSink`: `memory_write`).

A *session* is one life of that layer: open with `bytes_per_block = bpb`, any
sequence of writes `ds` (the byte chunks the format/filter layer hands down),
then close with `bytes_in_last_block = bil`; it stops at the first call that
reports failure.  The client write callback is an arbitrary deterministic state
machine `W : Writer σ` started in any state `w` — every theorem is quantified
over all of them, over all block sizes, all last-block settings and all write
sequences.  An `Event` is one invocation of the callback (bytes offered, value
returned).

* `stream_exact`     — no failing answer ⇒ the accepted bytes are the written bytes
                       followed by zero padding, each once, in order;
* `blocked`          — callback accepts what it is offered, `bpb > 0` ⇒ every offer but
                       the last is `bpb` bytes, the last is sized by the last-block rule;
* `blocksize_independent` — two block sizes ⇒ same stream up to the trailing zero padding;
* `short_write_resumed`   — every offer starts exactly at the first byte not yet accepted;
* `fault_reported`, `fault_reported_script` — a non-positive answer at ANY invocation makes
                       the call in progress return fatal; what was accepted is a prefix of
                       the intended stream; no store leaves the copy buffer;
* `memory_sink_bounded`, `memory_write_overflow` — `archive_write_open_memory`: `used ≤ size`
                       always, nothing is stored past the caller's block, overflow is an error.
The filter-level results (`b64_fault_reported`, `uu_fault_reported`,
`ustar_fault_reported`) are in `LA.Props.C09Filters`.
-/
import LA.Lemmas.ClientWriteSession
import LA.Lemmas.MemSink
namespace LA.C09
open LA.CW LA.MemSink

/-- The caller's chunks as cells (caller data is initialised memory). -/
def cells (ds : List (List Nat)) : List (List Cell) := ds.map (·.map some)
/-- The byte stream the caller wrote. -/
def bytes (ds : List (List Nat)) : List Cell := ds.flatten.map some
/-- `n` zero bytes. -/
def zeros (n : Nat) : List Cell := List.replicate n (some 0)

theorem cells_flatten (ds : List (List Nat)) : (cells ds).flatten = bytes ds := by
  simp [cells, bytes, List.map_flatten]

/-- **C09, exactly once and in order.**  For every callback and every schedule of
(possibly short) positive answers: every call succeeds, close is reached, and the
concatenation of the accepted bytes is the concatenation of all writes followed
by `n` zero bytes of padding (`n = 0` or `n < bpb`). -/
theorem stream_exact {σ : Type} (W : Writer σ) (w : σ) (bpb : Nat) (bil : Int) (ds : List (List Nat))
    (hgood : ∀ e ∈ allEvents (session W w bpb bil (cells ds)).1, 0 < e.ret) :
    (∀ x ∈ (session W w bpb bil (cells ds)).1, x.1 = .ok) ∧
    (session W w bpb bil (cells ds)).1.length = ds.length + 1 ∧
    ∃ n, (n = 0 ∨ n < bpb) ∧
      taken (allEvents (session W w bpb bil (cells ds)).1) = bytes ds ++ zeros n := by
  obtain ⟨h1, ⟨n, hn, _, _, _, h5⟩, _, _⟩ := session_spec W w bpb bil (cells ds)
  have hok : ∀ x ∈ (session W w bpb bil (cells ds)).1, x.1 = .ok := by
    intro x hx
    have := h1 x hx
    cases hst : x.1 with
    | ok => rfl
    | oob => exact absurd hst this.1
    | fatal =>
      obtain ⟨e, he, hb⟩ := this.2.mp hst
      have := hgood e (mem_allEvents hx he)
      simp only [Event.bad] at hb; omega
  have := h5 hok
  rw [cells_flatten] at this
  exact ⟨hok, by simpa [cells] using this.1, n, hn, this.2⟩

/-- Non-vacuity: a callback that takes 2 bytes, then 5, then everything; 4-byte blocks. -/
example : (∀ e ∈ allEvents (session scriptWriter [.accept 2, .accept 5] 4 (-1) (cells [[1,2,3],[4,5,6,7,8]])).1,
    0 < e.ret) ∧
    taken (allEvents (session scriptWriter [.accept 2, .accept 5] 4 (-1) (cells [[1,2,3],[4,5,6,7,8]])).1)
      = bytes [[1,2,3],[4,5,6,7,8]] ++ zeros 0 := by
  simp [session, runWrites, clientWrite, clientOpen, writeTail, directLoop, flushLoop, poke, clientClose,
    cells, bytes, zeros, Writer.ask, scriptWriter, Ans.ret, lastBlockTarget, lastBlockLen, CState.bufSize,
    allEvents, taken, Event.taken]

/-- **C09, blocking.**  With a non-zero block size and a callback that accepts what
it is offered: the offers, concatenated, are the written bytes followed by the
zero padding the last-block rule prescribes; every offer except the last carries
exactly `bpb` bytes; the last carries `bpb` bytes when the stream is a whole
number of blocks and `lastBlockLen bpb bil r` bytes (`r` = bytes in the partial
block) otherwise.  Independent of how the writes were chunked. -/
theorem blocked {σ : Type} (W : Writer σ) (w : σ) (bpb : Nat) (bil : Int) (ds : List (List Nat))
    (hb : 0 < bpb)
    (hall : ∀ e ∈ allEvents (session W w bpb bil (cells ds)).1, e.ret = e.offer.length) :
    let offers := (allEvents (session W w bpb bil (cells ds)).1).map (·.offer)
    let r := (bytes ds).length % bpb
    offers.flatten = bytes ds ++ zeros (padLen bpb bil r) ∧
    (∀ o ∈ offers.dropLast, o.length = bpb) ∧
    (∀ o, offers.getLast? = some o → o.length = if r = 0 then bpb else lastBlockLen bpb bil r) := by
  obtain ⟨_, _, _, h4⟩ := session_spec W w bpb bil (cells ds)
  obtain ⟨wo, hwo1, hwo2, hwo3⟩ := h4 hb hall
  rw [cells_flatten] at hwo2 hwo3
  simp only []
  rw [hwo3]
  by_cases hr : (bytes ds).length % bpb = 0
  · simp only [hr, if_true, List.append_nil, Nat.sub_zero] at hwo2 ⊢
    refine ⟨?_, fun o ho => hwo1 o (List.dropLast_subset _ ho), ?_⟩
    · rw [hwo2, List.take_length]; simp [padLen, zeros]
    · intro o ho; exact hwo1 o (List.mem_of_getLast? ho)
  · simp only [hr, if_false]
    refine ⟨?_, ?_, ?_⟩
    · rw [List.flatten_append, hwo2]
      simp only [List.flatten_cons, List.flatten_nil, List.append_nil, zeros]
      rw [← List.append_assoc, List.take_append_drop]
    · intro o ho
      rw [List.dropLast_concat] at ho
      exact hwo1 o ho
    · intro o ho
      rw [List.getLast?_concat] at ho
      injection ho with ho; subst ho
      have hlt : (bytes ds).length % bpb < bpb := Nat.mod_lt _ hb
      have hle : (bytes ds).length % bpb ≤ (bytes ds).length := Nat.mod_le _ _
      have hge := lastBlockLen_ge bpb bil ((bytes ds).length % bpb)
      simp only [List.length_append, List.length_drop, List.length_replicate, padLen, hr, if_false]
      omega

/-- Non-vacuity: 10 bytes in three chunks, 4-byte blocks, last block rounded up to a multiple of 3. -/
example : (∀ e ∈ allEvents (session scriptWriter [] 4 3 (cells [[1,2,3],[4,5,6,7,8],[9,10]])).1,
    e.ret = e.offer.length) ∧
    (allEvents (session scriptWriter [] 4 3 (cells [[1,2,3],[4,5,6,7,8],[9,10]])).1).map (·.offer)
      = [[some 1, some 2, some 3, some 4], [some 5, some 6, some 7, some 8], [some 9, some 10, some 0]] := by
  simp [session, runWrites, clientWrite, clientOpen, writeTail, directLoop, flushLoop, poke, clientClose,
    cells, Writer.ask, scriptWriter, Ans.ret, lastBlockTarget, lastBlockLen, CState.bufSize, allEvents]

/-- **C09, block-size independence.**  The same writes through two block sizes
(any last-block settings, any two callbacks that never fail): both accepted
streams are the written bytes followed by zeros — they differ only in the
amount of trailing zero padding. -/
theorem blocksize_independent {σ τ : Type} (W : Writer σ) (w : σ) (V : Writer τ) (v : τ)
    (bpb1 bpb2 : Nat) (bil1 bil2 : Int) (ds : List (List Nat))
    (h1 : ∀ e ∈ allEvents (session W w bpb1 bil1 (cells ds)).1, 0 < e.ret)
    (h2 : ∀ e ∈ allEvents (session V v bpb2 bil2 (cells ds)).1, 0 < e.ret) :
    ∃ n1 n2, (n1 = 0 ∨ n1 < bpb1) ∧ (n2 = 0 ∨ n2 < bpb2) ∧
      taken (allEvents (session W w bpb1 bil1 (cells ds)).1) = bytes ds ++ zeros n1 ∧
      taken (allEvents (session V v bpb2 bil2 (cells ds)).1) = bytes ds ++ zeros n2 := by
  obtain ⟨_, _, n1, hn1, e1⟩ := stream_exact W w bpb1 bil1 ds h1
  obtain ⟨_, _, n2, hn2, e2⟩ := stream_exact V v bpb2 bil2 ds h2
  exact ⟨n1, n2, hn1, hn2, e1, e2⟩

/-- With a zero block size (pass-through) or `bytes_in_last_block = 1` there is no padding at all. -/
example : taken (allEvents (session scriptWriter [.accept 1] 0 (-1) (cells [[1,2,3],[4,5]])).1) =
    bytes [[1,2,3],[4,5]] ∧
    taken (allEvents (session scriptWriter [.accept 1] 4 1 (cells [[1,2,3],[4,5]])).1) =
    bytes [[1,2,3],[4,5]] := by
  simp [session, runWrites, clientWrite, clientOpen, writeTail, directLoop, flushLoop, poke, clientClose,
    cells, bytes, Writer.ask, scriptWriter, Ans.ret, lastBlockTarget, lastBlockLen, CState.bufSize,
    allEvents, taken, Event.taken]

/-- **C09, a short write is resumed where it stopped.**  In every session (any
answers, up to the first reported failure) each offer begins exactly at the
first byte of the intended stream that the callback has not yet accepted. -/
theorem short_write_resumed {σ : Type} (W : Writer σ) (w : σ) (bpb : Nat) (bil : Int) (ds : List (List Nat)) :
    ∃ n, ∀ pre e post, allEvents (session W w bpb bil (cells ds)).1 = pre ++ e :: post →
      e.offer <+: (bytes ds ++ zeros n).drop (taken pre).length := by
  obtain ⟨_, ⟨n, _, _, h3, _, _⟩, _, _⟩ := session_spec W w bpb bil (cells ds)
  rw [cells_flatten] at h3
  refine ⟨n, fun pre e post h => ?_⟩
  rw [h] at h3
  simpa [zeros] using resumes_at h3

/-- Non-vacuity: a callback that takes one byte at a time sees 4, 3, 2, 1 bytes of the first block. -/
example : ((allEvents (session scriptWriter [.accept 1, .accept 1, .accept 1] 4 (-1) (cells [[1],[2,3,4,5]])).1).map
    (·.offer)).take 4 = [[some 1, some 2, some 3, some 4], [some 2, some 3, some 4], [some 3, some 4], [some 4]] := by
  simp [session, runWrites, clientWrite, clientOpen, writeTail, directLoop, flushLoop, poke, clientClose,
    cells, Writer.ask, scriptWriter, Ans.ret, lastBlockTarget, lastBlockLen, CState.bufSize, allEvents]

/-- **C09, write faults are always reported.**  In every session, for every
callback: a call returns fatal exactly when one of the callback invocations made
during that call returned a non-positive value — whichever invocation that is —
no call ever stores outside the copy buffer, and the bytes accepted so far are a
prefix of the written bytes (followed by padding zeros if the failure is in close). -/
theorem fault_reported {σ : Type} (W : Writer σ) (w : σ) (bpb : Nat) (bil : Int) (ds : List (List Nat)) :
    (∀ x ∈ (session W w bpb bil (cells ds)).1,
      x.1 ≠ .oob ∧ (x.1 = .fatal ↔ ∃ e ∈ x.2, e.ret ≤ 0)) ∧
    ∃ n, taken (allEvents (session W w bpb bil (cells ds)).1) <+: bytes ds ++ zeros n := by
  obtain ⟨h1, ⟨n, _, h2, _, _, _⟩, _, _⟩ := session_spec W w bpb bil (cells ds)
  rw [cells_flatten] at h2
  exact ⟨h1, n, h2⟩

/-- **C09, the n-th invocation fails — for every n.**  With the scripted callback:
if answer number `i` of the script is `zero` or `error` and the session gets as
far as invocation `i`, then that invocation is reported: the call during which it
happened returns fatal. -/
theorem fault_reported_script (sc : List Ans) (bpb : Nat) (bil : Int) (ds : List (List Nat)) (i : Nat)
    (hi : i < sc.length) (hbad : sc[i] = .zero ∨ sc[i] = .error ∨ sc[i] = .accept 0)
    (hreach : i < (allEvents (session scriptWriter sc bpb bil (cells ds)).1).length) :
    ∃ x ∈ (session scriptWriter sc bpb bil (cells ds)).1,
      (allEvents (session scriptWriter sc bpb bil (cells ds)).1)[i] ∈ x.2 ∧ x.1 = .fatal := by
  obtain ⟨h1, _, h3, _⟩ := session_spec scriptWriter sc bpb bil (cells ds)
  have hs := (Threads.script h3).2 i hreach hi
  have hret : (allEvents (session scriptWriter sc bpb bil (cells ds)).1)[i].ret ≤ 0 := by
    rw [hs]
    rcases hbad with h | h | h <;> rw [h] <;> simp [Ans.ret]
  obtain ⟨x, hx, he⟩ := mem_allEvents_iff.mp (List.getElem_mem hreach)
  exact ⟨x, hx, he, (h1 x hx).2.mpr ⟨_, he, hret⟩⟩

/-- Non-vacuity: the third invocation (the padded last block, in close) fails. -/
example : (session scriptWriter [.accept 9, .accept 2, .error] 4 (-1) (cells [[1,2,3,4,5,6,7,8,9]])).1.map (·.1)
    = [.ok, .fatal] ∧
    (allEvents (session scriptWriter [.accept 9, .accept 2, .error] 4 (-1) (cells [[1,2,3,4,5,6,7,8,9]])).1).length = 3 := by
  simp [session, runWrites, clientWrite, clientOpen, writeTail, directLoop, flushLoop, poke, clientClose,
    cells, Writer.ask, scriptWriter, Ans.ret, lastBlockTarget, lastBlockLen, CState.bufSize, allEvents]

/-! ### memory sink -/

/-- `memory_write`: a write that does not fit returns `ARCHIVE_FATAL` and changes nothing. -/
theorem memory_write_overflow (m : Mem) (d : List Cell) (h : m.used + d.length > m.size) :
    memoryWrite m d = (-30, m) := by
  simp [memoryWrite, h]

/-- **C09, memory sink.**  `archive_write_open_memory` with a caller block of
`block` cells and a declared size `size ≤ block`, any block size, last-block
setting and writes: at the end (and, the invariant being preserved by every
invocation, at every moment) `used ≤ size`, `*used` mirrors it, and no `memcpy`
left the caller's block.  An invocation that would overflow is answered with
`ARCHIVE_FATAL` without storing anything (`memory_write_overflow`), which the
call in progress reports (`fault_reported`). -/
theorem memory_sink_bounded (block size bpb : Nat) (bil : Int) (ds : List (List Nat)) (h : size ≤ block) :
    let m := (session memWriter (memOpen block size) bpb bil (cells ds)).2
    m.used ≤ size ∧ m.oob = false ∧ m.clientUsed = m.used ∧ m.size = size := by
  obtain ⟨_, _, h3, _⟩ := session_spec memWriter (memOpen block size) bpb bil (cells ds)
  have hP : ∀ (w : Mem) (o : List Cell), (MemOk w ∧ w.size = size) →
      (MemOk (memWriter.ask w o).2 ∧ (memWriter.ask w o).2.size = size) := by
    intro w o ⟨hw, hs⟩
    refine ⟨memoryWrite_ok w o hw, ?_⟩
    simp only [Writer.ask, memWriter, memoryWrite]
    split
    · exact hs
    · split <;> exact hs
  have h0 : MemOk (memOpen block size) ∧ (memOpen block size).size = size :=
    ⟨⟨by simp [memOpen], by simpa [memOpen] using h, rfl, rfl⟩, rfl⟩
  have := Threads.inv (fun m => MemOk m ∧ m.size = size) hP h3 h0
  obtain ⟨⟨a, _, c, d⟩, e⟩ := this
  rw [e] at a
  exact ⟨a, c, d, e⟩

/-- Non-vacuity: a 6-byte block receiving 9 bytes in 4-byte blocks: the second block is refused. -/
example : (session memWriter (memOpen 6 6) 4 1 (cells [[1,2,3,4,5,6,7,8,9]])).1.map (·.1) = [.fatal] ∧
    (session memWriter (memOpen 6 6) 4 1 (cells [[1,2,3,4,5,6,7,8,9]])).2.used = 4 := by
  simp [session, runWrites, clientWrite, clientOpen, writeTail, directLoop, flushLoop, poke, clientClose,
    cells, Writer.ask, memWriter, memoryWrite, memOpen, lastBlockTarget, lastBlockLen, CState.bufSize]

end LA.C09
