/-
C11 — Writer output is deterministic and contains no uninitialised bytes.

Determinism.  Every writer function of the model (`LA.CW.session`,
`LA.WC.apiHeader/apiData/…`, `LA.Ustar.formatHeader`) is a Lean function of the
entries, data, options and callback it is given and of nothing else: there is no
heap, stack, clock or process id in its domain, so "repeating the same calls
yields the same bytes" is `rfl` (`deterministic` below states it for the record).
What has content is the tie to the C (engine `det`: identical output under
different heap and stack poison) and the absence of uninitialised bytes, which
the model makes visible: buffers start as `none` cells (fresh `malloc`, fresh
stack array) and the theorems say no `none` cell can reach the output.

* `all_offered_defined`  — client write layer: for every callback, block size,
  last-block setting and history of writes of initialised data, every byte of
  every offer is initialised (the never-written tail of the `malloc`ed block
  buffer is not exposed; the last block is padded from explicit zero stores);
* `header_fully_defined` — ustar header writer: starting from an uninitialised
  512-byte array, every one of the 512 bytes handed to `__archive_write_output`
  has been stored to (template copy, then fields, then checksum);
* `api_all_offered_defined` — the same through the modelled write core: any sequence of
  open / header / data / finish_entry / close / free calls on a raw or ustar handle, with or
  without a b64encode/uuencode filter, any callback: every byte offered is initialised (ustar
  headers come from the fully stored header array, entry padding and the end-of-archive marker
  from the `calloc`ed null block, the last block from explicit zero stores);
* `template_covers_header` — the obligation that makes it so, on the extracted
  template and `memcpy` length: a shorter copy breaks the proof.
-/
import LA.Lemmas.ClientWriteSession
import LA.Lemmas.Ustar
import LA.Lemmas.WriteCoreDef
namespace LA.C11
open LA.CW LA.Ustar LA.Gen.WriteLayout

/-- Determinism is definitional: equal inputs, equal results. -/
theorem deterministic {σ : Type} (W : Writer σ) (w : σ) (bpb : Nat) (bil : Int) (ds : List (List Cell)) :
    session W w bpb bil ds = session W w bpb bil ds := rfl

/-- **C11, client write layer.**  If every byte the format/filter layer hands
down is initialised, then so is every byte of every offer made to the client
write callback — for every callback behaviour (short writes, failures), block
size, last-block setting and sequence of writes. -/
theorem all_offered_defined {σ : Type} (W : Writer σ) (w : σ) (bpb : Nat) (bil : Int) (ds : List (List Cell))
    (hdef : ∀ d ∈ ds, ∀ c ∈ d, c.isSome = true) :
    ∀ e ∈ allEvents (session W w bpb bil ds).1, ∀ c ∈ e.offer, c.isSome = true := by
  obtain ⟨_, ⟨n, _, _, _, h4, _⟩, _, _⟩ := session_spec W w bpb bil ds
  intro e he c hc
  rcases List.mem_append.mp (h4 e he c hc) with h | h
  · obtain ⟨d, hd, hcd⟩ := List.mem_flatten.mp h
    exact hdef d hd c hcd
  · rw [List.eq_of_mem_replicate h]; rfl

/-- Non-vacuity: 3 bytes into a 4-byte block buffer; the last offer is `[1,2,3,0]`, not `[1,2,3,<junk>]`. -/
example : (allEvents (session scriptWriter [] 4 (-1) [[some 1, some 2, some 3]]).1).map (·.offer) =
    [[some 1, some 2, some 3, some 0]] := by
  simp [session, runWrites, clientWrite, clientOpen, writeTail, directLoop, flushLoop, poke, clientClose,
    Writer.ask, scriptWriter, lastBlockTarget, lastBlockLen, CState.bufSize, allEvents]

/-- The extracted `memcpy(h, &template_header, N)` covers the whole header. -/
theorem template_covers_header : (templateHeader.take templateCopyLen).length = 512 := template_covers

/-- **C11, ustar header.**  `__archive_write_format_header_ustar` run on an
uninitialised 512-byte array (all cells `none`): whenever it produces a header,
that header has 512 bytes and every one of them has been stored to — for every
entry. -/
theorem header_fully_defined (e : Entry) (st : Int) (h : List Cell) (hh : formatHeader e = some (st, h)) :
    h.length = 512 ∧ ∀ c ∈ h, c.isSome = true := formatHeader_defined e st h hh

/-! ### through the write core -/

/-- The API calls of a writing session. -/
inductive Call
  | open_
  | header (e : Entry)
  | data (d : List Nat)
  | finishEntry
  | close
  | free

open LA.WC in
def step {σ : Type} (W : Writer σ) (w : σ) (h : Handle) : Call → Int × Handle × List Event × σ
  | .open_ => apiOpen W w h
  | .header e => apiHeader W w h e
  | .data d => apiData W w h (d.map some)
  | .finishEntry => apiFinishEntry W w h
  | .close => apiClose W w h
  | .free => apiFree W w h

/-- All callback invocations of a sequence of API calls (whatever they return). -/
def runCalls {σ : Type} (W : Writer σ) (w : σ) (h : LA.WC.Handle) : List Call → List Event
  | [] => []
  | c :: cs => (step W w h c).2.2.1 ++ runCalls W (step W w h c).2.2.2 (step W w h c).2.1 cs

open LA.WC in
theorem step_def {σ : Type} (W : Writer σ) (w : σ) (h : Handle) (c : Call) (hc : COk h.cs) :
    Dfn (step W w h c) := by
  cases c with
  | open_ => exact apiOpen_def W w h hc
  | header e => exact apiHeader_def W w h e hc
  | data d => exact apiData_def W w h _ hc (cellsDef_map_some d)
  | finishEntry => exact apiFinishEntry_def W w h hc
  | close => exact apiClose_def W w h hc
  | free => exact apiFree_def W w h hc

/-- **C11, modelled writers.**  Start from any handle that has not been opened yet
(any format among raw/ustar, any filter among none/b64encode/uuencode, any block
size, last-block setting, open-callback result) and make any sequence of API
calls with initialised data, against any callback: no uninitialised byte is ever
offered to the write callback. -/
theorem api_all_offered_defined {σ : Type} (W : Writer σ) (w : σ) (h : LA.WC.Handle) (hnew : h.cs = none)
    (calls : List Call) :
    ∀ e ∈ runCalls W w h calls, ∀ c ∈ e.offer, c.isSome = true := by
  have hc : LA.WC.COk h.cs := by rw [hnew]; exact LA.WC.cOk_none
  clear hnew
  induction calls generalizing w h with
  | nil => intro e he; cases he
  | cons c cs ih =>
    have hs := step_def W w h c hc
    intro e he
    simp only [runCalls] at he
    rcases List.mem_append.mp he with he | he
    · exact hs.1 e he
    · exact ih _ _ hs.2 e he

/-- Non-vacuity: a raw archive of 3 bytes through a 4-byte block buffer: one offer, `[1,2,3,0]`. -/
example : (runCalls scriptWriter [] { fmt := .raw, bpb := 4 }
    [.open_, .header { pathname := [97] }, .data [1, 2, 3], .close]).map (·.offer) =
    [[some 1, some 2, some 3, some 0]] := by
  simp [runCalls, step, LA.WC.apiOpen, LA.WC.checkMagic, LA.WC.filtersOpen, LA.WC.clientOpenStep, LA.WC.apiHeader,
    LA.WC.apiFinishEntry, LA.WC.hasFinishEntry, LA.WC.formatHeaderOp, LA.WC.apiData, LA.WC.formatDataOp, LA.WC.output,
    LA.WC.clientFilterWrite, LA.WC.apiClose, LA.WC.formatClose, LA.WC.filtersClose, LA.WC.encCloseStep,
    LA.WC.clientCloseStep, LA.WC.imin, LA.WC.stCode, LA.WC.ok, LA.WC.warn, LA.WC.fatal, LA.WC.failed,
    clientWrite, clientOpen, writeTail, directLoop, flushLoop, poke, clientClose, Writer.ask, scriptWriter,
    lastBlockTarget, lastBlockLen, CState.bufSize]

/-- Non-vacuity: the header writer does produce a header for an ordinary entry. -/
def exEntry : Entry := {
  pathname := [97]
  size := 5
  mode := 420
  uid := 1000
  gid := 100
  mtime := 1700000000
  uname := [117]
  gname := [103] }

set_option maxRecDepth 16384 in
example : (formatHeader exEntry).isSome = true := by decide

end LA.C11
