/-
C11 — Writer output is deterministic and contains no uninitialised bytes.

Determinism.  Every writer function of the model (`LA.CW.session`,
`LA.WC.apiHeader/apiData/…`, `LA.Ustar.formatHeader`) is a Lean function of the
entries, data, options and callback it is given and of nothing else: there is no
heap, stack, clock or process id in its domain, so "repeating the same calls
yields the same bytes" is `rfl` (`deterministic` below states it for the record).
What has content is the tie to the C (engine `det`: identical output under
different heap and stack poison) and the absence of uninitialised bytes, which
the model makes visible: buffers start as `none` cells (fresh `malloc`, fresh
stack array) and the theorems say no `none` cell can reach the output.

* `all_offered_defined`  — client write layer: for every callback, block size,
  last-block setting and history of writes of initialised data, every byte of
  every offer is initialised (the never-written tail of the `malloc`ed block
  buffer is not exposed; the last block is padded from explicit zero stores);
* `header_fully_defined` — ustar header writer: starting from an uninitialised
  512-byte array, every one of the 512 bytes handed to `__archive_write_output`
  has been stored to (template copy, then fields, then checksum);
* `template_covers_header` — the obligation that makes it so, on the extracted
  template and `memcpy` length: a shorter copy breaks the proof.
-/
import LA.Lemmas.ClientWriteSession
import LA.Model.Ustar
namespace LA.C11
open LA.CW LA.Ustar LA.Gen.WriteLayout

/-- Determinism is definitional: equal inputs, equal results. -/
theorem deterministic {σ : Type} (W : Writer σ) (w : σ) (bpb : Nat) (bil : Int) (ds : List (List Cell)) :
    session W w bpb bil ds = session W w bpb bil ds := rfl

/-- **C11, client write layer.**  If every byte the format/filter layer hands
down is initialised, then so is every byte of every offer made to the client
write callback — for every callback behaviour (short writes, failures), block
size, last-block setting and sequence of writes. -/
theorem all_offered_defined {σ : Type} (W : Writer σ) (w : σ) (bpb : Nat) (bil : Int) (ds : List (List Cell))
    (hdef : ∀ d ∈ ds, ∀ c ∈ d, c.isSome = true) :
    ∀ e ∈ allEvents (session W w bpb bil ds).1, ∀ c ∈ e.offer, c.isSome = true := by
  obtain ⟨_, ⟨n, _, _, _, h4, _⟩, _, _⟩ := session_spec W w bpb bil ds
  intro e he c hc
  rcases List.mem_append.mp (h4 e he c hc) with h | h
  · obtain ⟨d, hd, hcd⟩ := List.mem_flatten.mp h
    exact hdef d hd c hcd
  · rw [List.eq_of_mem_replicate h]; rfl

/-- Non-vacuity: 3 bytes into a 4-byte block buffer; the last offer is `[1,2,3,0]`, not `[1,2,3,<junk>]`. -/
example : (allEvents (session scriptWriter [] 4 (-1) [[some 1, some 2, some 3]]).1).map (·.offer) =
    [[some 1, some 2, some 3, some 0]] := by
  simp [session, runWrites, clientWrite, clientOpen, writeTail, directLoop, flushLoop, poke, clientClose,
    Writer.ask, scriptWriter, lastBlockTarget, lastBlockLen, CState.bufSize, allEvents]

set_option maxRecDepth 8192 in
/-- The extracted `memcpy(h, &template_header, N)` covers the whole header. -/
theorem template_covers_header : (templateHeader.take templateCopyLen).length = 512 := by decide

theorem store_defined {h h' : List Cell} {off : Nat} {bs : List Nat} (hs : store h off bs = some h')
    (hd : ∀ c ∈ h, c.isSome = true) : h'.length = h.length ∧ ∀ c ∈ h', c.isSome = true := by
  refine ⟨poke_length hs, ?_⟩
  unfold store poke at hs
  split at hs
  · injection hs with hs; subst hs
    intro c hc
    rcases List.mem_append.mp hc with hc | hc
    · rcases List.mem_append.mp hc with hc | hc
      · exact hd c (List.mem_of_mem_take hc)
      · obtain ⟨b, _, rfl⟩ := List.mem_map.mp hc; rfl
    · exact hd c (List.mem_of_mem_drop hc)
  · cases hs

theorem applyStores_defined : ∀ {ss : List Store} {h h' : List Cell}, applyStores h ss = some h' →
    (∀ c ∈ h, c.isSome = true) → h'.length = h.length ∧ ∀ c ∈ h', c.isSome = true := by
  intro ss
  induction ss with
  | nil => intro h h' hs hd; simp only [applyStores, Option.some.injEq] at hs; subst hs; exact ⟨rfl, hd⟩
  | cons s r ih =>
    intro h h' hs hd
    obtain ⟨off, bs⟩ := s
    simp only [applyStores] at hs
    cases hst : store h off bs with
    | none => rw [hst] at hs; cases hs
    | some h1 =>
      rw [hst] at hs
      have h1d := store_defined hst hd
      have := ih hs h1d.2
      exact ⟨by rw [this.1, h1d.1], this.2⟩

/-- The template copy into the fresh array, followed by any stores, leaves no cell undefined. -/
theorem applyStores_template {n : Nat} {T : List Nat} {fs : List Store} {h1 : List Cell} (hT : T.length = n)
    (hs : applyStores (List.replicate n none) ((0, T) :: fs) = some h1) :
    h1.length = n ∧ ∀ c ∈ h1, c.isSome = true := by
  have h0 : store (List.replicate n none) 0 T = some (T.map some) := by
    simp only [store, poke, List.length_map, hT, List.length_replicate, Nat.zero_add, Nat.le_refl, if_true,
      List.take_zero, List.nil_append]
    rw [List.drop_of_length_le (by simp)]; simp
  have hdef0 : ∀ c ∈ T.map some, c.isSome = true := by
    intro c hc; obtain ⟨b, _, rfl⟩ := List.mem_map.mp hc; rfl
  simp only [applyStores, h0] at hs
  have := applyStores_defined hs hdef0
  exact ⟨by rw [this.1, List.length_map, hT], this.2⟩

/-- **C11, ustar header.**  `__archive_write_format_header_ustar` run on an
uninitialised 512-byte array (all cells `none`): whenever it produces a header,
that header has 512 bytes and every one of them has been stored to — for every
entry. -/
theorem header_fully_defined (e : Entry) (st : Int) (h : List Cell) (hh : formatHeader e = some (st, h)) :
    h.length = 512 ∧ ∀ c ∈ h, c.isSome = true := by
  unfold formatHeader at hh
  simp only [] at hh
  cases h1s : applyStores (List.replicate 512 none) ((0, templateHeader.take templateCopyLen) :: (fieldStores e).2) with
  | none => rw [h1s] at hh; cases hh
  | some h1 =>
    rw [h1s] at hh
    have h1d := applyStores_template template_covers_header h1s
    simp only [] at hh
    cases hr : readAll (h1.take 512) with
    | none => rw [hr] at hh; cases hh
    | some bytes =>
      rw [hr] at hh
      simp only [] at hh
      cases h2s : applyStores h1 [(checksum_offset + 6, [0]),
          (checksum_offset, (formatOctal ((List.foldl (fun x1 x2 => x1 + x2) 0 bytes : Nat) : Int) 6).1)] with
      | none => rw [h2s] at hh; cases hh
      | some h2 =>
        rw [h2s] at hh
        injection hh with hh
        injection hh with _ hh
        subst hh
        have := applyStores_defined h2s h1d.2
        exact ⟨by rw [this.1, h1d.1], this.2⟩

/-- Non-vacuity: the header writer does produce a header for an ordinary entry. -/
def exEntry : Entry := {
  pathname := [97]
  size := 5
  mode := 420
  uid := 1000
  gid := 100
  mtime := 1700000000
  uname := [117]
  gname := [103] }

set_option maxRecDepth 16384 in
example : (formatHeader exEntry).isSome = true := by decide

end LA.C11
