/-
C03 — Filter (compression/encoding) round trip is the identity.

Part 1 (this section): the two encoders libarchive implements entirely itself
and their common read filter.  Models: `LA.LineFilter` + `LA.Uu` / `LA.B64`
(archive_write_add_filter_uuencode.c, archive_write_add_filter_b64encode.c) and
`LA.UuRead` (archive_read_support_filter_uu.c).  Helper lemmas:
LA/Lemmas/LineFilter.lean, UuCodec.lean, UuFlow.lean, UuStream.lean, UuSpecs.lean.

Quantifiers as in the property: all byte streams, all partitions of the stream
into writes, all `bytes_per_block` settings, all `mode` values, all non-empty
printable `name`s whose `begin` line fits the reader's line limit (`NameOk`; a
name with a byte outside 0x20..0x7e is the recorded finding C03-uu-name-nonascii),
and — on the read side — every sequence of read-ahead windows (`first`, `orc`),
provided the first window reaches beyond the `begin` line, which is what the
bidder leaves buffered (`bidder_recognises_own_output` needs two more lines).
-/
import LA.Lemmas.UuSpecs
import LA.Lemmas.UuBid
import LA.Lemmas.Drive
namespace LA.C03
open LA.UuRead LA.LineFilter LA.Gen.UuTables

/-- The uuencode write filter: the bytes passed downstream are `encStream` of the
concatenation of the writes — whatever the chunking and `bytes_per_block`. -/
theorem uu_encode_chunking_independent (bpb mode : Nat) (name : List Nat) (chunks : List (List Nat)) :
    LA.Uu.encode bpb mode name chunks = encStream LA.Uu.codec mode name chunks.flatten :=
  run_output LA.Uu.codec bpb mode name chunks

theorem b64_encode_chunking_independent (bpb mode : Nat) (name : List Nat) (chunks : List (List Nat)) :
    LA.B64.encode bpb mode name chunks = encStream LA.B64.codec mode name chunks.flatten :=
  run_output LA.B64.codec bpb mode name chunks

/-- Two chunkings of the same bytes (and two block sizes) give the same output. -/
theorem encode_chunking_independent (bpb1 bpb2 mode : Nat) (name : List Nat) (c1 c2 : List (List Nat))
    (h : c1.flatten = c2.flatten) :
    LA.Uu.encode bpb1 mode name c1 = LA.Uu.encode bpb2 mode name c2 ∧
    LA.B64.encode bpb1 mode name c1 = LA.B64.encode bpb2 mode name c2 := by
  simp [uu_encode_chunking_independent, b64_encode_chunking_independent, h]

example : ([[1, 2], [], [3]] : List (List Nat)).flatten = [[1], [2, 3]].flatten := by decide

/-- Every block the write loop hands to the next filter before `close` has exactly
`bs` bytes (`while (archive_strlen(&state->encoded_buff) >= state->bs)`). -/
theorem flush_blocks_exact (bs : Nat) (buf : List Nat) : ∀ b ∈ (flushLoop bs buf).2, b.length = bs :=
  flushLoop_blocks bs buf

/-- **uuencode → uudecode is the identity**, for every chunking of the writes and
every sequence of read windows. -/
theorem uu_roundtrip (bpb mode : Nat) (name x : List Nat) (chunks : List (List Nat)) (first : Nat) (orc : List Nat)
    (hx : chunks.flatten = x) (hb : Bytes x) (hn : NameOk name)
    (hfirst : (header LA.Uu.codec mode name).length ≤ first) :
    decode first orc (LA.Uu.encode bpb mode name chunks) = .eof x := by
  rw [uu_encode_chunking_independent, hx]
  exact stream_roundtrip (uuSpec mode name hn) x hb first orc hfirst

/-- The statement without the hypothesis on the first window is false of the
(repaired) code: a window that ends exactly after the `begin` line makes
`uudecode_filter_read` return 0 after having consumed that line, and 0 is the
end of data for its caller.  `uu_roundtrip` above is the `_partial` theorem;
its hypothesis `hfirst` names what is excluded, and
`bidder_recognises_own_output` is why the reader never gets there (the bidder
has pulled in the line after the `begin` line before the filter is created). -/
def RoundTripEveryFirstWindow : Prop :=
  ∀ (bpb mode : Nat) (name x : List Nat) (chunks : List (List Nat)) (first : Nat) (orc : List Nat),
    chunks.flatten = x → Bytes x → NameOk name → decode first orc (LA.Uu.encode bpb mode name chunks) = .eof x

theorem not_roundtrip_every_first_window : ¬ RoundTripEveryFirstWindow := by
  intro h
  have hn : NameOk [45] := ⟨by decide, by intro c hc; simp at hc; omega, by decide⟩
  have hb : Bytes [104] := by intro b hb; simp at hb; omega
  have h1 := h 10240 420 [45] [104] [[104]] 11 [] rfl hb hn
  rw [uu_encode_chunking_independent] at h1
  have h2 := header_only_window (uuSpec 420 [45] hn) [104] hb 11 [] (by decide)
  simp only [List.flatten_cons, List.flatten_nil, List.append_nil] at h1
  rw [h2] at h1
  simp at h1

theorem uu_roundtrip_partial (bpb mode : Nat) (name x : List Nat) (chunks : List (List Nat)) (first : Nat)
    (orc : List Nat) (hx : chunks.flatten = x) (hb : Bytes x) (hn : NameOk name)
    (hfirst : (header LA.Uu.codec mode name).length ≤ first) :
    decode first orc (LA.Uu.encode bpb mode name chunks) = .eof x :=
  uu_roundtrip bpb mode name x chunks first orc hx hb hn hfirst

/-- **b64encode → uudecode is the identity**, likewise. -/
theorem b64_roundtrip (bpb mode : Nat) (name x : List Nat) (chunks : List (List Nat)) (first : Nat) (orc : List Nat)
    (hx : chunks.flatten = x) (hb : Bytes x) (hn : NameOk name)
    (hfirst : (header LA.B64.codec mode name).length ≤ first) :
    decode first orc (LA.B64.encode bpb mode name chunks) = .eof x := by
  rw [b64_encode_chunking_independent, hx]
  exact stream_roundtrip (b64Spec mode name hn) x hb first orc hfirst

/-- Non-vacuity: the hypotheses hold for the default name "-" (header of 12 and 19
bytes), three bytes written one at a time, and a first window of 13 / 20 bytes. -/
example : NameOk [45] ∧ Bytes [0, 255, 10] ∧ ([[0], [255], [10]] : List (List Nat)).flatten = [0, 255, 10] ∧
    (header LA.Uu.codec 420 [45]).length ≤ 12 ∧ (header LA.B64.codec 420 [45]).length ≤ 19 := by
  refine ⟨⟨by decide, by intro c hc; simp at hc; omega, by decide⟩, by intro b hb; simp at hb; omega,
    by decide, by decide, by decide⟩

/-- **Truncated input is reported** (the repaired `finish:` of `uudecode_filter_read`,
C08's former finding C08-uu-truncated-clean-eof): take what the write filter
produces, keep the `begin` line and the first `j ≥ 1` encoded lines and drop
everything after them (the rest of the body and the `end` / `====` trailer).
For every sequence of read windows the consumer gets exactly the bytes of the
lines that are there and then a fatal error — never a clean end of data after a
proper prefix.  (A cut inside a line fails earlier, with "Missing format data";
that case is exercised by the C08 engine, not covered by this theorem.) -/
theorem uu_truncated_is_reported (mode : Nat) (name x : List Nat) (j first : Nat) (orc : List Nat)
    (hb : Bytes x) (hn : NameOk name) (hj : 0 < j)
    (hjl : j ≤ (pieces LA.Uu.codec.lbytes LA.Uu.codec.lpos x).length)
    (hfirst : (header LA.Uu.codec mode name).length ≤ first) :
    decode first orc (header LA.Uu.codec mode name ++
        (((pieces LA.Uu.codec.lbytes LA.Uu.codec.lpos x).take j).map LA.Uu.encLine).flatten) =
      .fatal ((pieces LA.Uu.codec.lbytes LA.Uu.codec.lpos x).take j).flatten :=
  stream_truncated (uuSpec mode name hn) x hb j hj hjl first orc hfirst

theorem b64_truncated_is_reported (mode : Nat) (name x : List Nat) (j first : Nat) (orc : List Nat)
    (hb : Bytes x) (hn : NameOk name) (hj : 0 < j)
    (hjl : j ≤ (pieces LA.B64.codec.lbytes LA.B64.codec.lpos x).length)
    (hfirst : (header LA.B64.codec mode name).length ≤ first) :
    decode first orc (header LA.B64.codec mode name ++
        (((pieces LA.B64.codec.lbytes LA.B64.codec.lpos x).take j).map LA.B64.encLine).flatten) =
      .fatal ((pieces LA.B64.codec.lbytes LA.B64.codec.lpos x).take j).flatten :=
  stream_truncated (b64Spec mode name hn) x hb j hj hjl first orc hfirst

/-- Non-vacuity: 100 bytes are three uuencode lines; keeping two of them satisfies the hypotheses. -/
example : 0 < 2 ∧ 2 ≤ (100 + 44) / 45 := by decide

/-- **The read bidder recognises what the two write filters produce** (so the
reader inserts the uudecode filter), for every chunking of the writes and every
behaviour of the read-ahead window while bidding: `extra` scripts how many bytes
beyond the requested minimum each `__archive_read_filter_ahead` call returns
(a window is never shorter than requested and never shrinks,
`LA.C05.window_is_stream_prefix`).  This includes the encoded empty file and
windows that end exactly at a line end (both repaired in the C). -/
theorem bidder_recognises_own_output (bpb mode : Nat) (name x : List Nat) (chunks : List (List Nat))
    (extra : List Nat) (hx : chunks.flatten = x) (hb : Bytes x) (hn : NameOk name) :
    (bid (LA.Uu.encode bpb mode name chunks) ScriptUp.ahead
        { total := (LA.Uu.encode bpb mode name chunks).length, extra := extra }).1 = .bid 50 ∧
    ∃ n, 50 ≤ n ∧ (bid (LA.B64.encode bpb mode name chunks) ScriptUp.ahead
        { total := (LA.B64.encode bpb mode name chunks).length, extra := extra }).1 = .bid n := by
  rw [uu_encode_chunking_independent, b64_encode_chunking_independent, hx]
  exact ⟨uu_bidder mode name x extra hb hn, b64_bidder mode name x extra hb hn⟩

example : NameOk [102, 105, 108, 101] ∧ Bytes ([] : List Nat) := by
  refine ⟨⟨by decide, by intro c hc; simp at hc; omega, by decide⟩, by intro b hb; simp at hb⟩

/-- Over *all* `name` settings the statement is false of the unchanged code (finding
C03-uu-name-nonascii): `get_line` gives up on any byte outside 0x20..0x7e, so a
UTF-8 name makes the bidder decline.  Witness: name "é", one byte of data.
`bidder_recognises_own_output` is the `_partial` theorem; `NameOk` names the exclusion. -/
def BidderRecognisesEveryName : Prop :=
  ∀ (name : List Nat), name ≠ [] → (∀ c ∈ name, c < 256 ∧ c ≠ 0 ∧ c ≠ 10 ∧ c ≠ 13) →
    ∃ n, 0 < n ∧ (bid (LA.Uu.encode 10240 420 name [[104]]) ScriptUp.ahead
      { total := (LA.Uu.encode 10240 420 name [[104]]).length, extra := [] }).1 = .bid n

set_option maxRecDepth 4000 in
theorem not_bidder_recognises_every_name : ¬ BidderRecognisesEveryName := by
  intro h
  obtain ⟨n, hn, hbid⟩ := h [195, 169] (by decide) (by intro c hc; simp at hc; omega)
  have e : LA.Uu.encode 10240 420 [195, 169] [[104]] =
      [98, 101, 103, 105, 110, 32, 54, 52, 52, 32, 195, 169, 10, 33, 58, 96, 96, 96, 10, 96, 10, 101, 110, 100, 10] := by
    rw [uu_encode_chunking_independent]
    simp [encStream, header, LA.Uu.codec, uuBegin, octal3, uuTrailer, encAll, uuLBytes, LA.Uu.encLine,
      LA.Uu.triples, LA.Uu.ch]
  rw [e] at hbid
  have : (bid [98, 101, 103, 105, 110, 32, 54, 52, 52, 32, 195, 169, 10, 33, 58, 96, 96, 96, 10, 96, 10, 101, 110, 100, 10]
      ScriptUp.ahead { total := 25, extra := [] }).1 = .bid 0 := by
    simp [bid, ScriptUp.ahead, bidFind, bidGetLine, bidLoop, BidSt.avail, getLine, cls, nbytesReq, bidMaxRead]
  simp only [List.length_cons, List.length_nil] at hbid
  rw [this] at hbid
  simp at hbid
  omega

/-- `la_b64_encode` never writes a line longer than 76 characters plus the newline;
`uu_encode` never one longer than 61 + 1. -/
theorem b64_line_len (p : List Nat) (h : p.length ≤ b64LBytes) : (LA.B64.encLine p).length ≤ 76 + 1 := by
  have h57 : p.length ≤ 57 := h
  simp only [LA.B64.encLine, List.length_append, b64_triples_length, List.length_cons, List.length_nil]
  omega

theorem uu_line_len (p : List Nat) (h : p.length ≤ uuLBytes) : (LA.Uu.encLine p).length ≤ 61 + 1 := by
  have h45 : p.length ≤ 45 := h
  simp only [LA.Uu.encLine, List.length_append, List.length_cons, triples_length, List.length_nil]
  omega

/-- The body of the stream is made of such lines: one per `LBYTES` input bytes. -/
theorem body_is_lines (c : Codec) (x : List Nat) :
    encAll c x = ((pieces c.lbytes c.lpos x).map c.encLine).flatten ∧
    ∀ p ∈ pieces c.lbytes c.lpos x, 0 < p.length ∧ p.length ≤ c.lbytes :=
  ⟨encAll_pieces c x, fun p hp => ⟨(pieces_mem c.lbytes c.lpos x p hp).1, (pieces_mem c.lbytes c.lpos x p hp).2.1⟩⟩

example : (LA.B64.encLine (List.replicate 57 255)).length = 77 := by decide

/-! ## Part 2: codec-backed filters — what libarchive itself contributes

The compression libraries are parameters (DESIGN.md section 3).  Proved here: the
write-side driver loop delivers exactly the library's output, and the gzip
member framing that libarchive writes and parses itself round-trips, also for
concatenated members. -/

open LA.Drive

/-- **The compressor driver is complete**: for every lawful streaming codec, every
chunking of the writes and every output-buffer size, the blocks passed
downstream concatenate to `header ++ comp (all the bytes written) ++ trailer` —
nothing is lost in the buffer, the tail is flushed on close. -/
theorem drive_loop_complete (c : ZCodec) (comp : List Nat → List Nat) (L : Lawful c comp)
    (cap : Nat) (hdr trailer : List Nat) (chunks : List (List Nat)) (hcap : 0 < cap) (hh : hdr.length ≤ cap) :
    ∃ blocks, LA.Drive.run c cap hdr trailer chunks = some blocks ∧
      blocks.flatten = hdr ++ comp chunks.flatten ++ trailer := by
  have h0 : LA.Drive.Inv L cap hdr ({ z := c.init, buf := hdr } : DState c) [] :=
    ⟨by simp [L.init_emit], L.init_abs, hh⟩
  obtain ⟨d1, e1, e2⟩ := foldl_write L cap hdr hcap chunks _ [] h0
  obtain ⟨d2, f1, f2⟩ := driveLoop_finish L cap hdr hcap _ d1 [] _ rfl e2
  unfold LA.Drive.run
  rw [e1]
  simp only [LA.Drive.close, f1]
  refine ⟨_, rfl, ?_⟩
  simp only [List.nil_append, List.append_nil] at f2
  by_cases ht : trailer = []
  · simp [ht, f2]
  · simp only [ht, if_false, List.flatten_append, List.flatten_cons, List.flatten_nil, List.append_nil]
    rw [f2]

/-- Hence the compressed stream does not depend on how the input was cut into writes,
nor on the size of the output buffer. -/
theorem drive_chunking_independent (c : ZCodec) (comp : List Nat → List Nat) (L : Lawful c comp)
    (cap1 cap2 : Nat) (hdr trailer : List Nat) (c1 c2 : List (List Nat))
    (h1 : 0 < cap1) (h2 : 0 < cap2) (hh1 : hdr.length ≤ cap1) (hh2 : hdr.length ≤ cap2)
    (hcat : c1.flatten = c2.flatten) :
    (LA.Drive.run c cap1 hdr trailer c1).map List.flatten = (LA.Drive.run c cap2 hdr trailer c2).map List.flatten := by
  obtain ⟨b1, e1, f1⟩ := drive_loop_complete c comp L cap1 hdr trailer c1 h1 hh1
  obtain ⟨b2, e2, f2⟩ := drive_loop_complete c comp L cap2 hdr trailer c2 h2 hh2
  simp [e1, e2, f1, f2, hcat]

/-- Non-vacuity: a codec satisfying every law exists ("stored": it copies at most
`avail_out` bytes per call and reports the end once a finishing call has copied
everything). -/
def storeCodec : ZCodec :=
  { σ := List Nat, init := [],
    call := fun z inp cap fin =>
      (z ++ inp.take cap, min inp.length cap, inp.take cap, if fin = true ∧ inp.length ≤ cap then .streamEnd else .ok),
    rank := fun _ inp fin => inp.length + (if fin then 1 else 0) }

example : Lawful storeCodec id :=
  { absorbed := id, emitted := id, init_abs := rfl, init_emit := rfl,
    consumed_le := by intro z inp cap fin; simp [storeCodec]; omega,
    produced_le := by intro z inp cap fin; simp [storeCodec, List.length_take]; omega,
    abs_step := by
      intro z inp cap fin; simp only [storeCodec, id]
      congr 1; rw [List.take_eq_take_iff]; simp [Nat.min_comm],
    emit_step := by intro z inp cap fin; rfl,
    end_spec := by
      intro z inp cap fin h
      simp only [storeCodec] at h ⊢
      by_cases hc : fin = true ∧ inp.length ≤ cap
      · exact ⟨hc.1, by omega, rfl⟩
      · simp [hc] at h,
    no_error := by intro z inp cap fin _; simp only [storeCodec]; split <;> simp,
    progress := by
      intro z inp cap fin hcap hwork hok
      simp only [storeCodec] at hok ⊢
      have hne : ¬ (fin = true ∧ inp.length ≤ cap) := by intro h; simp [h] at hok
      rcases hwork with h | h
      · have : 0 < inp.length := List.length_pos_iff.mpr h
        simp only [List.length_drop]; omega
      · subst h
        have : cap < inp.length := by
          rcases Nat.lt_or_ge cap inp.length with h | h
          · exact h
          · exact absurd ⟨rfl, h⟩ hne
        simp only [List.length_drop]; omega }

/-- **A gzip member as libarchive writes it reads back**; what follows the member is
read as further members.  `inflate (deflate x ++ r) = (x, r)` is the assumed law
of zlib (a deflate stream is self-delimiting).  Holds for every `mtime`
(`timestamp` option on or off) and compression level. -/
theorem gzip_frame_roundtrip (inflate : List Nat → Option (List Nat × List Nat)) (deflate : List Nat → List Nat)
    (crc32 : List Nat → Nat) (hlaw : ∀ x r, inflate (deflate x ++ r) = some (x, r))
    (mtime level : Nat) (x : List Nat) :
    gzRead inflate (gzMember deflate crc32 mtime level x) = .eof x := by
  have := gzRead_member inflate deflate crc32 hlaw mtime level x []
  rw [List.append_nil] at this
  rw [this]
  unfold gzRead
  simp [peekAtHeader, GzR.cons]

/-- **Multi-member streams**: the concatenation of any number of members — each
written with its own options — followed by anything that is not a gzip header
(nothing, zero padding) decodes to the concatenation of the inputs. -/
theorem multi_member (inflate : List Nat → Option (List Nat × List Nat)) (deflate : List Nat → List Nat)
    (crc32 : List Nat → Nat) (hlaw : ∀ x r, inflate (deflate x ++ r) = some (x, r))
    (members : List (Nat × Nat × List Nat)) (junk : List Nat) (hj : peekAtHeader junk = 0) :
    gzRead inflate ((members.map fun m => gzMember deflate crc32 m.1 m.2.1 m.2.2).flatten ++ junk) =
      .eof (members.map (·.2.2)).flatten := by
  induction members with
  | nil =>
    unfold gzRead
    simp [hj]
  | cons m rest ih =>
    simp only [List.map_cons, List.flatten_cons, List.append_assoc]
    rw [gzRead_member inflate deflate crc32 hlaw, ih]
    rfl

/-- The two-member case of the property text. -/
theorem gzip_two_members (inflate : List Nat → Option (List Nat × List Nat)) (deflate : List Nat → List Nat)
    (crc32 : List Nat → Nat) (hlaw : ∀ x r, inflate (deflate x ++ r) = some (x, r))
    (m1 l1 m2 l2 : Nat) (a b : List Nat) :
    gzRead inflate (gzMember deflate crc32 m1 l1 a ++ gzMember deflate crc32 m2 l2 b) = .eof (a ++ b) := by
  have := multi_member inflate deflate crc32 hlaw [(m1, l1, a), (m2, l2, b)] [] (by simp [peekAtHeader])
  simpa using this

/-- What the model does *not* promise, made explicit: the read filter consumes the
eight trailer bytes without looking at them (the source carries the TODO), so a
member with a wrong CRC32 / ISIZE is accepted. -/
theorem gzip_trailer_not_verified (inflate : List Nat → Option (List Nat × List Nat)) (deflate : List Nat → List Nat)
    (hlaw : ∀ x r, inflate (deflate x ++ r) = some (x, r)) (mtime level : Nat) (x t : List Nat)
    (ht : t.length = 8) :
    gzRead inflate (gzHeader mtime level ++ deflate x ++ t) = .eof x := by
  conv => lhs; unfold gzRead
  rw [List.append_assoc, peek_gzHeader]
  have hdrop : (gzHeader mtime level ++ (deflate x ++ t)).drop 10 = deflate x ++ t := by
    rw [List.drop_append_of_le_length (by simp [gzHeader, le32])]
    simp [gzHeader, le32]
  simp only [Nat.succ_ne_zero, dite_false]
  split
  · rename_i h; rw [hdrop, hlaw] at h; simp at h
  · rename_i x' r' h
    rw [hdrop, hlaw] at h
    simp only [Option.some.injEq, Prod.mk.injEq] at h
    obtain ⟨rfl, rfl⟩ := h
    have h1 : t.length ≤ ((gzHeader mtime level ++ (deflate x ++ t)).drop 10).length := by rw [hdrop]; simp
    have h2 : ¬ (t.length < 8) := by omega
    simp only [h1, dite_true, h2, if_false]
    rw [List.drop_of_length_le (by omega)]
    unfold gzRead
    simp [peekAtHeader, GzR.cons]

/-- The gzip write filter end to end on the model: driver + framing, then the reader. -/
theorem gzip_filter_roundtrip (c : ZCodec) (deflate : List Nat → List Nat) (L : Lawful c deflate)
    (inflate : List Nat → Option (List Nat × List Nat)) (crc32 : List Nat → Nat)
    (hlaw : ∀ x r, inflate (deflate x ++ r) = some (x, r))
    (cap mtime level : Nat) (chunks : List (List Nat)) (hcap : 10 ≤ cap) :
    ∃ blocks, LA.Drive.run c cap (gzHeader mtime level)
        (gzTrailer (crc32 chunks.flatten) chunks.flatten.length) chunks = some blocks ∧
      gzRead inflate blocks.flatten = .eof chunks.flatten := by
  obtain ⟨blocks, e1, e2⟩ := drive_loop_complete c deflate L cap (gzHeader mtime level)
    (gzTrailer (crc32 chunks.flatten) chunks.flatten.length) chunks (by omega) (by simpa [gzHeader, le32] using hcap)
  refine ⟨blocks, e1, ?_⟩
  rw [e2]
  exact gzip_frame_roundtrip inflate deflate crc32 hlaw mtime level chunks.flatten

end LA.C03
