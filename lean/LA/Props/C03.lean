/- C03 — placeholder while the theorems are being written. -/
import LA.Model.Uu
import LA.Model.B64
import LA.Model.UuRead
namespace LA.C03
theorem placeholder : True := trivial
end LA.C03
