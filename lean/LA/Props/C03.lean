/-
C03 — Filter (compression/encoding) round trip is the identity.

Part 1 (this section): the two encoders libarchive implements entirely itself
and their common read filter.  Models: `LA.LineFilter` + `LA.Uu` / `LA.B64`
(archive_write_add_filter_uuencode.c, archive_write_add_filter_b64encode.c) and
`LA.UuRead` (archive_read_support_filter_uu.c).  Helper lemmas:
LA/Lemmas/LineFilter.lean, UuCodec.lean, UuFlow.lean, UuStream.lean, UuSpecs.lean.

Quantifiers as in the property: all byte streams, all partitions of the stream
into writes, all `bytes_per_block` settings, all `mode` values, all non-empty
printable `name`s whose `begin` line fits the reader's line limit (`NameOk`; a
name with a byte outside 0x20..0x7e is the recorded finding C03-uu-name-nonascii),
and — on the read side — every sequence of read-ahead windows (`first`, `orc`),
provided the first window reaches beyond the `begin` line, which is what the
bidder leaves buffered (`bidder_recognises_own_output` needs two more lines).
-/
import LA.Lemmas.UuSpecs
import LA.Lemmas.UuBid
namespace LA.C03
open LA.UuRead LA.LineFilter LA.Gen.UuTables

/-- The uuencode write filter: the bytes passed downstream are `encStream` of the
concatenation of the writes — whatever the chunking and `bytes_per_block`. -/
theorem uu_encode_chunking_independent (bpb mode : Nat) (name : List Nat) (chunks : List (List Nat)) :
    LA.Uu.encode bpb mode name chunks = encStream LA.Uu.codec mode name chunks.flatten :=
  run_output LA.Uu.codec bpb mode name chunks

theorem b64_encode_chunking_independent (bpb mode : Nat) (name : List Nat) (chunks : List (List Nat)) :
    LA.B64.encode bpb mode name chunks = encStream LA.B64.codec mode name chunks.flatten :=
  run_output LA.B64.codec bpb mode name chunks

/-- Two chunkings of the same bytes (and two block sizes) give the same output. -/
theorem encode_chunking_independent (bpb1 bpb2 mode : Nat) (name : List Nat) (c1 c2 : List (List Nat))
    (h : c1.flatten = c2.flatten) :
    LA.Uu.encode bpb1 mode name c1 = LA.Uu.encode bpb2 mode name c2 ∧
    LA.B64.encode bpb1 mode name c1 = LA.B64.encode bpb2 mode name c2 := by
  simp [uu_encode_chunking_independent, b64_encode_chunking_independent, h]

example : ([[1, 2], [], [3]] : List (List Nat)).flatten = [[1], [2, 3]].flatten := by decide

/-- Every block the write loop hands to the next filter before `close` has exactly
`bs` bytes (`while (archive_strlen(&state->encoded_buff) >= state->bs)`). -/
theorem flush_blocks_exact (bs : Nat) (buf : List Nat) : ∀ b ∈ (flushLoop bs buf).2, b.length = bs :=
  flushLoop_blocks bs buf

/-- **uuencode → uudecode is the identity**, for every chunking of the writes and
every sequence of read windows. -/
theorem uu_roundtrip (bpb mode : Nat) (name x : List Nat) (chunks : List (List Nat)) (first : Nat) (orc : List Nat)
    (hx : chunks.flatten = x) (hb : Bytes x) (hn : NameOk name)
    (hfirst : (header LA.Uu.codec mode name).length ≤ first) :
    decode first orc (LA.Uu.encode bpb mode name chunks) = .eof x := by
  rw [uu_encode_chunking_independent, hx]
  exact stream_roundtrip (uuSpec mode name hn) x hb first orc hfirst

/-- **b64encode → uudecode is the identity**, likewise. -/
theorem b64_roundtrip (bpb mode : Nat) (name x : List Nat) (chunks : List (List Nat)) (first : Nat) (orc : List Nat)
    (hx : chunks.flatten = x) (hb : Bytes x) (hn : NameOk name)
    (hfirst : (header LA.B64.codec mode name).length ≤ first) :
    decode first orc (LA.B64.encode bpb mode name chunks) = .eof x := by
  rw [b64_encode_chunking_independent, hx]
  exact stream_roundtrip (b64Spec mode name hn) x hb first orc hfirst

/-- Non-vacuity: the hypotheses hold for the default name "-" (header of 12 and 19
bytes), three bytes written one at a time, and a first window of 13 / 20 bytes. -/
example : NameOk [45] ∧ Bytes [0, 255, 10] ∧ ([[0], [255], [10]] : List (List Nat)).flatten = [0, 255, 10] ∧
    (header LA.Uu.codec 420 [45]).length ≤ 12 ∧ (header LA.B64.codec 420 [45]).length ≤ 19 := by
  refine ⟨⟨by decide, by intro c hc; simp at hc; omega, by decide⟩, by intro b hb; simp at hb; omega,
    by decide, by decide, by decide⟩

/-- **The read bidder recognises what the two write filters produce** (so the
reader inserts the uudecode filter), for every chunking of the writes and every
behaviour of the read-ahead window while bidding: `extra` scripts how many bytes
beyond the requested minimum each `__archive_read_filter_ahead` call returns
(a window is never shorter than requested and never shrinks,
`LA.C05.window_is_stream_prefix`).  This includes the encoded empty file and
windows that end exactly at a line end (both repaired in the C). -/
theorem bidder_recognises_own_output (bpb mode : Nat) (name x : List Nat) (chunks : List (List Nat))
    (extra : List Nat) (hx : chunks.flatten = x) (hb : Bytes x) (hn : NameOk name) :
    (bid (LA.Uu.encode bpb mode name chunks) ScriptUp.ahead
        { total := (LA.Uu.encode bpb mode name chunks).length, extra := extra }).1 = .bid 50 ∧
    ∃ n, 50 ≤ n ∧ (bid (LA.B64.encode bpb mode name chunks) ScriptUp.ahead
        { total := (LA.B64.encode bpb mode name chunks).length, extra := extra }).1 = .bid n := by
  rw [uu_encode_chunking_independent, b64_encode_chunking_independent, hx]
  exact ⟨uu_bidder mode name x extra hb hn, b64_bidder mode name x extra hb hn⟩

example : NameOk [102, 105, 108, 101] ∧ Bytes ([] : List Nat) := by
  refine ⟨⟨by decide, by intro c hc; simp at hc; omega, by decide⟩, by intro b hb; simp at hb⟩

/-- `la_b64_encode` never writes a line longer than 76 characters plus the newline;
`uu_encode` never one longer than 61 + 1. -/
theorem b64_line_len (p : List Nat) (h : p.length ≤ b64LBytes) : (LA.B64.encLine p).length ≤ 76 + 1 := by
  have h57 : p.length ≤ 57 := h
  simp only [LA.B64.encLine, List.length_append, b64_triples_length, List.length_cons, List.length_nil]
  omega

theorem uu_line_len (p : List Nat) (h : p.length ≤ uuLBytes) : (LA.Uu.encLine p).length ≤ 61 + 1 := by
  have h45 : p.length ≤ 45 := h
  simp only [LA.Uu.encLine, List.length_append, List.length_cons, triples_length, List.length_nil]
  omega

/-- The body of the stream is made of such lines: one per `LBYTES` input bytes. -/
theorem body_is_lines (c : Codec) (x : List Nat) :
    encAll c x = ((pieces c.lbytes c.lpos x).map c.encLine).flatten ∧
    ∀ p ∈ pieces c.lbytes c.lpos x, 0 < p.length ∧ p.length ≤ c.lbytes :=
  ⟨encAll_pieces c x, fun p hp => ⟨(pieces_mem c.lbytes c.lpos x p hp).1, (pieces_mem c.lbytes c.lpos x p hp).2.1⟩⟩

example : (LA.B64.encLine (List.replicate 57 255)).length = 77 := by decide

end LA.C03
