/-
C20 — Passphrase-protected entries decrypt only with the right passphrase.

Property theorems over the models of
  archive_cryptor.c (`LA.Ctr`), the PKWARE functions of the zip reader/writer
  (`LA.ZipCrypt`), archive_read_add_passphrase.c and the two retry loops of the
  zip reader (`LA.Passphrase`), and the WinZip-AES entry layout (`LA.WinZipAes`).
The cryptographic primitives (AES block function, PBKDF2, HMAC, the CRC-32
step) are *parameters*; nothing is assumed about them except where a hypothesis
says so.  Helper lemmas live in `LA/Lemmas/*.lean`.
-/
import LA.Lemmas.Ctr
import LA.Lemmas.ZipCrypt
import LA.Lemmas.Passphrase
import LA.Lemmas.WinZipAes
set_option linter.unusedSimpArgs false
namespace LA.C20

/-! ## 1. AES-CTR (`aes_ctr_update`) -/
section ctr
open LA.Ctr

/-- `ctr_keystream`: for an arbitrary block function `E`, an arbitrary start
counter `k0` and an arbitrary chunking of the input, successive `aes_ctr_update`
calls never read outside `encr_buf`, return as many bytes as they got, and the
concatenated output is the input XORed with `E(k0+1) ‖ E(k0+2) ‖ …` (little-endian
64-bit counter in the first 8 nonce bytes, incremented before use). -/
theorem ctr_keystream (E : Block → Block) (k0 : Nat) (chunks : List (List UInt8)) :
    ∃ c os, run E (initAt k0) chunks = some (c, os) ∧
      os.flatten = xorStream (ksByte E k0) 0 chunks.flatten ∧
      os.map List.length = chunks.map List.length := by
  obtain ⟨c, os, h1, h2, h3, _⟩ := run_spec E k0 chunks 0 (initAt k0) (inv_initAt E k0)
  exact ⟨c, os, h1, h2, h3⟩

/-- The same from `aes_ctr_init` itself (counter 0: first block used is `E(1)`). -/
theorem ctr_keystream_init (E : Block → Block) (chunks : List (List UInt8)) :
    ∃ c os, run E init chunks = some (c, os) ∧
      os.flatten = xorStream (ksByte E 0) 0 chunks.flatten := by
  rw [init_eq_initAt]
  obtain ⟨c, os, h1, h2, _⟩ := ctr_keystream E 0 chunks
  exact ⟨c, os, h1, h2⟩

/-- non-vacuity: a concrete block function, three chunks (17 bytes: crosses a block border) -/
example : ∃ c os, run (fun b => b.map (· + 7)) init [List.replicate 15 1, [], [2, 3]] = some (c, os) ∧
    os.flatten.length = 17 := by
  obtain ⟨c, os, h, hf⟩ := ctr_keystream_init (fun b => b.map (· + 7)) [List.replicate 15 1, [], [2, 3]]
  exact ⟨c, os, h, by rw [hf, xorStream_length]; rfl⟩

/-- A single call with a short output buffer: exactly `min(in_len, cap)` bytes are
processed and they are the corresponding prefix of the stream. -/
theorem ctr_update_capacity (E : Block → Block) (k0 : Nat) (inp : List UInt8) (cap : Nat) :
    ∃ c, update E (initAt k0) inp cap =
      .ok c (xorStream (ksByte E k0) 0 (inp.take (min inp.length cap))) := by
  obtain ⟨c, h, _⟩ := update_spec E k0 0 (initAt k0) inp cap (inv_initAt E k0)
  exact ⟨c, h⟩

/-- `ctr_chunking_independent`: how the caller cuts the input into calls does not
matter. -/
theorem ctr_chunking_independent (E : Block → Block) (k0 : Nat) (cs1 cs2 : List (List UInt8))
    (h : cs1.flatten = cs2.flatten) :
    ∃ c1 o1 c2 o2, run E (initAt k0) cs1 = some (c1, o1) ∧ run E (initAt k0) cs2 = some (c2, o2) ∧
      o1.flatten = o2.flatten := by
  obtain ⟨c1, o1, h1, f1, _⟩ := ctr_keystream E k0 cs1
  obtain ⟨c2, o2, h2, f2, _⟩ := ctr_keystream E k0 cs2
  exact ⟨c1, o1, c2, o2, h1, h2, by rw [f1, f2, h]⟩

example : [[1, 2], [3]].flatten = [[1], [2, 3]].flatten := rfl

/-- `ctr_involutive`: decrypt ∘ encrypt = id, for every length (in particular
every length mod 16), every chunking on the encrypting side and every,
possibly different, chunking on the decrypting side. -/
theorem ctr_involutive (E : Block → Block) (k0 : Nat) (plain cipherChunks : List (List UInt8))
    (c1 : Ctx) (enc : List (List UInt8))
    (henc : run E (initAt k0) plain = some (c1, enc))
    (hcut : cipherChunks.flatten = enc.flatten) :
    ∃ c2 dec, run E (initAt k0) cipherChunks = some (c2, dec) ∧ dec.flatten = plain.flatten := by
  obtain ⟨c1', enc', h1, f1, _⟩ := ctr_keystream E k0 plain
  rw [henc] at h1
  obtain ⟨rfl, rfl⟩ := Prod.mk.inj (Option.some.inj h1)
  obtain ⟨c2, dec, h2, f2, _⟩ := ctr_keystream E k0 cipherChunks
  exact ⟨c2, dec, h2, by rw [f2, hcut, f1, xorStream_involutive]⟩

/-- non-vacuity: the hypotheses are met by a start counter at a carry border and a
re-cut of the cipher text -/
example : ∃ c1 enc, run (fun b => b.map (· * 3 + 1)) (initAt 255) [[10, 20], [30]] = some (c1, enc) ∧
    ([enc.flatten.take 1, enc.flatten.drop 1] : List (List UInt8)).flatten = enc.flatten := by
  obtain ⟨c, os, h, _⟩ := ctr_keystream (fun b => b.map (· * 3 + 1)) 255 [[10, 20], [30]]
  exact ⟨c, os, h, by simp only [List.flatten_cons, List.flatten_nil, List.append_nil, List.take_append_drop]⟩

/-- The counter is 64 bits wide: key-stream block `2^64` positions later repeats
(the carry stops at `nonce[7]`). -/
theorem ctr_counter_wraps (E : Block → Block) (k0 i : Nat) :
    ksByte E (k0 + 2 ^ 64) i = ksByte E k0 i := by
  have h : k0 + 2 ^ 64 + i / BS + 1 = (k0 + i / BS + 1) + 2 ^ 64 := by omega
  simp only [ksByte, h, counterBlock_wrap]

end ctr

/-! ## 2. Traditional PKWARE encryption (`trad_enc_*`, both copies) -/
section zipcrypt
open LA.ZipCrypt

/-- `trad_roundtrip`: for any key state, any CRC step function, any message and any
chunking on either side, `trad_enc_decrypt_update` undoes `trad_enc_encrypt_update`
and both sides end in the same key state. -/
theorem trad_roundtrip (zcrc : UInt32 → UInt8 → UInt32) (k : Keys)
    (plain cipherChunks : List (List UInt8))
    (hcut : cipherChunks.flatten = (runEnc zcrc k plain).2.flatten) :
    (runDec zcrc k cipherChunks).2.flatten = plain.flatten ∧
    (runDec zcrc k cipherChunks).1 = (runEnc zcrc k plain).1 := by
  have he := runEnc_flatten zcrc k plain
  have hd := runDec_flatten zcrc k cipherChunks
  rw [hcut] at hd
  have h := decLoop_encLoop zcrc k plain.flatten
  rw [← he] at h
  simp only at h
  rw [h] at hd
  exact ⟨(Prod.mk.inj hd).2, (Prod.mk.inj hd).1⟩

example : ([[1, 2], [3]] : List (List UInt8)).flatten = [[1], [2, 3]].flatten := rfl

/-- The cipher text is as long as the plain text (no padding, no expansion). -/
theorem trad_length (zcrc : UInt32 → UInt8 → UInt32) (k : Keys) (plain : List (List UInt8)) :
    (runEnc zcrc k plain).2.flatten.length = plain.flatten.length := by
  have := congrArg Prod.snd (runEnc_flatten zcrc k plain)
  simp only at this
  rw [this, encLoop_length]

/-- `trad_header_check` (1): which byte is compared.  Writer (`zip->trad_chkdat`) and
reader (`zip_entry->decdat`) take the check byte from the same place of the local
header: offset 11 (high byte of the DOS time) when the length-at-end flag is set,
offset 17 (high byte of the CRC-32) otherwise. -/
theorem trad_check_byte (lh : List UInt8) (lengthAtEnd : Bool) :
    checkByte lh lengthAtEnd = if lengthAtEnd then lh[11]? else lh[17]? := rfl

/-- `trad_header_check` (2): the reader's test is exactly "byte 11 of the decrypted
12-byte header equals the check byte" — one byte, nothing else. -/
theorem trad_accepts_iff (zcrc : UInt32 → UInt8 → UInt32) (pw hdr : List UInt8) (decdat : UInt8)
    (h : 12 ≤ hdr.length) :
    accepts zcrc pw hdr decdat = true ↔
      (decLoop zcrc (initKeys zcrc pw) (hdr.take 12)).2[11]? = some decdat := by
  have hl : ¬ hdr.length < 12 := by omega
  simp only [accepts, initR, Nat.lt_irrefl, if_false, hl]
  have hlen := decLoop_length zcrc (initKeys zcrc pw) (hdr.take 12)
  have h11 : 11 < (decLoop zcrc (initKeys zcrc pw) (hdr.take 12)).2.length := by
    rw [hlen, List.length_take]; omega
  rw [List.getElem?_eq_getElem h11]
  simp

/-- `trad_header_check` (3): the header the writer emits for a passphrase is accepted
by the reader given the same passphrase and the same check byte, for every
passphrase, every 11 random bytes and every CRC function, and leaves the reader
in the writer's key state (so the entry data decrypts, `trad_roundtrip`). -/
theorem trad_header_check (zcrc : UInt32 → UInt8 → UInt32) (pw rnd11 : List UInt8) (chk : UInt8) :
    initR zcrc pw (writeHeader zcrc pw rnd11 chk).2 12 = .ok (writeHeader zcrc pw rnd11 chk).1 chk ∧
    accepts zcrc pw (writeHeader zcrc pw rnd11 chk).2 chk = true := by
  let hdr := rnd11.take 11 ++ List.replicate (11 - rnd11.length) 0 ++ [chk]
  have hlen : hdr.length = 12 := by simp [hdr, List.length_take]; omega
  have h11 : hdr[11]? = some chk := by
    have : (rnd11.take 11 ++ List.replicate (11 - rnd11.length) 0).length = 11 := by
      simp [List.length_take]; omega
    simp only [hdr]
    rw [List.getElem?_append_right (by omega), this]; rfl
  have hw : (writeHeader zcrc pw rnd11 chk) = encLoop zcrc (initKeys zcrc pw) hdr := rfl
  have hwl : (encLoop zcrc (initKeys zcrc pw) hdr).2.length = 12 := by rw [encLoop_length, hlen]
  have hinit : initR zcrc pw (writeHeader zcrc pw rnd11 chk).2 12 = .ok (writeHeader zcrc pw rnd11 chk).1 chk := by
    rw [hw]
    simp only [initR, Nat.lt_irrefl, if_false, hwl]
    rw [List.take_of_length_le (by omega), decLoop_encLoop]
    simp only [h11]
  refine ⟨hinit, ?_⟩
  simp only [accepts, hinit, beq_self_eq_true]

/-- non-vacuity: a real passphrase, real random bytes, the zlib CRC -/
example : accepts zlibCrc32Byte [112, 97, 115, 115] (writeHeader zlibCrc32Byte [112, 97, 115, 115]
    [1, 2, 3, 4, 5, 6, 7, 8, 9, 10, 11] 0x5a).2 0x5a = true :=
  (trad_header_check zlibCrc32Byte _ _ _).2

/-- Whole entry: what the writer emits (12-byte header, then the payload, encrypted in
any chunking) is turned back into the payload by the reader (header through
`trad_enc_init`, data through `trad_enc_decrypt_update` in any chunking). -/
theorem trad_entry_roundtrip (zcrc : UInt32 → UInt8 → UInt32) (pw rnd11 : List UInt8) (chk : UInt8)
    (payload cipherChunks : List (List UInt8))
    (hcut : cipherChunks.flatten = (runEnc zcrc (writeHeader zcrc pw rnd11 chk).1 payload).2.flatten) :
    ∃ k, initR zcrc pw (writeHeader zcrc pw rnd11 chk).2 12 = .ok k chk ∧
      (runDec zcrc k cipherChunks).2.flatten = payload.flatten :=
  ⟨_, (trad_header_check zcrc pw rnd11 chk).1, (trad_roundtrip zcrc _ payload cipherChunks hcut).1⟩

end zipcrypt

/-! ## 3. The passphrase list (`archive_read_add_passphrase.c`) and the retry loops -/
section passphrase
open LA.Passphrase

/-- The pointer manipulations of `__archive_read_next_passphrase` are sound in every
reachable state: the invariant `candidate ≤ number of nodes` holds initially, is kept
by every API operation, and under it `next` never rotates a list that would lose
its `last` pointer and never dereferences `first == NULL`. -/
theorem passphrase_list_sound :
    Passphrase.Inv {} ∧
    (∀ s p, Passphrase.Inv s → Passphrase.Inv (add s p).1) ∧
    (∀ s cb, Passphrase.Inv s → Passphrase.Inv (setCallback s cb)) ∧
    (∀ s, Passphrase.Inv (reset s)) ∧
    (∀ s, Passphrase.Inv s → ∃ s' p, next s = .ret s' p ∧ Passphrase.Inv s') :=
  ⟨by simp [Passphrase.Inv], add_inv, fun _ _ h => h, reset_inv, next_inv⟩

/-- `passphrase_iteration` (1): after a reset, successive `next` calls yield every listed
candidate exactly once, in list order, and then the client callback's answers in
order (NULL for ever when there is no callback) — for every list, every callback
and every number of further calls. -/
theorem passphrase_iteration (s : St) (j : Nat) :
    ∃ s', nexts (reset s) (s.list.length + j) =
      some (s', s.list.map some ++ (List.range j).map (answer s)) :=
  let ⟨s', h, _⟩ := iteration s j; ⟨s', h⟩

/-- `passphrase_iteration` (2): when the consumer stops at candidate `k` (it matched), that
passphrase is at the head of the list afterwards (the list is rotated by `k`), so
the next entry tries it first. -/
theorem passphrase_stop_at_head (s : St) (k : Nat) (hk : k < s.list.length) :
    ∃ s', nexts (reset s) (k + 1) = some (s', (s.list.take (k + 1)).map some) ∧
      s'.list = s.list.drop k ++ s.list.take k ∧ s'.list.head? = some s.list[k] := by
  refine ⟨_, list_phase s.list k hk (reset s) rfl (by simp [reset]), rfl, ?_⟩
  exact rotl_head s.list k hk

/-- `passphrase_iteration` (3): after a full miss the list is back in its original order
(before the callback's answer, if any, is put in front). -/
theorem passphrase_order_restored (s : St) :
    ∃ s' last, nexts (reset s) (s.list.length + 1) = some (s', s.list.map some ++ [last]) ∧
      (s'.list = s.list ∨ ∃ p, last = some p ∧ s'.list = p :: s.list) := by
  refine ⟨_, _, full_miss s.list (reset s) rfl (by simp [reset]), ?_⟩
  unfold askCallback
  cases hcb : (reset s).cb with
  | none => left; simp [hcb]
  | some f =>
    simp only [hcb]
    cases f (reset s).calls with
    | none => left; rfl
    | some pw => right; exact ⟨pw, rfl, rfl⟩

/-- non-vacuity: three candidates and a callback -/
example : (nexts (reset { list := [[1], [2], [3]], cb := some fun i => some [10 + i.toUInt8] }) 5).map
      (fun r => (r.1.list, r.1.candidate, r.1.calls, r.2)) =
    some ([[11], [1], [2], [3], [10]], 1, 2, [some [1], some [2], some [3], some [10], some [11]]) := by
  simp [nexts, next, reset, rotate, rot1, askCallback]

/-- `wrong_passphrase_rejected`: if no passphrase that can come up (listed or answered by
the callback) derives a matching verification value, both retry loops end with
ARCHIVE_FAILED and no decryption context — for every list, callback and cap. -/
theorem wrong_passphrase_rejected (cap : Nat) (m : P → Bool) (s : St) (hw : AllWrong m s) :
    ∃ s' t w, retryLoop cap m (reset s) 0 = .failed s' t w :=
  retryLoop_wrong cap m (reset s) 0 (reset_inv s) hw

example : AllWrong (fun p => p == [9]) { list := [[1], [2]], cb := some fun _ => some [3] } := by
  constructor
  · intro p hp; simp at hp; rcases hp with rfl | rfl <;> decide
  · intro f hf i p hp
    simp at hf; subst hf; simp at hp; subst hp; decide

/-- `retry_loop_bounded`: the loop asks for at most `cap + 2` passphrases (cap = 10000 in
both `init_*_decryption` functions), whatever the callback keeps answering. -/
theorem retry_loop_bounded (cap : Nat) (m : P → Bool) (s : St) :
    (retryLoop cap m s 0).tries ≤ cap + 2 :=
  retryLoop_tries cap m s 0 (by omega)

/-- …and with the extracted caps. -/
theorem retry_loop_bounded_zip (m : P → Bool) (s : St) :
    (retryLoop LA.Gen.Crypt.retryCapTrad m s 0).tries ≤ 10002 ∧
    (retryLoop LA.Gen.Crypt.retryCapAes m s 0).tries ≤ 10002 :=
  ⟨retry_loop_bounded _ m s, retry_loop_bounded _ m s⟩

/-- The right passphrase is found: if candidate `k` of the list is the first one that
matches (and `k` is within the cap), the loop stops there after `k+1` tries and
leaves it at the head of the list. -/
theorem right_passphrase_found (cap : Nat) (m : P → Bool) (s : St) (k : Nat)
    (hk : k < s.list.length) (hm : m s.list[k] = true)
    (hbefore : ∀ i (h : i < k), m (s.list[i]'(by omega)) = false) (hcap : k ≤ cap + 1) :
    ∃ s', retryLoop cap m (reset s) 0 = .found s' s.list[k] (k + 1) ∧
      s'.list.head? = some s.list[k] := by
  obtain ⟨s', hn, _, hh⟩ := passphrase_stop_at_head s k hk
  refine ⟨s', ?_, hh⟩
  have := retryLoop_found cap m k (reset s) s' 0 (s.list.take k) s.list[k]
    (by rw [hn, List.take_succ_eq_append_getElem hk]) (by simp [List.length_take]; omega)
    (by
      intro p hp
      obtain ⟨i, hi, rfl⟩ := List.getElem_of_mem hp
      simp only [List.length_take] at hi
      rw [List.getElem_take]
      exact hbefore i (by omega))
    hm (by omega)
  simpa using this

example : ([[1], [2], [3]] : List P)[1] = [2] := rfl

end passphrase

/-! ## 4. WinZip-AES entry layout, authentication code, wrong passphrase -/
section winzip
open LA.WinZipAes LA.Passphrase LA.Gen.Crypt

/-- The constants of writer and reader agree (all extracted from the C): header size
= salt + 2-byte verification value; the reader's strength table maps the strength
byte the writer stores to the salt/key lengths the writer used; same authentication
code size; same PBKDF2 round count; the derived-key buffer is large enough. -/
theorem winzip_constants :
    (∀ enc : Enc, enc.headerSize = enc.saltLen + 2) ∧
    (∀ enc : Enc, strengthR enc.strengthByte = some (enc.saltLen, enc.keyLen)) ∧
    authCodeSizeR = authCodeSizeW ∧ kdfRoundsR = kdfRoundsW ∧
    (∀ enc : Enc, enc.keyLen * 2 + 2 ≤ aesMaxKeySize * 2 + 2) ∧
    encHeaderSizeR = tradHeaderSizeW := by
  refine ⟨?_, strengthR_enc, rfl, rfl, ?_, rfl⟩ <;> intro enc <;> cases enc <;> decide

/-- What a successful read of the writer's bytes looks like. -/
def ReadsBack (r : ReadResult) (payload : List UInt8) (st' : St) (n : Nat) : Prop :=
  r.status = .ok ∧ r.data = payload ∧ r.st = st' ∧ r.consumed = n

/-- `winzip_layout`: for AES-128 and AES-256, every passphrase, every salt, every payload
(any length, cut into any chunks for the cipher), PBKDF2/HMAC/AES being arbitrary
functions that return the lengths they are asked for:
the writer emits salt ‖ pwv(2) ‖ cipher text ‖ MAC(10); its own byte count
(`entry_compressed_written`, and the size it declares up front for a stored entry of
known size) is exactly that length; and the reader, positioned at these bytes with
that size and a passphrase state whose retry loop arrives at the same passphrase,
finds every field at the offset where the writer put it: it returns the payload
with ARCHIVE_OK, the authentication code matches, and it consumes exactly the
entry's bytes (whatever follows). -/
theorem winzip_layout (pr : Prims)
    (hkdf : ∀ p s r n, (pr.kdf p s r n).length = n)
    (hmacLen : ∀ k m, authCodeSize ≤ (pr.hmac k m).length)
    (enc : Enc) (pw : P) (salt : List UInt8) (hsalt : salt.length = enc.saltLen)
    (payload : List (List UInt8)) :
    ∃ w, writeEntry pr enc pw salt payload = some w ∧
      w.bytes.length = enc.saltLen + 2 + payload.flatten.length + authCodeSize ∧
      w.compressedWritten = w.bytes.length ∧
      declaredCompressedSize enc payload.flatten.length = w.bytes.length ∧
      ∀ (st st' : St) (t : Nat) (trailing : List UInt8),
        retryLoop retryCapAes
          (pwvMatches pr (w.bytes.take enc.saltLen) enc.keyLen ((w.bytes.drop enc.saltLen).take 2)) st 0
            = .found st' pw t →
        ReadsBack (readEntry pr enc.strengthByte w.compressedWritten (w.bytes ++ trailing) st)
          payload.flatten st' w.bytes.length := by
  obtain ⟨v0, v1, h0, h1, hw⟩ := writeEntry_eq pr hkdf enc pw salt payload
  refine ⟨_, hw, ?_, ?_, ?_, ?_⟩
  all_goals simp only
  · have hm : (macOf pr enc pw salt (cipherOf pr enc pw salt payload.flatten)).length = authCodeSize := by
      simp only [macOf, List.length_take]; have := hmacLen
        (((dkW pr enc pw salt).drop enc.keyLen).take enc.keyLen) (cipherOf pr enc pw salt payload.flatten)
      omega
    simp [List.length_append, cipherOf_length, hm, hsalt] <;> omega
  · have hm : (macOf pr enc pw salt (cipherOf pr enc pw salt payload.flatten)).length = authCodeSize := by
      simp only [macOf, List.length_take]; have := hmacLen
        (((dkW pr enc pw salt).drop enc.keyLen).take enc.keyLen) (cipherOf pr enc pw salt payload.flatten)
      omega
    simp [List.length_append, cipherOf_length, hm, hsalt] <;> omega
  · have hm : (macOf pr enc pw salt (cipherOf pr enc pw salt payload.flatten)).length = authCodeSize := by
      simp only [macOf, List.length_take]; have := hmacLen
        (((dkW pr enc pw salt).drop enc.keyLen).take enc.keyLen) (cipherOf pr enc pw salt payload.flatten)
      omega
    have hh := winzip_constants.1 enc
    simp [declaredCompressedSize, List.length_append, cipherOf_length, hm, hsalt, hh] <;> omega
  · intro st st' t trailing hfound
    have hst : salt.take enc.saltLen = salt := List.take_of_length_le (by omega)
    have hm : (macOf pr enc pw salt (cipherOf pr enc pw salt payload.flatten)).length = authCodeSizeR := by
      simp only [macOf, List.length_take]; have := hmacLen
        (((dkW pr enc pw salt).drop enc.keyLen).take enc.keyLen) (cipherOf pr enc pw salt payload.flatten)
      have e : authCodeSize = authCodeSizeR := rfl
      omega
    rw [hst] at hfound ⊢
    have ht1 : (salt ++ [v0, v1] ++ cipherOf pr enc pw salt payload.flatten ++
        macOf pr enc pw salt (cipherOf pr enc pw salt payload.flatten)).take enc.saltLen = salt := by
      rw [← hsalt]; simp [List.append_assoc, List.take_append_of_le_length]
    have ht2 : ((salt ++ [v0, v1] ++ cipherOf pr enc pw salt payload.flatten ++
        macOf pr enc pw salt (cipherOf pr enc pw salt payload.flatten)).drop enc.saltLen).take 2 = [v0, v1] := by
      rw [← hsalt]; simp [List.append_assoc]
    rw [ht1, ht2] at hfound
    have hcw : (salt ++ [v0, v1]).length + (cipherOf pr enc pw salt payload.flatten).length + authCodeSize =
        enc.saltLen + 2 + (cipherOf pr enc pw salt payload.flatten).length + authCodeSizeR := by
      have e : authCodeSize = authCodeSizeR := rfl
      simp [List.length_append, hsalt, e]
    rw [hcw, readEntry_layout pr enc.strengthByte enc.saltLen enc.keyLen (strengthR_enc enc) salt [v0, v1]
      (cipherOf pr enc pw salt payload.flatten)
      (macOf pr enc pw salt (cipherOf pr enc pw salt payload.flatten)) trailing hsalt rfl hm st st' pw t hfound]
    have hr : kdfRoundsR = kdfRoundsW := rfl
    refine ⟨?_, ?_, rfl, ?_⟩
    · simp only [macOf, dkW, hr]
      have e : authCodeSize = authCodeSizeR := rfl
      simp [e]
    · simp only [cipherOf, dkW, hr, LA.Ctr.xorStream_involutive]
    · have e : authCodeSize = authCodeSizeR := rfl
      simp [List.length_append, hsalt, hm, e]; omega

/-- non-vacuity of `winzip_layout`: primitives that return the requested lengths, and a
passphrase state whose loop finds the passphrase at once -/
example : ∃ pr : Prims, (∀ p s r n, (pr.kdf p s r n).length = n) ∧
    (∀ k m, authCodeSize ≤ (pr.hmac k m).length) :=
  ⟨{ kdf := fun p _ _ n => (List.range n).map (fun i => (p.length + i).toUInt8),
     hmac := fun k m => List.replicate 20 (k.length + m.length).toUInt8,
     aes := fun k b => b.map (· + k.length.toUInt8) },
   by intro p s r n; simp, by intro k m; simp [authCodeSize, authCodeSizeW]⟩

/-- `mac_mismatch_rejected` (`check_authentication_code`): on a well-formed entry area whose
stored 10-byte authentication code differs from HMAC(key derived from the accepted
passphrase, cipher text) the reader does not finish with ARCHIVE_OK: the last
`read_data` call returns ARCHIVE_WARN ("ZIP bad Authentication code").  This covers
both a modified cipher text / code and a passphrase that passed the 2-byte
verification value by accident but derives a different key. -/
theorem mac_mismatch_rejected (pr : Prims) (strength saltLen keyLen : Nat)
    (hs : strengthR strength = some (saltLen, keyLen))
    (salt pv ct mac trailing : List UInt8)
    (hsl : salt.length = saltLen) (hpv : pv.length = 2) (hml : mac.length = authCodeSizeR)
    (st st' : St) (pw : P) (t : Nat)
    (hfound : retryLoop retryCapAes (pwvMatches pr salt keyLen pv) st 0 = .found st' pw t)
    (hdiff : (pr.hmac (((pr.kdf pw salt kdfRoundsR (keyLen * 2 + 2)).drop keyLen).take keyLen) ct).take
                authCodeSizeR ≠ mac) :
    (readEntry pr strength (saltLen + 2 + ct.length + authCodeSizeR)
        (salt ++ pv ++ ct ++ mac ++ trailing) st).status = .warn := by
  rw [readEntry_layout pr strength saltLen keyLen hs salt pv ct mac trailing hsl hpv hml st st' pw t hfound]
  simp [hdiff]

/-- …and conversely a matching code gives ARCHIVE_OK (the check is not vacuous). -/
theorem mac_match_accepted (pr : Prims) (strength saltLen keyLen : Nat)
    (hs : strengthR strength = some (saltLen, keyLen))
    (salt pv ct mac trailing : List UInt8)
    (hsl : salt.length = saltLen) (hpv : pv.length = 2) (hml : mac.length = authCodeSizeR)
    (st st' : St) (pw : P) (t : Nat)
    (hfound : retryLoop retryCapAes (pwvMatches pr salt keyLen pv) st 0 = .found st' pw t)
    (hsame : (pr.hmac (((pr.kdf pw salt kdfRoundsR (keyLen * 2 + 2)).drop keyLen).take keyLen) ct).take
                authCodeSizeR = mac) :
    (readEntry pr strength (saltLen + 2 + ct.length + authCodeSizeR)
        (salt ++ pv ++ ct ++ mac ++ trailing) st).status = .ok := by
  rw [readEntry_layout pr strength saltLen keyLen hs salt pv ct mac trailing hsl hpv hml st st' pw t hfound]
  simp [hsame]

/-- `wrong_passphrase_rejected` at entry level, WinZip AES: if no passphrase that can come
up derives the stored 2-byte verification value, the entry's data read ends with
ARCHIVE_FAILED, not one byte is handed out and nothing is consumed — for every
entry area, size, strength, list, callback. -/
theorem winzip_wrong_passphrase_rejected (pr : Prims) (strength saltLen keyLen : Nat)
    (hs : strengthR strength = some (saltLen, keyLen))
    (compressedSize : Nat) (bytes : List UInt8) (hlen : saltLen + 2 ≤ bytes.length) (s : St)
    (hw : AllWrong (pwvMatches pr (bytes.take saltLen) keyLen ((bytes.drop saltLen).take 2)) s) :
    (readEntry pr strength compressedSize bytes (reset s)).status = .failed ∧
    (readEntry pr strength compressedSize bytes (reset s)).data = [] ∧
    (readEntry pr strength compressedSize bytes (reset s)).consumed = 0 := by
  obtain ⟨s', t, w, h⟩ := wrong_passphrase_rejected retryCapAes _ s hw
  have hl : ¬ bytes.length < saltLen + 2 := by omega
  simp only [readEntry, hs, hl, if_false, h, and_self]

/-- The same for traditional PKWARE encryption: no candidate passes the 1-byte header
check ⇒ ARCHIVE_FAILED and no data.  (A wrong passphrase passes this check with
probability 1/256; what it then decrypts to is caught, if at all, by the CRC-32
at the end of the entry, which is outside this model.) -/
theorem trad_wrong_passphrase_rejected (zcrc : UInt32 → UInt8 → UInt32) (decdat : UInt8)
    (compressedSize : Nat) (bytes : List UInt8)
    (hlen : LA.ZipCrypt.headerSize ≤ compressedSize ∧ compressedSize ≤ bytes.length) (s : St)
    (hw : AllWrong (fun pw => LA.ZipCrypt.accepts zcrc pw (bytes.take 12) decdat) s) :
    (readTraditional zcrc decdat compressedSize bytes (reset s)).status = .failed ∧
    (readTraditional zcrc decdat compressedSize bytes (reset s)).data = [] := by
  obtain ⟨s', t, w, h⟩ := wrong_passphrase_rejected retryCapTrad _ s hw
  have hl : ¬ (compressedSize < LA.ZipCrypt.headerSize ∨ bytes.length < compressedSize) := by omega
  simp only [readTraditional, hl, if_false, h, and_self]

/-- Traditional PKWARE, right passphrase: what `writeHeader` + `encLoop` produce is read
back (header accepted, payload returned, all bytes consumed). -/
theorem trad_entry_reads_back (zcrc : UInt32 → UInt8 → UInt32) (pw rnd11 : List UInt8) (chk : UInt8)
    (payload trailing : List UInt8) (st st' : St) (t : Nat)
    (hfound : retryLoop retryCapTrad
      (fun p => LA.ZipCrypt.accepts zcrc p (LA.ZipCrypt.writeHeader zcrc pw rnd11 chk).2 chk) st 0 = .found st' pw t) :
    ReadsBack (readTraditional zcrc chk (12 + payload.length)
        ((LA.ZipCrypt.writeHeader zcrc pw rnd11 chk).2 ++
          (LA.ZipCrypt.encLoop zcrc (LA.ZipCrypt.writeHeader zcrc pw rnd11 chk).1 payload).2 ++ trailing) st)
      payload st' (12 + payload.length) := by
  have hh : (LA.ZipCrypt.writeHeader zcrc pw rnd11 chk).2.length = 12 := by
    simp only [LA.ZipCrypt.writeHeader, LA.ZipCrypt.encLoop_length]
    simp [List.length_take]; omega
  have hel := LA.ZipCrypt.encLoop_length zcrc (LA.ZipCrypt.writeHeader zcrc pw rnd11 chk).1 payload
  have hc : ¬ (12 + payload.length < LA.ZipCrypt.headerSize ∨
      ((LA.ZipCrypt.writeHeader zcrc pw rnd11 chk).2 ++
          (LA.ZipCrypt.encLoop zcrc (LA.ZipCrypt.writeHeader zcrc pw rnd11 chk).1 payload).2 ++ trailing).length
        < 12 + payload.length) := by
    have : LA.ZipCrypt.headerSize = 12 := rfl
    simp [List.length_append, hh, hel, this] <;> omega
  have ht : ((LA.ZipCrypt.writeHeader zcrc pw rnd11 chk).2 ++
      (LA.ZipCrypt.encLoop zcrc (LA.ZipCrypt.writeHeader zcrc pw rnd11 chk).1 payload).2 ++ trailing).take 12 =
      (LA.ZipCrypt.writeHeader zcrc pw rnd11 chk).2 := by
    rw [← hh]; simp [List.append_assoc, List.take_append_of_le_length]
  have hd : (((LA.ZipCrypt.writeHeader zcrc pw rnd11 chk).2 ++
      (LA.ZipCrypt.encLoop zcrc (LA.ZipCrypt.writeHeader zcrc pw rnd11 chk).1 payload).2 ++ trailing).drop 12).take
        (12 + payload.length - 12) =
      (LA.ZipCrypt.encLoop zcrc (LA.ZipCrypt.writeHeader zcrc pw rnd11 chk).1 payload).2 := by
    rw [show 12 + payload.length - 12 = payload.length by omega, ← hel]
    conv => lhs; arg 2; arg 1; rw [← hh]
    simp [List.append_assoc, List.take_append_of_le_length]
  simp only [readTraditional, hc, if_false, ht, hfound, (trad_header_check zcrc pw rnd11 chk).1, hd,
    LA.ZipCrypt.decLoop_encLoop]
  exact ⟨rfl, rfl, rfl, rfl⟩

end winzip

end LA.C20
