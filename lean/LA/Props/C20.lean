/-
C20 — Passphrase-protected entries decrypt only with the right passphrase.

Property theorems over the models of
  archive_cryptor.c (`LA.Ctr`), the PKWARE functions of the zip reader/writer
  (`LA.ZipCrypt`), archive_read_add_passphrase.c and the two retry loops of the
  zip reader (`LA.Passphrase`), and the WinZip-AES entry layout (`LA.WinZipAes`).
The cryptographic primitives (AES block function, PBKDF2, HMAC, the CRC-32
step) are *parameters*; nothing is assumed about them except where a hypothesis
says so.  Helper lemmas live in `LA/Lemmas/*.lean`.
-/
import LA.Lemmas.Ctr
set_option linter.unusedSimpArgs false
namespace LA.C20

/-! ## 1. AES-CTR (`aes_ctr_update`) -/
section ctr
open LA.Ctr

/-- `ctr_keystream`: for an arbitrary block function `E`, an arbitrary start
counter `k0` and an arbitrary chunking of the input, successive `aes_ctr_update`
calls never read outside `encr_buf`, return as many bytes as they got, and the
concatenated output is the input XORed with `E(k0+1) ‖ E(k0+2) ‖ …` (little-endian
64-bit counter in the first 8 nonce bytes, incremented before use). -/
theorem ctr_keystream (E : Block → Block) (k0 : Nat) (chunks : List (List UInt8)) :
    ∃ c os, run E (initAt k0) chunks = some (c, os) ∧
      os.flatten = xorStream (ksByte E k0) 0 chunks.flatten ∧
      os.map List.length = chunks.map List.length := by
  obtain ⟨c, os, h1, h2, h3, _⟩ := run_spec E k0 chunks 0 (initAt k0) (inv_initAt E k0)
  exact ⟨c, os, h1, h2, h3⟩

/-- The same from `aes_ctr_init` itself (counter 0: first block used is `E(1)`). -/
theorem ctr_keystream_init (E : Block → Block) (chunks : List (List UInt8)) :
    ∃ c os, run E init chunks = some (c, os) ∧
      os.flatten = xorStream (ksByte E 0) 0 chunks.flatten := by
  rw [init_eq_initAt]
  obtain ⟨c, os, h1, h2, _⟩ := ctr_keystream E 0 chunks
  exact ⟨c, os, h1, h2⟩

/-- non-vacuity: a concrete block function, three chunks (17 bytes: crosses a block border) -/
example : ∃ c os, run (fun b => b.map (· + 7)) init [List.replicate 15 1, [], [2, 3]] = some (c, os) ∧
    os.flatten.length = 17 := by
  obtain ⟨c, os, h, hf⟩ := ctr_keystream_init (fun b => b.map (· + 7)) [List.replicate 15 1, [], [2, 3]]
  exact ⟨c, os, h, by rw [hf, xorStream_length]; rfl⟩

/-- A single call with a short output buffer: exactly `min(in_len, cap)` bytes are
processed and they are the corresponding prefix of the stream. -/
theorem ctr_update_capacity (E : Block → Block) (k0 : Nat) (inp : List UInt8) (cap : Nat) :
    ∃ c, update E (initAt k0) inp cap =
      .ok c (xorStream (ksByte E k0) 0 (inp.take (min inp.length cap))) := by
  obtain ⟨c, h, _⟩ := update_spec E k0 0 (initAt k0) inp cap (inv_initAt E k0)
  exact ⟨c, h⟩

/-- `ctr_chunking_independent`: how the caller cuts the input into calls does not
matter. -/
theorem ctr_chunking_independent (E : Block → Block) (k0 : Nat) (cs1 cs2 : List (List UInt8))
    (h : cs1.flatten = cs2.flatten) :
    ∃ c1 o1 c2 o2, run E (initAt k0) cs1 = some (c1, o1) ∧ run E (initAt k0) cs2 = some (c2, o2) ∧
      o1.flatten = o2.flatten := by
  obtain ⟨c1, o1, h1, f1, _⟩ := ctr_keystream E k0 cs1
  obtain ⟨c2, o2, h2, f2, _⟩ := ctr_keystream E k0 cs2
  exact ⟨c1, o1, c2, o2, h1, h2, by rw [f1, f2, h]⟩

example : [[1, 2], [3]].flatten = [[1], [2, 3]].flatten := rfl

/-- `ctr_involutive`: decrypt ∘ encrypt = id, for every length (in particular
every length mod 16), every chunking on the encrypting side and every,
possibly different, chunking on the decrypting side. -/
theorem ctr_involutive (E : Block → Block) (k0 : Nat) (plain cipherChunks : List (List UInt8))
    (c1 : Ctx) (enc : List (List UInt8))
    (henc : run E (initAt k0) plain = some (c1, enc))
    (hcut : cipherChunks.flatten = enc.flatten) :
    ∃ c2 dec, run E (initAt k0) cipherChunks = some (c2, dec) ∧ dec.flatten = plain.flatten := by
  obtain ⟨c1', enc', h1, f1, _⟩ := ctr_keystream E k0 plain
  rw [henc] at h1
  obtain ⟨rfl, rfl⟩ := Prod.mk.inj (Option.some.inj h1)
  obtain ⟨c2, dec, h2, f2, _⟩ := ctr_keystream E k0 cipherChunks
  exact ⟨c2, dec, h2, by rw [f2, hcut, f1, xorStream_involutive]⟩

/-- non-vacuity: the hypotheses are met by a start counter at a carry border and a
re-cut of the cipher text -/
example : ∃ c1 enc, run (fun b => b.map (· * 3 + 1)) (initAt 255) [[10, 20], [30]] = some (c1, enc) ∧
    ([enc.flatten.take 1, enc.flatten.drop 1] : List (List UInt8)).flatten = enc.flatten := by
  obtain ⟨c, os, h, _⟩ := ctr_keystream (fun b => b.map (· * 3 + 1)) 255 [[10, 20], [30]]
  exact ⟨c, os, h, by simp only [List.flatten_cons, List.flatten_nil, List.append_nil, List.take_append_drop]⟩

/-- The counter is 64 bits wide: key-stream block `2^64` positions later repeats
(the carry stops at `nonce[7]`). -/
theorem ctr_counter_wraps (E : Block → Block) (k0 i : Nat) :
    ksByte E (k0 + 2 ^ 64) i = ksByte E k0 i := by
  have h : k0 + 2 ^ 64 + i / BS + 1 = (k0 + i / BS + 1) + 2 ^ 64 := by omega
  simp only [ksByte, h, counterBlock_wrap]

end ctr

end LA.C20
