/-
C14 — Entry objects are coherent: getters reflect setters, clones are equal.
-/
import LA.Model.Entry
namespace LA.C14
open LA.Entry

end LA.C14
