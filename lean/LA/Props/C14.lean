/-
C14 — Entry objects are coherent: getters reflect setters, clones are equal.

Property theorems over `LA.Entry` (model of archive_entry.c, archive_entry_sparse.c,
archive_entry_xattr.c, archive_entry_stat.c, archive_entry_copy_stat.c,
archive_entry_strmode.c).  Helper lemmas: LA/Lemmas/Entry*.lean.

Reading guide.  `Op` is the alphabet of calls (setters, unsetters, copy_stat, clear
and the state-changing iterator/“getter” calls), `run e ops` a finite history
(`none` = some call executed undefined behaviour, which only FIX_NS can do),
`Getter`/`obs` the public getters, `Getter.group` the group of fields a getter
reads and `touches op G` whether a call can change that group.
-/
import LA.Lemmas.EntryHist
set_option linter.unusedSimpArgs false
set_option maxRecDepth 4000
namespace LA.C14
open LA.Entry LA.Gen.EntryBits

/-! ## nanoseconds normalised into seconds (the FIX_NS macro) -/

/-- Inside the no-overflow range the macro yields `0 ≤ nsec < 10^9`, preserves the
instant `sec·10^9 + nsec`, and the seconds are the floor quotient — for **all**
integers `t` (an int64) and `ns` (any integer, in particular any `long`). -/
theorem fix_ns_normalised (t ns : Int) (ht : inI64 t = true)
    (hq : inI64 ((t * 1000000000 + ns) / 1000000000) = true) :
    ∃ t' ns', fixNs t ns = some (t', ns') ∧ 0 ≤ ns' ∧ ns' < 1000000000 ∧
      t' * 1000000000 + ns' = t * 1000000000 + ns ∧ inI64 t' = true ∧
      t' = (t * 1000000000 + ns) / 1000000000 := by
  refine ⟨(t * 1000000000 + ns) / 1000000000, (t * 1000000000 + ns) % 1000000000, ?_, ?_, ?_, ?_, hq, rfl⟩
  · rw [fixNs_spec t ns ht, if_pos hq]
  · omega
  · omega
  · omega

/-- The boundary, exactly as the C has it: the macro is undefined (signed overflow of
`t += ns / 1000000000` or of `--t`) precisely when the normalised seconds do not fit
an int64.  Finding C14/fixns-overflow. -/
theorem fix_ns_undefined_iff (t ns : Int) (ht : inI64 t = true) :
    fixNs t ns = none ↔ inI64 ((t * 1000000000 + ns) / 1000000000) = false := by
  rw [fixNs_spec t ns ht]
  cases h : inI64 ((t * 1000000000 + ns) / 1000000000) <;> simp

example : fixNs 5 (-1) = some (4, 999999999) := by decide
example : fixNs (-1) 2000000001 = some (1, 1) := by decide
example : fixNs INT64_MAX 999999999 = some (INT64_MAX, 999999999) := by decide
example : fixNs (INT64_MIN + 1) (-1000000000) = some (INT64_MIN, 0) := by decide
/-- witnesses of the undefined cases replayed on the implementation by the engine -/
example : fixNs INT64_MAX 1000000000 = none ∧ fixNs INT64_MIN (-1) = none := by decide

/-! ## getters reflect setters, one setter at a time -/

/-- `set_atime/birthtime/ctime/mtime`: the getters return the normalised time and the flag is set. -/
theorem time_get_set (f : TimeField) (e e' : Entry) (t ns : Int) (ht : inI64 t = true)
    (h : setTime f e t ns = some e') :
    timeSec f e' = (t * 1000000000 + ns) / 1000000000 ∧
    (timeNsec f e' : Int) = (t * 1000000000 + ns) % 1000000000 ∧ timeIsSet f e' = true := by
  simp only [setTime, fixNs_spec t ns ht] at h
  by_cases hq : inI64 ((t * 1000000000 + ns) / 1000000000) = true
  · simp only [hq, if_true, Option.map_some, Option.some.injEq] at h
    subst h
    have hnn : 0 ≤ (t * 1000000000 + ns) % 1000000000 := by omega
    cases f <;>
      simp (disch := decide) [setTimeCore, Entry.withTime, timeSec, timeNsec, timeIsSet, Entry.has, TimeField.flag,
        hasF_or_self, Int.toNat_of_nonneg hnn] <;> omega
  · simp [hq] at h

example : ∃ e', setTime .mtime new 5 (-1) = some e' ∧ timeSec .mtime e' = 4 ∧ timeNsec .mtime e' = 999999999 := by
  refine ⟨_, rfl, by decide, by decide⟩

/-- `unset_atime …`: always defined; time 0, flag cleared. -/
theorem time_unset (f : TimeField) (e : Entry) :
    ∃ e', unsetTime f e = some e' ∧ timeSec f e' = 0 ∧ timeNsec f e' = 0 ∧ timeIsSet f e' = false := by
  refine ⟨_, unsetTime_eq f e, ?_⟩
  cases f <;>
    simp (disch := decide) [unsetTimeCore, setTimeCore, Entry.withTime, timeSec, timeNsec, timeIsSet, Entry.has,
      TimeField.flag, hasF_andnot_self]

theorem u64ToI64_of_small (n : Int) (h0 : 0 ≤ n) (h1 : n ≤ 9223372036854775807) : u64ToI64 n.toNat = n := by
  unfold u64ToI64 two64
  have : (n.toNat : Int) = n := Int.toNat_of_nonneg h0
  have h2 : n.toNat % 18446744073709551616 = n.toNat := Nat.mod_eq_of_lt (by omega)
  rw [h2]
  split <;> omega

/-- `set_size`: negative becomes 0; the value survives the `uint64_t` field and the
`la_int64_t` return type for every int64 argument. -/
theorem size_get_set (e : Entry) (s : Int) (hs : inI64 s = true) :
    size (setSize e s) = max s 0 ∧ sizeIsSet (setSize e s) = true := by
  rw [inI64_iff] at hs
  constructor
  · simp only [size, setSize]
    split
    · rw [u64ToI64_of_small 0 (by omega) (by omega)]; omega
    · rw [u64ToI64_of_small s (by omega) (by omega)]; omega
  · simp (disch := decide) [sizeIsSet, setSize, Entry.has, hasF_or_self]

theorem size_unset (e : Entry) : size (unsetSize e) = 0 ∧ sizeIsSet (unsetSize e) = false := by
  constructor
  · simp [size, unsetSize, setSize, u64ToI64]
  · simp (disch := decide) [sizeIsSet, unsetSize, setSize, Entry.has, hasF_andnot_self]

theorem uid_get_set (e : Entry) (u : Int) : uid (setUid e u) = max u 0 ∧ uidIsSet (setUid e u) = true := by
  constructor
  · simp only [uid, setUid]; split <;> omega
  · simp (disch := decide) [uidIsSet, setUid, Entry.has, hasF_or_self]
theorem gid_get_set (e : Entry) (g : Int) : gid (setGid e g) = max g 0 ∧ gidIsSet (setGid e g) = true := by
  constructor
  · simp only [gid, setGid]; split <;> omega
  · simp (disch := decide) [gidIsSet, setGid, Entry.has, hasF_or_self]
/-- `set_ino` and `set_ino64`; `ino` and `ino64` -/
theorem ino_get_set (e : Entry) (i : Int) : ino (setIno e i) = max i 0 ∧ inoIsSet (setIno e i) = true := by
  constructor
  · simp only [ino, setIno]; split <;> omega
  · simp (disch := decide) [inoIsSet, setIno, Entry.has, hasF_or_self]
theorem nlink_get_set (e : Entry) (n : Nat) : nlink (setNlink e n) = n % 4294967296 := rfl

example : size (setSize new (-1)) = 0 ∧ size (setSize new INT64_MAX) = INT64_MAX := by decide

/-! ### split versus combined device numbers -/

theorem dev_get_set (e : Entry) (d : Nat) :
    dev (setDev e d) = d % two64 ∧ devmajor (setDev e d) = gnuMajor (d % two64) ∧
    devminor (setDev e d) = gnuMinor (d % two64) ∧ devIsSet (setDev e d) = true := by
  simp (disch := decide) [dev, devmajor, devminor, devIsSet, setDev, Entry.has, hasF_or_self]

/-- after `set_devmajor a; set_devminor b` (either order) the combined number is `makedev(a, b)` -/
theorem dev_of_major_minor (e : Entry) (a b : Nat) :
    dev (setDevminor (setDevmajor e a) b) = gnuMakedev (a % two64) (b % two64) ∧
    dev (setDevmajor (setDevminor e b) a) = gnuMakedev (a % two64) (b % two64) ∧
    devmajor (setDevminor (setDevmajor e a) b) = a % two64 ∧ devminor (setDevminor (setDevmajor e a) b) = b % two64 := by
  simp [dev, devmajor, devminor, setDevmajor, setDevminor]

/-- a later `set_dev` wins over earlier split values, a later `set_devmajor` over an earlier combined one -/
theorem dev_last_writer (e : Entry) (a b d : Nat) :
    dev (setDev (setDevminor (setDevmajor e a) b) d) = d % two64 ∧
    devmajor (setDevmajor (setDev e d) a) = a % two64 := by
  simp [dev, devmajor, setDev, setDevmajor, setDevminor]

theorem rdev_get_set (e : Entry) (d : Nat) :
    rdev (setRdev e d) = d % two64 ∧ rdevmajor (setRdev e d) = gnuMajor (d % two64) ∧
    rdevminor (setRdev e d) = gnuMinor (d % two64) ∧ rdevIsSet (setRdev e d) = true := by
  simp (disch := decide) [rdev, rdevmajor, rdevminor, rdevIsSet, setRdev, Entry.has, hasF_or_self]

theorem rdev_of_major_minor (e : Entry) (a b : Nat) :
    rdev (setRdevminor (setRdevmajor e a) b) = gnuMakedev (a % two64) (b % two64) ∧
    rdevmajor (setRdevminor (setRdevmajor e a) b) = a % two64 ∧
    rdevminor (setRdevminor (setRdevmajor e a) b) = b % two64 := by
  simp (disch := decide) [rdev, rdevmajor, rdevminor, rdevIsSet, setRdevmajor, setRdevminor, Entry.has, hasF_or_self,
    hasF_or_disj]

example : dev (setDevminor (setDevmajor new 8) 1) = 2049 ∧ devmajor (setDev new 2049) = 8 ∧ devminor (setDev new 2049) = 1 := by
  decide

/-! ### file type versus permission bits inside mode -/

theorem mode_get_set (e : Entry) (m : BitVec 32) :
    mode (setMode e m) = m ∧ filetype (setMode e m) = mIFMT &&& m ∧ perm (setMode e m) = ~~~mIFMT &&& m ∧
    filetypeIsSet (setMode e m) = true ∧ permIsSet (setMode e m) = true := by
  simp (disch := decide) [mode, filetype, perm, filetypeIsSet, permIsSet, setMode, Entry.has, hasF_or_assoc, hasF_or_self,
    hasF_or_disj]

/-- `set_filetype` sets the type bits and leaves every permission bit alone -/
theorem filetype_get_set (e : Entry) (t : BitVec 32) :
    filetype (setFiletype e t) = mIFMT &&& t ∧ perm (setFiletype e t) = perm e ∧
    filetypeIsSet (setFiletype e t) = true ∧ permIsSet (setFiletype e t) = permIsSet e := by
  simp (disch := decide) [filetype, perm, filetypeIsSet, permIsSet, setFiletype, Entry.has, hasF_or_self, hasF_or_disj,
    bv_ft_ft, bv_ft_perm]

/-- `set_perm` sets the non-type bits and leaves the file type alone -/
theorem perm_get_set (e : Entry) (p : BitVec 32) :
    perm (setPerm e p) = ~~~mIFMT &&& p ∧ filetype (setPerm e p) = filetype e ∧
    permIsSet (setPerm e p) = true ∧ filetypeIsSet (setPerm e p) = filetypeIsSet e := by
  simp (disch := decide) [filetype, perm, filetypeIsSet, permIsSet, setPerm, Entry.has, hasF_or_self, hasF_or_disj,
    bv_perm_perm, bv_perm_ft]

/-- the mode word is exactly its two parts -/
theorem mode_eq_filetype_or_perm (e : Entry) : mode e = filetype e ||| perm e := by
  simp [mode, filetype, perm, bv_split]

example : filetype (setPerm (setFiletype new 0o040000#32) 0o755#32) = 0o040000#32 ∧
    mode (setPerm (setFiletype new 0o040000#32) 0o755#32) = 0o040755#32 := by decide

/-! ### strings; hard-link versus symlink target -/

theorem str_get_set (f : StrField) (e : Entry) (v : Option Bytes) : getStr f (setStr f e v) = v := by
  cases f <;> rfl

/-- every hard-link setter with a non-NULL target: `hardlink()` returns it, `symlink()` returns NULL -/
theorem hardlink_get_set (e : Entry) (s : Bytes) :
    hardlink (setHardlink e (some s)) = some s ∧ symlink (setHardlink e (some s)) = none ∧
    hardlink (copyHardlink e (some s)) = some s ∧ symlink (copyHardlink e (some s)) = none := by
  simp (disch := decide) [hardlink, symlink, setHardlink, copyHardlink, Entry.has, hasF_or_self, hasF_andnot_self,
    hasF_or_disj, hasF_andnot_disj]

/-- every symlink setter with a non-NULL target -/
theorem symlink_get_set (e : Entry) (s : Bytes) :
    symlink (setSymlink e (some s)) = some s ∧ hardlink (setSymlink e (some s)) = none := by
  simp (disch := decide) [hardlink, symlink, setSymlink, Entry.has, hasF_or_self, hasF_andnot_self,
    hasF_or_disj, hasF_andnot_disj]

/-- NULL to a hard-link setter clears the hard link and never disturbs a symlink; and symmetrically
(on an entry whose two link flags are not both set — an invariant of every history, see
`hardlink_symlink_exclusive`). -/
theorem link_set_null (e : Entry) (hx : ¬(e.has fHARDLINK = true ∧ e.has fSYMLINK = true)) :
    hardlink (setHardlink e none) = none ∧ symlink (setHardlink e none) = symlink e ∧
    hardlink (copyHardlink e none) = none ∧ symlink (copyHardlink e none) = symlink e ∧
    symlink (setSymlink e none) = none ∧ hardlink (setSymlink e none) = hardlink e := by
  simp only [Entry.has] at hx
  rcases Bool.eq_false_or_eq_true (hasF e.ae_set fHARDLINK) with h1 | h1 <;>
    rcases Bool.eq_false_or_eq_true (hasF e.ae_set fSYMLINK) with h2 | h2 <;>
    simp (disch := decide) [hardlink, symlink, setHardlink, copyHardlink, setSymlink, Entry.has, h1, h2, hasF_or_self,
      hasF_andnot_self, hasF_or_disj, hasF_andnot_disj] at hx ⊢

/-- `set_link` & co.: "set symlink if symlink is already set, else set hardlink" -/
theorem link_get_set (e : Entry) (v : Option Bytes) :
    (symlink e ≠ none ∨ e.has fSYMLINK = true → symlink (setLink e v) = v) ∧
    (e.has fSYMLINK = false → hardlink (setLink e v) = v ∧ symlink (setLink e v) = none) := by
  rcases Bool.eq_false_or_eq_true (hasF e.ae_set fSYMLINK) with h2 | h2 <;>
    simp (disch := decide) [hardlink, symlink, setLink, Entry.has, h2, hasF_or_self, hasF_or_disj]

example : hardlink (copyHardlink (setSymlink new (some [97])) (some [98])) = some [98] ∧
    symlink (copyHardlink (setSymlink new (some [97])) (some [98])) = none := by decide

/-! ### the small fields -/

theorem fflags_get_set (e : Entry) (s c : Nat) : fflags (setFflags e s c) = (s % two64, c % two64) := rfl
theorem symlink_type_get_set (e : Entry) (t : Int) : symlinkType (setSymlinkType e t) = t := rfl
theorem mac_metadata_get_set (e : Entry) (v : Option Bytes) : macMetadata (copyMacMetadata e v) = normMac v := rfl

theorem bv8_or_and_self (x a : BitVec 8) : (x ||| a) &&& a = a := bv_or_and_self x a

theorem encryption_get_set (e : Entry) (b : Bool) :
    isDataEncrypted (setIsDataEncrypted e b) = b ∧
    isMetadataEncrypted (setIsDataEncrypted e b) = isMetadataEncrypted e ∧
    isMetadataEncrypted (setIsMetadataEncrypted e b) = b ∧
    isDataEncrypted (setIsMetadataEncrypted e b) = isDataEncrypted e := by
  cases b <;>
    simp (disch := decide) [isDataEncrypted, isMetadataEncrypted, setIsDataEncrypted, setIsMetadataEncrypted,
      bv_or_and_self, bv_andnot_and_self, bv_or_and_disj, bv_andnot_and_disj] <;> decide

example : isEncrypted (setIsMetadataEncrypted (setIsDataEncrypted new true) true) = 3 := by decide

end LA.C14
