/-
C14 — Entry objects are coherent: getters reflect setters, clones are equal.

Property theorems over `LA.Entry` (model of archive_entry.c, archive_entry_sparse.c,
archive_entry_xattr.c, archive_entry_stat.c, archive_entry_copy_stat.c,
archive_entry_strmode.c).  Helper lemmas: LA/Lemmas/Entry*.lean.

Reading guide.  `Op` is the alphabet of calls (setters, unsetters, copy_stat, clear
and the state-changing iterator/“getter” calls), `run e ops` a finite history
(`none` = some call executed undefined behaviour, which only FIX_NS can do),
`Getter`/`obs` the public getters, `Getter.group` the group of fields a getter
reads and `touches op G` whether a call can change that group.
-/
import LA.Lemmas.EntryInv2
set_option linter.unusedSimpArgs false
set_option maxRecDepth 4000
namespace LA.C14
open LA.Entry LA.Gen.EntryBits

/-! ## nanoseconds normalised into seconds (the FIX_NS macro) -/

/-- Inside the no-overflow range the macro yields `0 ≤ nsec < 10^9`, preserves the
instant `sec·10^9 + nsec`, and the seconds are the floor quotient — for **all**
integers `t` (an int64) and `ns` (any integer, in particular any `long`). -/
theorem fix_ns_normalised (t ns : Int) (ht : inI64 t = true)
    (hq : inI64 ((t * 1000000000 + ns) / 1000000000) = true) :
    ∃ t' ns', fixNs t ns = some (t', ns') ∧ 0 ≤ ns' ∧ ns' < 1000000000 ∧
      t' * 1000000000 + ns' = t * 1000000000 + ns ∧ inI64 t' = true ∧
      t' = (t * 1000000000 + ns) / 1000000000 := by
  refine ⟨(t * 1000000000 + ns) / 1000000000, (t * 1000000000 + ns) % 1000000000, ?_, ?_, ?_, ?_, hq, rfl⟩
  · rw [fixNs_spec t ns ht, if_pos hq]
  · omega
  · omega
  · omega

/-- The boundary, exactly as the C has it: the macro is undefined (signed overflow of
`t += ns / 1000000000` or of `--t`) precisely when the normalised seconds do not fit
an int64.  Finding C14/fixns-overflow. -/
theorem fix_ns_undefined_iff (t ns : Int) (ht : inI64 t = true) :
    fixNs t ns = none ↔ inI64 ((t * 1000000000 + ns) / 1000000000) = false := by
  rw [fixNs_spec t ns ht]
  cases h : inI64 ((t * 1000000000 + ns) / 1000000000) <;> simp

example : fixNs 5 (-1) = some (4, 999999999) := by decide
example : fixNs (-1) 2000000001 = some (1, 1) := by decide
example : fixNs INT64_MAX 999999999 = some (INT64_MAX, 999999999) := by decide
example : fixNs (INT64_MIN + 1) (-1000000000) = some (INT64_MIN, 0) := by decide
/-- witnesses of the undefined cases replayed on the implementation by the engine -/
example : fixNs INT64_MAX 1000000000 = none ∧ fixNs INT64_MIN (-1) = none := by decide

/-! ## getters reflect setters, one setter at a time -/

/-- `set_atime/birthtime/ctime/mtime`: the getters return the normalised time and the flag is set. -/
theorem time_get_set (f : TimeField) (e e' : Entry) (t ns : Int) (ht : inI64 t = true)
    (h : setTime f e t ns = some e') :
    timeSec f e' = (t * 1000000000 + ns) / 1000000000 ∧
    (timeNsec f e' : Int) = (t * 1000000000 + ns) % 1000000000 ∧ timeIsSet f e' = true := by
  simp only [setTime, fixNs_spec t ns ht] at h
  by_cases hq : inI64 ((t * 1000000000 + ns) / 1000000000) = true
  · simp only [hq, if_true, Option.map_some, Option.some.injEq] at h
    subst h
    have hnn : 0 ≤ (t * 1000000000 + ns) % 1000000000 := by omega
    cases f <;>
      simp (disch := decide) [setTimeCore, Entry.withTime, timeSec, timeNsec, timeIsSet, Entry.has, TimeField.flag,
        hasF_or_self, Int.toNat_of_nonneg hnn] <;> omega
  · simp [hq] at h

example : ∃ e', setTime .mtime new 5 (-1) = some e' ∧ timeSec .mtime e' = 4 ∧ timeNsec .mtime e' = 999999999 := by
  refine ⟨_, rfl, by decide, by decide⟩

/-- `unset_atime …`: always defined; time 0, flag cleared. -/
theorem time_unset (f : TimeField) (e : Entry) :
    ∃ e', unsetTime f e = some e' ∧ timeSec f e' = 0 ∧ timeNsec f e' = 0 ∧ timeIsSet f e' = false := by
  refine ⟨_, unsetTime_eq f e, ?_⟩
  cases f <;>
    simp (disch := decide) [unsetTimeCore, setTimeCore, Entry.withTime, timeSec, timeNsec, timeIsSet, Entry.has,
      TimeField.flag, hasF_andnot_self]

/-- `set_size`: negative becomes 0; the value survives the `uint64_t` field and the
`la_int64_t` return type for every int64 argument. -/
theorem size_get_set (e : Entry) (s : Int) (hs : inI64 s = true) :
    size (setSize e s) = max s 0 ∧ sizeIsSet (setSize e s) = true := by
  rw [inI64_iff] at hs
  constructor
  · simp only [size, setSize]
    split
    · rw [u64ToI64_of_small 0 (by omega) (by omega)]; omega
    · rw [u64ToI64_of_small s (by omega) (by omega)]; omega
  · simp (disch := decide) [sizeIsSet, setSize, Entry.has, hasF_or_self]

theorem size_unset (e : Entry) : size (unsetSize e) = 0 ∧ sizeIsSet (unsetSize e) = false := by
  constructor
  · simp [size, unsetSize, setSize, u64ToI64]
  · simp (disch := decide) [sizeIsSet, unsetSize, setSize, Entry.has, hasF_andnot_self]

theorem uid_get_set (e : Entry) (u : Int) : uid (setUid e u) = max u 0 ∧ uidIsSet (setUid e u) = true := by
  constructor
  · simp only [uid, setUid]; split <;> omega
  · simp (disch := decide) [uidIsSet, setUid, Entry.has, hasF_or_self]
theorem gid_get_set (e : Entry) (g : Int) : gid (setGid e g) = max g 0 ∧ gidIsSet (setGid e g) = true := by
  constructor
  · simp only [gid, setGid]; split <;> omega
  · simp (disch := decide) [gidIsSet, setGid, Entry.has, hasF_or_self]
/-- `set_ino` and `set_ino64`; `ino` and `ino64` -/
theorem ino_get_set (e : Entry) (i : Int) : ino (setIno e i) = max i 0 ∧ inoIsSet (setIno e i) = true := by
  constructor
  · simp only [ino, setIno]; split <;> omega
  · simp (disch := decide) [inoIsSet, setIno, Entry.has, hasF_or_self]
theorem nlink_get_set (e : Entry) (n : Nat) : nlink (setNlink e n) = n % 4294967296 := rfl

example : size (setSize new (-1)) = 0 ∧ size (setSize new INT64_MAX) = INT64_MAX := by decide

/-! ### split versus combined device numbers -/

theorem dev_get_set (e : Entry) (d : Nat) :
    dev (setDev e d) = d % two64 ∧ devmajor (setDev e d) = gnuMajor (d % two64) ∧
    devminor (setDev e d) = gnuMinor (d % two64) ∧ devIsSet (setDev e d) = true := by
  simp (disch := decide) [dev, devmajor, devminor, devIsSet, setDev, Entry.has, hasF_or_self]

/-- after `set_devmajor a; set_devminor b` (either order) the combined number is `makedev(a, b)` -/
theorem dev_of_major_minor (e : Entry) (a b : Nat) :
    dev (setDevminor (setDevmajor e a) b) = gnuMakedev (a % two64) (b % two64) ∧
    dev (setDevmajor (setDevminor e b) a) = gnuMakedev (a % two64) (b % two64) ∧
    devmajor (setDevminor (setDevmajor e a) b) = a % two64 ∧ devminor (setDevminor (setDevmajor e a) b) = b % two64 := by
  simp [dev, devmajor, devminor, setDevmajor, setDevminor]

/-- a later `set_dev` wins over earlier split values, a later `set_devmajor` over an earlier combined one -/
theorem dev_last_writer (e : Entry) (a b d : Nat) :
    dev (setDev (setDevminor (setDevmajor e a) b) d) = d % two64 ∧
    devmajor (setDevmajor (setDev e d) a) = a % two64 := by
  simp [dev, devmajor, setDev, setDevmajor, setDevminor]

theorem rdev_get_set (e : Entry) (d : Nat) :
    rdev (setRdev e d) = d % two64 ∧ rdevmajor (setRdev e d) = gnuMajor (d % two64) ∧
    rdevminor (setRdev e d) = gnuMinor (d % two64) ∧ rdevIsSet (setRdev e d) = true := by
  simp (disch := decide) [rdev, rdevmajor, rdevminor, rdevIsSet, setRdev, Entry.has, hasF_or_self]

theorem rdev_of_major_minor (e : Entry) (a b : Nat) :
    rdev (setRdevminor (setRdevmajor e a) b) = gnuMakedev (a % two64) (b % two64) ∧
    rdevmajor (setRdevminor (setRdevmajor e a) b) = a % two64 ∧
    rdevminor (setRdevminor (setRdevmajor e a) b) = b % two64 := by
  simp (disch := decide) [rdev, rdevmajor, rdevminor, rdevIsSet, setRdevmajor, setRdevminor, Entry.has, hasF_or_self,
    hasF_or_disj]

example : dev (setDevminor (setDevmajor new 8) 1) = 2049 ∧ devmajor (setDev new 2049) = 8 ∧ devminor (setDev new 2049) = 1 := by
  decide

/-! ### file type versus permission bits inside mode -/

theorem mode_get_set (e : Entry) (m : BitVec 32) :
    mode (setMode e m) = m ∧ filetype (setMode e m) = mIFMT &&& m ∧ perm (setMode e m) = ~~~mIFMT &&& m ∧
    filetypeIsSet (setMode e m) = true ∧ permIsSet (setMode e m) = true := by
  simp (disch := decide) [mode, filetype, perm, filetypeIsSet, permIsSet, setMode, Entry.has, hasF_or_assoc, hasF_or_self,
    hasF_or_disj]

/-- `set_filetype` sets the type bits and leaves every permission bit alone -/
theorem filetype_get_set (e : Entry) (t : BitVec 32) :
    filetype (setFiletype e t) = mIFMT &&& t ∧ perm (setFiletype e t) = perm e ∧
    filetypeIsSet (setFiletype e t) = true ∧ permIsSet (setFiletype e t) = permIsSet e := by
  simp (disch := decide) [filetype, perm, filetypeIsSet, permIsSet, setFiletype, Entry.has, hasF_or_self, hasF_or_disj,
    bv_ft_ft, bv_ft_perm]

/-- `set_perm` sets the non-type bits and leaves the file type alone -/
theorem perm_get_set (e : Entry) (p : BitVec 32) :
    perm (setPerm e p) = ~~~mIFMT &&& p ∧ filetype (setPerm e p) = filetype e ∧
    permIsSet (setPerm e p) = true ∧ filetypeIsSet (setPerm e p) = filetypeIsSet e := by
  simp (disch := decide) [filetype, perm, filetypeIsSet, permIsSet, setPerm, Entry.has, hasF_or_self, hasF_or_disj,
    bv_perm_perm, bv_perm_ft]

/-- the mode word is exactly its two parts -/
theorem mode_eq_filetype_or_perm (e : Entry) : mode e = filetype e ||| perm e := by
  simp [mode, filetype, perm, bv_split]

example : filetype (setPerm (setFiletype new 0o040000#32) 0o755#32) = 0o040000#32 ∧
    mode (setPerm (setFiletype new 0o040000#32) 0o755#32) = 0o040755#32 := by decide

/-! ### strings; hard-link versus symlink target -/

theorem str_get_set (f : StrField) (e : Entry) (v : Option Bytes) : getStr f (setStr f e v) = v := by
  cases f <;> rfl

/-- every hard-link setter with a non-NULL target: `hardlink()` returns it, `symlink()` returns NULL -/
theorem hardlink_get_set (e : Entry) (s : Bytes) :
    hardlink (setHardlink e (some s)) = some s ∧ symlink (setHardlink e (some s)) = none ∧
    hardlink (copyHardlink e (some s)) = some s ∧ symlink (copyHardlink e (some s)) = none := by
  simp (disch := decide) [hardlink, symlink, setHardlink, copyHardlink, Entry.has, hasF_or_self, hasF_andnot_self,
    hasF_or_disj, hasF_andnot_disj]

/-- every symlink setter with a non-NULL target -/
theorem symlink_get_set (e : Entry) (s : Bytes) :
    symlink (setSymlink e (some s)) = some s ∧ hardlink (setSymlink e (some s)) = none := by
  simp (disch := decide) [hardlink, symlink, setSymlink, Entry.has, hasF_or_self, hasF_andnot_self,
    hasF_or_disj, hasF_andnot_disj]

/-- NULL to a hard-link setter clears the hard link and never disturbs a symlink; and symmetrically
(on an entry whose two link flags are not both set — an invariant of every history, see
`hardlink_symlink_exclusive`). -/
theorem link_set_null (e : Entry) (hx : ¬(e.has fHARDLINK = true ∧ e.has fSYMLINK = true)) :
    hardlink (setHardlink e none) = none ∧ symlink (setHardlink e none) = symlink e ∧
    hardlink (copyHardlink e none) = none ∧ symlink (copyHardlink e none) = symlink e ∧
    symlink (setSymlink e none) = none ∧ hardlink (setSymlink e none) = hardlink e := by
  simp only [Entry.has] at hx
  rcases Bool.eq_false_or_eq_true (hasF e.ae_set fHARDLINK) with h1 | h1 <;>
    rcases Bool.eq_false_or_eq_true (hasF e.ae_set fSYMLINK) with h2 | h2 <;>
    simp (disch := decide) [hardlink, symlink, setHardlink, copyHardlink, setSymlink, Entry.has, h1, h2, hasF_or_self,
      hasF_andnot_self, hasF_or_disj, hasF_andnot_disj] at hx ⊢

/-- `set_link` & co.: "set symlink if symlink is already set, else set hardlink" -/
theorem link_get_set (e : Entry) (v : Option Bytes) :
    (symlink e ≠ none ∨ e.has fSYMLINK = true → symlink (setLink e v) = v) ∧
    (e.has fSYMLINK = false → hardlink (setLink e v) = v ∧ symlink (setLink e v) = none) := by
  rcases Bool.eq_false_or_eq_true (hasF e.ae_set fSYMLINK) with h2 | h2 <;>
    simp (disch := decide) [hardlink, symlink, setLink, Entry.has, h2, hasF_or_self, hasF_or_disj]

example : hardlink (copyHardlink (setSymlink new (some [97])) (some [98])) = some [98] ∧
    symlink (copyHardlink (setSymlink new (some [97])) (some [98])) = none := by decide

/-! ### the small fields -/

/-- `set_fflags`: the bitmaps are returned as given and the text is regenerated from them -/
theorem fflags_get_set (e : Entry) (s c : Nat) :
    fflags (setFflags e s c) = (s % two64, c % two64) ∧
    fflagsTextV (setFflags e s c) =
      if s % two64 = 0 ∧ c % two64 = 0 then none else fflagstostr (s % two64) (c % two64) := by
  simp [fflags, fflagsTextV, setFflags]

/-- `copy_fflags_text`: the text is returned as given, the bitmaps are what its known tokens say -/
theorem fflags_text_get_set (e : Entry) (t : Bytes) :
    fflagsTextV (copyFflagsText e t) = some t ∧ fflags (copyFflagsText e t) = ((strtofflags t).1, (strtofflags t).2.1) := by
  simp [fflags, fflagsTextV, copyFflagsText]

example : strtofflags ("nodump,sappnd bogus".toList.map Char.toNat) = (96, 0, some 14) := by decide
example : fflagstostr 16 64 = some ("schg,dump".toList.map Char.toNat) := by decide
theorem symlink_type_get_set (e : Entry) (t : Int) : symlinkType (setSymlinkType e t) = t := rfl
theorem mac_metadata_get_set (e : Entry) (v : Option Bytes) : macMetadata (copyMacMetadata e v) = normMac v := rfl

theorem encryption_get_set (e : Entry) (b : Bool) :
    isDataEncrypted (setIsDataEncrypted e b) = b ∧
    isMetadataEncrypted (setIsDataEncrypted e b) = isMetadataEncrypted e ∧
    isMetadataEncrypted (setIsMetadataEncrypted e b) = b ∧
    isDataEncrypted (setIsMetadataEncrypted e b) = isDataEncrypted e := by
  cases b <;>
    simp (disch := decide) [isDataEncrypted, isMetadataEncrypted, setIsDataEncrypted, setIsMetadataEncrypted,
      bv_or_and_self, bv_andnot_and_self, bv_or_and_disj, bv_andnot_and_disj] <;> decide

example : isEncrypted (setIsMetadataEncrypted (setIsDataEncrypted new true) true) = 3 := by decide

/-! ## setters do not disturb unrelated getters -/

/-- Frame property, all (operation, getter) pairs at once: a call that does not touch
the group of fields a getter reads leaves that getter's value unchanged.  `touches`
is the dependency table; e.g. `set_filetype` does not touch the `perm` group,
`set_hardlink` touches `link` and `strmode` only, `copy_stat` touches 17 groups. -/
theorem frame (op : Op) (g : Getter) (e e' : Entry) (ht : touches op g.group = false)
    (hs : step e op = some e') : obs g e' = obs g e :=
  obs_of_view g e' e (step_untouched g.group op e e' ht hs)

example : obs .perm (setFiletype (setMode new 0o100644#32) 0o040000#32) = obs .perm (setMode new 0o100644#32) :=
  frame (.setFiletype _) .perm _ _ rfl rfl
example : touches (.setSymlink (some [97])) Getter.hardlink.group = true ∧
    touches (.setUid 5) Getter.hardlink.group = false := by decide

/-! ## histories -/

/-- **history_relevant.**  For every finite history of setters, unsetters, copy_stat,
clear and iterator calls, and every getter: the value after the history equals the value
after only those calls of the history that touch the getter's group, in their original
order (and that shorter history is defined whenever the long one is).  Calls on other
groups — however many, with whatever arguments — are irrelevant. -/
theorem history_relevant (g : Getter) (ops : List Op) (e e' : Entry) (hr : run e ops = some e') :
    ∃ e'', run e (ops.filter (touches · g.group)) = some e'' ∧ obs g e' = obs g e'' := by
  obtain ⟨e'', h1, h2⟩ := run_view_relevant g.group ops e e e' rfl hr
  exact ⟨e'', h1, obs_of_view g e' e'' h2⟩

example : ∃ e', run new [.setUid 7, .setStr .pathname (some [97]), .setMode 0o644#32, .setUid (-1), .xattrAdd [1] [2]] = some e' ∧
    obs .uid e' = .int 0 := ⟨_, rfl, by decide⟩

/-- **history_last_writer.**  If the last call of a history that touches the getter's
group is one that `fixes` the getter (a plain setter/unsetter of that field, `copy_stat`
for the stat fields, `clear` for everything …), then the getter returns what that one
call yields on *any* entry: nothing that happened before it matters, and nothing that
happened after it does either. -/
theorem history_last_writer (g : Getter) (op : Op) (pre post : List Op) (e e' e0 e0' : Entry)
    (hf : fixes op g = true) (hpost : ∀ o ∈ post, touches o g.group = false)
    (hr : run e (pre ++ op :: post) = some e') (h0 : step e0 op = some e0') : obs g e' = obs g e0' := by
  rw [run_append] at hr
  cases hp : run e pre with
  | none => simp [hp] at hr
  | some m =>
    simp only [hp, Option.bind_some, run_cons] at hr
    cases hs : step m op with
    | none => simp [hs] at hr
    | some m' =>
      simp only [hs, Option.bind_some] at hr
      rw [obs_of_view g e' m' (run_untouched g.group post m' e' hpost hr)]
      exact fixes_sound op g m e0 m' e0' hf hs h0

example : ∃ e', run new ([.setSymlink (some [1]), .setMode 0o777#32, .setHardlink (some [2])] ++
      .copyHardlink (some [3]) :: [.setUid 5, .xattrAdd [9] [9], .setStr .pathname none]) = some e' ∧
    obs .symlink e' = .str none ∧ obs .hardlink e' = .str (some [3]) := ⟨_, rfl, by decide⟩

/-! ## the is-set flags -/

/-- **isset_truthful.**  After any history on a new entry: a getter whose is-set flag
reads false returns the initial value (0 / NULL).  (The other direction — a setter
raises its flag, an unsetter lowers it — is part of each `*_get_set` theorem.) -/
theorem isset_truthful (ops : List Op) (e : Entry) (hr : run new ops = some e) :
    (∀ f, timeIsSet f e = false → timeSec f e = 0 ∧ timeNsec f e = 0) ∧
    (sizeIsSet e = false → size e = 0) ∧
    (devIsSet e = false → dev e = 0 ∧ devmajor e = 0 ∧ devminor e = 0) ∧
    (rdevIsSet e = false → rdev e = 0 ∧ rdevmajor e = 0 ∧ rdevminor e = 0) ∧
    (inoIsSet e = false → ino e = 0) ∧ (uidIsSet e = false → uid e = 0) ∧ (gidIsSet e = false → gid e = 0) ∧
    (filetypeIsSet e = false → filetype e = 0) ∧ (permIsSet e = false → perm e = 0) ∧
    (hardlinkIsSet e = false → hardlink e = none) := by
  obtain ⟨h1, h2, h3, h4, h5, h6, h7, h8⟩ :=
    run_invariant Truthful (fun e e' op hs h => truthful_step e e' op hs h) ops new e hr truthful_new
  refine ⟨h1, ?_, ?_, ?_, h4, h5, h6, h7, h8, ?_⟩
  · intro h; simp only [size, h2 h]; decide
  · intro h
    obtain ⟨a, b⟩ := h3 h
    simp only [dev, devmajor, devminor, a, b, Bool.false_eq_true, if_false]
    exact ⟨trivial, by decide, by decide⟩
  · intro h; simp [rdev, rdevmajor, rdevminor, h]
  · intro h; simp only [hardlinkIsSet] at h; simp [hardlink, h]

example : ∃ e, run new [.setSize 5, .unsetSize, .setTime .mtime 3 4, .unsetTime .mtime] = some e ∧
    sizeIsSet e = false ∧ timeIsSet .mtime e = false := ⟨_, rfl, by decide⟩

/-! ## hard link versus symlink -/

/-- **hardlink_symlink_exclusive** (after fix bffd94f).  After any history on a new
entry at most one of `hardlink()` and `symlink()` returns a target. -/
theorem hardlink_symlink_exclusive (ops : List Op) (e : Entry) (hr : run new ops = some e) :
    ¬(e.has fHARDLINK = true ∧ e.has fSYMLINK = true) ∧ (hardlink e = none ∨ symlink e = none) := by
  have hx : Excl e := run_invariant Excl (fun e e' op hs h => excl_step e e' op hs h) ops new e hr
    (by simp only [Excl, new, Entry.has]; rw [hasF_zero]; simp)
  refine ⟨hx, ?_⟩
  unfold Excl at hx
  simp only [hardlink, symlink]
  cases h1 : e.has fHARDLINK <;> cases h2 : e.has fSYMLINK <;> simp_all

example : ∃ e, run new [.setSymlink (some [1]), .setLink (some [2]), .copyHardlink none, .setLinkToHardlink] = some e ∧
    hardlink e = some [2] ∧ symlink e = none := ⟨_, rfl, by decide⟩

/-- On the unrepaired code the property failed: there `copy_hardlink` kept the symlink flag.
The model of that variant, for the record, and the witness (replayed by the corpus file
`ent.hardlink-after-symlink.ops`). -/
def copyHardlinkUnfixed (e : Entry) (v : Option Bytes) : Entry :=
  bif v.isNone && e.has fSYMLINK then e else
  let e1 := { e with ae_linkname := v }
  bif v.isSome then { e1 with ae_set := e1.ae_set ||| fHARDLINK }
  else { e1 with ae_set := e1.ae_set &&& ~~~fHARDLINK }
theorem unfixed_not_exclusive :
    hardlink (copyHardlinkUnfixed (setSymlink new (some [97])) (some [98])) = some [98] ∧
    symlink (copyHardlinkUnfixed (setSymlink new (some [97])) (some [98])) = some [98] := by decide

/-! ## the sparse map and the xattr list -/

/-- **sparse_list_wellformed.**  After any history on a new entry the sparse list is
non-negative, sorted, with a gap between consecutive blocks (adjacent blocks were merged),
every block ends inside the int64 range, and both iteration cursors point into their lists. -/
theorem sparse_list_wellformed (ops : List Op) (e : Entry) (hr : run new ops = some e) :
    SparseWF e.sparse ∧ (∀ k, e.sparse_p = some k → k < e.sparse.length) ∧ e.xattr_p ≤ e.xattrs.length :=
  run_invariant ListsOK (fun e e' op hs h => listsOK_step e e' op hs h) ops new e hr
    ⟨sparseWF_nil, by simp [new], by simp [new]⟩

example : ∃ e, run new [.setSize 100, .sparseAdd 0 10, .sparseAdd 10 5, .sparseAdd 30 5, .sparseAdd 20 5, .sparseAdd 40 70] = some e ∧
    e.sparse = [(0, 15), (30, 5)] := ⟨_, rfl, by decide⟩

/-- A block is only ever added (or an existing last block extended) inside the size the
entry has at that moment. -/
theorem sparse_add_within_size (sz : Int) (l : List (Int × Int)) (o len : Int) :
    ∀ b ∈ sparseAddL sz l o len, b ∈ l ∨ (b.1 + b.2 ≤ sz ∧ b.1 + b.2 = o + len) := by
  intro b hb
  unfold sparseAddL at hb
  split at hb; · exact Or.inl hb
  split at hb; · exact Or.inl hb
  rename_i h0 h1
  simp only [Bool.or_eq_true, decide_eq_true_eq, not_or, Int.not_lt] at h0 h1
  have hnew : b = (o, len) → b ∈ l ∨ (b.1 + b.2 ≤ sz ∧ b.1 + b.2 = o + len) := by
    intro h; subst h; exact Or.inr ⟨by simp only; omega, rfl⟩
  split at hb
  · rename_i so sl hlast
    split at hb; · exact Or.inl hb
    split at hb
    · rename_i h3
      split at hb; · exact Or.inl hb
      simp only [beq_iff_eq] at h3
      rcases List.mem_append.mp hb with hb | hb
      · exact Or.inl (List.dropLast_subset l hb)
      · simp only [List.mem_singleton] at hb; subst hb
        exact Or.inr ⟨by simp only; omega, by simp only; omega⟩
    · rcases List.mem_append.mp hb with hb | hb
      · exact Or.inl hb
      · exact hnew (by simpa using hb)
  · rcases List.mem_append.mp hb with hb | hb
    · exact Or.inl hb
    · exact hnew (by simpa using hb)

/-- `sparse_count`/`sparse_reset`: one block at offset 0 that covers the whole file is not
a sparse file — it is dropped and 0 returned; anything else is counted as it is. -/
theorem sparse_count_rule (e : Entry) :
    (sparseWhole (size e) e.sparse = true → (sparseCount e).2 = 0 ∧ (sparseCount e).1.sparse = []) ∧
    (sparseWhole (size e) e.sparse = false → (sparseCount e).2 = e.sparse.length ∧ (sparseCount e).1 = e) := by
  rw [sparseCount_fst, sparseCount_snd]
  constructor <;> intro h <;> simp [h, sparseClear]

example : (sparseCount (sparseAdd (setSize new 10) 0 10)).2 = 0 ∧ (sparseCount (sparseAdd (setSize new 10) 0 9)).2 = 1 := by
  decide

/-- `xattr_reset` followed by `xattr_next` until it reports the end enumerates exactly the
attribute list, most recently added first. -/
theorem xattr_iteration (e : Entry) : xattrDrain (xattrReset e).2 (xattrReset e).1 = e.xattrs := by
  rw [xattrDrain_spec _ _ (by simp [xattrReset]) (by simp [xattrReset])]
  simp [xattrReset]

/-- `sparse_reset` followed by `sparse_next` until it reports the end enumerates the sparse
list as `sparse_count` leaves it (empty when one block covered the whole file). -/
theorem sparse_iteration (e : Entry) :
    sparseDrain e.sparse.length (sparseReset e).1 = (sparseCount e).1.sparse := sparse_iteration_aux e

example : sparseDrain 2 (sparseReset (sparseAdd (sparseAdd (setSize new 100) 0 10) 20 5)).1 = [(0, 10), (20, 5)] ∧
    sparseDrain 1 (sparseReset (sparseAdd (setSize new 10) 0 10)).1 = [] := by decide
example : xattrDrain 5 (xattrReset (xattrAdd (xattrAdd new [97] [1]) [98] [2])).1 = [([98], [2]), ([97], [1])] := by decide

/-! ## clones -/

/-- **clone_eq.**  A clone is indistinguishable from the original through every getter
(after fixes 66c54dc and 387042f), provided the original's cached `struct stat` is not
stale — which `clone_eq_history` shows is always the case. -/
theorem clone_eq (e : Entry) (hc : StatCoherent e) (g : Getter) : obs g (clone e) = obs g e := by
  cases g
  case stat =>
    simp only [obs, stat_snd, clone, cond_false]
    cases hv : e.stat_valid
    · rfl
    · simp only [cond_true, hc hv]; rfl
  case sparseCount => simp only [obs, (sparseCount_congr (clone e) e rfl rfl).1]
  case sparseBlocks => simp only [obs, (sparseCount_congr (clone e) e rfl rfl).2]
  all_goals rfl

theorem clone_eq_history (ops : List Op) (e : Entry) (hr : run new ops = some e) (g : Getter) :
    obs g (clone e) = obs g e :=
  clone_eq e (run_invariant StatCoherent (fun e e' op hs h => statCoherent_step e e' op hs h) ops new e hr
    (statCoherent_invalid _ rfl)) g

example : ∃ e, run new [.setSize 100, .sparseAdd 10 20, .unsetSize, .xattrAdd [97] [1], .xattrAdd [98] [2], .stat,
      .setTime .mtime 5 (-1)] = some e ∧
    obs .sparseBlocks (clone e) = .blocks [(10, 20)] ∧ obs .xattrList (clone e) = .xattrs [([98], [2]), ([97], [1])] :=
  ⟨_, rfl, by decide⟩

/-- The unrepaired clone re-validated the sparse blocks against the current size and listed
the extended attributes backwards: its model, and the two witnesses. -/
def cloneUnfixed (e : Entry) : Entry :=
  let c : Entry := { e with stat_valid := false, stat_cache := {}, xattr_p := 0, sparse_p := none,
                            sparse := [], xattrs := e.xattrs.reverse }
  e.sparse.foldl (fun c b => sparseAdd c b.1 b.2) c
theorem unfixed_clone_differs :
    (∃ e, run new [.setSize 100, .sparseAdd 10 20, .unsetSize] = some e ∧
      obs .sparseCount (cloneUnfixed e) ≠ obs .sparseCount e) ∧
    (∃ e, run new [.xattrAdd [97] [1], .xattrAdd [98] [2]] = some e ∧
      obs .xattrList (cloneUnfixed e) ≠ obs .xattrList e) :=
  ⟨⟨_, rfl, by decide⟩, ⟨_, rfl, by decide⟩⟩

/-- who a call is made on, once a clone exists -/
inductive Side | original | copy
  deriving DecidableEq, Repr

def stepPair (p : Entry × Entry) (c : Side × Op) : Option (Entry × Entry) :=
  match c.1 with
  | .original => (step p.1 c.2).map fun e => (e, p.2)
  | .copy => (step p.2 c.2).map fun e => (p.1, e)

def runPair (p : Entry × Entry) : List (Side × Op) → Option (Entry × Entry)
  | [] => some p
  | c :: cs => match stepPair p c with
    | none => none
    | some p' => runPair p' cs

def callsOn (s : Side) (cs : List (Side × Op)) : List Op := (cs.filter (·.1 == s)).map (·.2)

/-- **clone_independent.**  Later changes to either object do not affect the other: after
any interleaving of calls on the original and on the clone, each of the two is what its
own calls alone make of it.  (This is the value-level statement; that the C objects share
no heap memory is a runtime fact which the engine checks under ASan on every generated
history, see tools/props/C14.py.) -/
theorem clone_independent (cs : List (Side × Op)) (p q : Entry × Entry) (h : runPair p cs = some q) :
    run p.1 (callsOn .original cs) = some q.1 ∧ run p.2 (callsOn .copy cs) = some q.2 := by
  induction cs generalizing p with
  | nil => simp only [runPair, Option.some.injEq] at h; subst h; exact ⟨rfl, rfl⟩
  | cons c cs ih =>
    obtain ⟨s, op⟩ := c
    simp only [runPair] at h
    cases s
    · simp only [stepPair] at h
      cases hs : step p.1 op with
      | none => simp [hs] at h
      | some m =>
        simp only [hs, Option.map_some] at h
        obtain ⟨h1, h2⟩ := ih (m, p.2) h
        refine ⟨?_, ?_⟩
        · simp only [callsOn, List.filter_cons, beq_self_eq_true, if_true, List.map_cons, run_cons, hs, Option.bind_some]
          exact h1
        · simpa [callsOn, List.filter_cons] using h2
    · simp only [stepPair] at h
      cases hs : step p.2 op with
      | none => simp [hs] at h
      | some m =>
        simp only [hs, Option.map_some] at h
        obtain ⟨h1, h2⟩ := ih (p.1, m) h
        refine ⟨?_, ?_⟩
        · simpa [callsOn, List.filter_cons] using h1
        · simp only [callsOn, List.filter_cons, beq_self_eq_true, if_true, List.map_cons, run_cons, hs, Option.bind_some]
          exact h2

example : ∃ q, runPair (setSize new 5, clone (setSize new 5))
    [(.original, .setSize 9), (.copy, .xattrAdd [1] [2]), (.original, .clear)] = some q ∧
    size q.2 = 5 ∧ q.1.xattrs = [] := ⟨_, rfl, by decide⟩

end LA.C14
