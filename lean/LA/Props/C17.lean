/-
C17 — The hard-link resolver neither loses nor duplicates entries.
Property theorems over `LA.Lnk` (model of archive_entry_link_resolver.c).
Helper lemmas live in `LA/Lemmas/Lnk.lean`.
-/
import LA.Lemmas.Lnk
set_option linter.unusedSimpArgs false
namespace LA.C17
open LA.Lnk

def tags (es : List Ent) : List Nat := es.map (·.tag)

def pushed : List Op → List Ent
  | [] => []
  | .push e :: ops => e :: pushed ops
  | _ :: ops => pushed ops

/-- Only the new-cpio strategy parks entries inside the resolver. -/
def Inv (s : State) : Prop := s.strategy ≠ .newCpio → ∀ le ∈ s.tbl, le.held = none

theorem inv_init (st : Strategy) : Inv { strategy := st } := by
  intro _ le h; simp at h

theorem push_strategy (s : State) (e : Ent) : (push s e).1.strategy = s.strategy := by
  unfold push
  repeat' split
  all_goals simp_all

theorem push_inv (s : State) (e : Ent) (hi : Inv s) : Inv (push s e).1 := by
  unfold push
  by_cases hp : passthrough e = true
  · simpa [hp] using hi
  · simp only [hp]
    cases hs : s.strategy with
    | oldCpio => simpa [hs] using hi
    | newCpio =>
      intro hne; exfalso; apply hne
      have := push_strategy s e
      unfold push at this
      simp only [hp, hs] at this
      exact this
    | tar =>
      have hi' := hi (by simp [hs])
      rcases findEntry_spec s.tbl e.dev e.ino id with ⟨h1, _⟩ | ⟨pre, le0, post, h1, _, _, h4⟩
      · simp only [h1]; intro _ le hle
        simp [insertEntry] at hle
        rcases hle with h | h
        · exact hi' le h
        · simp [h]
      · rw [h4]; intro _ le hle
        simp only [h1] at hi'
        by_cases hl : 0 < u32dec le0.links <;> simp [hl] at hle
        · rcases hle with h | h | h
          · exact hi' le (by simp [h])
          · have := hi' le0 (by simp); simp [h, this]
          · exact hi' le (by simp [h])
        · rcases hle with h | h
          · exact hi' le (by simp [h])
          · exact hi' le (by simp [h])
    | mtree =>
      have hi' := hi (by simp [hs])
      rcases findEntry_spec s.tbl e.dev e.ino id with ⟨h1, _⟩ | ⟨pre, le0, post, h1, _, _, h4⟩
      · simp only [h1]; intro _ le hle
        simp [insertEntry] at hle
        rcases hle with h | h
        · exact hi' le h
        · simp [h]
      · rw [h4]; intro _ le hle
        simp only [h1] at hi'
        by_cases hl : 0 < u32dec le0.links <;> simp [hl] at hle
        · rcases hle with h | h | h
          · exact hi' le (by simp [h])
          · have := hi' le0 (by simp); simp [h, this]
          · exact hi' le (by simp [h])
        · rcases hle with h | h
          · exact hi' le (by simp [h])
          · exact hi' le (by simp [h])

/-- One `linkify` call with a non-NULL entry: what comes out plus what is held
afterwards is what was held before plus the entry pushed (as identities). -/
theorem push_conserves (s : State) (e : Ent) (hi : Inv s) :
    let r := push s e
    (tags (r.2.1.toList ++ r.2.2.toList) ++ tags (heldOf r.1.tbl)).Perm
      (tags (heldOf s.tbl) ++ [e.tag]) := by
  intro r
  show (tags ((push s e).2.1.toList ++ (push s e).2.2.toList) ++ tags (heldOf (push s e).1.tbl)).Perm _
  unfold push
  by_cases hp : passthrough e = true
  · simp [hp, tags]; perm_count
  · simp only [hp]
    cases hs : s.strategy with
    | oldCpio => simp [tags]; perm_count
    | tar =>
      have hi' := hi (by simp [hs])
      rcases findEntry_spec s.tbl e.dev e.ino id with ⟨h1, _⟩ | ⟨pre, le0, post, h1, _, _, h4⟩
      · simp [h1, insertEntry, heldOf_append, heldOf_cons, tags, Ent.mkLink, heldOf]; perm_count
      · rw [h4]; simp only [h1]
        have h0 : le0.held = none := hi' le0 (by simp [h1])
        by_cases hl : 0 < u32dec le0.links <;>
          simp [hl, h0, heldOf_append, heldOf_cons, tags, Ent.mkLink] <;> perm_count
    | mtree =>
      have hi' := hi (by simp [hs])
      rcases findEntry_spec s.tbl e.dev e.ino id with ⟨h1, _⟩ | ⟨pre, le0, post, h1, _, _, h4⟩
      · simp [h1, insertEntry, heldOf_append, heldOf_cons, tags, Ent.mkLink, heldOf]; perm_count
      · rw [h4]; simp only [h1]
        have h0 : le0.held = none := hi' le0 (by simp [h1])
        by_cases hl : 0 < u32dec le0.links <;>
          simp [hl, h0, heldOf_append, heldOf_cons, tags, Ent.mkLink] <;> perm_count
    | newCpio =>
      rcases findEntry_spec s.tbl e.dev e.ino (fun _ => some e) with
        ⟨h1, _⟩ | ⟨pre, le0, post, h1, _, _, h4⟩
      · simp [h1, insertEntry, heldOf_append, heldOf_cons, tags, heldOf]
      · rw [h4]; simp only [h1]
        by_cases hl : 0 < u32dec le0.links
        · have : (u32dec le0.links == 0) = false := by simp; omega
          simp only [hl, this]
          cases hh : le0.held <;>
            simp [heldOf_append, heldOf_cons, tags, Ent.mkLink, hh] <;> perm_count
        · have h0 : u32dec le0.links = 0 := by omega
          simp only [h0]
          cases hh : le0.held <;>
            simp [heldOf_append, heldOf_cons, tags, Ent.mkLink, hh] <;> perm_count

theorem drainAt_conserves (s : State) (k : Nat) :
    ((drainAt s k).2.toList ++ heldOf (drainAt s k).1.tbl).Perm (heldOf s.tbl) := by
  unfold drainAt
  rcases takeNth_spec (fun le => le.held.isSome) s.tbl k with ⟨h1, _⟩ | ⟨pre, le, post, h1, h2, h3⟩
  · simp [h1]
  · rw [h3]; simp only [h1]
    cases hh : le.held <;> simp [hh] at h2
    simp [heldOf_append, heldOf_cons, hh]; perm_count

theorem drainAt_none (s : State) (k : Nat) (h : (drainAt s k).2 = none) : heldOf s.tbl = [] := by
  unfold drainAt at h
  rcases takeNth_spec (fun le => le.held.isSome) s.tbl k with ⟨h1, h2⟩ | ⟨pre, le, post, h1, h2, h3⟩
  · simp only [heldOf, List.filterMap_eq_nil_iff]
    intro le hle
    have := h2 le hle
    simpa using this
  · simp only [h3] at h
    cases hh : le.held <;> simp [hh] at h2 h

theorem drainAt_inv (s : State) (k : Nat) (hi : Inv s) : Inv (drainAt s k).1 := by
  unfold drainAt
  rcases takeNth_spec (fun le => le.held.isSome) s.tbl k with ⟨h1, _⟩ | ⟨pre, le, post, h1, h2, h3⟩
  · simpa [h1] using hi
  · simp only [h3]
    intro hne x hx
    have := hi hne x
    simp only [h1] at this
    apply this
    simp at hx ⊢
    rcases hx with h | h
    · exact Or.inl h
    · exact Or.inr (Or.inr h)

theorem partialAt_held (s : State) (k : Nat) : heldOf (partialAt s k).1.tbl = heldOf s.tbl := by
  unfold partialAt
  rcases takeNth_spec (fun le => le.held.isNone) s.tbl k with ⟨h1, _⟩ | ⟨pre, le, post, h1, h2, h3⟩
  · simp [h1]
  · rw [h3]; simp only [h1]
    cases hh : le.held <;> simp [hh] at h2
    simp [heldOf_append, heldOf_cons, hh]

theorem partialAt_inv (s : State) (k : Nat) (hi : Inv s) : Inv (partialAt s k).1 := by
  unfold partialAt
  rcases takeNth_spec (fun le => le.held.isNone) s.tbl k with ⟨h1, _⟩ | ⟨pre, le, post, h1, h2, h3⟩
  · simpa [h1] using hi
  · simp only [h3]
    intro hne x hx
    have := hi hne x
    simp only [h1] at this
    apply this
    simp at hx ⊢
    rcases hx with h | h
    · exact Or.inl h
    · exact Or.inr (Or.inr h)

theorem step_inv (s : State) (op : Op) (hi : Inv s) : Inv (step s op).1 := by
  cases op with
  | push e => exact push_inv s e hi
  | drain k => exact drainAt_inv s k hi
  | partialLinks k => exact partialAt_inv s k hi

theorem step_conserves (s : State) (op : Op) (hi : Inv s) :
    (tags (step s op).2 ++ tags (heldOf (step s op).1.tbl)).Perm
      (tags (heldOf s.tbl) ++ tags (pushed [op])) := by
  cases op with
  | push e => simpa [step, pushed, tags] using push_conserves s e hi
  | drain k =>
    have := (drainAt_conserves s k).map (·.tag)
    simpa [step, pushed, tags] using this
  | partialLinks k => simp [step, pushed, tags, partialAt_held]

theorem pushed_cons (op : Op) (ops : List Op) : pushed (op :: ops) = pushed [op] ++ pushed ops := by
  cases op <;> simp [pushed]

theorem run_inv (s : State) (ops : List Op) (hi : Inv s) : Inv (run s ops).1 := by
  induction ops generalizing s with
  | nil => simpa [run] using hi
  | cons op ops ih => simpa [run] using ih _ (step_inv s op hi)

/-- Conservation over any history of pushes, single drains and partial-link
queries, with any choice of record at every draining call. -/
theorem run_conserves (s : State) (ops : List Op) (hi : Inv s) :
    (tags (run s ops).2 ++ tags (heldOf (run s ops).1.tbl)).Perm
      (tags (heldOf s.tbl) ++ tags (pushed ops)) := by
  induction ops generalizing s with
  | nil => simp [run, pushed, tags]
  | cons op ops ih =>
    have h1 := step_conserves s op hi
    have h2 := ih _ (step_inv s op hi)
    rw [pushed_cons]
    simp only [run, tags, List.map_append] at h1 h2 ⊢
    rw [List.perm_iff_count] at h1 h2 ⊢
    intro a
    have := h1 a; have := h2 a
    simp only [List.count_append] at *
    omega

/-- The final draining loop hands out everything that is still held, whatever
record each call picks, provided it is continued until NULL is returned. -/
theorem drainLoop_complete (s : State) (ks : List Nat) (hk : (heldOf s.tbl).length ≤ ks.length) :
    (drainLoop s ks).2.Perm (heldOf s.tbl) ∧ heldOf (drainLoop s ks).1.tbl = [] := by
  induction ks generalizing s with
  | nil =>
    have : heldOf s.tbl = [] := by simpa using hk
    simp [drainLoop, this]
  | cons k ks ih =>
    unfold drainLoop
    have hc := drainAt_conserves s k
    cases hd : drainAt s k with
    | mk s' r =>
      cases r with
      | none =>
        have h0 := drainAt_none s k (by simp [hd])
        simp only [hd] at hc
        simp [h0] at hc ⊢
        exact hc
      | some e =>
        simp only [hd, Option.toList] at hc
        have hlen : (heldOf s'.tbl).length ≤ ks.length := by
          have := hc.length_eq
          simp at this hk
          omega
        have ⟨i1, i2⟩ := ih s' hlen
        simp only []
        refine ⟨?_, i2⟩
        exact (List.Perm.cons e i1).trans hc

/-- **C17, exactly once.**  For every strategy, every sequence of entries pushed
through the resolver (interleaved with single draining calls and partial-link
queries, each picking any record), followed by draining until NULL: the
identities that came out are exactly the identities that went in, each once. -/
theorem exactly_once (st : Strategy) (ops : List Op) (ks : List Nat)
    (hk : (pushed ops).length ≤ ks.length) :
    (tags ((run { strategy := st } ops).2 ++
           (drainLoop (run { strategy := st } ops).1 ks).2)).Perm (tags (pushed ops)) := by
  have hi := inv_init st
  have hc := run_conserves { strategy := st } ops hi
  generalize run { strategy := st } ops = r1 at hc ⊢
  have hlen : (heldOf r1.1.tbl).length ≤ ks.length := by
    have := hc.length_eq
    simp [tags, heldOf] at this
    simp only [heldOf] at *
    omega
  have ⟨d1, _⟩ := drainLoop_complete r1.1 ks hlen
  have d1' := d1.map (·.tag)
  generalize drainLoop r1.1 ks = r2 at d1'
  simp only [tags, List.map_append] at hc ⊢
  rw [List.perm_iff_count] at hc d1' ⊢
  intro a
  have := hc a; have := d1' a
  simp only [List.count_append, heldOf, List.filterMap_nil, List.map_nil, List.count_nil] at *
  omega

end LA.C17
