/-
C17 — The hard-link resolver neither loses nor duplicates entries.
Property theorems over `LA.Lnk` (model of archive_entry_link_resolver.c).
Helper lemmas live in `LA/Lemmas/Lnk.lean`.
-/
import LA.Lemmas.Lnk
import LA.Lemmas.LnkHash
import LA.Gen.Limits
set_option linter.unusedSimpArgs false
namespace LA.C17
open LA.Lnk

def tags (es : List Ent) : List Nat := es.map (·.tag)

def pushed : List Op → List Ent
  | [] => []
  | .push e :: ops => e :: pushed ops
  | _ :: ops => pushed ops

/-- Only the new-cpio strategy parks entries inside the resolver. -/
def Inv (s : State) : Prop := s.strategy ≠ .newCpio → ∀ le ∈ s.tbl, le.held = none

theorem inv_init (st : Strategy) : Inv { strategy := st } := by
  intro _ le h; simp at h

theorem push_strategy (s : State) (e : Ent) : (push s e).1.strategy = s.strategy := by
  unfold push
  repeat' split
  all_goals simp_all

theorem push_inv (s : State) (e : Ent) (hi : Inv s) : Inv (push s e).1 := by
  unfold push
  by_cases hp : passthrough e = true
  · simpa [hp] using hi
  · simp only [hp]
    cases hs : s.strategy with
    | oldCpio => simpa [hs] using hi
    | newCpio =>
      intro hne; exfalso; apply hne
      have := push_strategy s e
      unfold push at this
      simp only [hp, hs] at this
      exact this
    | tar =>
      have hi' := hi (by simp [hs])
      rcases findEntry_spec s.tbl e.dev e.ino id with ⟨h1, _⟩ | ⟨pre, le0, post, h1, _, _, h4⟩
      · simp only [h1]; intro _ le hle
        simp [insertEntry, LE.ofEnt] at hle
        rcases hle with h | h
        · exact hi' le h
        · simp [h]
      · rw [h4]; intro _ le hle
        simp only [h1] at hi'
        by_cases hl : 0 < u32dec le0.links <;> simp [hl] at hle
        · rcases hle with h | h | h
          · exact hi' le (by simp [h])
          · have := hi' le0 (by simp); simp [h, this]
          · exact hi' le (by simp [h])
        · rcases hle with h | h
          · exact hi' le (by simp [h])
          · exact hi' le (by simp [h])
    | mtree =>
      have hi' := hi (by simp [hs])
      rcases findEntry_spec s.tbl e.dev e.ino id with ⟨h1, _⟩ | ⟨pre, le0, post, h1, _, _, h4⟩
      · simp only [h1]; intro _ le hle
        simp [insertEntry, LE.ofEnt] at hle
        rcases hle with h | h
        · exact hi' le h
        · simp [h]
      · rw [h4]; intro _ le hle
        simp only [h1] at hi'
        by_cases hl : 0 < u32dec le0.links <;> simp [hl] at hle
        · rcases hle with h | h | h
          · exact hi' le (by simp [h])
          · have := hi' le0 (by simp); simp [h, this]
          · exact hi' le (by simp [h])
        · rcases hle with h | h
          · exact hi' le (by simp [h])
          · exact hi' le (by simp [h])

/-- One `linkify` call with a non-NULL entry: what comes out plus what is held
afterwards is what was held before plus the entry pushed (as identities). -/
theorem push_conserves (s : State) (e : Ent) (hi : Inv s) :
    let r := push s e
    (tags (r.2.1.toList ++ r.2.2.toList) ++ tags (heldOf r.1.tbl)).Perm
      (tags (heldOf s.tbl) ++ [e.tag]) := by
  intro r
  show (tags ((push s e).2.1.toList ++ (push s e).2.2.toList) ++ tags (heldOf (push s e).1.tbl)).Perm _
  unfold push
  by_cases hp : passthrough e = true
  · simp [hp, tags]; perm_count
  · simp only [hp]
    cases hs : s.strategy with
    | oldCpio => simp [tags]; perm_count
    | tar =>
      have hi' := hi (by simp [hs])
      rcases findEntry_spec s.tbl e.dev e.ino id with ⟨h1, _⟩ | ⟨pre, le0, post, h1, _, _, h4⟩
      · simp [h1, insertEntry, LE.ofEnt, heldOf_append, heldOf_cons, tags, Ent.mkLink, heldOf]; perm_count
      · rw [h4]; simp only [h1]
        have h0 : le0.held = none := hi' le0 (by simp [h1])
        by_cases hl : 0 < u32dec le0.links <;>
          simp [hl, h0, heldOf_append, heldOf_cons, tags, Ent.mkLink] <;> perm_count
    | mtree =>
      have hi' := hi (by simp [hs])
      rcases findEntry_spec s.tbl e.dev e.ino id with ⟨h1, _⟩ | ⟨pre, le0, post, h1, _, _, h4⟩
      · simp [h1, insertEntry, LE.ofEnt, heldOf_append, heldOf_cons, tags, Ent.mkLink, heldOf]; perm_count
      · rw [h4]; simp only [h1]
        have h0 : le0.held = none := hi' le0 (by simp [h1])
        by_cases hl : 0 < u32dec le0.links <;>
          simp [hl, h0, heldOf_append, heldOf_cons, tags, Ent.mkLink] <;> perm_count
    | newCpio =>
      rcases findEntry_spec s.tbl e.dev e.ino (fun _ => some e) with
        ⟨h1, _⟩ | ⟨pre, le0, post, h1, _, _, h4⟩
      · simp [h1, insertEntry, LE.ofEnt, heldOf_append, heldOf_cons, tags, heldOf]
      · rw [h4]; simp only [h1]
        by_cases hl : 0 < u32dec le0.links
        · have : (u32dec le0.links == 0) = false := by simp; omega
          simp only [hl, this]
          cases hh : le0.held <;>
            simp [heldOf_append, heldOf_cons, tags, Ent.mkLink, hh] <;> perm_count
        · have h0 : u32dec le0.links = 0 := by omega
          simp only [h0]
          cases hh : le0.held <;>
            simp [heldOf_append, heldOf_cons, tags, Ent.mkLink, hh] <;> perm_count

theorem drainAt_conserves (s : State) (k : Nat) :
    ((drainAt s k).2.toList ++ heldOf (drainAt s k).1.tbl).Perm (heldOf s.tbl) := by
  unfold drainAt
  rcases takeNth_spec (fun le => le.held.isSome) s.tbl k with ⟨h1, _⟩ | ⟨pre, le, post, h1, h2, h3⟩
  · simp [h1]
  · rw [h3]; simp only [h1]
    cases hh : le.held <;> simp [hh] at h2
    simp [heldOf_append, heldOf_cons, hh]; perm_count

theorem drainAt_none (s : State) (k : Nat) (h : (drainAt s k).2 = none) : heldOf s.tbl = [] := by
  unfold drainAt at h
  rcases takeNth_spec (fun le => le.held.isSome) s.tbl k with ⟨h1, h2⟩ | ⟨pre, le, post, h1, h2, h3⟩
  · simp only [heldOf, List.filterMap_eq_nil_iff]
    intro le hle
    have := h2 le hle
    simpa using this
  · simp only [h3] at h
    cases hh : le.held <;> simp [hh] at h2 h

theorem drainAt_inv (s : State) (k : Nat) (hi : Inv s) : Inv (drainAt s k).1 := by
  unfold drainAt
  rcases takeNth_spec (fun le => le.held.isSome) s.tbl k with ⟨h1, _⟩ | ⟨pre, le, post, h1, h2, h3⟩
  · simpa [h1] using hi
  · simp only [h3]
    intro hne x hx
    have := hi hne x
    simp only [h1] at this
    apply this
    simp at hx ⊢
    rcases hx with h | h
    · exact Or.inl h
    · exact Or.inr (Or.inr h)

theorem partialAt_held (s : State) (k : Nat) : heldOf (partialAt s k).1.tbl = heldOf s.tbl := by
  unfold partialAt
  rcases takeNth_spec (fun le => le.held.isNone) s.tbl k with ⟨h1, _⟩ | ⟨pre, le, post, h1, h2, h3⟩
  · simp [h1]
  · rw [h3]; simp only [h1]
    cases hh : le.held <;> simp [hh] at h2
    simp [heldOf_append, heldOf_cons, hh]

theorem partialAt_inv (s : State) (k : Nat) (hi : Inv s) : Inv (partialAt s k).1 := by
  unfold partialAt
  rcases takeNth_spec (fun le => le.held.isNone) s.tbl k with ⟨h1, _⟩ | ⟨pre, le, post, h1, h2, h3⟩
  · simpa [h1] using hi
  · simp only [h3]
    intro hne x hx
    have := hi hne x
    simp only [h1] at this
    apply this
    simp at hx ⊢
    rcases hx with h | h
    · exact Or.inl h
    · exact Or.inr (Or.inr h)

theorem step_inv (s : State) (op : Op) (hi : Inv s) : Inv (step s op).1 := by
  cases op with
  | push e => exact push_inv s e hi
  | drain k => exact drainAt_inv s k hi
  | partialLinks k => exact partialAt_inv s k hi

theorem step_conserves (s : State) (op : Op) (hi : Inv s) :
    (tags (step s op).2 ++ tags (heldOf (step s op).1.tbl)).Perm
      (tags (heldOf s.tbl) ++ tags (pushed [op])) := by
  cases op with
  | push e => simpa [step, pushed, tags] using push_conserves s e hi
  | drain k =>
    have := (drainAt_conserves s k).map (·.tag)
    simpa [step, pushed, tags] using this
  | partialLinks k => simp [step, pushed, tags, partialAt_held]

theorem pushed_cons (op : Op) (ops : List Op) : pushed (op :: ops) = pushed [op] ++ pushed ops := by
  cases op <;> simp [pushed]

theorem run_inv (s : State) (ops : List Op) (hi : Inv s) : Inv (run s ops).1 := by
  induction ops generalizing s with
  | nil => simpa [run] using hi
  | cons op ops ih => simpa [run] using ih _ (step_inv s op hi)

/-- Conservation over any history of pushes, single drains and partial-link
queries, with any choice of record at every draining call. -/
theorem run_conserves (s : State) (ops : List Op) (hi : Inv s) :
    (tags (run s ops).2 ++ tags (heldOf (run s ops).1.tbl)).Perm
      (tags (heldOf s.tbl) ++ tags (pushed ops)) := by
  induction ops generalizing s with
  | nil => simp [run, pushed, tags]
  | cons op ops ih =>
    have h1 := step_conserves s op hi
    have h2 := ih _ (step_inv s op hi)
    rw [pushed_cons]
    simp only [run, tags, List.map_append] at h1 h2 ⊢
    rw [List.perm_iff_count] at h1 h2 ⊢
    intro a
    have := h1 a; have := h2 a
    simp only [List.count_append] at *
    omega

/-- The final draining loop hands out everything that is still held, whatever
record each call picks, provided it is continued until NULL is returned. -/
theorem drainLoop_complete (s : State) (ks : List Nat) (hk : (heldOf s.tbl).length ≤ ks.length) :
    (drainLoop s ks).2.Perm (heldOf s.tbl) ∧ heldOf (drainLoop s ks).1.tbl = [] := by
  induction ks generalizing s with
  | nil =>
    have : heldOf s.tbl = [] := by simpa using hk
    simp [drainLoop, this]
  | cons k ks ih =>
    unfold drainLoop
    have hc := drainAt_conserves s k
    cases hd : drainAt s k with
    | mk s' r =>
      cases r with
      | none =>
        have h0 := drainAt_none s k (by simp [hd])
        simp only [hd] at hc
        simp [h0] at hc ⊢
        exact hc
      | some e =>
        simp only [hd, Option.toList] at hc
        have hlen : (heldOf s'.tbl).length ≤ ks.length := by
          have := hc.length_eq
          simp at this hk
          omega
        have ⟨i1, i2⟩ := ih s' hlen
        simp only []
        refine ⟨?_, i2⟩
        exact (List.Perm.cons e i1).trans hc

/-- **C17, exactly once.**  For every strategy, every sequence of entries pushed
through the resolver (interleaved with single draining calls and partial-link
queries, each picking any record), followed by draining until NULL: the
identities that came out are exactly the identities that went in, each once. -/
theorem exactly_once (st : Strategy) (ops : List Op) (ks : List Nat)
    (hk : (pushed ops).length ≤ ks.length) :
    (tags ((run { strategy := st } ops).2 ++
           (drainLoop (run { strategy := st } ops).1 ks).2)).Perm (tags (pushed ops)) := by
  have hi := inv_init st
  have hc := run_conserves { strategy := st } ops hi
  generalize run { strategy := st } ops = r1 at hc ⊢
  have hlen : (heldOf r1.1.tbl).length ≤ ks.length := by
    have := hc.length_eq
    simp [tags, heldOf] at this
    simp only [heldOf] at *
    omega
  have ⟨d1, _⟩ := drainLoop_complete r1.1 ks hlen
  have d1' := d1.map (·.tag)
  generalize drainLoop r1.1 ks = r2 at d1'
  simp only [tags, List.map_append] at hc ⊢
  rw [List.perm_iff_count] at hc d1' ⊢
  intro a
  have := hc a; have := d1' a
  simp only [List.count_append, heldOf, List.filterMap_nil, List.map_nil, List.count_nil] at *
  omega

/-! ### Entries come out unmodified except for link bookkeeping -/

/-- Agreement on everything the resolver must not touch. -/
def sameBut (a b : Ent) : Prop :=
  a.tag = b.tag ∧ a.dev = b.dev ∧ a.ino = b.ino ∧ a.nlink = b.nlink ∧ a.ftype = b.ftype

theorem sameBut_refl (a : Ent) : sameBut a a := ⟨rfl, rfl, rfl, rfl, rfl⟩
theorem sameBut_mkLink (a : Ent) (c : Nat) (u : Bool) : sameBut (a.mkLink c u) a := ⟨rfl, rfl, rfl, rfl, rfl⟩

/-- `Pres src out`: every entry in `out` is some entry of `src` up to hardlink/size. -/
def Pres (src out : List Ent) : Prop := ∀ o ∈ out, ∃ i ∈ src, sameBut o i

theorem pres_mono {a b c : List Ent} (h : Pres a c) (hs : ∀ x ∈ a, x ∈ b) : Pres b c :=
  fun o ho => let ⟨i, hi, hsb⟩ := h o ho; ⟨i, hs i hi, hsb⟩

theorem push_pres (s : State) (e : Ent) :
    Pres (heldOf s.tbl ++ [e]) ((push s e).2.1.toList ++ (push s e).2.2.toList ++ heldOf (push s e).1.tbl) := by
  unfold push
  by_cases hp : passthrough e = true
  · simp only [hp, if_true]
    intro o ho
    simp at ho
    rcases ho with rfl | ho
    · exact ⟨o, by simp, sameBut_refl o⟩
    · exact ⟨o, by simp [ho], sameBut_refl o⟩
  · simp only [hp]
    have base : ∀ o, (o = e ∨ o ∈ heldOf s.tbl) → ∃ i ∈ heldOf s.tbl ++ [e], sameBut o i := by
      intro o ho
      rcases ho with rfl | ho
      · exact ⟨o, by simp, sameBut_refl o⟩
      · exact ⟨o, by simp [ho], sameBut_refl o⟩
    cases hs : s.strategy with
    | oldCpio => intro o ho; simp at ho; exact base o ho
    | tar =>
      rcases findEntry_spec s.tbl e.dev e.ino id with ⟨h1, _⟩ | ⟨pre, le0, post, h1, _, _, h4⟩
      · simp only [h1]
        intro o ho
        simp [insertEntry, LE.ofEnt, heldOf_append, heldOf_cons] at ho
        exact base o (by rcases ho with h | h <;> first | exact Or.inl h | exact Or.inr h)
      · rw [h4]
        intro o ho
        by_cases hl : 0 < u32dec le0.links <;>
          simp [hl, heldOf_append, heldOf_cons] at ho
        all_goals
          rcases ho with rfl | ho
          · exact ⟨e, by simp, sameBut_mkLink e _ _⟩
          · refine ⟨o, ?_, sameBut_refl o⟩
            simp only [h1, heldOf_append, heldOf_cons, List.mem_append]
            rcases ho with h | h <;> simp [h]
    | mtree =>
      rcases findEntry_spec s.tbl e.dev e.ino id with ⟨h1, _⟩ | ⟨pre, le0, post, h1, _, _, h4⟩
      · simp only [h1]
        intro o ho
        simp [insertEntry, LE.ofEnt, heldOf_append, heldOf_cons] at ho
        exact base o (by rcases ho with h | h <;> first | exact Or.inl h | exact Or.inr h)
      · rw [h4]
        intro o ho
        by_cases hl : 0 < u32dec le0.links <;>
          simp [hl, heldOf_append, heldOf_cons] at ho
        all_goals
          rcases ho with rfl | ho
          · exact ⟨e, by simp, sameBut_mkLink e _ _⟩
          · refine ⟨o, ?_, sameBut_refl o⟩
            simp only [h1, heldOf_append, heldOf_cons, List.mem_append]
            rcases ho with h | h <;> simp [h]
    | newCpio =>
      rcases findEntry_spec s.tbl e.dev e.ino (fun _ => some e) with
        ⟨h1, _⟩ | ⟨pre, le0, post, h1, _, _, h4⟩
      · simp only [h1]
        intro o ho
        simp [insertEntry, LE.ofEnt, heldOf_append, heldOf_cons] at ho
        exact base o (by rcases ho with h | h <;> first | exact Or.inl h | exact Or.inr h)
      · rw [h4]
        have hmem : ∀ x, (x ∈ heldOf pre ∨ x ∈ heldOf post ∨ le0.held = some x) → x ∈ heldOf s.tbl ++ [e] := by
          intro x hx
          simp only [h1, heldOf_append, heldOf_cons, List.mem_append]
          rcases hx with h | h | h <;> simp [h]
        intro o ho
        by_cases hl : 0 < u32dec le0.links
        · have : (u32dec le0.links == 0) = false := by simp; omega
          simp only [hl, this] at ho
          cases hh : le0.held with
          | none =>
            simp [hh, heldOf_append, heldOf_cons] at ho
            rcases ho with h | rfl | h
            · exact ⟨o, hmem o (Or.inl h), sameBut_refl o⟩
            · exact ⟨o, by simp, sameBut_refl o⟩
            · exact ⟨o, hmem o (Or.inr (Or.inl h)), sameBut_refl o⟩
          | some x =>
            simp [hh, heldOf_append, heldOf_cons] at ho
            rcases ho with rfl | h | rfl | h
            · exact ⟨x, hmem x (Or.inr (Or.inr hh)), sameBut_mkLink x _ _⟩
            · exact ⟨o, hmem o (Or.inl h), sameBut_refl o⟩
            · exact ⟨o, by simp, sameBut_refl o⟩
            · exact ⟨o, hmem o (Or.inr (Or.inl h)), sameBut_refl o⟩
        · have h0 : u32dec le0.links = 0 := by omega
          simp only [h0] at ho
          cases hh : le0.held with
          | none =>
            simp [hh, heldOf_append, heldOf_cons] at ho
            rcases ho with rfl | h | h
            · exact ⟨o, by simp, sameBut_refl o⟩
            · exact ⟨o, hmem o (Or.inl h), sameBut_refl o⟩
            · exact ⟨o, hmem o (Or.inr (Or.inl h)), sameBut_refl o⟩
          | some x =>
            simp [hh, heldOf_append, heldOf_cons] at ho
            rcases ho with rfl | rfl | h | h
            · exact ⟨x, hmem x (Or.inr (Or.inr hh)), sameBut_mkLink x _ _⟩
            · exact ⟨o, by simp, sameBut_refl o⟩
            · exact ⟨o, hmem o (Or.inl h), sameBut_refl o⟩
            · exact ⟨o, hmem o (Or.inr (Or.inl h)), sameBut_refl o⟩

theorem sameBut_trans {a b c : Ent} (h1 : sameBut a b) (h2 : sameBut b c) : sameBut a c :=
  ⟨h1.1.trans h2.1, h1.2.1.trans h2.2.1, h1.2.2.1.trans h2.2.2.1, h1.2.2.2.1.trans h2.2.2.2.1,
   h1.2.2.2.2.trans h2.2.2.2.2⟩

theorem pres_trans {a b c : List Ent} (h1 : Pres a b) (h2 : Pres b c) : Pres a c := by
  intro o ho
  obtain ⟨m, hm, s1⟩ := h2 o ho
  obtain ⟨i, hi, s2⟩ := h1 m hm
  exact ⟨i, hi, sameBut_trans s1 s2⟩

theorem pres_of_subset {a b : List Ent} (h : ∀ x ∈ b, x ∈ a) : Pres a b :=
  fun o ho => ⟨o, h o ho, sameBut_refl o⟩

theorem step_pres (s : State) (op : Op) :
    Pres (heldOf s.tbl ++ pushed [op]) ((step s op).2 ++ heldOf (step s op).1.tbl) := by
  cases op with
  | push e => simpa [step, pushed] using push_pres s e
  | drain k =>
    apply pres_of_subset
    intro x hx
    have := (drainAt_conserves s k).mem_iff (a := x)
    simp only [step, pushed, List.append_nil] at hx ⊢
    exact this.mp hx
  | partialLinks k =>
    apply pres_of_subset
    intro x hx
    simpa [step, pushed, partialAt_held] using hx

theorem run_pres (s : State) (ops : List Op) :
    Pres (heldOf s.tbl ++ pushed ops) ((run s ops).2 ++ heldOf (run s ops).1.tbl) := by
  induction ops generalizing s with
  | nil => exact pres_of_subset (by simp [run, pushed])
  | cons op ops ih =>
    have h1 := step_pres s op
    have h2 := ih (step s op).1
    rw [pushed_cons]
    intro o ho
    simp only [run, List.mem_append] at ho
    rcases ho with (ho | ho) | ho
    · obtain ⟨i, hi, sb⟩ := h1 o (by simp [ho])
      exact ⟨i, by simp only [List.mem_append] at hi ⊢; rcases hi with h | h <;> simp [h], sb⟩
    · obtain ⟨m, hm, sb⟩ := h2 o (by simp [ho])
      simp only [List.mem_append] at hm
      rcases hm with hm | hm
      · obtain ⟨i, hi, sb2⟩ := h1 m (by simp [hm])
        exact ⟨i, by simp only [List.mem_append] at hi ⊢; rcases hi with h | h <;> simp [h], sameBut_trans sb sb2⟩
      · exact ⟨m, by simp [hm], sb⟩
    · obtain ⟨m, hm, sb⟩ := h2 o (by simp [ho])
      simp only [List.mem_append] at hm
      rcases hm with hm | hm
      · obtain ⟨i, hi, sb2⟩ := h1 m (by simp [hm])
        exact ⟨i, by simp only [List.mem_append] at hi ⊢; rcases hi with h | h <;> simp [h], sameBut_trans sb sb2⟩
      · exact ⟨m, by simp [hm], sb⟩

/-- **C17, unmodified except for link bookkeeping.**  Everything that comes out
of the resolver — during the pushes or in the final draining — is one of the
entries that went in, changed at most in its hardlink target and size-is-set. -/
theorem unmodified_except_link (st : Strategy) (ops : List Op) (ks : List Nat) :
    Pres (pushed ops) ((run { strategy := st } ops).2 ++
                       (drainLoop (run { strategy := st } ops).1 ks).2) := by
  have h := run_pres { strategy := st } ops
  simp only [heldOf_nil, List.nil_append] at h
  intro o ho
  rcases List.mem_append.mp ho with ho | ho
  · exact h o (by simp [ho])
  · -- drained entries were held
    have hsub : ∀ (s : State) (ks : List Nat), ∀ x ∈ (drainLoop s ks).2, x ∈ heldOf s.tbl := by
      intro s ks
      induction ks generalizing s with
      | nil => intro x hx; simp [drainLoop] at hx
      | cons k ks ih =>
        intro x hx
        unfold drainLoop at hx
        have hc := (drainAt_conserves s k)
        cases hd : drainAt s k with
        | mk s' r =>
          rw [hd] at hx hc
          cases r with
          | none => simp at hx
          | some e =>
            simp only [List.mem_cons] at hx
            rcases hx with rfl | hx
            · exact hc.mem_iff.mp (by simp)
            · exact hc.mem_iff.mp (by simp [ih s' x hx])
    exact h o (by simp [hsub _ ks o ho])

/-! ### Pass-through cases -/

/-- Entries with link count one, directories and device nodes pass straight
through under every strategy; so does everything under the old-cpio strategy. -/
theorem passthrough_unchanged (s : State) (e : Ent)
    (h : e.nlink = 1 ∨ e.ftype = .dir ∨ e.ftype = .blk ∨ e.ftype = .chr ∨ s.strategy = .oldCpio) :
    push s e = (s, some e, none) := by
  unfold push
  by_cases hp : passthrough e = true
  · simp [hp]
  · simp only [hp]
    rcases h with h | h | h | h | h
    · simp [passthrough, h] at hp
    · simp [passthrough, h] at hp
    · simp [passthrough, h] at hp
    · simp [passthrough, h] at hp
    · simp [h]

/-! ### Group structure (tar, mtree, new cpio) -/

def lookup (tbl : List LE) (d i : Int) : Option LE := tbl.find? (·.hasKey d i)

/-- At most one record per (dev, ino). -/
def KeysNodup (tbl : List LE) : Prop := (tbl.map fun le => (le.dev, le.ino)).Nodup

theorem hasKey_iff (le : LE) (d i : Int) : le.hasKey d i = true ↔ (le.dev, le.ino) = (d, i) := by
  simp [LE.hasKey]

theorem lookup_none_of_all (tbl : List LE) (d i : Int) (h : ∀ le ∈ tbl, le.hasKey d i = false) :
    lookup tbl d i = none := by
  simp [lookup, List.find?_eq_none]; intro x hx; simpa using h x hx

theorem lookup_split (pre post : List LE) (le0 : LE) (d i : Int) (h0 : le0.hasKey d i = true)
    (hpre : ∀ le ∈ pre, le.hasKey d i = false) : lookup (pre ++ le0 :: post) d i = some le0 := by
  unfold lookup
  rw [List.find?_append]
  have : pre.find? (·.hasKey d i) = none := by
    simp [List.find?_eq_none]; intro x hx; simpa using hpre x hx
  simp [this, h0]

/-- With unique keys, no record after the first match has the key. -/
theorem nodup_post (pre post : List LE) (le0 : LE) (d i : Int) (h0 : le0.hasKey d i = true)
    (hn : KeysNodup (pre ++ le0 :: post)) : ∀ le ∈ post, le.hasKey d i = false := by
  intro le hle
  unfold KeysNodup at hn
  simp only [List.map_append, List.map_cons] at hn
  have h2 := (List.nodup_append.mp hn).2.1
  have h3 := (List.nodup_cons.mp h2).1
  cases hk : le.hasKey d i with
  | false => rfl
  | true =>
    exfalso; apply h3
    have e1 := (hasKey_iff le0 d i).mp h0
    have e2 := (hasKey_iff le d i).mp hk
    rw [e1, ← e2]
    exact List.mem_map.mpr ⟨le, hle, rfl⟩

/-- What `find_entry` does to the record of its own key and to the others. -/
theorem findEntry_lookup (tbl : List LE) (d i : Int) (h : Option Ent → Option Ent) (hn : KeysNodup tbl) :
    (findEntry tbl d i h).1 = (lookup tbl d i).map (fun le => { le with links := u32dec le.links }) ∧
    lookup (findEntry tbl d i h).2 d i =
      (match lookup tbl d i with
       | none => none
       | some le => if u32dec le.links > 0 then some { le with links := u32dec le.links, held := h le.held } else none) ∧
    (∀ d' i', (d', i') ≠ (d, i) → lookup (findEntry tbl d i h).2 d' i' = lookup tbl d' i') ∧
    KeysNodup (findEntry tbl d i h).2 := by
  rcases findEntry_spec tbl d i h with ⟨h1, h2⟩ | ⟨pre, le0, post, h1, h2, h3, h4⟩
  · have hl := lookup_none_of_all tbl d i h2
    rw [h1, hl]; simp [hn]
  · have hl : lookup tbl d i = some le0 := by rw [h1]; exact lookup_split pre post le0 d i h2 h3
    have hpost := nodup_post pre post le0 d i h2 (by rw [← h1]; exact hn)
    rw [h4, hl]
    refine ⟨by simp, ?_, ?_, ?_⟩
    · by_cases hgt : u32dec le0.links > 0
      · simp only [hgt, if_true]
        exact lookup_split pre post _ d i (by simpa [LE.hasKey] using h2) h3
      · simp only [hgt, if_false]
        apply lookup_none_of_all
        intro le hle
        rcases List.mem_append.mp hle with hm | hm
        · exact h3 le hm
        · exact hpost le hm
    · intro d' i' hne
      have hk0 : le0.hasKey d' i' = false := by
        cases hk : le0.hasKey d' i' with
        | false => rfl
        | true =>
          exfalso; apply hne
          rw [← (hasKey_iff le0 d' i').mp hk, (hasKey_iff le0 d i).mp h2]
      rw [h1]
      unfold lookup
      by_cases hgt : u32dec le0.links > 0
      · simp only [hgt, if_true, List.find?_append, List.find?_cons]
        have : ({ le0 with links := u32dec le0.links, held := h le0.held } : LE).hasKey d' i' = false := by
          simpa [LE.hasKey] using hk0
        simp [this, hk0]
      · simp only [hgt, if_false, List.find?_append, List.find?_cons]
        simp [hk0]
    · unfold KeysNodup at hn ⊢
      rw [h1] at hn
      by_cases hgt : u32dec le0.links > 0
      · simp only [hgt, if_true]
        simpa using hn
      · simp only [hgt, if_false]
        simp only [List.map_append, List.map_cons] at hn ⊢
        have ⟨a, b, c⟩ := List.nodup_append.mp hn
        refine List.nodup_append.mpr ⟨a, (List.nodup_cons.mp b).2, ?_⟩
        intro x hx y hy
        exact c x hx y (List.mem_cons_of_mem _ hy)

theorem insertEntry_lookup (tbl : List LE) (e : Ent) (held : Option Ent) (hn : KeysNodup tbl)
    (hnone : lookup tbl e.dev e.ino = none) :
    lookup (insertEntry tbl e held) e.dev e.ino = some (LE.ofEnt e held) ∧
    (∀ d' i', (d', i') ≠ (e.dev, e.ino) → lookup (insertEntry tbl e held) d' i' = lookup tbl d' i') ∧
    KeysNodup (insertEntry tbl e held) := by
  have hall : ∀ le ∈ tbl, le.hasKey e.dev e.ino = false := by
    intro le hle
    have := List.find?_eq_none.mp hnone le hle
    simpa using this
  have hk : (LE.ofEnt e held).hasKey e.dev e.ino = true := by simp [LE.hasKey, LE.ofEnt]
  refine ⟨?_, ?_, ?_⟩
  · unfold insertEntry
    have := lookup_split tbl [] (LE.ofEnt e held) e.dev e.ino hk hall
    simpa using this
  · intro d' i' hne
    unfold insertEntry lookup
    rw [List.find?_append]
    have : (LE.ofEnt e held).hasKey d' i' = false := by
      cases hk' : (LE.ofEnt e held).hasKey d' i' with
      | false => rfl
      | true =>
        exfalso; apply hne
        have := (hasKey_iff _ d' i').mp hk'
        simpa [LE.ofEnt] using this.symm
    simp [this]
  · unfold KeysNodup insertEntry at *
    simp only [List.map_append, List.map_cons, List.map_nil]
    refine List.nodup_append.mpr ⟨hn, by simp, ?_⟩
    intro x hx y hy
    simp at hy
    subst hy
    obtain ⟨le, hle, rfl⟩ := List.mem_map.mp hx
    intro heq
    have := hall le hle
    have h2 : le.hasKey e.dev e.ino = true := (hasKey_iff le e.dev e.ino).mpr (by simpa [LE.ofEnt] using heq)
    rw [this] at h2; cases h2

/-- tar and mtree: first member of a key is kept and recorded, later members
become hard links to the recorded first pathname; other keys are not disturbed. -/
theorem tarlike_push (s : State) (e : Ent) (u : Bool)
    (hs : (s.strategy = .tar ∧ u = true) ∨ (s.strategy = .mtree ∧ u = false))
    (hp : passthrough e = false) (hn : KeysNodup s.tbl) :
    KeysNodup (push s e).1.tbl ∧ (push s e).1.strategy = s.strategy ∧
    (∀ d' i', (d', i') ≠ (e.dev, e.ino) → lookup (push s e).1.tbl d' i' = lookup s.tbl d' i') ∧
    (match lookup s.tbl e.dev e.ino with
     | none => (push s e).2 = (some e, none) ∧
               lookup (push s e).1.tbl e.dev e.ino = some (LE.ofEnt e none)
     | some le => (push s e).2 = (some (e.mkLink le.canon u), none) ∧
               lookup (push s e).1.tbl e.dev e.ino =
                 if u32dec le.links > 0 then some { le with links := u32dec le.links } else none) := by
  obtain ⟨f1, f2, f3, f4⟩ := findEntry_lookup s.tbl e.dev e.ino id hn
  have hstrat := push_strategy s e
  unfold push at *
  simp only [hp, Bool.false_eq_true, if_false] at *
  rcases hs with ⟨hs, hu⟩ | ⟨hs, hu⟩ <;> subst hu <;> simp only [hs] at * <;>
  · cases hl : lookup s.tbl e.dev e.ino with
    | none =>
      rw [hl] at f1 f2
      simp only [Option.map_none] at f1
      have hfe : findEntry s.tbl e.dev e.ino id = (none, (findEntry s.tbl e.dev e.ino id).2) := by
        rw [← f1]
      have htbl : (findEntry s.tbl e.dev e.ino id).2 = s.tbl := by
        rcases findEntry_spec s.tbl e.dev e.ino id with ⟨h1, _⟩ | ⟨pre, le0, post, _, _, _, h4⟩
        · rw [h1]
        · rw [h4] at f1; simp at f1
      rw [hfe]
      obtain ⟨g1, g2, g3⟩ := insertEntry_lookup s.tbl e none hn hl
      exact ⟨g3, by first | rfl | trivial, g2, by first | rfl | trivial, g1⟩
    | some le =>
      rw [hl] at f1 f2
      simp only [Option.map_some] at f1
      have hfe : findEntry s.tbl e.dev e.ino id =
          (some { le with links := u32dec le.links }, (findEntry s.tbl e.dev e.ino id).2) := by
        rw [← f1]
      rw [hfe]
      simp only [] at f2 ⊢
      refine ⟨f4, by first | rfl | trivial, f3, by first | rfl | trivial, ?_⟩
      simpa using f2

theorem u32dec_pos (m : Nat) (h1 : 1 ≤ m) (h2 : m < 4294967296) : u32dec m = m - 1 := by
  unfold u32dec; omega

def TarLike (s : State) (u : Bool) : Prop :=
  (s.strategy = .tar ∧ u = true) ∨ (s.strategy = .mtree ∧ u = false)

/-- Remaining members of an open group: each comes out as a hard link to the
group's first pathname and the group is forgotten after the last one. -/
theorem tarlike_rest (u : Bool) (d i : Int) (es : List Ent) :
    ∀ (s : State) (le : LE), TarLike s u → KeysNodup s.tbl → lookup s.tbl d i = some le →
      (∀ e ∈ es, e.dev = d ∧ e.ino = i ∧ passthrough e = false) →
      es.length = le.links → 1 ≤ le.links → le.links < 4294967296 →
      (run s (es.map .push)).2 = es.map (·.mkLink le.canon u) ∧
      lookup (run s (es.map .push)).1.tbl d i = none ∧ KeysNodup (run s (es.map .push)).1.tbl := by
  induction es with
  | nil => intro s le _ _ _ _ hlen h1 _; simp at hlen; omega
  | cons e rest ih =>
    intro s le hs hn hl hall hlen h1 h2
    obtain ⟨ed, ei, ep⟩ := hall e (by simp)
    obtain ⟨p1, p2, _, p4⟩ := tarlike_push s e u hs ep hn
    rw [ed, ei, hl] at p4
    obtain ⟨q1, q2⟩ := p4
    have hs' : TarLike (push s e).1 u := by unfold TarLike at *; rw [p2]; exact hs
    simp only [List.map_cons, run, step]
    have hout : (push s e).2.1.toList ++ (push s e).2.2.toList = [e.mkLink le.canon u] := by
      rw [q1]; rfl
    by_cases hr : rest = []
    · subst hr
      have hl1 : le.links = 1 := by simp at hlen; omega
      have : ¬ u32dec le.links > 0 := by rw [u32dec_pos _ h1 h2, hl1]; omega
      simp only [this, if_false] at q2
      simp only [List.map_nil, run, List.append_nil, hout]
      exact ⟨by first | rfl | trivial, q2, p1⟩
    · have hlen' : rest.length = le.links - 1 := by simp at hlen; omega
      have hpos : 1 ≤ rest.length := by
        cases rest with
        | nil => exact absurd rfl hr
        | cons _ _ => simp
      have hgt : u32dec le.links > 0 := by rw [u32dec_pos _ h1 h2]; omega
      simp only [hgt, if_true] at q2
      have := ih (push s e).1 { le with links := u32dec le.links } hs' p1 q2
        (fun x hx => hall x (List.mem_cons_of_mem _ hx))
        (by simp only []; rw [u32dec_pos _ h1 h2]; exact hlen')
        (by simp only []; rw [u32dec_pos _ h1 h2]; omega)
        (by simp only []; rw [u32dec_pos _ h1 h2]; omega)
      obtain ⟨r1, r2, r3⟩ := this
      refine ⟨?_, r2, r3⟩
      rw [hout, r1]; rfl

/-- **C17, tar and mtree groups.**  Members `e₁ … eₙ` of one (dev, ino) group with
link count `n`, pushed in this order (entries of *other* groups may be pushed in
between: `tarlike_push` shows they do not disturb the record): the first comes
out unchanged and carries the body, every other one comes out as a hard link to
the first one's pathname (size unset under tar), and the resolver forgets the
group, so a later entry with the same key starts a new one. -/
theorem tarlike_group (s : State) (u : Bool) (e1 : Ent) (rest : List Ent)
    (hs : TarLike s u) (hn : KeysNodup s.tbl) (hnone : lookup s.tbl e1.dev e1.ino = none)
    (h1 : passthrough e1 = false)
    (hall : ∀ e ∈ rest, e.dev = e1.dev ∧ e.ino = e1.ino ∧ passthrough e = false)
    (hcount : e1.nlink = rest.length + 1) (hrest : 1 ≤ rest.length) (hlt : e1.nlink < 4294967296) :
    (run s ((e1 :: rest).map .push)).2 = e1 :: rest.map (·.mkLink e1.tag u) ∧
    lookup (run s ((e1 :: rest).map .push)).1.tbl e1.dev e1.ino = none := by
  obtain ⟨p1, p2, _, p4⟩ := tarlike_push s e1 u hs h1 hn
  rw [hnone] at p4
  obtain ⟨q1, q2⟩ := p4
  have hs' : TarLike (push s e1).1 u := by unfold TarLike at *; rw [p2]; exact hs
  have hlinks : (LE.ofEnt e1 none).links = rest.length := by
    simp only [LE.ofEnt]
    rw [Nat.mod_eq_of_lt hlt, u32dec_pos _ (by omega) hlt]; omega
  obtain ⟨r1, r2, _⟩ := tarlike_rest u e1.dev e1.ino rest (push s e1).1 (LE.ofEnt e1 none) hs' p1 q2 hall
    hlinks.symm (by rw [hlinks]; exact hrest) (by rw [hlinks]; omega)
  simp only [List.map_cons, run, step]
  have hout : (push s e1).2.1.toList ++ (push s e1).2.2.toList = [e1] := by rw [q1]; rfl
  refine ⟨?_, r2⟩
  rw [hout, r1]; rfl

/-- Non-vacuity: a three-member group under the tar strategy. -/
example :
    let e (t : Nat) : Ent := { tag := t, dev := 5, ino := 7, nlink := 3, ftype := .reg }
    (run { strategy := .tar } ([e 1, e 2, e 3].map .push)).2 =
      [e 1, (e 2).mkLink 1 true, (e 3).mkLink 1 true] := by decide

/-- new cpio: the first member is parked; each later member swaps places with the
parked one, which comes out as a hard link to the first pathname; the last
member also comes out itself, unchanged, carrying the body. -/
theorem newcpio_push (s : State) (e : Ent) (hs : s.strategy = .newCpio)
    (hp : passthrough e = false) (hn : KeysNodup s.tbl) :
    KeysNodup (push s e).1.tbl ∧ (push s e).1.strategy = s.strategy ∧
    (∀ d' i', (d', i') ≠ (e.dev, e.ino) → lookup (push s e).1.tbl d' i' = lookup s.tbl d' i') ∧
    (match lookup s.tbl e.dev e.ino with
     | none => (push s e).2 = (none, none) ∧
               lookup (push s e).1.tbl e.dev e.ino = some (LE.ofEnt e (some e))
     | some le =>
       if u32dec le.links > 0 then
         (push s e).2 = (le.held.map (·.mkLink le.canon true), none) ∧
         lookup (push s e).1.tbl e.dev e.ino = some { le with links := u32dec le.links, held := some e }
       else
         (push s e).2 = (le.held.map (·.mkLink le.canon true), some e) ∧
         lookup (push s e).1.tbl e.dev e.ino = none) := by
  obtain ⟨f1, f2, f3, f4⟩ := findEntry_lookup s.tbl e.dev e.ino (fun _ => some e) hn
  have hstrat := push_strategy s e
  unfold push at *
  simp only [hp, Bool.false_eq_true, if_false, hs] at *
  cases hl : lookup s.tbl e.dev e.ino with
  | none =>
    rw [hl] at f1 f2
    simp only [Option.map_none] at f1
    have hfe : findEntry s.tbl e.dev e.ino (fun _ => some e) =
        (none, (findEntry s.tbl e.dev e.ino (fun _ => some e)).2) := by rw [← f1]
    rw [hfe]
    obtain ⟨g1, g2, g3⟩ := insertEntry_lookup s.tbl e (some e) hn hl
    exact ⟨g3, by first | rfl | trivial, g2, by first | rfl | trivial, g1⟩
  | some le =>
    rw [hl] at f1 f2
    simp only [Option.map_some] at f1
    have hfe : findEntry s.tbl e.dev e.ino (fun _ => some e) =
        (some { le with links := u32dec le.links }, (findEntry s.tbl e.dev e.ino (fun _ => some e)).2) := by
      rw [← f1]
    rw [hfe]
    simp only [] at f2 ⊢
    by_cases hgt : u32dec le.links > 0
    · have hne : (u32dec le.links == 0) = false := by simp; omega
      simp only [hgt, if_true, hne] at f2 ⊢
      exact ⟨f4, by first | rfl | trivial, f3, by first | rfl | trivial, f2⟩
    · have h0 : u32dec le.links = 0 := by omega
      simp only [hgt, if_false, h0] at f2 ⊢
      exact ⟨f4, by first | rfl | trivial, f3, by first | rfl | trivial, f2⟩

theorem newcpio_rest (d i : Int) (mid : List Ent) :
    ∀ (s : State) (le : LE) (h last : Ent), s.strategy = .newCpio → KeysNodup s.tbl →
      lookup s.tbl d i = some le → le.held = some h →
      (∀ e ∈ mid ++ [last], e.dev = d ∧ e.ino = i ∧ passthrough e = false) →
      mid.length + 1 = le.links → le.links < 4294967296 →
      (run s ((mid ++ [last]).map .push)).2 = (h :: mid).map (·.mkLink le.canon true) ++ [last] ∧
      lookup (run s ((mid ++ [last]).map .push)).1.tbl d i = none := by
  induction mid with
  | nil =>
    intro s le h last hs hn hl hh hall hlen h2
    obtain ⟨ed, ei, ep⟩ := hall last (by simp)
    obtain ⟨p1, p2, _, p4⟩ := newcpio_push s last hs ep hn
    rw [ed, ei, hl] at p4
    have hl1 : le.links = 1 := by simp at hlen; omega
    have : ¬ u32dec le.links > 0 := by rw [u32dec_pos _ (by omega) h2, hl1]; omega
    simp only [this, if_false] at p4
    obtain ⟨q1, q2⟩ := p4
    simp only [List.nil_append, List.map_cons, List.map_nil, run, step, List.append_nil]
    have e1 : (push s last).2.1 = some (h.mkLink le.canon true) := by rw [q1, hh]; rfl
    have e2 : (push s last).2.2 = some last := by rw [q1]
    rw [e1, e2]
    exact ⟨by simp, q2⟩
  | cons e mid ih =>
    intro s le h last hs hn hl hh hall hlen h2
    obtain ⟨ed, ei, ep⟩ := hall e (by simp)
    obtain ⟨p1, p2, _, p4⟩ := newcpio_push s e hs ep hn
    rw [ed, ei, hl] at p4
    have hge : 2 ≤ le.links := by simp at hlen; omega
    have hgt : u32dec le.links > 0 := by rw [u32dec_pos _ (by omega) h2]; omega
    simp only [hgt, if_true] at p4
    obtain ⟨q1, q2⟩ := p4
    have hs' : (push s e).1.strategy = .newCpio := by rw [p2]; exact hs
    have := ih (push s e).1 { le with links := u32dec le.links, held := some e } e last hs' p1 q2 rfl
      (fun x hx => hall x (by simp at hx ⊢; rcases hx with h | h <;> simp [h]))
      (by simp only []; rw [u32dec_pos _ (by omega) h2]; simp at hlen; omega)
      (by simp only []; rw [u32dec_pos _ (by omega) h2]; omega)
    obtain ⟨r1, r2⟩ := this
    simp only [List.cons_append, List.map_cons, run, step]
    refine ⟨?_, r2⟩
    have e1 : (push s e).2.1 = some (h.mkLink le.canon true) := by rw [q1, hh]; rfl
    have e2 : (push s e).2.2 = none := by rw [q1]
    rw [r1, e1, e2]
    simp

/-- **C17, new-cpio groups.**  Members `e₁, mid…, last` (link count = their number,
at least 2) pushed in this order come out as `e₁, mid…` marked as hard links to
`e₁`'s pathname with their size unset, followed by `last` unchanged: exactly the
last member carries the body. -/
theorem newcpio_group (s : State) (e1 last : Ent) (mid : List Ent)
    (hs : s.strategy = .newCpio) (hn : KeysNodup s.tbl) (hnone : lookup s.tbl e1.dev e1.ino = none)
    (h1 : passthrough e1 = false)
    (hall : ∀ e ∈ mid ++ [last], e.dev = e1.dev ∧ e.ino = e1.ino ∧ passthrough e = false)
    (hcount : e1.nlink = mid.length + 2) (hlt : e1.nlink < 4294967296) :
    (run s ((e1 :: (mid ++ [last])).map .push)).2 =
      (e1 :: mid).map (·.mkLink e1.tag true) ++ [last] ∧
    lookup (run s ((e1 :: (mid ++ [last])).map .push)).1.tbl e1.dev e1.ino = none := by
  obtain ⟨p1, p2, _, p4⟩ := newcpio_push s e1 hs h1 hn
  rw [hnone] at p4
  obtain ⟨q1, q2⟩ := p4
  have hs' : (push s e1).1.strategy = .newCpio := by rw [p2]; exact hs
  have hlinks : (LE.ofEnt e1 (some e1)).links = mid.length + 1 := by
    simp only [LE.ofEnt]
    rw [Nat.mod_eq_of_lt hlt, u32dec_pos _ (by omega) hlt]; omega
  obtain ⟨r1, r2⟩ := newcpio_rest e1.dev e1.ino mid (push s e1).1 (LE.ofEnt e1 (some e1)) e1 last hs' p1 q2 rfl hall
    hlinks.symm (by rw [hlinks]; omega)
  simp only [List.map_cons, run, step]
  refine ⟨?_, r2⟩
  have x1 : (push s e1).2.1 = none := by rw [q1]
  have x2 : (push s e1).2.2 = none := by rw [q1]
  rw [r1, x1, x2]
  simp [LE.ofEnt]

example :
    let e (t : Nat) : Ent := { tag := t, dev := 5, ino := 7, nlink := 3, ftype := .reg }
    (run { strategy := .newCpio } ([e 1, e 2, e 3].map .push)).2 =
      [(e 1).mkLink 1 true, (e 2).mkLink 1 true, e 3] := by decide

/-- Unique keys hold in every reachable state. -/
theorem keys_nodup_init (st : Strategy) : KeysNodup ({ strategy := st } : State).tbl := by
  simp [KeysNodup]


theorem push_keys (s : State) (e : Ent) (hn : KeysNodup s.tbl) : KeysNodup (push s e).1.tbl := by
  by_cases hp : passthrough e = true
  · have : push s e = (s, some e, none) := by unfold push; simp [hp]
    rw [this]; exact hn
  · have hp' : passthrough e = false := by simpa using hp
    cases hs : s.strategy with
    | oldCpio =>
      have : push s e = (s, some e, none) := by unfold push; simp [hp, hs]
      rw [this]; exact hn
    | tar => exact (tarlike_push s e true (Or.inl ⟨hs, rfl⟩) hp' hn).1
    | mtree => exact (tarlike_push s e false (Or.inr ⟨hs, rfl⟩) hp' hn).1
    | newCpio => exact (newcpio_push s e hs hp' hn).1

theorem takeNth_keys (p : LE → Bool) (tbl : List LE) (k : Nat) (hn : KeysNodup tbl) :
    ∀ x t, takeNth p tbl k = some (x, t) → KeysNodup t := by
  intro x t h
  rcases takeNth_spec p tbl k with ⟨h1, _⟩ | ⟨pre, le, post, h1, _, h3⟩
  · rw [h1] at h; cases h
  · rw [h3] at h
    cases h
    unfold KeysNodup at *
    rw [h1] at hn
    simp only [List.map_append, List.map_cons] at hn ⊢
    have ⟨a, b, c⟩ := List.nodup_append.mp hn
    exact List.nodup_append.mpr ⟨a, (List.nodup_cons.mp b).2, fun x hx y hy => c x hx y (List.mem_cons_of_mem _ hy)⟩

/-- Every reachable resolver state has at most one record per (dev, ino): the
hypothesis `KeysNodup` of the group theorems is not a restriction. -/
theorem reachable_keys_nodup (st : Strategy) (ops : List Op) :
    KeysNodup (run { strategy := st } ops).1.tbl := by
  have h0 := keys_nodup_init st
  generalize ({ strategy := st } : State) = s at h0
  induction ops generalizing s with
  | nil => exact h0
  | cons op ops ih =>
    simp only [run]
    apply ih
    cases op with
    | push e => exact push_keys s e h0
    | drain k =>
      simp only [step, drainAt]
      cases h : takeNth (fun le => le.held.isSome) s.tbl k with
      | none => exact h0
      | some r => exact takeNth_keys _ _ _ h0 r.1 r.2 h
    | partialLinks k =>
      simp only [step, partialAt]
      cases h : takeNth (fun le => le.held.isNone) s.tbl k with
      | none => exact h0
      | some r => exact takeNth_keys _ _ _ h0 r.1 r.2 h

/-! ### The bucket layer under the flat table

`State.tbl` is a flat list; the C keeps the records in `buckets[hash & (number_buckets - 1)]` and re-chains
them in `grow_hash`.  These theorems instantiate `LA.LnkHash` (any record type, any hash) with the real record,
the real hash `(size_t)(dev ^ ino)`, the extracted initial size, and the extracted shape of the three index
computations: the bucket table is a container with exactly the flat list's contents after any insertion history
(any number of growths), and the chain walk of `find_entry` finds every record that is in it. -/

/-- `(size_t)(dev ^ ino)` on an LP64 target. -/
def leHash (le : LE) : Nat :=
  (le.dev % 18446744073709551616).toNat ^^^ (le.ino % 18446744073709551616).toNat

/-- The table of `archive_entry_linkresolver_new`. -/
def bucketsInit : LnkHash.HT LE := { nb := Gen.Limits.linksCacheInitialSize, bk := fun _ => [], n := 0 }

/-- Source-shape obligations of the bucket model (regenerated from the C on every run): `find_entry` masks with
the current `number_buckets - 1`; `insert_entry` tests `number_entries > number_buckets * 2`, grows *first* and
computes the bucket index *afterwards*; `grow_hash` doubles, re-masks every record's stored hash with the new
size, and publishes the new size. -/
theorem bucket_source_shape :
    Gen.Limits.findMasksCurrentSize = true ∧ Gen.Limits.insertGrowsBeforeIndex = true ∧
    Gen.Limits.insertGrowthTest = "res->number_entries > res->number_buckets * 2" ∧
    Gen.Limits.growDoublesAndRemasks = true := by decide

theorem bucketsInit_wf : LnkHash.WF bucketsInit leHash :=
  ⟨⟨10, by decide⟩, by intro i x hx; simp [bucketsInit] at hx⟩

theorem bucketsInit_flat : bucketsInit.flat = [] := by
  unfold LnkHash.HT.flat bucketsInit
  simp only
  generalize Gen.Limits.linksCacheInitialSize = n
  induction n with
  | zero => rfl
  | succ n ih => simp [LnkHash.flatUpTo, ih]

theorem eq_of_keysNodup (l : List LE) (hn : KeysNodup l) (a b : LE) (ha : a ∈ l) (hb : b ∈ l)
    (h : (a.dev, a.ino) = (b.dev, b.ino)) : a = b := by
  unfold KeysNodup at hn
  induction l with
  | nil => cases ha
  | cons x xs ih =>
    rw [List.map_cons, List.nodup_cons] at hn
    rcases List.mem_cons.mp ha with rfl | ha' <;> rcases List.mem_cons.mp hb with rfl | hb'
    · rfl
    · exact absurd (List.mem_map.mpr ⟨b, hb', h.symm⟩) hn.1
    · exact absurd (List.mem_map.mpr ⟨a, ha', h⟩) hn.1
    · exact ih hn.2 ha' hb'

/-- Whatever records are inserted, in whatever number (the table grows at 2049, 4097, … live records), the
bucket table holds each of them exactly once. -/
theorem buckets_no_loss_no_dup (les : List LE) :
    (LnkHash.insertAll bucketsInit leHash les).flat.Perm les.reverse := by
  have h := (LnkHash.insertAll_spec bucketsInit leHash les bucketsInit_wf).2
  simpa [bucketsInit_flat] using h

/-- …and the chain walk of `find_entry` reaches every one of them through its own (dev, ino): no record is
stranded in a chain the lookup does not visit. -/
theorem buckets_find_every_record (les : List LE) (le : LE) (hm : le ∈ les) :
    ((LnkHash.insertAll bucketsInit leHash les).find leHash (fun x => x.hasKey le.dev le.ino) (leHash le)).isSome
      = true := by
  obtain ⟨hw, hp⟩ := LnkHash.insertAll_spec bucketsInit leHash les bucketsInit_wf
  apply LnkHash.find_complete _ _ _ le hw
  · exact hp.symm.subset (by simp [hm])
  · simp [LE.hasKey]

/-- With unique keys (`reachable_keys_nodup`) the walk returns exactly the flat model's `lookup`. -/
theorem buckets_find_eq_lookup (les : List LE) (hn : KeysNodup les) (le : LE) (hm : le ∈ les) :
    (LnkHash.insertAll bucketsInit leHash les).find leHash (fun x => x.hasKey le.dev le.ino) (leHash le)
      = some le := by
  obtain ⟨hw, hp⟩ := LnkHash.insertAll_spec bucketsInit leHash les bucketsInit_wf
  apply LnkHash.find_unique _ _ _ le hw
  · exact hp.symm.subset (by simp [hm])
  · simp [LE.hasKey]
  · intro y hy _ hk
    have hy' : y ∈ les := by
      have := hp.subset hy
      simpa [bucketsInit_flat] using this
    rw [hasKey_iff] at hk
    -- two records of `les` with the same (dev, ino) are the same record
    exact eq_of_keysNodup les hn y le hy' hm hk

/-- Any history of insertions and unlinkings on the bucket table (records leave their chain when a group
completes or is drained): each record still in the table is reached by the `find_entry` walk for its own key. -/
theorem buckets_history_reachable (ops : List (LnkHash.BOp LE)) (le : LE)
    (hm : le ∈ (LnkHash.runB bucketsInit leHash ops).flat) :
    ((LnkHash.runB bucketsInit leHash ops).find leHash (fun x => x.hasKey le.dev le.ino) (leHash le)).isSome
      = true :=
  LnkHash.runB_reachable bucketsInit leHash _ ops bucketsInit_wf le hm (by simp [LE.hasKey])

/-- Non-vacuity (the growth case itself is exercised in `Lemmas/LnkHash.lean` on a 2-bucket table): three
records with negative and large keys in the initial table, the middle one is found. -/
example : (LnkHash.insertAll bucketsInit leHash
    [({ dev := -1, ino := 7, canon := 1, held := none, links := 1 } : LE),
     { dev := 5, ino := 4611686018427387904, canon := 2, held := none, links := 2 },
     { dev := 0, ino := 1031, canon := 3, held := none, links := 1 }]).find leHash
      (fun x => x.hasKey 5 4611686018427387904)
      (leHash { dev := 5, ino := 4611686018427387904, canon := 2, held := none, links := 2 })
    = some { dev := 5, ino := 4611686018427387904, canon := 2, held := none, links := 2 } := by
  decide +kernel

end LA.C17
