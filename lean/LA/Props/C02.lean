/-
C02 — Write-then-read round trip preserves entries in every format.

What is proved here (models of `LA.Model.Codec` / `LA.Model.Ar` / `LA.Model.Pax`, each tied to the C byte for
byte by the `codec` engine):
  * `decode_encode_ustar`, `stream_roundtrip_ustar` — ustar header and whole archive (any chunking, padding);
  * `readback_fixed_point_ustar` — decode a header, write the decoded record again, decode: the same record;
  * `stream_roundtrip_newc`, `stream_roundtrip_odc` (+ `_representable` forms, `representable_{newc,odc}_accepted`)
    — whole cpio archives: headers, name / body padding, symlink bodies, synthesised inode numbers, trailer;
  * `decode_encode_ar`, `stream_roundtrip_ar` — ar members (SVR4 `name/`, BSD short and `#1/<len>` long names,
    pad byte) and whole archives with the global header;
  * `pax_len_fixed_point`, `paxRecords_roundtrip`, `pax_number_roundtrip`, `decode_encode_pax_partial` — the
    record layer of pax extended headers, writer against the reader's parsing loop.
Still specification level only (differential against `representable` / `norm`, no byte model): the pax writer's
choice of attributes, its time-stamp text form and the ustar header it emits after the extended header; gnutar,
v7tar, binary cpio, zip, 7zip, xar, iso9660, mtree, warc; the SVR4 ar filename table (`//`) and the ar symbol
tables; write filters.
-/
import LA.Lemmas.UstarSpec
import LA.Lemmas.Stream
import LA.Lemmas.Pax
import LA.Lemmas.CpioStream
import LA.Lemmas.CpioStreamOdc
import LA.Lemmas.CpioAccept
import LA.Lemmas.ArStream
import LA.Lemmas.PaxParse
import LA.Lemmas.UstarFixed
import LA.Props.C10
namespace LA.C02
open LA.Codec LA.NumFmt

/-! ### pax extended-header records -/

/-- `add_pax_attr_binary`: the decimal number in front of the record is the record's own
length, for every key and value (the digit-count loop and its "99 → 100" adjustment). -/
theorem pax_len_fixed_point (key value : List Nat) :
    LA.Pax.record key value
      = LA.Pax.decDigits (LA.Pax.record key value).length ++ [32] ++ key ++ [61] ++ value ++ [10] := by
  have h := LA.Pax.recordLen_digits key value
  have hlen : (LA.Pax.record key value).length = LA.Pax.recordLen key value := by
    unfold LA.Pax.record
    simp only [List.length_append, List.length_singleton, List.length_cons, List.length_nil]
    omega
  rw [hlen]; rfl

/-- The 99 → 100 case of the C comment: " path=" + 92 bytes + newline is 98 bytes; with a 2-digit
prefix the record would be 100 bytes long, so three digits are needed: "101 path=…". -/
example := pax_len_fixed_point [112, 97, 116, 104] (List.replicate 92 120)

/-! ### one ustar header -/

/-- **decode ∘ encode** for ustar: an entry inside what ustar can represent (`representable`)
is accepted with ARCHIVE_OK, the header passes the reader's checksum test and decodes to an
entry that agrees with `norm .ustar e` on every field ustar carries. -/
theorem decode_encode_ustar (st : WState) (e : Entry) (hwf : wfEntry e) (hr : representable .ustar e = true) :
    ∃ b st', ustarWriteHeader st e = (.ok, b, st') ∧ tarChecksumOk b = true ∧
      ∃ rb rem, ustarDecode b false = some (rb, rem) ∧ (norm .ustar e).mismatch rb 0 = none := by
  -- the pathname is present
  cases hp : e.path with
  | none => unfold representable at hr; rw [hp] at hr; cases hr
  | some p0 =>
    have hnf := representable_ustar_not_failed e p0 hp hr
    have hok : ustarWriteHeader st e = (.ok, ustarHdr e (dirSlash e.ftype p0) (ustarSize e),
        { st with remaining := (ustarSize e).toNat, padding := pad512 (ustarSize e).toNat }) := by
      unfold ustarWriteHeader
      rw [hp]
      simp only []
      have hf : ¬ (ustarFormatHeader e (dirSlash e.ftype p0)
          (if e.hard ≠ [] ∨ e.sym ≠ [] ∨ e.ftype ≠ .reg then 0 else e.sizeV) none true).1 = true := by
        have : (ustarFormatHeader e (dirSlash e.ftype p0) (ustarSize e) none true).1 = false := hnf
        unfold ustarSize at this; rw [this]; simp
      rw [if_neg hf]; rfl
    refine ⟨_, _, hok, ?_⟩
    -- what `representable` says about the excluded shapes
    unfold representable at hr
    rw [hp] at hr
    simp only [Bool.and_eq_true] at hr
    obtain ⟨⟨hshape, _⟩, hnames⟩ := hr
    unfold reprShape at hshape
    simp only [imp, Bool.and_eq_true, Bool.or_eq_true, Bool.not_eq_true', List.isEmpty_eq_false_iff, beq_iff_eq,
      bne_iff_ne, ne_eq, carriesHard, isTar, Bool.true_and, Bool.and_true, List.isEmpty_iff] at hshape
    obtain ⟨⟨⟨⟨⟨⟨_, _⟩, _⟩, _⟩, _⟩, hhs⟩, hreg⟩ := hshape
    unfold reprNames at hnames
    simp only [normPath, convertsNames, imp, Bool.not_false, Bool.true_or, Bool.true_and, Bool.and_eq_true,
      decide_eq_true_eq, bne_iff_ne, ne_eq] at hnames
    obtain ⟨_, hdbl⟩ := hnames
    have hlinks : e.hard ≠ [] → e.sym = [] := by
      intro hh; rcases hhs with h | h
      · simp only [Bool.not_eq_false', List.isEmpty_iff] at h; exact absurd h hh
      · exact h
    have hnotrail : ∀ q, e.path = some q → e.ftype = .reg → e.hard = [] → q.getLast? ≠ some slash := by
      intro q hq hft _
      rw [hp] at hq; cases hq
      rcases hreg with h | h
      · rw [hft] at h; simp at h
      · exact h
    have hnodbl : ∀ q k, e.path = some q → ustarSplit (dirSlash e.ftype q) = .split k →
        ((dirSlash e.ftype q).take k).getLast? ≠ some slash := by
      intro q k hq hk
      rw [hp] at hq; cases hq
      rw [hk] at hdbl
      simpa using hdbl
    exact LA.C10.ok_implies_exact_ustar_partial st e _ _ hwf hok hlinks hnotrail hnodbl

/-- The hypotheses are satisfiable: a directory with a 150-byte name, uid at the field maximum. -/
def sampleDir : Entry :=
  { path := some (List.replicate 100 100 ++ [47] ++ List.replicate 49 110)
    ftype := .dir
    uid := 262143
    mtime := 8589934591
    uname := List.replicate 32 117 }
set_option maxRecDepth 16384 in
example : representable .ustar sampleDir = true := by decide

/-! ### a whole ustar archive -/

/-- **stream round trip** for ustar.  Any list of entries, each with its body written in *any*
chunking (more or fewer bytes than declared: truncated / zero filled), any output block size and
last-block rule: the reader returns, in order, exactly the entries `archive_write_header`
accepted — refused entries leave no trace (C10's last clause) — each agreeing with
`norm .ustar` and with the body the writer framed; then a clean end of archive.
`UstarEntryOK` excludes the two recorded defects (C10-tar-regslash, C10-ustar-dblslash). -/
theorem stream_roundtrip_ustar (es : List (Entry × List (List Nat))) (hes : ∀ ec ∈ es, UstarEntryOK ec.1)
    (bpb : Nat) (bilb : Int) :
    ∃ rbs fmt, tarRead false (writeArchive .ustar es bpb bilb) 0 LA.Gen.CodecConsts.ARCHIVE_FORMAT_TAR []
        = ⟨fmt, rbs, .eof, rbs.length + 1⟩ ∧
      AllPairs ReadsBackAs (es.filter fun ec => ustarAccepted ec.1) rbs := by
  exact LA.C10.refused_keeps_archive_readable_ustar es hes bpb bilb

/-- The framed body depends only on the concatenation of the chunks, not on the chunking. -/
theorem body_independent_of_chunking (size : Nat) (c1 c2 : List (List Nat)) (h : c1.flatten = c2.flatten) :
    entryBody size c1 = entryBody size c2 := by
  unfold entryBody; rw [h]

/-- … and is the declared number of bytes, whatever was supplied. -/
theorem body_has_declared_size (size : Nat) (chunks : List (List Nat)) : (entryBody size chunks).length = size :=
  entryBody_length size chunks

/-- A two-entry archive with a refused entry in the middle satisfies the hypotheses. -/
example : ustarAccepted { path := some [97], size := some 3 } = true
    ∧ ustarAccepted { path := some [98], uid := 262144 } = false := by decide

/-! ### the documented pathname normalisation is idempotent -/

/-- For every format whose normalisation is "a directory gets a trailing '/'" (tar family, zip,
7zip) or the identity (cpio, warc), normalising twice is normalising once: what a reader
returns is already in normal form, which is the pathname part of "the read-back form is a
fixed point".  (For ar, mtree, xar and iso9660 — basename / component cleaning — and for the
other fields the fixed-point clause is checked on the real code by the engine's `rewrite` op only.) -/
theorem norm_path_idem (f : WFmt) (ft : FType) (p : List Nat)
    (hf : f ≠ .arbsd ∧ f ≠ .arsvr4 ∧ f ≠ .mtree ∧ f ≠ .xar ∧ f ≠ .iso9660) :
    normPath f ft (normPath f ft p) = normPath f ft p := by
  obtain ⟨h1, h2, h3, h4, h5⟩ := hf
  cases f <;> simp only [normPath] <;> first | exact dirSlash_idem ft p | rfl | contradiction

example : normPath .ustar .dir [100] = [100, 47] ∧ normPath .ustar .dir [100, 47] = [100, 47] := by decide

/-! ### whole cpio archives -/

open LA.Gen.CodecConsts in
/-- **Round trip of a cpio newc archive**: any list of entries (each a C-string entry the writer
accepts with plain ARCHIVE_OK or refuses; bodies handed over in any chunking), written with
`archive_write_set_format_cpio_newc` under any output blocking: the 110-byte headers, names padded to
4 bytes, symlink targets and bodies with their padding, and the `TRAILER!!!` entry, are read by the
cpio reader as exactly the accepted entries in order — every field newc carries equal to `norm`,
bodies byte-identical — and the archive ends cleanly at the trailer (block padding ignored).
Refused entries leave no trace. -/
theorem stream_roundtrip_newc (es : List (Entry × List (List Nat))) (hes : ∀ ec ∈ es, NewcEntryOK ec.1)
    (bpb : Nat) (bilb : Int) :
    ∃ rbs, cpioRead false true (writeArchive .newc es bpb bilb) ARCHIVE_FORMAT_CPIO_SVR4_NOCRC [] []
        = ⟨ARCHIVE_FORMAT_CPIO_SVR4_NOCRC, rbs, .eof, 0⟩ ∧
      AllPairs (CpioReadsBack .newc) (es.filter fun ec => newcAccepted ec.1) rbs := by
  unfold writeArchive
  simp only []
  rw [List.append_assoc]
  obtain ⟨rbs, h, hall⟩ := cpioRead_newc_entries es hes {} (writeEntries .newc {} es).2 _
    ARCHIVE_FORMAT_CPIO_SVR4_NOCRC [] []
  exact ⟨rbs, by rw [h]; simp, hall⟩

open LA.Gen.CodecConsts in
/-- **Round trip of a cpio odc archive** (76-byte octal headers, no padding, inode numbers
re-synthesised by the writer, at most 262143 entries — beyond that the format has no inode numbers
left and the writer gives up). -/
theorem stream_roundtrip_odc (es : List (Entry × List (List Nat))) (hes : ∀ ec ∈ es, OdcEntryOK ec.1)
    (hn : es.length ≤ 262143) (bpb : Nat) (bilb : Int) :
    ∃ rbs, cpioRead false false (writeArchive .odc es bpb bilb) ARCHIVE_FORMAT_CPIO_POSIX [] []
        = ⟨ARCHIVE_FORMAT_CPIO_POSIX, rbs, .eof, 0⟩ ∧
      AllPairs (CpioReadsBack .odc) (es.filter fun ec => odcAccepted ec.1) rbs := by
  unfold writeArchive
  simp only []
  rw [List.append_assoc]
  obtain ⟨rbs, h, hall⟩ := cpioRead_odc_entries es hes {} 0 inoInv_empty (by omega) (writeEntries .odc {} es).2 _
    ARCHIVE_FORMAT_CPIO_POSIX [] []
  exact ⟨rbs, by rw [h]; simp, hall⟩

open LA.Gen.CodecConsts in
/-- The same for **representable** entries, in the words of the property: every list of entries the
format description `representable .newc` admits (C strings, link targets of at most 1 MiB, not named
`TRAILER!!!`) is accepted entry by entry and reads back as all of them, in order, equal to `norm`. -/
theorem stream_roundtrip_newc_representable (es : List (Entry × List (List Nat)))
    (hes : ∀ ec ∈ es, wfEntry ec.1 ∧ representable .newc ec.1 = true ∧ ec.1.sym.length ≤ 1048576 ∧
      ec.1.path ≠ some trailerName ∧ (∀ p, ec.1.path = some p → p.length < 2147483647))
    (bpb : Nat) (bilb : Int) :
    ∃ rbs, cpioRead false true (writeArchive .newc es bpb bilb) ARCHIVE_FORMAT_CPIO_SVR4_NOCRC [] []
        = ⟨ARCHIVE_FORMAT_CPIO_SVR4_NOCRC, rbs, .eof, 0⟩ ∧ AllPairs (CpioReadsBack .newc) es rbs := by
  have hacc : ∀ ec ∈ es, newcAccepted ec.1 = true := fun ec h =>
    representable_newc_accepted ec.1 (hes ec h).2.1 (hes ec h).2.2.1
  obtain ⟨rbs, h, hall⟩ := stream_roundtrip_newc es (fun ec h =>
    ⟨(hes ec h).1, representable_symiff _ _ (hes ec h).2.1, (hes ec h).2.2.1, (hes ec h).2.2.2.1, (hes ec h).2.2.2.2,
     Or.inl (by have := hacc ec h; unfold newcAccepted at this; simpa using this)⟩) bpb bilb
  refine ⟨rbs, h, ?_⟩
  have : es.filter (fun ec => newcAccepted ec.1) = es := List.filter_eq_self.2 hacc
  rw [this] at hall; exact hall

open LA.Gen.CodecConsts in
theorem stream_roundtrip_odc_representable (es : List (Entry × List (List Nat)))
    (hes : ∀ ec ∈ es, wfEntry ec.1 ∧ representable .odc ec.1 = true ∧ ec.1.sym.length ≤ 1048576 ∧
      ec.1.path ≠ some trailerName ∧
      (0 ≤ ec.1.rdevmajor ∧ ec.1.rdevmajor < 4294967296) ∧ (0 ≤ ec.1.rdevminor ∧ ec.1.rdevminor < 4294967296))
    (hn : es.length ≤ 262143) (bpb : Nat) (bilb : Int) :
    ∃ rbs, cpioRead false false (writeArchive .odc es bpb bilb) ARCHIVE_FORMAT_CPIO_POSIX [] []
        = ⟨ARCHIVE_FORMAT_CPIO_POSIX, rbs, .eof, 0⟩ ∧ AllPairs (CpioReadsBack .odc) es rbs := by
  have hacc : ∀ ec ∈ es, odcAccepted ec.1 = true := fun ec h =>
    representable_odc_accepted ec.1 (hes ec h).2.1 (hes ec h).2.2.1
  obtain ⟨rbs, h, hall⟩ := stream_roundtrip_odc es (fun ec h =>
    ⟨(hes ec h).1, representable_symiff _ _ (hes ec h).2.1, (hes ec h).2.2.1, (hes ec h).2.2.2.1, (hes ec h).2.2.2.2.1,
     (hes ec h).2.2.2.2.2,
     Or.inl (by have := hacc ec h; unfold odcAccepted at this; simpa using this)⟩) hn bpb bilb
  refine ⟨rbs, h, ?_⟩
  have : es.filter (fun ec => odcAccepted ec.1) = es := List.filter_eq_self.2 hacc
  rw [this] at hall; exact hall

/-- e.g. a regular file with a 5-byte body in two chunks, a symbolic link, a refused entry (no
size), a directory: three of the four are accepted. -/
example : ([({ path := some [97], size := some 5, nlink := 1 }, [[1, 2], [3, 4, 5]]),
            ({ path := some [108], ftype := .lnk, sym := [116], nlink := 1 }, []),
            ({ path := some [120], size := none }, []),
            ({ path := some [100], ftype := .dir, nlink := 2 }, [])]
    : List (Entry × List (List Nat))).map (fun ec => newcAccepted ec.1) = [true, true, false, true] := by decide

/-! ### ar archives (BSD and SVR4/GNU member headers) -/

/-- **One ar member, written and read back** (`decode_encode_ar`): for a member the writer accepts
(`ArEntryOK`: C-string pathname, regular file, no link target, at least the declared number of body
bytes, member name not `__.SYMDEF`), the bytes `archive_write_ar_header` / `_data` / `_finish_entry`
produce — the 60-byte header with its left-justified decimal / octal fields, the SVR4 `name/` or BSD
`name ` field or the BSD `#1/<length>` form with the name in front of the body, the body, the "\n"
pad after an odd total — are parsed by the ar reader into an entry that agrees with `norm` on every
field ar carries (member name = last pathname component) with a byte-identical body, and the reader
stands exactly at the next member. -/
theorem decode_encode_ar (v : ArVariant) (st : ArState) (hg : st.wroteGlobal = true) (e : Entry) (chunks : List (List Nat))
    (hE : ArEntryOK v (e, chunks)) (hok : (arWriteHeader v st e).1 = .ok)
    (more : List Nat) (fmt : Nat) (acc : List RB) :
    ∃ rb fmt', arRead false ((arWriteEntry v st e chunks).2.2.2.1 ++ more) fmt acc = arRead false more fmt' (rb :: acc) ∧
      ArReadsBack v (e, chunks) rb := by
  obtain ⟨rb, fmt', _, h, hrb⟩ := arMember_roundtrip v st hg e chunks hE hok more fmt acc
  exact ⟨rb, fmt', h, hrb⟩

/-- **Round trip of an ar archive** (either variant): the global header — written with the first named
member, or at close for an archive without one — then every accepted member in order, each equal
to `norm` with its body; refused entries (ARCHIVE_WARN: no name, trailing '/', not a regular file, a
number that does not fit its decimal field, an SVR4 name longer than 15 bytes without a name table)
leave no trace; fewer than 60 trailing bytes end the archive cleanly. -/
theorem stream_roundtrip_ar (v : ArVariant) (es : List (Entry × List (List Nat))) (hes : ∀ ec ∈ es, ArEntryOK v ec) :
    ∃ rbs fmt, arReadArchive false (arWriteArchive v es) = ⟨fmt, rbs, .eof, 0⟩ ∧
      AllPairs (ArReadsBack v) (es.filter fun ec => arAccepted v ec.1) rbs := by
  unfold arWriteArchive arReadArchive
  simp only []
  rw [arWriteEntries_magic v es {} rfl]
  have hd : (arMagic ++ (arWriteEntries v { ({} : ArState) with wroteGlobal := true } es).1).drop 8
      = (arWriteEntries v { ({} : ArState) with wroteGlobal := true } es).1 := by
    have : arMagic.length = 8 := rfl
    rw [← this, List.drop_left]
  rw [hd]
  obtain ⟨rbs, fmt', h, hall⟩ := arRead_entries v es hes { ({} : ArState) with wroteGlobal := true } rfl [] (by decide)
    LA.Gen.CodecConsts.ARCHIVE_FORMAT_AR []
  rw [List.append_nil] at h
  exact ⟨rbs, fmt', by rw [h]; simp, hall⟩

/-- e.g. BSD: a short name, a name with a blank (stored as `#1/3`), a directory (refused). -/
example : ([({ path := some [97, 47, 98], size := some 2 }, [[1, 2]]),
            ({ path := some [120, 32, 121], size := some 1 }, [[7]]),
            ({ path := some [100], ftype := .dir }, [])]
    : List (Entry × List (List Nat))).map (fun ec => arAccepted .bsd ec.1) = [true, true, false] := by decide

/-! ### pax extended headers: the record layer -/

/-- **pax records round trip** (`paxRecords_roundtrip`): the body the writer builds with
`add_pax_attr_binary` for any list of attributes — values of any bytes, newlines, '=' and NULs included;
keys non-empty and without '=' (of any length: the reader extends its look-ahead as needed), records of at most 99999999 bytes — is split by the reader's loop (`header_pax_extension`: decimal
length up to the blank, key up to the first '=', `length - consumed - 1` value bytes, newline) into exactly
that list.  The parser model is compared with the real reader by the `paxbody` op of the codec engine. -/
theorem paxRecords_roundtrip (kvs : List (List Nat × List Nat)) (h : ∀ kv ∈ kvs, LA.Pax.RecordOK kv) :
    LA.Pax.parseRecords kvs.length (kvs.flatMap fun kv => LA.Pax.record kv.1 kv.2) = some kvs :=
  LA.Pax.parseRecords_records kvs h

/-- Decimal attribute values (`uid`, `gid`, `size`, the seconds of `mtime` …): what `format_int` writes,
`tar_atol10` (`pax_attribute_read_number`) reads back. -/
theorem pax_number_roundtrip (n : Nat) (hn : n < 9223372036854775800) :
    tarAtol10 (LA.Pax.decDigits n) = (n : Int) := LA.Pax.tarAtol10_decDigits n hn

/-- **The attributes the pax writer emits when a field does not fit ustar** (`decode_encode_pax_partial`):
for pathname, link target, user and group name (any bytes) and uid, gid, size (decimal), the records
`path=…`, `linkpath=…`, `uid=…`, `gid=…`, `size=…`, `uname=…`, `gname=…` are split back into exactly these
key/value pairs by the reader and the three numbers parse back to their values.  (What is not covered
by a theorem: the decision which attributes are needed, the `mtime`/`atime`/`ctime` "seconds.fraction"
text form, string conversion to UTF-8, and the ustar header that follows — spec level, checked by the
engine's round-trip predicate.) -/
theorem decode_encode_pax_partial (path linkpath uname gname : List Nat) (uid gid size : Nat)
    (hu : uid < 9223372036854775800) (hg : gid < 9223372036854775800) (hs : size < 9223372036854775800)
    (hlen : ∀ kv ∈ [([112, 97, 116, 104], path), ([108, 105, 110, 107, 112, 97, 116, 104], linkpath),
        ([117, 105, 100], LA.Pax.decDigits uid), ([103, 105, 100], LA.Pax.decDigits gid),
        ([115, 105, 122, 101], LA.Pax.decDigits size), ([117, 110, 97, 109, 101], uname), ([103, 110, 97, 109, 101], gname)],
      LA.Pax.recordLen kv.1 kv.2 ≤ 99999999) :
    let attrs := [([112, 97, 116, 104], path), ([108, 105, 110, 107, 112, 97, 116, 104], linkpath),
        ([117, 105, 100], LA.Pax.decDigits uid), ([103, 105, 100], LA.Pax.decDigits gid),
        ([115, 105, 122, 101], LA.Pax.decDigits size), ([117, 110, 97, 109, 101], uname), ([103, 110, 97, 109, 101], gname)]
    LA.Pax.parseRecords attrs.length (attrs.flatMap fun kv => LA.Pax.record kv.1 kv.2) = some attrs ∧
    tarAtol10 (LA.Pax.decDigits uid) = (uid : Int) ∧ tarAtol10 (LA.Pax.decDigits gid) = (gid : Int) ∧
    tarAtol10 (LA.Pax.decDigits size) = (size : Int) := by
  intro attrs
  refine ⟨paxRecords_roundtrip attrs ?_, pax_number_roundtrip uid hu, pax_number_roundtrip gid hg, pax_number_roundtrip size hs⟩
  intro kv hkv
  have hl := hlen kv hkv
  simp only [attrs, List.mem_cons, List.mem_nil_iff, or_false] at hkv
  rcases hkv with rfl | rfl | rfl | rfl | rfl | rfl | rfl <;>
    exact ⟨by simp, by intro c hc; simp at hc; omega, hl⟩

/-! ### the read-back form is a fixed point (ustar) -/

/-- **`readback_fixed_point_ustar`**: take any entry the ustar writer accepts (outside the two recorded
defects, `UstarEntryOK`), decode its 512-byte header with the reader, hand the decoded record back to
the writer unchanged (`RB.toEntry`: what a client does when it copies an archive): the writer accepts
it, and the new header decodes to *exactly the same record* — every field, the body length included.
(The bytes of the two headers may differ, e.g. a hard link to a device loses its device numbers at
the first read; the decoded records do not.) -/
theorem readback_fixed_point_ustar (st : WState) (e : Entry) (b : List Nat) (st' : WState)
    (hok : ustarWriteHeader st e = (.ok, b, st')) (hOK : UstarEntryOK e) :
    ∃ rb rem, ustarDecode b false = some (rb, rem) ∧
      ∃ b2 st2, ustarWriteHeader st' rb.toEntry = (.ok, b2, st2) ∧ ustarDecode b2 false = some (rb, rem) := by
  obtain ⟨p0, hp, hnf, hb, _⟩ := ustarWriteHeader_ok st e b st' hok
  obtain ⟨hwf, hlinks, hnotrail, hnodbl⟩ := hOK
  obtain ⟨_, _, _, _, _, htype⟩ := ustarFailed_false e _ _ hnf
  obtain ⟨t, ht⟩ := Option.isSome_iff_exists.1 htype
  obtain ⟨⟨rb, rem⟩, hs⟩ := ustarSpecRB_isSome e (dirSlash e.ftype p0) t ht
  have hdec := ustarDecode_ustarHdr e (dirSlash e.ftype p0) (ustarSize e) t
    (wfStr_dirSlash e.ftype p0 (hwf.1 p0 hp)) (wfStr_tarLink e hwf) hwf.2.1 hwf.2.2.1 hnf ht
    (fun kk hk => hnodbl p0 kk hp hk)
  obtain ⟨h1, h2, h3, h4, h5⟩ := readback_fixed_point e p0 hp ⟨hwf, hlinks, hnotrail, hnodbl⟩ hnf t ht rb rem hs
  refine ⟨rb, rem, by rw [hb, hdec, hs], ustarHdr rb.toEntry (dirSlash e.ftype p0) (ustarSize e),
    { st' with remaining := (ustarSize e).toNat, padding := pad512 (ustarSize e).toNat }, ?_, h5⟩
  unfold ustarWriteHeader
  rw [h1]
  simp only [h2]
  have hsz : (if rb.toEntry.hard ≠ [] ∨ rb.toEntry.sym ≠ [] ∨ rb.toEntry.ftype ≠ .reg then (0 : Int) else rb.toEntry.sizeV)
      = ustarSize e := by rw [← h3]; rfl
  rw [hsz]
  have hf : ¬ (ustarFormatHeader rb.toEntry (dirSlash e.ftype p0) (ustarSize e) none true).1 = true := by
    have : (ustarFormatHeader rb.toEntry (dirSlash e.ftype p0) (ustarSize e) none true).1 = false := h4
    rw [this]; simp
  rw [if_neg hf]
  rfl

end LA.C02
