import LA.Lemmas.UstarSpec
namespace LA.C02
end LA.C02
