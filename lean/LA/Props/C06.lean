import LA.Model.ReadObs
namespace LA.C06
end LA.C06
