/-
C06 — Headers and data do not depend on how entry bodies are consumed.

This file holds the theorems about the *prediction* used by the `cons` engine
(`LA.ReadObs.predictCons`: what the record of a run with an arbitrary per-entry
consumption vector must be, given the all-read reference run).  The model of
`archive_read_data` over zero-copy blocks and its theorems live in
LA/Props/C06 as well once `LA.Model.ReadData` is present (see DESIGN.md).
-/
import LA.Model.ReadObs
namespace LA.C06
open LA.ReadObs

theorem predictEnt_header (e : Ent) (c : String) :
    (predictEnt e c).hst = e.hst ∧ (predictEnt e c).md = e.md ∧ (predictEnt e c).bare = e.bare := by
  unfold predictEnt
  split
  · exact ⟨rfl, rfl, rfl⟩
  · split
    · exact ⟨rfl, rfl, rfl⟩
    · split
      · exact ⟨rfl, rfl, rfl⟩
      · split
        · exact ⟨rfl, rfl, rfl⟩
        · split <;> exact ⟨rfl, rfl, rfl⟩

/-- The prediction keeps the number and order of entries, every header status and
every metadata digest, and the archive-level statuses, for every consumption
vector: only body fields of entries that are not read in full may change. -/
theorem predictCons_headers (r : Rec) (cons : List String) :
    (predictCons r cons).ents.length = r.ents.length ∧
    (predictCons r cons).ents.map (fun e => (e.hst, e.md)) = r.ents.map (fun e => (e.hst, e.md)) ∧
    (predictCons r cons).openSt = r.openSt ∧ (predictCons r cons).final = r.final ∧
    (predictCons r cons).tail = r.tail := by
  refine ⟨by simp [predictCons, zipIdx], ?_, rfl, rfl, rfl⟩
  simp only [predictCons, zipIdx, List.map_map]
  have : ∀ (l : List Ent) (k : Nat),
      (l.zip (List.range' k l.length)).map ((fun e => (e.hst, e.md)) ∘ fun x => predictEnt x.1 (cycle cons x.2)) =
      l.map (fun e => (e.hst, e.md)) := by
    intro l
    induction l with
    | nil => intro k; simp
    | cons a t ih =>
      intro k
      simp only [List.length_cons, List.range'_succ, List.zip_cons_cons, List.map_cons, Function.comp]
      rw [(predictEnt_header a _).1, (predictEnt_header a _).2.1]
      congr 1
      exact ih (k + 1)
  have h := this r.ents 0
  rw [List.range_eq_range']
  exact h

/-- Entries read in full (by `read_data` with any buffer sizes or by
`read_data_block`) are predicted to be exactly the reference entries. -/
theorem predictEnt_full (e : Ent) (c : String) (h : c = "A" ∨ c = "a" ∨ c = "B" ∨ c.startsWith "R" = true) :
    predictEnt e c = e := by
  unfold predictEnt
  rcases h with rfl | rfl | rfl | h <;> simp [*]

end LA.C06
