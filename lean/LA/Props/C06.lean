/-
C06 — Headers and data do not depend on how entry bodies are consumed.

The theorems are about `LA.RD` (lean/LA/Model/ReadData.lean), the model of
`archive_read_data`, `archive_read_data_block`, `archive_read_data_skip`,
`__archive_reset_read_data` and `_archive_read_next_header2` of
libarchive/archive_read.c over a *scripted* format reader; engine `rdd` checks
the model against the real functions.  The format reader's side of the property
(its blocks have increasing, non-overlapping offsets within the entry size; its
skip lands where reading everything lands) is an assumption here, written as
`WellFormed` / `CleanEntry`, and is tested on the real readers by engine `cons`.

* `read_data_bounded`            never more than `s` bytes are written, whatever the script
* `read_data_dense`              any buffer sizes: the results are the dense image (leading,
                                 interior and trailing holes zero-filled) cut at the buffer sizes;
                                 exactly all of it once a call returns 0
* `read_data_buffer_independent` two buffer-size sequences give the same bytes
* `read_data_within_size`        never more than the entry's size
* `retry_iff_disorder`           ARCHIVE_RETRY exactly when a block below the output offset is needed
* `read_data_progress`           a zero return means a scripted result was used up or the script is at EOF
* `skip_then_header_eq_read_then_header`, `headers_independent_of_consumption`
                                 the next header (status and complete handle state, hence the entry
                                 returned and every byte read from it later) is the same after any
                                 consumption history of the earlier bodies
-/
import LA.Model.ReadObs
import LA.Lemmas.ReadDataSeq
namespace LA.C06
open LA.RD

/-! ### Bounds -/

/-- **`archive_read_data` never writes more than `s` bytes** — for every handle
state and every script, well-formed or not, including the bytes written before
an error status is returned. -/
theorem read_data_bounded (h : H) (s : Nat) : (readData h s).1.written.length ≤ s := by
  obtain ⟨⟨add, ha, hl⟩, _⟩ := readLoop_frame (enterReadData h) s []
  unfold readData; rw [ha]; simpa using hl

/-- Non-vacuity: a 3-byte block at offset 2, buffer of 4: 2 zero bytes and 2 data bytes. -/
example : (readData { state := .data, evs := [evOfBlock (2, [7, 8, 9])] } 4).1 = .ok [0, 0, 7, 8] := by
  simp [readData, enterReadData, readLoop, step, fetch, dataBlock, store, padCopy, padLen, evOfBlock]

/-! ### The dense image -/

/-- One call on an error-free script, in any state of advancement: it returns the
next `s` bytes of what is pending, fewer only when the data ends. -/
theorem read_data_exact (h : H) (bl : List Block) (hi : Inv h bl) (ho : (pend h bl).2 = .eof) (s : Nat) :
    ∃ h' bl', Inv h' bl' ∧ readData h s = (.ok ((pend h bl).1.take s), h') ∧
      pend h' bl' = ((pend h bl).1.drop s, .eof) := by
  obtain ⟨h', bl', hi', hr, hp⟩ := readLoop_spec h s [] bl hi
  refine ⟨h', bl', hi', ?_, by rw [hp, ho]⟩
  unfold readData; rw [enterReadData_data h hi.st, hr]; simp [ho]

/-- **`read_data_dense`.**  For every well-formed block list and EVERY sequence of
buffer sizes, the successive `archive_read_data` calls all succeed and return
the dense image cut at the buffer sizes; so their concatenation is a prefix of
the dense image, namely its first `sizes.sum` bytes; and if the calls are
continued until one returns 0 (buffers of at least one byte), it is the whole
dense image, trailing hole included. -/
theorem read_data_dense (h : H) (bl : List Block) (t : Option Int) (hf : Fresh h bl t)
    (hw : WellFormed bl t) (sizes : List Nat) :
    (readSeq h sizes).1 = (chunks (dense bl t) sizes).map Ret.ok ∧
    ((readSeq h sizes).1.map Ret.written).flatten = (dense bl t).take sizes.sum ∧
    ((∀ s ∈ sizes, 1 ≤ s) → Ret.ok [] ∈ (readSeq h sizes).1 →
      ((readSeq h sizes).1.map Ret.written).flatten = dense bl t) := by
  have hi := hf.inv hw.2
  have hp := hf.pend
  have ho : (pend h bl).2 = .eof := by rw [hp]; exact (image_eof_iff 0 bl t).mpr hw.1
  obtain ⟨h', bl', _, _, hr, _⟩ := readSeq_spec h bl hi ho sizes
  have hd : (pend h bl).1 = dense bl t := by rw [hp]; rfl
  rw [hd] at hr
  have hm : ((chunks (dense bl t) sizes).map Ret.ok).map Ret.written = chunks (dense bl t) sizes := by
    have : (Ret.written ∘ Ret.ok) = id := rfl
    rw [List.map_map, this, List.map_id]
  refine ⟨by rw [hr], by rw [hr]; simp only [hm]; exact chunks_flatten _ _, ?_⟩
  intro h1 h2
  rw [hr] at h2 ⊢
  simp only [hm]
  apply chunks_complete _ _ h1
  simpa using h2

/-- Non-vacuity: a handle at the start of such an entry. -/
example : Fresh { state := .data, evs := [(2, [5, 6]), (6, [7]), (9, [])].map evOfBlock, term := { off := some 11 } }
    [(2, [5, 6]), (6, [7]), (9, [])] (some 11) := ⟨rfl, rfl, rfl, rfl, rfl, rfl⟩

/-- Non-vacuity: leading hole, interior hole, empty block, trailing hole reported with EOF. -/
example : WellFormed [(2, [5, 6]), (6, [7]), (9, [])] (some 11) := by
  refine ⟨⟨by decide, by decide, by decide, trivial⟩, ?_⟩
  intro t' ht; cases ht; decide

example : dense [(2, [5, 6]), (6, [7]), (9, [])] (some 11) = [0, 0, 5, 6, 0, 0, 7, 0, 0, 0, 0] := by decide

/-- **Buffer sizes do not matter.**  Two clients reading the same well-formed entry
with different buffer-size sequences get bytes of which one is a prefix of the
other; the same bytes if they ask for the same total, and the same bytes — the
dense image — if both go on until a call returns 0. -/
theorem read_data_buffer_independent (h : H) (bl : List Block) (t : Option Int) (hf : Fresh h bl t)
    (hw : WellFormed bl t) (sizes₁ sizes₂ : List Nat) :
    let b₁ := ((readSeq h sizes₁).1.map Ret.written).flatten
    let b₂ := ((readSeq h sizes₂).1.map Ret.written).flatten
    (b₁ <+: b₂ ∨ b₂ <+: b₁) ∧
    (sizes₁.sum = sizes₂.sum → b₁ = b₂) ∧
    ((∀ s ∈ sizes₁, 1 ≤ s) → (∀ s ∈ sizes₂, 1 ≤ s) → Ret.ok [] ∈ (readSeq h sizes₁).1 →
      Ret.ok [] ∈ (readSeq h sizes₂).1 → b₁ = b₂) := by
  obtain ⟨_, a2, a3⟩ := read_data_dense h bl t hf hw sizes₁
  obtain ⟨_, c2, c3⟩ := read_data_dense h bl t hf hw sizes₂
  refine ⟨?_, ?_, ?_⟩
  · rw [a2, c2]
    by_cases hle : sizes₁.sum ≤ sizes₂.sum
    · left; exact List.take_prefix_take_left hle
    · right; exact List.take_prefix_take_left (by omega)
  · intro e; rw [a2, c2, e]
  · intro h1 h2 h3 h4; rw [a3 h1 h3, c3 h2 h4]

/-- **Never more than the entry's size**: when the blocks stay within the entry's
size (and so does the end offset reported with EOF), all the bytes
`archive_read_data` can ever deliver for the entry number at most `size`. -/
theorem read_data_within_size (bl : List Block) (t : Option Int) (size : Nat) (hw : WellFormed bl t)
    (hb : endCursor 0 bl ≤ size) (ht : ∀ t', t = some t' → t' ≤ size) :
    (dense bl t).length ≤ size := by
  have := image_length 0 bl t hw.1 hw.2
  unfold dense
  cases t with
  | none => simp at this; omega
  | some t' => have := ht t' rfl; simp at *; omega

example : (dense [(2, [5, 6]), (6, [7]), (9, [])] (some 11)).length ≤ 11 := by decide

/-! ### Out-of-order blocks -/

/-- **ARCHIVE_RETRY exactly on disorder.**  On an error-free script (every format
result is an OK block, then EOF) in any state of advancement:
* the only error `archive_read_data` can return is ARCHIVE_RETRY;
* it returns it exactly when the call needs a block whose offset is below the
  output offset: the pending bytes end in a disorder and the buffer is larger
  than what can be delivered before it;
* at the start of an entry, "the pending bytes end in a disorder" is "the block
  offsets are not increasing / overlap". -/
theorem retry_iff_disorder (h : H) (bl : List Block) (hi : Inv h bl) (s : Nat) :
    (∀ e l, (readData h s).1 = .err e l → e = .retry) ∧
    ((∃ l, (readData h s).1 = .err .retry l) ↔
      ((pend h bl).2 = .disorder ∧ (pend h bl).1.length < s)) := by
  obtain ⟨h', bl', _, hr, _⟩ := readLoop_spec h s [] bl hi
  unfold readData
  rw [enterReadData_data h hi.st, hr]
  by_cases hc : s ≤ (pend h bl).1.length ∨ (pend h bl).2 = .eof
  · simp only [hc, if_true]
    refine ⟨fun e l x => (by cases x), ⟨fun ⟨l, x⟩ => (by cases x), fun ⟨x, y⟩ => ?_⟩⟩
    rcases hc with hc | hc
    · omega
    · rw [hc] at x; cases x
  · simp only [hc, if_false]
    refine ⟨fun e l x => (by injection x with x _; exact x.symm), ⟨fun _ => ?_, fun _ => ⟨_, rfl⟩⟩⟩
    have h1 : ¬ s ≤ (pend h bl).1.length := fun x => hc (Or.inl x)
    have h2 : (pend h bl).2 ≠ .eof := fun x => hc (Or.inr x)
    refine ⟨?_, by omega⟩
    cases hx : (pend h bl).2 with
    | eof => exact absurd hx h2
    | disorder => rfl

/-- The same at the start of an entry, in terms of the block list itself: the call
returns ARCHIVE_RETRY exactly when the offsets are not increasing / the blocks
overlap, and the buffer is larger than the dense image of the blocks before the
first offending one. -/
theorem retry_iff_disorder_fresh (h : H) (bl : List Block) (t : Option Int) (hf : Fresh h bl t)
    (hend : ∀ t', t = some t' → endCursor 0 bl ≤ t') (s : Nat) :
    (∃ l, (readData h s).1 = .err .retry l) ↔ (¬ Ordered 0 bl ∧ (dense bl t).length < s) := by
  rw [(retry_iff_disorder h bl (hf.inv hend) s).2, hf.pend, ← image_eof_iff 0 bl t]
  unfold dense
  cases (image 0 bl t).2 <;> simp

/-- Non-vacuity: the second block overlaps the first. -/
example : (readData { state := .data, evs := [evOfBlock (0, [1, 2, 3]), evOfBlock (2, [9])] } 4).1
    = .err .retry [1, 2, 3] := by
  simp [readData, enterReadData, readLoop, step, fetch, dataBlock, store, padCopy, padLen, evOfBlock]
example : (readData { state := .data, evs := [evOfBlock (0, [1, 2, 3]), evOfBlock (2, [9])] } 3).1
    = .ok [1, 2, 3] := by
  simp [readData, enterReadData, readLoop, step, fetch, dataBlock, store, padCopy, padLen, evOfBlock]

/-! ### Progress -/

/-- **Callers' loops terminate.**  For every handle and script: a call with a
non-empty buffer that returns 0 has used up at least one scripted result, or the
script is already at its end-of-data terminal.  (Otherwise it returns at least
one byte or a negative status.) -/
theorem read_data_progress (h : H) (s : Nat) (hs : 1 ≤ s) (h' : H)
    (hr : readData h s = (.ok [], h')) :
    h'.evs.length < h.evs.length ∨ (h.evs = [] ∧ h.term.st = .eof) := by
  have := readLoop_progress (enterReadData h) s [] hs
  unfold readData at hr
  rw [hr] at this
  have he : (enterReadData h).evs = h.evs ∧ (enterReadData h).term = h.term := by
    unfold enterReadData; split <;> exact ⟨rfl, rfl⟩
  rw [he.1, he.2] at this
  rcases this with ⟨e, l, x⟩ | x | x | x
  · cases x
  · simp [Ret.written] at x
  · left; exact x
  · right; exact x

set_option maxRecDepth 4096 in
example : (readData { state := .data, evs := [evOfBlock (0, [])] } 5).1 = .ok [] := by
  simp [readData, enterReadData, readLoop, step, fetch, dataBlock, store, padCopy, padLen, evOfBlock, TSt.toSt]

/-! ### Skipping and the next header -/

/-- **`skip_then_header_eq_read_then_header`.**  On an error-free body, whatever was
read before (any number of `archive_read_data` calls with any buffer sizes,
`archive_read_data_block` calls, in any mix):
* `archive_read_data_skip` succeeds, leaves nothing of the body's script and the
  same script position as skipping at once;
* `_archive_read_next_header2` returns the same status and leaves the complete
  handle in the same state as if nothing had been read, with or without an
  explicit skip in between. -/
theorem skip_then_header_eq_read_then_header (h : H) (he : ErrFree h) (hk : HookOk h) (acts : List Act) :
    (dataSkip (runActs h acts)).1 = .ok ∧
    (dataSkip (runActs h acts)).2.evs = [] ∧
    (dataSkip (runActs h acts)).2.evpos = (dataSkip h).2.evpos ∧
    nextHeader (runActs h acts) = nextHeader h ∧
    nextHeader (dataSkip (runActs h acts)).2 = nextHeader h := by
  have f := runActs_frame h acts
  have e1 := dataSkip_clean (he.frame f) (hk.frame f)
  have e2 := dataSkip_clean he hk
  refine ⟨by rw [e1], by rw [e1]; rfl, by rw [e1, e2]; exact f.pos, ?_, ?_⟩
  · exact nextHeader_consume he hk { acts := acts, skip := false }
  · exact nextHeader_consume he hk { acts := acts, skip := true }

/-- Non-vacuity: an error-free body with a hole, no skip hook. -/
example : ErrFree { state := .data, evs := [evOfBlock (0, [1]), evOfBlock (5, [2, 3])] } ∧
    HookOk { state := .data, evs := [evOfBlock (0, [1]), evOfBlock (5, [2, 3])] } :=
  ⟨⟨rfl, ⟨[(0, [1]), (5, [2, 3])], rfl⟩, rfl⟩, Or.inl rfl⟩

/-- **Every body starts from a clean slate.**  Whatever was done with the previous
body (`Boundary`: nothing yet, anything inside an error-free body, an explicit
skip), the header of a well-formed entry is returned with status OK and the
`read_data_*` members reset, so that the dense-image theorems above apply to it
(`Fresh`). -/
theorem next_header_starts_fresh (h : H) (hb : Boundary h) (e : Entry) (rest : List Entry)
    (hg : h.entries = e :: rest) (hc : CleanEntry e) (bl : List Block) (hbl : e.evs = bl.map evOfBlock) :
    (nextHeader h).1 = .ok ∧ (nextHeader h).2.entryObj = some (h.nread, e.size) ∧
    Fresh (nextHeader h).2 bl e.term.off := by
  have key : ∀ g : H, g.entries = e :: rest → g.nread = h.nread →
      (headerStep g).1 = .ok ∧ (headerStep g).2.entryObj = some (h.nread, e.size) ∧
      Fresh (headerStep g).2 bl e.term.off := by
    intro g hge hnr
    refine ⟨(headerStep_clean hge hc).1, ?_, headerStep_fresh hge hc.1 hbl hc.2.2.1⟩
    unfold headerStep headerRest readHeader
    simp only [hge, hc.1, hnr]
  rcases hb with hs | ⟨he, hk⟩
  · rw [nextHeader_header hs]; exact key _ hg rfl
  · rw [nextHeader_data he hk]; exact key _ hg rfl

/-- **Headers do not depend on how bodies are consumed.**  For an archive all of
whose entries are well-formed, two clients that consume the bodies in any two
ways (per entry: any reads with any buffer sizes, zero-copy block reads, nothing
at all, an explicit skip or not) see, at every `archive_read_next_header` call,
the same status and the same complete handle state — so the same entry, and the
same bytes for whatever either of them reads from that entry. -/
theorem headers_independent_of_consumption (h : H) (hb : Boundary h)
    (hc : ∀ e ∈ h.entries, CleanEntry e) (cs₁ cs₂ : List Consumption)
    (hl : cs₁.length = cs₂.length) (hn : cs₁.length ≤ h.entries.length) :
    session h cs₁ = session h cs₂ :=
  session_eq cs₁ cs₂ h h hl hn rfl hc hb hb rfl

/-- Non-vacuity: a freshly opened archive of two well-formed entries (one with a
trailing hole and a skip hook) satisfies the hypotheses; hence reading the first
body in 1-byte pieces and block-reading then skipping the second shows the same
headers as touching nothing. -/
example :
    let es : List Entry := [{ size := 4, evs := [evOfBlock (1, [7])], term := { off := some 4 }, hook := some .ok },
                            { size := 2, evs := [evOfBlock (0, [8, 9])] }]
    session (openH es) [{ acts := [.read 1, .read 1, .read 1, .read 1, .read 1] }, { acts := [.block], skip := true }]
      = session (openH es) [{}, {}] := by
  intro es
  refine headers_independent_of_consumption _ (Or.inl rfl) ?_ _ _ (by rfl) (by simp [es, openH])
  intro e he
  simp only [es, openH, List.mem_cons, List.mem_nil_iff, or_false] at he
  rcases he with rfl | rfl
  · exact ⟨rfl, ⟨[(1, [7])], rfl⟩, rfl, Or.inr (Or.inl rfl)⟩
  · exact ⟨rfl, ⟨[(0, [8, 9])], rfl⟩, rfl, Or.inl rfl⟩

end LA.C06
