/-
C12 — disk -> archive -> disk reproduces the tree.
Property theorems over `LA.Tree` (lean/LA/Model/Tree.lean).
-/
import LA.Lemmas.TreeLnk
import LA.Lemmas.TreeSort
namespace LA.C12
open LA.Tree

/-- `bsdtar -t` lists exactly the captured names, in capture order. -/
theorem list_eq_capture_paths (es : List Entry) (h : LinkOk es) (hn : ∀ e ∈ es, e.hardlink = none) :
    listing (linkify .tar es) = es.map (·.path) := by
  rw [linkify_tar_eq es h hn]
  exact tarSpec_paths es

end LA.C12
