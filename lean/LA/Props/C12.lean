/-
C12 — disk -> archive -> disk reproduces the tree.

Property theorems over `LA.Tree` (lean/LA/Model/Tree.lean): the walk of
archive_read_disk (`capture`), the C17 link resolver (`linkify`), an abstract POSIX
tree, and archive_write_disk with deferred directory fix-ups (`restore`).  Helper
lemmas live in LA/Lemmas/Tree*.lean.
-/
import LA.Lemmas.TreeFinal
set_option linter.unusedSimpArgs false
set_option linter.unusedVariables false
namespace LA.C12
open LA.Tree

/-! ### witnesses used by the `example`s -/

def tm (s : Int) : Time := ⟨s, 500⟩
def fileA : Inode := { ino := 10, nlink := 2, ftype := .reg, md := ⟨0o444, tm 7⟩, payload := .data ⟨3, 1, [(0, 3)]⟩ }
def linkB : Inode := { ino := 11, nlink := 1, ftype := .lnk, md := ⟨0o777, tm 8⟩, payload := .target [46, 46] }
/-- `.`(0755) ⊃ `a`(0555) ⊃ {`x` (file, 2 links), `d`(0700, empty)}, `b` = second link of `a/x`,
`c`(0777) ⊃ `s` (symlink). -/
def sample : Node :=
  .dir ⟨0o755, tm 1⟩
    (.cons [97] (.dir ⟨0o555, tm 2⟩ (.cons [120] (.leaf fileA) (.cons [100] (.dir ⟨0o700, tm 9⟩ .nil) .nil)))
    (.cons [98] (.leaf fileA)
    (.cons [99] (.dir ⟨0o777, tm 3⟩ (.cons [115] (.leaf linkB) .nil)) .nil)))

/-! ### the walk -/

/-- **Each object of the tree is visited exactly once**: whatever the `readdir` order, the entries
`archive_read_disk` hands out are a permutation of the tree's objects, and (sibling names being
distinct) no path comes twice. -/
theorem capture_visits_once (t : Node) (h : t.namesOk = true) :
    (capture t).Perm (t.objects []) ∧ ((capture t).map (·.path)).Nodup :=
  ⟨capture_perm_objects t, capture_paths_nodup t h⟩

example : sample.namesOk = true ∧ (capture sample).length = 7 := by decide

/-- A directory is handed out before anything below it. -/
theorem capture_parents_first (m : Meta) (cs : Forest) :
    ParentsOk [[]] ((capture (.dir m cs)).drop 1) := by
  simpa [capture] using capture_parents m cs

/-! ### capture -> linkify -> restore -/

/-- **Disk → archive → disk is the identity on trees** (tar link strategy, "matching
options": permissions and times restored by the owner).  For every finite tree with
consistent hard-link groups, every `readdir` order, every umask, for root and for a
non-root user extracting into a directory he may write: every entry is restored without
error and the result has the same names, and per name the same type and content, mode
and mtime — including read-only and unsearchable directories and the mtimes of
directories — and the same hard-link structure. -/
theorem restore_capture_id (t : Node) (ht : TreeOk t) (o : Opts) (ho : OptsOk o) (dstMode : Nat)
    (hdst : o.root = true ∨ (dstMode &&& 0o200 ≠ 0 ∧ dstMode &&& 0o100 ≠ 0)) :
    (∀ s ∈ (restore o dstMode (linkify .tar (capture t))).2, s = .ok) ∧
      SameTree (restore o dstMode (linkify .tar (capture t))).1 (toFS t) :=
  restore_capture_same t ht o ho dstMode hdst

end LA.C12
