/-
C12 — disk -> archive -> disk reproduces the tree.

Property theorems over `LA.Tree` (lean/LA/Model/Tree.lean): the walk of
archive_read_disk (`capture`), the C17 link resolver (`linkify`), an abstract POSIX
tree, and archive_write_disk with deferred directory fix-ups (`restore`).  Helper
lemmas live in LA/Lemmas/Tree*.lean.
-/
import LA.Lemmas.TreeFinal
set_option linter.unusedSimpArgs false
set_option linter.unusedVariables false
namespace LA.C12
open LA.Tree

/-! ### witnesses used by the `example`s -/

def tm (s : Int) : Time := ⟨s, 500⟩
def fileA : Inode := { ino := 10, nlink := 2, ftype := .reg, md := ⟨0o444, tm 7⟩, payload := .data ⟨3, 1, [(0, 3)]⟩ }
def linkB : Inode := { ino := 11, nlink := 1, ftype := .lnk, md := ⟨0o777, tm 8⟩, payload := .target [46, 46] }
/-- `.`(0755) ⊃ `a`(0555) ⊃ {`x` (file, 2 links), `d`(0700, empty)}, `b` = second link of `a/x`,
`c`(0777) ⊃ `s` (symlink). -/
def sample : Node :=
  .dir ⟨0o755, tm 1⟩
    (.cons [97] (.dir ⟨0o555, tm 2⟩ (.cons [120] (.leaf fileA) (.cons [100] (.dir ⟨0o700, tm 9⟩ .nil) .nil)))
    (.cons [98] (.leaf fileA)
    (.cons [99] (.dir ⟨0o777, tm 3⟩ (.cons [115] (.leaf linkB) .nil)) .nil)))

/-! ### the walk -/

/-- **Each object of the tree is visited exactly once**: whatever the `readdir` order, the entries
`archive_read_disk` hands out are a permutation of the tree's objects, and (sibling names being
distinct) no path comes twice. -/
theorem capture_visits_once (t : Node) (h : t.namesOk = true) :
    (capture t).Perm (t.objects []) ∧ ((capture t).map (·.path)).Nodup :=
  ⟨capture_perm_objects t, capture_paths_nodup t h⟩

example : sample.namesOk = true ∧ (capture sample).length = 7 := by decide

/-- A directory is handed out before anything below it. -/
theorem capture_parents_first (m : Meta) (cs : Forest) :
    ParentsOk [[]] ((capture (.dir m cs)).drop 1) := by
  simpa [capture] using capture_parents m cs

/-! ### capture -> linkify -> restore -/

/-- **Disk → archive → disk is the identity on trees** (tar link strategy, "matching
options": permissions and times restored by the owner).  For every finite tree with
consistent hard-link groups, every `readdir` order, every umask, for root and for a
non-root user extracting into a directory he may write: every entry is restored without
error and the result has the same names, and per name the same type and content, mode
and mtime — including read-only and unsearchable directories and the mtimes of
directories — and the same hard-link structure. -/
theorem restore_capture_id (t : Node) (ht : TreeOk t) (o : Opts) (ho : OptsOk o) (dstMode : Nat)
    (hdst : o.root = true ∨ (dstMode &&& 0o200 ≠ 0 ∧ dstMode &&& 0o100 ≠ 0)) :
    (∀ s ∈ (restore o dstMode (linkify .tar (capture t))).2, s = .ok) ∧
      SameTree (restore o dstMode (linkify .tar (capture t))).1 (toFS t) :=
  restore_capture_same t ht o ho dstMode hdst

/-- `TreeOk` holds of the sample tree (read-only directory, a hard-link group spanning two
directories, an empty directory, a symlink). -/
example : TreeOk sample :=
  { isDir := ⟨_, _, rfl⟩, names := by decide, leaves := by decide, modes := by decide,
    links := by decide, counts := by decide }

/-- The hypotheses of `restore_capture_id` are satisfiable by a tree with a read-only
directory, a hard-link group spanning two directories, an empty directory and a symlink;
on it the model computes what the theorem says, as root and as a non-root user. -/
example : sample.namesOk = true ∧ (∃ m cs, sample = .dir m cs) ∧
    (∀ e ∈ capture sample, e.mode < 4096) ∧
    (restore { root := false, umask := 0o077 } 0o700 (linkify .tar (capture sample))).2.all (· == .ok) = true := by
  refine ⟨by decide, ⟨_, _, rfl⟩, by decide, by decide⟩

/-! ### deferred directory fix-ups -/

/-- **Fix-ups after children.**  When a captured tree is restored, `archive_write_close` runs the
fix-up loop only after every entry has been restored (`restore` = entry phase, then
`closeDisk`), every directory of the tree has a fix-up carrying its archived mode and mtime,
and in the order `sort_dir_list` produces the fix-up of a directory comes after the fix-ups of
all directories below it.  (Together with the kernel model — creating a child touches the
parent's mtime, a non-root caller needs search permission on the way — this is why read-only
directories still receive their children and why directory mtimes survive:
`restore_capture_id`.) -/
theorem fixups_after_children (t : Node) (ht : TreeOk t) (o : Opts) (ho : OptsOk o) (dstMode : Nat)
    (hdst : o.root = true ∨ (dstMode &&& 0o200 ≠ 0 ∧ dstMode &&& 0o100 ≠ 0))
    (d c : Entry) (hd : d ∈ capture t) (hc : c ∈ capture t) (hdd : d.ftype = .dir) (hcd : c.ftype = .dir)
    (n : Name) (r : Path) (hbelow : c.path = d.path ++ n :: r) :
    let w := (restoreAll o (emptyDst dstMode) (linkify .tar (capture t))).1
    ∃ fd fc a b z, fd.path = d.path ∧ fd.mode = d.mode ∧ fd.mtime = d.mtime ∧ fd.doTimes = true ∧
      fc.path = c.path ∧ fc.mode = c.mode ∧ fc.mtime = c.mtime ∧ fc.doTimes = true ∧ fc.doMode = true ∧
      sortDir w.fixups = a ++ fc :: b ++ fd :: z :=
  fixups_order_of_restore t ht o ho dstMode hdst d c hd hc hdd hcd n r hbelow

/-- The order matters: applying the two fix-ups of `a/` (0555) and `a/d/` parent-first, a non-root
user can still fix `a/d` only because `a` keeps its search bit; with `a` = 0600 it fails, which is
what the sorted order avoids.  (A test on one tree, not a theorem.) -/
example :
    let fs : FS := [([], ⟨0, .dir, 0o700, none⟩), ([[97]], ⟨1, .dir, 0o700, none⟩), ([[97], [100]], ⟨2, .dir, 0o700, none⟩)]
    let fa : Fixup := ⟨[[97]], 0o600, tm 1, true, true⟩
    let fd : Fixup := ⟨[[97], [100]], 0o500, tm 2, true, true⟩
    ((applyFixup { root := false } (applyFixup { root := false } fs fa) fd).lookup [[97], [100]]).map (·.mode) = some 0o700 ∧
    ((applyFixup { root := false } (applyFixup { root := false } fs fd) fa).lookup [[97], [100]]).map (·.mode) = some 0o500 := by
  decide

/-! ### listing -/

/-- **`bsdtar -t` lists exactly the objects archived**: the names printed for the archive written
from a captured tree are the captured paths, in capture order — hence (with
`capture_visits_once`) each object of the tree exactly once. -/
theorem list_eq_capture (t : Node) (ht : TreeOk t) :
    listing (linkify .tar (capture t)) = (capture t).map (·.path) ∧
      (listing (linkify .tar (capture t))).Perm ((t.objects []).map (·.path)) := by
  have hes := entriesOk_of_treeOk ht
  have h1 : listing (linkify .tar (capture t)) = (capture t).map (·.path) := by
    rw [linkify_tar_eq _ hes.linkOk hes.fresh]
    exact tarSpec_paths _
  exact ⟨h1, h1 ▸ (capture_perm_objects t).map _⟩

example : listing (linkify .tar (capture sample)) =
    [[], [[97]], [[98]], [[99]], [[99], [115]], [[97], [120]], [[97], [100]]] := by decide

/-! ### cpio: the full statement is false of the code as it is -/

/-- The same statement for the cpio pipeline (`bsdcpio -o | bsdcpio -i`). -/
def CpioRoundTrip : Prop :=
  ∀ (t : Node), TreeOk t → ∀ (o : Opts), OptsOk o → ∀ (dstMode : Nat),
    (o.root = true ∨ (dstMode &&& 0o200 ≠ 0 ∧ dstMode &&& 0o100 ≠ 0)) →
    ∀ s ∈ (restore o dstMode (cpioArchive .newCpio (capture t))).2, s = .ok

def roFile : Inode := { ino := 10, nlink := 2, ftype := .reg, md := ⟨0o444, tm 7⟩, payload := .data ⟨3, 1, [(0, 3)]⟩ }
/-- `.` ⊃ {`a`, `b`}: two names of one read-only file. -/
def roLinks : Node := .dir ⟨0o755, tm 1⟩ (.cons [97] (.leaf roFile) (.cons [98] (.leaf roFile) .nil))

theorem roLinks_ok : TreeOk roLinks :=
  { isDir := ⟨_, _, rfl⟩, names := by decide, leaves := by decide, modes := by decide,
    links := by decide, counts := by decide }

/-- Witness (known finding `cpio-readonly-hardlink-nonroot`): a non-root user restoring two
names of a read-only file from a new-cpio archive — the body comes with the last name, the
file was already created empty with mode 0444, `open(O_WRONLY|O_TRUNC)` is refused. -/
theorem cpio_round_trip_false : ¬ CpioRoundTrip := by
  intro h
  have := h roLinks roLinks_ok { root := false } ⟨rfl, rfl, rfl⟩ 0o755 (Or.inr (by decide))
  revert this
  decide

/-- Without hard links the cpio pipeline hands the entries through unchanged, so
`restore_capture_id` covers it. -/
theorem cpio_partial_no_links (es : List Entry) (st : Lnk.Strategy)
    (h1 : ∀ e ∈ es, e.ftype ≠ .dir → e.nlink = 1)
    (h2 : ∀ e ∈ es, e.hardlink = none ∧ e.sizeSet = true)
    (h3 : ∀ e ∈ es, e.size = e.payload.size ∧ (e.ftype ≠ .reg → e.size = 0)) :
    (cpioArchive st es).map (·.path) = es.map (·.path) ∧ ∀ e ∈ cpioArchive st es, e.hardlink = none :=
  cpioArchive_no_links es st h1 h2 h3

end LA.C12
