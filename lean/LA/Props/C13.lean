/-
C13 — Independent handles can be used from different threads.

* `independent_commute` (+ `interleaving_eq_sequential`, `handle_alone`): if every call is a function of
  its own handle's state and of shared state that no call writes, every interleaving of the calls of any
  number of handles gives each handle the same states and results as any other interleaving with the same
  per-handle sequences — in particular as "one handle after the other".  `shared_counter_not_commute` shows
  the hypothesis is needed (the tar reader's former process-wide inode counter).
* `shared_inventory_closed`, `process_wide_closed`, `arc4random_locked`: the premise of the first theorem is
  tied to the C by the inventory of writable static objects extracted from the freshly compiled objects
  (`LA.Gen.Statics`): every such object is in the reviewed classification, the only process-wide libc
  state touched is the documented umask/chdir (in the disk reader/writer only), the only mutex-protected
  state is taken under its lock.  These are `decide` over generated lists: a new static, a moved one, a
  dropped lock call makes them false until the review table is updated.
* `NoRacyStatics` is false of the current tree (`no_racy_statics_false`): `archive_version_details()`;
  `no_racy_statics_partial` says that is the only one.  `benign_statics` lists the unsynchronised but
  idempotent initialisations.
* Lazy initialisation, small-step, all schedules, any number of threads: `fillThenFlag_safe`,
  `idempotentFill_safe` (from `lazy_init_safe`); `FlagFirstSafe` is false (`flagFirst_unsafe`, explicit
  schedule: the lha CRC-16 table before the repair) and so is the sentinel-and-wipe idiom of the tar
  base64 table before the repair (`sentinelWipe_unsafe`, a concrete instance checked by evaluation).
-/
import LA.Model.Shared
import LA.Model.Handles
import LA.Lemmas.LazyInit
import LA.Lemmas.Handles
namespace LA.C13
open LA.Shared LA.Handles LA.LazyInit

/-! ## Non-interference -/

section commute
variable {H Sh σ ρ : Type} [DecidableEq H]

/-- Under read-only sharing a trace acts on each handle as that handle's calls alone. -/
theorem handle_alone (tr : List (H × Op Sh σ ρ)) (w : World H Sh σ ρ) (hro : ∀ e ∈ tr, e.2.ReadOnly) :
    (w.run tr).shared = w.shared ∧
    ∀ h, ((w.run tr).st h, (w.run tr).out h) = alone w.shared (w.st h, w.out h) (proj h tr) := by
  induction tr generalizing w with
  | nil => exact ⟨rfl, fun h => rfl⟩
  | cons e es ih =>
    have hsh : (w.exec e).shared = w.shared := hro e (by simp) w.shared (w.st e.1)
    obtain ⟨ih1, ih2⟩ := ih (w.exec e) (fun x hx => hro x (by simp [hx]))
    refine ⟨by simpa [World.run, hsh] using ih1, fun h => ?_⟩
    have := ih2 h
    simp only [World.run]
    rw [this, hsh]
    by_cases hh : e.1 = h
    · subst hh
      simp [proj, World.exec, upd, alone]
    · have hh' : ¬ h = e.1 := fun x => hh x.symm
      simp [proj, World.exec, upd, hh, hh']

/-- **Independent handles commute.**  Any two orders in which the calls of any number of handles take
effect, with the same calls per handle, leave every handle in the same state with the same results. -/
theorem independent_commute (tr₁ tr₂ : List (H × Op Sh σ ρ)) (w : World H Sh σ ρ)
    (h₁ : ∀ e ∈ tr₁, e.2.ReadOnly) (h₂ : ∀ e ∈ tr₂, e.2.ReadOnly)
    (hp : ∀ h, proj h tr₁ = proj h tr₂) :
    ∀ h, (w.run tr₁).st h = (w.run tr₂).st h ∧ (w.run tr₁).out h = (w.run tr₂).out h := by
  intro h
  have a := (handle_alone tr₁ w h₁).2 h
  have b := (handle_alone tr₂ w h₂).2 h
  rw [hp h] at a
  have := a.trans b.symm
  exact ⟨congrArg Prod.fst this, congrArg Prod.snd this⟩

/-- Two handles: every interleaving of `xs` (on `a`) and `ys` (on `b`) behaves as `xs` then `ys`. -/
theorem interleaving_eq_sequential {a b : H} (hab : a ≠ b) (xs ys : List (Op Sh σ ρ))
    (tr : List (H × Op Sh σ ρ)) (w : World H Sh σ ρ)
    (hro : ∀ e ∈ tr, e.2.ReadOnly) (ha : proj a tr = xs) (hb : proj b tr = ys)
    (honly : ∀ e ∈ tr, e.1 = a ∨ e.1 = b) :
    ∀ h, (w.run tr).st h = (w.run (oneAfterTheOther a b xs ys)).st h ∧
         (w.run tr).out h = (w.run (oneAfterTheOther a b xs ys)).out h := by
  have hmem : ∀ o, (o ∈ xs ∨ o ∈ ys) → o.ReadOnly := by
    intro o ho
    rcases ho with ho | ho
    · rw [← ha] at ho
      simp only [proj, List.mem_map, List.mem_filter] at ho
      obtain ⟨e, ⟨he, _⟩, rfl⟩ := ho
      exact hro e he
    · rw [← hb] at ho
      simp only [proj, List.mem_map, List.mem_filter] at ho
      obtain ⟨e, ⟨he, _⟩, rfl⟩ := ho
      exact hro e he
  apply independent_commute tr _ w hro
  · intro e he
    simp only [oneAfterTheOther, List.mem_append, List.mem_map] at he
    rcases he with ⟨o, ho, rfl⟩ | ⟨o, ho, rfl⟩
    · exact hmem o (Or.inl ho)
    · exact hmem o (Or.inr ho)
  · intro h
    by_cases h1 : h = a
    · subst h1; rw [ha, proj_oneAfterTheOther_left hab]
    · by_cases h2 : h = b
      · subst h2; rw [hb, proj_oneAfterTheOther_right hab]
      · have e1 : proj h tr = [] := by
          simp only [proj, List.map_eq_nil_iff, List.filter_eq_nil_iff]
          intro e he
          rcases honly e he with x | x <;> simp [x, Ne.symm h1, Ne.symm h2]
        have e2 : proj h (oneAfterTheOther a b xs ys) = [] := by
          simp [proj, oneAfterTheOther, List.filter_append, List.filter_map, Function.comp_def,
            Ne.symm h1, Ne.symm h2]
        rw [e1, e2]

end commute

/-- Non-vacuity of `interleaving_eq_sequential`: a trace of two handles with read-only calls. -/
example :
    let tr : List (Fin 2 × Op Nat Nat Nat) := [(0, ⟨fun sh s => (s + 1, s + sh, sh)⟩), (1, ⟨fun sh s => (s + 1, s + sh, sh)⟩)]
    (∀ e ∈ tr, e.2.ReadOnly) ∧ (∀ e ∈ tr, e.1 = 0 ∨ e.1 = 1) := by
  refine ⟨fun e he => ?_, fun e he => ?_⟩
  · simp only [List.mem_cons, List.not_mem_nil, or_false] at he
    rcases he with rfl | rfl <;> exact fun _ _ => rfl
  · simp only [List.mem_cons, List.not_mem_nil, or_false] at he
    rcases he with rfl | rfl <;> simp

/-- A call in the style of the tar reader's former `static int default_inode`: the result is the shared
counter, which the call increments. -/
def nextInode : Op Nat Unit Nat := ⟨fun sh _ => ((), sh + 1, sh + 1)⟩

/-- A read-only call for the non-vacuity examples: result = own state + shared constant. -/
def peek : Op Nat Nat Nat := ⟨fun sh s => (s + 1, s + sh, sh)⟩

example : peek.ReadOnly := fun _ _ => rfl

example : ¬ nextInode.ReadOnly := fun h => by
  have := h 0 ()
  simp [nextInode] at this

/-- **The hypothesis is needed**: with a shared counter two orders of the same calls give handle 0
different results (1 or 2). -/
theorem shared_counter_not_commute :
    let w : World (Fin 2) Nat Unit Nat := ⟨0, fun _ => (), fun _ => []⟩
    (∀ h, proj h [((0 : Fin 2), nextInode), (1, nextInode)] = proj h [((1 : Fin 2), nextInode), (0, nextInode)]) ∧
    (w.run [(0, nextInode), (1, nextInode)]).out 0 ≠ (w.run [(1, nextInode), (0, nextInode)]).out 0 := by
  refine ⟨fun h => ?_, by decide⟩
  match h with
  | 0 => rfl
  | 1 => rfl

example :
    let w : World (Fin 2) Nat Nat Nat := ⟨7, fun _ => 0, fun _ => []⟩
    (w.run [(0, peek), (1, peek), (0, peek)]).out 0 = (w.run (oneAfterTheOther 0 1 [peek, peek] [peek])).out 0 := by
  decide

/-! ## The inventory of shared state -/

/-- **Every mutable static of the current build is reviewed.** -/
theorem shared_inventory_closed : inventoryClosed = true := by decide

/-- Process-wide libc state: only the documented umask/chdir exceptions (and libc-locked tzset), and the
exceptions are called from the disk reader/writer only. -/
theorem process_wide_closed : processWideClosed = true ∧ exceptionsConfined = true := by decide

/-- The arc4random fallback state is only touched below a function that holds `arc4random_mtx` from its
first to its last statement, and the lock macros are real (HAVE_PTHREAD_H). -/
theorem arc4random_locked : mutexDiscipline = true ∧ mutexEntriesConfined = true := by decide

/-- The recorded findings: static objects accessed without synchronisation with interleaving-dependent
outcome (known_findings.json: C13-version-details). -/
def knownRacy : List Key := [("archive_version_details.c", "init"), ("archive_version_details.c", "str")]

/-- Unsynchronised but idempotent (known_findings.json: C13-benign-lazy-init). -/
def knownBenign : List Key := [
  ("archive_read_disk_posix.c", "can_dupfd_cloexec"),
  ("archive_time.c", "dos_initialised"), ("archive_time.c", "dos_max_unix"), ("archive_time.c", "dos_min_unix"),
  ("archive_crc32.h", "crc_tbl"), ("archive_crc32.h", "crc_tbl_inited")]

/-- Full strength: no static object of the library is accessed racily. -/
def NoRacyStatics : Prop := racyKeys = []

/-- False of the current tree. -/
theorem no_racy_statics_false : ¬ NoRacyStatics := by unfold NoRacyStatics; decide

/-- **Except for the recorded findings every compiled static object is immutable, mutex-protected or
idempotently initialised.** -/
theorem no_racy_statics_partial :
    racyKeys = knownRacy ∧
    ∀ k ∈ builtKeys, k ∉ knownRacy →
      classOf k = some .immutableAfterLoad ∨ classOf k = some .mutexProtected ∨ classOf k = some .idempotentInit := by
  decide

theorem benign_statics : benignKeys = knownBenign := by decide

/-- The `done` flags of the idempotently initialised tables (`dos_initialised`, `crc_tbl_inited`) are
stored after the last store to the objects they guard — the C has the fill-then-flag shape that
`fillThenFlag_safe` is about, not the flag-first shape of `flagFirst_race`. -/
theorem idempotent_init_flag_last : flagsStoredLast = true := by decide

example : ("archive_time.c", "dos_max_unix") ∈ builtKeys ∧ classOf ("archive_time.c", "dos_max_unix") = some .idempotentInit := by
  decide

/-! ## Lazy initialisation, all interleavings -/

/-- **Any pool of well-formed initialisers**: whatever the schedule, every value any thread has looked up is
the value of the final table (`none` for a slot outside it). -/
theorem lazy_init_safe (f : Nat → Nat) (n : Nat) (ts : List Thread) (hwf : ∀ t ∈ ts, WellFormed f n t)
    (sched : List Nat) :
    ∀ t ∈ ((start n ts).run sched).thr, ∀ p ∈ t.obs, p.2 = (final f n)[p.1]? :=
  fun t ht => ((run_inv sched (start_inv hwf)).2 t ht).obsOk

/-- **Every reader gets the final table**: once a thread of a well-formed pool has finished, what it
observed is exactly the final table at each slot it looked up, in order — whatever the other threads did
and whatever the schedule was. -/
theorem finished_sees_final_table (f : Nat → Nat) (n : Nat) (ts : List Thread) (hwf : ∀ t ∈ ts, WellFormed f n t)
    (sched : List Nat) (k : Nat) (t0 t : Thread) (h0 : ts[k]? = some t0)
    (ht : ((start n ts).run sched).thr[k]? = some t) (hdone : t.init = [] ∧ t.use = []) :
    t.obs = (pending t0.use).map (fun j => (j, (final f n)[j]?)) := by
  have hobs := lazy_init_safe f n ts hwf sched t (List.mem_of_getElem? ht)
  have htr := (run_tracks sched (start_tracks hwf)).2 k t0 t h0 ht
  have hfst : t.obs.map Prod.fst = pending t0.use := by
    have := htr.2
    rw [hdone.2] at this
    simpa [pending] using this
  rw [← hfst]
  exact obs_eq_of_ok t.obs hobs

/-- `if (!init) { fill; init = 1; }` (dos_*, crc_tbl): safe for every number of threads and every schedule. -/
theorem fillThenFlag_safe (f : Nat → Nat) (n : Nat) (jss : List (List Nat)) (sched : List Nat) :
    ∀ t ∈ ((start n (jss.map (fillThenFlag f n))).run sched).thr, ∀ p ∈ t.obs, p.2 = (final f n)[p.1]? :=
  lazy_init_safe f n _ (by
    intro t ht
    obtain ⟨js, _, rfl⟩ := List.mem_map.mp ht
    exact wf_fillThenFlag f n js) sched

/-- Unconditional fill with identical values: safe likewise. -/
theorem idempotentFill_safe (f : Nat → Nat) (n : Nat) (jss : List (List Nat)) (sched : List Nat) :
    ∀ t ∈ ((start n (jss.map (idempotentFill f n))).run sched).thr, ∀ p ∈ t.obs, p.2 = (final f n)[p.1]? :=
  lazy_init_safe f n _ (by
    intro t ht
    obtain ⟨js, _, rfl⟩ := List.mem_map.mp ht
    exact wf_idempotentFill f n js) sched

/-- Non-vacuity: a schedule in which the second thread skips on the flag and both look-ups happen. -/
example :
    ((start 2 [fillThenFlag (· + 5) 2 [1], fillThenFlag (· + 5) 2 [0]]).run [0, 0, 0, 0, 1, 1, 0]).thr.map (·.obs)
      = [[(1, some 6)], [(0, some 5)]] := by decide

/-- … and in that schedule both threads have finished (the hypothesis of `finished_sees_final_table`). -/
example :
    let s := (start 2 [fillThenFlag (· + 5) 2 [1], fillThenFlag (· + 5) 2 [0]]).run [0, 0, 0, 0, 1, 1, 0]
    s.finished 0 = true ∧ s.finished 1 = true ∧ (s.thr.map (·.sawFlag)) = [false, true] := by decide

/-- Full-strength statement for the flag-first idiom. -/
def FlagFirstSafe : Prop :=
  ∀ (f : Nat → Nat) (n : Nat) (jss : List (List Nat)) (sched : List Nat),
    ∀ t ∈ ((start n (jss.map (flagFirst f n))).run sched).thr, ∀ p ∈ t.obs, p.2 = (final f n)[p.1]?

/-- **Flag first is wrong** (`lha_crc16_init` before the repair): for every table size, every slot `j` whose
final value is not the `.bss` zero, the schedule "A tests and sets the flag; B tests it, skips, looks up `j`"
makes B observe the flag set and an unfilled slot. -/
theorem flagFirst_race (f : Nat → Nat) (n j : Nat) (hj : j < n) (hf : f j ≠ 0) :
    let s := (start n [flagFirst f n [j], flagFirst f n [j]]).run [0, 0, 1, 1]
    ∃ t, s.thr[1]? = some t ∧ t.sawFlag = true ∧ t.obs = [(j, some 0)] ∧ some 0 ≠ (final f n)[j]? := by
  intro s
  refine ⟨{ init := [], use := [], sawFlag := true, obs := [(j, some 0)] }, ?_, rfl, rfl, ?_⟩
  · simp [s, start, bss, flagFirst, reads, Sys.run, Sys.step, stepThread, Mem.apply, observe, hj]
  · rw [final_get]; simp [hj]; exact fun h => hf h.symm

/-- The lha instance: 256 slots, slot 1 of `crc16tbl[0]` is 0xC0C1 ≠ 0. -/
example : (1 : Nat) < 256 ∧ (fun i => if i = 1 then 0xC0C1 else 0) 1 ≠ 0 := by decide

theorem flagFirst_unsafe : ¬ FlagFirstSafe := by
  intro h
  have := h (fun _ => 1) 1 [[0], [0]] [0, 0, 1, 1]
  revert this
  decide

/-- The tar `base64_decode` idiom before the repair, an instance (table of 2 slots, wipe value 255):
both threads pass the sentinel test, A initialises and is about to look up slot 1, B's `memset` wipes it.
Checked by evaluation of the model on this one schedule (a test of the model, not a general theorem). -/
theorem sentinelWipe_unsafe :
    let t := sentinelWipe (· + 1) 2 1 255 [1]
    ((wrun (List.replicate 2 0, [t, t]) [0, 1, 0, 0, 0, 0, 1, 1, 0]).2.map (·.obs))[0]? = some [(1, some 255)] := by
  decide

end LA.C13
