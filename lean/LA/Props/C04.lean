/-
C04 — Secure extraction never touches anything outside the target directory.

Part 1 (this section): the pathname editing.  `LA.PathClean.cleanup` is the
in-place model of `cleanup_pathname_fsobj`; `LA.PathClean.cleanSpec` is its
meaning on '/'-separated components; `LA.PathClean.stripAbsolute` is bsdtar's
`strip_absolute_path`.  Helper lemmas live in `LA/Lemmas/PathClean.lean`.
-/
import LA.Lemmas.PathClean
import LA.Lemmas.XtrConfine
import LA.Lemmas.XtrDemo
set_option linter.unusedSimpArgs false
namespace LA.C04
open LA.PathClean

/-- A C string: the bytes before the terminator. -/
def NulFree (p : List Nat) : Prop := ∀ x ∈ p, x ≠ 0
instance (p : List Nat) : Decidable (NulFree p) := by unfold NulFree; infer_instance

/-- `ARCHIVE_EXTRACT_SECURE_NODOTDOT | ARCHIVE_EXTRACT_SECURE_NOABSOLUTEPATHS`. -/
def secure : Flags := { nodotdot := true, noabs := true }

/-- The in-place C loop computes the component-level meaning, for every string
and every flag set. -/
theorem cleanup_meaning (f : Flags) (p : List Nat) (hp : NulFree p) : cleanup f p = cleanSpec f p :=
  cleanup_eq_spec f p hp

/-- If `cleanup_pathname_fsobj` returns ARCHIVE_OK under NODOTDOT|NOABSOLUTEPATHS
then the rewritten path `q` is relative; it is exactly "." or all its components
are non-empty and none is "." or ".."; and it is the lexical normalisation of the
input: its components are the input's components with the empty ones and the "."
ones dropped ("." when nothing is left). -/
theorem cleanup_sound (p q : List Nat) (hp : NulFree p) (h : cleanup secure p = .ok q) :
    q.head? ≠ some SLASH ∧
    ((q = [DOT] ∧ keep (splitSlash p) = []) ∨
     (splitSlash q = keep (splitSlash p) ∧
      ∀ c ∈ splitSlash q, c ≠ [] ∧ c ≠ [DOT] ∧ c ≠ [DOT, DOT])) := by
  rw [cleanup_eq_spec _ _ hp] at h
  unfold cleanSpec secure at h
  simp only [true_and] at h
  split at h
  · simp at h
  · split at h
    · simp at h
    · rename_i hne habs
      split at h
      · simp at h
      · rename_i hdd
        have habs' : ¬ p.head? = some SLASH := by simpa using habs
        rw [if_neg habs'] at h
        have hcl := split_clean p hp
        by_cases hk : keep (splitSlash p) = []
        · simp only [hk, joinSlash, if_true, Res.ok.injEq] at h
          subst h
          exact ⟨by decide, Or.inl ⟨rfl, hk⟩⟩
        · have hjn := keep_join_ne_nil _ hk
          rw [if_neg hjn] at h
          simp only [Res.ok.injEq] at h
          subst h
          have hsj : splitSlash (joinSlash (keep (splitSlash p))) = keep (splitSlash p) :=
            split_join _ hk (fun c hc x hx => (hcl c (keep_mem hc).1 x hx).2)
          refine ⟨?_, Or.inr ⟨hsj, ?_⟩⟩
          · -- first component is non-empty and has no '/'
            cases hkk : keep (splitSlash p) with
            | nil => exact absurd hkk hk
            | cons c K =>
              have hm : c ∈ keep (splitSlash p) := by rw [hkk]; simp
              obtain ⟨hc1, hc2, _⟩ := keep_mem hm
              cases c with
              | nil => exact absurd rfl hc2
              | cons x c' =>
                rw [join_eq_emit]
                simp only [List.cons_append, List.head?_cons, ne_eq, Option.some.injEq]
                exact (hcl _ hc1 x (by simp)).2
          · intro c hc
            rw [hsj] at hc
            obtain ⟨h1, h2, h3⟩ := keep_mem hc
            refine ⟨h2, h3, ?_⟩
            rintro rfl
            exact hdd ((any_isDotDot_iff _).mpr h1)

example : cleanup secure [97, 47, 46, 47, 47, 98, 47] = .ok [97, 47, 98] := by   -- "a/.//b/" ↦ "a/b"
  rw [cleanup_eq_spec _ _ (by decide)]; decide
example : cleanup secure [46, 47, 46] = .ok [DOT] := by                           -- "./." ↦ "."
  rw [cleanup_eq_spec _ _ (by decide)]; decide

/-- Refusals, for all strings: the empty path; under NOABSOLUTEPATHS every path
that starts with '/'; under NODOTDOT every path with a ".." component, however
it is spelled (see `dotdot_spelled`: at the start or after any '/', at the end or
before any '/'). -/
theorem cleanup_rejects (f : Flags) (p : List Nat) (hp : NulFree p) :
    (p = [] → cleanup f p = .failed .empty) ∧
    (f.noabs = true → p.head? = some SLASH → cleanup f p = .failed .absolute) ∧
    (f.nodotdot = true → [DOT, DOT] ∈ splitSlash p → ∃ w, cleanup f p = .failed w) := by
  rw [cleanup_eq_spec _ _ hp]
  refine ⟨?_, ?_, ?_⟩
  · rintro rfl; simp [cleanSpec]
  · intro h1 h2
    have : p ≠ [] := by rintro rfl; simp at h2
    simp [cleanSpec, this, h1, h2]
  · intro h1 h2
    unfold cleanSpec
    split
    · exact ⟨_, rfl⟩
    · split
      · exact ⟨_, rfl⟩
      · rw [if_pos ⟨h1, (any_isDotDot_iff _).mpr h2⟩]; exact ⟨_, rfl⟩

/-- The spelled form of `cleanup_rejects`: `a ++ ".." ++ b` with `a` empty or
ending in '/', `b` empty or starting with '/'. -/
theorem cleanup_rejects_dotdot (f : Flags) (a b : List Nat) (hf : f.nodotdot = true)
    (hp : NulFree (a ++ [DOT, DOT] ++ b))
    (ha : a = [] ∨ ∃ a', a = a' ++ [SLASH]) (hb : b = [] ∨ ∃ b', b = SLASH :: b') :
    ∃ w, cleanup f (a ++ [DOT, DOT] ++ b) = .failed w :=
  (cleanup_rejects f _ hp).2.2 hf (dotdot_spelled a b ha hb)

example : ∃ w, cleanup secure ([97, 47] ++ [DOT, DOT] ++ [47, 98]) = .failed w :=   -- "a/../b"
  cleanup_rejects_dotdot secure _ _ rfl (by decide) (Or.inr ⟨[97], rfl⟩) (Or.inr ⟨[98], rfl⟩)

/-- Nothing else is refused: a non-empty relative path without a ".." component
is accepted (so the entries that do not offend are restored). -/
theorem cleanup_accepts (p : List Nat) (hp : NulFree p) (h1 : p ≠ []) (h2 : p.head? ≠ some SLASH)
    (h3 : [DOT, DOT] ∉ splitSlash p) : ∃ q, cleanup secure p = .ok q := by
  rw [cleanup_eq_spec _ _ hp]
  unfold cleanSpec
  rw [if_neg h1, if_neg (by simp [h2]), if_neg (by rw [any_isDotDot_iff]; simp [h3]), if_neg h2]
  split <;> exact ⟨_, rfl⟩

/-- The C rewrites the string in place: the result is never longer than the input
(so the terminator is written inside the original block). -/
theorem cleanup_in_place (f : Flags) (p q : List Nat) (hp : NulFree p) (h : cleanup f p = .ok q) :
    q.length ≤ p.length := cleanup_len_le f p q hp h

/-- All reads and writes of `cleanup_pathname_fsobj` stay inside the
`strlen(path) + 1` bytes of the string. -/
theorem cleanup_no_oob (f : Flags) (p : List Nat) (hp : NulFree p) : cleanup f p ≠ .oob := by
  rw [cleanup_eq_spec _ _ hp]
  unfold cleanSpec
  dsimp only
  repeat' split
  all_goals simp

example : NulFree [47, 46, 46, 47, 97] ∧ cleanup ⟨false, false⟩ [47, 46, 46, 47, 97] = .ok [47, 46, 46, 47, 97] := by
  refine ⟨by decide, ?_⟩; rw [cleanup_eq_spec _ _ (by decide)]; decide

/-- bsdtar's `strip_absolute_path`: every read is inside the string (the result
is never `none`), the returned pointer is inside the string (so the result is a
suffix of the input), and what it points at starts neither with '/' or '\\' nor
with a drive-letter prefix "X:". -/
theorem strip_absolute_sound (s : List Nat) :
    ∃ k, stripAbsolute s = some k ∧ k ≤ s.length ∧ (s.drop k) <:+ s ∧
      (s.drop k).head? ≠ some SLASH ∧ (s.drop k).head? ≠ some BSLASH ∧
      ¬ (∃ c r, s.drop k = c :: 58 :: r ∧ isAlpha c = true) := by
  obtain ⟨k, h1, h2, h3, h4⟩ := stripAbsolute_spec s
  refine ⟨k, h1, h2, List.drop_suffix k s, ?_, ?_, ?_⟩
  · intro hh
    have hk : k < s.length := by
      by_cases hk : k < s.length
      · exact hk
      · rw [List.drop_eq_nil_of_le (by omega)] at hh; simp at hh
    rw [List.head?_drop] at hh
    obtain ⟨_, hv⟩ := List.getElem?_eq_some_iff.mp hh
    simp [tst, rd, hk, hh, isSep] at h3
    simp [hv] at h3
  · intro hh
    have hk : k < s.length := by
      by_cases hk : k < s.length
      · exact hk
      · rw [List.drop_eq_nil_of_le (by omega)] at hh; simp at hh
    rw [List.head?_drop] at hh
    obtain ⟨_, hv⟩ := List.getElem?_eq_some_iff.mp hh
    simp [tst, rd, hk, hh, isSep] at h3
    simp [hv] at h3
  · rintro ⟨c, r, hd, hc⟩
    have hl : k + 1 < s.length := by
      have := congrArg List.length hd
      simp at this; omega
    have e0 : s[k]? = some c := by
      have := congrArg (·[0]?) hd; simpa using this
    have e1 : s[k + 1]? = some 58 := by
      have := congrArg (·[1]?) hd; simpa using this
    have hk : k < s.length := by omega
    obtain ⟨_, v0⟩ := List.getElem?_eq_some_iff.mp e0
    obtain ⟨_, v1⟩ := List.getElem?_eq_some_iff.mp e1
    simp [tst, rd, hk, hl, e0, e1, andRd] at h4
    rw [v0, hc] at h4
    simp [v1] at h4

example : ∃ k, stripAbsolute [47, 47, 63, 47, 99, 58, 47, 46, 46, 47, 120] = some k :=   -- "//?/c:/../x"
  (strip_absolute_sound _).imp fun _ h => h.1

/-! ## Part 2: symlink check and whole extractions over the abstract POSIX tree

`LA.FS` is the tree, `LA.Xtr` the model of the disk writer (programs over system
calls).  Helper lemmas: `LA/Lemmas/FS*.lean`, `LA/Lemmas/Xtr*.lean`. -/

open LA.FS LA.Xtr

/-- `check_symlinks_fsobj` under SECURE_SYMLINKS on a cleaned path `q` (the output of
`cleanup_pathname_fsobj`, other than "."): if it returns ARCHIVE_OK then, in the
file system as it is at that moment, no component of `q` is a symlink; so the kernel
resolution of every prefix of `q` goes nowhere but down from the working
directory — it ends at `cwd ++ prefix` — and stays inside the target.  The
working directory and the umask are what they were. -/
theorem check_symlinks_sound (fl : XFlags) (hsec : fl.secureSymlinks = true) (p q : List Nat) (hp : NulFree p)
    (hcl : cleanup secure p = .ok q) (hq : q ≠ [DOT]) (pr : Proc)
    (h : ((checkSymlinks fl false q).run pr).1 = .ok) :
    NoLinkAt ((checkSymlinks fl false q).run pr).2.fs pr.cwd (compsOf q) ∧
    (∀ b cs r, cs <+: compsOf q → walk ((checkSymlinks fl false q).run pr).2.fs b pr.cwd cs = .ok r →
      r = pr.cwd ++ cs ∧ pr.cwd <+: r) ∧
    ((checkSymlinks fl false q).run pr).2.cwd = pr.cwd ∧ ((checkSymlinks fl false q).run pr).2.umask = pr.umask := by
  have hg : Good q := by
    rcases nameOK_of_cleanup hp hcl with h | h
    · exact absurd h hq
    · exact h
  let c : Ctx := ⟨pr.cwd, fun _ => True, 0, pr.fs.root, pr.fs.files⟩
  have hnl := (checkSymlinks_spec c fl hsec false q hg pr).2 h
  simp only [loopTarget, Bool.false_eq_true, if_false] at hnl
  refine ⟨hnl, ?_, (run_plain (plain_checkSymlinks fl false q) pr).1, run_umask _ pr⟩
  intro b cs r hpre hw
  have hnd : NoDots cs := fun x hx => (rel_good hg).noDots x (hpre.subset hx)
  cases hget : get ((checkSymlinks fl false q).run pr).2.fs.root pr.cwd with
  | none =>
    cases cs with
    | nil => rw [walk] at hw; simp at hw; subst hw; simp
    | cons x rest => rw [walk] at hw; simp [hget] at hw
  | some t =>
    have := walk_noLink _ b cs pr.cwd t hnd hget (noLinkT_prefix _ _ _ t hpre (hnl t hget)) r hw
    subst this
    exact ⟨rfl, List.prefix_append _ _⟩

/-- Non-vacuity: "a" in an empty target directory passes the check. -/
example : NoLinkAt ((checkSymlinks {} false [97]).run demoProc).2.fs demoProc.cwd (compsOf [97]) :=
  (check_symlinks_sound {} rfl [97] [97] (by decide) (by rw [cleanup_eq_spec _ _ (by decide)]; decide) (by decide)
    demoProc demo_check).1

/-- Entries are C strings; the confinement theorem covers pathnames shorter than PATH_MAX
(beyond that `edit_deep_directories` moves the process: see `umask_cwd_restored`, which has no such bound). -/
def EntryStrings (e : Entry) : Prop := NulFree e.path ∧ NulFree e.link ∧ e.path.length < pathMax

/-- What "nothing outside the target was touched" means for an extraction that
started in state `pr` and ended in `pr'`.  `S` is any set of inodes containing
every inode that had a name inside the target at the start. -/
structure Confined (S : Nat → Prop) (pr pr' : Proc) : Prop where
  /-- the directory tree with the target subtree cut out is identical: every
  directory outside (entries, mode, mtime) and every name outside still refers
  to what it referred to -/
  outside_tree : mask pr.cwd pr'.fs.root = mask pr.cwd pr.fs.root
  /-- every inode that had no name inside the target is identical (type, content, mode, mtime, link target) -/
  outside_inodes : ∀ i, i < pr.fs.next → ¬ S i → pr'.fs.files i = pr.fs.files i
  /-- no name inside the target refers to such an inode: no hard link to an outside object was made
  (so, with `outside_tree`, link counts of outside inodes are unchanged) -/
  no_new_links : ∀ t, get pr'.fs.root pr.cwd = some t → RefsIn (fun i => S i ∨ pr.fs.next ≤ i) t
  cwd : pr'.cwd = pr.cwd
  umask : pr'.umask = pr.umask

/-- A process about to extract: it stands in a directory, holds no descriptor,
and the inode table is consistent with the tree. -/
structure Start (S : Nat → Prop) (pr : Proc) : Prop where
  tdir : ∃ t, get pr.fs.root pr.cwd = some t ∧ t.isDir = true
  inside : ∀ t, get pr.fs.root pr.cwd = some t → RefsIn S t
  wf : WF pr.fs
  nofd : pr.fd = none ∧ pr.dfd = none ∧ pr.xfd = none

theorem sem_of_start {S : Nat → Prop} {pr : Proc} (h : Start S pr) :
    Sem ⟨pr.cwd, S, pr.fs.next, pr.fs.root, pr.fs.files⟩ [] pr := by
  refine ⟨⟨rfl, fun _ _ _ => rfl, ?_, Nat.le_refl _, h.tdir, rfl, ?_, ?_, ?_⟩, h.wf, fun _ _ => trivial⟩
  · intro t ht p ino hp; exact Or.inl (h.inside t ht p ino hp)
  · intro i hi; rw [h.nofd.1] at hi; simp at hi
  · intro d hd; rw [h.nofd.2.1] at hd; simp at hd
  · intro x hx; rw [h.nofd.2.2] at hx; simp at hx

/-- **The property** (`extract_confined`): for every finite sequence of entries of the five kinds
with arbitrary names (shorter than PATH_MAX) and link targets (hard links with or without a body), every
initial content of the file system (inside and outside the target) and every option
set with the three SECURE flags (UNLINK / NO_OVERWRITE / SAFE_WRITES / PERM / TIME on or
off), a whole extraction — every header / data / finish_entry and the deferred fix-ups
at close — touches nothing outside the directory it started in: the tree outside, every
inode without a name inside, and the links across the boundary are identical afterwards;
the working directory and the umask are unchanged. -/
theorem extract_confined (fl : XFlags) (es : List Entry) (S : Nat → Prop) (pr : Proc)
    (hfl : SecureFlags fl) (hes : ∀ e ∈ es, EntryStrings e) (hst : Start S pr) :
    Confined S pr ((extractArchive fl es).run pr).2 := by
  have h0 := sem_of_start hst
  have := extractArchive_spec ⟨pr.cwd, S, pr.fs.next, pr.fs.root, pr.fs.files⟩ fl hfl es
    (fun e he => hes e he) pr h0
  exact ⟨this.inv.tree, this.inv.files, this.inv.refs, this.inv.cwd, run_umask _ pr⟩

/-- Non-vacuity: the hypotheses hold for a sequence that plants a symlink to the outside, writes and
hard-links through it, queues a fix-up for "d/." and then replaces "d" by a symlink to "/". -/
example : Confined (fun _ => False) demoProc
    ((extractArchive {} [
        { kind := .symlink, path := [115], link := [46, 46] },                 -- s -> ..
        { kind := .file, path := [115, 47, 111], data := [112] },              -- s/o
        { kind := .hardlink, path := [104], link := [115, 47, 111], data := [100] },  -- h => s/o, with a body
        { kind := .dir, path := [100, 47, 46], mode := 448 },                  -- d/.
        { kind := .symlink, path := [100], link := [47] } ]).run demoProc).2 :=
  extract_confined {} _ _ demoProc ⟨rfl, rfl, rfl⟩
    (by intro e he; simp at he; rcases he with rfl | rfl | rfl | rfl | rfl <;> exact ⟨by decide, by decide, by decide⟩)
    ⟨demo_tdir, demo_inside _, demo_wf, ⟨rfl, rfl, rfl⟩⟩

/-- Offending names are refused with ARCHIVE_FAILED, never ARCHIVE_FATAL, without a
single system call; the writer is left ready for the next entry. -/
theorem refused_not_fatal (w : Writer) (e : Entry) (pr : Proc) (hfl : SecureFlags w.flags) (hp : NulFree e.path)
    (hbad : e.path = [] ∨ e.path.head? = some SLASH ∨ [DOT, DOT] ∈ splitSlash e.path) :
    (header w e).run pr = ((.failed, { w with cur := none }), pr) := by
  have hrej : ∃ x, cleanup w.flags.clean e.path = .failed x := by
    rw [clean_secure hfl]
    obtain ⟨h1, h2, h3⟩ := cleanup_rejects { nodotdot := true, noabs := true } e.path hp
    rcases hbad with h | h | h
    · exact ⟨_, h1 h⟩
    · exact ⟨_, h2 rfl h⟩
    · exact h3 rfl h
  obtain ⟨x, hx⟩ := hrej
  unfold header
  simp only [hx]
  rfl

example : (header { flags := {} } { kind := .file, path := [46, 46, 47, 120] }).run demoProc   -- "../x"
    = ((.failed, { flags := {}, cur := none }), demoProc) :=
  refused_not_fatal _ _ _ ⟨rfl, rfl, rfl⟩ (by decide) (Or.inr (Or.inr (by decide)))

/-- The process working directory and umask are the same after every call of the writer
API as before it — for entries with pathnames of ANY length, PATH_MAX and beyond included
(`edit_deep_directories` `chdir()`s into intermediate directories and `fchdir()`s back before
`archive_write_header` returns), for every file-system state and every option set.  `EnvOK X pr`:
the process stands in `X` and holds no left-over `restore_pwd` descriptor. -/
theorem umask_cwd_restored (X : List Name) (w : Writer) (e : Entry) (d : List Nat) (pr : Proc) (h : EnvOK X pr) :
    (EnvOK X ((header w e).run pr).2 ∧ ((header w e).run pr).2.umask = pr.umask) ∧
    (EnvOK X ((writeData w d).run pr).2 ∧ ((writeData w d).run pr).2.umask = pr.umask) ∧
    (EnvOK X ((finishEntry w).run pr).2 ∧ ((finishEntry w).run pr).2.umask = pr.umask) ∧
    (EnvOK X ((close w).run pr).2 ∧ ((close w).run pr).2.umask = pr.umask) :=
  ⟨⟨header_env X w e pr h, run_umask _ pr⟩, ⟨envOK_plain (plain_writeData w d) pr h, run_umask _ pr⟩,
   ⟨envOK_plain (plain_finishEntry w) pr h, run_umask _ pr⟩, ⟨envOK_plain (plain_close w) pr h, run_umask _ pr⟩⟩

/-- … and after a whole extraction, whatever the entries. -/
theorem extract_cwd_umask (fl : XFlags) (es : List Entry) (pr : Proc) (h : pr.rfd = none) :
    ((extractArchive fl es).run pr).2.cwd = pr.cwd ∧ ((extractArchive fl es).run pr).2.umask = pr.umask :=
  ⟨(extractArchive_env pr.cwd fl es pr ⟨rfl, h⟩).1, run_umask _ pr⟩

example : EnvOK demoProc.cwd demoProc := ⟨rfl, rfl⟩

end LA.C04
