/-
C18 — Character-set conversion of names is correct and bounded.

Property theorems over `LA.Unicode`, the model of the hand-written codecs of
libarchive/archive_string.c (`_utf8_to_unicode`, `utf8_to_unicode`, `cesu8_to_unicode`,
`unicode_to_utf8`, `utf16_to_unicode`, `unicode_to_utf16be/le`, `strncat_from_utf8_to_utf8`,
`archive_string_append_unicode`, `best_effort_strncat_to/from_utf16`).
Helper lemmas live in `LA/Lemmas/Unicode.lean`.

Quantification: every theorem is over all code points / all byte lists / all lengths / all flag
words / all initial buffers; nothing is bounded.  Two facts of the C are visible in the statements:
* a NUL byte ends a UTF-8 string (`_utf8_to_unicode` returns 0 on it), so U+0000 is not carried by a
  UTF-8 source (`Carries .utf8 c` asks `0 < c`);
* UTF-16 theorems that reconstruct bytes ask that list elements are bytes (`< 256`).

The iconv-backed charsets and the NFC/NFD tables are outside these theorems (round-trip tests only).
-/
import LA.Lemmas.Unicode
set_option linter.unusedSimpArgs false
namespace LA.C18
open LA.Unicode LA.Gen.Utf8Table

/-- `unicode_to_utf8` with room for 4 bytes. -/
abbrev encode8 (c : Nat) : List Nat := unicodeToUtf8 4 c
/-- `unicode_to_utf16be/le` with room for 4 bytes. -/
abbrev encode16 (be : Bool) (c : Nat) : List Nat := unicodeToUtf16 be 4 c

instance (c : Nat) : Decidable (IsScalar c) := by unfold IsScalar; infer_instance
instance (e : Enc) (c : Nat) : Decidable (Carries e c) := by unfold Carries; infer_instance

/-! ## the extracted table -/

/-- Table lemma over `Gen/Utf8Table`: `utf8_count[ch]` is 1 for 00..7F, 2 for C2..DF, 3 for E0..EF,
4 for F0..F4 and 0 for every other byte (80..C1, F5..FF).  Re-checked by evaluation on every build. -/
theorem utf8_count_table (ch : Nat) : utf8Count.getD ch 0 = leadClass ch := count_spec ch

example : utf8Count.getD 0xC1 0 = 0 ∧ utf8Count.getD 0xF4 0 = 4 ∧ utf8Count.getD 0xF5 0 = 0 := by decide

/-! ## UTF-8, one code point -/

/-- decode ∘ encode = id on all 1 112 063 non-zero scalar values (any bytes may follow). -/
theorem utf8_decode_encode (c : Nat) (hs : IsScalar c) (hc : 0 < c) (rest : List Nat) (n : Nat)
    (hn : (encode8 c).length ≤ n) :
    utf8ToUnicode (encode8 c ++ rest) n = .ret (encode8 c).length (some c) :=
  utf8ToUnicode_encode c hc hs rest n hn

example : IsScalar 0x1F600 ∧ 0 < 0x1F600 ∧ (encode8 0x1F600).length ≤ 4 := by decide
example : utf8ToUnicode (encode8 0x10FFFF ++ [0x41]) 5 = .ret 4 (some 0x10FFFF) := by decide

/-- The same for the internal decoder, which also lets the 3-byte surrogates through (CESU-8). -/
theorem utf8_raw_decode_encode (c : Nat) (hc : 0 < c) (hmax : c ≤ unicodeMax) (rest : List Nat) (n : Nat)
    (hn : (encode8 c).length ≤ n) :
    utf8Raw (encode8 c ++ rest) n = .ret (encode8 c).length (some c) :=
  utf8Raw_encode c hc hmax rest n hn

example : utf8Raw (encode8 0xD800) 3 = .ret 3 (some 0xD800) := by decide

/-- A decoder success means the consumed bytes are exactly the shortest-form encoding of a scalar
value: no overlong form, no surrogate, nothing above U+10FFFF is ever accepted, so a byte string is
never silently read as a different valid name. -/
theorem utf8_accepts_only_canonical (xs : List Nat) (n : Nat) (r : Int) (uc : Option Nat)
    (h : utf8ToUnicode xs n = .ret r uc) (hr : 0 < r) :
    ∃ c, uc = some c ∧ 0 < c ∧ IsScalar c ∧ xs.take r.toNat = encode8 c ∧
      r.toNat = (encode8 c).length ∧ r.toNat ≤ n :=
  utf8ToUnicode_canonical xs n r uc h hr

example : utf8ToUnicode [0xE2, 0x82, 0xAC, 0x41] 4 = .ret 3 (some 0x20AC) := by decide
-- overlong forms, a surrogate, U+110000 and 5/6-byte forms are rejected with the documented counts
example : utf8ToUnicode [0xC0, 0xAF] 2 = .ret (-2) (some 0xFFFD) := by decide
example : utf8ToUnicode [0xE0, 0x80, 0xAF] 3 = .ret (-3) (some 0xFFFD) := by decide
example : utf8ToUnicode [0xF0, 0x80, 0x80, 0xAF] 4 = .ret (-4) (some 0xFFFD) := by decide
example : utf8ToUnicode [0xED, 0xA0, 0x80] 3 = .ret (-3) (some 0xD800) := by decide
example : utf8ToUnicode [0xF4, 0x90, 0x80, 0x80] 4 = .ret (-4) (some 0xFFFD) := by decide
example : utf8ToUnicode [0xF8, 0x88, 0x80, 0x80, 0x80] 5 = .ret (-5) (some 0xFFFD) := by decide

theorem utf8_raw_accepts_only_canonical (xs : List Nat) (n : Nat) (r : Int) (uc : Option Nat)
    (h : utf8Raw xs n = .ret r uc) (hr : 0 < r) :
    ∃ c, uc = some c ∧ 0 < c ∧ c ≤ unicodeMax ∧ xs.take r.toNat = encode8 c ∧
      r.toNat = (encode8 c).length ∧ r.toNat ≤ n :=
  utf8Raw_canonical xs n r uc h hr

example : utf8Raw [0xDF, 0xBF] 2 = .ret 2 (some 0x7FF) := by decide

/-- Every return value other than 0 consumes at least one byte and at most `n`: the callers' loops
terminate and never step past the end. -/
theorem utf8_progress (xs : List Nat) (n : Nat) (r : Int) (uc : Option Nat)
    (h : utf8ToUnicode xs n = .ret r uc) (hr : r ≠ 0) : 1 ≤ r.natAbs ∧ r.natAbs ≤ n :=
  utf8ToUnicode_progress xs n r uc h hr

theorem utf8_raw_progress (xs : List Nat) (n : Nat) (r : Int) (uc : Option Nat)
    (h : utf8Raw xs n = .ret r uc) (hr : r ≠ 0) : 1 ≤ r.natAbs ∧ r.natAbs ≤ n :=
  utf8Raw_progress xs n r uc h hr

-- truncated sequence: only the bytes that are there are consumed
example : utf8ToUnicode [0xF0, 0x9F, 0x98] 3 = .ret (-3) (some 0xFFFD) := by decide
example : utf8Raw [0xE2, 0x41] 2 = .ret (-1) (some 0xFFFD) := by decide

/-- No byte at or beyond index `n` is read: with a block of at least `n` bytes no read is out of range. -/
theorem utf8_no_overread (xs : List Nat) (n : Nat) (hn : n ≤ xs.length) :
    utf8Raw xs n ≠ .oob ∧ utf8ToUnicode xs n ≠ .oob ∧ cesu8ToUnicode xs n ≠ .oob :=
  ⟨utf8Raw_no_oob xs n hn, utf8ToUnicode_no_oob xs n hn, cesu8_no_oob xs n hn⟩

-- the model does notice a read past the block
example : utf8Raw [0xE2, 0x82] 3 = .oob := by decide

/-- 0 is returned exactly at the end of the string (no bytes left, or a NUL byte). -/
theorem utf8_end_of_string (xs : List Nat) (n : Nat) (r : Int) (uc : Option Nat)
    (h : utf8ToUnicode xs n = .ret r uc) : r = 0 ↔ (n = 0 ∨ xs[0]? = some 0) :=
  utf8ToUnicode_zero xs n r uc h

example : utf8ToUnicode [0, 0x41] 2 = .ret 0 none := by decide

/-- A negative return value always comes with U+FFFD (`utf8_to_unicode` keeps the surrogate itself
with -3 so that the CESU-8 path can look at it). -/
theorem utf8_replacement (xs : List Nat) (n : Nat) (r : Int) (uc : Option Nat) (hr : r < 0) :
    (utf8Raw xs n = .ret r uc → uc = some unicodeRChar) ∧
    (cesu8ToUnicode xs n = .ret r uc → uc = some unicodeRChar) ∧
    (utf8ToUnicode xs n = .ret r uc → uc = some unicodeRChar ∨ (r = -3 ∧ isSurrogate (uc.getD 0) = true)) :=
  ⟨fun h => utf8Raw_neg xs n r uc h hr, fun h => cesu8_neg xs n r uc h hr, fun h => utf8ToUnicode_neg xs n r uc h hr⟩

/-! ## CESU-8 -/

/-- Two 3-byte surrogates are read as the supplementary code point they spell (6 bytes). -/
theorem cesu8_pairs (c : Nat) (h1 : 0x10000 ≤ c) (h2 : c ≤ 0x10FFFF) (rest : List Nat) (n : Nat) (hn : 6 ≤ n) :
    cesu8ToUnicode (encode8 (hiSur c) ++ encode8 (loSur c) ++ rest) n = .ret 6 (some c) :=
  cesu8_pair c h1 h2 rest n hn

example : cesu8ToUnicode [0xED, 0xA0, 0xBD, 0xED, 0xB8, 0x80] 6 = .ret 6 (some 0x1F600) := by decide

/-- …and scalar values in regular UTF-8 decode as before. -/
theorem cesu8_decode_encode (c : Nat) (hs : IsScalar c) (hc : 0 < c) (rest : List Nat) (n : Nat)
    (hn : (encode8 c).length ≤ n) :
    cesu8ToUnicode (encode8 c ++ rest) n = .ret (encode8 c).length (some c) :=
  cesu8_encode c hc hs rest n hn

/-- A success of `cesu8_to_unicode` is the canonical UTF-8 form of a scalar value or a well-formed
surrogate pair; lone or swapped surrogates are never accepted. -/
theorem cesu8_accepts_only_canonical_or_pair (xs : List Nat) (n : Nat) (r : Int) (uc : Option Nat)
    (h : cesu8ToUnicode xs n = .ret r uc) (hr : 0 < r) :
    ∃ c, uc = some c ∧ 0 < c ∧ IsScalar c ∧ r.toNat ≤ n ∧
      ((xs.take r.toNat = encode8 c ∧ r.toNat = (encode8 c).length) ∨
       (r = 6 ∧ 0x10000 ≤ c ∧ xs.take 6 = encode8 (hiSur c) ++ encode8 (loSur c))) :=
  cesu8_canonical xs n r uc h hr

-- unpaired high surrogate (followed by a 4-byte character, by NUL), lone low surrogate: -3, U+FFFD
example : cesu8ToUnicode [0xED, 0xA0, 0x80, 0xF0, 0x9F, 0x98, 0x80] 7 = .ret (-3) (some 0xFFFD) := by decide
example : cesu8ToUnicode [0xED, 0xA0, 0x80, 0x00, 0x41, 0x42] 6 = .ret (-3) (some 0xFFFD) := by decide
example : cesu8ToUnicode [0xED, 0xB0, 0x80, 0xED, 0xA0, 0x80] 6 = .ret (-3) (some 0xFFFD) := by decide

theorem cesu8_progress (xs : List Nat) (n : Nat) (r : Int) (uc : Option Nat)
    (h : cesu8ToUnicode xs n = .ret r uc) (hr : r ≠ 0) : 1 ≤ r.natAbs ∧ r.natAbs ≤ n :=
  LA.Unicode.cesu8_progress xs n r uc h hr

/-! ## UTF-16 BE / LE, one code point -/

theorem utf16_decode_encode (be : Bool) (c : Nat) (hs : IsScalar c) (rest : List Nat) (n : Nat)
    (hn : (encode16 be c).length ≤ n) :
    utf16ToUnicode be (encode16 be c ++ rest) n = .ret (encode16 be c).length (some c) :=
  utf16_encode be c hs rest n hn

example : utf16ToUnicode true (encode16 true 0x1F600) 4 = .ret 4 (some 0x1F600) := by decide
example : utf16ToUnicode false [0x3D, 0xD8, 0x00, 0xDE, 0x41] 5 = .ret 4 (some 0x1F600) := by decide

/-- A success of `utf16_to_unicode` on a byte string consumed exactly the UTF-16 form of a scalar
value (one unit, or a high surrogate followed by a low surrogate). -/
theorem utf16_accepts_only_canonical (be : Bool) (xs : List Nat) (n : Nat) (r : Int) (uc : Option Nat)
    (hbytes : ∀ b ∈ xs, b < 256) (h : utf16ToUnicode be xs n = .ret r uc) (hr : 0 < r) :
    ∃ c, uc = some c ∧ IsScalar c ∧ xs.take r.toNat = encode16 be c ∧
      r.toNat = (encode16 be c).length ∧ r.toNat ≤ n :=
  utf16_canonical be xs n r uc hbytes h hr

-- lone high, lone low, high followed by a non-low unit, high at the end
example : utf16ToUnicode true [0xD8, 0x00, 0x00, 0x41] 4 = .ret (-2) (some 0xFFFD) := by decide
example : utf16ToUnicode true [0xDC, 0x00, 0xD8, 0x00] 4 = .ret (-2) (some 0xFFFD) := by decide
example : utf16ToUnicode false [0x00, 0xD8] 2 = .ret (-2) (some 0xFFFD) := by decide

/-- Progress, also for odd lengths: a single trailing byte is answered with -1, never with a read
of the missing byte. -/
theorem utf16_progress (be : Bool) (xs : List Nat) (n : Nat) (r : Int) (uc : Option Nat)
    (h : utf16ToUnicode be xs n = .ret r uc) (hr : r ≠ 0) : 1 ≤ r.natAbs ∧ r.natAbs ≤ n :=
  LA.Unicode.utf16_progress be xs n r uc h hr

theorem utf16_odd_tail (be : Bool) (xs : List Nat) :
    utf16ToUnicode be xs 1 = .ret (-1) (some unicodeRChar) := by
  simp [utf16ToUnicode, invalid]

theorem utf16_no_overread (be : Bool) (xs : List Nat) (n : Nat) (hn : n ≤ xs.length) :
    utf16ToUnicode be xs n ≠ .oob :=
  utf16_no_oob be xs n hn

example : utf16ToUnicode true [0xD8, 0x3D, 0xDE] 3 = .ret (-2) (some 0xFFFD) := by decide
example : utf16ToUnicode true [0xD8, 0x3D, 0xDE] 4 = .oob := by decide

theorem utf16_end_of_string (be : Bool) (xs : List Nat) (n : Nat) (r : Int) (uc : Option Nat)
    (h : utf16ToUnicode be xs n = .ret r uc) : r = 0 ↔ n = 0 :=
  utf16_zero be xs n r uc h

theorem utf16_replacement (be : Bool) (xs : List Nat) (n : Nat) (r : Int) (uc : Option Nat)
    (h : utf16ToUnicode be xs n = .ret r uc) (hr : r < 0) : uc = some unicodeRChar :=
  utf16_neg be xs n r uc h hr

/-! ## the encoders never write past the room they are given -/

/-- `unicode_to_utf8` / `unicode_to_utf16be/le` store at most `remaining` bytes, and when they store
anything it does not depend on `remaining`. -/
theorem unparse_bounded (e : Enc) (remaining uc : Nat) :
    (unparse e remaining uc).length ≤ remaining ∧ (unparse e remaining uc).length ≤ 4 ∧
      (unparse e remaining uc ≠ [] → unparse e remaining uc = unparse e 4 uc) := by
  refine ⟨?_, unparse_len_le e remaining uc, fun h => (unparse_room e remaining uc h).1⟩
  by_cases h : unparse e remaining uc = []
  · simp [h]
  · exact (unparse_room e remaining uc h).2

example : unparse .utf8 2 0x20AC = [] ∧ unparse .utf8 3 0x20AC = [0xE2, 0x82, 0xAC] := by decide
example : unparse .utf16le 3 0x1F600 = [] ∧ unparse .utf16be 4 0x1F600 = [0xD8, 0x3D, 0xDE, 0x00] := by decide

/-! ## `strncat_from_utf8_to_utf8` -/

/-- UTF-8 → UTF-8 always terminates with a result (no out-of-range read, no length wrap-around, no
endless loop), returns 0 or -1, and what it appends is well-formed UTF-8 — whatever the input. -/
theorem utf8_to_utf8_canonicalises (xs : List Nat) (len : Nat) (hlen : len ≤ xs.length) :
    ∃ r out, utf8ToUtf8 xs len = .ok r out ∧ WellFormed8 out ∧ (r = 0 ∨ r = -1) := by
  obtain ⟨r, app, h, hw, hr⟩ := utf8ToUtf8Loop_spec len xs [] 0 hlen
  exact ⟨r, app, by simpa [utf8ToUtf8] using h, hw, hr⟩

/-- Well-formed UTF-8 is carried verbatim and no failure is reported. -/
theorem utf8_to_utf8_verbatim (cs : List Nat) (hcs : ∀ c ∈ cs, Carries .utf8 c) (rest : List Nat) :
    utf8ToUtf8 (encSeq .utf8 cs ++ rest) (encSeq .utf8 cs).length = .ok 0 (encSeq .utf8 cs) := by
  simpa [utf8ToUtf8] using utf8ToUtf8Loop_encSeq cs hcs rest [] 0

/-- Hence the conversion is idempotent: converting its own output changes nothing. -/
theorem utf8_to_utf8_idempotent (xs : List Nat) (len : Nat) (hlen : len ≤ xs.length)
    (r : Int) (out : List Nat) (h : utf8ToUtf8 xs len = .ok r out) :
    utf8ToUtf8 out out.length = .ok 0 out := by
  obtain ⟨r', out', h', ⟨cs, hcs, hout⟩, _⟩ := utf8_to_utf8_canonicalises xs len hlen
  rw [h] at h'
  simp only [Conv.ok.injEq] at h'
  obtain ⟨-, rfl⟩ := h'
  subst hout
  simpa using utf8_to_utf8_verbatim cs hcs []

/-- UTF-8 → UTF-8 that reports no failure preserves the name: the source was well-formed UTF-8
(CESU-8 pairs allowed) read to its end (length exhausted or NUL), and the output is the regular
UTF-8 of the same scalar values.  Contrapositive: every other byte string is reported with -1. -/
theorem utf8_to_utf8_sound (xs : List Nat) (len : Nat) (hlen : len ≤ xs.length) (out : List Nat)
    (h : utf8ToUtf8 xs len = .ok 0 out) :
    ∃ items : List (Nat × Bool),
      (∀ it ∈ items, Carries .utf8 it.1 ∧ (it.2 = true → 0x10000 ≤ it.1)) ∧
      (items.flatMap (fun it => srcItem .utf8 it.1 it.2)).length ≤ len ∧
      xs.take (items.flatMap (fun it => srcItem .utf8 it.1 it.2)).length = items.flatMap (fun it => srcItem .utf8 it.1 it.2) ∧
      ((items.flatMap (fun it => srcItem .utf8 it.1 it.2)).length = len ∨
        xs[(items.flatMap (fun it => srcItem .utf8 it.1 it.2)).length]? = some 0) ∧
      out = encSeq .utf8 (items.map (·.1)) := by
  simpa using utf8ToUtf8Loop_sound len xs [] out hlen h

/-- `mbsnbytes` (front end of `archive_strncat_l` for every non-UTF-16 source): the length handed to
the converter is at most `n`, lies inside the block, covers no NUL and stops at the first one. -/
theorem source_ends_at_nul (xs : List Nat) (n : Nat) :
    mbsnbytes xs n ≤ n ∧ mbsnbytes xs n ≤ xs.length ∧
      (∀ i, i < mbsnbytes xs n → xs[i]? ≠ some 0) ∧
      (mbsnbytes xs n < n → mbsnbytes xs n < xs.length → xs[mbsnbytes xs n]? = some 0) :=
  mbsnbytes_spec xs n

example : mbsnbytes [0x41, 0x42, 0, 0x43] 4 = 2 := by decide

example : ∀ c ∈ [0x41, 0xE9, 0x20AC, 0x1F600], Carries .utf8 c := by decide
example : encSeq .utf8 [0x41, 0xE9, 0x1F600] = [0x41, 0xC3, 0xA9, 0xF0, 0x9F, 0x98, 0x80] := by decide

/-! ## `archive_string_append_unicode` -/

/-- Every store of `archive_string_append_unicode` — each byte `unparse` writes and the final one or
two NULs — is at an index below `buffer_length`, for every input, every flag word (hence every
(from, to) pair and the "through iconv" shapes) and every initial buffer; the existing content is
kept, the result is `transcode` of the source, and the terminator fits. -/
theorem append_unicode_in_bounds (flag : Nat) (as : AStr) (xs : List Nat) (len : Nat) (hlen : len ≤ xs.length) :
    ∃ r out cap', appendUnicode flag as xs len = .ok r { alloc := true, cap := cap', data := as.data ++ out } ∧
      transcode (fromEnc flag) (toEnc flag) xs len [] 0 = .ok r out ∧
      as.data.length + out.length + (toEnc flag).ts ≤ cap' := by
  obtain ⟨r, out, cap', ht, ha, hc⟩ := appendUnicode_spec flag as xs len hlen
  exact ⟨r, out, cap', ha, ht, hc⟩

theorem append_unicode_never_out_of_bounds (flag : Nat) (as : AStr) (xs : List Nat) (len : Nat)
    (hlen : len ≤ xs.length) :
    (∀ i c, appendUnicode flag as xs len ≠ .oobWrite i c) ∧ appendUnicode flag as xs len ≠ .oobRead ∧
      appendUnicode flag as xs len ≠ .lenWrap := by
  obtain ⟨r, out, cap', ha, _, _⟩ := append_unicode_in_bounds flag as xs len hlen
  rw [ha]
  exact ⟨fun _ _ => by simp, by simp, by simp⟩

-- the invariant is what keeps the stores inside: without the initial `ensure` a store would be flagged
example : unparseGrow .utf16le 0 0x41 { alloc := true, cap := 32, data := List.replicate 31 0x61 }
    = .oobWrite 32 32 := by
  rw [unparseGrow]; decide

/-- A conversion that reports no failure preserves the name: the source was a sequence of scalar
values (CESU-8 pairs allowed in UTF-8) consumed to its end, and exactly that sequence was appended in
the target encoding.  Contrapositive: anything else is reported with -1. -/
theorem append_unicode_sound (flag : Nat) (as as' : AStr) (xs : List Nat) (len : Nat) (hlen : len ≤ xs.length)
    (hbytes : fromEnc flag ≠ .utf8 → ∀ b ∈ xs, b < 256)
    (h : appendUnicode flag as xs len = .ok 0 as') :
    ∃ items : List (Nat × Bool),
      (∀ it ∈ items, Carries (fromEnc flag) it.1 ∧ (it.2 = true → fromEnc flag = .utf8 ∧ 0x10000 ≤ it.1)) ∧
      (items.flatMap (fun it => srcItem (fromEnc flag) it.1 it.2)).length ≤ len ∧
      xs.take (items.flatMap (fun it => srcItem (fromEnc flag) it.1 it.2)).length
        = items.flatMap (fun it => srcItem (fromEnc flag) it.1 it.2) ∧
      ((items.flatMap (fun it => srcItem (fromEnc flag) it.1 it.2)).length = len ∨
        (fromEnc flag = .utf8 ∧ xs[(items.flatMap (fun it => srcItem (fromEnc flag) it.1 it.2)).length]? = some 0)) ∧
      as'.data = as.data ++ encSeq (toEnc flag) (items.map (·.1)) := by
  obtain ⟨r, out, cap', ha, ht, _⟩ := append_unicode_in_bounds flag as xs len hlen
  rw [ha] at h
  simp only [AppRes.ok.injEq] at h
  obtain ⟨rfl, rfl⟩ := h
  obtain ⟨items, h1, h2, h3, h4, h5⟩ := transcode_sound (fromEnc flag) (toEnc flag) len xs [] out hbytes hlen ht
  exact ⟨items, h1, h2, h3, h4, by simp [h5]⟩

/-- The return value is 0 or -1. -/
theorem append_unicode_result (flag : Nat) (as as' : AStr) (xs : List Nat) (len : Nat) (r : Int)
    (h : appendUnicode flag as xs len = .ok r as') (hlen : len ≤ xs.length) : r = 0 ∨ r = -1 := by
  obtain ⟨r', out, cap', ha, ht, _⟩ := append_unicode_in_bounds flag as xs len hlen
  rw [ha] at h
  simp only [AppRes.ok.injEq] at h
  obtain ⟨rfl, -⟩ := h
  by_cases h0 : r' = 0
  · exact .inl h0
  · right
    -- some step replaced: from then on the result is -1
    have key : ∀ (len : Nat) (xs acc : List Nat) (ret r : Int) (out : List Nat),
        (ret = 0 ∨ ret = -1) → transcode (fromEnc flag) (toEnc flag) xs len acc ret = .ok r out → r = 0 ∨ r = -1 := by
      intro len
      induction len using Nat.strongRecOn with
      | ind len ih =>
        intro xs acc ret r out hret h
        rw [transcode] at h
        cases hp : parse (fromEnc flag) xs len with
        | oob => simp [hp] at h
        | ret n uc =>
          simp only [hp] at h
          by_cases hn : n = 0
          · simp only [hn, if_true, Conv.ok.injEq] at h; exact h.1 ▸ hret
          · rw [if_neg hn] at h
            split at h
            · exact ih _ (by omega) _ _ _ _ _ (by split <;> simp [hret]) h
            · simp at h
    rcases key len xs [] 0 r' out (.inl rfl) ht with h | h
    · exact absurd h h0
    · exact h

/-! ## sequences: UTF-8 ↔ UTF-16 round trip -/

/-- Converting the encoding of any sequence of scalar values gives the encoding of the same
sequence in the target encoding, with return value 0, from any initial buffer. -/
theorem append_unicode_encSeq (flag : Nat) (as : AStr) (cs : List Nat) (hcs : ∀ c ∈ cs, Carries (fromEnc flag) c)
    (rest : List Nat) :
    ∃ cap', appendUnicode flag as (encSeq (fromEnc flag) cs ++ rest) (encSeq (fromEnc flag) cs).length
      = .ok 0 { alloc := true, cap := cap', data := as.data ++ encSeq (toEnc flag) cs } := by
  obtain ⟨r, out, cap', ha, ht, _⟩ := append_unicode_in_bounds flag as (encSeq (fromEnc flag) cs ++ rest)
    (encSeq (fromEnc flag) cs).length (by simp)
  have key : ∀ (cs : List Nat) (hcs : ∀ c ∈ cs, Carries (fromEnc flag) c) (acc : List Nat) (ret : Int),
      transcode (fromEnc flag) (toEnc flag) (encSeq (fromEnc flag) cs ++ rest) (encSeq (fromEnc flag) cs).length acc ret
        = .ok ret (acc ++ encSeq (toEnc flag) cs) := by
    intro cs hcs
    induction cs with
    | nil => intro acc ret; rw [transcode]; simp [encSeq, parse_end]
    | cons c cs ih =>
      intro acc ret
      have hc := hcs c (by simp)
      have hpos : 0 < (unparse (fromEnc flag) 4 c).length := by
        have := unparse4_ne_nil (fromEnc flag) c
        cases h : unparse (fromEnc flag) 4 c with
        | nil => exact absurd h this
        | cons _ _ => simp
      have hx : encSeq (fromEnc flag) (c :: cs) = unparse (fromEnc flag) 4 c ++ encSeq (fromEnc flag) cs := by
        simp [encSeq]
      rw [transcode, hx, List.append_assoc]
      rw [parse_encode (fromEnc flag) c hc _ _ (by simp)]
      have hne : ((unparse (fromEnc flag) 4 c).length : Int) ≠ 0 := by omega
      have hk : (((unparse (fromEnc flag) 4 c).length : Int).natAbs ≤
          (unparse (fromEnc flag) 4 c ++ encSeq (fromEnc flag) cs).length ∧
          0 < ((unparse (fromEnc flag) 4 c).length : Int).natAbs) := by
        simp only [Int.natAbs_natCast, List.length_append]; omega
      have hnn : ¬ ((unparse (fromEnc flag) 4 c).length : Int) < 0 := by omega
      simp only []
      rw [if_neg hne, dif_pos hk]
      simp only [hnn, if_false, Int.natAbs_natCast, Option.getD_some]
      have hd : (unparse (fromEnc flag) 4 c ++ (encSeq (fromEnc flag) cs ++ rest)).drop
          (unparse (fromEnc flag) 4 c).length = encSeq (fromEnc flag) cs ++ rest := by simp
      have hl : (unparse (fromEnc flag) 4 c ++ encSeq (fromEnc flag) cs).length - (unparse (fromEnc flag) 4 c).length
          = (encSeq (fromEnc flag) cs).length := by simp
      rw [hd, hl, ih (fun c' h' => hcs c' (by simp [h']))]
      simp [encSeq]
  rw [key cs hcs [] 0] at ht
  simp only [Conv.ok.injEq, List.nil_append] at ht
  obtain ⟨rfl, rfl⟩ := ht
  exact ⟨cap', ha⟩

/-- flag words of the conversion objects UTF-8 → UTF-16 and UTF-16 → UTF-8 -/
def flag8to16 (be : Bool) : Nat := 2 ^ bitFromUtf8 + 2 ^ (if be then bitToUtf16be else bitToUtf16le)
def flag16to8 (be : Bool) : Nat := 2 ^ (if be then bitFromUtf16be else bitFromUtf16le) + 2 ^ bitToUtf8
def enc16 (be : Bool) : Enc := if be then .utf16be else .utf16le

theorem flag8to16_encs (be : Bool) : fromEnc (flag8to16 be) = .utf8 ∧ toEnc (flag8to16 be) = enc16 be := by
  cases be <;> decide
theorem flag16to8_encs (be : Bool) : fromEnc (flag16to8 be) = enc16 be ∧ toEnc (flag16to8 be) = .utf8 := by
  cases be <;> decide

/-- UTF-8 → UTF-16 (either byte order) → UTF-8 is the identity on every sequence of non-zero scalar
values (BMP, astral, combining sequences, U+FFFD, noncharacters alike), with both conversions
reporting success, whatever the two destination buffers held before. -/
theorem utf8_utf16_roundtrip (be : Bool) (cs : List Nat) (hcs : ∀ c ∈ cs, IsScalar c ∧ 0 < c) (as1 as2 : AStr) :
    ∃ cap1 cap2,
      appendUnicode (flag8to16 be) as1 (encSeq .utf8 cs) (encSeq .utf8 cs).length
        = .ok 0 { alloc := true, cap := cap1, data := as1.data ++ encSeq (enc16 be) cs } ∧
      appendUnicode (flag16to8 be) as2 (encSeq (enc16 be) cs) (encSeq (enc16 be) cs).length
        = .ok 0 { alloc := true, cap := cap2, data := as2.data ++ encSeq .utf8 cs } := by
  obtain ⟨hf1, ht1⟩ := flag8to16_encs be
  obtain ⟨hf2, ht2⟩ := flag16to8_encs be
  obtain ⟨cap1, h1⟩ := append_unicode_encSeq (flag8to16 be) as1 cs
    (fun c h => by rw [hf1]; exact ⟨(hcs c h).1, fun _ => (hcs c h).2⟩) []
  obtain ⟨cap2, h2⟩ := append_unicode_encSeq (flag16to8 be) as2 cs
    (fun c h => by rw [hf2]; exact ⟨(hcs c h).1, fun hh => by cases be <;> simp [enc16] at hh⟩) []
  rw [hf1, ht1] at h1
  rw [hf2, ht2] at h2
  exact ⟨cap1, cap2, by simpa using h1, by simpa using h2⟩

example : ∀ c ∈ [0x41, 0x301, 0xFFFD, 0xFFFE, 0x1F600, 0x10FFFF], IsScalar c ∧ 0 < c := by decide
example : encSeq (enc16 true) [0x41, 0x1F600] = [0x00, 0x41, 0xD8, 0x3D, 0xDE, 0x00] := by decide

/-! ## best-effort UTF-16 paths -/

theorem best_effort_to_utf16_in_bounds (be : Bool) (as : AStr) (xs : List Nat) (length : Nat) (hl : length ≤ xs.length) :
    ∃ r as', bestEffortToUtf16 be as xs length = .ok r as' ∧
      as'.data.length = as.data.length + 2 * length ∧ as'.data.length + 2 ≤ as'.cap :=
  bestEffortToUtf16_in_bounds be as xs length hl

theorem best_effort_from_utf16_in_bounds (be : Bool) (as : AStr) (xs : List Nat) (bytes : Nat) (hl : bytes ≤ xs.length) :
    ∃ r as', bestEffortFromUtf16 be as xs bytes = .ok r as' ∧ as'.data.length + 1 ≤ as'.cap :=
  bestEffortFromUtf16_in_bounds be as xs bytes hl

end LA.C18
