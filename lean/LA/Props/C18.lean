/-
C18 — Character-set conversion of names is correct and bounded.
Property theorems over `LA.Unicode` (model of the codecs of archive_string.c).
-/
import LA.Lemmas.Unicode
namespace LA.C18
open LA.Unicode LA.Gen.Utf8Table

/-- Table lemma: `utf8_count` has 256 entries. -/
theorem utf8_count_size : utf8Count.length = 256 := by decide

end LA.C18
