import LA.Model.Handle
namespace LA.C07
open LA.Handle LA.Gen.ApiStates

theorem placeholder : (1 : Nat) = 1 := rfl

end LA.C07
