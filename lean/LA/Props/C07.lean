/-
C07 — Any call sequence on a handle is safe; illegal order fails fatally.
Property theorems over `LA.Handle` (model of archive_check_magic.c,
archive_virtual.c and the life-cycle entry points of archive_read.c,
archive_write.c, archive_write_disk_posix.c, archive_read_disk_posix.c,
archive_match.c).  Helper lemmas live in `LA/Lemmas/Handle.lean`.

The allowed-state masks come from `LA.Gen.ApiStates.sites`, regenerated from the
C on every run.  Theorems that are generic in the table take the site as a
hypothesis; facts about the *current* table are proved by evaluation (`decide`)
and are marked "table fact" — they are re-checked against each regenerated table.
-/
import LA.Lemmas.HandleInv
set_option linter.unusedSimpArgs false
set_option linter.unusedVariables false
namespace LA.C07
open LA.Handle LA.Gen.ApiStates

/-! ## The table -/

/-- The calls that are *not* refused on a failed handle, per kind: computed from
the table as the functions whose mask contains the FATAL bit. -/
def exempt (k : Kind) : List String :=
  ((sites.filter fun s => s.kind == k && allowed .fatal s.mask).map (·.func)).eraseDups

/-- Table fact: the exempt set is exactly close and free, for every kind. -/
theorem exempt_read : exempt .read = ["_archive_read_close", "_archive_read_free"] := by decide
theorem exempt_write : exempt .write = ["_archive_write_close", "_archive_write_free"] := by decide
theorem exempt_writeDisk :
    exempt .writeDisk = ["_archive_write_disk_close", "_archive_write_disk_free"] := by decide
theorem exempt_readDisk : exempt .readDisk = ["_archive_read_close", "_archive_read_free"] := by decide
theorem exempt_match : exempt .«match» = ["archive_match_free"] := by decide

/-! ## illegal_is_fatal -/

/-- The first `archive_check_magic` a call goes through (none: the call has no
check of its own — error accessors, `archive_write_fail`, `archive_read_data`). -/
def firstCheck (k : Kind) : Op → Option String
  | .plain f | .wSetFormat f | .wAddFilter f => some f
  | .lookup pre _ => some pre
  | .rOpen (some w) _ => some w
  | .rOpen none true | .rSetReader => some "archive_read_set_read_callback"
  | .rOpen none false => some "archive_read_open1"
  | .rNextHeader => some "_archive_read_next_header2"
  | .rReadDataBlock => some "_archive_read_data_block"
  | .rDataSkip => some "archive_read_data_skip"
  | .rSeekData => some "archive_seek_data"
  | .wOpen (some w) => some w
  | .wOpen none => some "archive_write_open2"
  | .wHeader => some "_archive_write_header"
  | .wData => some "_archive_write_data"
  | .wFinishEntry => some "_archive_write_finish_entry"
  | .dHeader => some "_archive_write_disk_header"
  | .dData => some "_archive_write_disk_data"
  | .dDataBlock => some "_archive_write_disk_data_block"
  | .dFinishEntry => some "_archive_write_disk_finish_entry"
  | .kOpen => some "archive_read_disk_open"
  | .kNextHeader => some "_archive_read_next_header2"
  | .kReadDataBlock => some "_archive_read_data_block"
  | .close => match k with
    | .read | .readDisk => some "_archive_read_close"
    | .write => some "_archive_write_close"
    | .writeDisk => some "_archive_write_disk_close"
    | .«match» => none
  | .free => match k with
    | .read | .readDisk => some "_archive_read_free"
    | .write => some "_archive_write_free"
    | .writeDisk => some "_archive_write_disk_free"
    | .«match» => some "archive_match_free"
  | .unchecked | .fail | .rReadData => none

/-- Table fact used below: the reader's `archive_read_open1` is refused on a failed handle. -/
theorem open1_refuses_fatal :
    ∃ s, siteOf .read "archive_read_open1" = some s ∧ allowed .fatal s.mask = false := by decide

/-- **illegal_is_fatal.**  A call whose entry check does not allow the handle's
current state returns ARCHIVE_FATAL, leaves the handle in the FATAL state and
touches nothing else — for every handle, every call, every lower-layer outcome,
and whatever the mask in the table is. -/
theorem illegal_is_fatal (h : Handle) (op : Op) (o : Outcome) (f : String) (s : Site)
    (halive : h.alive = true) (hb : op.belongs h.kind = true)
    (hf : firstCheck h.kind op = some f) (hs : siteOf h.kind f = some s)
    (hbad : allowed h.st s.mask = false) :
    step h op o = ({ h with st := .fatal }, .fatal) := by
  rcases h with ⟨k, st, alive, regs, hasReader, filters, client, ent, fd, fixups, tree, topen, bad, lost, nOpen, nClose, nFree⟩
  simp only at halive hb hf hs hbad
  subst halive
  have hr : ∀ (h' : Handle) body, h'.kind = k → h'.st = st →
      checked h' f body = ({ h' with st := .fatal }, .fatal) := by
    intro h' body h1 h2
    exact checked_refused (h1 ▸ hs) (h2 ▸ hbad)
  cases op with
  | rOpen w reg =>
    cases w with
    | some w => simp [firstCheck] at hf; subst hf; simp [step, stepCore, hb]; rw [hr _ _ rfl rfl]
    | none =>
      cases reg with
      | false => simp [firstCheck] at hf; subst hf; simp [step, stepCore, hb]; rw [hr _ _ rfl rfl]
      | true =>
        simp [firstCheck] at hf; subst hf
        have hk : k = .read := by simpa [Op.belongs] using hb
        subst hk
        obtain ⟨t, ht, hta⟩ := open1_refuses_fatal
        simp [step, stepCore, hb]
        rw [hr _ _ rfl rfl]
        exact checked_refused (h := { kind := .read, st := .fatal, alive := true, regs := regs, hasReader := hasReader, filters := filters, client := client, ent := ent, fd := fd, fixups := fixups, tree := tree, topen := topen, bad := bad, lost := lost, nOpen := nOpen, nClose := nClose, nFree := nFree }) ht hta
  | close =>
    cases k <;> simp [firstCheck] at hf <;> subst hf <;>
      simp [step, stepCore, hb, rClose, wClose, dClose, kClose] <;> rw [hr _ _ rfl rfl]
  | free =>
    cases k <;> simp [firstCheck] at hf <;> subst hf <;>
      simp [step, stepCore, hb, rFree, wFree, dFree, kFree] <;> rw [hr _ _ rfl rfl]
  | wOpen w =>
    cases w <;> simp [firstCheck] at hf <;> subst hf <;> simp [step, stepCore, hb] <;> rw [hr _ _ rfl rfl]
  | unchecked => simp [firstCheck] at hf
  | fail => simp [firstCheck] at hf
  | rReadData => simp [firstCheck] at hf
  | _ =>
    simp [firstCheck] at hf; subst hf
    simp [step, stepCore, hb, rDataSkip, wFinishEntry, dFinishEntry]
    rw [hr _ _ rfl rfl]

/-! ## fatal_absorbing -/

/-- The calls that a failed handle refuses: every call with an entry check,
except close and free.  Where the op carries a C function name, that name must
not be one of the functions the table lets through in the FATAL state
(`acceptFatal` = close/free of the five kinds, see `acceptFatal_eq`). -/
def refusedWhenFailed : Op → Bool
  | .unchecked | .fail | .close | .free => false
  | .plain f | .wSetFormat f | .wAddFilter f => !acceptFatal.contains f
  | .lookup pre _ => !acceptFatal.contains pre
  | .rOpen (some w) _ | .wOpen (some w) => !acceptFatal.contains w
  | _ => true

/-- **fatal_absorbing.**  On a failed handle every call other than the error
accessors, `archive_write_fail`, close and free returns ARCHIVE_FATAL and leaves
the handle exactly as it was (state FATAL, nothing acquired or released) — for
every outcome of the lower layers.  (`nosite` only for a function name the table
does not know for this handle kind; `sites_present` excludes that for the
engine's calls.) -/
theorem fatal_absorbing (h : Handle) (op : Op) (o : Outcome)
    (halive : h.alive = true) (hb : op.belongs h.kind = true) (hst : h.st = .fatal)
    (hop : refusedWhenFailed op = true) :
    step h op o = (h, .fatal) ∨ step h op o = (h, .nosite) := by
  have key : ∀ (f : String) body, f ∉ acceptFatal →
      checked h f body = (h, .fatal) ∨ checked h f body = (h, .nosite) :=
    fun f body hf => checked_fatal hst hf
  have lit : ∀ (f : String) body,
      (["archive_match_free", "_archive_read_close", "_archive_read_free", "_archive_write_close",
        "_archive_write_free", "_archive_write_disk_close", "_archive_write_disk_free"].contains f) = false →
      checked h f body = (h, .fatal) ∨ checked h f body = (h, .nosite) :=
    fun f body hf => key f body (lit_not_exempt f hf)
  have nc : ∀ f : String, (!acceptFatal.contains f) = true → f ∉ acceptFatal := by
    intro f hf hm
    have := List.contains_iff_mem.mpr hm
    simp_all
  cases op with
  | unchecked => simp [refusedWhenFailed] at hop
  | fail => simp [refusedWhenFailed] at hop
  | close => simp [refusedWhenFailed] at hop
  | free => simp [refusedWhenFailed] at hop
  | plain f => simp [step, stepCore, halive, hb]; exact key f _ (nc f hop)
  | wSetFormat f => simp [step, stepCore, halive, hb]; exact key f _ (nc f hop)
  | wAddFilter f => simp [step, stepCore, halive, hb]; exact key f _ (nc f hop)
  | lookup pre st => simp [step, stepCore, halive, hb]; exact key pre _ (nc pre hop)
  | rOpen w reg =>
    cases w with
    | some w => simp [step, stepCore, halive, hb]; exact key w _ (nc w hop)
    | none =>
      cases reg with
      | false => simp [step, stepCore, halive, hb]; exact lit _ _ (by decide)
      | true =>
        have h1 : (checked h "archive_read_set_read_callback"
            fun h => ({ h with hasReader := true }, Rc.ok)).1 = h := by
          rcases lit "archive_read_set_read_callback"
            (fun h => ({ h with hasReader := true }, Rc.ok)) (by decide) with e | e <;> rw [e]
        simp [step, stepCore, halive, hb, h1]; exact lit _ _ (by decide)
  | wOpen w =>
    cases w with
    | some w => simp [step, stepCore, halive, hb]; exact key w _ (nc w hop)
    | none => simp [step, stepCore, halive, hb]; exact lit _ _ (by decide)
  | rReadData => simp [step, stepCore, halive, hb, hst]; exact lit _ _ (by decide)
  | _ => simp [step, stepCore, halive, hb, rDataSkip, wFinishEntry, dFinishEntry]; exact lit _ _ (by decide)

/-! ## close_idempotent, free_from_any_state -/

/-- close twice = close once, as a statement about one handle and two outcomes. -/
abbrev CloseIdem (h : Handle) (o1 o2 : Outcome) : Prop :=
  (step (step h .close o1).1 .close o2).1 = (step h .close o1).1

/-- Full strength: for every live handle and all outcomes. -/
def CloseIdempotent : Prop := ∀ h o1 o2, h.alive = true → CloseIdem h o1 o2

/-- The full statement is false of the disk writer: when `finish_entry` leaves
through one of its error exits (`close_file_descriptor(a); return (ret);`) the
handle stays in the DATA state with `a->entry` still set, and a second close
finishes that entry after all (state HEADER, entry released).  Witness: a disk
writer with an entry open, first close with the error exit, second without. -/
theorem closeIdempotent_false : ¬ CloseIdempotent := by
  intro hc
  have := hc (run (new .writeDisk) [(.dHeader, { flag := true })]).1 { alt := 2, rc2 := .failed } {} (by decide)
  revert this
  decide

/-- What `closeIdempotent_false` shows is the only exception: the disk writer's
first close took an error exit of `finish_entry` (`o1.alt = 2` in DATA). -/
def ErrorExitOfFinish (h : Handle) (o1 : Outcome) : Prop :=
  h.kind = .writeDisk ∧ h.st = .data ∧ o1.alt = 2

/-- The states a disk writer can be in (it is created in HEADER, and no call of
its own leads to NEW, EOF or CLOSED; `wdisk_states` below). -/
def DiskState (h : Handle) : Prop :=
  h.kind = .writeDisk → (h.st = .header ∨ h.st = .data ∨ h.st = .fatal)

/-- **close_idempotent** (`_partial`: excludes the error exit named above).  A
second close changes nothing — same state, same ledger, no callback runs again —
from every state of every handle, for every outcome of the lower layers. -/
theorem close_idempotent_partial (h : Handle) (o1 o2 : Outcome) (halive : h.alive = true)
    (hds : DiskState h) (hne : ¬ ErrorExitOfFinish h o1) :
    CloseIdem h o1 o2 := by
  unfold CloseIdem
  cases hk : h.kind with
  | «match» =>
    have e : ∀ o, (step h .close o).1 = h := fun o => by rw [step_close h o halive, hk]
    rw [e, e]
  | read =>
    have e : (step h .close o1).1 = (rClose o1 h).1 := by rw [step_close h o1 halive, hk]
    rw [e, rClose_fst o1 h hk]
    by_cases hc : h.st = .closed
    · simp only [hc, if_true]
      rw [step_close h o2 halive, hk]; simp only; rw [rClose_fst o2 h hk]; simp [hc]
    · simp only [hc, if_false]
      have ha : (rCloseFilters { h with st := St.closed }).alive = true := by simpa using halive
      have hk' : (rCloseFilters { h with st := St.closed }).kind = .read := by simpa using hk
      rw [step_close _ o2 ha, hk']; simp only; rw [rClose_fst o2 _ hk']; simp
  | write =>
    have e : (step h .close o1).1 = (wClose o1 h).1 := by rw [step_close h o1 halive, hk]
    rw [e, wClose_fst o1 h hk]
    by_cases h1 : h.st = .new ∨ h.st = .closed
    · simp only [h1, if_true]
      rw [step_close h o2 halive, hk]; simp only; rw [wClose_fst o2 h hk]; simp [h1]
    · simp only [h1, if_false]
      by_cases h2 : h.st = .fatal
      · simp only [h2, if_true]
        have ha : (wCloseFilters h).alive = true := by simpa using halive
        have hk' : (wCloseFilters h).kind = .write := by simpa using hk
        rw [step_close _ o2 ha, hk']; simp only; rw [wClose_fst o2 _ hk']
        simp [h2, wCloseFilters_idem]
      · simp only [h2, if_false]
        have ha : ({ wCloseFilters (if h.st = .data then relEnt h else h) with st := St.closed } : Handle).alive = true := by
          by_cases hd : h.st = .data <;> simp [hd, halive]
        have hk' : ({ wCloseFilters (if h.st = .data then relEnt h else h) with st := St.closed } : Handle).kind = .write := by
          by_cases hd : h.st = .data <;> simp [hd, hk]
        rw [step_close _ o2 ha, hk']; simp only; rw [wClose_fst o2 _ hk']; simp
        by_cases hd : h.st = .data <;> simp [hd, hk]
  | readDisk =>
    have e : (step h .close o1).1 = (kClose h).1 := by rw [step_close h o1 halive, hk]
    rw [e, kClose_fst h hk]
    have ha : (kCloseTree (if h.st = .fatal then h else { h with st := .closed })).alive = true := by
      by_cases hd : h.st = .fatal <;> simp [hd, halive]
    have hk' : (kCloseTree (if h.st = .fatal then h else { h with st := .closed })).kind = .readDisk := by
      by_cases hd : h.st = .fatal <;> simp [hd, hk]
    rw [step_close _ o2 ha, hk']; simp only; rw [kClose_fst _ hk']
    by_cases hf : h.st = .fatal <;> simp [hf, kCloseTree] <;> split <;> simp_all
  | writeDisk =>
    have e : (step h .close o1).1 = (dClose o1 h).1 := by rw [step_close h o1 halive, hk]
    rw [e, dClose_fst o1 h hk]
    have hst := hds hk
    have key : ∀ g : Handle, g.alive = true → g.kind = .writeDisk → g.fixups = 0 →
        ((g.st = .fatal ∧ g.fd = false ∧ g.ent = false) ∨ (g.st = .header)) →
        (step g .close o2).1 = g := by
      intro g ga gk gf gs
      rw [step_close g o2 ga, gk]; simp only; rw [dClose_fst o2 g gk]
      rcases gs with ⟨g1, g2, g3⟩ | g1
      · cases g; simp_all [relFixups, relEnt, relFd]
      · cases g; simp_all [relFixups]
    rcases hst with h1 | h1 | h1
    · simp only [h1, if_true, if_false, reduceCtorEq]
      exact key _ (by simpa using halive) (by simpa using hk) (by simp) (Or.inr (by simpa using h1))
    · have hna : ¬ o1.alt = 2 := fun ha => hne ⟨hk, h1, ha⟩
      simp only [h1, if_true, if_false, reduceCtorEq, hna]
      exact key _ (by simpa using halive) (by simpa using hk) (by simp) (Or.inr (by simp))
    · simp only [h1, if_true]
      exact key _ (by simpa using halive) (by simpa using hk) (by simp) (Or.inl ⟨by simpa using h1, by simp, by simp⟩)

example : CloseIdem (run (new .read) [(.plain "archive_read_support_format_all", {}),
    (.rOpen none true, { n := 2 }), (.rNextHeader, {})]).1 { rc2 := .warn } {} := by decide

/-- **free_from_any_state.**  `free` is accepted in every state — NEW, HEADER,
DATA, EOF, CLOSED and FATAL alike, whatever the handle owns — for all five
kinds: the struct is gone afterwards (and the call was not refused). -/
theorem free_from_any_state (h : Handle) (o : Outcome) (halive : h.alive = true) :
    (step h .free o).1.alive = false := by
  cases hk : h.kind with
  | read => simp [step, stepCore, halive, hk, Op.belongs, rFree, chk_read_archive_read_free h _ hk]
  | write => simp [step, stepCore, halive, hk, Op.belongs, wFree, chk_write_archive_write_free h _ hk]
  | writeDisk => simp [step, stepCore, halive, hk, Op.belongs, dFree, chk_writeDisk_archive_write_disk_free h _ hk]
  | readDisk => simp [step, stepCore, halive, hk, Op.belongs, kFree, chk_readDisk_archive_read_free h _ hk]
  | «match» => simp [step, stepCore, halive, hk, Op.belongs, chk_match_archive_match_free h _ hk]

/-- **close_accepted.**  `close` is not refused in any state a handle can be in
(every state for readers, writers and disk readers; HEADER/DATA/FATAL for the
disk writer, which has no others): it never turns a handle FATAL. -/
theorem close_accepted (h : Handle) (o : Outcome) (halive : h.alive = true) (hds : DiskState h)
    (hst : h.st ≠ .fatal) : (step h .close o).1.st ≠ .fatal := by
  rw [step_close h o halive]
  cases hk : h.kind with
  | read =>
    simp only; rw [rClose_fst o h hk]
    by_cases hc : h.st = .closed <;> simp [hc, hst]
  | write =>
    simp only; rw [wClose_fst o h hk]
    by_cases h1 : h.st = .new ∨ h.st = .closed
    · simp [h1, hst]
    · simp [h1, hst]
  | writeDisk =>
    simp only; rw [dClose_fst o h hk]
    rcases hds hk with h1 | h1 | h1
    · simp [h1]
    · simp [h1]; split <;> simp [h1]
    · exact absurd h1 hst
  | readDisk =>
    simp only; rw [kClose_fst h hk]; simp [hst]
  | «match» => simpa using hst

example : (step (new .writeDisk) .free {}).1.alive = false := by decide

/-! ## no_entry_after_eof_or_fatal (reader) -/

/-- **no_entry_after_eof_or_fatal.**  Once `archive_read_next_header` has
returned ARCHIVE_EOF or ARCHIVE_FATAL, no later `next_header` on that reader
returns an entry (OK or WARN) — for every continuation of calls (including
close, re-open attempts, free) and every outcome of the lower layers. -/
theorem no_entry_after_eof_or_fatal (h : Handle) (hk : h.kind = .read) (halive : h.alive = true)
    (o : Outcome) (hr : (step h .rNextHeader o).2 = .eof ∨ (step h .rNextHeader o).2 = .fatal)
    (rest : List (Op × Outcome)) :
    yields rest (run (step h .rNextHeader o).1 rest).2 = false :=
  ended_never_yields rest _ (by rw [step_kind]; exact hk) (next_header_ends h hk halive o hr)

/-- A failed reader (state FATAL, however it got there) never yields an entry again. -/
theorem no_entry_after_failure (h : Handle) (hk : h.kind = .read) (hf : h.st = .fatal)
    (rest : List (Op × Outcome)) : yields rest (run h rest).2 = false :=
  ended_never_yields rest h hk (Or.inr (Or.inr hf))

example : let h := (run (new .read) [(.plain "archive_read_support_format_all", {}),
      (.rOpen none true, {}), (.rNextHeader, {})]).1
    (step h .rNextHeader { rc := .eof }).2 = .eof ∧ h.st = .data := by decide

/-! ## released_exactly_once -/

/-- Full strength: after `free`, whatever came before, nothing is left, nothing
was released twice, nothing was dropped. -/
def ReleasedExactlyOnce : Prop :=
  ∀ (k : Kind) (hist : List (Op × Outcome)) (o : Outcome), Clean (step (run (new k) hist).1 .free o).1

/-- The full statement is false: a writer whose format allocated a per-entry
compressor in `write_header` (zip: one deflate stream per regular file) and that
is failed before `finish_entry` ran never releases it — `close` skips
`finish_entry` in the FATAL state and the format's `free` does not know about it.
Witness: set_format, open, write_header (compressor allocated), fail, free. -/
theorem releasedExactlyOnce_false : ¬ ReleasedExactlyOnce := by
  intro hr
  have := hr .write [(.wSetFormat "archive_write_set_format_zip", {}), (.wOpen none, { n := 1 }),
    (.wHeader, { flag := true }), (.fail, {})] {}
  revert this
  decide

/-- **released_exactly_once** (`_partial`: excludes formats with a per-entry
compressor, see `releasedExactlyOnce_false`).  For every handle kind and every
history of calls — any order, repeated, after errors, with any lower-layer
outcomes, including earlier frees — `free` leaves the ledger empty (handle,
registered blocks, filter objects and their open state, the client's stream or
data, the entry clone and descriptor, the fix-up list, the directory tree and
its handles), and no resource was released twice or dropped along the way. -/
theorem released_exactly_once_partial (k : Kind) (hist : List (Op × Outcome)) (o : Outcome)
    (hn : NoEntryCompressor hist) : Clean (step (run (new k) hist).1 .free o).1 := by
  rcases good_run hist (new k) (Or.inl (inv_new k)) hn with hi | hc
  · exact free_clean _ o hi
  · rw [clean_dead _ hc]; exact hc

/-- Nothing is released twice or dropped at any point of any history (not only at the end). -/
theorem never_double_release (k : Kind) (hist : List (Op × Outcome)) (hn : NoEntryCompressor hist) :
    (run (new k) hist).1.bad = 0 ∧ (run (new k) hist).1.lost = 0 := by
  rcases good_run hist (new k) (Or.inl (inv_new k)) hn with hi | hc
  · exact ⟨hi.2.1, hi.2.2.1⟩
  · exact ⟨hc.2.1, hc.2.2⟩

/-- The disk writer is only ever in HEADER, DATA or FATAL (used by `close_idempotent_partial`). -/
theorem wdisk_states (hist : List (Op × Outcome)) (hn : NoEntryCompressor hist)
    (ha : (run (new .writeDisk) hist).1.alive = true) : DiskState (run (new .writeDisk) hist).1 := by
  intro hk
  rcases good_run hist (new .writeDisk) (Or.inl (inv_new _)) hn with hi | hc
  · exact ((inv_writeDisk _ hk).mp hi).2.2.2.2.2.2.2.1
  · have := ((clean_iff _).mp hc).1; rw [ha] at this; cases this

example : NoEntryCompressor [(.dHeader, { flag := true, n := 2 }), (.fail, {})] := by
  intro p hp; simp at hp; rcases hp with rfl | rfl <;> simp

example : Clean (step (run (new .writeDisk) [(.dHeader, { flag := true, n := 2 }), (.fail, {})]).1 .free {}).1 := by
  decide

end LA.C07
