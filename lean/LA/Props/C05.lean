/-
C05 — Results do not depend on read block sizes or on the byte source.

Every format reader and read filter of libarchive obtains archive bytes only
through `__archive_read_filter_ahead` / `__archive_read_filter_consume` /
`__archive_read_filter_seek` (model: `LA.RA`, file LA/Model/ReadAhead.lean).
The theorems below say that what any client of that interface can observe is a
function of the byte stream alone: not of how the read callback cut it into
blocks (before or after a seek), not of whether (or how eagerly) a well-behaved
skip callback is offered, and not of how the bytes are spread over the data
nodes of a multivolume set.
Helper lemmas: LA/Lemmas/ReadAhead*.lean.

What is excluded, by name:
* `NoSeekSkip`: a source with a seek callback but no skip callback (the seeker branch of
  `client_skip_proxy` compares a node-relative offset with the stream position; open
  finding "skip-by-seek");
* `SpecSafe`: the client does not read between a seek that was refused for a target
  outside the stream and the next successful seek (`__archive_read_filter_seek` has then
  already moved the client but not reset the filter; open finding "seek-failure-desync",
  `failed_seek_leaves_stream_false` in C08).
-/
import LA.Lemmas.ReadAheadSeekOpen
import LA.Lemmas.ReadAheadSeekAsFound
namespace LA.C05
open LA.RA

/-- A client of the peek/consume/seek interface: it may look at the first `min` bytes
of the window (`min ≤ 2^62`; the C would fail the allocation long before) and
choose its next step from everything it has seen so far. -/
inductive Prog (α : Type) where
  | ret (a : α)
  | ahead (min : Nat) (h : min ≤ 2 ^ 62) (k : Obs → Prog α)
  | consume (n : Int) (k : Int → Prog α)
  | seek (off : Int) (w : Whence) (k : Int → Prog α)

/-- Run a client against the implementation model. -/
def runImpl {α : Type} : Prog α → State → α
  | .ret a, _ => a
  | .ahead min _ k, s => runImpl (k (obsOf min (ahead s min).1)) (ahead s min).2
  | .consume n k, s => runImpl (k (consume s n).1) (consume s n).2
  | .seek off w k, s => runImpl (k (RA.seek s off w).1) (RA.seek s off w).2

/-- Run a client against the abstract stream (`SSpec`: all bytes + position). -/
def runSpec {α : Type} : Prog α → SSpec → α
  | .ret a, _ => a
  | .ahead min _ k, sp => runSpec (k (sspecAhead sp min).1) (sspecAhead sp min).2
  | .consume n k, sp => runSpec (k (sspecConsume sp n).1) (sspecConsume sp n).2
  | .seek off w k, sp => runSpec (k (specSeek sp off w).1) (specSeek sp off w).2

/-- (Boolean form of `SpecSafe`, so that it can be evaluated.) -/
def specSafeB {α : Type} : Prog α → SSpec → Bool
  | .ret _, _ => true
  | .ahead min _ k, sp => !sp.lost && specSafeB (k (sspecAhead sp min).1) (sspecAhead sp min).2
  | .consume n k, sp => !sp.lost && specSafeB (k (sspecConsume sp n).1) (sspecConsume sp n).2
  | .seek off w k, sp => specSafeB (k (specSeek sp off w).1) (specSeek sp off w).2

/-- The client does not read while the position is `lost` (between a seek refused for a target
outside the stream and the next successful seek).  Seeking again is always allowed. -/
def SpecSafe {α : Type} (p : Prog α) (sp : SSpec) : Prop := specSafeB p sp = true

theorem specSafe_ahead {α : Type} {min : Nat} {h : min ≤ 2 ^ 62} {k : Obs → Prog α} {sp : SSpec}
    (hs : SpecSafe (.ahead min h k) sp) :
    sp.lost = false ∧ SpecSafe (k (sspecAhead sp min).1) (sspecAhead sp min).2 := by
  simpa [SpecSafe, specSafeB] using hs

theorem specSafe_consume {α : Type} {n : Int} {k : Int → Prog α} {sp : SSpec}
    (hs : SpecSafe (.consume n k) sp) :
    sp.lost = false ∧ SpecSafe (k (sspecConsume sp n).1) (sspecConsume sp n).2 := by
  simpa [SpecSafe, specSafeB] using hs

/-- Without seek capability nothing is ever lost: every client is safe. -/
theorem specSafe_of_noseek {α : Type} (p : Prog α) (sp : SSpec) (hc : sp.canSeek = false) (hl : sp.lost = false) :
    SpecSafe p sp := by
  induction p generalizing sp with
  | ret a => rfl
  | ahead min h k ih =>
    have := ih (sspecAhead sp min).1 (sspecAhead sp min).2 hc hl
    simp only [SpecSafe, specSafeB, hl] at this ⊢
    simpa using this
  | consume n k ih =>
    have := ih (sspecConsume sp n).1 (sspecConsume sp n).2 hc hl
    simp only [SpecSafe, specSafeB, hl] at this ⊢
    simpa using this
  | seek off w k ih =>
    have : specSeek sp off w = (if sp.fatal then (-30, sp) else (-25, sp)) := by
      unfold specSeek; simp [hc]
    simp only [SpecSafe, specSafeB, this]
    split <;> exact ih _ _ hc hl

/-- The implementation model refines the abstract stream for every client, from every pair of
coupled states. -/
theorem run_rel {α : Type} (p : Prog α) (s : State) (sp : SSpec) (hr : Rel s sp) (hsk : SkipsOk s.skips)
    (hns : NoSeekSkip s) (hq : SeeksOk s.seeks) (hsafe : SpecSafe p sp) :
    runImpl p s = runSpec p sp := by
  induction p generalizing s sp with
  | ret a => rfl
  | ahead min h k ih =>
    obtain ⟨hl, hsafe'⟩ := specSafe_ahead hsafe
    obtain ⟨i1, i2⟩ := ahead_rel s sp min hr hl h
    have hi := (hr.sync hl).1
    simp only [runImpl, runSpec]
    rw [i2]
    exact ih _ _ _ i1 (by rw [(ahead_refines s min hi h).2.1]; exact hsk)
      (noSeekSkip_of_static (ahead_static s min) hns) (by rw [ahead_seeks]; exact hq) hsafe'
  | consume n k ih =>
    obtain ⟨hl, hsafe'⟩ := specSafe_consume hsafe
    obtain ⟨i1, i2⟩ := consume_rel s sp n hr hl hsk hns
    simp only [runImpl, runSpec]
    rw [i2]
    exact ih _ _ _ i1 (consume_skips s n hsk) (noSeekSkip_of_static (consume_static s n).1 hns)
      ((consume_static s n).2 hq) hsafe'
  | seek off w k ih =>
    obtain ⟨i1, i2⟩ := seek_rel s sp off w hr hq
    simp only [runImpl, runSpec]
    rw [i2]
    have hfr : (RA.seek s off w).2.skips = s.skips ∧ NoSeekSkip (RA.seek s off w).2 := seek_keeps s sp off w hr hns
    exact ih _ _ _ i1 (by rw [hfr.1]; exact hsk) hfr.2 (seek_seeksOk s off w hr hq) hsafe

/-- **Refinement for every client**, from every state satisfying the representation invariant:
running the client on the C-shaped state equals running it on the abstract stream. -/
theorem run_refines {α : Type} (p : Prog α) (s : State) (hi : Inv s) (hsk : SkipsOk s.skips)
    (hns : NoSeekSkip s) (hq : SeeksOk s.seeks) (hr : SeekReady s) (hsafe : SpecSafe p (absStream s)) :
    runImpl p s = runSpec p (absStream s) :=
  run_rel p s (absStream s) (rel_absStream s hi hr) hsk hns hq hsafe

/-- Freshly opened filter over a block script (no seek callback). -/
def open_ (src : List (List Nat)) (t : Term) (skips : List Int) (canSkip : Bool) : State :=
  { src := src, term := t, skips := skips, canSkip := canSkip }

/-- A multi-volume set: the first data node's blocks and the following nodes' blocks. -/
def openNodes (src : List (List Nat)) (later : List (List (List Nat))) (t : Term) (skips : List Int)
    (canSkip : Bool) : State :=
  { src := src, later := later, term := t, skips := skips, canSkip := canSkip }

/-- Sequential sources (any `Prog`, seeks included: they are refused with ARCHIVE_FAILED and
change nothing). -/
theorem run_refines_sequential {α : Type} (p : Prog α) (s : State) (hi : Inv s) (hsk : SkipsOk s.skips)
    (hns : NoSeekSkip s) (hcs : s.canSeek = false) (hq : SeeksOk s.seeks) :
    runImpl p s = runSpec p (absStream s) :=
  run_refines p s hi hsk hns hq (seekReady_of_noseek s hcs) (specSafe_of_noseek p _ hcs rfl)

/-- **C05, partition independence.**  Two sources that deliver the same bytes
(in blocks of any sizes, down to one byte at a time) and end the same way give
every client the same results, whatever skip capability each offers. -/
theorem partition_independent {α : Type} (p : Prog α) (src1 src2 : List (List Nat)) (t : Term)
    (sk1 sk2 : List Int) (cs1 cs2 : Bool)
    (h1 : SrcOk src1) (h2 : SrcOk src2) (hcat : src1.flatten = src2.flatten)
    (hk1 : SkipsOk sk1) (hk2 : SkipsOk sk2) :
    runImpl p (open_ src1 t sk1 cs1) = runImpl p (open_ src2 t sk2 cs2) := by
  have e1 := run_refines_sequential p (open_ src1 t sk1 cs1) (inv_init src1 t sk1 cs1 h1) hk1 (Or.inl rfl) rfl
    (by intro a ha; cases ha)
  have e2 := run_refines_sequential p (open_ src2 t sk2 cs2) (inv_init src2 t sk2 cs2 h2) hk2 (Or.inl rfl) rfl
    (by intro a ha; cases ha)
  rw [e1, e2]
  congr 1
  simp [absStream, open_, remaining, hcat]

/-- **C05, multi-volume sets.**  Several sources opened as one multi-volume set
(`archive_read_open_filenames`, `archive_read_append_callback_data`), each cut into
read blocks in any way, give every client exactly what the single source holding
the concatenation of their bytes gives — wherever the volume borders fall, also
inside a header or a field. -/
theorem multivolume_concat {α : Type} (p : Prog α) (src1 : List (List Nat)) (later1 : List (List (List Nat)))
    (src2 : List (List Nat)) (later2 : List (List (List Nat))) (t : Term) (sk1 sk2 : List Int) (cs1 cs2 : Bool)
    (h1 : SrcOk src1) (hl1 : ∀ n ∈ later1, SrcOk n) (h2 : SrcOk src2) (hl2 : ∀ n ∈ later2, SrcOk n)
    (hcat : src1.flatten ++ later1.flatten.flatten = src2.flatten ++ later2.flatten.flatten)
    (hk1 : SkipsOk sk1) (hk2 : SkipsOk sk2) :
    runImpl p (openNodes src1 later1 t sk1 cs1) = runImpl p (openNodes src2 later2 t sk2 cs2) := by
  have e1 := run_refines_sequential p (openNodes src1 later1 t sk1 cs1) (inv_init_nodes src1 later1 t sk1 cs1 h1 hl1)
    hk1 (Or.inl rfl) rfl (by intro a ha; cases ha)
  have e2 := run_refines_sequential p (openNodes src2 later2 t sk2 cs2) (inv_init_nodes src2 later2 t sk2 cs2 h2 hl2)
    hk2 (Or.inl rfl) rfl (by intro a ha; cases ha)
  rw [e1, e2]
  congr 1
  simp [absStream, openNodes, remaining, hcat]

/-- Non-vacuity: a header split over three volumes against the single-volume source. -/
example : SrcOk [[1, 2]] ∧ (∀ n ∈ [[[3]], [[4, 5]]], SrcOk n) ∧ SrcOk [[1, 2, 3, 4, 5]] ∧
    ([[1, 2]] : List (List Nat)).flatten ++ ([[[3]], [[4, 5]]] : List (List (List Nat))).flatten.flatten =
      ([[1, 2, 3, 4, 5]] : List (List Nat)).flatten ++ ([] : List (List (List Nat))).flatten.flatten := by
  refine ⟨by simp [SrcOk], ?_, by simp [SrcOk], by decide⟩
  intro n hn; simp at hn; rcases hn with rfl | rfl <;> simp [SrcOk]

/-- Non-vacuity: two different partitions of the same five bytes, one with a skip
callback and one without, satisfy the hypotheses. -/
example : SrcOk [[1, 2], [3, 4, 5]] ∧ SrcOk [[1], [2], [3], [4], [5]] ∧
    [[1, 2], [3, 4, 5]].flatten = [[1], [2], [3], [4], [5]].flatten ∧ SkipsOk [3, 0] ∧ SkipsOk [] := by
  refine ⟨?_, ?_, by decide, ?_, ?_⟩ <;> simp [SrcOk, SkipsOk]

/-! ### Seekable sources -/

/-- **C05 with seeks: partition, re-blocking and volume independence.**  Two seekable sources
that hold the same bytes — spread over any number of data nodes of any sizes (empty ones
included), each delivering its bytes in blocks cut by any function of (number of seeks so far,
node, offset), with or without a skip callback that answers anything legal — give every client
the same results, also when it seeks: SEEK_SET / SEEK_CUR / SEEK_END, across node borders in
both directions, to targets inside or outside the stream.  (The client must not read between a
refused out-of-range seek and the next good one: `SpecSafe`.) -/
theorem partition_independent_seek {α : Type} (p : Prog α) (nodes1 nodes2 : List (List Nat))
    (blk1 blk2 : Nat → Nat → Nat → Nat) (t : Term) (sk1 sk2 : List Int) (cs1 cs2 : Bool)
    (hn1 : nodes1 ≠ []) (hn2 : nodes2 ≠ []) (hcat : nodes1.flatten = nodes2.flatten)
    (hk1 : SkipsOk sk1) (hk2 : SkipsOk sk2)
    (hsafe : SpecSafe p ⟨nodes1.flatten, 0, t, false, true, false⟩) :
    runImpl p (openSeekable nodes1 blk1 t sk1 cs1) = runImpl p (openSeekable nodes2 blk2 t sk2 cs2) := by
  have e1 := run_refines p (openSeekable nodes1 blk1 t sk1 cs1) (inv_open _ _ _ _ _) hk1 (Or.inl rfl)
    (by intro a ha; cases ha) (seekReady_open _ _ _ _ _ hn1) (by rw [absStream_open]; exact hsafe)
  have e2 := run_refines p (openSeekable nodes2 blk2 t sk2 cs2) (inv_open _ _ _ _ _) hk2 (Or.inl rfl)
    (by intro a ha; cases ha) (seekReady_open _ _ _ _ _ hn2) (by rw [absStream_open, ← hcat]; exact hsafe)
  rw [e1, e2, absStream_open, absStream_open, hcat]

/-- **C05, multi-volume sets with seeks**: a seekable multi-volume set behaves as the single
seekable source holding the concatenation. -/
theorem multivolume_concat_seek {α : Type} (p : Prog α) (nodes : List (List Nat))
    (blk1 blk2 : Nat → Nat → Nat → Nat) (t : Term) (sk1 sk2 : List Int) (cs1 cs2 : Bool)
    (hn : nodes ≠ []) (hk1 : SkipsOk sk1) (hk2 : SkipsOk sk2)
    (hsafe : SpecSafe p ⟨nodes.flatten, 0, t, false, true, false⟩) :
    runImpl p (openSeekable nodes blk1 t sk1 cs1) = runImpl p (openSeekable [nodes.flatten] blk2 t sk2 cs2) :=
  partition_independent_seek p nodes [nodes.flatten] blk1 blk2 t sk1 sk2 cs1 cs2 hn (by simp) (by simp) hk1 hk2 hsafe

/-- A client that peeks, seeks to the last byte of the first volume (a node border), reads
across the border, seeks from the end and backwards over two borders. -/
def demoProg : Prog (List Obs) :=
  .ahead 2 (by decide) fun o1 => .seek 2 .set fun _ => .ahead 3 (by decide) fun o2 =>
  .seek (-1) .end_ fun _ => .ahead 1 (by decide) fun o3 => .seek (-6) .cur fun _ =>
  .ahead 4 (by decide) fun o4 => .ret [o1, o2, o3, o4]

/-- Non-vacuity of `partition_independent_seek` / `multivolume_concat_seek`: three nodes (one of
them empty) against one node, different block sizes, a client that seeks across the borders;
its hypotheses hold (`SpecSafe` is decided by running the client on the abstract stream). -/
example : ([[1, 2, 3], [], [4, 5, 6, 7]] : List (List Nat)) ≠ [] ∧
    ([[1, 2, 3], [], [4, 5, 6, 7]] : List (List Nat)).flatten = ([[1, 2, 3, 4, 5, 6, 7]] : List (List Nat)).flatten ∧
    SkipsOk [2, 0] ∧ SpecSafe demoProg ⟨[1, 2, 3, 4, 5, 6, 7], 0, .eof, false, true, false⟩ ∧
    runSpec demoProg ⟨[1, 2, 3, 4, 5, 6, 7], 0, .eof, false, true, false⟩ =
      [.ok [1, 2], .ok [3, 4, 5], .ok [7], .ok [1, 2, 3, 4]] := by
  refine ⟨by simp, by decide, by simp [SkipsOk], by unfold SpecSafe; decide, by decide⟩

/-- Non-vacuity on the C-shaped state itself: the same client on the three-node source with
2-byte blocks and a skip callback — the theorem applies and gives the result. -/
example : runImpl demoProg (openSeekable [[1, 2, 3], [], [4, 5, 6, 7]] (fun _ _ _ => 2) .eof [2, 0] true) =
    [.ok [1, 2], .ok [3, 4, 5], .ok [7], .ok [1, 2, 3, 4]] := by
  rw [run_refines demoProg _ (inv_open _ _ _ _ _) (by simp [openSeekable, seekable0, place, SkipsOk]) (Or.inl rfl)
    (by intro a ha; cases ha) (seekReady_open _ _ _ _ _ (by simp)) (by rw [absStream_open]; unfold SpecSafe; decide),
    absStream_open]
  decide

/-- **`__archive_read_filter_seek` refines "position := target, if 0 ≤ target ≤ length; else
error"** (seek callback behaving, filter not failed).  On success the representation invariant
holds again, the `dataset[]` bookkeeping stays sound, end-of-file is forgotten, and what
`ahead`/`consume` will deliver is exactly the stream from the target on; a refused seek leaves
`position` alone. -/
theorem seek_refines (s : State) (off : Int) (w : Whence) (hi : Inv s) (hc : CacheOk s) (hcs : s.canSeek = true)
    (hs : s.hasSeeker = true) (hf : s.fatal = false) (hq : SeeksOk s.seeks) :
    match targetOf s off w with
    | none => RA.seek s off w = (-30, s)
    | some t =>
      if 0 ≤ t ∧ t ≤ ((allBytes s).length : Int) then
        (RA.seek s off w).1 = t ∧ Inv (RA.seek s off w).2 ∧ CacheOk (RA.seek s off w).2 ∧
        (RA.seek s off w).2.position = t.toNat ∧ remaining (RA.seek s off w).2 = (allBytes s).drop t.toNat ∧
        (RA.seek s off w).2.eof = false ∧ (RA.seek s off w).2.fatal = false ∧
        allBytes (RA.seek s off w).2 = allBytes s
      else
        (RA.seek s off w).1 = -30 ∧ (RA.seek s off w).2.position = s.position ∧
        (RA.seek s off w).2.fatal = false ∧ CacheOk (RA.seek s off w).2 := by
  have h := seek_spec s off w hc hs hcs hf hi.bufLt
  cases ht : targetOf s off w with
  | none => rw [ht] at h; exact h
  | some t =>
    rw [ht] at h
    simp only [] at h ⊢
    rcases h with ⟨p1, p2, p3⟩ | ⟨_, p⟩
    · obtain ⟨_, p4⟩ := p3 hq
      by_cases hin : 0 ≤ t ∧ t ≤ ((allBytes s).length : Int)
      · rw [if_pos hin] at p4 ⊢
        rcases p1 with ok | bad
        · obtain ⟨o1, o2, o3, o4, o5, o6, o7⟩ := ok
          rw [p4] at o4 o5
          exact ⟨p4, o2, o3, o4, o5, o6, by rw [o7.fatal]; exact hf, by unfold allBytes; rw [o7.nodes]⟩
        · exfalso; have := bad.1; omega
      · rw [if_neg hin] at p4 ⊢
        rcases p1 with ok | bad
        · exfalso; have := ok.1; omega
        · exact ⟨p4, bad.2.1.position, by rw [bad.2.1.fatal]; exact hf, bad.2.2⟩
    · exact absurd hq p

/-- After a successful seek to `t`, a peek of `min` bytes that the stream still holds returns
exactly the bytes at offsets `t .. t+min`. -/
theorem ahead_after_seek (s : State) (off : Int) (w : Whence) (t : Int) (min : Nat) (hi : Inv s) (hc : CacheOk s)
    (hcs : s.canSeek = true) (hs : s.hasSeeker = true) (hf : s.fatal = false) (hq : SeeksOk s.seeks)
    (ht : targetOf s off w = some t) (hin : 0 ≤ t ∧ t ≤ ((allBytes s).length : Int))
    (hmin : min ≤ 2 ^ 62) (hle : t.toNat + min ≤ (allBytes s).length) :
    obsOf min (ahead (RA.seek s off w).2 min).1 = .ok (((allBytes s).drop t.toNat).take min) := by
  have h := seek_refines s off w hi hc hcs hs hf hq
  rw [ht] at h
  simp only [hin, and_self, if_true] at h
  obtain ⟨_, h2, _, _, h5, _, h7, _⟩ := h
  have := (ahead_refines (RA.seek s off w).2 min h2 hmin).2.2.1
  rw [this]
  simp only [specAhead, absN, h7, Bool.false_eq_true, if_false, h5]
  have hm : min ≤ (allBytes s).length - t.toNat := by omega
  simp [hm]

/-- Non-vacuity of `seek_refines`: the freshly opened three-node source satisfies its
hypotheses (any multi-node source does). -/
example : Inv (openSeekable [[1, 2, 3], [], [4, 5, 6, 7]] (fun _ _ _ => 2) .eof [] true) ∧
    CacheOk (openSeekable [[1, 2, 3], [], [4, 5, 6, 7]] (fun _ _ _ => 2) .eof [] true) ∧
    (openSeekable [[1, 2, 3], [], [4, 5, 6, 7]] (fun _ _ _ => 2) .eof [] true).canSeek = true ∧
    SeeksOk (openSeekable [[1, 2, 3], [], [4, 5, 6, 7]] (fun _ _ _ => 2) .eof [] true).seeks ∧
    targetOf (openSeekable [[1, 2, 3], [], [4, 5, 6, 7]] (fun _ _ _ => 2) .eof [] true) (-5) .end_ = some 2 :=
  ⟨inv_open _ _ _ _ _, cacheOk_open _ _ _ _ _ (by simp), rfl, (by intro a ha; cases ha), (by decide)⟩

/-! ### The code as it was found (three defects, repaired by `fix:` commits) -/

/-- Volumes of 5 and 3 bytes, freshly opened. -/
def twoVolumes : State := openSeekable [[1, 2, 3, 4, 5], [6, 7, 8]] (fun _ _ _ => 2) .eof [] true

/-- The property `seek_refines` demands of SEEK_SET, for the code as found. -/
def SeekSetAsFoundRefines : Prop :=
  ∀ (nodes : List (List Nat)) (blk : Nat → Nat → Nat → Nat) (t : Int), nodes ≠ [] →
    0 ≤ t → t ≤ (nodes.flatten.length : Int) →
    (AsFound.seekSet (openSeekable nodes blk .eof [] true) t).1 = t

/-- **Finding (repaired): seeking to the last byte of a volume of a multivolume set failed.**
Offset 4 of volumes of 5 and 3 bytes lies inside the stream; the code as found answered
ARCHIVE_FATAL (-30), the repaired code positions the stream there. -/
theorem seek_set_as_found_fails_at_volume_border :
    ¬ SeekSetAsFoundRefines ∧ (AsFound.seekSet twoVolumes 4).1 = -30 ∧
    (RA.seek twoVolumes 4 .set).1 = 4 ∧ remaining (RA.seek twoVolumes 4 .set).2 = [5, 6, 7, 8] := by
  refine ⟨fun h => ?_, by decide +kernel, by decide +kernel, by decide +kernel⟩
  have := h [[1, 2, 3, 4, 5], [6, 7, 8]] (fun _ _ _ => 2) 4 (by simp) (by decide) (by decide)
  revert this
  decide +kernel

/-- The property demanded of SEEK_END, for the code as found: a target outside the stream is
refused. -/
def SeekEndAsFoundRefuses : Prop :=
  ∀ (nodes : List (List Nat)) (blk : Nat → Nat → Nat → Nat) (off : Int), nodes ≠ [] →
    (off + (nodes.flatten.length : Int) < 0 ∨ 0 < off) →
    (AsFound.seekEnd (openSeekable nodes blk .eof [] true) off).1 < 0

/-- **Finding (repaired): SEEK_END to a target outside the stream was not refused.**  Nine bytes
before the end of the 8-byte stream is position -1: the code as found returned position 4 (the
target plus the size of the first volume); one byte behind the end it returned position 9.  The
repaired code refuses both. -/
theorem seek_end_as_found_lands_outside :
    ¬ SeekEndAsFoundRefuses ∧ (AsFound.seekEnd twoVolumes (-9)).1 = 4 ∧ (AsFound.seekEnd twoVolumes 1).1 = 9 ∧
    (RA.seek twoVolumes (-9) .end_).1 = -30 ∧ (RA.seek twoVolumes 1 .end_).1 = -30 := by
  refine ⟨fun h => ?_, by decide +kernel, by decide +kernel, by decide +kernel, by decide +kernel⟩
  have := h [[1, 2, 3, 4, 5], [6, 7, 8]] (fun _ _ _ => 2) (-9) (by simp) (by decide)
  revert this
  decide +kernel

/-- The window handed out is always a prefix of the unconsumed stream, at least
`min` long: a parser never sees bytes that are not the archive's. -/
theorem window_is_stream_prefix (s : State) (min : Nat) (hi : Inv s) (hmin : min ≤ 2 ^ 62)
    (w : List Nat) (fc : Bool) (h : (ahead s min).1 = .window w fc) :
    w <+: remaining s ∧ min ≤ w.length ∧ remaining (ahead s min).2 = remaining s := by
  unfold ahead at h ⊢
  by_cases hf : s.fatal = true
  · simp [hf] at h
  · have hf' : s.fatal = false := by simpa using hf
    simp only [hf', Bool.false_eq_true, if_false] at h ⊢
    obtain ⟨_, _, _, g4⟩ := aheadLoop_spec s min hi hf' hmin
    rw [h] at g4
    exact ⟨g4.2.1, g4.2.2.1, g4.1⟩

/-- `consume` moves the stream position by exactly the amount it reports. -/
theorem consume_exact (s : State) (n : Nat) (hi : Inv s) (hf : s.fatal = false) (hn : 0 < n)
    (hle : n ≤ (remaining s).length) (hsk : SkipsOk s.skips) (hns : NoSeekSkip s) :
    (consume s n).1 = n ∧ remaining (consume s n).2 = (remaining s).drop n ∧
    (consume s n).2.position = s.position + n := by
  have hc := consume_refines s n hi hsk hns
  obtain ⟨g1, g2, _, g4⟩ := advance_spec s n hi hf hn hns
  unfold consume at *
  have h1 : ¬ ((n : Int) < 0) := by omega
  have h2 : ¬ ((n : Int) = 0) := by omega
  simp only [h1, h2, if_false, Int.toNat_natCast] at *
  generalize advance s n = r at *
  obtain ⟨sk, s'⟩ := r
  simp only [] at *
  rcases g4 with ⟨a1, a2, a3, a4, a5⟩ | ⟨a1, a2, a3, a4, a5⟩ | ⟨a1, a2, a3⟩
  · simp [a1, a3, a4]
  · omega
  · rcases a3 with a3 | ⟨b1, _⟩
    · exact absurd hsk a3
    · omega

end LA.C05
