/-
C05 — Results do not depend on read block sizes or on the byte source.

Every format reader and read filter of libarchive obtains archive bytes only
through `__archive_read_filter_ahead` / `__archive_read_filter_consume`
(model: `LA.RA`, file LA/Model/ReadAhead.lean).  The theorems below say that
what any client of that interface can observe is a function of the byte
stream alone: not of how the read callback cut it into blocks, and not of
whether (or how eagerly) a well-behaved skip callback is offered.
Helper lemmas: LA/Lemmas/ReadAhead*.lean.
-/
import LA.Lemmas.ReadAheadSeek
namespace LA.C05
open LA.RA

/-- A client of the peek/consume interface: it may look at the first `min` bytes
of the window (`min ≤ 2^62`; the C would fail the allocation long before) and
choose its next step from everything it has seen so far. -/
inductive Prog (α : Type) where
  | ret (a : α)
  | ahead (min : Nat) (h : min ≤ 2 ^ 62) (k : Obs → Prog α)
  | consume (n : Int) (k : Int → Prog α)

/-- Run a client against the implementation model. -/
def runImpl {α : Type} : Prog α → State → α
  | .ret a, _ => a
  | .ahead min _ k, s => runImpl (k (obsOf min (ahead s min).1)) (ahead s min).2
  | .consume n k, s => runImpl (k (consume s n).1) (consume s n).2

/-- Run a client against the abstract stream. -/
def runSpec {α : Type} : Prog α → Spec → α
  | .ret a, _ => a
  | .ahead min _ k, sp => runSpec (k (specAhead sp min).1) (specAhead sp min).2
  | .consume n k, sp => runSpec (k (specConsume sp n).1) (specConsume sp n).2

/-- The implementation model refines the abstract stream for every client,
from every state satisfying the representation invariant. -/
theorem run_refines {α : Type} (p : Prog α) (s : State) (hi : Inv s) (hsk : SkipsOk s.skips)
    (hns : NoSeekSkip s) :
    runImpl p s = runSpec p (absN s) := by
  induction p generalizing s with
  | ret a => rfl
  | ahead min h k ih =>
    obtain ⟨i1, i2, i3, i4, _⟩ := ahead_refines s min hi h
    simp only [runImpl, runSpec]
    rw [i3, ← i4]
    exact ih _ _ i1 (by rw [i2]; exact hsk) (noSeekSkip_of_static (ahead_static s min) hns)
  | consume n k ih =>
    obtain ⟨i1, i2, i3⟩ := consume_refines s n hi hsk hns
    simp only [runImpl, runSpec]
    rw [i2, ← i3]
    exact ih _ _ i1 (consume_skips s n hsk) (noSeekSkip_of_static (consume_static s n).1 hns)

/-- Freshly opened filter over a block script. -/
def open_ (src : List (List Nat)) (t : Term) (skips : List Int) (canSkip : Bool) : State :=
  { src := src, term := t, skips := skips, canSkip := canSkip }

/-- **C05, partition independence.**  Two sources that deliver the same bytes
(in blocks of any sizes, down to one byte at a time) and end the same way give
every client the same results, whatever skip capability each offers. -/
theorem partition_independent {α : Type} (p : Prog α) (src1 src2 : List (List Nat)) (t : Term)
    (sk1 sk2 : List Int) (cs1 cs2 : Bool)
    (h1 : SrcOk src1) (h2 : SrcOk src2) (hcat : src1.flatten = src2.flatten)
    (hk1 : SkipsOk sk1) (hk2 : SkipsOk sk2) :
    runImpl p (open_ src1 t sk1 cs1) = runImpl p (open_ src2 t sk2 cs2) := by
  have e1 := run_refines p (open_ src1 t sk1 cs1) (inv_init src1 t sk1 cs1 h1) hk1 (Or.inl rfl)
  have e2 := run_refines p (open_ src2 t sk2 cs2) (inv_init src2 t sk2 cs2 h2) hk2 (Or.inl rfl)
  rw [e1, e2]
  congr 1
  simp [absN, open_, remaining, hcat]

/-- A multi-volume set: the first data node's blocks and the following nodes' blocks. -/
def openNodes (src : List (List Nat)) (later : List (List (List Nat))) (t : Term) (skips : List Int)
    (canSkip : Bool) : State :=
  { src := src, later := later, term := t, skips := skips, canSkip := canSkip }

/-- **C05, multi-volume sets.**  Several sources opened as one multi-volume set
(`archive_read_open_filenames`, `archive_read_append_callback_data`), each cut into
read blocks in any way, give every client exactly what the single source holding
the concatenation of their bytes gives — wherever the volume borders fall, also
inside a header or a field. -/
theorem multivolume_concat {α : Type} (p : Prog α) (src1 : List (List Nat)) (later1 : List (List (List Nat)))
    (src2 : List (List Nat)) (later2 : List (List (List Nat))) (t : Term) (sk1 sk2 : List Int) (cs1 cs2 : Bool)
    (h1 : SrcOk src1) (hl1 : ∀ n ∈ later1, SrcOk n) (h2 : SrcOk src2) (hl2 : ∀ n ∈ later2, SrcOk n)
    (hcat : src1.flatten ++ later1.flatten.flatten = src2.flatten ++ later2.flatten.flatten)
    (hk1 : SkipsOk sk1) (hk2 : SkipsOk sk2) :
    runImpl p (openNodes src1 later1 t sk1 cs1) = runImpl p (openNodes src2 later2 t sk2 cs2) := by
  have e1 := run_refines p (openNodes src1 later1 t sk1 cs1) (inv_init_nodes src1 later1 t sk1 cs1 h1 hl1) hk1 (Or.inl rfl)
  have e2 := run_refines p (openNodes src2 later2 t sk2 cs2) (inv_init_nodes src2 later2 t sk2 cs2 h2 hl2) hk2 (Or.inl rfl)
  rw [e1, e2]
  congr 1
  simp [absN, openNodes, remaining, hcat]

/-- Non-vacuity: a header split over three volumes against the single-volume source. -/
example : SrcOk [[1, 2]] ∧ (∀ n ∈ [[[3]], [[4, 5]]], SrcOk n) ∧ SrcOk [[1, 2, 3, 4, 5]] ∧
    ([[1, 2]] : List (List Nat)).flatten ++ ([[[3]], [[4, 5]]] : List (List (List Nat))).flatten.flatten =
      ([[1, 2, 3, 4, 5]] : List (List Nat)).flatten ++ ([] : List (List (List Nat))).flatten.flatten := by
  refine ⟨by simp [SrcOk], ?_, by simp [SrcOk], by decide⟩
  intro n hn; simp at hn; rcases hn with rfl | rfl <;> simp [SrcOk]

/-- Non-vacuity: two different partitions of the same five bytes, one with a skip
callback and one without, satisfy the hypotheses. -/
example : SrcOk [[1, 2], [3, 4, 5]] ∧ SrcOk [[1], [2], [3], [4], [5]] ∧
    [[1, 2], [3, 4, 5]].flatten = [[1], [2], [3], [4], [5]].flatten ∧ SkipsOk [3, 0] ∧ SkipsOk [] := by
  refine ⟨?_, ?_, by decide, ?_, ?_⟩ <;> simp [SrcOk, SkipsOk]

/-- The window handed out is always a prefix of the unconsumed stream, at least
`min` long: a parser never sees bytes that are not the archive's. -/
theorem window_is_stream_prefix (s : State) (min : Nat) (hi : Inv s) (hmin : min ≤ 2 ^ 62)
    (w : List Nat) (fc : Bool) (h : (ahead s min).1 = .window w fc) :
    w <+: remaining s ∧ min ≤ w.length ∧ remaining (ahead s min).2 = remaining s := by
  unfold ahead at h ⊢
  by_cases hf : s.fatal = true
  · simp [hf] at h
  · have hf' : s.fatal = false := by simpa using hf
    simp only [hf', Bool.false_eq_true, if_false] at h ⊢
    obtain ⟨_, _, _, g4⟩ := aheadLoop_spec s min hi hf' hmin
    rw [h] at g4
    exact ⟨g4.2.1, g4.2.2.1, g4.1⟩

/-- `consume` moves the stream position by exactly the amount it reports. -/
theorem consume_exact (s : State) (n : Nat) (hi : Inv s) (hf : s.fatal = false) (hn : 0 < n)
    (hle : n ≤ (remaining s).length) (hsk : SkipsOk s.skips) (hns : NoSeekSkip s) :
    (consume s n).1 = n ∧ remaining (consume s n).2 = (remaining s).drop n ∧
    (consume s n).2.position = s.position + n := by
  have hc := consume_refines s n hi hsk hns
  obtain ⟨g1, g2, _, g4⟩ := advance_spec s n hi hf hn hns
  unfold consume at *
  have h1 : ¬ ((n : Int) < 0) := by omega
  have h2 : ¬ ((n : Int) = 0) := by omega
  simp only [h1, h2, if_false, Int.toNat_natCast] at *
  generalize advance s n = r at *
  obtain ⟨sk, s'⟩ := r
  simp only [] at *
  rcases g4 with ⟨a1, a2, a3, a4, a5⟩ | ⟨a1, a2, a3, a4, a5⟩ | ⟨a1, a2, a3⟩
  · simp [a1, a3, a4]
  · omega
  · rcases a3 with a3 | ⟨b1, _⟩
    · exact absurd hsk a3
    · omega

end LA.C05
