import LA.Model.ReadAhead
namespace LA.C05
end LA.C05
