/-
C19 — Safe-writes extraction replaces files atomically (placeholder; theorems follow).
-/
import LA.Model.SafeWrite
namespace LA.C19
open LA.SafeWrite

theorem placeholder : atomicOk (α := Nat) 1 2 [some 1, some 2] = true := by decide

end LA.C19
