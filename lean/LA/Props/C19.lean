/-
C19 — Safe-writes extraction replaces files atomically.

Model: `LA.SafeWrite` (libarchive/archive_write_disk_posix.c: restore_entry,
la_mktemp, write_data_block, _archive_write_disk_finish_entry,
close_file_descriptor, _archive_write_disk_close), one regular-file entry
extracted with ARCHIVE_EXTRACT_SAFE_WRITES over an existing regular file, as a
function of the old content, the flags, the declared size, the data calls and
an ARBITRARY SET of failing system calls (`F : Nat → Bool`, the i-th call issued
fails when `F i`; this covers "every call as the fault" and every combination).

The theorems are about the code as repaired by the four `fix:` commits of C19.
For each unrepaired behaviour (`Legacy` switch) the full statement is refuted by a
concrete witness that is also replayed on the implementation (corpus/C19).

"The complete new file" is `expected size calls`: the bytes the caller supplied,
at the offsets it supplied them, cut at the declared size and zero-extended to
the declared size (the disk writer's documented "pad or truncate to the right
size"; a body that is shorter or longer than declared is the caller's input, not
a failure).  A write that FAILS is different: then the new file is not complete
and the target must keep the old content (`atomic_at_every_prefix` covers this:
the fault set is arbitrary).
-/
import LA.Lemmas.SafeWriteSingle
namespace LA.C19
open LA.SafeWrite

/-- Full statement 1, for a given set of unrepaired behaviours: at every crash point
(after every system call issued between header and free) the target pathname
resolves to the complete old or to the complete new content. -/
def AtomicAtEveryPrefix (L : Legacy) : Prop :=
  ∀ (F : Nat → Bool) (cfg : Cfg) (old : Bytes) (calls : List Call) (explicitFinish : Bool),
    cfg.safe = true → cfg.legacy = L → wellFormed cfg.size 0 calls →
    ∀ fs ∈ (session F cfg old calls explicitFinish).crashStates,
      fs.view .target = some old ∨ fs.view .target = some (expected cfg.size calls)

/-- No unlink of the temporary file was itself made to fail. -/
def UnlinkNotFaulted (w : World) : Prop := ∀ ev ∈ w.log, ev.op = .unlink .tmp → ev.res ≠ .inj

/-- Full statement 2: after close (and after free), whatever failed on the way, no
temporary file is left — unless the cleaning unlink was itself made to fail. -/
def NoTempAfterClose (L : Legacy) : Prop :=
  ∀ (F : Nat → Bool) (cfg : Cfg) (old : Bytes) (calls : List Call) (explicitFinish : Bool),
    cfg.safe = true → cfg.legacy = L → wellFormed cfg.size 0 calls →
    (UnlinkNotFaulted (session F cfg old calls explicitFinish).sc.w →
      (session F cfg old calls explicitFinish).sc.w.fs.view .tmp = none) ∧
    (UnlinkNotFaulted (session F cfg old calls explicitFinish).s.w →
      (session F cfg old calls explicitFinish).s.w.fs.view .tmp = none)

/-- What "the complete new file" is for the ordinary client that feeds the body with
sequential `archive_write_data` calls: the concatenation of the chunks, cut at the declared
size, zero-extended to the declared size — independent of the chunking. -/
theorem expected_sequential (size : Nat) (bs : List Bytes) :
    expected size (bs.map Call.data) = padTo size ((bs.flatten).take size) := by
  unfold expected
  rw [foldl_place_data size bs [] 0 rfl (Nat.zero_le _)]
  simp

example : expected 5 ([[1, 2], [3]].map Call.data) = [1, 2, 3, 0, 0] := by
  rw [expected_sequential]; decide

/-- After close and after free the entry is settled (`Fin`). -/
theorem session_settled (F : Nat → Bool) (cfg : Cfg) (old : Bytes) (calls : List Call) (explicitFinish : Bool)
    (hsafe : cfg.safe = true) (hleg : cfg.legacy = {}) (hwf : wellFormed cfg.size 0 calls) :
    Fin old (expected cfg.size calls) (session F cfg old calls explicitFinish).sc ∧
    Fin old (expected cfg.size calls) (session F cfg old calls explicitFinish).s := by
  obtain ⟨hpl, hh⟩ := header_spec F cfg old (expected cfg.size calls) hsafe hleg
  -- the state after the data calls is either settled already (header failed) or the
  -- first finish_entry settles it
  have key : Fin old (expected cfg.size calls)
      (finishEntry F cfg (if (header F cfg { fs := initFS old }).2 = .ok
        then runCalls F cfg (header F cfg { fs := initFS old }).1 calls
        else ((header F cfg { fs := initFS old }).1, [])).1).1 := by
    rcases hh with ⟨h1, hs, hinc, ho, hf⟩ | ⟨h1, hfin⟩
    · simp only [h1, ↓reduceIte]
      have hdi0 : DI cfg old ([], 0) (header F cfg { fs := initFS old }).1 :=
        ⟨[], hs, fun _ => ⟨by rw [hf]; rfl, ho, rfl, rfl, Nat.zero_le _⟩⟩
      obtain ⟨c, hsc, hcc⟩ := runCalls_DI (F := F) calls ([], 0) _ hdi0 hwf
      have hpl2 := (runCalls_frame F cfg (header F cfg { fs := initFS old }).1 calls).presPL hpl
      refine finishEntry_data hleg hsc hpl2 ?_
      intro hi
      have C := hcc hi
      refine ⟨C.len, Nat.le_trans C.le C.bound, ?_⟩
      unfold expected
      rw [← C.pad, padTo_padTo C.bound]
    · simp only [h1, ↓reduceIte]
      exact finishEntry_fin hfin
  unfold session closeCall
  simp only []
  cases explicitFinish with
  | true => exact ⟨finishEntry_fin key, finishEntry_fin (finishEntry_fin key)⟩
  | false => exact ⟨key, finishEntry_fin key⟩

/-- **C19, part 1.**  For every old content, flag set, declared size, data calls
(any chunking, sequential or at offsets, shorter or longer than declared, sparse or
not) and EVERY set of failing system calls: after every system call issued between
archive_write_header and archive_write_free the target name resolves to the complete
old content or to the complete new content. -/
theorem atomic_at_every_prefix : AtomicAtEveryPrefix {} := by
  intro F cfg old calls fin hsafe hleg hwf fs hfs
  obtain ⟨_, h⟩ := session_settled F cfg old calls fin hsafe hleg hwf
  simp only [Run.crashStates, List.mem_map] at hfs
  obtain ⟨ev, hev, rfl⟩ := hfs
  exact h.log ev hev

/-- **C19, part 2.**  After close, and after free, under every fault set that does
not make the cleaning unlink itself fail, no temporary file is left. -/
theorem no_temp_after_close : NoTempAfterClose {} := by
  intro F cfg old calls fin hsafe hleg hwf
  obtain ⟨h1, h2⟩ := session_settled F cfg old calls fin hsafe hleg hwf
  have aux : ∀ s : S, Fin old (expected cfg.size calls) s → UnlinkNotFaulted s.w → s.w.fs.view .tmp = none := by
    intro s hf hu
    rcases hf.notmp with ⟨ev, hm, hop, hres⟩ | h
    · exact absurd hres (hu ev hm hop)
    · simp [FS.view, FS.lookup, h]
  exact ⟨aux _ h1, aux _ h2⟩

/-- In the whole session the cleaning unlink is only issued after some other call was made to fail. -/
theorem session_unlink_after_fault (F : Nat → Bool) (cfg : Cfg) (old : Bytes) (calls : List Call)
    (explicitFinish : Bool) (hsafe : cfg.safe = true) (hleg : cfg.legacy = {})
    (hwf : wellFormed cfg.size 0 calls) :
    UAF F (session F cfg old calls explicitFinish).sc.w ∧ UAF F (session F cfg old calls explicitFinish).s.w := by
  obtain ⟨hpl, hh⟩ := header_spec F cfg old (expected cfg.size calls) hsafe hleg
  have hu0 := header_UAF F cfg old hsafe
  have hsettled := session_settled F cfg old calls explicitFinish hsafe hleg hwf
  -- same structure as `session_settled`: the first finish_entry, then idle ones
  have key : UAF F (finishEntry F cfg (if (header F cfg { fs := initFS old }).2 = .ok
        then runCalls F cfg (header F cfg { fs := initFS old }).1 calls
        else ((header F cfg { fs := initFS old }).1, [])).1).1.w ∧
      Fin old (expected cfg.size calls) (finishEntry F cfg (if (header F cfg { fs := initFS old }).2 = .ok
        then runCalls F cfg (header F cfg { fs := initFS old }).1 calls
        else ((header F cfg { fs := initFS old }).1, [])).1).1 := by
    rcases hh with ⟨h1, hs, hinc, ho, hf⟩ | ⟨h1, hfin⟩
    · simp only [h1, ↓reduceIte]
      have hi0 : IncInj F (header F cfg { fs := initFS old }).1 := fun h => by rw [hinc] at h; simp at h
      obtain ⟨⟨c, hsc⟩, hic⟩ := runCalls_shape_inc (F := F) (cfg := cfg) calls _ ⟨[], hs⟩ hi0
      have hu1 := (runCalls_frameD F cfg (header F cfg { fs := initFS old }).1 calls).presUAF
        dataOp_not_unlink hu0
      refine ⟨finishEntry_data_UAF hleg hsc hu1 hic, ?_⟩
      have hdi0 : DI cfg old ([], 0) (header F cfg { fs := initFS old }).1 :=
        ⟨[], hs, fun _ => ⟨by rw [hf]; rfl, ho, rfl, rfl, Nat.zero_le _⟩⟩
      obtain ⟨c2, hsc2, hcc⟩ := runCalls_DI (F := F) calls ([], 0) _ hdi0 hwf
      have hpl2 := (runCalls_frame F cfg (header F cfg { fs := initFS old }).1 calls).presPL hpl
      refine finishEntry_data hleg hsc2 hpl2 ?_
      intro hi
      have C := hcc hi
      refine ⟨C.len, Nat.le_trans C.le C.bound, ?_⟩
      unfold expected
      rw [← C.pad, padTo_padTo C.bound]
    · simp only [h1, ↓reduceIte]
      exact ⟨finishEntry_fin_UAF hfin hu0, finishEntry_fin hfin⟩
  unfold session closeCall
  simp only []
  cases explicitFinish with
  | true =>
    have k2 := finishEntry_fin_UAF (F := F) (cfg := cfg) key.2 key.1
    exact ⟨k2, finishEntry_fin_UAF (finishEntry_fin key.2) k2⟩
  | false => exact ⟨key.1, finishEntry_fin_UAF key.2 key.1⟩

/-- **C19, part 2 for single faults** (the property's own quantifier: "every one of those calls
failing").  When at most one call fails, whichever it is, no temporary file is left after
close nor after free — without any side condition. -/
theorem no_temp_single_fault (F : Nat → Bool) (hF : ∀ i j, F i = true → F j = true → i = j)
    (cfg : Cfg) (old : Bytes) (calls : List Call) (explicitFinish : Bool)
    (hsafe : cfg.safe = true) (hleg : cfg.legacy = {}) (hwf : wellFormed cfg.size 0 calls) :
    (session F cfg old calls explicitFinish).sc.w.fs.view .tmp = none ∧
    (session F cfg old calls explicitFinish).s.w.fs.view .tmp = none := by
  obtain ⟨u1, u2⟩ := session_unlink_after_fault F cfg old calls explicitFinish hsafe hleg hwf
  obtain ⟨n1, n2⟩ := no_temp_after_close F cfg old calls explicitFinish hsafe hleg hwf
  have aux : ∀ w : World, UAF F w → UnlinkNotFaulted w := by
    intro w hu ev hm hop hres
    obtain ⟨l1, l2, hl⟩ := List.append_of_mem hm
    obtain ⟨k, hk, hfk, hfl⟩ := hu l1 ev l2 hl hop hres
    have := hF k l1.length hfk hfl
    omega
  exact ⟨n1 (aux _ u1), n2 (aux _ u2)⟩

/-! ### non-vacuity: the hypotheses are satisfiable, and both outcomes occur -/

/-- Unfolding of the write loop for a non-sparse write that needs no seek (used only to
evaluate the concrete witnesses below; `writeLoop` is defined by well-founded recursion). -/
theorem writeLoop_noseek (F : Nat → Bool) (s : S) (a : Nat) (t : Bytes) (h : s.wd.offset = s.wd.fdOffset) :
    writeLoop F 0 (a :: t) s =
      (let r := sys F s.w (.write s.wd.offset (a :: t))
       if !r.2.isOk then
         (⟨{ s.wd with offset := s.wd.offset, fdOffset := s.wd.offset, incomplete := true }, r.1⟩, some .warn)
       else (⟨{ s.wd with offset := s.wd.offset + (t.length + 1), fdOffset := s.wd.offset + (t.length + 1) }, r.1⟩,
             none)) := by
  rw [writeLoop]
  simp [h]
  split
  · rfl
  · rw [writeLoop]; simp

/-- Evaluates a concrete session by rewriting (a test-style computation, used for witnesses only). -/
macro "safe_eval" : tactic => `(tactic|
  simp [session, header, restoreEntry, laMktemp, runCalls, runCall, dataCall, blockCall, writeDataBlock,
    writeLoop_noseek, finishEntry, extendFile, padFallback, lazyStat, closeFd, fixups, setMode, setOwnership,
    setTimes, finishMetadata, closeCall, sys, FS.step, initFS, FS.lookup, FS.view, FS.bind, FS.setIno, Res.ofOpt,
    Res.isOk, Res.val, writeAt, truncTo, padTo, zeros, Status.worse, Status.rank, Run.crashStates, expected, place,
    wellFormed, UnlinkNotFaulted])

example : wellFormed 10 0 [.data [1, 2, 3], .block 5 [4, 5], .data [6, 7, 8, 9]] := by simp [wellFormed]

/-- A single-element fault set satisfies the hypothesis of `no_temp_single_fault`. -/
example : ∀ i j, (fun k => k == 5) i = true → (fun k => k == 5) j = true → i = j := by
  intro i j hi hj; simp at hi hj; omega

/-- Without faults the new content is installed (the `new` disjunct of atomicity is reached)… -/
example : (session (fun _ => false) { size := 3 } [7] [.data [1, 2, 3]] true).s.w.fs.view .target
    = some [1, 2, 3] := by safe_eval

/-- …a body shorter than declared is zero-extended, a longer one is cut… -/
example : (session (fun _ => false) { size := 4 } [7] [.data [1, 2]] false).s.w.fs.view .target
    = some (expected 4 [.data [1, 2]]) ∧ expected 4 [.data [1, 2]] = [1, 2, 0, 0] := by safe_eval
example : (session (fun _ => false) { size := 2 } [7] [.data [1, 2, 3]] false).s.w.fs.view .target
    = some [1, 2] := by safe_eval

/-- …and a failed write (call 4 = the write) keeps the old file and removes the temporary file. -/
example : (session (fun i => i == 4) { size := 3 } [7] [.data [1, 2, 3]] true).s.w.fs.view .target = some [7] ∧
    (session (fun i => i == 4) { size := 3 } [7] [.data [1, 2, 3]] true).s.w.fs.view .tmp = none ∧
    (session (fun i => i == 4) { size := 3 } [7] [.data [1, 2, 3]] true).fin = some .failed := by safe_eval

/-! ### the unrepaired code: each full statement is false, with the witness replayed in corpus/C19 -/

/-- Unrepaired `la_mktemp` (no unlink when fchmod fails): fchmod = call 3 fails → `f.XXXXXX` stays. -/
theorem no_temp_false_legacy_mktemp : ¬ NoTempAfterClose { mktempLeak := true } := by
  intro h
  have := (h (fun i => i == 3) { size := 0, legacy := { mktempLeak := true } } [7] [] true rfl rfl trivial).2
  revert this
  safe_eval

/-- Unrepaired error paths of finish_entry (`close_file_descriptor(a); return`): ftruncate (call 4)
and the lseek of the fallback (call 6) fail → the temporary file stays. -/
theorem no_temp_false_legacy_finish : ¬ NoTempAfterClose { finishLeak := true } := by
  intro h
  have := (h (fun i => i == 4 || i == 6) { size := 10, legacy := { finishLeak := true } } [7] [] true
    rfl rfl trivial).2
  revert this
  safe_eval

/-- Unrepaired finish_entry after a failed write (call 4): the zero-extended temporary file `[0,0,0]`
is renamed over the target, which then is neither the old `[7]` nor the new `[1,2,3]`. -/
theorem atomic_false_legacy_failed_write : ¬ AtomicAtEveryPrefix { renameAfterFailedWrite := true } := by
  intro h
  have := h (fun i => i == 4) { size := 3, legacy := { renameAfterFailedWrite := true } } [7]
    [.data [1, 2, 3]] true rfl rfl (by simp [wellFormed])
  revert this
  safe_eval

/-- Unrepaired `lazy_stat` (falls back to lstat of the file being replaced): ftruncate (4) and fstat (5)
fail, the old file is not shorter than the declared size → the empty temporary file is renamed. -/
theorem atomic_false_legacy_stat_target : ¬ AtomicAtEveryPrefix { statTarget := true } := by
  intro h
  have := h (fun i => i == 4 || i == 5) { size := 2, legacy := { statTarget := true } } [9, 9, 9] [] true
    rfl rfl trivial
  revert this
  safe_eval

/-- Contrast: without ARCHIVE_EXTRACT_SAFE_WRITES the same extraction is not atomic (after the unlink
the target name does not exist), so `cfg.safe = true` is a real hypothesis. -/
theorem not_atomic_without_safe_writes :
    ∃ fs ∈ (session (fun _ => false) { safe := false, size := 3 } [7] [.data [1, 2, 3]] true).crashStates,
      fs.view .target = none := by
  safe_eval

end LA.C19
