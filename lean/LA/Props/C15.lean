/-
C15 — ACLs survive conversion to text and back.

Property theorems over `LA.Acl` (model of libarchive/archive_acl.c: `archive_acl_to_text_l` /
`_w`, `archive_acl_text_len`, `archive_acl_from_text_nl` / `_w`, `archive_acl_add_entry*`).
Helper lemmas live in `LA/Lemmas/Acl.lean`.  `wide = false` is the `char` copy of the code,
`wide = true` the `wchar_t` copy; every theorem is for both.

Hypotheses that recur:
* `WF acl` — what `archive_acl_add_entry` builds (`wf_reachable` below): entries of one family
  whose type is one of the six ACL types, C `int` ids, no mode-mapped ACCESS entry in the list,
  no two POSIX.1e entries with the same key, `acl_types` the OR of the entry types.
* `QualProp e` — the quantifier of the property: a user/group entry has an id in 0..2^31-1 (a
  named one may also have none) and a name free of colon, comma and white space, not purely
  numeric (and, being a C string, free of NUL); the other tags carry no qualifier.
* `hasFlag flags styleExtraId` — "a style that includes ids".
-/
import LA.Lemmas.Acl
set_option linter.unusedVariables false
set_option linter.unusedSimpArgs false
namespace LA.C15
open LA.Acl LA.Gen.AclMaps

/-! ## Table lemmas (re-checked against the regenerated `Gen/AclMaps` on every run) -/

/-- The characters of each NFSv4 map are distinct, and so are the bits. -/
theorem map_chars_and_bits_distinct :
    (permMap.map (·.2)).Nodup ∧ (flagMap.map (·.2)).Nodup ∧
    (permMap.map (·.1)).Nodup ∧ (flagMap.map (·.1)).Nodup := by decide

/-- Every map entry is a single bit, the parser's `switch` maps its character back to exactly
that bit, and `-` is accepted without setting anything — for all four (map, switch) pairs. -/
theorem maps_agree_with_parser :
    MapOK permMap permParse ∧ MapOK permMapW permParseW ∧
    MapOK flagMap flagParse ∧ MapOK flagMapW flagParseW := maps_ok

/-- The maps cover exactly `ARCHIVE_ENTRY_ACL_PERMS_NFS4` and `..._INHERITANCE_NFS4`. -/
theorem maps_cover_the_masks :
    maskOf permMap = permsNfs4 ∧ maskOf permMapW = permsNfs4 ∧
    maskOf flagMap = inheritanceNfs4 ∧ maskOf flagMapW = inheritanceNfs4 := masks

/-- The `char` and the `wchar_t` tables are the same tables. -/
theorem narrow_and_wide_tables_equal :
    permMap = permMapW ∧ flagMap = flagMapW ∧ modeParse = modeParseW ∧
    permParse = permParseW ∧ flagParse = flagParseW := by decide

/-- No map character is one the text form reserves (NUL, blank, tab, newline, `,` `:` `#`). -/
theorem map_chars_not_reserved :
    (∀ x ∈ permMap, CleanCh x.2) ∧ (∀ x ∈ permMapW, CleanCh x.2) ∧
    (∀ x ∈ flagMap, CleanCh x.2) ∧ (∀ x ∈ flagMapW, CleanCh x.2) := maps_clean

/-- Tags are pairwise different; the six types are different single bits. -/
theorem tags_and_types_distinct :
    [tagUser, tagUserObj, tagGroup, tagGroupObj, tagMask, tagOther, tagEveryone].Nodup ∧
    [typeAccess, typeDefault, typeAllow, typeDeny, typeAudit, typeAlarm] = [256, 512, 1024, 2048, 4096, 8192] ∧
    typePosix1e = typeAccess ||| typeDefault ∧
    typeNfs4 = typeAllow ||| typeDeny ||| typeAudit ||| typeAlarm := by decide

/-! ## `text_len_sufficient` -/

/-- For every ACL, every flag word and both variants, the text `archive_acl_to_text_*` writes
plus its terminator fits in what `archive_acl_text_len` computed: the "Buffer overrun" abort,
and the write past the allocation that would precede it, are unreachable. -/
theorem text_len_sufficient (wide : Bool) (acl : Acl) (flags : Nat)
    (hwf : ∀ e ∈ acl.entries, EntryWF e) (t : List Ch) :
    toText wide acl flags ≠ .overrun t :=
  toText_no_overrun wide acl flags hwf t

/-- The same as an inequality on the two quantities of the C. -/
theorem text_len_inequality (wide : Bool) (acl : Acl) (flags : Nat)
    (hwf : ∀ e ∈ acl.entries, EntryWF e)
    (hne : textLen acl (textWantType acl flags) (textFlags (textWantType acl flags) flags) ≠ 0)
    (hw : textWantType acl flags ≠ 0) :
    (textBody wide acl (textWantType acl flags) (textFlags (textWantType acl flags) flags)).length + 1 ≤
      textLen acl (textWantType acl flags) (textFlags (textWantType acl flags) flags) := by
  apply textBody_length wide acl _ _ _ hwf hne
  rcases textWantType_cases acl flags with h | h
  · exact (hw h).elim
  · exact h

/-- Before the repair (`fix: ACL text length did not count the ID …`) the bound was false: an
unnamed NFSv4 group entry with a nine-digit id, style without EXTRA_ID, needs 55 characters
where `archive_acl_text_len` without the unconditional id field gives 49.  With the repaired
computation the bound holds for this ACL as for every other. -/
example : EntryWF ⟨typeAlarm, tagGroup, 0, 564742899, []⟩ :=
  ⟨by decide, by decide, by decide, by decide, by decide⟩

/-! ## Well-formed ACLs are the reachable ones -/

/-- The empty ACL is well-formed and `archive_acl_add_entry` keeps an ACL well-formed, whatever
type, tag, permset, C `int` id and name it is given (what does not fit is refused and changes
nothing): every ACL the API can build satisfies `WF`. -/
theorem wf_reachable :
    WF {} ∧
    ∀ (acl : Acl) (ty pm tg : Nat) (id : Int) (nm : List Ch), WF acl →
      -2147483648 ≤ id ∧ id ≤ 2147483647 → WF (addEntry acl ty pm tg id nm).1 :=
  ⟨WF_empty, fun acl ty pm tg id nm hwf hid => addEntry_WF acl hwf ty pm tg id nm hid⟩

example : WF (addEntry (addEntry {} typeDefault 7 tagUser 1000 (str "bob")).1 (typeAllow ||| typeDeny) 5 tagMask (-1) []).1 :=
  wf_reachable.2 _ _ _ _ _ _ (wf_reachable.2 _ _ _ _ _ _ wf_reachable.1 (by decide)) (by decide)

/-! ## `entry_roundtrip` -/

/-- A POSIX.1e entry printed with ids (any of prefix / Solaris / separator styles), followed by
an entry separator or the end of the text, is read back by the parser loop as the call
`archive_acl_add_entry(type, permset, tag, id, name)` with exactly its own fields (an entry
without a name comes back named by its id), after which the loop goes on with the rest. -/
theorem entry_roundtrip_posix (wide : Bool) (flags wantType : Nat) (e : Entry) (tl rest : List Ch)
    (o : ParseOut) (hwf : EntryWF e) (hq : QualOK e) (hp : IsPosix e.type)
    (hx : hasFlag flags styleExtraId = true)
    (hwant : wantType = typeAccess ∨ wantType = typeDefault)
    (hty : e.type = wantType ∨ (e.type = typeDefault ∧ hasFlag flags styleMarkDefault = true))
    (hend : EntryEnd wide tl rest) :
    parseLoop wide wantType (entryText wide flags e ++ tl) o =
      afterAdd wide wantType rest o e.type e.permset e.tag e.id (rtName e) :=
  posix_entry_parse wide flags wantType e tl rest o hwf hq hp hx hwant hty hend

/-- The same for an NFSv4 entry (compact or not). -/
theorem entry_roundtrip_nfs4 (wide : Bool) (flags : Nat) (e : Entry) (tl rest : List Ch)
    (o : ParseOut) (hwf : EntryWF e) (hq : QualOK e) (hn : IsNfs4 e.type)
    (hx : hasFlag flags styleExtraId = true) (hend : EntryEnd wide tl rest) :
    parseLoop wide typeNfs4 (entryText wide flags e ++ tl) o =
      afterAdd wide typeNfs4 rest o e.type e.permset e.tag e.id (rtName e) :=
  nfs4_entry_parse wide flags e tl rest o hwf hq hn hx hend

example : EntryWF ⟨typeDefault, tagUser, 5, 1000, str "zoë"⟩ ∧ IsPosix typeDefault ∧
    hasFlag 13 styleExtraId = true ∧ EntryEnd true [0] [0] :=
  ⟨⟨by decide, by decide, by decide, by decide, by decide⟩, by decide, by decide, EntryEnd.endW rfl⟩

/-! ## `acl_roundtrip` -/

/-- The name side condition exactly as the property states it: no colon, comma or white space,
not purely numeric (and no NUL, as in any C string). -/
def NameProp (name : List Ch) : Prop :=
  (∀ c ∈ name, c ≠ 0 ∧ c ≠ 58 ∧ c ≠ 44 ∧ c ≠ 32 ∧ c ≠ 9 ∧ c ≠ 10) ∧
  (name ≠ [] → ∃ c ∈ name, ¬ isDigit c)

/-- The property's quantifier over qualifiers. -/
structure QualProp (e : Entry) : Prop where
  ug : IsUG e.tag → NameProp e.name ∧ (if e.name = [] then 0 ≤ e.id else -1 ≤ e.id)
  other : ¬ IsUG e.tag → e.id = -1 ∧ e.name = []

/-- What "converting to text and parsing the text back yields the same entries" means on the
model: parsing into a fresh ACL succeeds with status OK and yields `rtAcl acl flags` — the
listed entries in order with their type, tag, id, permset and name (unnamed ones named by their
id), and the permission bits of `mode` when the ACCESS part was printed. -/
def RoundTrips (wide : Bool) (acl : Acl) (flags : Nat) : Prop :=
  ∀ t, toText wide acl flags = .text t →
    ∃ n, fromText wide {} t (parseWant acl flags) =
      .ok { acl := rtAcl acl flags, status := .ok, skipped := 0, added := n }

/-- The property at full strength, quantified as in `properties.jsonl`. -/
def acl_roundtrip : Prop :=
  ∀ (wide : Bool) (acl : Acl) (flags : Nat), WF acl → (∀ e ∈ acl.entries, QualProp e) →
    hasFlag flags styleExtraId = true → RoundTrips wide acl flags

/-- It is false of the code: a name containing `#` is inside the quantifier, and the parser
takes the `#` for the start of a comment.  Witness: the NFSv4 ACL `user:a#b` with id 5, style
EXTRA_ID|COMPACT, narrow variant; its text `user:a#b:::allow:5` parses to an empty ACL with
ARCHIVE_WARN.  (Replayed on the implementation as known finding F15-hash-in-name.) -/
theorem acl_roundtrip_false : ¬ acl_roundtrip := by
  intro h
  have hwf : WF hashAcl := by
    refine ⟨?_, Or.inr ?_, by decide, by simp [hashAcl]⟩
    · intro e he; simp [hashAcl] at he; subst he
      exact ⟨by decide, by decide, by decide, by decide, by decide⟩
    · intro e he; simp [hashAcl] at he; subst he; exact Or.inl rfl
  have hq : ∀ e ∈ hashAcl.entries, QualProp e := by
    intro e he; simp [hashAcl] at he; subst he
    refine ⟨fun _ => ⟨⟨by decide, fun _ => ⟨97, by decide, by unfold isDigit; decide⟩⟩, by decide⟩,
      fun hn => (hn (Or.inl rfl)).elim⟩
  obtain ⟨n, hn⟩ := h false hashAcl 17 hwf hq (by decide) _ hashAcl_text
  have hw : parseWant hashAcl 17 = typeNfs4 := by decide
  rw [hw, hashAcl_parse] at hn
  simp at hn

/-- The round trip with the one extra hypothesis the proof forces: no `#` in a qualifier name.
For every well-formed POSIX.1e or NFSv4 ACL inside the property's quantifier, every style that
includes ids (default marking, Solaris, comma or newline separator, compact), both variants. -/
theorem acl_roundtrip_partial (wide : Bool) (acl : Acl) (flags : Nat) (hwf : WF acl)
    (hq : ∀ e ∈ acl.entries, QualProp e) (hnohash : ∀ e ∈ acl.entries, 35 ∉ e.name)
    (hx : hasFlag flags styleExtraId = true) : RoundTrips wide acl flags := by
  intro t ht
  apply roundtrip wide acl flags hwf _ hx t ht
  intro e he
  have hqe := hq e he
  refine ⟨fun hug => ?_, hqe.other⟩
  obtain ⟨⟨hchars, hnum⟩, hid⟩ := hqe.ug hug
  refine ⟨⟨?_, hnum⟩, hid⟩
  intro c hc
  obtain ⟨h0, h58, h44, h32, h9, h10⟩ := hchars c hc
  have h35 : c ≠ 35 := fun h => hnohash e he (h ▸ hc)
  exact ⟨h0, h32, h9, h10, h44, h58, h35⟩

/-- "The same set of entries": when the text covers the whole ACL (an NFSv4 ACL, or a POSIX.1e
ACL printed with both or neither of the ACCESS/DEFAULT selectors) the entries after the round
trip are all the entries of the ACL, in order, each with its own type, tag, permset and id. -/
theorem roundtrip_covers_all_entries (acl : Acl) (flags : Nat) (hwf : WF acl)
    (hall : textWantType acl flags = typeNfs4 ∨ textWantType acl flags = typePosix1e) :
    (rtAcl acl flags).entries = acl.entries.map img ∧
    ∀ e, (img e).type = e.type ∧ (img e).tag = e.tag ∧ (img e).permset = e.permset ∧ (img e).id = e.id ∧
      (e.name ≠ [] → (img e).name = e.name) := by
  refine ⟨?_, fun e => ⟨rfl, rfl, rfl, rfl, fun hne => by simp [img, rtName, hne]⟩⟩
  have hl : listed acl (textWantType acl flags) = acl.entries := by
    unfold listed
    apply List.filter_eq_self.mpr
    intro e he
    have hwe := hwf.entries e he
    have hnm : ¬ (e.type = typeAccess ∧ (e.tag = tagUserObj ∨ e.tag = tagGroupObj ∨ e.tag = tagOther)) :=
      hwe.not_mode
    have hbit : e.type &&& textWantType acl flags ≠ 0 := by
      rcases hall with h | h
      · -- an NFSv4 want type: the ACL has an NFSv4 bit, so every entry is NFSv4
        rw [h]
        have hnz : acl.types &&& typeNfs4 ≠ 0 := by
          intro hz
          have : textWantType acl flags ≠ typeNfs4 := by
            unfold textWantType
            simp only [hz, ne_eq, not_true_eq_false, if_false]
            cases hasFlag flags typeAccess <;> cases hasFlag flags typeDefault <;> simp <;> decide
          exact this h
        rcases hwf.family with hp | hn
        · exfalso; apply hnz
          rw [hwf.types]; exact orTypes_zero _ _ (fun x hx => (posix_bits (hp x hx)).2)
        · exact (nfs4_bits (hn e he)).2
      · rw [h]
        have hz : acl.types &&& typeNfs4 = 0 := by
          apply Decidable.byContradiction
          intro hnz
          have : textWantType acl flags = 0 ∨ textWantType acl flags = typeNfs4 := by
            unfold textWantType
            simp only [hnz, ne_eq, not_false_eq_true, if_true]
            split <;> simp
          rcases this with h' | h' <;> rw [h] at h' <;> revert h' <;> decide
        rcases hwf.family with hp | hn
        · exact (posix_bits (hp e he)).1
        · exfalso
          have := orTypes_ne_zero acl.entries typeNfs4 e he (nfs4_bits (hn e he)).2
          rw [← hwf.types] at this
          exact this hz
    simp [skipped, hbit, hnm]
  simp [rtAcl, hl]

/-- The hypotheses of `acl_roundtrip_partial` are met by a non-trivial ACL, and its conclusion
then gives the parse result of a concrete text. -/
example : ∃ n, fromText false {} (str "user:a-b:::allow:5") typeNfs4 =
    .ok { acl := rtAcl goodAcl 17, status := .ok, skipped := 0, added := n } := by
  have hwf : WF goodAcl := by
    refine ⟨?_, Or.inr ?_, by decide, by simp [goodAcl]⟩
    · intro e he; simp [goodAcl] at he; subst he
      exact ⟨by decide, by decide, by decide, by decide, by decide⟩
    · intro e he; simp [goodAcl] at he; subst he; exact Or.inl rfl
  have hq : ∀ e ∈ goodAcl.entries, QualProp e := by
    intro e he; simp [goodAcl] at he; subst he
    refine ⟨fun _ => ⟨⟨by decide, fun _ => ⟨97, by decide, by unfold isDigit; decide⟩⟩, by decide⟩,
      fun hn => (hn (Or.inl rfl)).elim⟩
  have hh : ∀ e ∈ goodAcl.entries, 35 ∉ e.name := by
    intro e he; simp [goodAcl] at he; subst he; decide
  have := acl_roundtrip_partial false goodAcl 17 hwf hq hh (by decide) _ goodAcl_text
  have hw : parseWant goodAcl 17 = typeNfs4 := by decide
  rwa [hw] at this

/-! ## `parser_total`, `parser_no_oob` -/

/-- Both parsers terminate with a result on every input: any character list (any byte string
for `archive_acl_from_text_nl`, without terminator; any `wchar_t` string), any `want_type`, any
ACL to add to. -/
theorem parser_total (wide : Bool) (acl : Acl) (text : List Ch) (wantType : Nat) :
    ∃ o, fromText wide acl text wantType = .ok o :=
  fromText_ok wide acl text wantType

/-- No read of the parser is outside the text: the narrow one never looks at `text[length]`
or beyond (no terminator needed), the wide one never beyond the terminating NUL, and no NULL
field pointer is dereferenced. -/
theorem parser_no_oob (wide : Bool) (acl : Acl) (text : List Ch) (wantType : Nat) :
    fromText wide acl text wantType ≠ .error .oob ∧ fromText wide acl text wantType ≠ .error .null := by
  obtain ⟨o, ho⟩ := parser_total wide acl text wantType
  rw [ho]; exact ⟨by simp, by simp⟩

/-- The same for the parser loop started anywhere: whatever is left of a text (for the wide
variant: as long as the terminator is still ahead), the loop finishes without a fault. -/
theorem parser_loop_no_oob (wide : Bool) (wantType : Nat) (r : List Ch) (o : ParseOut)
    (h : wide = true → 0 ∈ r) : ∃ o', parseLoop wide wantType r o = .ok o' :=
  parseLoop_ok wide wantType r o h

example : (35 : Nat) :: 0 :: 58 :: [10, 100] ≠ [] ∧ (true = true → (0 : Nat) ∈ [100, 0]) := by decide

/-! ## `malformed_skipped_with_warn` -/

/-- Whenever the parser skips an entry it reports it: the result is not ARCHIVE_OK; and a
warning is never given without a skipped entry. -/
theorem malformed_skipped_with_warn (wide : Bool) (acl : Acl) (text : List Ch) (wantType : Nat)
    (o : ParseOut) (h : fromText wide acl text wantType = .ok o) :
    (o.skipped > 0 → o.status ≠ .ok) ∧ (o.status = .warn → o.skipped > 0) := by
  unfold fromText at h
  simp only [] at h
  generalize (if wantType = typePosix1e then typeAccess else wantType) = wt at h
  by_cases hc : wt = typeAccess ∨ wt = typeDefault ∨ wt = typeNfs4
  · rw [if_pos hc] at h
    exact parseLoop_skipInv wide _ _ _ o h ⟨fun h0 => by simp at h0, fun h0 => by simp at h0⟩ (Or.inl rfl)
  · rw [if_neg hc] at h
    cases h; exact ⟨fun h0 => by simp at h0, fun h0 => by simp at h0⟩

/-- What is *not* skipped is well-formed where it matters: a POSIX.1e entry is only accepted
with a non-empty mode field made of `rwxRWX-` only, and its permset is that field's value.
(False before `fix: ACL text parser accepted "other:rz" …`: `ismode` used to leave a partial
permset behind and "other:rz" was accepted as `other::r--` with ARCHIVE_OK.) -/
theorem accepted_mode_field_valid (wide : Bool) (fields : Nat) (fld : Nat → Option Field) (n type : Nat)
    (hf : ∀ i, OFieldOK wide (fld i)) (ty pm tg : Nat) (id : Int) (nm : Option Field)
    (h : parsePosixRest wide fields fld n type = .ok (.entry ty pm tg id nm)) :
    ∃ k, obody (fld k) ≠ [] ∧ ismode wide (obody (fld k)) 0 = (pm, true) := by
  obtain ⟨p, hp, hspec, _⟩ := parsePosixRest_spec wide fields fld n type hf
  rw [h] at hp
  cases hp
  simp only [Parsed.toSpec] at hspec
  -- what a successful / failed `ismode` tells
  have ism : ∀ b acc pm' ok, ismode wide b acc = (pm', ok) →
      (ok = true → b ≠ [] ∧ ismode wide b 0 = (pm', true)) ∧ (ok = false → pm' = acc) := by
    intro b acc pm' ok hb
    unfold ismode at hb ⊢
    by_cases hbe : b = []
    · simp only [hbe, if_true, Prod.mk.injEq] at hb
      exact ⟨fun h1 => by rw [h1] at hb; simp at hb, fun _ => hb.1.symm⟩
    · simp only [hbe, if_false] at hb ⊢
      generalize orChars (if wide = true then modeParseW else modeParse) b 0 = r at hb ⊢
      obtain ⟨q, okq⟩ := r
      cases okq with
      | true =>
        simp only [Prod.mk.injEq] at hb
        exact ⟨fun _ => ⟨hbe, by rw [hb.1]⟩, fun h1 => by rw [h1] at hb; simp at hb⟩
      | false =>
        simp only [Prod.mk.injEq] at hb
        exact ⟨fun h1 => by rw [h1] at hb; simp at hb, fun _ => hb.1.symm⟩
  generalize hb : (fun i => obody (fld i)) = b at hspec
  have hbk : ∀ k, obody (fld k) = b k := fun k => by rw [← hb]
  simp only [hbk]
  unfold posixRestCore at hspec
  simp only [] at hspec
  by_cases hlen : (b n).length = 0
  · rw [if_pos hlen] at hspec; cases hspec
  rw [if_neg hlen] at hspec
  generalize posixTagSpec (b n) = tag at hspec
  generalize posixIdCore fields b n = idc at hspec
  by_cases hom : tag = tagOther ∨ tag = tagMask
  · rw [if_pos hom] at hspec
    unfold posixOtherMaskCore at hspec
    simp only [] at hspec
    by_cases hc : fields = n + 2 ∧ (b (n + 1)).length > 0
    · generalize hres : ismode wide (b (n + 1)) 0 = r1 at hspec
      obtain ⟨p1, ok1⟩ := r1
      cases ok1 with
      | true =>
        obtain ⟨hne, hm⟩ := (ism _ _ _ _ hres).1 rfl
        by_cases hp0 : p1 = 0
        · subst hp0
          simp [hc, hres] at hspec
          have hpm := hspec.2.1
          subst hpm
          exact ⟨n + 1, hne, hm⟩
        · simp [hc, hp0] at hspec
          have hpm := hspec.2.1
          subst hpm
          exact ⟨n + 1, hne, hm⟩
      | false =>
        have hp0 : p1 = 0 := (ism _ _ _ _ hres).2 rfl
        subst hp0
        generalize hres2 : ismode wide (b (n + 2)) 0 = r2 at hspec
        obtain ⟨p2, ok2⟩ := r2
        cases ok2 with
        | true =>
          simp [hc, hres2] at hspec
          have hpm := hspec.2.1
          subst hpm
          obtain ⟨hne, hm⟩ := (ism _ _ _ _ hres2).1 rfl
          exact ⟨n + 2, hne, hm⟩
        | false => simp [hc, hres2] at hspec
    · by_cases h3 : fields = n + 3 ∧ (b (n + 1)).length > 0
      · simp [hc, h3] at hspec
      · generalize hres2 : ismode wide (b (n + 2)) 0 = r2 at hspec
        obtain ⟨p2, ok2⟩ := r2
        cases ok2 with
        | true =>
          simp [hc, h3, hres2] at hspec
          have hpm := hspec.2.1
          subst hpm
          obtain ⟨hne, hm⟩ := (ism _ _ _ _ hres2).1 rfl
          exact ⟨n + 2, hne, hm⟩
        | false => simp [hc, h3, hres2] at hspec
  · rw [if_neg hom] at hspec
    by_cases hug : tag = tagUserObj ∨ tag = tagGroupObj
    · rw [if_pos hug] at hspec
      unfold posixUserGroupCore at hspec
      simp only [] at hspec
      generalize hres2 : ismode wide (b (n + 2)) 0 = r2 at hspec
      obtain ⟨p2, ok2⟩ := r2
      cases ok2 with
      | true =>
        simp at hspec
        have hpm := hspec.2.1
        subst hpm
        obtain ⟨hne, hm⟩ := (ism _ _ _ _ hres2).1 rfl
        exact ⟨n + 2, hne, hm⟩
      | false => simp at hspec
    · rw [if_neg hug] at hspec; cases hspec

example : OFieldOK false (some ⟨[111, 116, 104, 101, 114, 58, 114, 122], 5⟩) ∧
    ismode false [114, 122] 0 = (0, false) := ⟨⟨by decide, fun h => by cases h⟩, by decide⟩

end LA.C15
