/-
C15 — ACLs survive conversion to text and back.
(placeholder while the correspondence engine is brought up)
-/
import LA.Model.Acl
namespace LA.C15
open LA.Acl

theorem placeholder : (1 : Nat) = 1 := rfl

end LA.C15
