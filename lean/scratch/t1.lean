import LA.Lemmas.ClientWriteSession
open LA.CW

def cells (ds : List (List Nat)) : List (List Cell) := ds.map (·.map some)

example : (session scriptWriter [.accept 2] 4 (-1) (cells [[1,2,3],[4,5,6]])).1.map (·.1) = [.ok,.ok,.ok] := by
  simp [session, runWrites, clientWrite, clientOpen, writeTail, directLoop, flushLoop, poke, clientClose, cells,
    Writer.ask, scriptWriter, Ans.ret, lastBlockTarget, lastBlockLen, CState.bufSize]
