import LA.Lemmas.EntryInv
open LA.Entry LA.Gen.EntryBits
set_option maxRecDepth 4000
set_option linter.unusedSimpArgs false

macro "entry_eval" : tactic => `(tactic|
  simp (disch := decide) [obs, timeSec, timeNsec, timeIsSet, dev, devmajor, devminor, devIsSet, rdev, rdevmajor, rdevminor, rdevIsSet,
      ino, inoIsSet, nlink, uid, uidIsSet, gid, gidIsSet, size, sizeIsSet, mode, filetype, filetypeIsSet, perm, permIsSet,
      getStr, Entry.str, hardlink, hardlinkIsSet, symlink, fflags, symlinkType, isDataEncrypted, isMetadataEncrypted,
      sparseCount_fst, sparseCount_snd, sparseWhole, xattrCount, macMetadata,
      unsetTimeCore, setTimeCore, Entry.withTime, TimeField.flag, setSize, unsetSize, setDev, setDevmajor, setDevminor,
      setRdev, setRdevmajor, setRdevminor, setIno, setNlink, setUid, setGid, setMode, setPerm, setFiletype, setStr,
      setHardlink, copyHardlink, setSymlink, setLinkToHardlink, setLinkToSymlink, setFflags, setSymlinkType,
      setIsDataEncrypted, setIsMetadataEncrypted, sparseClear, xattrClear, copyMacMetadata,
      Entry.has, hasF_cond, hasF_or_assoc, hasF_or_self, hasF_andnot_self, hasF_or_disj, hasF_andnot_disj,
      bv_ft_ft, bv_ft_perm, bv_perm_perm, bv_perm_ft, bv_or_and_self, bv_andnot_and_self, bv_or_and_disj, bv_andnot_and_disj])

theorem setHardlink_none_hard (e : Entry) :
    hardlink (setHardlink e none) = none ∧ hardlinkIsSet (setHardlink e none) = false := by
  rcases Bool.eq_false_or_eq_true (hasF e.ae_set fSYMLINK) with h | h <;>
    simp (disch := decide) [hardlink, hardlinkIsSet, setHardlink, Entry.has, h, hasF_andnot_self, hasF_andnot_disj]

set_option hygiene false in
macro "split_hf" : tactic => `(tactic| (
  simp only [fixes, List.contains_cons, List.contains_nil, Bool.or_false, Bool.or_eq_true, beq_iff_eq, Bool.false_eq_true] at hf <;>
  (try rcases hf with rfl | rfl | rfl | rfl | rfl)))

theorem fixes_total (op : Op) (g : Getter) (e1 e2 e1' e2' : Entry) (hf : fixes op g = true)
    (hn : ∀ f t ns, op ≠ .setTime f t ns) (hc : ∀ st, op ≠ .copyStat st)
    (h1 : step e1 op = some e1') (h2 : step e2 op = some e2') : obs g e1' = obs g e2' := by
  cases op <;> (try (exact absurd rfl (hn _ _ _))) <;> (try (exact absurd rfl (hc _))) <;>
    simp only [step, unsetTime_eq, Option.some.injEq] at h1 h2 <;> subst h1 h2
  case clear => rfl
  case setHardlink v =>
    cases v
    · split_hf <;> simp [obs, setHardlink_none_hard]
    · split_hf <;> entry_eval
  case copyHardlink v => cases v <;> split_hf <;> entry_eval
  case setSymlink v => cases v <;> split_hf <;> entry_eval
  case unsetTime f => split_hf <;> cases f <;> entry_eval
  case setStr f v => split_hf <;> cases f <;> entry_eval
  case setIsDataEncrypted b => split_hf <;> cases b <;> entry_eval <;> decide
  case setIsMetadataEncrypted b => split_hf <;> cases b <;> entry_eval <;> decide
  all_goals split_hf
  all_goals entry_eval
