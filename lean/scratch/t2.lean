import LA.Lemmas.WriteCore
open LA.CW LA.WC LA.Ustar
def exHandle : Handle :=
  { state := .header, fmt := .raw, bpb := 0, hasClient := true, cfState := .open, cs := some (clientOpen 0),
    enc := some { kind := .b64, fstate := .open, bs := 65536, hold := [], enc := [] } }

set_option maxHeartbeats 400000 in
example : (clientFilterWrite scriptWriter [.error] exHandle [some 1]).1 = -30 := by
  simp [exHandle, clientFilterWrite, clientWrite, clientOpen, flushLoop, Writer.ask, scriptWriter, Ans.ret, stCode, CState.bufSize, LA.WC.fatal]

example : (encCloseStep scriptWriter [.error] exHandle).1 = -30 := by
  simp [exHandle, encCloseStep, encClose, setBil, Enc.trailer, clientFilterWrite, clientWrite, clientOpen, flushLoop, Writer.ask, scriptWriter, Ans.ret, stCode, CState.bufSize, LA.WC.fatal]

example : (filtersClose scriptWriter [.error] exHandle).1 = -30 := by
  simp [exHandle, filtersClose, clientCloseStep, clientClose, imin, LA.WC.ok, oobCode, encCloseStep, encClose, setBil, Enc.trailer, clientFilterWrite, clientWrite, clientOpen, flushLoop, Writer.ask, scriptWriter, Ans.ret, stCode, CState.bufSize, LA.WC.fatal]
