import LA.Model.Entry
open LA.Entry LA.Gen.EntryBits

theorem tdivmod_facts (ns : Int) :
    1000000000 * ns.tdiv 1000000000 + ns.tmod 1000000000 = ns ∧ ns.tmod 1000000000 < 1000000000 ∧
    -1000000000 < ns.tmod 1000000000 ∧ (0 ≤ ns → 0 ≤ ns.tmod 1000000000) ∧ (ns ≤ 0 → ns.tmod 1000000000 ≤ 0) := by
  refine ⟨Int.mul_tdiv_add_tmod ns _, Int.tmod_lt_of_pos _ (by decide), Int.lt_tmod_of_pos _ (by decide),
    Int.tmod_nonneg _, ?_⟩
  intro h
  have := Int.tmod_nonneg 1000000000 (a := -ns) (by omega)
  rw [Int.neg_tmod] at this; omega

theorem inI64_iff (x : Int) : inI64 x = true ↔ (-9223372036854775808 ≤ x ∧ x ≤ 9223372036854775807) := by
  unfold inI64 INT64_MIN INT64_MAX
  rw [Bool.and_eq_true, decide_eq_true_iff, decide_eq_true_iff]

theorem fixNs_spec (t ns : Int) (ht : inI64 t = true) :
    fixNs t ns = if inI64 ((t * 1000000000 + ns) / 1000000000) then
      some ((t * 1000000000 + ns) / 1000000000, (t * 1000000000 + ns) % 1000000000) else none := by
  obtain ⟨h1, h2, h3, h4, h5⟩ := tdivmod_facts ns
  unfold fixNs
  have hN : ((nsPerSec : Nat) : Int) = 1000000000 := by decide
  simp only [hN]
  generalize ns.tdiv 1000000000 = q at *
  generalize ns.tmod 1000000000 = r at *
  have e1 : (t * 1000000000 + ns) / 1000000000 = if r < 0 then t + q - 1 else t + q := by split <;> omega
  have e2 : (t * 1000000000 + ns) % 1000000000 = if r < 0 then r + 1000000000 else r := by split <;> omega
  rw [e1, e2]
  rw [inI64_iff] at ht
  simp only [Bool.not_eq_true', ← Bool.not_eq_true, inI64_iff]
  by_cases hr : r < 0
  · simp only [hr, if_true]
    repeat' split
    all_goals first | rfl | omega
  · simp only [hr, if_false]
    repeat' split
    all_goals first | rfl | omega
