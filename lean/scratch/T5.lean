import LA.Lemmas.Entry
open LA.Entry LA.Gen.EntryBits
set_option maxRecDepth 4000

theorem unsetTime_eq (f : TimeField) (e : Entry) :
    unsetTime f e = some { setTimeCore f e 0 0 with ae_set := (setTimeCore f e 0 0).ae_set &&& ~~~f.flag } := by
  simp [unsetTime, setTime, fixNs_zero]

theorem untouched_setUid (G : Group) (e : Entry) (u : Int) (ht : touches (.setUid u) G = false) :
    view G (setUid e u) = view G e := by
  cases G <;> simp [touches] at ht <;>
    simp (disch := decide) [view, setUid, Entry.has, bv_or_and_disj, timeSec, timeNsec, Entry.str]

theorem untouched_setTimeCore (G : Group) (f : TimeField) (e : Entry) (t : Int) (ns : Nat)
    (ht : touches (.setTime f t ns) G = false) :
    view G (setTimeCore f e t ns) = view G e := by
  cases G <;> simp [touches] at ht <;> cases f <;>
    simp (disch := decide) [view, setTimeCore, Entry.withTime, TimeField.flag, Entry.has, bv_or_and_disj, timeSec, timeNsec, Entry.str]
