import LA.Model.Entry
#check @Int.tdiv_add_tmod
#check @Int.tmod_add_tdiv
#check @Int.mul_tdiv_add_tmod
#check @Int.tmod_nonneg
#check @Int.tmod_lt_of_pos
#check @Int.tmod_nonpos
#check @Int.lt_tmod_of_pos
#check @Int.tmod_neg
#check @Int.neg_lt_tmod
open Int in
#check @tmod_nonpos_of_nonpos
example (ns : Int) : ns.tmod 1000000000 < 1000000000 := by omega
example (ns : Int) : ns.tdiv 1000000000 * 1000000000 + ns.tmod 1000000000 = ns := by omega
