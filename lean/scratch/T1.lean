import LA.Model.Entry
open LA.Entry

theorem bv_or_and_self {w} (s a : BitVec w) : (s ||| a) &&& a = a := by
  ext i hi; simp

theorem bv_andnot_and_self {w} (s a : BitVec w) : (s &&& ~~~a) &&& a = 0 := by
  ext i hi; simp

theorem bv_or_and_disj {w} (s a b : BitVec w) (h : a &&& b = 0) : (s ||| a) &&& b = s &&& b := by
  rw [BitVec.and_comm, BitVec.and_or_distrib_left]  -- b &&& s ||| b &&& a
  rw [BitVec.and_comm b a, h]; simp [BitVec.and_comm]

theorem bv_andnot_and_disj {w} (s a b : BitVec w) (h : a &&& b = 0) : (s &&& ~~~a) &&& b = s &&& b := by
  ext i hi
  have := congrArg (fun x => x[i]) h
  simp at this
  simp
  cases hs : s[i] <;> cases ha : a[i] <;> cases hb : b[i] <;> simp_all

theorem ft1 (m k t : BitVec 32) : k &&& ((m &&& ~~~k) ||| (k &&& t)) = k &&& t := by
  ext i hi; simp
  cases m[i] <;> cases k[i] <;> cases t[i] <;> rfl

example : fATIME &&& fCTIME = 0 := by decide
example (s : BitVec 32) : ((s ||| fATIME) &&& fCTIME != 0) = (s &&& fCTIME != 0) := by
  simp (disch := decide) only [bv_or_and_disj]

#check @Int.tdiv_eq_ediv
#check @Int.tmod_eq_emod
