import LA.Lemmas.Entry
open LA.Entry LA.Gen.EntryBits
set_option maxRecDepth 4000

theorem hasF_or_self (s a : Flags) (h : a ≠ 0#32) : hasF (s ||| a) a = true := by
  simp [hasF, bv_or_and_self, h]
theorem hasF_andnot_self (s a : Flags) : hasF (s &&& ~~~a) a = false := by
  simp [hasF, bv_andnot_and_self]
theorem hasF_or_disj (s a b : Flags) (h : a &&& b = 0) : hasF (s ||| a) b = hasF s b := by
  simp [hasF, bv_or_and_disj _ _ _ h]
theorem hasF_andnot_disj (s a b : Flags) (h : a &&& b = 0) : hasF (s &&& ~~~a) b = hasF s b := by
  simp [hasF, bv_andnot_and_disj _ _ _ h]
theorem hasF_or_or (s a b c : Flags) (h : a &&& c = 0) (h2 : b &&& c = 0): hasF (s ||| (a ||| b)) c = hasF s c := by
  rw [← BitVec.or_assoc, hasF_or_disj _ _ _ h2, hasF_or_disj _ _ _ h]

theorem view_ite (G : Group) (c : Prop) [Decidable c] (a b : Entry) :
    view G (if c then a else b) = if c then view G a else view G b := by split <;> rfl

set_option hygiene false in
macro "entry_view" defs:Lean.Parser.Tactic.simpLemma,* : tactic => `(tactic| (
  cases G <;> (try (rename_i f'; cases f')) <;>
    simp only [view, View.mk.injEq, List.cons.injEq, and_true, true_and, Entry.has, timeSec, timeNsec, Entry.str,
      TimeField.flag] at h <;>
    (try simp only [$defs,*, view_ite]) <;>
    simp (disch := decide) [view, Entry.has, hasF_or_self, hasF_andnot_self, hasF_or_disj, hasF_andnot_disj,
      timeSec, timeNsec, Entry.str, TimeField.flag, bv_ft_ft, bv_ft_perm, bv_perm_perm, bv_perm_ft, h, $defs,*]))

theorem setUid_view (G : Group) (e1 e2 : Entry) (u : Int) (h : view G e1 = view G e2) :
    view G (setUid e1 u) = view G (setUid e2 u) := by
  entry_view setUid

theorem setLink_view (G : Group) (e1 e2 : Entry) (v : Option Bytes) (h : view G e1 = view G e2) :
    view G (setLink e1 v) = view G (setLink e2 v) := by
  entry_view setLink

theorem setHardlink_view (G : Group) (e1 e2 : Entry) (v : Option Bytes) (h : view G e1 = view G e2) :
    view G (setHardlink e1 v) = view G (setHardlink e2 v) := by
  cases v <;> entry_view setHardlink

theorem setPerm_view (G : Group) (e1 e2 : Entry) (v : BitVec 32) (h : view G e1 = view G e2) :
    view G (setPerm e1 v) = view G (setPerm e2 v) := by
  entry_view setPerm
