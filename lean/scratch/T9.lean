import LA.Lemmas.EntryInv
open LA.Entry LA.Gen.EntryBits
set_option maxRecDepth 4000
set_option linter.unusedSimpArgs false

/-- A cleared is-set flag means the field still holds its initial value. -/
def Truthful (e : Entry) : Prop :=
  (∀ f : TimeField, e.has f.flag = false → timeSec f e = 0 ∧ timeNsec f e = 0) ∧
  (e.has fSIZE = false → e.aest_size = 0) ∧
  (e.has fDEV = false → e.aest_dev = 0 ∧ e.aest_dev_is_broken_down = false) ∧
  (e.has fINO = false → e.aest_ino = 0) ∧ (e.has fUID = false → e.aest_uid = 0) ∧ (e.has fGID = false → e.aest_gid = 0) ∧
  (e.has fFILETYPE = false → mIFMT &&& e.mode = 0) ∧ (e.has fPERM = false → ~~~mIFMT &&& e.mode = 0)

macro "truthful_tac" defs:Lean.Parser.Tactic.simpLemma,* : tactic => `(tactic| (
  intro h
  obtain ⟨h1, h2, h3, h4, h5, h6, h7, h8⟩ := h
  refine ⟨fun f => ?_, ?_, ?_, ?_, ?_, ?_, ?_, ?_⟩
  · have := h1 f; revert this
    cases f <;> simp (disch := decide) [Entry.has, TimeField.flag, timeSec, timeNsec, hasF_cond, hasF_or_assoc, hasF_or_self,
      hasF_andnot_self, hasF_or_disj, hasF_andnot_disj, $defs,*]
  all_goals (
    revert h2 h3 h4 h5 h6 h7 h8
    simp (disch := decide) [Entry.has, hasF_cond, hasF_or_assoc, hasF_or_self, hasF_andnot_self, hasF_or_disj, hasF_andnot_disj,
      bv_ft_ft, bv_ft_perm, bv_perm_perm, bv_perm_ft, $defs,*]
    try (intros; simp_all))))

theorem truthful_setUid (e : Entry) (u : Int) : Truthful e → Truthful (setUid e u) := by
  truthful_tac setUid
theorem truthful_setMode (e : Entry) (u : BitVec 32) : Truthful e → Truthful (setMode e u) := by
  truthful_tac setMode
theorem truthful_setPerm (e : Entry) (u : BitVec 32) : Truthful e → Truthful (setPerm e u) := by
  truthful_tac setPerm
theorem truthful_setLink (e : Entry) (u : Option Bytes) : Truthful e → Truthful (setLink e u) := by
  truthful_tac setLink
