import LA.Model.Acl
open LA.Acl LA.Gen.AclMaps
#check @Nat.and_two_pow
#check @Nat.and_or_distrib_left
#check @Nat.testBit_two_pow
#check @Nat.and_pow_two_sub_one_eq_mod
#check @Nat.and_two_pow_sub_one_eq_mod
#check @Nat.eq_of_testBit_eq
#check @Nat.or_assoc
#check @Nat.and_assoc
example : ∀ x ∈ permMap, ∃ k < 32, x.1 = 2 ^ k := by decide
example : (permMap.map (·.2)).Nodup := by decide
example : ∀ x ∈ permMap, lookup permParse x.2 = some x.1 := by decide
example : (fromText false {} (str "user:a#b:rwx") 256).toOption.map (·.acl.entries) = some [] := by decide
