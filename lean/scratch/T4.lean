import LA.Lemmas.Entry
open LA.Entry LA.Gen.EntryBits
set_option maxRecDepth 2000

theorem sparseCount_congr (e1 e2 : Entry) (h1 : e1.aest_size = e2.aest_size) (h2 : e1.sparse = e2.sparse) :
    (sparseCount e1).2 = (sparseCount e2).2 ∧ (sparseCount e1).1.sparse = (sparseCount e2).1.sparse := by
  unfold sparseCount size sparseClear
  rw [h1, h2]
  split
  · split <;> simp [h2]
  · simp [h2]

theorem stat_snd (e : Entry) : (stat e).2 = if e.stat_valid then e.stat_cache else statOf e := by
  unfold stat; split <;> rfl

theorem get_of_view (g : Getter) (e1 e2 : Entry) (h : view g.group e1 = view g.group e2) : obs g e1 = obs g e2 := by
  cases g <;>
    simp only [Getter.group, view, View.mk.injEq, List.cons.injEq, and_true, true_and] at h
  case sparseCount => simp only [obs, (sparseCount_congr e1 e2 h.1 h.2.1).1]
  case sparseBlocks => simp only [obs, (sparseCount_congr e1 e2 h.1 h.2.1).2]
  case stat =>
    simp only [obs, stat_snd, statOf, timeSec, timeNsec, dev, gid, uid, ino, nlink, rdev, rdevIsSet, size, mode, h]
    rfl
  all_goals
    simp only [obs, timeIsSet, dev, devmajor, devminor, devIsSet, rdev, rdevmajor, rdevminor, rdevIsSet,
      ino, inoIsSet, nlink, uid, uidIsSet, gid, gidIsSet, size, sizeIsSet, mode, filetype, filetypeIsSet, perm, permIsSet,
      strmode, getStr, hardlink, hardlinkIsSet, symlink, fflags, symlinkType, isDataEncrypted, isMetadataEncrypted, isEncrypted,
      xattrCount, macMetadata, digest, stat, statOf, h]
  all_goals rfl
