import LA.Lemmas.Entry
open LA.Entry LA.Gen.EntryBits
example (e1 : Entry) : view (.time .atime) (sparseCount e1).1 = view (.time .atime) e1 := by
  simp only [sparseCount_fst, sparseClear, size]
  simp only [view_ite]
  trace_state
  sorry
