import LA.Lemmas.ReadDataSeq
open LA.RD
example : (readData { state := .data, evs := [evOfBlock (2, [7, 8, 9])] } 4).1 = .ok [0, 0, 7, 8] := by
  simp [readData, readLoop, step, fetch, dataBlock, store, padCopy, padLen, evOfBlock]
example : (readData { state := .data, evs := [evOfBlock (0, [1, 2, 3]), evOfBlock (2, [9])] } 4).1
    = .err .retry [1, 2, 3] := by
  simp [readData, readLoop, step, fetch, dataBlock, store, padCopy, padLen, evOfBlock]
