example (a b : Int) (h : a ≤ b) : ((b - a).toNat : Int) = b - a := by omega
example (a b : Int) (s : Nat) (h : ¬ a + (s:Int) < b) (h2 : a < b) : (b - a).toNat ≤ s := by omega
#check @List.take_append
#check @List.drop_append
#check @List.take_replicate
#check @List.drop_replicate
#check @List.take_left'
#check @List.take_append_of_le_length
#check @List.take_length_add_append
