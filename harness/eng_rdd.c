/* Engine `rdd` (C06): archive_read_data / archive_read_data_block /
 * archive_read_data_skip / archive_read_next_header2 of the real archive_read.c,
 * driven over a SCRIPTED FORMAT registered through the private API.  The format's
 * read_header / read_data / read_data_skip hooks answer from the script, so every
 * block sequence (holes, empty blocks, disorder, errors anywhere) can be put in
 * front of the real code.
 *
 * ops:
 *   entry <hst> <size> nohook|hook:<st> <ev>... T<st>[:<off>]     (before open) -> "ok"
 *        ev = <st> (stores nothing) | <st>:<off>:<hex> (stores buff/size/offset)
 *   open | next_header | read_data <n> | read_data_block | data_skip
 * after each of these: the status/result, then
 *   st=<archive state> oo=<read_data_output_offset> of=<read_data_offset>
 *   rem=<read_data_remaining> pr=<read_data_is_posix_read> rq=<read_data_requested>
 *   fc=<file_count> ev=<format results of this entry used up>
 */
#include "common.h"
#include <archive.h>
#include <archive_entry.h>
#include "archive_private.h"
#include "archive_read_private.h"

#define MAXE 16
#define MAXV 64
struct ev { int st, has_out; long long off; unsigned char *b; size_t n; };
struct ent { int hst; long long size; int hook, hookst; struct ev ev[MAXV]; int nev; int tst, thas; long long toff; };
static struct ent E[MAXE]; static int nent;
static struct ent *cur; static int idx, pos;
static struct archive *a; static struct archive_entry *entry; static int opened;
static char dummy[8] = "scripted";

static int st_of(const char *s)
{
	if (!strcmp(s, "ok")) return ARCHIVE_OK; if (!strcmp(s, "eof")) return ARCHIVE_EOF;
	if (!strcmp(s, "retry")) return ARCHIVE_RETRY; if (!strcmp(s, "warn")) return ARCHIVE_WARN;
	if (!strcmp(s, "failed")) return ARCHIVE_FAILED; if (!strcmp(s, "fatal")) return ARCHIVE_FATAL;
	return 12345;
}

/* ---- the scripted format ---- */
static int fk_bid(struct archive_read *r, int best) { (void)r; (void)best; return 100; }

static int fk_skip(struct archive_read *r)
{
	(void)r;
	pos = cur->nev;
	return cur->hookst;
}

static int fk_read_header(struct archive_read *r, struct archive_entry *e)
{
	if (idx >= nent) return ARCHIVE_EOF;
	char name[16]; snprintf(name, sizeof name, "e%d", idx);
	cur = &E[idx++]; pos = 0;
	archive_entry_set_pathname(e, name);
	archive_entry_set_filetype(e, AE_IFREG);
	archive_entry_set_size(e, cur->size);
	r->format->read_data_skip = cur->hook ? fk_skip : NULL;
	return cur->hst;
}

static int fk_read_data(struct archive_read *r, const void **buff, size_t *size, int64_t *offset)
{
	(void)r;
	if (cur == NULL) return ARCHIVE_FATAL;
	if (pos < cur->nev) {
		struct ev *v = &cur->ev[pos++];
		if (v->has_out) { *buff = v->b; *size = v->n; *offset = v->off; }
		return v->st;
	}
	if (cur->thas) { *buff = NULL; *size = 0; *offset = cur->toff; }
	return cur->tst;
}

static int fk_cleanup(struct archive_read *r) { (void)r; return ARCHIVE_OK; }

static const char *state_name(unsigned s)
{
	switch (s) {
	case ARCHIVE_STATE_NEW: return "new"; case ARCHIVE_STATE_HEADER: return "header";
	case ARCHIVE_STATE_DATA: return "data"; case ARCHIVE_STATE_EOF: return "eof";
	case ARCHIVE_STATE_CLOSED: return "closed"; case ARCHIVE_STATE_FATAL: return "fatal";
	default: return "?";
	}
}

static void flags(void)
{
	printf(" st=%s oo=%lld of=%lld rem=%zu pr=%d rq=%zu fc=%d ev=%d\n", state_name(a->state),
	    (long long)a->read_data_output_offset, (long long)a->read_data_offset, a->read_data_remaining,
	    a->read_data_is_posix_read ? 1 : 0, a->read_data_requested, a->file_count, pos);
}

static void r_begin(void) { nent = 0; cur = NULL; idx = pos = 0; a = NULL; entry = NULL; opened = 0; memset(E, 0, sizeof E); }

static int parse_entry(char **w, int n)
{
	if (n < 5 || nent >= MAXE) return 0;
	struct ent *e = &E[nent];
	memset(e, 0, sizeof *e);
	if ((e->hst = st_of(w[1])) == 12345) return 0;
	e->size = strtoll(w[2], NULL, 10);
	if (!strcmp(w[3], "nohook")) e->hook = 0;
	else if (!strncmp(w[3], "hook:", 5)) { e->hook = 1; if ((e->hookst = st_of(w[3] + 5)) == 12345) return 0; }
	else return 0;
	for (int i = 4; i < n - 1; i++) {
		if (e->nev >= MAXV) return 0;
		struct ev *v = &e->ev[e->nev];
		char *c1 = strchr(w[i], ':');
		if (c1) {
			*c1 = 0; char *c2 = strchr(c1 + 1, ':'); if (!c2) return 0; *c2 = 0;
			v->has_out = 1; v->off = strtoll(c1 + 1, NULL, 10); v->b = vh_unhex(c2 + 1, &v->n);
		}
		if ((v->st = st_of(w[i])) == 12345) return 0;
		e->nev++;
	}
	char *t = w[n - 1];
	if (t[0] != 'T') return 0;
	char *c = strchr(t, ':');
	if (c) { *c = 0; e->thas = 1; e->toff = strtoll(c + 1, NULL, 10); }
	e->tst = st_of(t + 1);
	if (e->tst == 12345 || e->tst == ARCHIVE_OK) return 0;
	nent++;
	return 1;
}

static void r_op(char *line)
{
	static char *w[MAXV + 8];
	int n = vh_split(line, w, MAXV + 8);
	/* a (mutated) loop that never ends is a crash of this op, not a hang of the check; re-armed per op and
	 * switched off for the teardown, whose leak check can take seconds on a loaded machine */
	alarm(5);
	if (n >= 1 && !strcmp(w[0], "entry")) {
		if (opened || !parse_entry(w, n)) printf("bad-op\n"); else printf("ok\n");
	} else if (n == 1 && !strcmp(w[0], "open")) {
		if (opened) { printf("bad-op\n"); return; }
		a = archive_read_new();
		entry = archive_entry_new();
		int r = __archive_read_register_format((struct archive_read *)a, dummy, "script", fk_bid, NULL,
		    fk_read_header, fk_read_data, fk_skip, NULL, fk_cleanup, NULL, NULL);
		if (r == ARCHIVE_OK) r = archive_read_open_memory(a, dummy, sizeof dummy);
		opened = 1;
		printf("open %s", vh_st(r)); flags();
	} else if (!opened) {
		printf("bad-op\n");
	} else if (n == 1 && !strcmp(w[0], "next_header")) {
		int r = archive_read_next_header2(a, entry);
		printf("hdr %s", vh_st(r));
		if (archive_entry_pathname(entry)) printf(" ent=%s", archive_entry_pathname(entry)); else printf(" ent=-");
		if (archive_entry_size_is_set(entry)) printf(" size=%lld", (long long)archive_entry_size(entry)); else printf(" size=-");
		flags();
	} else if (n == 2 && !strcmp(w[0], "read_data")) {
		size_t s = (size_t)strtoull(w[1], NULL, 10);
		unsigned char *buf = malloc(s ? s : 1);      /* exact size: an overrun is an ASan report */
		memset(buf, 0xAA, s);
		la_ssize_t k = archive_read_data(a, buf, s);
		if (k < 0) printf("rd %s", vh_st((int)k));
		else if ((size_t)k > s) printf("rd OVER %zd", k);
		else { printf("rd %zd ", k); vh_puthex(buf, k > 32 ? 32 : (size_t)k); printf(" h=%llu", (unsigned long long)vh_fnv(buf, (size_t)k)); }
		free(buf);
		flags();
	} else if (n == 1 && !strcmp(w[0], "read_data_block")) {
		const void *p = NULL; size_t sz = 0; la_int64_t off = 0;
		int r = archive_read_data_block(a, &p, &sz, &off);
		printf("blk %s off=%lld len=%zu ", vh_st(r), (long long)off, sz);
		vh_puthex(p, p ? sz : 0);
		flags();
	} else if (n == 1 && !strcmp(w[0], "data_skip")) {
		int r = archive_read_data_skip(a);
		printf("skip %s", vh_st(r)); flags();
	} else printf("bad-op\n");
}

static void r_end(void)
{
	alarm(0);
	if (a) archive_read_free(a);
	if (entry) archive_entry_free(entry);
	for (int i = 0; i < nent; i++) for (int j = 0; j < E[i].nev; j++) free(E[i].ev[j].b);
}

int main(int argc, char **argv)
{
	struct vh_engine e = { r_begin, r_op, r_end };
	return vh_main(argc, argv, &e);
}
