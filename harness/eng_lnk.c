/* Engine `lnk` (C17): drives the real archive_entry_linkify(). */
#include "common.h"
#include <archive.h>
#include <archive_entry.h>

static struct archive_entry_linkresolver *res;
/* entries the caller currently owns and must free */
static struct archive_entry *owned[1 << 16]; static int nowned;

static void own(struct archive_entry *e) { if (e) owned[nowned++] = e; }

static void desc(const char *k, struct archive_entry *e)
{
	if (e == NULL) { printf("%s=null", k); return; }
	const char *p = archive_entry_pathname(e), *h = archive_entry_hardlink(e);
	printf("%s=%s:hl=%s:sz=%d", k, p ? p + 1 : "?", h ? h + 1 : "-", archive_entry_size_is_set(e) ? 1 : 0);
	/* fields the resolver must not touch */
	printf(":k=%lld/%lld/%u/%o", (long long)archive_entry_dev(e), (long long)archive_entry_ino64(e),
	    archive_entry_nlink(e), (unsigned)archive_entry_filetype(e));
}

static void l_begin(void) { res = archive_entry_linkresolver_new(); nowned = 0; }

static void l_op(char *line)
{
	char *w[8]; int n = vh_split(line, w, 8);
	if (n == 2 && strcmp(w[0], "strategy") == 0) {
		int f = ARCHIVE_FORMAT_TAR_USTAR;
		if (!strcmp(w[1], "mtree")) f = ARCHIVE_FORMAT_MTREE;
		else if (!strcmp(w[1], "oldcpio")) f = ARCHIVE_FORMAT_CPIO_POSIX;
		else if (!strcmp(w[1], "newcpio")) f = ARCHIVE_FORMAT_CPIO_SVR4_NOCRC;
		archive_entry_linkresolver_set_strategy(res, f);
		printf("ok\n");
	} else if (n == 6 && strcmp(w[0], "push") == 0) {
		struct archive_entry *e = archive_entry_new(), *f = NULL;
		char name[32]; snprintf(name, sizeof name, "e%s", w[1]);
		archive_entry_copy_pathname(e, name);
		archive_entry_set_dev(e, (dev_t)strtoll(w[2], NULL, 10));
		archive_entry_set_ino64(e, strtoll(w[3], NULL, 10));
		archive_entry_set_nlink(e, (unsigned)strtoul(w[4], NULL, 10));
		unsigned ft = AE_IFREG;
		if (!strcmp(w[5], "dir")) ft = AE_IFDIR; else if (!strcmp(w[5], "blk")) ft = AE_IFBLK;
		else if (!strcmp(w[5], "chr")) ft = AE_IFCHR; else if (!strcmp(w[5], "lnk")) ft = AE_IFLNK;
		else if (!strcmp(w[5], "fifo")) ft = AE_IFIFO;
		archive_entry_set_filetype(e, ft);
		archive_entry_set_size(e, 100);
		archive_entry_linkify(res, &e, &f);
		desc("e", e); putchar(' '); desc("f", f); putchar('\n');
		own(e); own(f);
	} else if (n == 1 && strcmp(w[0], "drain") == 0) {
		struct archive_entry *e = NULL, *f = NULL;
		archive_entry_linkify(res, &e, &f);
		desc("e", e); putchar(' '); desc("f", f); putchar('\n');
		own(e); own(f);
	} else if (n == 1 && strcmp(w[0], "partial") == 0) {
		unsigned links = 77;
		struct archive_entry *e = archive_entry_partial_links(res, &links);
		if (e == NULL) printf("p=null:links=%u\n", links);
		else { printf("p=%s:links=%u\n", archive_entry_pathname(e) + 1, links); own(e); }
	} else printf("bad-op\n");
}

static void l_end(void)
{
	for (int i = 0; i < nowned; i++) archive_entry_free(owned[i]);
	archive_entry_linkresolver_free(res);
}

int main(int argc, char **argv)
{
	struct vh_engine e = { l_begin, l_op, l_end };
	return vh_main(argc, argv, &e);
}
