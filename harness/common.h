/*
 * Shared scaffolding for the correspondence harness engines.
 *
 * Protocol: stdin carries cases.  A line "#case <id>" starts a case; every other
 * line is one operation.  For each operation the engine prints exactly one line.
 * Each case runs in a forked child so that a sanitizer abort or a signal is
 * attributed to the case: the parent then prints "!crash <what>" for the
 * operation in flight and for every remaining operation of that case.
 */
#ifndef VERIF_COMMON_H
#define VERIF_COMMON_H
#define _GNU_SOURCE
#include <stdio.h>
#include <stdlib.h>
#include <string.h>
#include <stdint.h>
#include <unistd.h>
#include <errno.h>
#include <signal.h>
#include <sys/types.h>
#include <sys/wait.h>

struct vh_engine {
	void (*begin)(void);            /* start of a case */
	void (*op)(char *line);         /* must print exactly one line to stdout */
	void (*end)(void);              /* end of a case (free everything) */
};

static int vh_nofork;

static uint64_t vh_fnv(const void *p, size_t n)
{
	const unsigned char *b = p; uint64_t h = 14695981039346656037ULL;
	for (size_t i = 0; i < n; i++) { h ^= b[i]; h *= 1099511628211ULL; }
	return h;
}

static int vh_hexval(int c)
{
	if (c >= '0' && c <= '9') return c - '0';
	if (c >= 'a' && c <= 'f') return c - 'a' + 10;
	if (c >= 'A' && c <= 'F') return c - 'A' + 10;
	return -1;
}

/* Decode hex ("-" = empty) into a fresh exact-size malloc block. */
static unsigned char *vh_unhex(const char *s, size_t *n)
{
	if (strcmp(s, "-") == 0) { *n = 0; return malloc(1); }
	size_t l = strlen(s) / 2; unsigned char *b = malloc(l ? l : 1);
	for (size_t i = 0; i < l; i++)
		b[i] = (unsigned char)(vh_hexval(s[2*i]) * 16 + vh_hexval(s[2*i+1]));
	*n = l; return b;
}

static void vh_puthex(const void *p, size_t n)
{
	const unsigned char *b = p;
	if (n == 0) { putchar('-'); return; }
	for (size_t i = 0; i < n; i++) printf("%02x", b[i]);
}

/* Status code -> small enum shared with the model. */
static const char *vh_st(int r)
{
	switch (r) {
	case 1: return "eof"; case 0: return "ok"; case -10: return "retry";
	case -20: return "warn"; case -25: return "failed"; case -30: return "fatal";
	default: return r > 0 ? "pos" : "other";
	}
}

/* Split a line into at most max words (in place). */
static int vh_split(char *line, char **w, int max)
{
	int n = 0; char *p = line;
	while (*p && n < max) {
		while (*p == ' ') p++;
		if (!*p) break;
		w[n++] = p;
		while (*p && *p != ' ') p++;
		if (*p) *p++ = 0;
	}
	return n;
}

static char **vh_lines; static size_t vh_nlines, vh_cap;

static void vh_run_case(const struct vh_engine *e, size_t from, size_t to)
{
	if (vh_nofork) {
		e->begin();
		for (size_t i = from; i < to; i++) { e->op(vh_lines[i]); fflush(stdout); }
		e->end();
		return;
	}
	int pfd[2];
	if (pipe(pfd) != 0) { perror("pipe"); exit(2); }
	fflush(stdout);
	pid_t pid = fork();
	if (pid == 0) {
		close(pfd[0]);
		e->begin();
		for (size_t i = from; i < to; i++) {
			e->op(vh_lines[i]); fflush(stdout);
			if (write(pfd[1], "x", 1) != 1) _exit(3);
		}
		e->end();
		fflush(stdout);
		exit(0);   /* runs LSan's at-exit leak check */
	}
	close(pfd[1]);
	size_t done = 0; char c;
	while (read(pfd[0], &c, 1) == 1) done++;
	close(pfd[0]);
	int st = 0; waitpid(pid, &st, 0);
	if (WIFEXITED(st) && WEXITSTATUS(st) == 0 && done == to - from) return;
	char what[64];
	if (WIFSIGNALED(st)) snprintf(what, sizeof what, "signal=%d", WTERMSIG(st));
	else snprintf(what, sizeof what, "exit=%d", WEXITSTATUS(st));
	if (done == to - from) {
		/* all operations answered, failure at teardown (leak report, free) */
		printf("!teardown %s\n", what);
	}
	for (size_t i = from + done; i < to; i++) printf("!crash %s\n", what);
	fflush(stdout);
}

static int vh_main(int argc, char **argv, const struct vh_engine *e)
{
	for (int i = 1; i < argc; i++) if (strcmp(argv[i], "--nofork") == 0) vh_nofork = 1;
	char *line = NULL; size_t cap = 0; ssize_t n;
	while ((n = getline(&line, &cap, stdin)) > 0) {
		if (line[n-1] == '\n') line[n-1] = 0;
		if (vh_nlines == vh_cap) { vh_cap = vh_cap ? vh_cap * 2 : 1024; vh_lines = realloc(vh_lines, vh_cap * sizeof *vh_lines); }
		vh_lines[vh_nlines++] = strdup(line);
	}
	free(line);
	size_t i = 0;
	while (i < vh_nlines) {
		if (strncmp(vh_lines[i], "#case", 5) == 0) { printf("%s\n", vh_lines[i]); i++; }
		size_t j = i;
		while (j < vh_nlines && strncmp(vh_lines[j], "#case", 5) != 0) j++;
		if (j > i) vh_run_case(e, i, j);
		i = j;
	}
	return 0;
}
#endif
