/*
 * Engine `match` (C16): drives the real archive_match_* API, one
 * archive_match object and one "current entry" per case.
 *
 * units: hex code units separated by ',', "-" = empty string, "null" = NULL.
 * A `w` variant hands the string to the _w entry point as wchar_t.
 *
 *   incl|excl <n|w> <pattern>          archive_match_{include,exclude}_pattern[_w]
 *   recursion <0|1>                    archive_match_set_inclusion_recursion
 *   time <flag> <sec> <nsec>           archive_match_include_time
 *   entry <n|w> <path> <msec> <mnsec> <cset> <csec> <cnsec> <uid> <gid> <uname> <gname>
 *                                      prints "ok <msec> <mnsec> <cset> <csec> <cnsec> <uid> <gid>" as the getters report them
 *   exent <flag>                       archive_match_exclude_entry(flag, current entry)
 *   uid|gid <id>   uname|gname <n|w> <name>
 *   q path|time|owner|all              archive_match_{path,time,owner}_excluded / archive_match_excluded
 *   unmatched                          archive_match_path_unmatched_inclusions
 *   unext <n|w>                        archive_match_path_unmatched_inclusions_next[_w]
 */
#include "common.h"
#include <locale.h>
#include <wchar.h>
#include <archive.h>
#include <archive_entry.h>

#define MAXU 4096
static struct archive *m;
static struct archive_entry *ent;
static uint32_t ub[MAXU + 8];

static long parse_units(const char *s, uint32_t *u)
{
	if (strcmp(s, "null") == 0) return -1;
	if (strcmp(s, "-") == 0) return 0;
	long n = 0;
	while (*s && n < MAXU) {
		char *e; u[n++] = (uint32_t)strtoul(s, &e, 16);
		if (e == s) break;
		s = (*e == ',') ? e + 1 : e;
	}
	return n;
}

/* exact-size heap copies so that ASan sees any access beyond the terminator */
static char *mk_n(const char *w) { long n = parse_units(w, ub); if (n < 0) return NULL; char *d = malloc((size_t)n + 1); for (long i = 0; i < n; i++) d[i] = (char)ub[i]; d[n] = 0; return d; }
static wchar_t *mk_w(const char *w) { long n = parse_units(w, ub); if (n < 0) return NULL; wchar_t *d = malloc(((size_t)n + 1) * sizeof *d); for (long i = 0; i < n; i++) d[i] = (wchar_t)ub[i]; d[n] = 0; return d; }

static const char *okf(int r) { return r == ARCHIVE_OK ? "ok" : vh_st(r); }

static void m_begin(void)
{
	setlocale(LC_ALL, "");
	m = archive_match_new();
	ent = archive_entry_new();
}

static void m_op(char *line)
{
	char *w[16]; int n = vh_split(line, w, 16);
	if (n == 3 && (!strcmp(w[0], "incl") || !strcmp(w[0], "excl"))) {
		int inc = w[0][0] == 'i', r;
		if (w[1][0] == 'w') { wchar_t *p = mk_w(w[2]); r = inc ? archive_match_include_pattern_w(m, p) : archive_match_exclude_pattern_w(m, p); free(p); }
		else { char *p = mk_n(w[2]); r = inc ? archive_match_include_pattern(m, p) : archive_match_exclude_pattern(m, p); free(p); }
		printf("%s\n", okf(r));
	} else if (n == 2 && !strcmp(w[0], "recursion")) {
		printf("%s\n", okf(archive_match_set_inclusion_recursion(m, atoi(w[1]))));
	} else if (n == 4 && !strcmp(w[0], "time")) {
		printf("%s\n", okf(archive_match_include_time(m, (int)strtol(w[1], NULL, 10), (time_t)strtoll(w[2], NULL, 10), strtol(w[3], NULL, 10))));
	} else if (n == 12 && !strcmp(w[0], "entry")) {
		int wide = w[1][0] == 'w';
		archive_entry_clear(ent);
		if (wide) {
			wchar_t *p = mk_w(w[2]), *u = mk_w(w[10]), *g = mk_w(w[11]);
			if (p) archive_entry_copy_pathname_w(ent, p);
			if (u) archive_entry_copy_uname_w(ent, u);
			if (g) archive_entry_copy_gname_w(ent, g);
			free(p); free(u); free(g);
		} else {
			char *p = mk_n(w[2]), *u = mk_n(w[10]), *g = mk_n(w[11]);
			if (p) archive_entry_copy_pathname(ent, p);
			if (u) archive_entry_copy_uname(ent, u);
			if (g) archive_entry_copy_gname(ent, g);
			free(p); free(u); free(g);
		}
		archive_entry_set_mtime(ent, (time_t)strtoll(w[3], NULL, 10), strtol(w[4], NULL, 10));
		if (atoi(w[5])) archive_entry_set_ctime(ent, (time_t)strtoll(w[6], NULL, 10), strtol(w[7], NULL, 10));
		archive_entry_set_uid(ent, strtoll(w[8], NULL, 10));
		archive_entry_set_gid(ent, strtoll(w[9], NULL, 10));
		/* what the criteria will read (the entry object normalises ids and nanoseconds: C14's business) */
		printf("ok %lld %ld %d %lld %ld %lld %lld\n", (long long)archive_entry_mtime(ent), archive_entry_mtime_nsec(ent),
		    archive_entry_ctime_is_set(ent) ? 1 : 0, (long long)archive_entry_ctime(ent), archive_entry_ctime_nsec(ent),
		    (long long)archive_entry_uid(ent), (long long)archive_entry_gid(ent));
	} else if (n == 2 && !strcmp(w[0], "exent")) {
		printf("%s\n", okf(archive_match_exclude_entry(m, (int)strtol(w[1], NULL, 10), ent)));
	} else if (n == 2 && !strcmp(w[0], "uid")) {
		printf("%s\n", okf(archive_match_include_uid(m, strtoll(w[1], NULL, 10))));
	} else if (n == 2 && !strcmp(w[0], "gid")) {
		printf("%s\n", okf(archive_match_include_gid(m, strtoll(w[1], NULL, 10))));
	} else if (n == 3 && (!strcmp(w[0], "uname") || !strcmp(w[0], "gname"))) {
		int u = w[0][0] == 'u', r;
		if (w[1][0] == 'w') { wchar_t *p = mk_w(w[2]); r = u ? archive_match_include_uname_w(m, p) : archive_match_include_gname_w(m, p); free(p); }
		else { char *p = mk_n(w[2]); r = u ? archive_match_include_uname(m, p) : archive_match_include_gname(m, p); free(p); }
		printf("%s\n", okf(r));
	} else if (n == 2 && !strcmp(w[0], "q")) {
		int r;
		if (!strcmp(w[1], "path")) r = archive_match_path_excluded(m, ent);
		else if (!strcmp(w[1], "time")) r = archive_match_time_excluded(m, ent);
		else if (!strcmp(w[1], "owner")) r = archive_match_owner_excluded(m, ent);
		else r = archive_match_excluded(m, ent);
		printf("r=%d\n", r);
	} else if (n == 1 && !strcmp(w[0], "unmatched")) {
		printf("n=%d\n", archive_match_path_unmatched_inclusions(m));
	} else if (n == 2 && !strcmp(w[0], "unext")) {
		int r; int hi = 0;
		if (w[1][0] == 'w') {
			const wchar_t *p = NULL; r = archive_match_path_unmatched_inclusions_next_w(m, &p);
			if (r == ARCHIVE_EOF) { printf("eof\n"); return; }
			if (r != ARCHIVE_OK || p == NULL) { printf("%s\n", vh_st(r)); return; }
			for (const wchar_t *q = p; *q; q++) if ((uint32_t)*q >= 128) hi = 1;
			if (hi) { printf("ok ?\n"); return; }
			printf("ok "); if (!*p) putchar('-');
			for (const wchar_t *q = p; *q; q++) printf("%s%x", q == p ? "" : ",", (unsigned)*q);
			putchar('\n');
		} else {
			const char *p = NULL; r = archive_match_path_unmatched_inclusions_next(m, &p);
			if (r == ARCHIVE_EOF) { printf("eof\n"); return; }
			if (r != ARCHIVE_OK || p == NULL) { printf("%s\n", vh_st(r)); return; }
			for (const char *q = p; *q; q++) if ((unsigned char)*q >= 128) hi = 1;
			if (hi) { printf("ok ?\n"); return; }
			printf("ok "); if (!*p) putchar('-');
			for (const char *q = p; *q; q++) printf("%s%x", q == p ? "" : ",", (unsigned char)*q);
			putchar('\n');
		}
	} else printf("bad-op\n");
}

static void m_end(void)
{
	archive_entry_free(ent);
	archive_match_free(m);
}

int main(int argc, char **argv)
{
	struct vh_engine e = { m_begin, m_op, m_end };
	return vh_main(argc, argv, &e);
}
