#include "archive_write_set_format_gnutar.c"
#include "codec_inc.h"
int vhx_gnutar_format_octal(int64_t v, char *p, int s) { return format_octal(v, p, s); }
int vhx_gnutar_format_number(int64_t v, char *p, int s, int max) { return format_number(v, p, s, max); }
